/-
C07 — Tie: the statement skeletons the extractor read from core/syncx/{singleflight,lockedcalls,resourcemanager}.go
*now* are the ones the models' step tables were written against.  `SF.stmt pc` is the statement the model's
row `pc` stands for; a reordered delete/Done, a dropped lock, a changed `fresh` flag, a different map key, an
extra or missing statement breaks an obligation here.
-/
import GoZero.Extracted.C07
import GoZero.C07.Model
namespace GoZero.C07.Tie
open GoZero.Extracted.C07

theorem extraction_clean : extractionErrors = [] := by decide

/-! ### SingleFlight -/
open SF in
/-- `createCall`: lock; look the key up; found → unlock, wait, (done = true); else allocate, Add(1), publish, unlock. -/
theorem tie_createCall : createCallShape =
    [stmt .l0, stmt .l1, "if ok {", stmt .w0, stmt .w1, "return c, true", "}",
     stmt .n0, stmt .n1, stmt .n2, stmt .n3, "return c, false"] := by decide

open SF in
/-- `makeCall`: run fn, store its result; deferred: lock, **delete the entry, unlock, then Done**.  The cleanup is a
`defer`red function registered before `fn` is called, so it also runs when `fn` panics (model rows `mp` → `d0 … d3` → `px`;
the store `m2` is skipped). -/
theorem tie_makeCall : makeCallShape =
    ["defer{", "func{", stmt .d0, stmt .d1, stmt .d2, stmt .d3, "}", "call func", "}",
     stmt .m0, stmt .m2, "store c.err"] := by decide

open SF in
/-- `DoEx`: joiners (`done`) are reported `fresh = false`, the executing caller `fresh = true`. -/
theorem tie_doEx : doExShape =
    ["call g.createCall(key)", "if done {", stmt .w2, "}", "call g.makeCall(c, key, fn)", stmt .r0] := by decide

/-- `Do` is `DoEx` without the flag. -/
theorem tie_do : doShape =
    ["call g.createCall(key)", "if done {", "return c.val, c.err", "}", "call g.makeCall(c, key, fn)",
     "return c.val, c.err"] := by decide

theorem tie_newSingleFlight : newSingleFlightShape = ["return &flightGroup{ calls: make(map[string]*call), }"] := by
  decide

/-! ### LockedCalls -/
open LC in
/-- `lockedGroup.Do`: lock; somebody registered for the key → unlock, wait, **retry from the top**; else makeCall
(still holding the mutex). -/
theorem tie_lockedDo : lockedDoShape =
    ["label begin", stmt .b0, stmt .b1, "if ok {", stmt .b2, stmt .b3, "goto begin", "}",
     "call lg.makeCall(key, fn)", stmt .e4] := by decide

open LC in
/-- `lockedGroup.makeCall`: Add(1), register, unlock, run the caller's own fn; deferred: lock, **delete, unlock,
then Done** (registered with `defer` before `fn` runs: also executed when `fn` panics, rows `fp` → `e0 … e3` → `px`). -/
theorem tie_lockedMakeCall : lockedMakeCallShape =
    [stmt .c0, stmt .c1, stmt .c2, stmt .c3,
     "defer{", "func{", stmt .e0, stmt .e1, stmt .e2, stmt .e3, "}", "call func", "}",
     stmt .f0, stmt .e4] := by decide

theorem tie_newLockedCalls : newLockedCallsShape = ["return &lockedGroup{ m: make(map[string]*sync.WaitGroup), }"] := by
  decide

/-! ### ResourceManager -/
open RM in
/-- `GetResource`: the closure handed to `singleFlight.Do` — read-locked lookup, return the stored instance if
present, else `create`, return its error, else store under the write lock and return the new instance. -/
theorem tie_getResource : getResourceShape =
    ["func{", stmt .g0, stmt .g1, stmt .g2, stmt .g3, "return resource, nil", "}",
     stmt .g4, stmt .g5, "return nil, err", "}",
     stmt .g6, "defer{", stmt .g8, "}", stmt .g7, "return resource, nil", "}",
     "call manager.singleFlight.Do(key, func)", "if err != nil {", "return nil, err", "}",
     "return val.(io.Closer), nil"] := by decide

/-- the manager's flight group is the `SingleFlight` of singleflight.go (whose skeleton is tied above). -/
theorem tie_newResourceManager : newResourceManagerShape =
    ["return &ResourceManager{ resources: make(map[string]io.Closer), singleFlight: NewSingleFlight(), }"] := by
  decide

/-- `Inject`: one write-locked map store — the atomic `RM.inject` of the model (used by the correspondence runs to
pre-register resources; outside `RM.Reach`). -/
theorem tie_rmInject : rmInjectShape =
    ["call manager.lock.Lock()", "mapset manager.resources[key] = resource", "call manager.lock.Unlock()"] := by decide

/-- `Close`: under the write lock, close every held resource, then drop the map (the manager must not be used
afterwards: a later `GetResource` would store into a nil map).  The correspondence runs call it after all calls
returned and check that exactly the held instances were closed, once each. -/
theorem tie_rmClose : rmCloseShape =
    ["call manager.lock.Lock()", "defer{", "call manager.lock.Unlock()", "}", "var be",
     "range manager.resources {", "call resource.Close()", "if err != nil {", "call be.Add(err)", "}", "}",
     "store manager.resources", "call be.Err()", "return <call>"] := by decide

/-! ### the synchronisation objects are the ones the rows' semantics were written for
(`sync.Mutex`: exclusive; `sync.WaitGroup`: counter, `Wait` passes iff 0; `sync.RWMutex`: one writer or many readers;
the maps are keyed by the caller's key string) -/
theorem tie_callFields : callFields = ["wg sync.WaitGroup", "val any", "err error"] := by decide
theorem tie_flightGroupFields : flightGroupFields = ["calls map[string]*call", "lock sync.Mutex"] := by decide
theorem tie_lockedGroupFields : lockedGroupFields = ["mu sync.Mutex", "m map[string]*sync.WaitGroup"] := by decide
theorem tie_resourceManagerFields : resourceManagerFields =
    ["resources map[string]io.Closer", "singleFlight SingleFlight", "lock sync.RWMutex"] := by decide

/-! ### the users named in the property's anchors
`cacheNode.doTake` and `collection.Cache.Take` put exactly one `SingleFlight` call around the load, keyed by the
cache key itself (so "one execution per key" is "one load per cache key"). -/
theorem tie_cacheNode_barrier : cacheNodeBarrierCalls = ["c.barrier.DoEx(key, func)"] := by decide
theorem tie_collectionCache_barrier : collectionCacheBarrierCalls = ["c.barrier.Do(key, func)"] := by decide
theorem tie_collectionCache_ctor : collectionCacheBarrierCtor = ["syncx.NewSingleFlight()"] := by decide

/-- `collection.Cache.Take` = unlocked lookup (hit → return) ; `barrier.Do(key, closure)` with the closure of the
same form as `GetResource`'s: look the key up again (`RM` row g1/g3: found → return it), run the loader (g4), on error
return it uncached (g5), else store (g7) and return the loaded value; joiners and leader alike return the flight's
`val`.  This is why its histories are checked against the `RM` model and monitor (harness TestVerifC07Collection). -/
theorem tie_collectionTake : collectionTakeShape =
    ["call c.doGet(key)", "if ok {", "call c.stats.IncrementHit()", "return val, nil", "}",
     "var fresh",
     "func{", "call c.doGet(key)", "if ok {", "return val, nil", "}",
     "call fetch()", "if e != nil {", "return nil, e", "}",
     "call c.Set(key, v)", "return v, nil", "}",
     "call c.barrier.Do(key, func)", "if err != nil {", "return nil, err", "}",
     "if fresh {", "call c.stats.IncrementMiss()", "return val, nil", "}",
     "call c.stats.IncrementHit()", "return val, nil"] := by decide

/-- `cacheNode.doTake`: the closure handed to the flight starts with the cache read for the same key, … -/
theorem tie_doTake_reads_cache_first : cacheNodeDoTakeShape.take 2 = ["func{", "call c.doGetCache(ctx, key, v)"] := by
  decide
/-- … queries the database exactly once, writes the cache after it, … -/
theorem tie_doTake_one_query :
    cacheNodeDoTakeShape.filter (fun t => t = "call query(v)" || t = "call cacheVal(v)" || t = "call c.setCacheWithNotFound(ctx, key)")
      = ["call query(v)", "call c.setCacheWithNotFound(ctx, key)", "call cacheVal(v)"] := by decide
/-- … hands the marshalled row to the flight; after the flight: an error goes to everyone, the fresh caller keeps
its own `v`, every joiner unmarshals the *leader's* bytes into its own `v`. -/
theorem tie_doTake_after_flight :
    cacheNodeDoTakeShape.dropWhile (fun t => t ≠ "call jsonx.Marshal(v)") =
      ["call jsonx.Marshal(v)", "return <call>", "}",
       "call c.barrier.DoEx(key, func)", "if err != nil {", "return err", "}", "if fresh {", "return nil", "}",
       "call c.stat.IncrementTotal()", "call c.stat.IncrementHit()",
       "call jsonx.Unmarshal(val.([]byte), v)", "return <call>"] := by decide

/-- sqlc and monc hand ONE process-wide flight group to every cache (node) they build: flights are keyed by the
cache key across all models of the process. -/
theorem tie_sqlc_flight : sqlcFlightVar = ["singleFlights = syncx.NewSingleFlight()"] ∧
    sqlcFlightUses = ["NewConn: cache.New(c, singleFlights, stats, sql.ErrNoRows, opts)",
                      "NewNodeConn: cache.NewNode(rds, singleFlights, stats, sql.ErrNoRows, opts)"] := by decide
theorem tie_monc_flight : moncFlightVar = ["singleFlight = syncx.NewSingleFlight()"] ∧
    moncFlightUses = ["NewModel: cache.New(conf, singleFlight, stats, mongo.ErrNoDocuments, opts)",
                      "NewNodeModel: cache.NewNode(rds, singleFlight, stats, mongo.ErrNoDocuments, opts)"] := by decide

/-- the process-wide ResourceManagers: redis clients / clusters keyed by address, mongo clients by url (plus the
`Inject` test hook), sql connections by data-source name — one `GetResource` call each, nothing else touches them. -/
theorem tie_redis_managers :
    redisClientManagerVar = ["clientManager = syncx.NewResourceManager()"] ∧
    redisClientManagerUses = ["getClient: clientManager.GetResource(r.Addr, func)"] ∧
    redisClusterManagerVar = ["clusterManager = syncx.NewResourceManager()"] ∧
    redisClusterManagerUses = ["getCluster: clusterManager.GetResource(r.Addr, func)"] := by decide
theorem tie_mon_manager :
    monClientManagerVar = ["clientManager = syncx.NewResourceManager()"] ∧
    monClientManagerUses = ["Inject: clientManager.Inject(key, &ClosableClient{client})",
                            "getClient: clientManager.GetResource(url, func)"] := by decide
theorem tie_sqlx_manager :
    sqlxConnManagerVar = ["connManager = syncx.NewResourceManager()"] ∧
    sqlxConnManagerUses = ["getCachedSqlConn: connManager.GetResource(server, func)"] := by decide

/-! ### Round 4: the functions `Take` / `doTake` call on the property's path, the constructors' wiring -/

/-- the rows of `RM` under `Cfg.cacheTake`: which statement of core/collection/cache.go each stands for. -/
def takeStmt : RM.PC → String
  | .p0 | .g0 => "call c.lock.Lock()"          -- doGet
  | .p1 | .g1 => "mapget c.data[key]"
  | .p2 | .g2 => "call c.lock.Unlock()"
  | .p3 | .g3 => "if ok {"
  | .g4 => "call fetch()"
  | .g5 => "if e != nil {"
  | .g6 => "call c.lock.Lock()"                 -- Set → SetWithExpire
  | .g7 => "mapset c.data[key] = value"
  | .g8 => "call c.lock.Unlock()"
  | _ => "(singleflight)"

/-- `Cache.doGet` (rows p0…p2 in front of the flight and g0…g2 inside it): lookup of `c.data[key]` under `c.lock`
(a `sync.Mutex`; the model's read lock only adds schedules), `ok` returned as read. -/
theorem tie_collectionDoGet : collectionDoGetShape =
    [takeStmt .p0, "defer{", takeStmt .p2, "}", takeStmt .p1, "if ok {", "call c.lruCache.add(key)", "}",
     "return value, ok"] := by decide

/-- `Cache.Set` / `SetWithExpire` (rows g6…g8): the store into `c.data[key]` under `c.lock`, key and value as passed. -/
theorem tie_collectionSet : collectionSetShape = ["call c.SetWithExpire(key, value, c.expire)"] ∧
    collectionSetWithExpireShape =
      [takeStmt .g6, takeStmt .g7, "call c.lruCache.add(key)", takeStmt .g8,
       "call c.unstableExpiry.AroundDuration(expire)", "call c.timingWheel.SetTimer(key, value, expiry)"] := by decide

/-- `Cache.Take` row by row (replaces the bare string list): front lookup p0…p3, closure g0…g5, store g6…g8. -/
theorem tie_collectionTake_rows : collectionTakeShape =
    ["call c.doGet(key)", takeStmt .p3, "call c.stats.IncrementHit()", "return val, nil", "}",
     "var fresh",
     "func{", "call c.doGet(key)", takeStmt .g3, "return val, nil", "}",
     takeStmt .g4, takeStmt .g5, "return nil, e", "}",
     "call c.Set(key, v)", "return v, nil", "}",
     "call c.barrier.Do(key, func)", "if err != nil {", "return nil, err", "}",
     "if fresh {", "call c.stats.IncrementMiss()", "return val, nil", "}",
     "call c.stats.IncrementHit()", "return val, nil"] := by decide

/-- `NewCache` wires a flight group of its own and an empty map into every Cache (per instance: nothing shared). -/
theorem tie_newCache_fields :
    collectionNewCacheFields =
      ["data: make(map[string]any)", "expire: expire", "lruCache: emptyLruCache", "barrier: syncx.NewSingleFlight()",
       "unstableExpiry: mathx.NewUnstable(expiryDeviation)"] := by decide

/-- `NewNode` stores the flight group, the redis handle and the not-found error it was given (the group may be shared
between nodes: sqlc / monc pass one per process). -/
theorem tie_newNode_fields :
    cacheNodeNewNodeFields.filter (fun f => f = "barrier: barrier" || f = "rds: rds" || f = "errNotFound: errNotFound") =
      ["rds: rds", "barrier: barrier", "errNotFound: errNotFound"] ∧ cacheNodeNewNodeFields.length = 9 := by decide

/-- both entry points of `doTake` forward the caller's `val`, `key` and `query` unchanged. -/
theorem tie_cacheNode_entry_points :
    cacheNodeTakeShape = ["call context.Background()", "call c.TakeCtx(context.Background(), val, key, query)", "return <call>"] ∧
    cacheNodeTakeCtxShape = ["func{", "call c.SetCtx(ctx, key, v)", "return <call>", "}",
                             "call c.doTake(ctx, val, key, query, func)", "return <call>"] ∧
    cacheNodeTakeWithExpireShape = ["call context.Background()",
                                    "call c.TakeWithExpireCtx(context.Background(), val, key, query)", "return <call>"] ∧
    cacheNodeTakeWithExpireCtxShape = ["call c.aroundDuration(c.expiry)", "func{", "call query(v, expire)", "return <call>", "}",
                                       "func{", "call c.SetWithExpireCtx(ctx, key, v, expire)", "return <call>", "}",
                                       "call c.doTake(ctx, val, key, func, func)", "return <call>"] ∧
    cacheNodeSetCtxShape = ["call c.aroundDuration(c.expiry)",
                            "call c.SetWithExpireCtx(ctx, key, val, c.aroundDuration(c.expiry))", "return <call>"] := by decide

/-- `doGetCache` (row g1 of `Cfg.doTake`): redis GET of the same key; empty → `errNotFound` (a miss), the placeholder →
`errPlaceholder`, else the cached row is unmarshalled into the caller's `v`. -/
theorem tie_doGetCache : cacheNodeDoGetCacheShape =
    ["call c.stat.IncrementTotal()", "call c.rds.GetCtx(ctx, key)", "if err != nil {", "call c.stat.IncrementMiss()",
     "return err", "}", "if len(data) == 0 {", "call c.stat.IncrementMiss()", "return c.errNotFound", "}",
     "call c.stat.IncrementHit()", "if data == notFoundPlaceholder {", "return errPlaceholder", "}",
     "call c.processCache(ctx, key, data, v)", "return <call>"] := by decide

/-- the whole closure of `doTake` (error classification included): cache read; placeholder → not found; other error →
returned, no query; miss → `query`; not found → placeholder written, not found; error → returned; else `cacheVal`. -/
theorem tie_doTake_closure :
    cacheNodeDoTakeShape.takeWhile (fun t => t ≠ "call jsonx.Marshal(v)") =
      ["func{", "call c.doGetCache(ctx, key, v)", "if err != nil {",
       "if errors.Is(err, errPlaceholder) {", "return nil, c.errNotFound", "}",
       "else{", "if !errors.Is(err, c.errNotFound) {", "return nil, err", "}", "}",
       "call query(v)", "if errors.Is(err, c.errNotFound) {", "call c.setCacheWithNotFound(ctx, key)",
       "if err != nil {", "call logger.Error(err)", "}", "return nil, c.errNotFound", "}",
       "else{", "if err != nil {", "call c.stat.IncrementDbFails()", "return nil, err", "}", "}",
       "call cacheVal(v)", "if err != nil {", "call logger.Error(err)", "}", "}"] := by decide

/-! ### Round 4: decision conditions translated to Lean (extract/c07.go `c07Branches`) and compared with the models'
branching for ALL values of their atoms — a negated or swapped condition breaks these even if the skeleton survives. -/

/-- `createCall`: exit 0 (`return c, true`: join) iff the key is in `g.calls` — the model's row `l1` branches the same way. -/
theorem tie_createCall_branch (s : SF.St) (t : Tid) (x : Nat) (h : s.pc t = .l1) :
    (SF.step s t x).map (fun s' => s'.pc t) =
      some (if createCallBranch (s.calls (s.key t)).isSome = 0 then .w0 else .n0) := by
  unfold SF.step; rw [h]
  cases hc : s.calls (s.key t) <;> simp [createCallBranch, upd]
theorem tie_createCall_exits : createCallBranchExits = ["return c, true", "return c, false"] := by decide

/-- `DoEx`: `done` (joiner) takes the exit that reports `fresh = false` (row `w2`), the leader the one with `true` (`r0`);
`Do` branches the same way. -/
theorem tie_doEx_branch : ∀ done, doExBranchExits[doExBranch done]? = some (SF.stmt (if done then .w2 else .r0))
    ∧ doBranch done = doExBranch done := by decide
/-- … and those rows record exactly these flags. -/
theorem tie_doEx_fresh_model (s : SF.St) (t : Tid) (x : Nat) :
    (s.pc t = .w2 → ((SF.step s t x).bind (·.rets.head?)).map (·.fresh) = some false) ∧
    (s.pc t = .r0 → ((SF.step s t x).bind (·.rets.head?)).map (·.fresh) = some true) := by
  constructor <;> intro h <;> unfold SF.step <;> rw [h] <;> simp

/-- `lockedGroup.Do`: key registered → wait and `goto begin` (rows b2, b3 → b0), else `makeCall` (c0). -/
theorem tie_lockedDo_branch (s : LC.St) (t : Tid) (x : Nat) (h : s.pc t = .b1) :
    (LC.step s t x).map (fun s' => s'.pc t) =
      some (if lockedDoBranch (s.m (s.key t)).isSome = 0 then .b2 else .c0) := by
  unfold LC.step; rw [h]
  cases hc : s.m (s.key t) <;> simp [lockedDoBranch, upd]
theorem tie_lockedDo_exits : lockedDoBranchExits = ["goto begin", "return lg.makeCall(key, fn)"] := by decide
theorem tie_lockedDo_retry (s : LC.St) (t : Tid) (x : Nat) (h : s.pc t = .b3) (hw : s.wg (s.reg t) = 0) :
    (LC.step s t x).map (fun s' => s'.pc t) = some .b0 := by
  unfold LC.step; rw [h]; simp [hw, upd]

/-- the closure of `GetResource` / `Cache.Take`: found → exit 0 (the stored instance, no load); load failed → exit 1
(the error, nothing stored); else exit 2 (store, return the new instance) — rows g3 and g5 branch the same way. -/
theorem tie_closure_branch_g3 (s : RM.St) (t : Tid) (x : Nat) (h : s.pc t = .g3) (hx : x = 0 ∨ s.cfg.lerr = false) :
    (RM.step s t x).map (fun s' => s'.pc t) =
      some (if getResourceClosureBranch (s.found t) false = 0 then .m2 else .g4) := by
  unfold RM.step; rw [h]
  cases hf : s.found t <;> rcases hx with hx | hx <;> simp [getResourceClosureBranch, upd, hx]
theorem tie_closure_branch_g5 (s : RM.St) (t : Tid) (x : Nat) (h : s.pc t = .g5) :
    (RM.step s t x).map (fun s' => s'.pc t) =
      some (if getResourceClosureBranch false (x == 0) = 1 then .m2 else .g6) := by
  unfold RM.step; rw [h]
  by_cases hx : x = 0 <;> simp [getResourceClosureBranch, upd, hx]
theorem tie_closure_exits :
    getResourceClosureBranchExits = ["return resource, nil", "return nil, err", "return resource, nil"] ∧
    collectionTakeClosureBranchExits = ["return val, nil", "return nil, e", "return v, nil"] ∧
    (∀ a b, collectionTakeClosureBranch a b = getResourceClosureBranch a b) := by decide

/-- what distinguishes the users (`Cfg`): `Cache.Take` has an exit in front of the flight (`pre`, row p3 branches on
`found` like exit 0 of `collectionTakeBranch`) and no type assertion after it; `GetResource` starts with the flight and
asserts `val.(io.Closer)`; `doTake` starts with the flight and asserts `val.([]byte)`. -/
theorem tie_cfg_users :
    (∀ e f, collectionTakeBranch true e f = 0) ∧ (∀ e f, collectionTakeBranch false e f ≠ 0) ∧
    collectionTakeBranchExits = ["return val, nil", "return nil, err", "return val, nil", "return val, nil"] ∧
    Cfg.cacheTake = { pre := true, asrt := false } ∧
    getResourceShape.head? = some "func{" ∧ getResourceBranchExits = ["return nil, err", "return val.(io.Closer), nil"] ∧
    (∀ e, getResourceBranch e = if e then 0 else 1) ∧
    Cfg.getResource = { pre := false, asrt := true } ∧
    cacheNodeDoTakeShape.head? = some "func{" ∧ cacheNodeDoTakeShape.getLast? = some "return <call>" ∧
    cacheNodeDoTakeShape.contains "call jsonx.Unmarshal(val.([]byte), v)" = true ∧
    Cfg.doTake = { pre := false, asrt := true, lerr := true } ∧ Cfg.getResource.lerr = false ∧ Cfg.cacheTake.lerr = false := by decide
theorem tie_front_lookup_p3 (s : RM.St) (t : Tid) (x : Nat) (h : s.pc t = .p3) :
    (RM.step s t x).map (fun s' => s'.pc t) =
      some (if collectionTakeBranch (s.found t) false false = 0 then .idle else .l0) := by
  unfold RM.step; rw [h]
  cases hf : s.found t <;> simp [collectionTakeBranch, upd]

/-- the wait group is incremented by exactly 1 (and released by one `Done`): `Wait` passes iff the leader is past `Done`. -/
theorem tie_wgAdd : sfWgAdd = [1] ∧ lcWgAdd = [1] := by decide
theorem tie_wgAdd_model (s : SF.St) (l : LC.St) (t : Tid) (x : Nat) :
    (s.pc t = .n1 → (SF.step s t x).map (fun s' => s'.wg (s.reg t)) = some (s.wg (s.reg t) + 1)) ∧
    (l.pc t = .c1 → (LC.step l t x).map (fun s' => s'.wg (l.reg t)) = some (l.wg (l.reg t) + 1)) := by
  constructor <;> intro h
  · unfold SF.step; rw [h]; simp [upd]
  · unfold LC.step; rw [h]; simp [upd]

/-! ### Round 5: the ORDER OF EFFECTS as typed lists (extract/c07.go `c07Effects`) with a semantic reading: every row of
the models does to the state exactly what the effect read from the source at that position says (`sf_eff_sound`,
`lc_eff_sound`: for ALL states, goroutines and inputs). -/

/-- the effect each `SF` row stands for. -/
def sfEff : SF.PC → Eff
  | .l0 => .lock "g.lock" | .l1 => .mapGet "g.calls" "key" | .w0 => .unlock "g.lock" | .w1 => .wgWait "c.wg"
  | .n0 => .alloc "c" | .n1 => .wgAdd "c.wg" 1 | .n2 => .mapSet "g.calls" "key" "c" | .n3 => .unlock "g.lock"
  | .m0 => .callFn | .m2 => .store "c.val"
  | .d0 => .lock "g.lock" | .d1 => .mapDel "g.calls" "key" | .d2 => .unlock "g.lock" | .d3 => .wgDone "c.wg"
  | _ => .other "-"

theorem tie_createCall_effects : createCallEffects =
    [sfEff .l0, sfEff .l1, .ifc "ok", sfEff .w0, sfEff .w1, .ret "c, true", .close,
     sfEff .n0, sfEff .n1, sfEff .n2, sfEff .n3, .ret "c, false"] := by decide

/-- the cleanup is registered (`defer`) BEFORE the user's function is called; inside it: lock, delete, unlock, Done. -/
theorem tie_makeCall_effects : makeCallEffects =
    [.deferBegin, .funcBegin, sfEff .d0, sfEff .d1, sfEff .d2, sfEff .d3, .close, .callLit, .close,
     sfEff .m0, sfEff .m2, .store "c.err"] := by decide

/-- what an effect does to the state of `SF` when goroutine `t` performs it (`s` before, `s'` after). -/
def sfEffSem (e : Eff) (s s' : SF.St) (t : Tid) : Prop :=
  match e with
  | .lock _ => s.lock = none ∧ s'.lock = some t ∧ s'.calls = s.calls ∧ s'.wg = s.wg
  | .unlock _ => s'.lock = none ∧ s'.calls = s.calls ∧ s'.wg = s.wg
  | .mapGet _ _ => s'.calls = s.calls ∧ s'.lock = s.lock ∧ s'.wg = s.wg ∧ (∀ c, s.calls (s.key t) = some c → s'.reg t = c)
  | .mapSet _ _ _ => s'.calls (s.key t) = some (s.reg t) ∧ (∀ k, k ≠ s.key t → s'.calls k = s.calls k) ∧ s'.lock = s.lock
  | .mapDel _ _ => s'.calls (s.key t) = none ∧ (∀ k, k ≠ s.key t → s'.calls k = s.calls k) ∧ s'.lock = s.lock
  | .wgAdd _ n => (s'.wg (s.reg t) : Int) = s.wg (s.reg t) + n ∧ s'.calls = s.calls
  | .wgDone _ => s'.wg (s.reg t) = s.wg (s.reg t) - 1 ∧ s'.calls = s.calls ∧ s'.lock = s.lock
  | .wgWait _ => s.wg (s.reg t) = 0 ∧ s'.wg = s.wg ∧ s'.calls = s.calls
  | .alloc _ => s'.reg t = s.next ∧ s'.next = s.next + 1 ∧ s'.wg s.next = 0 ∧ s'.cval s.next = 0 ∧ s'.calls = s.calls
  | .store _ => s'.cval (s.reg t) = s.tmp t ∧ s'.calls = s.calls ∧ s'.wg = s.wg
  | _ => True

/-- every step of the model performs the effect its row is tied to — for all states, goroutines and inputs. -/
theorem sf_eff_sound (s s' : SF.St) (t : Tid) (x : Nat) (h : SF.step s t x = some s') :
    sfEffSem (sfEff (s.pc t)) s s' t := by
  unfold SF.step at h
  cases hpc : s.pc t <;> rw [hpc] at h <;> simp only [sfEff, sfEffSem] <;>
    (try split at h) <;> (try split at h) <;> simp at h <;> (try subst h) <;> simp_all [upd] <;> (try omega)

/-- the effect each `LC` row stands for. -/
def lcEff : LC.PC → Eff
  | .b0 => .lock "lg.mu" | .b1 => .mapGet "lg.m" "key" | .b2 => .unlock "lg.mu" | .b3 => .wgWait "wg"
  | .c0 => .alloc "wg" | .c1 => .wgAdd "wg" 1 | .c2 => .mapSet "lg.m" "key" "&wg" | .c3 => .unlock "lg.mu"
  | .f0 => .callFn
  | .e0 => .lock "lg.mu" | .e1 => .mapDel "lg.m" "key" | .e2 => .unlock "lg.mu" | .e3 => .wgDone "wg"
  | _ => .other "-"

theorem tie_lockedDo_effects : lockedDoEffects =
    [.label "begin", lcEff .b0, lcEff .b1, .ifc "ok", lcEff .b2, lcEff .b3, .goto_ "begin", .close,
     .call "lg.makeCall(key, fn)", .ret "<call>"] := by decide

/-- register (alloc, Add(1), publish) and unlock BEFORE the deferred cleanup is registered and `fn` is called. -/
theorem tie_lockedMakeCall_effects : lockedMakeCallEffects =
    [lcEff .c0, lcEff .c1, lcEff .c2, lcEff .c3, .deferBegin, .funcBegin, lcEff .e0, lcEff .e1, lcEff .e2, lcEff .e3,
     .close, .callLit, .close, lcEff .f0, .ret "<call>"] := by decide

def lcEffSem (e : Eff) (s s' : LC.St) (t : Tid) : Prop :=
  match e with
  | .lock _ => s.lock = none ∧ s'.lock = some t ∧ s'.m = s.m ∧ s'.wg = s.wg
  | .unlock _ => s'.lock = none ∧ s'.m = s.m ∧ s'.wg = s.wg
  | .mapGet _ _ => s'.m = s.m ∧ s'.lock = s.lock ∧ s'.wg = s.wg ∧ (∀ c, s.m (s.key t) = some c → s'.reg t = c)
  | .mapSet _ _ _ => s'.m (s.key t) = some (s.reg t) ∧ (∀ k, k ≠ s.key t → s'.m k = s.m k) ∧ s'.lock = s.lock
  | .mapDel _ _ => s'.m (s.key t) = none ∧ (∀ k, k ≠ s.key t → s'.m k = s.m k) ∧ s'.lock = s.lock
  | .wgAdd _ n => (s'.wg (s.reg t) : Int) = s.wg (s.reg t) + n ∧ s'.m = s.m
  | .wgDone _ => s'.wg (s.reg t) = s.wg (s.reg t) - 1 ∧ s'.m = s.m ∧ s'.lock = s.lock
  | .wgWait _ => s.wg (s.reg t) = 0 ∧ s'.wg = s.wg ∧ s'.m = s.m
  | .alloc _ => s'.reg t = s.next ∧ s'.next = s.next + 1 ∧ s'.wg s.next = 0 ∧ s'.m = s.m
  | _ => True

theorem lc_eff_sound (s s' : LC.St) (t : Tid) (x : Nat) (h : LC.step s t x = some s') :
    lcEffSem (lcEff (s.pc t)) s s' t := by
  unfold LC.step at h
  cases hpc : s.pc t <;> rw [hpc] at h <;> simp only [lcEff, lcEffSem] <;>
    (try split at h) <;> (try split at h) <;> simp at h <;> (try subst h) <;> simp_all [upd] <;> (try omega)

/-- the closure of `GetResource`: read-locked lookup, `create`, write-locked store (unlock deferred); `Inject`: one
write-locked store — the rows g0…g8 of `RM` and `RM.inject`. -/
theorem tie_getResource_effects : getResourceEffects =
    [.funcBegin, .rlock "manager.lock", .mapGet "manager.resources" "key", .runlock "manager.lock", .ifc "ok",
     .ret "resource, nil", .close, .call "create()", .ifc "err != nil", .ret "nil, err", .close,
     .lock "manager.lock", .deferBegin, .unlock "manager.lock", .close, .mapSet "manager.resources" "key" "resource",
     .ret "resource, nil", .close, .call "manager.singleFlight.Do(key, func)", .ifc "err != nil", .ret "nil, err", .close,
     .ret "val.(io.Closer), nil"] ∧
    rmInjectEffects = [.lock "manager.lock", .mapSet "manager.resources" "key" "resource", .unlock "manager.lock"] := by decide

/-- the rows g0…g8 of `RM` do what these effects say: read lock / lookup / read unlock / write lock / store / unlock. -/
theorem rm_eff_sound (s s' : RM.St) (t : Tid) (x : Nat) (h : RM.step s t x = some s') :
    (s.pc t = .g0 → s.rw = none ∧ s'.nrd = s.nrd + 1 ∧ s'.res = s.res) ∧
    (s.pc t = .g1 → s'.found t = (s.res (s.key t)).isSome ∧ s'.res = s.res ∧ (∀ v, s.res (s.key t) = some v → s'.loc t = v)) ∧
    (s.pc t = .g2 → s'.nrd = s.nrd - 1 ∧ s'.res = s.res) ∧
    (s.pc t = .g6 → s.rw = none ∧ s.nrd = 0 ∧ s'.rw = some t ∧ s'.res = s.res) ∧
    (s.pc t = .g7 → s'.res (s.key t) = some (s.loc t) ∧ ∀ k, k ≠ s.key t → s'.res k = s.res k) ∧
    (s.pc t = .g8 → s'.rw = none ∧ s'.res = s.res) := by
  refine ⟨?_, ?_, ?_, ?_, ?_, ?_⟩ <;> intro hpc <;> simp only [RM.step, hpc] at h <;> (try split at h) <;>
    simp at h <;> (try subst h) <;> simp_all [upd]

/-! ### Round 5: forwarded argument lists of the delegating entry points (extract/c07.go `c07Forward`), read
semantically: `fwd codes params litParams` is the argument list the callee receives (`none`: not a parameter — a
literal, `context.Background()`, a local).  For ALL arguments the callee gets the caller's values in the right
positions: a dropped, swapped or replaced argument breaks these. -/
def fwd {α : Type} (codes : List Int) (ps ls : List α) : List (Option α) :=
  codes.map fun c => if c < 0 then none else if c < 100 then ps[c.toNat]? else ls[(c - 100).toNat]?

/-- `Do` / `DoEx` hand their `key` to `createCall` and `(c, key, fn)` to `makeCall`; `lockedGroup.Do` hands `(key, fn)` on. -/
theorem tie_fwd_syncx {α : Type} (key fn : α) :
    fwd doFwdCreateCall [key, fn] [] = [some key] ∧ fwd doExFwdCreateCall [key, fn] [] = [some key] ∧
    fwd doFwdMakeCall [key, fn] [] = [none, some key, some fn] ∧ fwd doExFwdMakeCall [key, fn] [] = [none, some key, some fn] ∧
    fwd lockedDoFwdMakeCall [key, fn] [] = [some key, some fn] ∧
    fwd getResourceFwdDo [key, fn] [] = [some key, none] ∧ getResourceFwdDo = [0, -3] := by
  simp [fwd, doFwdCreateCall, doExFwdCreateCall, doFwdMakeCall, doExFwdMakeCall, lockedDoFwdMakeCall, getResourceFwdDo]

/-- `collection.Cache.Take(key, fetch)`: the flight is keyed by the caller's key, the closure stores under the SAME key;
`Set(key, value)` forwards both to `SetWithExpire`. -/
theorem tie_fwd_collection {α : Type} (key fetch value : α) :
    fwd collectionTakeFwdDo [key, fetch] [] = [some key, none] ∧ collectionTakeFwdDo = [0, -3] ∧
    fwd collectionTakeFwdSet [key, fetch] [] = [some key, none] ∧
    fwd collectionSetFwd [key, value] [] = [some key, some value, none] := by
  simp [fwd, collectionTakeFwdDo, collectionTakeFwdSet, collectionSetFwd]

/-- the four entry points of `cacheNode`: `Take(val, key, query)` = `TakeCtx(Background, val, key, query)` =
`doTake(ctx, val, key, query, {SetCtx(ctx, key, v)})`; likewise `TakeWithExpire`; `SetCtx` forwards `(ctx, key, val)`. -/
theorem tie_fwd_cacheNode_entry {α : Type} (ctx val key query v : α) :
    fwd cacheNodeTakeFwd [val, key, query] [] = [none, some val, some key, some query] ∧ cacheNodeTakeFwd.head? = some (-2) ∧
    fwd cacheNodeTakeCtxFwd [ctx, val, key, query] [] = [some ctx, some val, some key, some query, none] ∧
    fwd cacheNodeTakeCtxFwdSet [ctx, val, key, query] [v] = [some ctx, some key, some v] ∧
    fwd cacheNodeTakeWithExpireFwd [val, key, query] [] = [none, some val, some key, some query] ∧
    cacheNodeTakeWithExpireFwd.head? = some (-2) ∧
    fwd cacheNodeTakeWithExpireCtxFwd [ctx, val, key, query] [] = [some ctx, some val, some key, none, none] ∧
    fwd cacheNodeTakeWithExpireCtxFwdQuery [ctx, val, key, query] [v] = [some v, none] ∧
    fwd cacheNodeTakeWithExpireCtxFwdSet [ctx, val, key, query] [v] = [some ctx, some key, some v, none] ∧
    fwd cacheNodeSetCtxFwd [ctx, key, val] [] = [some ctx, some key, some val, none] := by
  simp [fwd, cacheNodeTakeFwd, cacheNodeTakeCtxFwd, cacheNodeTakeCtxFwdSet, cacheNodeTakeWithExpireFwd,
    cacheNodeTakeWithExpireCtxFwd, cacheNodeTakeWithExpireCtxFwdQuery, cacheNodeTakeWithExpireCtxFwdSet, cacheNodeSetCtxFwd]

/-- `doTake(ctx, v, key, query, cacheVal)`: the flight is keyed by `key`; the closure reads the cache for `(ctx, key)` into
the caller's `v`, runs `query(v)`, `cacheVal(v)`, and on not-found writes the placeholder for `(ctx, key)`;
`doGetCache(ctx, key, v)` reads `(ctx, key)`; `setCacheWithNotFound(ctx, key)` writes the placeholder under `key`. -/
theorem tie_fwd_doTake {α : Type} (ctx v key query cacheVal : α) :
    fwd cacheNodeDoTakeFwdDoEx [ctx, v, key, query, cacheVal] [] = [some key, none] ∧
    fwd cacheNodeDoTakeFwdDoGetCache [ctx, v, key, query, cacheVal] [] = [some ctx, some key, some v] ∧
    fwd cacheNodeDoTakeFwdQuery [ctx, v, key, query, cacheVal] [] = [some v] ∧
    fwd cacheNodeDoTakeFwdCacheVal [ctx, v, key, query, cacheVal] [] = [some v] ∧
    fwd cacheNodeDoTakeFwdNotFound [ctx, v, key, query, cacheVal] [] = [some ctx, some key] ∧
    fwd cacheNodeDoGetCacheFwdGet [ctx, key, v] [] = [some ctx, some key] ∧
    fwd cacheNodeSetNotFoundFwd [ctx, key] [] = [some ctx, some key, none, none] := by
  simp [fwd, cacheNodeDoTakeFwdDoEx, cacheNodeDoTakeFwdDoGetCache, cacheNodeDoTakeFwdQuery, cacheNodeDoTakeFwdCacheVal,
    cacheNodeDoTakeFwdNotFound, cacheNodeDoGetCacheFwdGet, cacheNodeSetNotFoundFwd]

/-- negative caching: the placeholder is written with SETNX under the caller's key (in the model: the instance the
not-found execution "created", stored by rows g6…g8; `rm_not_found_consistent`). -/
theorem tie_setCacheWithNotFound : cacheNodeSetCacheWithNotFoundShape =
    ["call c.aroundDuration(c.notFoundExpiry)", "call ttlSeconds(c.aroundDuration(c.notFoundExpiry))",
     "call c.rds.SetnxExCtx(ctx, key, notFoundPlaceholder, seconds)", "return err"] := by decide

/-! ### Round 5: whole decision trees (extract/c07.go `c07DecisionTree`: nested if / else-if, re-assigned variables as
separate atoms) compared with the model's decision function `RM.doTakeClosure` for ALL outcomes of the cache read and
of the query. -/

theorem tie_decision_atoms :
    doTakeClosureExitAtoms = ["err != nil", "errors.Is(err, errPlaceholder)", "errors.Is(err, c.errNotFound)",
      "errors.Is(err, c.errNotFound)", "err != nil", "err != nil", "err != nil"] ∧
    doTakeClosureExitExits = ["return nil, c.errNotFound", "return nil, err", "return nil, c.errNotFound", "return nil, err",
      "return jsonx.Marshal(v)"] ∧
    doGetCacheExitAtoms = ["err != nil", "len(data) == 0", "data == notFoundPlaceholder"] ∧
    doGetCacheExitExits = ["return err", "return c.errNotFound", "return errPlaceholder", "return c.processCache(ctx, key, data, v)"] ∧
    processCacheExitAtoms = ["err == nil", "e != nil"] ∧ processCacheExitExits = ["return nil", "return c.errNotFound"] ∧
    doTakeExitAtoms = ["err != nil", "fresh"] ∧
    doTakeExitExits = ["return err", "return nil", "return jsonx.Unmarshal(val.([]byte), v)"] := by decide

open RM in
/-- what the closure's three conditions on the cache-read error see, computed THROUGH the translated `doGetCache` and
`processCache`: (err != nil, errors.Is(err, errPlaceholder), errors.Is(err, c.errNotFound)). -/
def cacheErrAtoms (c : CacheRead) : Bool × Bool × Bool :=
  let ex := doGetCacheExit (c == .error) (c == .empty) (c == .placeholder)
  if ex = 0 then (true, false, false)                                          -- return err
  else if ex = 1 then (true, false, true)                                      -- return c.errNotFound
  else if ex = 2 then (true, true, false)                                      -- return errPlaceholder
  else if processCacheExit (c == .row) false = 0 then (false, false, false)    -- processCache: return nil
  else (true, false, true)                                                     -- processCache: return c.errNotFound

open RM in
/-- the return statement the model's decision function stands for. -/
def closureExitOf (r : Closure) : Nat :=
  match r.out, r.queried with
  | .value, _ => 4 | .notFound, false => 0 | .error, false => 1 | .notFound, true => 2 | .error, true => 3

open RM in
/-- **the whole closure of `doTake`, semantically**: for every outcome of the cache read (redis / context error, no
entry, placeholder, row, corrupt row) and of the query (row, not found, error), and whatever the two logging-only
conditions are, the translated code reaches exactly the return statement `RM.doTakeClosure` says. -/
theorem tie_doTake_decisions (c : CacheRead) (q : QueryRes) (setNfErr cacheValErr : Bool) :
    doTakeClosureExit (cacheErrAtoms c).1 (cacheErrAtoms c).2.1 (cacheErrAtoms c).2.2 (q == .notFound) setNfErr (q != .row) cacheValErr
      = closureExitOf (doTakeClosure c q) := by
  cases c <;> cases q <;> cases setNfErr <;> cases cacheValErr <;> decide

/-- after the flight: an error goes to every caller of the flight, the fresh caller keeps its own `v`, a joiner
unmarshals the flight's bytes (rows r0 / w2 of `RM`: both return `cval` of the flight). -/
theorem tie_doTake_after_flight_decisions : ∀ e f, doTakeExit e f = if e then 0 else if f then 1 else 2 := by decide

/-! ### Round 5e: allocation sites of the constructors (extract/c07.go `c07Allocs`: typed `Alloc` per field of the
constructor's literal).  The multi-object theorems (`RM.MReach`, `rm_instances_independent`, and the per-object `SF` /
`LC` systems) start every object from ITS OWN initial state: that is exactly "every state-carrying field is allocated
afresh at each construction" — a package-level variable there (one flight group / map for all objects: seeded C07-9, own
mutations M2 / M5, the shared barrier of round 4) makes `ownState` false. -/

/-- every listed field is initialised by a call / literal evaluated at each construction. -/
def ownState (allocs : List (String × Alloc)) (stateFields : List String) : Bool :=
  stateFields.all fun f => match allocs.lookup f with | some (.fresh _) => true | _ => false

def globalsOf (allocs : List (String × Alloc)) : List String :=
  allocs.filterMap fun fa => match fa.2 with | .global n => some n | _ => none

/-- `NewSingleFlight`, `NewLockedCalls`, `NewResourceManager`, `NewCache`: own map(s) AND own flight group per object
(the manager's and the cache's flight group come from `NewSingleFlight()`, itself fresh); no package-level object in any
of them except the stateless `emptyLruCache`.  `NewNode` keeps the CALLER's flight group, redis handle, stat and
not-found error (parameters 1, 0, 2, 3): sharing is the caller's decision (sqlc / monc: one group per process). -/
theorem tie_ctor_own_state :
    ownState newSingleFlightAllocs ["calls"] = true ∧ ownState newLockedCallsAllocs ["m"] = true ∧
    ownState newResourceManagerAllocs ["resources", "singleFlight"] = true ∧
    newResourceManagerAllocs.lookup "singleFlight" = some (.fresh "NewSingleFlight") ∧
    ownState newCacheAllocs ["data", "barrier"] = true ∧
    newCacheAllocs.lookup "barrier" = some (.fresh "syncx.NewSingleFlight") ∧
    globalsOf newSingleFlightAllocs = [] ∧ globalsOf newLockedCallsAllocs = [] ∧ globalsOf newResourceManagerAllocs = [] ∧
    globalsOf newCacheAllocs = ["emptyLruCache"] ∧ globalsOf newNodeAllocs = [] ∧
    newNodeAllocs.lookup "barrier" = some (.param 1) ∧ newNodeAllocs.lookup "rds" = some (.param 0) ∧
    newNodeAllocs.lookup "stat" = some (.param 2) ∧ newNodeAllocs.lookup "errNotFound" = some (.param 3) := by decide

/-- the reading is not vacuous: a shared object in a state field is rejected. -/
example : ownState [("resources", .fresh "make"), ("singleFlight", .global "resourceFlights")] ["resources", "singleFlight"] = false := by
  decide

end GoZero.C07.Tie
