/-
C07 — Tie: the statement skeletons the extractor read from core/syncx/{singleflight,lockedcalls,resourcemanager}.go
*now* are the ones the models' step tables were written against.  `SF.stmt pc` is the statement the model's
row `pc` stands for; a reordered delete/Done, a dropped lock, a changed `fresh` flag, a different map key, an
extra or missing statement breaks an obligation here.
-/
import GoZero.Extracted.C07
import GoZero.C07.Model
namespace GoZero.C07.Tie
open GoZero.Extracted.C07

theorem extraction_clean : extractionErrors = [] := by decide

/-! ### SingleFlight -/
open SF in
/-- `createCall`: lock; look the key up; found → unlock, wait, (done = true); else allocate, Add(1), publish, unlock. -/
theorem tie_createCall : createCallShape =
    [stmt .l0, stmt .l1, "if ok {", stmt .w0, stmt .w1, "return c, true", "}",
     stmt .n0, stmt .n1, stmt .n2, stmt .n3, "return c, false"] := by decide

open SF in
/-- `makeCall`: run fn, store its result; deferred: lock, **delete the entry, unlock, then Done**.  The cleanup is a
`defer`red function registered before `fn` is called, so it also runs when `fn` panics (model rows `mp` → `d0 … d3` → `px`;
the store `m2` is skipped). -/
theorem tie_makeCall : makeCallShape =
    ["defer{", "func{", stmt .d0, stmt .d1, stmt .d2, stmt .d3, "}", "call func", "}",
     stmt .m0, stmt .m2, "store c.err"] := by decide

open SF in
/-- `DoEx`: joiners (`done`) are reported `fresh = false`, the executing caller `fresh = true`. -/
theorem tie_doEx : doExShape =
    ["call g.createCall(key)", "if done {", stmt .w2, "}", "call g.makeCall(c, key, fn)", stmt .r0] := by decide

/-- `Do` is `DoEx` without the flag. -/
theorem tie_do : doShape =
    ["call g.createCall(key)", "if done {", "return c.val, c.err", "}", "call g.makeCall(c, key, fn)",
     "return c.val, c.err"] := by decide

theorem tie_newSingleFlight : newSingleFlightShape = ["return &flightGroup{ calls: make(map[string]*call), }"] := by
  decide

/-! ### LockedCalls -/
open LC in
/-- `lockedGroup.Do`: lock; somebody registered for the key → unlock, wait, **retry from the top**; else makeCall
(still holding the mutex). -/
theorem tie_lockedDo : lockedDoShape =
    ["label begin", stmt .b0, stmt .b1, "if ok {", stmt .b2, stmt .b3, "goto begin", "}",
     "call lg.makeCall(key, fn)", stmt .e4] := by decide

open LC in
/-- `lockedGroup.makeCall`: Add(1), register, unlock, run the caller's own fn; deferred: lock, **delete, unlock,
then Done** (registered with `defer` before `fn` runs: also executed when `fn` panics, rows `fp` → `e0 … e3` → `px`). -/
theorem tie_lockedMakeCall : lockedMakeCallShape =
    [stmt .c0, stmt .c1, stmt .c2, stmt .c3,
     "defer{", "func{", stmt .e0, stmt .e1, stmt .e2, stmt .e3, "}", "call func", "}",
     stmt .f0, stmt .e4] := by decide

theorem tie_newLockedCalls : newLockedCallsShape = ["return &lockedGroup{ m: make(map[string]*sync.WaitGroup), }"] := by
  decide

/-! ### ResourceManager -/
open RM in
/-- `GetResource`: the closure handed to `singleFlight.Do` — read-locked lookup, return the stored instance if
present, else `create`, return its error, else store under the write lock and return the new instance. -/
theorem tie_getResource : getResourceShape =
    ["func{", stmt .g0, stmt .g1, stmt .g2, stmt .g3, "return resource, nil", "}",
     stmt .g4, stmt .g5, "return nil, err", "}",
     stmt .g6, "defer{", stmt .g8, "}", stmt .g7, "return resource, nil", "}",
     "call manager.singleFlight.Do(key, func)", "if err != nil {", "return nil, err", "}",
     "return val.(io.Closer), nil"] := by decide

/-- the manager's flight group is the `SingleFlight` of singleflight.go (whose skeleton is tied above). -/
theorem tie_newResourceManager : newResourceManagerShape =
    ["return &ResourceManager{ resources: make(map[string]io.Closer), singleFlight: NewSingleFlight(), }"] := by
  decide

/-- `Inject`: one write-locked map store — the atomic `RM.inject` of the model (used by the correspondence runs to
pre-register resources; outside `RM.Reach`). -/
theorem tie_rmInject : rmInjectShape =
    ["call manager.lock.Lock()", "mapset manager.resources[key] = resource", "call manager.lock.Unlock()"] := by decide

/-- `Close`: under the write lock, close every held resource, then drop the map (the manager must not be used
afterwards: a later `GetResource` would store into a nil map).  The correspondence runs call it after all calls
returned and check that exactly the held instances were closed, once each. -/
theorem tie_rmClose : rmCloseShape =
    ["call manager.lock.Lock()", "defer{", "call manager.lock.Unlock()", "}", "var be",
     "range manager.resources {", "call resource.Close()", "if err != nil {", "call be.Add(err)", "}", "}",
     "store manager.resources", "call be.Err()", "return <call>"] := by decide

/-! ### the synchronisation objects are the ones the rows' semantics were written for
(`sync.Mutex`: exclusive; `sync.WaitGroup`: counter, `Wait` passes iff 0; `sync.RWMutex`: one writer or many readers;
the maps are keyed by the caller's key string) -/
theorem tie_callFields : callFields = ["wg sync.WaitGroup", "val any", "err error"] := by decide
theorem tie_flightGroupFields : flightGroupFields = ["calls map[string]*call", "lock sync.Mutex"] := by decide
theorem tie_lockedGroupFields : lockedGroupFields = ["mu sync.Mutex", "m map[string]*sync.WaitGroup"] := by decide
theorem tie_resourceManagerFields : resourceManagerFields =
    ["resources map[string]io.Closer", "singleFlight SingleFlight", "lock sync.RWMutex"] := by decide

/-! ### the users named in the property's anchors
`cacheNode.doTake` and `collection.Cache.Take` put exactly one `SingleFlight` call around the load, keyed by the
cache key itself (so "one execution per key" is "one load per cache key"). -/
theorem tie_cacheNode_barrier : cacheNodeBarrierCalls = ["c.barrier.DoEx(key, func)"] := by decide
theorem tie_collectionCache_barrier : collectionCacheBarrierCalls = ["c.barrier.Do(key, func)"] := by decide
theorem tie_collectionCache_ctor : collectionCacheBarrierCtor = ["syncx.NewSingleFlight()"] := by decide

/-- `collection.Cache.Take` = unlocked lookup (hit → return) ; `barrier.Do(key, closure)` with the closure of the
same form as `GetResource`'s: look the key up again (`RM` row g1/g3: found → return it), run the loader (g4), on error
return it uncached (g5), else store (g7) and return the loaded value; joiners and leader alike return the flight's
`val`.  This is why its histories are checked against the `RM` model and monitor (harness TestVerifC07Collection). -/
theorem tie_collectionTake : collectionTakeShape =
    ["call c.doGet(key)", "if ok {", "call c.stats.IncrementHit()", "return val, nil", "}",
     "var fresh",
     "func{", "call c.doGet(key)", "if ok {", "return val, nil", "}",
     "call fetch()", "if e != nil {", "return nil, e", "}",
     "call c.Set(key, v)", "return v, nil", "}",
     "call c.barrier.Do(key, func)", "if err != nil {", "return nil, err", "}",
     "if fresh {", "call c.stats.IncrementMiss()", "return val, nil", "}",
     "call c.stats.IncrementHit()", "return val, nil"] := by decide

/-- `cacheNode.doTake`: the closure handed to the flight starts with the cache read for the same key, … -/
theorem tie_doTake_reads_cache_first : cacheNodeDoTakeShape.take 2 = ["func{", "call c.doGetCache(ctx, key, v)"] := by
  decide
/-- … queries the database exactly once, writes the cache after it, … -/
theorem tie_doTake_one_query :
    cacheNodeDoTakeShape.filter (fun t => t = "call query(v)" || t = "call cacheVal(v)" || t = "call c.setCacheWithNotFound(ctx, key)")
      = ["call query(v)", "call c.setCacheWithNotFound(ctx, key)", "call cacheVal(v)"] := by decide
/-- … hands the marshalled row to the flight; after the flight: an error goes to everyone, the fresh caller keeps
its own `v`, every joiner unmarshals the *leader's* bytes into its own `v`. -/
theorem tie_doTake_after_flight :
    cacheNodeDoTakeShape.dropWhile (fun t => t ≠ "call jsonx.Marshal(v)") =
      ["call jsonx.Marshal(v)", "return <call>", "}",
       "call c.barrier.DoEx(key, func)", "if err != nil {", "return err", "}", "if fresh {", "return nil", "}",
       "call c.stat.IncrementTotal()", "call c.stat.IncrementHit()",
       "call jsonx.Unmarshal(val.([]byte), v)", "return <call>"] := by decide

/-- sqlc and monc hand ONE process-wide flight group to every cache (node) they build: flights are keyed by the
cache key across all models of the process. -/
theorem tie_sqlc_flight : sqlcFlightVar = ["singleFlights = syncx.NewSingleFlight()"] ∧
    sqlcFlightUses = ["NewConn: cache.New(c, singleFlights, stats, sql.ErrNoRows, opts)",
                      "NewNodeConn: cache.NewNode(rds, singleFlights, stats, sql.ErrNoRows, opts)"] := by decide
theorem tie_monc_flight : moncFlightVar = ["singleFlight = syncx.NewSingleFlight()"] ∧
    moncFlightUses = ["NewModel: cache.New(conf, singleFlight, stats, mongo.ErrNoDocuments, opts)",
                      "NewNodeModel: cache.NewNode(rds, singleFlight, stats, mongo.ErrNoDocuments, opts)"] := by decide

/-- the process-wide ResourceManagers: redis clients / clusters keyed by address, mongo clients by url (plus the
`Inject` test hook), sql connections by data-source name — one `GetResource` call each, nothing else touches them. -/
theorem tie_redis_managers :
    redisClientManagerVar = ["clientManager = syncx.NewResourceManager()"] ∧
    redisClientManagerUses = ["getClient: clientManager.GetResource(r.Addr, func)"] ∧
    redisClusterManagerVar = ["clusterManager = syncx.NewResourceManager()"] ∧
    redisClusterManagerUses = ["getCluster: clusterManager.GetResource(r.Addr, func)"] := by decide
theorem tie_mon_manager :
    monClientManagerVar = ["clientManager = syncx.NewResourceManager()"] ∧
    monClientManagerUses = ["Inject: clientManager.Inject(key, &ClosableClient{client})",
                            "getClient: clientManager.GetResource(url, func)"] := by decide
theorem tie_sqlx_manager :
    sqlxConnManagerVar = ["connManager = syncx.NewResourceManager()"] ∧
    sqlxConnManagerUses = ["getCachedSqlConn: connManager.GetResource(server, func)"] := by decide

end GoZero.C07.Tie
