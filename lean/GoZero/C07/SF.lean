/-
C07 — executable small-step model of core/syncx/singleflight.go (core Lean only). See Basic.lean for the conventions.
-/
import GoZero.C07.Basic
namespace GoZero.C07

namespace SF

/-- program counters of `Do`/`DoEx` with `createCall` and `makeCall` inlined.
```
idle  (caller invokes Do/DoEx with a key)
l0    g.lock.Lock()
l1    if c, ok := g.calls[key]; ok {
w0        g.lock.Unlock()
w1        c.wg.Wait()
w2        return c, true            →  return c.val, false, c.err
n0    c = new(call)
n1    c.wg.Add(1)
n2    g.calls[key] = c
n3    g.lock.Unlock()               →  return c, false
m0    (makeCall) fn starts     (environment input ≠ 0: this execution is going to panic → mp)
m1    fn returns
mp    fn panics: `c.val, c.err = …` is skipped (they keep their zero values), the deferred block runs
m2    c.val, c.err = <fn's result>
d0    (deferred) g.lock.Lock()
d1    delete(g.calls, key)
d2    g.lock.Unlock()
d3    c.wg.Done()
r0    return c.val, true, c.err
px    (after the deferred block of a panicking fn) the panic propagates out of Do/DoEx: the call ends without returning
``` -/
inductive PC
  | idle | l0 | l1 | w0 | w1 | w2 | n0 | n1 | n2 | n3 | m0 | m1 | mp | m2 | d0 | d1 | d2 | d3 | r0 | px
  deriving DecidableEq, Repr

structure St where
  -- shared
  lock  : Option Tid            -- g.lock
  calls : Key → Option CallId   -- g.calls
  wg    : CallId → Nat          -- c.wg counter
  cval  : CallId → Val          -- c.val, c.err
  next  : CallId                -- allocation counter of `new(call)`
  -- per goroutine
  pc    : Tid → PC
  key   : Tid → Key
  reg   : Tid → CallId          -- local variable c
  tmp   : Tid → Val             -- fn's result before it is stored
  pn    : Tid → Bool            -- the goroutine is unwinding a panic of fn (the deferred block runs, then the panic propagates)
  -- ghost
  now    : Nat
  inv    : Tid → Nat            -- clock at the current call's invocation
  leader : CallId → Tid         -- who allocated the call
  linv   : CallId → Nat         -- invocation time of the leader's Do/DoEx call
  lret   : CallId → Option Nat  -- return time of the leader's Do/DoEx call
  fnres  : CallId → Option Val  -- outcome of the (single) execution of fn for this call: what it returned; the zero value if it panicked
  ekey   : CallId → Key
  fstart : CallId → Option Nat  -- clock when the execution of fn for this call started
  fend   : CallId → Option Nat  -- … and ended
  pan    : CallId → Bool        -- the execution of fn for this call panicked
  rets   : List Ret

def init : St :=
  { lock := none, calls := fun _ => none, wg := fun _ => 0, cval := fun _ => 0, next := 0,
    pc := fun _ => .idle, key := fun _ => 0, reg := fun _ => 0, tmp := fun _ => 0, pn := fun _ => false,
    now := 0, inv := fun _ => 0, leader := fun _ => 0, linv := fun _ => 0, lret := fun _ => none,
    fnres := fun _ => none, ekey := fun _ => 0, fstart := fun _ => none, fend := fun _ => none, pan := fun _ => false, rets := [] }

/-- one atomic step of goroutine `t` with environment input `x`. -/
def step (s : St) (t : Tid) (x : Nat) : Option St :=
  match s.pc t with
  | .idle => some { s with pc := upd s.pc t .l0, key := upd s.key t x, inv := upd s.inv t s.now, now := s.now + 1 }
  | .l0 => if s.lock = none then some { s with lock := some t, pc := upd s.pc t .l1, now := s.now + 1 } else none
  | .l1 =>
    match s.calls (s.key t) with
    | some c => some { s with reg := upd s.reg t c, pc := upd s.pc t .w0, now := s.now + 1 }
    | none => some { s with pc := upd s.pc t .n0, now := s.now + 1 }
  | .w0 => some { s with lock := none, pc := upd s.pc t .w1, now := s.now + 1 }
  | .w1 => if s.wg (s.reg t) = 0 then some { s with pc := upd s.pc t .w2, now := s.now + 1 } else none
  | .w2 => some { s with pc := upd s.pc t .idle, now := s.now + 1,
                         rets := { tid := t, key := s.key t, inv := s.inv t, ret := s.now, exec := s.reg t,
                                   val := s.cval (s.reg t), fresh := false } :: s.rets }
  | .n0 => some { s with reg := upd s.reg t s.next, next := s.next + 1, pc := upd s.pc t .n1, now := s.now + 1,
                         wg := upd s.wg s.next 0, cval := upd s.cval s.next 0,
                         pn := upd s.pn t false, pan := upd s.pan s.next false,
                         fnres := upd s.fnres s.next none, lret := upd s.lret s.next none,
                         fstart := upd s.fstart s.next none, fend := upd s.fend s.next none,
                         leader := upd s.leader s.next t, linv := upd s.linv s.next (s.inv t),
                         ekey := upd s.ekey s.next (s.key t) }
  | .n1 => some { s with wg := upd s.wg (s.reg t) (s.wg (s.reg t) + 1), pc := upd s.pc t .n2, now := s.now + 1 }
  | .n2 => some { s with calls := upd s.calls (s.key t) (some (s.reg t)), pc := upd s.pc t .n3, now := s.now + 1 }
  | .n3 => some { s with lock := none, pc := upd s.pc t .m0, now := s.now + 1 }
  | .m0 => if x = 0 then some { s with fstart := upd s.fstart (s.reg t) (some s.now), pc := upd s.pc t .m1, now := s.now + 1 }
           else some { s with fstart := upd s.fstart (s.reg t) (some s.now), pc := upd s.pc t .mp, now := s.now + 1 }
  | .m1 => some { s with tmp := upd s.tmp t x, fnres := upd s.fnres (s.reg t) (some x), pc := upd s.pc t .m2,
                         fend := upd s.fend (s.reg t) (some s.now), now := s.now + 1 }
  | .mp => some { s with pn := upd s.pn t true, pan := upd s.pan (s.reg t) true, fnres := upd s.fnres (s.reg t) (some 0),
                         fend := upd s.fend (s.reg t) (some s.now), pc := upd s.pc t .d0, now := s.now + 1 }
  | .m2 => some { s with cval := upd s.cval (s.reg t) (s.tmp t), pc := upd s.pc t .d0, now := s.now + 1 }
  | .d0 => if s.lock = none then some { s with lock := some t, pc := upd s.pc t .d1, now := s.now + 1 } else none
  | .d1 => some { s with calls := upd s.calls (s.key t) none, pc := upd s.pc t .d2, now := s.now + 1 }
  | .d2 => some { s with lock := none, pc := upd s.pc t .d3, now := s.now + 1 }
  | .d3 => if s.pn t = true then some { s with wg := upd s.wg (s.reg t) (s.wg (s.reg t) - 1), pc := upd s.pc t .px, now := s.now + 1 }
           else some { s with wg := upd s.wg (s.reg t) (s.wg (s.reg t) - 1), pc := upd s.pc t .r0, now := s.now + 1 }
  | .r0 => some { s with pc := upd s.pc t .idle, now := s.now + 1,
                         lret := upd s.lret (s.reg t) (some s.now),
                         rets := { tid := t, key := s.key t, inv := s.inv t, ret := s.now, exec := s.reg t,
                                   val := s.cval (s.reg t), fresh := true } :: s.rets }
  | .px => some { s with pc := upd s.pc t .idle, pn := upd s.pn t false, now := s.now + 1,
                         lret := upd s.lret (s.reg t) (some s.now) }

/-- the statement each program counter stands for (tied to the extracted skeletons in `Tie.lean`). -/
def stmt : PC → String
  | .idle => "invoke"
  | .l0 => "call g.lock.Lock()"
  | .l1 => "mapget g.calls[key]"
  | .w0 => "call g.lock.Unlock()"
  | .w1 => "call c.wg.Wait()"
  | .w2 => "return c.val, false, c.err"
  | .n0 => "new c"
  | .n1 => "call c.wg.Add(1)"
  | .n2 => "mapset g.calls[key] = c"
  | .n3 => "call g.lock.Unlock()"
  | .m0 => "call fn()"
  | .m1 => "fn returns"
  | .mp => "fn panics"
  | .m2 => "store c.val"
  | .d0 => "call g.lock.Lock()"
  | .d1 => "delete g.calls[key]"
  | .d2 => "call g.lock.Unlock()"
  | .d3 => "call c.wg.Done()"
  | .r0 => "return c.val, true, c.err"
  | .px => "panic propagates"

/-- control flow of the inlined program: the program counters a step may lead to. -/
def succ : PC → List PC
  | .idle => [.l0] | .l0 => [.l1] | .l1 => [.w0, .n0]
  | .w0 => [.w1] | .w1 => [.w2] | .w2 => [.idle]
  | .n0 => [.n1] | .n1 => [.n2] | .n2 => [.n3] | .n3 => [.m0]
  | .m0 => [.m1, .mp] | .m1 => [.m2] | .mp => [.d0] | .m2 => [.d0]
  | .d0 => [.d1] | .d1 => [.d2] | .d2 => [.d3] | .d3 => [.r0, .px] | .r0 => [.idle] | .px => [.idle]

/-- run a schedule; `none` as soon as a scheduled step is not enabled. -/
def run (s : St) : List (Tid × Nat) → Option St
  | [] => some s
  | (t, x) :: rest => match step s t x with
    | some s' => run s' rest
    | none => none

/-- reachable configurations: any schedule, any number of goroutines, any keys, any fn results. -/
inductive Reach : St → Prop
  | init : Reach init
  | step {s s' : St} (t : Tid) (x : Nat) : Reach s → step s t x = some s' → Reach s'

end SF

end GoZero.C07
