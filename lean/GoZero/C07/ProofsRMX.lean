/-
C07 — ResourceManager / Take users: who holds the mutexes (converse directions of `Inv.lock` / `Inv.writer`), on top
of `Inv`; used by the waiting theorems of Props.lean.
-/
import GoZero.C07.ProofsRM
namespace GoZero.C07.RM

structure InvL (s : St) : Prop where
  lockr : ∀ u, s.lock = some u → (s.pc u).holdsLock = true
  rwr   : ∀ u, s.rw = some u → (s.pc u = .g7 ∨ s.pc u = .g8)

theorem invL_init (cfg : Cfg) : InvL (init cfg) := by
  constructor <;> simp [init]

variable {s s' : St} {t : Tid} {x : Nat}

theorem lockr_step (h : Inv s) (hl : InvL s) (hs : step s t x = some s') :
    ∀ u, s'.lock = some u → (s'.pc u).holdsLock = true := by
  intro u hu
  have h1 := hl.lockr u
  have h2 := hl.lockr t
  have h3 := h.lock u
  have h4 := h.lock t
  close_step hs

theorem rwr_step (h : Inv s) (hl : InvL s) (hs : step s t x = some s') :
    ∀ u, s'.rw = some u → (s'.pc u = .g7 ∨ s'.pc u = .g8) := by
  intro u hu
  have h1 := hl.rwr u
  have h2 := hl.rwr t
  have h3 := h.writer u
  have h4 := h.writer t
  close_step hs

theorem invL_step (h : Inv s) (hl : InvL s) (hs : step s t x = some s') : InvL s' :=
  ⟨lockr_step h hl hs, rwr_step h hl hs⟩

theorem invL_reach {s : St} (h : Reach s) : InvL s := by
  induction h with
  | init cfg => exact invL_init cfg
  | step t x hr hs ih => exact invL_step (inv_reach hr) ih hs

/-! ### `Inject` inside the reachable set: registrations while no call is in progress, of keys that hold nothing -/

/-- a quiescent manager whose key `k` holds nothing has never created `k` successfully. -/
theorem ncreate_zero_of_quiescent {s : St} (h : Inv s) (hq : ∀ t, s.pc t = .idle) (k : Key) (hk : s.res k = none) :
    s.ncreate k = 0 := by
  have h3 := (h.r3 k).2
  by_cases h0 : s.ncreate k = 0
  · exact h0
  · rcases h3 h0 with h1 | ⟨h1, _⟩
    · exact absurd hk h1
    · rw [hq] at h1; rcases h1 with h1 | h1 <;> cases h1

theorem inv_inject {s s' : St} {k : Key} {v : Val} (h : Inv s) (hq : ∀ t, s.pc t = .idle) (hk : s.res k = none)
    (hv : v ≠ 0) (hs : inject s k v = some s') : Inv s' := by
  have hn := ncreate_zero_of_quiescent h hq k hk
  unfold inject at hs
  split at hs
  · simp at hs; subst hs
    refine { lock := ?_, flight := ?_, prereg := ?_, owns := ?_, wg1 := ?_, wg0 := ?_, nores := ?_, tmpres := ?_, stored := ?_,
             calls := h.calls, waits := ?_, woken := ?_, done := h.done, lretlt := h.lretlt, writer := ?_, r1 := ?_, r2 := ?_,
             r2' := ?_, r3 := ?_, r4 := ?_, r4' := ?_, r5 := ?_, rets := h.rets, pre4 := ?_, retsI := ?_, retsD := h.retsD,
             cv0 := ?_ }
    all_goals try (intro u hu; simp [hq, PC.holdsLock, PC.inFlight, PC.preReg, PC.owns, PC.wgOne, PC.noRes, PC.stored, PC.waits, PC.after] at hu; done)
    · intro k' v' hr
      by_cases hkk : k' = k
      · subst hkk; simp [upd] at hr ⊢; exact ⟨hr.symm ▸ rfl, hr ▸ hv⟩
      · simp [upd, hkk] at hr ⊢; exact h.r1 k' v' hr
    · intro k'
      by_cases hkk : k' = k
      · subst hkk; simp [upd]
      · simp [upd, hkk]; exact h.r3 k'
    · intro c v' hc hf hv'
      have := h.r5 c v' hc hf hv'
      by_cases hkk : s.ekey c = k
      · rw [hkk, hn] at this; omega
      · simp [upd, hkk]; exact this
    · intro r hr hv'
      have := h.retsI r hr hv'
      by_cases hkk : r.key = k
      · rw [hkk, hn] at this; omega
      · simp [upd, hkk]; exact this
  · simp at hs


/-- configurations reachable by calls AND registrations (`Inject` while the manager is quiescent, of a key that holds
nothing, with a non-nil resource). -/
inductive ReachI : St → Prop
  | init (cfg : Cfg) : ReachI (init cfg)
  | step {s s' : St} (t : Tid) (x : Nat) : ReachI s → step s t x = some s' → ReachI s'
  | inject {s s' : St} (k : Key) (v : Val) : ReachI s → (∀ t, s.pc t = .idle) → s.res k = none → v ≠ 0 →
      inject s k v = some s' → ReachI s'

theorem inv_reachI {s : St} (h : ReachI s) : Inv s := by
  induction h with
  | init cfg => exact inv_init cfg
  | step t x _ hs ih => exact inv_step ih hs
  | inject k v _ hq hk hv hs ih => exact inv_inject ih hq hk hv hs

theorem reachI_of_reach {s : St} (h : Reach s) : ReachI s := by
  induction h with
  | init cfg => exact .init cfg
  | step t x _ hs ih => exact .step t x ih hs

theorem step_ncreate (hs : step s t x = some s') (k : Key) :
    (s'.ncreate k = s.ncreate k ∧ s'.inst k = s.inst k) ∨ s'.ncreate k = s.ncreate k + 1 := by
  step_cases hs <;> simp [upd] <;> (try split) <;> simp_all

/-- once a key has its instance (created or registered), no step changes it. -/
theorem inst_stable (h : Inv s) (hs : step s t x = some s') (k : Key) (h1 : s.ncreate k = 1) :
    s'.ncreate k = 1 ∧ s'.inst k = s.inst k := by
  have h' := (inv_step h hs).r3 k
  rcases step_ncreate hs k with ⟨a, b⟩ | a
  · exact ⟨by rw [a, h1], b⟩
  · have := h'.1; omega

/-! ### the readers of the map identified (round 5c): no ghost state — the counter is the length of a duplicate-free list of
exactly the goroutines inside a read-locked section -/

/-- rows inside a read-locked section of the map -/
def PC.isRd : PC → Bool
  | .p1 | .p2 | .g1 | .g2 => true
  | _ => false


theorem step_rd_cases (hs : step s t x = some s') :
    (s'.nrd = s.nrd + 1 ∧ (s.pc t).isRd = false ∧ (s'.pc t).isRd = true) ∨
    (s'.nrd = s.nrd - 1 ∧ (s.pc t).isRd = true ∧ (s'.pc t).isRd = false) ∨
    (s'.nrd = s.nrd ∧ (s'.pc t).isRd = (s.pc t).isRd) := by
  step_cases hs <;> simp_all [upd, PC.isRd]

/-- **the readers identified**: the read-lock counter is the number of goroutines inside a read-locked section. -/
def Readers (s : St) : Prop :=
  ∃ l : List Tid, l.Nodup ∧ l.length = s.nrd ∧ ∀ u, u ∈ l ↔ (s.pc u).isRd = true

theorem readers_init (cfg : Cfg) : Readers (init cfg) := ⟨[], by simp, by simp [init], by simp [init, PC.isRd]⟩

theorem readers_step (h : Readers s) (hs : step s t x = some s') : Readers s' := by
  obtain ⟨l, hnd, hlen, hmem⟩ := h
  have hoth : ∀ u, u ≠ t → s'.pc u = s.pc u := (step_flow hs).2
  rcases step_rd_cases hs with ⟨hn, h0, h1⟩ | ⟨hn, h0, h1⟩ | ⟨hn, h01⟩
  · have htl : t ∉ l := fun hm => by have := (hmem t).1 hm; rw [h0] at this; cases this
    refine ⟨t :: l, List.nodup_cons.2 ⟨htl, hnd⟩, by simp [hlen, hn], fun u => ?_⟩
    by_cases hu : u = t
    · subst hu; simp [h1]
    · simp [hu, hoth u hu, hmem u]
  · have htl : t ∈ l := (hmem t).2 h0
    refine ⟨l.erase t, hnd.erase t, by rw [List.length_erase_of_mem htl, hlen, hn], fun u => ?_⟩
    by_cases hu : u = t
    · subst hu; simp [h1, hnd.not_mem_erase]
    · rw [List.mem_erase_of_ne hu, hoth u hu, hmem u]
  · refine ⟨l, hnd, by rw [hlen, hn], fun u => ?_⟩
    by_cases hu : u = t
    · subst hu; rw [h01]; exact hmem u
    · rw [hoth u hu]; exact hmem u

theorem readers_reach {s : St} (h : Reach s) : Readers s := by
  induction h with
  | init cfg => exact readers_init cfg
  | step t x _ hs ih => exact readers_step ih hs

/-- a non-zero read-lock counter belongs to an identified goroutine inside a read-locked section. -/
theorem reader_exists {s : St} (h : Reach s) (hn : s.nrd ≠ 0) : ∃ u, (s.pc u).isRd = true := by
  obtain ⟨l, _, hlen, hmem⟩ := readers_reach h
  cases l with
  | nil => simp at hlen; exact absurd hlen.symm hn
  | cons a l => exact ⟨a, (hmem a).1 (by simp)⟩

end GoZero.C07.RM
