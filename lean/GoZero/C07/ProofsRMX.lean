/-
C07 — ResourceManager / Take users: who holds the mutexes (converse directions of `Inv.lock` / `Inv.writer`), on top
of `Inv`; used by the waiting theorems of Props.lean.
-/
import GoZero.C07.ProofsRM
namespace GoZero.C07.RM

structure InvL (s : St) : Prop where
  lockr : ∀ u, s.lock = some u → (s.pc u).holdsLock = true
  rwr   : ∀ u, s.rw = some u → (s.pc u = .g7 ∨ s.pc u = .g8)

theorem invL_init (cfg : Cfg) : InvL (init cfg) := by
  constructor <;> simp [init]

variable {s s' : St} {t : Tid} {x : Nat}

theorem lockr_step (h : Inv s) (hl : InvL s) (hs : step s t x = some s') :
    ∀ u, s'.lock = some u → (s'.pc u).holdsLock = true := by
  intro u hu
  have h1 := hl.lockr u
  have h2 := hl.lockr t
  have h3 := h.lock u
  have h4 := h.lock t
  close_step hs

theorem rwr_step (h : Inv s) (hl : InvL s) (hs : step s t x = some s') :
    ∀ u, s'.rw = some u → (s'.pc u = .g7 ∨ s'.pc u = .g8) := by
  intro u hu
  have h1 := hl.rwr u
  have h2 := hl.rwr t
  have h3 := h.writer u
  have h4 := h.writer t
  close_step hs

theorem invL_step (h : Inv s) (hl : InvL s) (hs : step s t x = some s') : InvL s' :=
  ⟨lockr_step h hl hs, rwr_step h hl hs⟩

theorem invL_reach {s : St} (h : Reach s) : InvL s := by
  induction h with
  | init cfg => exact invL_init cfg
  | step t x hr hs ih => exact invL_step (inv_reach hr) ih hs

end GoZero.C07.RM
