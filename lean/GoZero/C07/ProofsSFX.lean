/-
C07 — SingleFlight: execution intervals (history form of the exclusion property), on top of `Inv`.
-/
import GoZero.C07.ProofsSF
namespace GoZero.C07.SF

/-- the (possibly not yet existing) time `o` is earlier than `a`. -/
def endsBefore (o : Option Nat) (a : Nat) : Prop := match o with | some b => b < a | none => False

theorem endsBefore_none (a : Nat) : endsBefore none a = False := rfl
theorem endsBefore_some (a b : Nat) : endsBefore (some b) a = (b < a) := rfl

def PC.notStarted : PC → Bool
  | .n1 | .n2 | .n3 | .m0 => true
  | _ => false

/-- the user function is executing -/
def PC.running : PC → Bool
  | .m1 | .mp => true
  | _ => false

structure InvX (s : St) : Prop where
  nstart  : ∀ u, (s.pc u).notStarted = true → s.fstart (s.reg u) = none ∧ s.fend (s.reg u) = none
  run1    : ∀ u, (s.pc u).running = true → s.fstart (s.reg u) ≠ none ∧ s.fend (s.reg u) = none
  running : ∀ c, c < s.next → s.fstart c ≠ none → s.fend c = none → (s.pc (s.leader c)).running = true ∧ s.reg (s.leader c) = c
  tstart  : ∀ c a, s.fstart c = some a → a < s.now ∧ c < s.next
  tend    : ∀ c b, s.fend c = some b → b < s.now ∧ endsBefore (s.fstart c) b ∧ s.fstart c ≠ none
  disj    : ∀ c d a a', c ≠ d → s.ekey c = s.ekey d → s.fstart c = some a → s.fstart d = some a' →
              endsBefore (s.fend c) a' ∨ endsBefore (s.fend d) a

theorem invX_init : InvX init := by
  constructor <;> simp [init, PC.notStarted, PC.running]

theorem flight_unique (h : Inv s) (u v : Tid) (hu : (s.pc u).inFlight = true) (hv : (s.pc v).inFlight = true)
    (hk : s.key u = s.key v) : u = v := by
  have a := h.flight u hu
  have b := h.flight v hv
  have c := (h.owns u (by revert hu; cases s.pc u <;> simp [PC.inFlight, PC.owns])).2.1
  have d := (h.owns v (by revert hv; cases s.pc v <;> simp [PC.inFlight, PC.owns])).2.1
  rw [hk, b] at a
  have e : s.reg v = s.reg u := by simpa using a
  rw [e] at d
  rw [← c, d]

macro "close_stepx" hs:ident : tactic =>
  `(tactic| (step_cases $hs:ident <;>
      simp [upd, PC.owns, PC.notStarted, PC.running] at * <;> grind [endsBefore_none, endsBefore_some]))

variable {s s' : St} {t : Tid} {x : Nat}

theorem nstart_step (h : Inv s) (hx : InvX s) (hs : step s t x = some s') :
    ∀ u, (s'.pc u).notStarted = true → s'.fstart (s'.reg u) = none ∧ s'.fend (s'.reg u) = none := by
  intro u hu
  have h1 := hx.nstart u
  have h2 := hx.nstart t
  have h3 := h.owns u
  have h4 := h.owns t
  close_stepx hs

theorem run1_step (h : Inv s) (hx : InvX s) (hs : step s t x = some s') :
    ∀ u, (s'.pc u).running = true → s'.fstart (s'.reg u) ≠ none ∧ s'.fend (s'.reg u) = none := by
  intro u hu
  have h1 := hx.run1 u
  have h2 := hx.nstart t
  have h3 := h.owns u
  have h4 := h.owns t
  close_stepx hs

theorem running_step (h : Inv s) (hx : InvX s) (hs : step s t x = some s') :
    ∀ c, c < s'.next → s'.fstart c ≠ none → s'.fend c = none → (s'.pc (s'.leader c)).running = true ∧ s'.reg (s'.leader c) = c := by
  intro c hc h1 h2
  have h3 := hx.running c
  have h4 := h.owns t
  have h5 := hx.nstart t
  have h6 := hx.run1 t
  close_stepx hs

theorem tstart_step (h : Inv s) (hx : InvX s) (hs : step s t x = some s') :
    ∀ c a, s'.fstart c = some a → a < s'.now ∧ c < s'.next := by
  intro c a hc
  have h3 := hx.tstart c a
  have h4 := h.owns t
  close_stepx hs

theorem tend_step (h : Inv s) (hx : InvX s) (hs : step s t x = some s') :
    ∀ c b, s'.fend c = some b → b < s'.now ∧ endsBefore (s'.fstart c) b ∧ s'.fstart c ≠ none := by
  intro c b hc
  have h3 := hx.tend c b
  have h4 := h.owns t
  have h5 := hx.run1 t
  have h6 : ∀ a, s.fstart (s.reg t) = some a → a < s.now := fun a ha => (hx.tstart _ a ha).1
  have h7 := hx.nstart t
  rcases hf : s.fstart (s.reg t) with _ | a
  · close_stepx hs
  · have h8 := h6 a hf
    close_stepx hs

theorem disj_step (h : Inv s) (hx : InvX s) (hs : step s t x = some s') :
    ∀ c d a a', c ≠ d → s'.ekey c = s'.ekey d → s'.fstart c = some a → s'.fstart d = some a' →
      endsBefore (s'.fend c) a' ∨ endsBefore (s'.fend d) a := by
  intro c d a a' hne hk hc hd
  have h1 := hx.disj c d a a' hne
  have h2 := h.owns t
  have h3 := hx.tstart c a
  have h4 := hx.tstart d a'
  -- the only interesting step: t starts its function while another execution for the key has started
  have key : ∀ e, e < s.next → e ≠ s.reg t → s.ekey e = s.ekey (s.reg t) → s.fstart e ≠ none → s.pc t = .m0 →
      ∃ b, s.fend e = some b ∧ b < s.now := by
    intro e he hne' hke hst hpc
    cases hfe : s.fend e with
    | some b => exact ⟨b, rfl, (hx.tend e b hfe).1⟩
    | none =>
      exfalso
      obtain ⟨r1, r2⟩ := hx.running e he hst hfe
      have ot := h.owns t (by simp [hpc, PC.owns])
      have ol := h.owns (s.leader e) (by revert r1; cases s.pc (s.leader e) <;> simp [PC.running, PC.owns])
      have : s.leader e = t := flight_unique h _ _ (by revert r1; cases s.pc (s.leader e) <;> simp [PC.running, PC.inFlight])
        (by simp [hpc, PC.inFlight]) (by rw [← ol.2.2.1, r2, hke, ot.2.2.1])
      rw [this] at r1
      rw [hpc] at r1
      simp [PC.running] at r1
  have k1 := key c
  have k2 := key d
  have h5 := hx.tend c
  have h6 := hx.tend d
  have h7 := hx.nstart t
  have h8 := hx.run1 t
  close_stepx hs

theorem invX_step (h : Inv s) (hx : InvX s) (hs : step s t x = some s') : InvX s' :=
  ⟨nstart_step h hx hs, run1_step h hx hs, running_step h hx hs, tstart_step h hx hs, tend_step h hx hs,
   disj_step h hx hs⟩

theorem invX_reach {s : St} (h : Reach s) : InvX s := by
  induction h with
  | init => exact invX_init
  | step t x hr hs ih => exact invX_step (inv_reach hr) ih hs

end GoZero.C07.SF
