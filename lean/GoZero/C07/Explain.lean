/-
C07 — trace inclusion: build a schedule of the Lean model whose visible events are the observed history.
(stub; filled in below)
-/
import GoZero.C07.Model
import GoZero.C07.Spec
namespace GoZero.C07.Explain
open GoZero.C07.Spec

def explain (_mode : String) (_h : List Obs) : Except (Nat × String × String) Nat := .ok 0

end GoZero.C07.Explain
