/-
C07 — trace inclusion: the observed history must be a visible trace of the Lean model.

`explain` constructs a schedule of the model's own `step` function (the one the theorems are about) whose
visible events — invoke, fn start, fn end (with the value), return (with value and `fresh`) — are exactly the
observed ones in the observed (stamp) order.  The hidden steps (lock, lookup, register, delete, Done, …) are
placed by a *lazy* strategy, which is complete for these programs:

  * a leader registers as late as possible (just before its function starts) and deletes its entry as late as
    possible: when its own return is observed, when the next execution for the key starts, or when a joiner
    that needs the result returns;
  * just before a leader is forced to delete, every already-invoked call that was observed to get this
    leader's result performs its lookup (so it finds the entry);  all other lookups happen at the caller's own
    next visible event.

If some scheduled step is not enabled in the model, or the model hands out a different value / `fresh` flag than
the implementation did, the history is not a trace of the model: a MISMATCH (model ≠ implementation).
-/
import GoZero.C07.Model
import GoZero.C07.Spec
namespace GoZero.C07.Explain
open GoZero.C07.Spec

abbrev Err := Nat × String × String

inductive EvKind | inv | fs | fe | ret
  deriving DecidableEq, Repr

structure Ev where
  stamp : Nat
  kind  : EvKind
  o     : Obs

def insertEv (e : Ev) : List Ev → List Ev
  | [] => [e]
  | x :: xs => if e.stamp ≤ x.stamp then e :: x :: xs else x :: insertEv e xs

def events (h : List Obs) : List Ev :=
  let all := h.flatMap fun o =>
    [{ stamp := o.inv, kind := .inv, o := o }, { stamp := o.ret, kind := .ret, o := o : Ev }]
    ++ (match o.fs with | some s => [{ stamp := s, kind := EvKind.fs, o := o : Ev }] | none => [])
    ++ (match o.fe with | some s => [{ stamp := s, kind := EvKind.fe, o := o : Ev }] | none => [])
  all.foldr insertEv []

/-- current (invoked, not yet returned) call of each goroutine. -/
abbrev Cur := List (Nat × Obs)

def Cur.set (c : Cur) (g : Nat) (o : Obs) : Cur := (g, o) :: c.filter (·.1 ≠ g)
def Cur.del (c : Cur) (g : Nat) : Cur := c.filter (·.1 ≠ g)

/-- the execution a call was observed to get its result from (value id, or error id). -/
def source (o : Obs) : Option Nat := match o.val with | some v => some v | none => o.err

/-- a joiner that was handed the zero values: it shared a flight whose function panicked (`c.val`/`c.err` never stored). -/
def zeroJoiner (o : Obs) : Bool := !o.ran && o.val.isNone && o.err.isNone && !o.panicked && !o.lkerr

/-- a call that can only have led a flight whose lookup failed (cancelled context): no visible event between its
invocation and its return. -/
def lkLeader (o : Obs) : Bool := o.lkerr && o.deadCtx && !o.ran

/-! ### SingleFlight -/
namespace SFx
open SF

structure X where
  s   : St
  n   : Nat := 0
  cur : Cur := []
  tags : List String := []

abbrev M := StateT X (Except Err)

def tag (t : String) : M Unit := modify fun st => { st with tags := t :: st.tags }

def adv (line : Nat) (g : Tid) (x : Nat) (want : PC) : M Unit := do
  let st ← get
  match step st.s g x with
  | none => throw (line, s!"model: goroutine {g} cannot take step {stmt (st.s.pc g)} ({repr (st.s.pc g)}): not enabled", "the implementation did")
  | some s' =>
    if s'.pc g = want then set { st with s := s', n := st.n + 1 }
    else throw (line, s!"model: goroutine {g} goes from {repr (st.s.pc g)} to {repr (s'.pc g)}", s!"the history needs {repr want}")

def advs (line : Nat) (g : Tid) (ws : List PC) : M Unit := do
  for w in ws do adv line g 0 w

def pcOf (g : Tid) : M PC := do return (← get).s.pc g

/-- leader `p` (waiting lazily at `d0`) deletes its entry and releases the wait group; joiners first. -/
def forceDelete (line : Nat) (p : Tid) (pid : Nat) : M Unit := do
  let st ← get
  -- (the leader's function returned (nil, nil): its joiners are handed the zero values, too)
  let leaderNil : Bool := match st.cur.lookup p with | some q => q.nilv | none => false
  if (← pcOf p) = .d0 then
    for (g, o) in st.cur do
      -- (a zero-valued joiner joins the first panicking flight that is deleted while it is invoked: joining early is always possible)
      if (← pcOf g) = .l0 ∧ !o.ran ∧ (source o = some pid ∨ (zeroJoiner o ∧ (st.s.pn p ∨ leaderNil) ∧ st.s.key g = st.s.key p)) then advs line g [.l1, .w0, .w1]
    -- a leader whose function panicked unwinds through the same deferred block, then the panic leaves Do (`px`)
    advs line p [.d1, .d2, .d3, (if (← get).s.pn p then .px else .r0)]
  else if (← pcOf p) = .r0 ∨ (← pcOf p) = .px then pure ()
  else throw (line, s!"model: the execution of call {pid} (goroutine {p}) is still running ({repr (← pcOf p)})",
              "the implementation started another execution for the key / handed its result out")

def leaderOfKey (k : Key) : M (Option (Tid × Nat)) := do
  let st ← get
  match st.s.calls k with
  | none => return none
  | some c =>
    let p := st.s.leader c
    return some (p, ((st.cur.lookup p).map (·.id)).getD 0)

def onEvent (e : Ev) : M Unit := do
  let o := e.o
  let g := o.g
  let ln := o.line
  match e.kind with
  | .inv =>
    adv ln g o.key .l0
    modify fun st => { st with cur := st.cur.set g o }
  | .fs =>
    match ← leaderOfKey o.key with
    | some (p, pid) => tag "sf-model-delete-forced-by-next-flight"; forceDelete ln p pid
    | none => pure ()
    advs ln g [.l1, .n0, .n1, .n2, .n3, .m0]
    if o.spanic then tag "sf-model-fn-panics"; adv ln g 1 .mp else adv ln g 0 .m1
  | .fe =>
    if o.spanic then adv ln g 0 .d0
    else
      adv ln g (if o.nilv then 0 else o.id) .m2
      adv ln g 0 .d0
  | .ret =>
    if o.ran then
      forceDelete ln g o.id
    else
      if (← pcOf g) = .l0 then advs ln g [.l1, .w0, .w1]
      let st ← get
      let c := st.s.reg g
      if st.s.wg c ≠ 0 then
        let p := st.s.leader c
        tag "sf-model-delete-forced-by-joiner-return"
        forceDelete ln p (((st.cur.lookup p).map (·.id)).getD 0)
      adv ln g 0 .w2
    let nrets := (← get).s.rets.length
    let wasPx := (← pcOf g) = .px
    adv ln g 0 .idle
    let st ← get
    if wasPx then
      -- the panic propagates out of Do/DoEx: no return record in the model, a panic in the implementation
      if !o.panicked ∨ st.s.rets.length ≠ nrets then
        throw (ln, "model: the panic of fn propagates to the caller", s!"returned val={o.val} err={o.err}")
    else
      if o.panicked then throw (ln, "model: the call returns", "the call panicked")
      match st.s.rets.head? with
      | none => throw (ln, "model: no return recorded", "return")
      | some r =>
        -- 0 is Go's zero value (`nil`), ids are positive
        let want := ((if r.val = 0 then none else some r.val), some r.fresh)
        let got := (o.val, if o.ex then o.fresh else some r.fresh)
        if want ≠ got then
          throw (ln, s!"model returns val={r.val} fresh={r.fresh}", s!"val={o.val} fresh={o.fresh}")
    modify fun st => { st with cur := st.cur.del g }

def explain (h : List Obs) : Except Err (Nat × List String) := do
  let act : M Unit := do
    for e in events h do onEvent e
  let (_, st) ← act.run { s := init }
  return (st.n, st.tags)

end SFx

/-! ### LockedCalls -/
namespace LCx
open LC

structure X where
  s   : St
  n   : Nat := 0
  cur : Cur := []
  tags : List String := []

abbrev M := StateT X (Except Err)

def tag (t : String) : M Unit := modify fun st => { st with tags := t :: st.tags }

def adv (line : Nat) (g : Tid) (x : Nat) (want : PC) : M Unit := do
  let st ← get
  match step st.s g x with
  | none => throw (line, s!"model: goroutine {g} cannot take step {stmt (st.s.pc g)} ({repr (st.s.pc g)}): not enabled", "the implementation did")
  | some s' =>
    if s'.pc g = want then set { st with s := s', n := st.n + 1 }
    else throw (line, s!"model: goroutine {g} goes from {repr (st.s.pc g)} to {repr (s'.pc g)}", s!"the history needs {repr want}")

def advs (line : Nat) (g : Tid) (ws : List PC) : M Unit := do
  for w in ws do adv line g 0 w

def pcOf (g : Tid) : M PC := do return (← get).s.pc g

/-- the goroutine registered for the key finishes its deferred block (it waits lazily at `e0`). -/
def forceRelease (line : Nat) (p : Tid) : M Unit := do
  if (← pcOf p) = .e0 then advs line p [.e1, .e2, .e3, (if (← get).s.pn p then .px else .e4)]
  else if (← pcOf p) = .e4 ∨ (← pcOf p) = .px then pure ()
  else throw (line, s!"model: goroutine {p} is still inside its function ({repr (← pcOf p)})",
              "the implementation started another execution for the key")

def onEvent (e : Ev) : M Unit := do
  let o := e.o
  let g := o.g
  let ln := o.line
  match e.kind with
  | .inv =>
    adv ln g o.key .b0
    modify fun st => { st with cur := st.cur.set g o }
    -- if the key is busy right now, take the waiting path (lock, found, unlock, wait)
    let st ← get
    if (st.s.m o.key).isSome ∧ st.s.lock.isNone then
      tag "lc-model-wait-path"
      advs ln g [.b1, .b2, .b3]
  | .fs =>
    if (← pcOf g) = .b3 then
      let st ← get
      let w := st.s.reg g
      if st.s.wg w ≠ 0 then forceRelease ln (st.s.owner w)
      adv ln g 0 .b0
    let st ← get
    match st.s.m o.key with
    | some w => forceRelease ln (st.s.owner w)
    | none => pure ()
    advs ln g [.b1, .c0, .c1, .c2, .c3, .f0]
    if o.spanic then tag "lc-model-fn-panics"; adv ln g 1 .fp else adv ln g 0 .f1
  | .fe => adv ln g (if o.nilv then 0 else o.id) .e0
  | .ret =>
    forceRelease ln g
    let wasPx := (← pcOf g) = .px
    adv ln g 0 .idle
    let st ← get
    if wasPx then
      if !o.panicked then throw (ln, "model: the panic of fn propagates to the caller", s!"returned val={o.val} err={o.err}")
    else
      if o.panicked then throw (ln, "model: the call returns", "the call panicked")
      match st.s.rets.head? with
      | none => throw (ln, "model: no return recorded", "return")
      | some r =>
        if (if r.val = 0 then none else some r.val) ≠ o.val ∨ r.runs ≠ o.runs then
          throw (ln, s!"model returns val={r.val} runs={r.runs}", s!"val={o.val} runs={o.runs}")
    modify fun st => { st with cur := st.cur.del g }

def explain (h : List Obs) : Except Err (Nat × List String) := do
  let act : M Unit := do
    for e in events h do onEvent e
  let (_, st) ← act.run { s := init }
  return (st.n, st.tags)

end LCx

/-! ### ResourceManager and the users of the same pattern (instances are `id + 1`; `0` is the error outcome)
`cfg` says which user the section ran (`Cfg`): with `cfg.pre` every call first looks the key up in front of the
flight (rows p0…p3).  The lazy strategy additionally delays the *store* of a successful `create` (rows g7, g8, m2) until
the leader is forced to delete: calls that were observed to share the leader's flight do their front lookup before it
(a miss), calls that come later find the stored instance (a direct hit, or the re-check inside their own flight). -/
namespace RMx
open RM

structure X where
  s   : St
  n   : Nat := 0
  cur : Cur := []
  tags : List String := []

abbrev M := StateT X (Except Err)

def tag (t : String) : M Unit := modify fun st => { st with tags := t :: st.tags }

def adv (line : Nat) (g : Tid) (x : Nat) (want : PC) : M Unit := do
  let st ← get
  match step st.s g x with
  | none => throw (line, s!"model: goroutine {g} cannot take step {repr (st.s.pc g)}: not enabled", "the implementation did")
  | some s' =>
    if s'.pc g = want then set { st with s := s', n := st.n + 1 }
    else throw (line, s!"model: goroutine {g} goes from {repr (st.s.pc g)} to {repr (s'.pc g)}", s!"the history needs {repr want}")

def advs (line : Nat) (g : Tid) (ws : List PC) : M Unit := do
  for w in ws do adv line g 0 w

def pcOf (g : Tid) : M PC := do return (← get).s.pc g

/-- the lookup in front of the flight misses (`cfg.pre`; nothing to do otherwise). -/
def preMiss (line : Nat) (g : Tid) : M Unit := do
  if (← pcOf g) = .p0 then
    tag "rm-model-front-lookup-miss"
    advs line g [.p1, .p2, .p3, .l0]

/-- leader `p` (waiting lazily at `g6`: create succeeded, not stored yet; or at `d0`) stores, deletes its entry and
releases the wait group; the joiners enter first. -/
def forceDelete (line : Nat) (p : Tid) (pid : Nat) : M Unit := do
  let st ← get
  let leaderIsLk : Bool := match st.cur.lookup p with | some q => lkLeader q | none => false
  let leaderNil : Bool := st.s.cfg.asrt && (match st.cur.lookup p with | some q => q.nilv && q.ran | none => false)
  if (← pcOf p) = .d0 ∨ (← pcOf p) = .g6 then
    for (g, o) in st.cur do
      -- (a joiner that panicked / got the nil value joins the first panicking flight that is deleted while it is invoked)
      if ((← pcOf g) = .l0 ∨ (← pcOf g) = .p0) ∧ !o.ran ∧ g ≠ p ∧
          ((source o = some pid ∧ !o.lkerr) ∨ ((o.panicked ∨ zeroJoiner o) ∧ st.s.pn p ∧ st.s.key g = st.s.key p)
            ∨ (o.panicked ∧ leaderNil ∧ st.s.key g = st.s.key p)
            -- (a call with a cancelled context of its own is not pulled in: it can lead a flight of its own later)
            ∨ (o.lkerr ∧ !o.deadCtx ∧ leaderIsLk ∧ st.s.key g = st.s.key p)) then
        preMiss line g
        advs line g [.l1, .w0, .w1]
    if (← pcOf p) = .g6 then advs line p [.g7, .g8, .m2, .d0]
    advs line p [.d1, .d2, .d3, (if (← get).s.pn p then .px else .r0)]
  else if (← pcOf p) = .r0 ∨ (← pcOf p) = .px then pure ()
  else throw (line, s!"model: the flight of call {pid} (goroutine {p}) is still running ({repr (← pcOf p)})",
              "the implementation started another flight for the key / handed its result out")

def leaderOfKey (k : Key) : M (Option (Tid × Nat)) := do
  let st ← get
  match st.s.calls k with
  | none => return none
  | some c =>
    let p := st.s.leader c
    return some (p, ((st.cur.lookup p).map (·.id)).getD 0)

/-- goroutine `g` (at l0, no flight registered for its key) leads a flight whose lookup fails (`Cfg.lerr`, row g3 with
input 1): the closure returns the error at once; the leader then waits lazily at d0. -/
def failLookupFlight (line : Nat) (g : Tid) : M Unit := do
  tag "rm-model-lookup-error-flight"
  advs line g [.l1, .n0, .n1, .n2, .n3, .g0, .g1, .g2, .g3]
  adv line g 1 .m2
  adv line g 0 .d0

/-- invoked calls with a cancelled context that have not started their flight yet (they can lead a failing-lookup flight). -/
def lkCandidates (k : Key) : M (List (Tid × Obs)) := do
  let st ← get
  return st.cur.filter fun (g', q) => lkLeader q && q.key = k && st.s.pc g' = .l0

/-- earliest deadline first: the candidate that returns first (the others stay available for later joiners). -/
def earliest (l : List (Tid × Obs)) : Option (Tid × Obs) :=
  l.foldl (fun acc x => match acc with | none => some x | some a => if x.2.ret < a.2.ret then some x else some a) none

def onEvent (e : Ev) : M Unit := do
  let o := e.o
  let g := o.g
  let ln := o.line
  match e.kind with
  | .inv =>
    let st ← get
    adv ln g o.key (if st.s.cfg.pre then .p0 else .l0)
    modify fun st => { st with cur := st.cur.set g o }
  | .fs =>
    match ← leaderOfKey o.key with
    | some (p, pid) => forceDelete ln p pid
    | none => pure ()
    -- calls that were observed to return a lookup error before this execution ends must have been in a failing-lookup
    -- flight before this flight registers: those with a cancelled context of their own lead one now, the others join
    let fe := o.fe.getD 0
    let st ← get
    let urgent := st.cur.filter fun (g', q) => g' ≠ g && q.lkerr && !q.ran && q.key = o.key && st.s.pc g' = .l0 && q.ret < fe
    for (g', q) in urgent do
      if q.deadCtx && (← pcOf g') = .l0 then
        failLookupFlight ln g'
        forceDelete ln g' q.id
    let st ← get
    if urgent.any (fun (g', q) => !q.deadCtx && st.s.pc g' = .l0) then
      match earliest (← lkCandidates o.key) with
      | some (p, q) =>
        failLookupFlight ln p
        forceDelete ln p q.id
      | none => pure ()
    preMiss ln g
    -- leader; the map has no instance (else `create` would not run)
    advs ln g [.l1, .n0, .n1, .n2, .n3, .g0, .g1, .g2, .g3, .g4]
    if o.spanic then tag "rm-model-create-panics"; adv ln g 1 .gp else adv ln g 0 .g5
  | .fe =>
    if o.spanic then adv ln g 0 .d0
    else if o.failed then
      adv ln g 0 .m2
      adv ln g 0 .d0
    else
      -- create succeeded (or, `doTake`: the query reported not-found and the placeholder is what gets stored: `ek = 5`);
      -- the store is placed lazily (forceDelete)
      if o.serr then tag "rm-model-not-found-placeholder-stored-as-instance"
      -- (a loader that returned (nil, nil) under a user that asserts the type: the nil instance `RM.nilInst`)
      if o.nilv && (← get).s.cfg.asrt then
        tag "rm-model-nil-instance-stored"
        adv ln g RM.nilInst .g6
      else adv ln g (o.id + 1) .g6
  | .ret =>
    let mut zeroOk := false
    if o.ran then
      forceDelete ln g o.id
    else
      if (← pcOf g) = .p0 then
        let st ← get
        if (st.s.res o.key).isSome then
          tag "rm-model-front-lookup-hit"
          advs ln g [.p1, .p2, .p3]
        else preMiss ln g
      if o.lkerr then
        -- the call returned the lookup error of a flight: its own (cancelled context) or one it joined
        preMiss ln g
        if (← pcOf g) = .l0 then
          match ← leaderOfKey o.key with
          | some (p, pid) =>
            if (match (← get).cur.lookup p with | some q => lkLeader q | none => false) then
              tag "rm-model-joined-lookup-error-flight"
              advs ln g [.l1, .w0, .w1]
            else forceDelete ln p pid
          | none => pure ()
        if (← pcOf g) = .l0 then
          if o.deadCtx then
            failLookupFlight ln g
          else
            match earliest ((← lkCandidates o.key).filter (·.1 ≠ g)) with
            | some (p, _) =>
              failLookupFlight ln p
              tag "rm-model-joined-lookup-error-flight"
              advs ln g [.l1, .w0, .w1]
            | none => throw (ln, "model: no flight with a failing lookup that this call could have joined", "err=lk")
      if (← pcOf g) = .l0 then
        match ← leaderOfKey o.key with
        | some (p, pid) =>
          -- a flight is registered: join it if that explains the result, else let it finish first
          let po := (← get).cur.lookup p
          let explains : Bool := source o == some pid
            || (o.val.isSome && (match po with | some q => !q.ran && !lkLeader q | none => false))
            || ((o.panicked || zeroJoiner o) && (match po with | some q => q.spanic | none => false))
            || (o.panicked && (match po with | some q => q.nilv && q.ran | none => false))
          if explains then
            tag "rm-model-joined-flight"
            advs ln g [.l1, .w0, .w1]
          else
            forceDelete ln p pid
        | none => pure ()
      if (← pcOf g) = .p3 then pure ()
      else if (← pcOf g) = .r0 then pure ()                         -- (the leader of a failing-lookup flight, already past Done)
      else if (← pcOf g) = .d0 then forceDelete ln g o.id           -- (… still waiting lazily at the deferred block)
      else if (← pcOf g) = .l0 then
        -- own flight: the instance must already be in the map
        tag "rm-model-own-flight-found-in-map"
        advs ln g [.l1, .n0, .n1, .n2, .n3, .g0, .g1, .g2, .g3, .m2, .d0, .d1, .d2, .d3, .r0]
      else
        let st ← get
        let c := st.s.reg g
        if st.s.wg c ≠ 0 then
          let p := st.s.leader c
          forceDelete ln p (((st.cur.lookup p).map (·.id)).getD 0)
        adv ln g 0 .w2
        let st ← get
        -- without the type assertion a joiner of a panicked flight returns the nil value (collection.Cache.Take)
        zeroOk := st.s.pan (st.s.reg g) && !st.s.cfg.asrt
        if zeroOk then tag "rm-model-joiner-of-panicked-flight-returns-nil"
    let nrets := (← get).s.rets.length
    adv ln g 0 .idle
    let st ← get
    if st.s.rets.length = nrets then
      -- no return record: the call ended with a panic (the leader of a panicking create, or a joiner of its flight)
      if !o.panicked then throw (ln, "model: the call ends with a panic", s!"returned val={o.val} err={o.err}")
    else
      if o.panicked then throw (ln, "model: the call returns", "the call panicked")
      match st.s.rets.head? with
      | none => throw (ln, "model: no return recorded", "return")
      | some r =>
        let want : Option Nat := if r.val = 0 then none else some (r.val - 1)
        if zeroOk then
          if o.val.isSome ∨ o.err.isSome then throw (ln, "model returns (nil, nil)", s!"val={o.val} err={o.err}")
        else if want ≠ o.val ∨ (r.val = 0) ≠ (o.err.isSome || o.lkerr) then
          throw (ln, s!"model returns instance={want}", s!"val={o.val} err={o.err}")
    modify fun st => { st with cur := st.cur.del g }

def explain (cfg : Cfg) (inj : List (Nat × Nat)) (h : List Obs) : Except Err (Nat × List String) := do
  -- pre-registered resources (`Inject` before the goroutines start); instance `n` is `n + 1` in the model
  let mut s0 := init cfg
  for (k, n) in inj do
    match RM.inject s0 k (n + 1) with
    | some s1 => s0 := s1
    | none => throw (0, "model: Inject not enabled", "inject")
  let act : M Unit := do
    for e in events h do onEvent e
  let (_, st) ← act.run { s := s0 }
  return (st.n, st.tags)

end RMx

/-- which instance of the pattern a section ran (`via` of the section header; empty: ResourceManager.GetResource). -/
def cfgOfVia (via : String) : Option Cfg :=
  if via = "" then some .getResource
  else if via = "collection.Cache.Take" then some .cacheTake
  else if via = "cacheNode.Take" then some .doTake
  else if via = "sqlc.QueryRow" then some .doTake      -- CachedConn.QueryRow(Ctx) → cache.TakeCtx → cacheNode.doTake
  else none

def explain (mode via : String) (inj : List (Nat × Nat)) (h : List Obs) : Except Err (Nat × List String) :=
  if mode = "sf" then SFx.explain h
  else if mode = "lc" then LCx.explain h
  else if mode = "rm" then
    match cfgOfVia via with
    | some cfg => RMx.explain cfg inj h
    | none => .error (0, "unknown user of the pattern", via)
  else .error (0, "unknown mode", mode)

end GoZero.C07.Explain
