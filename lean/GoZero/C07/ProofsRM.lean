/-
C07 — ResourceManager: the inductive invariant of the interleaving model (singleflight part as in ProofsSF,
plus the double-checked map) and its preservation by every step.
-/
import GoZero.C07.RM
namespace GoZero.C07.RM

def PC.holdsLock : PC → Bool
  | .l1 | .w0 | .n0 | .n1 | .n2 | .n3 | .d1 | .d2 => true
  | _ => false
/-- the call is published in `g.calls` (the closure runs strictly inside) -/
def PC.inFlight : PC → Bool
  | .n3 | .g0 | .g1 | .g2 | .g3 | .g4 | .g5 | .gp | .g6 | .g7 | .g8 | .m2 | .d0 | .d1 => true
  | _ => false
def PC.preReg : PC → Bool
  | .n0 | .n1 | .n2 => true
  | _ => false
def PC.owns : PC → Bool
  | .n1 | .n2 | .n3 | .g0 | .g1 | .g2 | .g3 | .g4 | .g5 | .gp | .g6 | .g7 | .g8 | .m2 | .d0 | .d1 | .d2 | .d3 | .r0 | .px => true
  | _ => false
def PC.pubd : PC → Bool
  | .n3 | .g0 | .g1 | .g2 | .g3 | .g4 | .g5 | .gp | .g6 | .g7 | .g8 | .m2 | .d0 | .d1 | .d2 | .d3 | .r0 | .px => true
  | _ => false
def PC.wgOne : PC → Bool
  | .n2 | .n3 | .g0 | .g1 | .g2 | .g3 | .g4 | .g5 | .gp | .g6 | .g7 | .g8 | .m2 | .d0 | .d1 | .d2 | .d3 => true
  | _ => false
def PC.noRes : PC → Bool
  | .n1 | .n2 | .n3 | .g0 | .g1 | .g2 | .g3 | .g4 | .g5 | .gp | .g6 | .g7 | .g8 => true
  | _ => false
def PC.stored : PC → Bool
  | .d0 | .d1 | .d2 | .d3 | .r0 | .px => true
  | _ => false
/-- the goroutine's call object is past `Done` -/
def PC.after : PC → Bool
  | .r0 | .px => true
  | _ => false
def PC.waits : PC → Bool
  | .w0 | .w1 | .w2 => true
  | _ => false

def finished (s : St) (c : CallId) : Prop := s.lret c = true ∨ ((s.pc (s.leader c)).after = true ∧ s.reg (s.leader c) = c)
def published (s : St) (c : CallId) : Prop := s.lret c = true ∨ ((s.pc (s.leader c)).pubd = true ∧ s.reg (s.leader c) = c)

structure Inv (s : St) : Prop where
  lock   : ∀ u, (s.pc u).holdsLock = true → s.lock = some u
  flight : ∀ u, (s.pc u).inFlight = true → s.calls (s.key u) = some (s.reg u)
  prereg : ∀ u, (s.pc u).preReg = true → s.calls (s.key u) = none
  owns   : ∀ u, (s.pc u).owns = true → s.reg u < s.next ∧ s.leader (s.reg u) = u ∧ s.ekey (s.reg u) = s.key u
              ∧ s.lret (s.reg u) = false
  wg1    : ∀ u, (s.pc u).wgOne = true → s.wg (s.reg u) = 1
  wg0    : ∀ u, (s.pc u = .n1 ∨ (s.pc u).after = true) → s.wg (s.reg u) = 0
  nores  : ∀ u, (s.pc u).noRes = true → s.fnres (s.reg u) = none
  tmpres : ∀ u, s.pc u = .m2 → s.fnres (s.reg u) = some (s.tmp u)
  stored : ∀ u, (s.pc u).stored = true → s.fnres (s.reg u) = some (s.cval (s.reg u))
  calls  : ∀ k c, s.calls k = some c → c < s.next ∧ s.ekey c = k ∧ (s.pc (s.leader c)).inFlight = true ∧ s.reg (s.leader c) = c
  waits  : ∀ u, (s.pc u).waits = true → s.reg u < s.next ∧ s.ekey (s.reg u) = s.key u ∧ published s (s.reg u)
  woken  : ∀ u, s.pc u = .w2 → finished s (s.reg u)
  done   : ∀ c, c < s.next → s.lret c = true → s.fnres c = some (s.cval c) ∧ s.wg c = 0
  lretlt : ∀ c, s.lret c = true → c < s.next
  -- the double-checked map
  writer : ∀ u, (s.pc u = .g7 ∨ s.pc u = .g8) → s.rw = some u
  r1     : ∀ k v, s.res k = some v → s.ncreate k = 1 ∧ s.inst k = v ∧ v ≠ 0
  r2     : ∀ u, (s.pc u = .g6 ∨ s.pc u = .g7) → s.ncreate (s.key u) = 1 ∧ s.inst (s.key u) = s.loc u ∧ s.loc u ≠ 0
              ∧ s.res (s.key u) = none ∧ s.creator (s.key u) = u
  r2'    : ∀ u, s.pc u = .g8 → s.res (s.key u) = some (s.loc u)
  r3     : ∀ k, s.ncreate k ≤ 1 ∧ (s.ncreate k ≠ 0 → s.res k ≠ none ∨
              ((s.pc (s.creator k) = .g6 ∨ s.pc (s.creator k) = .g7) ∧ s.key (s.creator k) = k))
  r4     : ∀ u, (s.pc u = .g2 ∨ s.pc u = .g3) → (s.found u = true → s.res (s.key u) = some (s.loc u))
              ∧ (s.found u = false → s.ncreate (s.key u) = 0)
  r4'    : ∀ u, (s.pc u = .g4 ∨ s.pc u = .g5) → s.ncreate (s.key u) = 0
  r5     : ∀ c v, c < s.next → s.fnres c = some v → v ≠ 0 → s.ncreate (s.ekey c) = 1 ∧ s.inst (s.ekey c) = v
  rets   : ∀ r ∈ s.rets, r.direct = false → r.exec < s.next ∧ s.fnres r.exec = some r.val ∧ s.ekey r.exec = r.key
  -- the lookup in front of the flight (`Cfg.pre`): what it found is (and stays) the stored instance
  pre4   : ∀ u, (s.pc u = .p2 ∨ s.pc u = .p3) → s.found u = true → s.res (s.key u) = some (s.loc u)
  retsI  : ∀ r ∈ s.rets, r.val ≠ 0 → s.ncreate r.key = 1 ∧ s.inst r.key = r.val
  retsD  : ∀ r ∈ s.rets, r.direct = true → r.val ≠ 0
  -- a panicking create
  cv0    : ∀ u, (s.pc u).noRes = true → s.cval (s.reg u) = 0

theorem inv_init (cfg : Cfg) : Inv (init cfg) := by
  constructor <;> simp [init, PC.holdsLock, PC.inFlight, PC.preReg, PC.owns, PC.wgOne, PC.noRes, PC.stored, PC.waits, PC.after]

macro "step_cases" hs:ident : tactic =>
  `(tactic| (unfold step at $hs:ident; split at $hs:ident <;> (try split at $hs:ident) <;> simp at $hs:ident <;> (try subst $hs:ident)))

macro "close_step" hs:ident : tactic =>
  `(tactic| (step_cases $hs:ident <;>
      simp [upd, PC.holdsLock, PC.inFlight, PC.preReg, PC.owns, PC.pubd, PC.wgOne, PC.noRes, PC.stored, PC.waits, PC.after,
            finished, published] at * <;> grind))

variable {s s' : St} {t : Tid} {x : Nat}

theorem lock_step (h : Inv s) (hs : step s t x = some s') :
    ∀ u, (s'.pc u).holdsLock = true → s'.lock = some u := by
  intro u hu
  have h1 := h.lock u
  have h2 := h.lock t
  close_step hs

theorem flight_step (h : Inv s) (hs : step s t x = some s') :
    ∀ u, (s'.pc u).inFlight = true → s'.calls (s'.key u) = some (s'.reg u) := by
  intro u hu
  have h1 := h.flight u
  have h2 := h.flight t
  have h3 := h.prereg u
  have h4 := h.prereg t
  have h5 := h.lock u
  have h6 := h.lock t
  have h7 := h.owns u
  have h8 := h.owns t
  close_step hs

theorem prereg_step (h : Inv s) (hs : step s t x = some s') :
    ∀ u, (s'.pc u).preReg = true → s'.calls (s'.key u) = none := by
  intro u hu
  have h3 := h.prereg u
  have h4 := h.prereg t
  have h5 := h.lock u
  have h6 := h.lock t
  close_step hs

theorem owns_step (h : Inv s) (hs : step s t x = some s') :
    ∀ u, (s'.pc u).owns = true → s'.reg u < s'.next ∧ s'.leader (s'.reg u) = u ∧ s'.ekey (s'.reg u) = s'.key u
              ∧ s'.lret (s'.reg u) = false := by
  intro u hu
  have h7 := h.owns u
  have h8 := h.owns t
  close_step hs

theorem wg1_step (h : Inv s) (hs : step s t x = some s') :
    ∀ u, (s'.pc u).wgOne = true → s'.wg (s'.reg u) = 1 := by
  intro u hu
  have h1 := h.wg1 u
  have h2 := h.wg1 t
  have h3 := h.wg0 u
  have h4 := h.wg0 t
  have h7 := h.owns u
  have h8 := h.owns t
  close_step hs

theorem wg0_step (h : Inv s) (hs : step s t x = some s') :
    ∀ u, (s'.pc u = .n1 ∨ (s'.pc u).after = true) → s'.wg (s'.reg u) = 0 := by
  intro u hu
  have h1 := h.wg1 u
  have h2 := h.wg1 t
  have h3 := h.wg0 u
  have h4 := h.wg0 t
  have h7 := h.owns u
  have h8 := h.owns t
  close_step hs

theorem nores_step (h : Inv s) (hs : step s t x = some s') :
    ∀ u, (s'.pc u).noRes = true → s'.fnres (s'.reg u) = none := by
  intro u hu
  have h1 := h.nores u
  have h2 := h.nores t
  have h7 := h.owns u
  have h8 := h.owns t
  close_step hs

theorem tmpres_step (h : Inv s) (hs : step s t x = some s') :
    ∀ u, s'.pc u = .m2 → s'.fnres (s'.reg u) = some (s'.tmp u) := by
  intro u hu
  have h1 := h.tmpres u
  have h2 := h.tmpres t
  have h7 := h.owns u
  have h8 := h.owns t
  close_step hs

theorem stored_step (h : Inv s) (hs : step s t x = some s') :
    ∀ u, (s'.pc u).stored = true → s'.fnres (s'.reg u) = some (s'.cval (s'.reg u)) := by
  intro u hu
  have h1 := h.stored u
  have h2 := h.stored t
  have h3 := h.tmpres u
  have h4 := h.tmpres t
  have h5 := h.cv0 t
  have h7 := h.owns u
  have h8 := h.owns t
  close_step hs

theorem cv0_step (h : Inv s) (hs : step s t x = some s') :
    ∀ u, (s'.pc u).noRes = true → s'.cval (s'.reg u) = 0 := by
  intro u hu
  have h1 := h.cv0 u
  have h2 := h.cv0 t
  have h7 := h.owns u
  have h8 := h.owns t
  close_step hs

theorem calls_step (h : Inv s) (hs : step s t x = some s') :
    ∀ k c, s'.calls k = some c → c < s'.next ∧ s'.ekey c = k ∧ (s'.pc (s'.leader c)).inFlight = true
      ∧ s'.reg (s'.leader c) = c := by
  intro k c hc
  have h1 := h.calls k c
  have h2 := h.flight t
  have h3 := h.owns t
  have h4 := h.owns (s.leader c)
  close_step hs

set_option maxHeartbeats 1000000 in
theorem waits_step (h : Inv s) (hs : step s t x = some s') :
    ∀ u, (s'.pc u).waits = true → s'.reg u < s'.next ∧ s'.ekey (s'.reg u) = s'.key u ∧ published s' (s'.reg u) := by
  intro u hu
  have h1 := h.waits u
  have h2 := h.waits t
  have h3 := h.owns t
  have h4 := h.calls (s.key t)
  have h6 := h.owns (s.leader (s.reg u))
  rcases hc : s.calls (s.key t) with _ | c
  · close_step hs
  · have h7 := h.owns (s.leader c)
    close_step hs

theorem woken_step (h : Inv s) (hs : step s t x = some s') :
    ∀ u, s'.pc u = .w2 → finished s' (s'.reg u) := by
  intro u hu
  have h1 := h.woken u
  have h2 := h.waits t
  have h3 := h.owns t
  have h4 := h.wg1 (s.leader (s.reg t))
  have h5 := h.waits u
  close_step hs

theorem done_step (h : Inv s) (hs : step s t x = some s') :
    ∀ c, c < s'.next → s'.lret c = true → s'.fnres c = some (s'.cval c) ∧ s'.wg c = 0 := by
  intro c hc hl
  have h1 := h.done c
  have h2 := h.owns t
  have h3 := h.stored t
  have h4 := h.wg0 t
  have h5 := h.lretlt c
  close_step hs

theorem lretlt_step (h : Inv s) (hs : step s t x = some s') : ∀ c, s'.lret c = true → c < s'.next := by
  intro c hc
  have h1 := h.lretlt c
  have h2 := h.owns t
  close_step hs

theorem writer_step (h : Inv s) (hs : step s t x = some s') :
    ∀ u, (s'.pc u = .g7 ∨ s'.pc u = .g8) → s'.rw = some u := by
  intro u hu
  have h1 := h.writer u
  have h2 := h.writer t
  close_step hs

/-- two goroutines inside a flight for the same key are the same goroutine. -/
theorem flight_unique (h : Inv s) (u v : Tid) (hu : (s.pc u).inFlight = true) (hv : (s.pc v).inFlight = true)
    (hk : s.key u = s.key v) : u = v := by
  have a := h.flight u hu
  have b := h.flight v hv
  have c := (h.owns u (by revert hu; cases s.pc u <;> simp [PC.inFlight, PC.owns])).2.1
  have d := (h.owns v (by revert hv; cases s.pc v <;> simp [PC.inFlight, PC.owns])).2.1
  rw [hk, b] at a
  have e : s.reg v = s.reg u := by simpa using a
  rw [e] at d
  rw [← c, d]

theorem r1_step (h : Inv s) (hs : step s t x = some s') :
    ∀ k v, s'.res k = some v → s'.ncreate k = 1 ∧ s'.inst k = v ∧ v ≠ 0 := by
  intro k v hv
  have h1 := h.r1 k v
  have h2 := h.r2 t
  have h3 := h.r4' t
  close_step hs

theorem r2_step (h : Inv s) (hs : step s t x = some s') :
    ∀ u, (s'.pc u = .g6 ∨ s'.pc u = .g7) → s'.ncreate (s'.key u) = 1 ∧ s'.inst (s'.key u) = s'.loc u ∧ s'.loc u ≠ 0
      ∧ s'.res (s'.key u) = none ∧ s'.creator (s'.key u) = u := by
  intro u hu
  have h1 := h.r2 u
  have h2 := h.r2 t
  have h3 := h.r4' t
  have h4 := h.r1 (s.key t)
  rcases hr : s.res (s.key t) with _ | v
  · close_step hs
  · have h5 := h4 v hr
    close_step hs

theorem r2'_step (h : Inv s) (hs : step s t x = some s') :
    ∀ u, s'.pc u = .g8 → s'.res (s'.key u) = some (s'.loc u) := by
  intro u hu
  have h1 := h.r2' u
  have h2 := h.r2 t
  have h3 := h.r2 u
  have hf : s.pc u = .g8 → s.pc t = .g7 → s.key u = s.key t → u = t := fun a b c =>
    flight_unique h u t (by simp [a, PC.inFlight]) (by simp [b, PC.inFlight]) c
  close_step hs

theorem r3_step (h : Inv s) (hs : step s t x = some s') :
    ∀ k, s'.ncreate k ≤ 1 ∧ (s'.ncreate k ≠ 0 → s'.res k ≠ none ∨
      ((s'.pc (s'.creator k) = .g6 ∨ s'.pc (s'.creator k) = .g7) ∧ s'.key (s'.creator k) = k)) := by
  intro k
  have h1 := h.r3 k
  have h2 := h.r2 t
  have h3 := h.r4' t
  close_step hs

set_option maxHeartbeats 1000000 in
theorem r4_step (h : Inv s) (hs : step s t x = some s') :
    ∀ u, (s'.pc u = .g2 ∨ s'.pc u = .g3) → (s'.found u = true → s'.res (s'.key u) = some (s'.loc u))
      ∧ (s'.found u = false → s'.ncreate (s'.key u) = 0) := by
  intro u hu
  have h1 := h.r4 u
  have h2 := h.r4 t
  have h3 := h.r3 (s.key t)
  have h4 := h.r2 (s.creator (s.key t))
  have hf : ∀ v, (s.pc v).inFlight = true → (s.pc t).inFlight = true → s.key v = s.key t → v = t := fun v a b c =>
    flight_unique h v t a b c
  have hf1 := hf u
  have hf2 := hf (s.creator (s.key t))
  rcases hr : s.res (s.key t) with _ | v
  · close_step hs
  · close_step hs

theorem r4'_step (h : Inv s) (hs : step s t x = some s') :
    ∀ u, (s'.pc u = .g4 ∨ s'.pc u = .g5) → s'.ncreate (s'.key u) = 0 := by
  intro u hu
  have h1 := h.r4' u
  have h2 := h.r4 t
  have hf : (s.pc u).inFlight = true → (s.pc t).inFlight = true → s.key u = s.key t → u = t := fun a b c =>
    flight_unique h u t a b c
  close_step hs

theorem r5_step (h : Inv s) (hs : step s t x = some s') :
    ∀ c v, c < s'.next → s'.fnres c = some v → v ≠ 0 → s'.ncreate (s'.ekey c) = 1 ∧ s'.inst (s'.ekey c) = v := by
  intro c v hc hv hz
  have h1 := h.r5 c v
  have h2 := h.owns t
  have h3 := h.r4 t
  have h4 := h.r4' t
  have h5 := h.r2' t
  have h6 := h.r1 (s.key t)
  have h7 := h.nores t
  close_step hs

theorem rets_step (h : Inv s) (hs : step s t x = some s') :
    ∀ r ∈ s'.rets, r.direct = false → r.exec < s'.next ∧ s'.fnres r.exec = some r.val ∧ s'.ekey r.exec = r.key := by
  intro r hr hd
  have h1 := h.rets r
  have h2 := h.owns t
  have h3 := h.nores t
  have h4 := h.stored t
  have h5 := h.waits t
  have h6 := h.woken t
  have h9 := h.done (s.reg t)
  have h10 := h.stored (s.leader (s.reg t))
  have h11 := h.owns (s.leader (s.reg t))
  close_step hs

theorem pre4_step (h : Inv s) (hs : step s t x = some s') :
    ∀ u, (s'.pc u = .p2 ∨ s'.pc u = .p3) → s'.found u = true → s'.res (s'.key u) = some (s'.loc u) := by
  intro u hu hf
  have h1 := h.pre4 u
  have h2 := h.r2 t
  rcases hr : s.res (s.key t) with _ | v
  · close_step hs
  · close_step hs

theorem retsI_step (h : Inv s) (hs : step s t x = some s') :
    ∀ r ∈ s'.rets, r.val ≠ 0 → s'.ncreate r.key = 1 ∧ s'.inst r.key = r.val := by
  intro r hr hv
  have h1 := h.retsI r
  have h2 := h.owns t
  have h3 := h.pre4 t
  have h4 := h.stored t
  have h5 := h.waits t
  have h6 := h.woken t
  have h7 := h.r4' t
  have h8 := h.r1 (s.key t) (s.loc t)
  have h9 := h.done (s.reg t)
  have h10 := h.stored (s.leader (s.reg t))
  have h11 := h.owns (s.leader (s.reg t))
  have h12 := h.r5 (s.reg t) (s.cval (s.reg t))
  close_step hs

theorem retsD_step (h : Inv s) (hs : step s t x = some s') : ∀ r ∈ s'.rets, r.direct = true → r.val ≠ 0 := by
  intro r hr hd
  have h1 := h.retsD r
  have h3 := h.pre4 t
  have h8 := h.r1 (s.key t) (s.loc t)
  close_step hs

theorem inv_step (h : Inv s) (hs : step s t x = some s') : Inv s' :=
  ⟨lock_step h hs, flight_step h hs, prereg_step h hs, owns_step h hs, wg1_step h hs, wg0_step h hs,
   nores_step h hs, tmpres_step h hs, stored_step h hs, calls_step h hs, waits_step h hs, woken_step h hs,
   done_step h hs, lretlt_step h hs, writer_step h hs, r1_step h hs, r2_step h hs, r2'_step h hs, r3_step h hs,
   r4_step h hs, r4'_step h hs, r5_step h hs, rets_step h hs, pre4_step h hs, retsI_step h hs, retsD_step h hs, cv0_step h hs⟩

theorem inv_reach {s : St} (h : Reach s) : Inv s := by
  induction h with
  | init cfg => exact inv_init cfg
  | step t x _ hs ih => exact inv_step ih hs

theorem step_flow (hs : step s t x = some s') : s'.pc t ∈ succ (s.pc t) ∧ ∀ u, u ≠ t → s'.pc u = s.pc u := by
  step_cases hs <;> simp_all [upd, succ]

end GoZero.C07.RM
