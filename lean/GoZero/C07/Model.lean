/-
C07 — the executable models: SingleFlight (`SF`), LockedCalls (`LC`), ResourceManager (`RM`).
-/
import GoZero.C07.SF
import GoZero.C07.LC
import GoZero.C07.RM
