/-
C07 — round 5c: expiry / eviction / Del of an entry (`collection.Cache.Del`, the timing wheel's expiry, lru eviction,
`cacheNode.Del`, a redis TTL running out) as an environment action of the RM system, and the FLIGHT part of the invariant
(everything that does not speak about the resource map) re-established for it: the flight group retains nothing, whatever
is evicted in between.
-/
import GoZero.C07.ProofsRMX
namespace GoZero.C07.RM

/-- the entry of `k` disappears (atomic with respect to the map's lock, like `Cache.Del` under `c.lock` / a redis DEL).
Ghost: a new epoch of the key begins — the count of successful loads starts again. -/
def evict (s : St) (k : Key) : Option St :=
  if s.rw = none ∧ s.nrd = 0 then some { s with res := upd s.res k none, ncreate := upd s.ncreate k 0 } else none

/-- configurations reachable by calls and evictions, in any order. -/
inductive ReachE : St → Prop
  | init (cfg : Cfg) : ReachE (init cfg)
  | step {s s' : St} (t : Tid) (x : Nat) : ReachE s → step s t x = some s' → ReachE s'
  | evict {s s' : St} (k : Key) : ReachE s → evict s k = some s' → ReachE s'

/-- the flight part of `Inv`: no clause mentions `res`, `ncreate`, `inst`. -/
structure InvF (s : St) : Prop where
  lock : ∀ u, (s.pc u).holdsLock = true → s.lock = some u
  flight : ∀ u, (s.pc u).inFlight = true → s.calls (s.key u) = some (s.reg u)
  prereg : ∀ u, (s.pc u).preReg = true → s.calls (s.key u) = none
  owns : ∀ u, (s.pc u).owns = true → s.reg u < s.next ∧ s.leader (s.reg u) = u ∧ s.ekey (s.reg u) = s.key u
              ∧ s.lret (s.reg u) = false
  wg1 : ∀ u, (s.pc u).wgOne = true → s.wg (s.reg u) = 1
  wg0 : ∀ u, (s.pc u = .n1 ∨ (s.pc u).after = true) → s.wg (s.reg u) = 0
  nores : ∀ u, (s.pc u).noRes = true → s.fnres (s.reg u) = none
  tmpres : ∀ u, s.pc u = .m2 → s.fnres (s.reg u) = some (s.tmp u)
  stored : ∀ u, (s.pc u).stored = true → s.fnres (s.reg u) = some (s.cval (s.reg u))
  calls : ∀ k c, s.calls k = some c → c < s.next ∧ s.ekey c = k ∧ (s.pc (s.leader c)).inFlight = true ∧ s.reg (s.leader c) = c
  waits : ∀ u, (s.pc u).waits = true → s.reg u < s.next ∧ s.ekey (s.reg u) = s.key u ∧ published s (s.reg u)
  woken : ∀ u, s.pc u = .w2 → finished s (s.reg u)
  done : ∀ c, c < s.next → s.lret c = true → s.fnres c = some (s.cval c) ∧ s.wg c = 0
  lretlt : ∀ c, s.lret c = true → c < s.next
  writer : ∀ u, (s.pc u = .g7 ∨ s.pc u = .g8) → s.rw = some u
  rets : ∀ r ∈ s.rets, r.direct = false → r.exec < s.next ∧ s.fnres r.exec = some r.val ∧ s.ekey r.exec = r.key
  cv0 : ∀ u, (s.pc u).noRes = true → s.cval (s.reg u) = 0
  lockr : ∀ u, s.lock = some u → (s.pc u).holdsLock = true

theorem invF_of_inv {s : St} (h : Inv s) (hl : InvL s) : InvF s :=
  ⟨h.lock, h.flight, h.prereg, h.owns, h.wg1, h.wg0, h.nores, h.tmpres, h.stored, h.calls, h.waits, h.woken, h.done, h.lretlt, h.writer, h.rets, h.cv0, hl.lockr⟩

variable {s s' : St} {t : Tid} {x : Nat}

theorem lock_stepF (h : InvF s) (hs : step s t x = some s') :
    ∀ u, (s'.pc u).holdsLock = true → s'.lock = some u := by
  intro u hu
  have h1 := h.lock u
  have h2 := h.lock t
  close_step hs

theorem flight_stepF (h : InvF s) (hs : step s t x = some s') :
    ∀ u, (s'.pc u).inFlight = true → s'.calls (s'.key u) = some (s'.reg u) := by
  intro u hu
  have h1 := h.flight u
  have h2 := h.flight t
  have h3 := h.prereg u
  have h4 := h.prereg t
  have h5 := h.lock u
  have h6 := h.lock t
  have h7 := h.owns u
  have h8 := h.owns t
  close_step hs

theorem prereg_stepF (h : InvF s) (hs : step s t x = some s') :
    ∀ u, (s'.pc u).preReg = true → s'.calls (s'.key u) = none := by
  intro u hu
  have h3 := h.prereg u
  have h4 := h.prereg t
  have h5 := h.lock u
  have h6 := h.lock t
  close_step hs

theorem owns_stepF (h : InvF s) (hs : step s t x = some s') :
    ∀ u, (s'.pc u).owns = true → s'.reg u < s'.next ∧ s'.leader (s'.reg u) = u ∧ s'.ekey (s'.reg u) = s'.key u
              ∧ s'.lret (s'.reg u) = false := by
  intro u hu
  have h7 := h.owns u
  have h8 := h.owns t
  close_step hs

theorem wg1_stepF (h : InvF s) (hs : step s t x = some s') :
    ∀ u, (s'.pc u).wgOne = true → s'.wg (s'.reg u) = 1 := by
  intro u hu
  have h1 := h.wg1 u
  have h2 := h.wg1 t
  have h3 := h.wg0 u
  have h4 := h.wg0 t
  have h7 := h.owns u
  have h8 := h.owns t
  close_step hs

theorem wg0_stepF (h : InvF s) (hs : step s t x = some s') :
    ∀ u, (s'.pc u = .n1 ∨ (s'.pc u).after = true) → s'.wg (s'.reg u) = 0 := by
  intro u hu
  have h1 := h.wg1 u
  have h2 := h.wg1 t
  have h3 := h.wg0 u
  have h4 := h.wg0 t
  have h7 := h.owns u
  have h8 := h.owns t
  close_step hs

theorem nores_stepF (h : InvF s) (hs : step s t x = some s') :
    ∀ u, (s'.pc u).noRes = true → s'.fnres (s'.reg u) = none := by
  intro u hu
  have h1 := h.nores u
  have h2 := h.nores t
  have h7 := h.owns u
  have h8 := h.owns t
  close_step hs

theorem tmpres_stepF (h : InvF s) (hs : step s t x = some s') :
    ∀ u, s'.pc u = .m2 → s'.fnres (s'.reg u) = some (s'.tmp u) := by
  intro u hu
  have h1 := h.tmpres u
  have h2 := h.tmpres t
  have h7 := h.owns u
  have h8 := h.owns t
  close_step hs

theorem stored_stepF (h : InvF s) (hs : step s t x = some s') :
    ∀ u, (s'.pc u).stored = true → s'.fnres (s'.reg u) = some (s'.cval (s'.reg u)) := by
  intro u hu
  have h1 := h.stored u
  have h2 := h.stored t
  have h3 := h.tmpres u
  have h4 := h.tmpres t
  have h5 := h.cv0 t
  have h7 := h.owns u
  have h8 := h.owns t
  close_step hs

theorem calls_stepF (h : InvF s) (hs : step s t x = some s') :
    ∀ k c, s'.calls k = some c → c < s'.next ∧ s'.ekey c = k ∧ (s'.pc (s'.leader c)).inFlight = true
      ∧ s'.reg (s'.leader c) = c := by
  intro k c hc
  have h1 := h.calls k c
  have h2 := h.flight t
  have h3 := h.owns t
  have h4 := h.owns (s.leader c)
  close_step hs

set_option maxHeartbeats 1000000 in
theorem waits_stepF (h : InvF s) (hs : step s t x = some s') :
    ∀ u, (s'.pc u).waits = true → s'.reg u < s'.next ∧ s'.ekey (s'.reg u) = s'.key u ∧ published s' (s'.reg u) := by
  intro u hu
  have h1 := h.waits u
  have h2 := h.waits t
  have h3 := h.owns t
  have h4 := h.calls (s.key t)
  have h6 := h.owns (s.leader (s.reg u))
  rcases hc : s.calls (s.key t) with _ | c
  · clear h; close_step hs
  · have h7 := h.owns (s.leader c)
    clear h; close_step hs

theorem woken_stepF (h : InvF s) (hs : step s t x = some s') :
    ∀ u, s'.pc u = .w2 → finished s' (s'.reg u) := by
  intro u hu
  have h1 := h.woken u
  have h2 := h.waits t
  have h3 := h.owns t
  have h4 := h.wg1 (s.leader (s.reg t))
  have h5 := h.waits u
  close_step hs

theorem done_stepF (h : InvF s) (hs : step s t x = some s') :
    ∀ c, c < s'.next → s'.lret c = true → s'.fnres c = some (s'.cval c) ∧ s'.wg c = 0 := by
  intro c hc hl
  have h1 := h.done c
  have h2 := h.owns t
  have h3 := h.stored t
  have h4 := h.wg0 t
  have h5 := h.lretlt c
  close_step hs

theorem lretlt_stepF (h : InvF s) (hs : step s t x = some s') : ∀ c, s'.lret c = true → c < s'.next := by
  intro c hc
  have h1 := h.lretlt c
  have h2 := h.owns t
  close_step hs

theorem writer_stepF (h : InvF s) (hs : step s t x = some s') :
    ∀ u, (s'.pc u = .g7 ∨ s'.pc u = .g8) → s'.rw = some u := by
  intro u hu
  have h1 := h.writer u
  have h2 := h.writer t
  close_step hs

theorem rets_stepF (h : InvF s) (hs : step s t x = some s') :
    ∀ r ∈ s'.rets, r.direct = false → r.exec < s'.next ∧ s'.fnres r.exec = some r.val ∧ s'.ekey r.exec = r.key := by
  intro r hr hd
  have h1 := h.rets r
  have h2 := h.owns t
  have h3 := h.nores t
  have h4 := h.stored t
  have h5 := h.waits t
  have h6 := h.woken t
  have h9 := h.done (s.reg t)
  have h10 := h.stored (s.leader (s.reg t))
  have h11 := h.owns (s.leader (s.reg t))
  close_step hs

theorem cv0_stepF (h : InvF s) (hs : step s t x = some s') :
    ∀ u, (s'.pc u).noRes = true → s'.cval (s'.reg u) = 0 := by
  intro u hu
  have h1 := h.cv0 u
  have h2 := h.cv0 t
  have h7 := h.owns u
  have h8 := h.owns t
  close_step hs

theorem lockr_stepF (h : InvF s) (hs : step s t x = some s') :
    ∀ u, s'.lock = some u → (s'.pc u).holdsLock = true := by
  intro u hu
  have h1 := h.lockr u
  have h2 := h.lockr t
  have h3 := h.lock u
  have h4 := h.lock t
  close_step hs

set_option maxHeartbeats 1000000 in
theorem invF_step (h : InvF s) (hs : step s t x = some s') : InvF s' :=
  ⟨lock_stepF h hs, flight_stepF h hs, prereg_stepF h hs, owns_stepF h hs, wg1_stepF h hs, wg0_stepF h hs, nores_stepF h hs, tmpres_stepF h hs, stored_stepF h hs, calls_stepF h hs, waits_stepF h hs, woken_stepF h hs, done_stepF h hs, lretlt_stepF h hs, writer_stepF h hs, rets_stepF h hs, cv0_stepF h hs, lockr_stepF h hs⟩

theorem invF_evict {k : Key} (h : InvF s) (hs : evict s k = some s') : InvF s' := by
  unfold evict at hs
  split at hs
  · simp at hs; subst hs
    exact ⟨h.lock, h.flight, h.prereg, h.owns, h.wg1, h.wg0, h.nores, h.tmpres, h.stored, h.calls, h.waits, h.woken, h.done, h.lretlt, h.writer, h.rets, h.cv0, h.lockr⟩
  · simp at hs

theorem invF_reachE {s : St} (h : ReachE s) : InvF s := by
  induction h with
  | init cfg => exact invF_of_inv (inv_init cfg) (invL_init cfg)
  | step t x _ hs ih => exact invF_step ih hs
  | evict k _ hs ih => exact invF_evict ih hs

theorem reachE_of_reach {s : St} (h : Reach s) : ReachE s := by
  induction h with
  | init cfg => exact .init cfg
  | step t x _ hs ih => exact .step t x ih hs

end GoZero.C07.RM
