/-
C07 — driver.  One section = one concurrent run of G goroutines on one SingleFlight / LockedCalls /
ResourceManager (`cfg mode=sf|lc|rm`).  One line per call:

  call id=<n> g=<goroutine> key=<k> ex=<0|1> yield=<n> err=<0|1> hold=<0|1>
     => inv=<stamp> ret=<stamp> val=<id|nil> fresh=<0|1|-> err=<id|-> fs=<stamp|-> fe=<stamp|-> runs=<n> stuck=<0|1>

The monitor (`Spec`) evaluates the property on the history; the correspondence part checks that the history is
well formed and (mode sf / lc) that it is *explained by the Lean model*: `Explain` builds a schedule of the
model's own `step` function whose visible events are exactly the observed ones, in the observed order.
-/
import GoZero.Base.Trace
import GoZero.C07.Spec
import GoZero.C07.Explain
namespace GoZero.C07

open GoZero GoZero.C07.Spec

def optNat (s : String) : Option (Option Nat) :=
  if s = "-" || s = "nil" then some none else s.toNat?.map some

def optBool (s : String) : Option (Option Bool) :=
  if s = "-" then some none else if s = "1" then some (some true) else if s = "0" then some (some false) else none

def parseLine (l : Line) : Option Obs := do
  guard (l.op.head? = some "call")
  let nat (toks : List String) (k : String) : Option Nat := (kv? toks k).bind String.toNat?
  let flag (toks : List String) (k : String) : Option Bool := (nat toks k).bind fun n => if n = 0 then some false else if n = 1 then some true else none
  pure { line := l.idx, id := ← nat l.op "id", g := ← nat l.op "g", key := ← nat l.op "key",
         ex := ← flag l.op "ex", serr := ← flag l.op "err", hold := ← flag l.op "hold",
         inv := ← nat l.obs "inv", ret := ← nat l.obs "ret",
         val := ← (kv? l.obs "val").bind optNat, fresh := ← (kv? l.obs "fresh").bind optBool,
         err := ← (if (kv? l.obs "err") = some "lk" then some none else (kv? l.obs "err").bind optNat),
         lkerr := (kv? l.obs "err") = some "lk",
         cx := ← (match kv? l.op "cx" with | none => some 0 | some v => v.toNat?),
         fs := ← (kv? l.obs "fs").bind optNat, fe := ← (kv? l.obs "fe").bind optNat,
         runs := ← nat l.obs "runs", stuck := ← flag l.obs "stuck",
         panicked := (kv? l.obs "panic") = some "1" || (kv? l.obs "panic") = some "2",
         goexit := (kv? l.obs "panic") = some "2",
         spanic := (kv? l.op "panic") = some "1",
         nilv := (kv? l.op "nilv") = some "1",
         pk := ← (match kv? l.op "pk" with | none => some 1 | some v => v.toNat?),
         ek := ← (match kv? l.op "ek" with | none => some 1 | some v => v.toNat?),
         ep := ← (match kv? l.op "ep" with | none => some 0 | some v => v.toNat?) }

/-- well-formedness of one observed call (a broken harness or a broken stamp order is a mismatch). -/
def wellFormed (o : Obs) : Option String :=
  if !(o.inv < o.ret) then some "inv<ret"
  else if o.id = 0 then some "id>0"      -- 0 stands for Go's zero value in the models
  else match o.fs, o.fe with
    | some s, some e => if o.runs = 0 then some "stamps-without-run" else if o.inv < s && s < e && e < o.ret then none else some "inv<fs<fe<ret"
    | none, none => if o.runs = 0 then none else some "run-without-stamps"
    | _, _ => some "half-stamped"

def errKindName : Nat → String
  | 1 => "pointer" | 2 => "wrapped" | 3 => "value-typed" | 4 => "typed-nil" | 5 => "not-found" | _ => "?"
def optKindName : String → String
  | "0" => "0(none)" | "1" => "1(one)" | "2" => "2(all)" | "3" => "3(zero-valued)" | "4" => "4(negative)"
  | "5" => "5(empty/reordered/repeated)" | o => o
def ctxKindName : Nat → String
  | 0 => "background" | 1 => "far-deadline" | 2 => "cancelled" | 3 => "deadline-expired" | _ => "?"
def exitKindName : Nat → String
  | 1 => "panic-string" | 2 => "panic-error-value" | 3 => "runtime.Goexit" | _ => "?"

def dupIds (h : List Obs) : Bool := h.any fun a => h.any fun b => a.id = b.id && a.line ≠ b.line

/-- `1,5,9` / `-` → sorted list of ids. -/
def idList (s : String) : Option (List Nat) :=
  if s = "-" then some [] else (s.splitOn ",").mapM String.toNat?

def runSection (r : Report) (s : Section) : Report := Id.run do
  let mode := kvStr s.cfg "mode" "?"
  let mut r := r
  let mut hist : Array Obs := #[]
  let mut inj : List (Nat × Nat) := []        -- (key, instance id) registered with Inject before the run
  let mut closeLine : Option Line := none
  for l in s.lines do
    if mode = "rm" && l.op.head? = some "inject" then
      match (kv? l.op "key").bind String.toNat?, (kv? l.op "id").bind String.toNat?, l.obs with
      | some k, some n, ["ok"] =>
        if hist.isEmpty && (inj.lookup k).isNone then inj := inj ++ [(k, n)]; r := r.addCover "rm-inject"
        else r := r.mismatch s.idx l.idx "inject-before-calls-once-per-key" (joinSp l.op)
      | _, _, _ => r := r.mismatch s.idx l.idx "unparsable-line" (joinSp (l.op ++ ["=>"] ++ l.obs))
      continue
    if mode = "rm" && l.op.head? = some "corrupt" then
      -- an undecodable cache entry (cacheNode.processCache deletes it and reports not-found): to the model the key is
      -- absent (`RM.CacheRead.corrupt` behaves like `empty` in `RM.doTakeClosure`), so the row must be loaded once
      if l.obs = ["ok"] && hist.isEmpty then r := r.addCover "cacheNode.Take-corrupt-entry-before-the-calls"
      else r := r.mismatch s.idx l.idx "corrupt-before-calls" (joinSp (l.op ++ ["=>"] ++ l.obs))
      continue
    if mode = "rm" && l.op = ["close"] then
      closeLine := some l
      continue
    match parseLine l with
    | none => r := r.mismatch s.idx l.idx "unparsable-line" (joinSp (l.op ++ ["=>"] ++ l.obs))
    | some o =>
      r := { r with ops := r.ops + 1 }
      match wellFormed o with
      | some m => r := r.mismatch s.idx l.idx s!"well-formed({m})" (joinSp l.obs)
      | none => pure ()
      hist := hist.push o
  let h := hist.toList
  if dupIds h then r := r.mismatch s.idx 0 "unique-call-ids" "duplicate id"
  let viol :=
    if mode = "sf" then sfViolations h
    else if mode = "lc" then lcViolations h
    else if mode = "rm" then rmViolations (kvStr s.cfg "via" "" = "collection.Cache.Take") inj h
    else [(0, s!"unknown mode {mode}")]
  if mode ≠ "sf" && mode ≠ "lc" && mode ≠ "rm" then r := r.mismatch s.idx 0 "mode" mode
  for (ln, msg) in viol do
    r := r.violation s.idx ln msg
  -- the history must be a visible trace of the Lean model
  if viol.isEmpty then
    match Explain.explain mode (kvStr s.cfg "via" "") inj h with
    | .ok (steps, tags) =>
      r := r.addCover s!"{mode}-explained" 1 |>.addCover s!"{mode}-model-steps" steps
      for t in tags do r := r.addCover t
    | .error (ln, model, impl) => r := r.mismatch s.idx ln model impl
  -- `Close` after all calls returned: it closes exactly the instances the manager holds — the registered ones and
  -- the (single) successfully created one of every other key — each once.  (Not in the property text: a MISMATCH.)
  match closeLine with
  | none => pure ()
  | some l =>
    if kvStr l.obs "err" "?" = "skipped" then r := r.addCover "rm-close-skipped(stuck)"
    else
      match (kv? l.obs "closed").bind idList, (kv? l.obs "multi").bind idList with
      | some once, some multi =>
        let want := (inj.map (·.2) ++ (h.filter fun c => c.created && (inj.lookup c.key).isNone).map (·.id)).foldr insertSorted []
        if once.foldr insertSorted [] ≠ want || multi ≠ [] || kvStr l.obs "err" "?" ≠ "-" then
          r := r.mismatch s.idx l.idx s!"model: Close closes each held instance once: {want}" (joinSp l.obs)
        else r := r.addCover "rm-close-all-held-instances-closed-once"
      | _, _ => r := r.mismatch s.idx l.idx "unparsable-line" (joinSp (l.op ++ ["=>"] ++ l.obs))
  -- coverage counters
  let via := kvStr s.cfg "via" ""
  if via ≠ "" then
    -- a user of SingleFlight driven through its own API (same monitor / model as ResourceManager.GetResource)
    r := r.addCover s!"{via}-sections"
    r := r.addCover s!"{via}-constructor-options-{optKindName (kvStr s.cfg "opt" "0")}"
    for o in h do
      r := r.addCover s!"{via}-calls"
      if o.ran && !o.serr then r := r.addCover s!"{via}-loaded"
      if o.ran && o.failed then r := r.addCover s!"{via}-load-failed"
      if o.created && o.serr then r := r.addCover s!"{via}-load-reported-not-found(placeholder-cached)"
      if !o.ran && h.any (fun l => some l.id = o.val && l.serr && l.ek = 5) then r := r.addCover s!"{via}-got-not-found-without-query"
      if !o.ran && o.err.isSome then r := r.addCover s!"{via}-joiner-got-leaders-error"
      if o.ran && o.spanic then r := r.addCover s!"{via}-load-panicked"
      if !o.ran && o.panicked then r := r.addCover s!"{via}-joiner-of-panicked-load-panics"
      if !o.ran && !o.panicked && o.val.isNone && o.err.isNone && !o.lkerr then r := r.addCover s!"{via}-joiner-of-panicked-load-got-nil"
      if !o.ran && o.val.isSome then
        if h.any (fun l => some l.id = o.val && l.inv < o.ret && o.inv < l.ret && o.inv < l.fe.getD 0) then
          r := r.addCover s!"{via}-joiner-got-leaders-value"
        else r := r.addCover s!"{via}-got-cached-value"
  r := r.addCover s!"{mode}-sections"
  if kvStr s.cfg "herd" "0" = "1" then r := r.addCover s!"{mode}-sections-herd"
  if mode = "rm" && kvStr s.cfg "sfd" "-" ≠ "-" then r := r.addCover "rm-sections-delayed-flight-entry"
  if via ≠ "" && kvStr s.cfg "dst" "0" = "1" then r := r.addCover s!"{via}-sections-destination-reused-and-overwritten"
  for o in h do
    r := r.addCover s!"{mode}-calls"
    -- outcome kinds of the user function, per object / user
    let who := if via = "" then mode else via
    if o.ran && o.serr && !o.spanic then r := r.addCover s!"{who}-fn-error-kind-{o.ek}({errKindName o.ek})"
    if o.ran && o.spanic then r := r.addCover s!"{who}-fn-abnormal-kind-{o.pk}({exitKindName o.pk})"
    if !o.ran && o.err.isSome then
      match h.find? (fun l => some l.id = o.err) with
      | some l => r := r.addCover s!"{who}-joiner-got-error-kind-{l.ek}({errKindName l.ek})"
      | none => pure ()
    if o.goexit then r := r.addCover s!"{who}-call-ended-by-goexit"
    if via ≠ "" then r := r.addCover s!"{via}-entry-point-{o.ep}"
    if o.ep ≥ 2 then r := r.addCover s!"{via}-context-kind-{o.cx}({ctxKindName o.cx})"
    if o.lkerr && o.deadCtx then r := r.addCover s!"{via}-cancelled-context-lookup-error"
    if o.lkerr && !o.deadCtx then r := r.addCover s!"{via}-joiner-got-leaders-lookup-error"
    if !o.lkerr && o.deadCtx then r := r.addCover s!"{via}-cancelled-context-joined-a-healthy-flight"
    if o.ran then r := r.addCover s!"{mode}-executed" else r := r.addCover s!"{mode}-shared"
    if o.err.isSome then r := r.addCover s!"{mode}-err-result"
    if o.hold then r := r.addCover s!"{mode}-held"
    if o.panicked then r := r.addCover s!"{mode}-fn-panicked"
    if mode = "rm" && !o.ran && o.panicked then r := r.addCover "rm-joiner-of-panicked-flight-panics"
    if mode = "sf" && !o.ran && o.val.isNone && !o.panicked then
      if h.any (fun l => l.key = o.key && l.ran && l.nilv && l.id ≠ o.id && callsOverlap l o) then
        r := r.addCover "sf-joiner-got-nil-nil-of-an-execution-or-zero-of-a-panicked-one"
      else r := r.addCover "sf-joiner-of-panicked-flight-got-zero"
    if o.ran && o.nilv then r := r.addCover s!"{mode}-fn-returned-nil-nil"
    if mode = "sf" then
      if !o.ran then
        match h.find? (fun l => some l.id = o.val) with
        | some l =>
          -- the interleavings the property is about
          if (l.fe.getD 0) < o.inv then r := r.addCover "sf-joined-after-fn-end"
          else if (l.fs.getD 0) < o.inv then r := r.addCover "sf-joined-during-fn"
          else r := r.addCover "sf-joined-before-fn-start"
        | none => pure ()
      if o.ran && h.any (fun p => p.key = o.key && p.ran && p.id ≠ o.id && p.fe.getD 0 < o.fs.getD 0 && o.inv < p.ret) then
        r := r.addCover "sf-new-flight-while-previous-leader-returning"
      if o.ex then r := r.addCover "sf-doex" else r := r.addCover "sf-do"
    if mode = "lc" then
      if h.any (fun p => p.key = o.key && p.id ≠ o.id && p.ran && o.ran && p.inv < o.inv && o.inv < p.fe.getD 0) then
        r := r.addCover "lc-waited-for-running-call"
    if mode = "rm" then
      if o.created then r := r.addCover "rm-created"
      if o.ran && o.nilv then r := r.addCover s!"rm-loader-returned-nil-nil({if via = "" then "GetResource" else via})"
      if !o.ran && o.panicked && h.any (fun l => l.key = o.key && l.ran && l.nilv && l.id ≠ o.id) then
        r := r.addCover "rm-caller-of-a-key-holding-the-nil-instance-panics"
      if !o.ran && !o.panicked && h.any (fun l => some l.id = o.val && l.nilv) then r := r.addCover s!"{via}-got-the-cached-nil-instance"
      if o.ran && o.failed && !o.spanic then r := r.addCover "rm-create-failed"
      if !o.ran && o.val.isSome then r := r.addCover "rm-got-existing"
      if (inj.lookup o.key).isSome then r := r.addCover "rm-call-on-registered-key"
  return r

def driver (secs : List Section) : Report := secs.foldl runSection {}

end GoZero.C07
