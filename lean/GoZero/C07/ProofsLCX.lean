/-
C07 — LockedCalls: execution intervals (history form of the per-key exclusion), on top of `Inv`.
-/
import GoZero.C07.ProofsLC
namespace GoZero.C07.LC

def endsBefore (o : Option Nat) (a : Nat) : Prop := match o with | some b => b < a | none => False

theorem endsBefore_none (a : Nat) : endsBefore none a = False := rfl
theorem endsBefore_some (a b : Nat) : endsBefore (some b) a = (b < a) := rfl

def PC.notStarted : PC → Bool
  | .c1 | .c2 | .c3 | .f0 => true
  | _ => false

/-- the caller's function is executing -/
def PC.running : PC → Bool
  | .f1 | .fp => true
  | _ => false

structure InvX (s : St) : Prop where
  ekey    : ∀ u, (s.pc u).owns = true → s.ekey (s.reg u) = s.key u
  nstart  : ∀ u, (s.pc u).notStarted = true → s.fstart (s.reg u) = none ∧ s.fend (s.reg u) = none
  run1    : ∀ u, (s.pc u).running = true → s.fstart (s.reg u) ≠ none ∧ s.fend (s.reg u) = none
  running : ∀ w, w < s.next → s.fstart w ≠ none → s.fend w = none → (s.pc (s.owner w)).running = true ∧ s.reg (s.owner w) = w
  tstart  : ∀ w a, s.fstart w = some a → a < s.now ∧ w < s.next
  tend    : ∀ w b, s.fend w = some b → b < s.now ∧ endsBefore (s.fstart w) b ∧ s.fstart w ≠ none
  disj    : ∀ c d a a', c ≠ d → s.ekey c = s.ekey d → s.fstart c = some a → s.fstart d = some a' →
              endsBefore (s.fend c) a' ∨ endsBefore (s.fend d) a

theorem invX_init : InvX init := by
  constructor <;> simp [init, PC.notStarted, PC.owns, PC.running]

theorem flight_unique (h : Inv s) (u v : Tid) (hu : (s.pc u).inFlight = true) (hv : (s.pc v).inFlight = true)
    (hk : s.key u = s.key v) : u = v := by
  have a := h.flight u hu
  have b := h.flight v hv
  have c := (h.owns u (by revert hu; cases s.pc u <;> simp [PC.inFlight, PC.owns])).2
  have d := (h.owns v (by revert hv; cases s.pc v <;> simp [PC.inFlight, PC.owns])).2
  rw [hk, b] at a
  have e : s.reg v = s.reg u := by simpa using a
  rw [e] at d
  rw [← c, d]

macro "close_stepx" hs:ident : tactic =>
  `(tactic| (step_cases $hs:ident <;>
      simp [upd, PC.owns, PC.notStarted, PC.running] at * <;> grind [endsBefore_none, endsBefore_some]))

variable {s s' : St} {t : Tid} {x : Nat}

theorem ekey_step (h : Inv s) (hx : InvX s) (hs : step s t x = some s') :
    ∀ u, (s'.pc u).owns = true → s'.ekey (s'.reg u) = s'.key u := by
  intro u hu
  have h1 := hx.ekey u
  have h3 := h.owns u
  have h4 := h.owns t
  close_stepx hs

theorem nstart_step (h : Inv s) (hx : InvX s) (hs : step s t x = some s') :
    ∀ u, (s'.pc u).notStarted = true → s'.fstart (s'.reg u) = none ∧ s'.fend (s'.reg u) = none := by
  intro u hu
  have h1 := hx.nstart u
  have h2 := hx.nstart t
  have h3 := h.owns u
  have h4 := h.owns t
  close_stepx hs

theorem run1_step (h : Inv s) (hx : InvX s) (hs : step s t x = some s') :
    ∀ u, (s'.pc u).running = true → s'.fstart (s'.reg u) ≠ none ∧ s'.fend (s'.reg u) = none := by
  intro u hu
  have h1 := hx.run1 u
  have h2 := hx.nstart t
  have h3 := h.owns u
  have h4 := h.owns t
  close_stepx hs

theorem running_step (h : Inv s) (hx : InvX s) (hs : step s t x = some s') :
    ∀ w, w < s'.next → s'.fstart w ≠ none → s'.fend w = none → (s'.pc (s'.owner w)).running = true ∧ s'.reg (s'.owner w) = w := by
  intro w hw h1 h2
  have h3 := hx.running w
  have h4 := h.owns t
  have h5 := hx.nstart t
  have h6 := hx.run1 t
  close_stepx hs

theorem tstart_step (h : Inv s) (hx : InvX s) (hs : step s t x = some s') :
    ∀ w a, s'.fstart w = some a → a < s'.now ∧ w < s'.next := by
  intro w a hw
  have h3 := hx.tstart w a
  have h4 := h.owns t
  close_stepx hs

theorem tend_step (h : Inv s) (hx : InvX s) (hs : step s t x = some s') :
    ∀ w b, s'.fend w = some b → b < s'.now ∧ endsBefore (s'.fstart w) b ∧ s'.fstart w ≠ none := by
  intro w b hw
  have h3 := hx.tend w b
  have h4 := h.owns t
  have h5 := hx.run1 t
  have h6 : ∀ a, s.fstart (s.reg t) = some a → a < s.now := fun a ha => (hx.tstart _ a ha).1
  have h7 := hx.nstart t
  rcases hf : s.fstart (s.reg t) with _ | a
  · close_stepx hs
  · have h8 := h6 a hf
    close_stepx hs

theorem disj_step (h : Inv s) (hx : InvX s) (hs : step s t x = some s') :
    ∀ c d a a', c ≠ d → s'.ekey c = s'.ekey d → s'.fstart c = some a → s'.fstart d = some a' →
      endsBefore (s'.fend c) a' ∨ endsBefore (s'.fend d) a := by
  intro c d a a' hne hk hc hd
  have h1 := hx.disj c d a a' hne
  have h2 := h.owns t
  have h3 := hx.tstart c a
  have h4 := hx.tstart d a'
  have key : ∀ e, e < s.next → e ≠ s.reg t → s.ekey e = s.ekey (s.reg t) → s.fstart e ≠ none → s.pc t = .f0 →
      ∃ b, s.fend e = some b ∧ b < s.now := by
    intro e he hne' hke hst hpc
    cases hfe : s.fend e with
    | some b => exact ⟨b, rfl, (hx.tend e b hfe).1⟩
    | none =>
      exfalso
      obtain ⟨r1, r2⟩ := hx.running e he hst hfe
      have kt := hx.ekey t (by simp [hpc, PC.owns])
      have kl := hx.ekey (s.owner e) (by revert r1; cases s.pc (s.owner e) <;> simp [PC.running, PC.owns])
      have : s.owner e = t := flight_unique h _ _ (by revert r1; cases s.pc (s.owner e) <;> simp [PC.running, PC.inFlight])
        (by simp [hpc, PC.inFlight]) (by rw [← kl, r2, hke, kt])
      rw [this] at r1
      rw [hpc] at r1
      simp [PC.running] at r1
  have k1 := key c
  have k2 := key d
  have h5 := hx.tend c
  have h6 := hx.tend d
  have h7 := hx.nstart t
  have h8 := hx.run1 t
  close_stepx hs

theorem invX_step (h : Inv s) (hx : InvX s) (hs : step s t x = some s') : InvX s' :=
  ⟨ekey_step h hx hs, nstart_step h hx hs, run1_step h hx hs, running_step h hx hs, tstart_step h hx hs,
   tend_step h hx hs, disj_step h hx hs⟩

theorem invX_reach {s : St} (h : Reach s) : InvX s := by
  induction h with
  | init => exact invX_init
  | step t x hr hs ih => exact invX_step (inv_reach hr) ih hs

end GoZero.C07.LC
