/-
C07 — executable small-step model of core/syncx/resourcemanager.go: `GetResource` = `singleFlight.Do(key, closure)`
with the closure's statements as rows (core Lean only).  See Basic.lean for the conventions.

Values: `0` = the error outcome `(nil, err)`; `v > 0` = resource instance `v`.  The environment input of the
`create returns` step is `create`'s outcome (`0` = it failed).
-/
import GoZero.C07.Basic
namespace GoZero.C07

/-- one returned `GetResource` call (ghost record). -/
structure RRet where
  tid  : Tid
  key  : Key
  exec : CallId
  val  : Val      -- 0 = error (or the nil value of a panicked flight, `Cfg.asrt = false`), else the instance
  direct : Bool := false   -- returned by the lookup in front of the flight (`Cfg.pre`): no flight, `exec` is meaningless
  deriving Repr, DecidableEq

/-- **The users of the double-checked singleflight pattern** — `flight.Do(key, { look the key up; found → return it;
load; on error return it; store; return the loaded value })` — differ in two places only:

* `pre`:  the caller looks the key up *before* the flight and returns a hit directly, without any flight
  (`collection.Cache.Take`: `if val, ok := c.doGet(key); ok { return val, nil }`);
* `asrt`: after the flight the caller type-asserts the value; for a joiner of a flight whose loader panicked the value
  is nil and the assertion panics (`ResourceManager.GetResource`: `val.(io.Closer)`, `cacheNode.doTake`:
  `val.([]byte)`); without it the joiner silently returns `(nil, nil)` (`collection.Cache.Take`).

The transition system below is parameterised by these two flags; every `rm_*` theorem holds for every `Cfg`. -/
structure Cfg where
  pre  : Bool
  asrt : Bool
  /-- the lookup inside the flight can FAIL (not "absent": an error): the closure then returns that error without
  running the loader (`cacheNode.doTake`: `doGetCache` returns a redis / context error other than not-found) -/
  lerr : Bool := false
  deriving Repr, DecidableEq

/-- `ResourceManager.GetResource` (core/syncx/resourcemanager.go). -/
def Cfg.getResource : Cfg := { pre := false, asrt := true }
/-- `collection.Cache.Take` (core/collection/cache.go): map = `c.data`, loader = `fetch`, store = `c.Set`. -/
def Cfg.cacheTake : Cfg := { pre := true, asrt := false }
/-- `cacheNode.doTake` (core/stores/cache/cachenode.go): map = the redis key, loader = `query`, store = `cacheVal`. -/
def Cfg.doTake : Cfg := { pre := false, asrt := true, lerr := true }

namespace RM

/-- program counters: `flightGroup.Do` (as in `SF`) with the closure of `GetResource` in place of `fn`.
```
idle                                 the caller invokes (GetResource / Take) with a key
p0    (only `Cfg.pre`) lock for the lookup in front of the flight
p1    resource, ok := map[key]
p2    unlock
p3    if ok { return resource, nil }   (a direct hit: no flight);  else go on to the flight
l0 l1 w0 w1 w2 n0 n1 n2 n3           as in SF (createCall)
g0    manager.lock.RLock()
g1    resource, ok := manager.resources[key]
g2    manager.lock.RUnlock()
g3    if ok { return resource, nil }
      (only `Cfg.lerr`, environment input ≠ 0: the lookup had failed with an error — the closure returns `(nil, err)`
       at once, no `create`; `cacheNode.doTake`: "we don't allow the disaster pass to the dbs")
g4    create() starts        (environment input ≠ 0: it is going to panic → gp)
g5    create() returns;  if err != nil { return nil, err }
gp    create() panics: the closure and makeCall's store are abandoned, makeCall's deferred block runs (d0 … d3)
g6    manager.lock.Lock()
g7    manager.resources[key] = resource
g8    (deferred) manager.lock.Unlock();  return resource, nil
m2 d0 d1 d2 d3 r0                    as in SF (makeCall's store and deferred block, return)
px    the panic leaves Do and GetResource: the leading call ends without returning
r0    (leader) return — unless the flight's value is the nil instance (`nilInst`: the loader returned `(nil, nil)`) and
      the user asserts the type (`Cfg.asrt`): the assertion panics, the call ends without returning
w2    (joiner) `val, err := Do(…)`: after a panicked flight both are nil, and `val.(io.Closer)` panics with a nil
      interface conversion — the joiner's call ends without returning, too (`Cfg.asrt`; without the assertion the
      joiner returns the nil value)
``` -/
inductive PC
  | idle | p0 | p1 | p2 | p3 | l0 | l1 | w0 | w1 | w2 | n0 | n1 | n2 | n3
  | g0 | g1 | g2 | g3 | g4 | g5 | gp | g6 | g7 | g8
  | m2 | d0 | d1 | d2 | d3 | r0 | px
  deriving DecidableEq, Repr

structure St where
  cfg   : Cfg                   -- which user (constant: no step changes it)
  -- singleflight
  lock  : Option Tid
  calls : Key → Option CallId
  wg    : CallId → Nat
  cval  : CallId → Val
  next  : CallId
  -- resource manager
  rw    : Option Tid            -- manager.lock held for writing
  nrd   : Nat                   -- manager.lock read holders
  res   : Key → Option Val      -- manager.resources
  -- per goroutine
  pc    : Tid → PC
  key   : Tid → Key
  reg   : Tid → CallId
  tmp   : Tid → Val             -- the closure's result before it is stored in c.val
  loc   : Tid → Val             -- closure-local `resource`
  found : Tid → Bool            -- closure-local `ok`
  pn    : Tid → Bool            -- the goroutine is unwinding a panic of create
  -- ghost
  leader  : CallId → Tid
  lret    : CallId → Bool       -- the leading call has returned
  fnres   : CallId → Option Val
  ekey    : CallId → Key
  ncreate : Key → Nat           -- successful `create` calls per key
  inst    : Key → Val           -- the instance made by the last successful `create`
  creator : Key → Tid
  pan     : CallId → Bool       -- create panicked in this flight (then c.val and c.err stay nil)
  rets    : List RRet

/-- **the nil instance**: what a loader hands back when it returns `(nil, nil)` — no error, no resource.  The code treats
it like any instance (it is stored: `manager.resources[key] = nil`, `c.Set(key, nil)`) until the type assertion after
the flight: `ResourceManager.GetResource` (`val.(io.Closer)`) panics — in the leader, in every joiner, and in every later
caller, for the key now HOLDS the nil instance; `collection.Cache.Take` has no assertion and returns `(nil, nil)` to
everyone.  (Real instances are ≥ 2 in the correspondence runs.) -/
def nilInst : Val := 1

def init (cfg : Cfg) : St :=
  { cfg := cfg, lock := none, calls := fun _ => none, wg := fun _ => 0, cval := fun _ => 0, next := 0,
    rw := none, nrd := 0, res := fun _ => none,
    pc := fun _ => .idle, key := fun _ => 0, reg := fun _ => 0, tmp := fun _ => 0, loc := fun _ => 0,
    found := fun _ => false, pn := fun _ => false,
    leader := fun _ => 0, lret := fun _ => false, fnres := fun _ => none, ekey := fun _ => 0,
    ncreate := fun _ => 0, inst := fun _ => 0, creator := fun _ => 0, pan := fun _ => false, rets := [] }

def step (s : St) (t : Tid) (x : Nat) : Option St :=
  match s.pc t with
  | .idle => if s.cfg.pre = true then some { s with pc := upd s.pc t .p0, key := upd s.key t x }
             else some { s with pc := upd s.pc t .l0, key := upd s.key t x }
  | .p0 => if s.rw = none then some { s with nrd := s.nrd + 1, pc := upd s.pc t .p1 } else none
  | .p1 => some { s with loc := upd s.loc t ((s.res (s.key t)).getD 0), found := upd s.found t (s.res (s.key t)).isSome,
                         pc := upd s.pc t .p2 }
  | .p2 => some { s with nrd := s.nrd - 1, pc := upd s.pc t .p3 }
  | .p3 => if s.found t = true then
             some { s with pc := upd s.pc t .idle,
                           rets := { tid := t, key := s.key t, exec := 0, val := s.loc t, direct := true } :: s.rets }
           else some { s with pc := upd s.pc t .l0 }
  | .l0 => if s.lock = none then some { s with lock := some t, pc := upd s.pc t .l1 } else none
  | .l1 =>
    match s.calls (s.key t) with
    | some c => some { s with reg := upd s.reg t c, pc := upd s.pc t .w0 }
    | none => some { s with pc := upd s.pc t .n0 }
  | .w0 => some { s with lock := none, pc := upd s.pc t .w1 }
  | .w1 => if s.wg (s.reg t) = 0 then some { s with pc := upd s.pc t .w2 } else none
  | .w2 => if (s.pan (s.reg t) = true ∨ s.cval (s.reg t) = nilInst) ∧ s.cfg.asrt = true then some { s with pc := upd s.pc t .idle }
           else some { s with pc := upd s.pc t .idle,
                              rets := { tid := t, key := s.key t, exec := s.reg t, val := s.cval (s.reg t) } :: s.rets }
  | .n0 => some { s with reg := upd s.reg t s.next, next := s.next + 1, pc := upd s.pc t .n1,
                         pn := upd s.pn t false, pan := upd s.pan s.next false,
                         wg := upd s.wg s.next 0, cval := upd s.cval s.next 0,
                         fnres := upd s.fnres s.next none, lret := upd s.lret s.next false,
                         leader := upd s.leader s.next t, ekey := upd s.ekey s.next (s.key t) }
  | .n1 => some { s with wg := upd s.wg (s.reg t) (s.wg (s.reg t) + 1), pc := upd s.pc t .n2 }
  | .n2 => some { s with calls := upd s.calls (s.key t) (some (s.reg t)), pc := upd s.pc t .n3 }
  | .n3 => some { s with lock := none, pc := upd s.pc t .g0 }
  | .g0 => if s.rw = none then some { s with nrd := s.nrd + 1, pc := upd s.pc t .g1 } else none
  | .g1 => some { s with loc := upd s.loc t ((s.res (s.key t)).getD 0), found := upd s.found t (s.res (s.key t)).isSome,
                         pc := upd s.pc t .g2 }
  | .g2 => some { s with nrd := s.nrd - 1, pc := upd s.pc t .g3 }
  | .g3 =>
    match s.found t, decide (x ≠ 0 ∧ s.cfg.lerr = true) with
    | _, true =>       -- the failed lookup comes first: whatever the key holds, the caller sees the error
      some { s with tmp := upd s.tmp t 0, fnres := upd s.fnres (s.reg t) (some 0), pc := upd s.pc t .m2 }
    | true, false =>
      some { s with tmp := upd s.tmp t (s.loc t), fnres := upd s.fnres (s.reg t) (some (s.loc t)), pc := upd s.pc t .m2 }
    | false, false => some { s with pc := upd s.pc t .g4 }
  | .g4 => if x = 0 then some { s with pc := upd s.pc t .g5 } else some { s with pc := upd s.pc t .gp }
  | .gp => some { s with pn := upd s.pn t true, pan := upd s.pan (s.reg t) true, fnres := upd s.fnres (s.reg t) (some 0),
                         pc := upd s.pc t .d0 }
  | .g5 => if x = 0 then
             some { s with tmp := upd s.tmp t 0, fnres := upd s.fnres (s.reg t) (some 0), pc := upd s.pc t .m2 }
           else some { s with loc := upd s.loc t x, ncreate := upd s.ncreate (s.key t) (s.ncreate (s.key t) + 1),
                              inst := upd s.inst (s.key t) x, creator := upd s.creator (s.key t) t, pc := upd s.pc t .g6 }
  | .g6 => if s.rw = none ∧ s.nrd = 0 then some { s with rw := some t, pc := upd s.pc t .g7 } else none
  | .g7 => some { s with res := upd s.res (s.key t) (some (s.loc t)), pc := upd s.pc t .g8 }
  | .g8 => some { s with rw := none, tmp := upd s.tmp t (s.loc t), fnres := upd s.fnres (s.reg t) (some (s.loc t)),
                         pc := upd s.pc t .m2 }
  | .m2 => some { s with cval := upd s.cval (s.reg t) (s.tmp t), pc := upd s.pc t .d0 }
  | .d0 => if s.lock = none then some { s with lock := some t, pc := upd s.pc t .d1 } else none
  | .d1 => some { s with calls := upd s.calls (s.key t) none, pc := upd s.pc t .d2 }
  | .d2 => some { s with lock := none, pc := upd s.pc t .d3 }
  | .d3 => if s.pn t = true then some { s with wg := upd s.wg (s.reg t) (s.wg (s.reg t) - 1), pc := upd s.pc t .px }
           else some { s with wg := upd s.wg (s.reg t) (s.wg (s.reg t) - 1), pc := upd s.pc t .r0 }
  | .r0 => if s.cval (s.reg t) = nilInst ∧ s.cfg.asrt = true then
             -- the loader returned (nil, nil): `val.(io.Closer)` / `val.([]byte)` on the nil value panics in the leader, too
             some { s with pc := upd s.pc t .idle, lret := upd s.lret (s.reg t) true }
           else some { s with pc := upd s.pc t .idle, lret := upd s.lret (s.reg t) true,
                              rets := { tid := t, key := s.key t, exec := s.reg t, val := s.cval (s.reg t) } :: s.rets }
  | .px => some { s with pc := upd s.pc t .idle, pn := upd s.pn t false, lret := upd s.lret (s.reg t) true }

/-- `ResourceManager.Inject(key, resource)`: `lock.Lock(); resources[key] = resource; lock.Unlock()` — one atomic
action with respect to the RW mutex (enabled iff no reader and no writer).  Not part of `Reach`; since round 5 part of
`ReachI` (ProofsRMX.lean): registrations while no call is in progress, of keys that hold nothing — then every theorem
holds with the registered resource as the key's instance (`rm_inject_*` in Props.lean).  Inject after a create trivially
hands a second instance out (example in Props.lean); the correspondence runs pre-register resources before any call. -/
def inject (s : St) (k : Key) (v : Val) : Option St :=
  if s.rw = none ∧ s.nrd = 0 then
    -- (ghost: the registration counts as the key's one creation, the registered resource is its instance)
    some { s with res := upd s.res k (some v), ncreate := upd s.ncreate k 1, inst := upd s.inst k v }
  else none

/-! ### `cacheNode.doTake`'s closure as a decision function (tied to the translated if / else-if tree in `Tie.lean`) -/

/-- how `doGetCache` ended: a redis / context error, no entry, the not-found placeholder, a row, a row that does not
unmarshal (`processCache` deletes it and reports not-found). -/
inductive CacheRead | error | empty | placeholder | row | corrupt
  deriving DecidableEq, Repr
/-- how `query` ended. -/
inductive QueryRes | row | notFound | error
  deriving DecidableEq, Repr
/-- what the closure hands to the flight. -/
inductive ClosureOut | value | notFound | error
  deriving DecidableEq, Repr

structure Closure where
  out     : ClosureOut
  queried : Bool          -- `query` ran
  stored  : Bool          -- something was written to the cache (`cacheVal`: the row; `setCacheWithNotFound`: the placeholder)
  deriving DecidableEq, Repr

def doTakeClosure (c : CacheRead) (q : QueryRes) : Closure :=
  match c with
  | .row => ⟨.value, false, false⟩
  | .placeholder => ⟨.notFound, false, false⟩
  | .error => ⟨.error, false, false⟩
  | .empty | .corrupt =>
    match q with
    | .row => ⟨.value, true, true⟩
    | .notFound => ⟨.notFound, true, true⟩
    | .error => ⟨.error, true, false⟩

/-- the same decisions in terms of the rows' inputs: `found` (a row or the placeholder is what the key holds — in the
model the placeholder is an instance), the lookup-error input of row g3, the outcome input of row g5. -/
def CacheRead.found : CacheRead → Bool | .row | .placeholder => true | _ => false
def CacheRead.g3Input : CacheRead → Nat | .error => 1 | _ => 0
def QueryRes.g5Input (v : Val) : QueryRes → Nat | .error => 0 | _ => v

/-- the statement of `GetResource`'s closure each `g`/`m` row stands for (tied in `Tie.lean`). -/
def stmt : PC → String
  | .g0 => "call manager.lock.RLock()"
  | .g1 => "mapget manager.resources[key]"
  | .g2 => "call manager.lock.RUnlock()"
  | .g3 => "if ok {"
  | .g4 => "call create()"
  | .g5 => "if err != nil {"
  | .g6 => "call manager.lock.Lock()"
  | .g7 => "mapset manager.resources[key] = resource"
  | .g8 => "call manager.lock.Unlock()"
  | _ => "(singleflight)"

def succ : PC → List PC
  | .idle => [.p0, .l0] | .p0 => [.p1] | .p1 => [.p2] | .p2 => [.p3] | .p3 => [.idle, .l0] | .l0 => [.l1] | .l1 => [.w0, .n0]
  | .w0 => [.w1] | .w1 => [.w2] | .w2 => [.idle]
  | .n0 => [.n1] | .n1 => [.n2] | .n2 => [.n3] | .n3 => [.g0]
  | .g0 => [.g1] | .g1 => [.g2] | .g2 => [.g3] | .g3 => [.m2, .g4] | .g4 => [.g5, .gp] | .g5 => [.m2, .g6] | .gp => [.d0]
  | .g6 => [.g7] | .g7 => [.g8] | .g8 => [.m2] | .m2 => [.d0]
  | .d0 => [.d1] | .d1 => [.d2] | .d2 => [.d3] | .d3 => [.r0, .px] | .r0 => [.idle] | .px => [.idle]

def run (s : St) : List (Tid × Nat) → Option St
  | [] => some s
  | (t, x) :: rest => match step s t x with
    | some s' => run s' rest
    | none => none

inductive Reach : St → Prop
  | init (cfg : Cfg) : Reach (init cfg)
  | step {s s' : St} (t : Tid) (x : Nat) : Reach s → step s t x = some s' → Reach s'

end RM
end GoZero.C07
