/-
C07 — executable monitors on observable histories (core Lean only).

A history is the list of calls of one concurrent run, each with the stamps the harness took from one global
atomic counter: `inv` (just before the call), `ret` (just after it returned), `fs`/`fe` (first / last statement of
the user function, if it ran inside this call), and what the call returned.  Every user function returns the id
of the call it belongs to, so a returned value names the execution it came from.

Stamps are taken *outside* the call and *inside* the function, hence
  real call interval ⊆ [inv, ret]     and     [fs, fe] ⊆ real execution interval,
so "call intervals overlap" is only ever weakened and "executions are disjoint" only ever weakened: a monitor
alarm is a genuine violation of the property on the real code, whatever the scheduler did.
-/
namespace GoZero.C07.Spec

/-- one call as observed. -/
structure Obs where
  line  : Nat
  id    : Nat
  g     : Nat
  key   : Nat
  ex    : Bool            -- DoEx (fresh observed)
  serr  : Bool            -- scripted: the function returns an error
  hold  : Bool            -- scripted: the function blocks until the harness releases it
  inv   : Nat
  ret   : Nat
  val   : Option Nat      -- id of the execution the returned value came from (none: nil / zero value)
  fresh : Option Bool
  err   : Option Nat      -- id of the execution the returned error came from
  fs    : Option Nat
  fe    : Option Nat
  runs  : Nat             -- how often this call's own function was executed
  stuck : Bool            -- the call did not return while only calls on other keys were being held
  panicked : Bool := false  -- the call panicked
  spanic : Bool := false    -- scripted: the function panics (outside the property's quantifier; see Props.lean)
  goexit : Bool := false    -- the call's goroutine was ended by `runtime.Goexit` (observed `panic=2`)
  pk : Nat := 1             -- scripted: how the function ends abnormally (1 panic(string), 2 panic(error value), 3 runtime.Goexit)
  ek : Nat := 1             -- scripted: class of the error value (1 pointer, 2 wrapped, 3 value-typed, 4 typed nil)
  ep : Nat := 0             -- the public entry point of the user the call went through
  nilv : Bool := false      -- scripted: the function returns (nil, nil)
  cx : Nat := 0             -- scripted: the context passed to a ...Ctx entry point (0 Background, 1 far deadline, 2 cancelled)
  lkerr : Bool := false     -- observed: the call returned the lookup error of its flight (`err=lk`: context.Canceled)
  deriving Repr

def Obs.ran (o : Obs) : Bool := o.runs > 0
/-- the context the call passes is already dead when the call starts: cancelled (`cx=2`) or past its deadline (`cx=3`);
the cache lookup inside a flight it leads fails. -/
def Obs.deadCtx (o : Obs) : Bool := o.cx = 2 || o.cx = 3
/-- ResourceManager: this call's `create` ran and succeeded (scripted: no error, no panic). -/
def Obs.created (o : Obs) : Bool := o.runs > 0 && (!o.serr || o.ek = 5) && !o.spanic
/-- the loader failed with an error that is handed to the overlapping callers and not cached. -/
def Obs.failed (o : Obs) : Bool := o.serr && o.ek ≠ 5

/-- executions of two different calls on the same key must not overlap. -/
def overlapping (a b : Obs) : Bool :=
  match a.fs, a.fe, b.fs, b.fe with
  | some as, some ae, some bs, some be => a.id ≠ b.id && a.key = b.key && !(ae < bs || be < as)
  | _, _, _, _ => false

/-- (line, message) for every pair of overlapping executions on one key. -/
def exclusiveViolations (h : List Obs) : List (Nat × String) :=
  h.flatMap fun a => h.filterMap fun b =>
    if a.id < b.id && overlapping a b then
      some (b.line, s!"exclusive: executions of calls {a.id} and {b.id} on key {a.key} overlap " ++
                    s!"([{a.fs.getD 0},{a.fe.getD 0}] and [{b.fs.getD 0},{b.fe.getD 0}])")
    else none

/-- call intervals overlap (the leader's call of the execution handed out must overlap the caller's call). -/
def callsOverlap (l r : Obs) : Bool := l.inv < r.ret && r.inv < l.ret

/-- SingleFlight: whose result did `r` get, and was it allowed to get it. -/
def noStaleViolation (h : List Obs) (r : Obs) : Option String :=
  match r.val with
  | none =>
    -- the zero values: only as joiner of a flight whose function panicked (what the code does; `sf_panic_joiners_zero`)
    if !r.ran && r.err.isNone && h.any (fun l => l.key = r.key && l.ran && (l.spanic || l.nilv) && l.id ≠ r.id && callsOverlap l r) then none
    -- … or the caller's own execution returned (nil, nil)
    else if r.ran && r.nilv && r.err.isNone then none
    else some s!"no-stale: call {r.id} (key {r.key}) got a value that no execution produced"
  | some v =>
    match h.find? (·.id = v) with
    | none => some s!"no-stale: call {r.id} (key {r.key}) got a value of unknown execution {v}"
    | some l =>
      if l.key ≠ r.key then some s!"no-stale: call {r.id} (key {r.key}) got the result of execution {l.id} of key {l.key}"
      else if !l.ran then some s!"no-stale: call {r.id} got the result of call {l.id} whose function never ran"
      else if r.err ≠ (if l.serr then some l.id else none) then
        some s!"no-stale: call {r.id} got value of execution {l.id} but error of {r.err}"
      else if l.id = r.id then none
      else if r.ran then some s!"no-stale: call {r.id} executed its own function but returned the result of execution {l.id}"
      else if callsOverlap l r then none
      else some (s!"no-stale: call {r.id} [{r.inv},{r.ret}] on key {r.key} got the result of execution {l.id} whose " ++
                 s!"leading call [{l.inv},{l.ret}] does not overlap it (retained result)")

/-- SingleFlight: exactly the caller that executed is reported fresh. -/
def freshViolation (r : Obs) : Option String :=
  match r.fresh with
  | none => none
  | some f =>
    if f && !r.ran then some s!"one-fresh: call {r.id} is reported fresh but did not execute"
    else if !f && r.ran then some s!"one-fresh: call {r.id} executed but is not reported fresh"
    else if f && r.val ≠ (if r.nilv then none else some r.id) then some s!"one-fresh: call {r.id} is fresh but returns the result of another execution"
    else none

def stuckViolation (r : Obs) : Option String :=
  if r.stuck then some s!"stuck: call {r.id} on key {r.key} did not finish although nothing it may wait for was running (keys-independent / lost wake-up)"
  else none

/-- a call may panic only with its own function's (scripted) panic. -/
def panicViolation (r : Obs) : Option String :=
  if r.panicked && !(r.ran && r.spanic) then
    some s!"panic: call {r.id} on key {r.key} panicked although its own function did not" else none

/-- how a call may end abnormally: by `runtime.Goexit` iff its OWN function ran and called it (the deferred cleanup runs,
nothing is returned to anybody on that goroutine); by a panic otherwise (own function's panic, or a joiner's type
assertion).  A call whose function called Goexit cannot return. -/
def exitKindViolation (r : Obs) : Option String :=
  if r.goexit && !(r.ran && r.spanic && r.pk = 3) then
    some s!"panic: call {r.id} on key {r.key} was ended by runtime.Goexit although its own function did not call it"
  else if r.ran && r.spanic && r.pk = 3 && !r.goexit && !r.stuck then
    some s!"panic: the function of call {r.id} on key {r.key} called runtime.Goexit but the call ended differently (panicked={r.panicked})"
  else if r.ran && r.spanic && r.pk ≠ 3 && !r.panicked && !r.stuck then
    some s!"panic: the function of call {r.id} on key {r.key} panicked but the call returned normally (a swallowed panic)"
  else none

def sfViolations (h : List Obs) : List (Nat × String) :=
  exclusiveViolations h
  ++ h.filterMap (fun r => (exitKindViolation r).map (r.line, ·))
  -- (a call that panicked or never returned has no result to judge: `panic:` / `stuck:` report those)
  ++ h.filterMap (fun r => if r.panicked || r.stuck then none else (noStaleViolation h r).map (r.line, ·))
  ++ h.filterMap (fun r => if r.panicked || r.stuck then none else (freshViolation r).map (r.line, ·))
  ++ h.filterMap (fun r => if r.runs > 1 then some (r.line, s!"exclusive: function of call {r.id} executed {r.runs} times") else none)
  ++ h.filterMap (fun r => (stuckViolation r).map (r.line, ·))
  ++ h.filterMap (fun r => (panicViolation r).map (r.line, ·))

/-- LockedCalls: own function exactly once, own result. -/
def ownFnViolation (r : Obs) : Option String :=
  if r.runs ≠ 1 then some s!"own-fn-once: function of call {r.id} (key {r.key}) executed {r.runs} times"
  else if r.panicked || r.stuck then none    -- the caller's own function panicked (`panicViolation`) / the call never returned (`stuckViolation`): nothing is returned
  else if r.val ≠ (if r.nilv then none else some r.id) then some s!"own-fn-once: call {r.id} returned the value of {r.val}"
  else if r.err ≠ (if r.serr then some r.id else none) then some s!"own-fn-once: call {r.id} returned the error of {r.err}"
  else none

def lcViolations (h : List Obs) : List (Nat × String) :=
  exclusiveViolations h
  ++ h.filterMap (fun r => (exitKindViolation r).map (r.line, ·))
  ++ h.filterMap (fun r => (ownFnViolation r).map (r.line, ·))
  ++ h.filterMap (fun r => (stuckViolation r).map (r.line, ·))
  ++ h.filterMap (fun r => (panicViolation r).map (r.line, ·))

/-- a flight whose lookup fails (`Cfg.lerr`, row g3: `cacheNode.doTake` with a cancelled context) ends with that error for
its leader and every joiner, and runs no loader. -/
def lookupErrViolation (h : List Obs) (r : Obs) : Option String :=
  if !r.lkerr then none
  else if r.ran then some s!"rm-error: the loader of call {r.id} (key {r.key}) ran although the call returned its flight's lookup error"
  else if r.val.isSome || r.err.isSome then some s!"rm: call {r.id} returned a lookup error and something else"
  else if r.deadCtx then none
  else if h.any (fun l => l.id ≠ r.id && l.key = r.key && l.deadCtx && l.lkerr && !l.ran && callsOverlap l r) then none
  else some (s!"rm-error: call {r.id} (key {r.key}) got a lookup (context) error although neither its own context was cancelled " ++
             "nor that of an overlapping flight leader it could have joined")

/-- ResourceManager: `serr` = scripted failure of `create`; a successful `create` returns the call's id as instance. -/
def rmCallViolation (nilJoin : Bool) (inj : List (Nat × Nat)) (h : List Obs) (r : Obs) : Option String :=
  if r.lkerr then lookupErrViolation h r else
  let created := h.filter fun c => c.key = r.key && c.created
  match inj.lookup r.key with
  | some n =>
    -- the key was pre-registered with instance `n` (Inject before any call): everyone gets that one, create never runs
    if r.val = some n && r.err.isNone && !r.ran then none
    else some s!"rm-same-instance: key {r.key} is registered with instance {n} but call {r.id} got val={r.val} err={r.err} after {r.runs} create call(s)"
  | none =>
  match r.val, r.err with
  | some v, none =>
    if created.any (·.id = v) then none
    else if v = 800000 then
      some s!"rm-not-found: call {r.id} (key {r.key}) got the not-found error although no query of that key reported not-found"
    -- the harness overwrites a caller's destination with 900000 + call id once that caller's call has returned
    else if v ≥ 900000 then
      some (s!"rm-snapshot: call {r.id} (key {r.key}) was handed the content of the destination variable of call {v - 900000} as it was " ++
            "AFTER that call had returned: the shared result aliases the leader's memory instead of being a snapshot made inside the execution")
    else match h.find? (fun c => c.id = v && c.created) with
      | some c =>
        -- (key n of object i is written 100·i + n: the same key string on another object)
        if c.key % 100 = r.key % 100 then
          some (s!"rm-same-instance(cross-object): call {r.id} on object {r.key / 100} (key {r.key % 100}) was handed instance {v}, which the create " ++
                s!"of call {c.id} made for the same key on object {c.key / 100}: state (flight group / map) is shared between objects, " ++
                "an object no longer hands ITS one instance to everyone")
        else some (s!"rm-snapshot: call {r.id} (key {r.key}) got instance {v}, which the create of call {c.id} made for key {c.key}: " ++
                        "not a value any execution for its own key produced")
      | none => some s!"rm-same-instance: call {r.id} (key {r.key}) got instance {v} which no successful create of that key made"
  | none, some e =>
    match h.find? (·.id = e) with
    | some l =>
      if l.key = r.key && l.ran && l.failed && !l.spanic && (l.id = r.id || callsOverlap l r) then none
      else some s!"rm-error: call {r.id} (key {r.key}) got the error of create {e} which it may not get"
    | none => some s!"rm-error: call {r.id} got an unknown error {e}"
  | none, none =>
    -- `(nil, nil)`: only from a user without the type assertion (collection.Cache.Take), as a joiner of a flight whose
    -- loader panicked (what the code does; `takePanicDemo` in Props.lean)
    if nilJoin && !r.ran && h.any (fun l => l.key = r.key && l.ran && l.spanic && l.id ≠ r.id && callsOverlap l r) then none
    else some s!"rm: call {r.id} (key {r.key}) returned neither an instance nor an error"
  | _, _ => some s!"rm: call {r.id} returned neither exactly an instance nor exactly an error"

def rmKeyViolations (h : List Obs) : List (Nat × String) :=
  h.filterMap fun c =>
    if c.created then
      match h.find? (fun d => d.key = c.key && d.created && d.id < c.id) with
      | some d => some (c.line, s!"rm-create-once: key {c.key} created successfully by call {d.id} and again by call {c.id}")
      | none => none
    else none

/-- ResourceManager: a call may panic with its own `create`'s panic, or as a joiner of a flight whose `create`
panicked (`val.(io.Closer)` on the nil result; what the code does, see `rm_panic_cleanup`). -/
def rmPanicViolation (asrtUser : Bool) (h : List Obs) (r : Obs) : Option String :=
  if !r.panicked then none
  else if r.ran && r.spanic then none
  -- the loader returned (nil, nil) (`RM.nilInst`): a user that asserts the type panics — the leader, its joiners and every
  -- later caller of the key, which now holds the nil instance
  else if asrtUser && r.ran && r.nilv then none
  else if asrtUser && !r.ran && h.any (fun l => l.key = r.key && l.ran && l.nilv && !l.serr && l.id ≠ r.id && l.inv < r.ret) then none
  else if !r.ran && h.any (fun l => l.key = r.key && l.ran && l.spanic && l.id ≠ r.id && callsOverlap l r) then none
  else some s!"panic: call {r.id} on key {r.key} panicked although neither its own create nor the create of a flight it could join did"

def rmViolations (nilJoin : Bool) (inj : List (Nat × Nat)) (h : List Obs) : List (Nat × String) :=
  exclusiveViolations h
  ++ h.filterMap (fun r => (exitKindViolation r).map (r.line, ·))
  ++ rmKeyViolations h
  ++ h.filterMap (fun r => if r.panicked || r.stuck then none else (rmCallViolation nilJoin inj h r).map (r.line, ·))
  ++ h.filterMap (fun r => if r.runs > 1 then some (r.line, s!"rm: create of call {r.id} executed {r.runs} times") else none)
  ++ h.filterMap (fun r => (stuckViolation r).map (r.line, ·))
  ++ h.filterMap (fun r => (rmPanicViolation (!nilJoin) h r).map (r.line, ·))

end GoZero.C07.Spec
