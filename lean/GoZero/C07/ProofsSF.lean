/-
C07 — SingleFlight: the inductive invariant of the interleaving model and its preservation by every step.
-/
import GoZero.C07.SF
namespace GoZero.C07.SF

def PC.holdsLock : PC → Bool
  | .l1 | .w0 | .n0 | .n1 | .n2 | .n3 | .d1 | .d2 => true
  | _ => false
/-- the call is published in `g.calls` -/
def PC.inFlight : PC → Bool
  | .n3 | .m0 | .m1 | .mp | .m2 | .d0 | .d1 => true
  | _ => false
/-- the goroutine looked the key up, found nothing, has not published yet -/
def PC.preReg : PC → Bool
  | .n0 | .n1 | .n2 => true
  | _ => false
/-- the goroutine owns a `call` object it allocated -/
def PC.owns : PC → Bool
  | .n1 | .n2 | .n3 | .m0 | .m1 | .mp | .m2 | .d0 | .d1 | .d2 | .d3 | .r0 | .px => true
  | _ => false
/-- … and has published it -/
def PC.pubd : PC → Bool
  | .n3 | .m0 | .m1 | .mp | .m2 | .d0 | .d1 | .d2 | .d3 | .r0 | .px => true
  | _ => false
def PC.wgOne : PC → Bool
  | .n2 | .n3 | .m0 | .m1 | .mp | .m2 | .d0 | .d1 | .d2 | .d3 => true
  | _ => false
def PC.noRes : PC → Bool
  | .n1 | .n2 | .n3 | .m0 | .m1 | .mp => true
  | _ => false
def PC.stored : PC → Bool
  | .d0 | .d1 | .d2 | .d3 | .r0 | .px => true
  | _ => false
def PC.waits : PC → Bool
  | .w0 | .w1 | .w2 => true
  | _ => false
/-- the deferred block of `makeCall` (and what follows it) -/
def PC.deferred : PC → Bool
  | .d0 | .d1 | .d2 | .d3 | .px => true
  | _ => false
/-- the goroutine's call object is past `Done` -/
def PC.after : PC → Bool
  | .r0 | .px => true
  | _ => false

/-- `a` is earlier than the (possibly not yet existing) time `o`. -/
def before (a : Nat) (o : Option Nat) : Prop := match o with | none => True | some b => a < b

theorem before_none (a : Nat) : before a none = True := rfl
theorem before_some (a b : Nat) : before a (some b) = (a < b) := rfl

/-- the leader of call `c` is done with it (wait-group released, result stored) -/
def finished (s : St) (c : CallId) : Prop := s.lret c ≠ none ∨ ((s.pc (s.leader c)).after = true ∧ s.reg (s.leader c) = c)
/-- the leader of call `c` has published it (or is long gone) -/
def published (s : St) (c : CallId) : Prop := s.lret c ≠ none ∨ ((s.pc (s.leader c)).pubd = true ∧ s.reg (s.leader c) = c)

/-- what the invariant records about a returned call. -/
def RetOK (s : St) (r : Ret) : Prop :=
  r.exec < s.next ∧ s.fnres r.exec = some r.val ∧ s.ekey r.exec = r.key ∧ r.inv < r.ret ∧ r.ret < s.now
    ∧ (r.fresh = true → s.leader r.exec = r.tid ∧ s.linv r.exec = r.inv ∧ s.lret r.exec = some r.ret)
    ∧ (r.fresh = false → s.linv r.exec < r.ret ∧ before r.inv (s.lret r.exec))

structure Inv (s : St) : Prop where
  lock   : ∀ u, (s.pc u).holdsLock = true → s.lock = some u
  lockr  : ∀ u, s.lock = some u → (s.pc u).holdsLock = true
  flight : ∀ u, (s.pc u).inFlight = true → s.calls (s.key u) = some (s.reg u)
  prereg : ∀ u, (s.pc u).preReg = true → s.calls (s.key u) = none
  owns   : ∀ u, (s.pc u).owns = true → s.reg u < s.next ∧ s.leader (s.reg u) = u ∧ s.ekey (s.reg u) = s.key u
              ∧ s.linv (s.reg u) = s.inv u ∧ s.lret (s.reg u) = none
  wg1    : ∀ u, (s.pc u).wgOne = true → s.wg (s.reg u) = 1
  wg0    : ∀ u, (s.pc u = .n1 ∨ (s.pc u).after = true) → s.wg (s.reg u) = 0
  nores  : ∀ u, (s.pc u).noRes = true → s.fnres (s.reg u) = none
  tmpres : ∀ u, s.pc u = .m2 → s.fnres (s.reg u) = some (s.tmp u)
  stored : ∀ u, (s.pc u).stored = true → s.fnres (s.reg u) = some (s.cval (s.reg u))
  calls  : ∀ k c, s.calls k = some c → c < s.next ∧ s.ekey c = k ∧ (s.pc (s.leader c)).inFlight = true ∧ s.reg (s.leader c) = c
  waits  : ∀ u, (s.pc u).waits = true → s.reg u < s.next ∧ s.ekey (s.reg u) = s.key u
              ∧ before (s.inv u) (s.lret (s.reg u)) ∧ published s (s.reg u)
  woken  : ∀ u, s.pc u = .w2 → finished s (s.reg u)
  done   : ∀ c, c < s.next → s.lret c ≠ none → s.fnres c = some (s.cval c) ∧ s.wg c = 0
  tinv   : ∀ u, s.pc u ≠ .idle → s.inv u < s.now
  tlinv  : ∀ c, c < s.next → s.linv c < s.now
  tlret  : ∀ c r, s.lret c = some r → r < s.now ∧ c < s.next
  rets   : ∀ r ∈ s.rets, RetOK s r
  -- panicking executions
  cv0    : ∀ u, (s.pc u).noRes = true → s.cval (s.reg u) = 0
  pnpc   : ∀ u, (s.pc u).owns = true → s.pn u = true → (s.pc u).deferred = true
  pnpx   : ∀ u, s.pc u = .px → s.pn u = true
  pnown  : ∀ u, (s.pc u).owns = true → s.pan (s.reg u) = s.pn u
  panz   : ∀ c, c < s.next → s.pan c = true → s.fnres c = some 0

theorem inv_init : Inv init := by
  constructor <;> simp [init, PC.holdsLock, PC.inFlight, PC.preReg, PC.owns, PC.wgOne, PC.noRes, PC.stored, PC.waits, PC.deferred, PC.after]

macro "step_cases" hs:ident : tactic =>
  `(tactic| (unfold step at $hs:ident; split at $hs:ident <;> (try split at $hs:ident) <;> simp at $hs:ident <;> (try subst $hs:ident)))

macro "close_step" hs:ident : tactic =>
  `(tactic| (step_cases $hs:ident <;>
      simp [upd, PC.holdsLock, PC.inFlight, PC.preReg, PC.owns, PC.pubd, PC.wgOne, PC.noRes, PC.stored, PC.waits, PC.deferred, PC.after,
            finished, published, before] at * <;> grind))

macro "close_step'" hs:ident : tactic =>
  `(tactic| (step_cases $hs:ident <;>
      simp [upd, PC.holdsLock, PC.inFlight, PC.preReg, PC.owns, PC.pubd, PC.wgOne, PC.noRes, PC.stored, PC.waits, PC.deferred, PC.after,
            finished, published] at * <;> grind [before_none, before_some]))

variable {s s' : St} {t : Tid} {x : Nat}

theorem lock_step (h : Inv s) (hs : step s t x = some s') :
    ∀ u, (s'.pc u).holdsLock = true → s'.lock = some u := by
  intro u hu
  have h1 := h.lock u
  have h2 := h.lock t
  close_step hs

theorem lockr_step (h : Inv s) (hs : step s t x = some s') :
    ∀ u, s'.lock = some u → (s'.pc u).holdsLock = true := by
  intro u hu
  have h1 := h.lockr u
  have h2 := h.lock t
  close_step hs

theorem flight_step (h : Inv s) (hs : step s t x = some s') :
    ∀ u, (s'.pc u).inFlight = true → s'.calls (s'.key u) = some (s'.reg u) := by
  intro u hu
  have h1 := h.flight u
  have h2 := h.flight t
  have h3 := h.prereg u
  have h4 := h.prereg t
  have h5 := h.lock u
  have h6 := h.lock t
  have h7 := h.owns u
  have h8 := h.owns t
  close_step hs

theorem prereg_step (h : Inv s) (hs : step s t x = some s') :
    ∀ u, (s'.pc u).preReg = true → s'.calls (s'.key u) = none := by
  intro u hu
  have h3 := h.prereg u
  have h4 := h.prereg t
  have h5 := h.lock u
  have h6 := h.lock t
  close_step hs

theorem owns_step (h : Inv s) (hs : step s t x = some s') :
    ∀ u, (s'.pc u).owns = true → s'.reg u < s'.next ∧ s'.leader (s'.reg u) = u ∧ s'.ekey (s'.reg u) = s'.key u
              ∧ s'.linv (s'.reg u) = s'.inv u ∧ s'.lret (s'.reg u) = none := by
  intro u hu
  have h7 := h.owns u
  have h8 := h.owns t
  close_step hs

theorem wg1_step (h : Inv s) (hs : step s t x = some s') :
    ∀ u, (s'.pc u).wgOne = true → s'.wg (s'.reg u) = 1 := by
  intro u hu
  have h1 := h.wg1 u
  have h2 := h.wg1 t
  have h3 := h.wg0 u
  have h4 := h.wg0 t
  have h7 := h.owns u
  have h8 := h.owns t
  close_step hs

theorem wg0_step (h : Inv s) (hs : step s t x = some s') :
    ∀ u, (s'.pc u = .n1 ∨ (s'.pc u).after = true) → s'.wg (s'.reg u) = 0 := by
  intro u hu
  have h1 := h.wg1 u
  have h2 := h.wg1 t
  have h3 := h.wg0 u
  have h4 := h.wg0 t
  have h7 := h.owns u
  have h8 := h.owns t
  close_step hs

theorem nores_step (h : Inv s) (hs : step s t x = some s') :
    ∀ u, (s'.pc u).noRes = true → s'.fnres (s'.reg u) = none := by
  intro u hu
  have h1 := h.nores u
  have h2 := h.nores t
  have h7 := h.owns u
  have h8 := h.owns t
  close_step hs

theorem tmpres_step (h : Inv s) (hs : step s t x = some s') :
    ∀ u, s'.pc u = .m2 → s'.fnres (s'.reg u) = some (s'.tmp u) := by
  intro u hu
  have h1 := h.tmpres u
  have h2 := h.tmpres t
  have h7 := h.owns u
  have h8 := h.owns t
  close_step hs

theorem stored_step (h : Inv s) (hs : step s t x = some s') :
    ∀ u, (s'.pc u).stored = true → s'.fnres (s'.reg u) = some (s'.cval (s'.reg u)) := by
  intro u hu
  have h1 := h.stored u
  have h2 := h.stored t
  have h3 := h.tmpres u
  have h4 := h.tmpres t
  have h5 := h.cv0 t
  have h7 := h.owns u
  have h8 := h.owns t
  close_step hs

theorem calls_step (h : Inv s) (hs : step s t x = some s') :
    ∀ k c, s'.calls k = some c → c < s'.next ∧ s'.ekey c = k ∧ (s'.pc (s'.leader c)).inFlight = true
      ∧ s'.reg (s'.leader c) = c := by
  intro k c hc
  have h1 := h.calls k c
  have h2 := h.flight t
  have h3 := h.owns t
  have h4 := h.owns (s.leader c)
  close_step hs

set_option maxHeartbeats 400000 in
theorem waits_step (h : Inv s) (hs : step s t x = some s') :
    ∀ u, (s'.pc u).waits = true → s'.reg u < s'.next ∧ s'.ekey (s'.reg u) = s'.key u
              ∧ before (s'.inv u) (s'.lret (s'.reg u)) ∧ published s' (s'.reg u) := by
  intro u hu
  have h1 := h.waits u
  have h2 := h.waits t
  have h3 := h.owns t
  have h4 := h.calls (s.key t)
  have h5 := h.tinv u
  have h6 := h.owns (s.leader (s.reg u))
  rcases hc : s.calls (s.key t) with _ | c
  · close_step hs
  · have h7 := h.owns (s.leader c)
    close_step hs

theorem woken_step (h : Inv s) (hs : step s t x = some s') :
    ∀ u, s'.pc u = .w2 → finished s' (s'.reg u) := by
  intro u hu
  have h1 := h.woken u
  have h2 := h.waits t
  have h3 := h.owns t
  have h4 := h.wg1 (s.leader (s.reg t))
  have h5 := h.waits u
  close_step hs

theorem done_step (h : Inv s) (hs : step s t x = some s') :
    ∀ c, c < s'.next → s'.lret c ≠ none → s'.fnres c = some (s'.cval c) ∧ s'.wg c = 0 := by
  intro c hc hl
  have h1 := h.done c
  have h2 := h.owns t
  have h3 := h.stored t
  have h4 := h.wg0 t
  close_step hs

theorem cv0_step (h : Inv s) (hs : step s t x = some s') :
    ∀ u, (s'.pc u).noRes = true → s'.cval (s'.reg u) = 0 := by
  intro u hu
  have h1 := h.cv0 u
  have h2 := h.cv0 t
  have h7 := h.owns u
  have h8 := h.owns t
  close_step hs

theorem pnpc_step (h : Inv s) (hs : step s t x = some s') :
    ∀ u, (s'.pc u).owns = true → s'.pn u = true → (s'.pc u).deferred = true := by
  intro u hu hp
  have h1 := h.pnpc u
  have h2 := h.pnpc t
  close_step hs

theorem pnpx_step (h : Inv s) (hs : step s t x = some s') : ∀ u, s'.pc u = .px → s'.pn u = true := by
  intro u hu
  have h1 := h.pnpx u
  have h2 := h.pnpx t
  close_step hs

theorem pnown_step (h : Inv s) (hs : step s t x = some s') :
    ∀ u, (s'.pc u).owns = true → s'.pan (s'.reg u) = s'.pn u := by
  intro u hu
  have h1 := h.pnown u
  have h2 := h.pnown t
  have h7 := h.owns u
  have h8 := h.owns t
  close_step hs

theorem panz_step (h : Inv s) (hs : step s t x = some s') :
    ∀ c, c < s'.next → s'.pan c = true → s'.fnres c = some 0 := by
  intro c hc hp
  have h1 := h.panz c
  have h2 := h.nores t
  have h8 := h.owns t
  close_step hs

theorem tinv_step (h : Inv s) (hs : step s t x = some s') : ∀ u, s'.pc u ≠ .idle → s'.inv u < s'.now := by
  intro u hu
  have h1 := h.tinv u
  have h2 := h.tinv t
  close_step hs

theorem tlinv_step (h : Inv s) (hs : step s t x = some s') : ∀ c, c < s'.next → s'.linv c < s'.now := by
  intro c hc
  have h1 := h.tlinv c
  have h2 := h.tinv t
  close_step hs

theorem tlret_step (h : Inv s) (hs : step s t x = some s') :
    ∀ c r, s'.lret c = some r → r < s'.now ∧ c < s'.next := by
  intro c r hc
  have h1 := h.tlret c r
  have h2 := h.owns t
  close_step hs

theorem frame_now (hs : step s t x = some s') : s'.now = s.now + 1 := by
  step_cases hs <;> rfl

theorem frame_call (_h : Inv s) (hs : step s t x = some s') (c : CallId) (hc : c < s.next) :
    c < s'.next ∧ s'.ekey c = s.ekey c ∧ s'.leader c = s.leader c ∧ s'.linv c = s.linv c := by
  step_cases hs <;> simp [upd] <;> grind

theorem frame_fnres (h : Inv s) (hs : step s t x = some s') (c : CallId) (hc : c < s.next) (v : Val)
    (hv : s.fnres c = some v) : s'.fnres c = some v := by
  have h1 := h.nores t
  step_cases hs <;> simp [upd, PC.noRes] at * <;> grind

theorem frame_lret (h : Inv s) (hs : step s t x = some s') (c : CallId) (hc : c < s.next) (v : Nat)
    (hv : s.lret c = some v) : s'.lret c = some v := by
  have h1 := h.owns t
  step_cases hs <;> simp [upd, PC.owns] at * <;> grind

theorem frame_before (h : Inv s) (hs : step s t x = some s') (c : CallId) (hc : c < s.next) (a : Nat)
    (ha : a < s.now) (hv : before a (s.lret c)) : before a (s'.lret c) := by
  have h1 := h.owns t
  step_cases hs <;> simp [upd, PC.owns] at * <;> (try exact hv) <;> (split <;> simp_all [before])

theorem retOK_frame (h : Inv s) (hs : step s t x = some s') (r : Ret) (hr : RetOK s r) : RetOK s' r := by
  obtain ⟨a1, a2, a3, a4, a5, a6, a7⟩ := hr
  obtain ⟨b1, b2, b3, b4⟩ := frame_call h hs r.exec a1
  refine ⟨b1, frame_fnres h hs _ a1 _ a2, by rw [b2]; exact a3, a4, by rw [frame_now hs]; omega, ?_, ?_⟩
  · intro hf
    obtain ⟨c1, c2, c3⟩ := a6 hf
    exact ⟨by rw [b3]; exact c1, by rw [b4]; exact c2, frame_lret h hs _ a1 _ c3⟩
  · intro hf
    obtain ⟨c1, c2⟩ := a7 hf
    exact ⟨by rw [b4]; exact c1, frame_before h hs _ a1 _ (by omega) c2⟩

/-- the record a step appends (if any) is correct in the new state. -/
theorem rets_new (h : Inv s) (hs : step s t x = some s') :
    s'.rets = s.rets ∨ ∃ r, s'.rets = r :: s.rets ∧ RetOK s' r := by
  have h2 := h.owns t
  have h4 := h.stored t
  have h5 := h.waits t
  have h6 := h.woken t
  have h7 := h.tinv t
  have h8 := h.tlinv (s.reg t)
  have h9 := h.done (s.reg t)
  have h10 := h.stored (s.leader (s.reg t))
  have h11 := h.owns (s.leader (s.reg t))
  step_cases hs <;>
    simp [upd, PC.owns, PC.stored, PC.waits, PC.pubd, PC.after, finished, published, RetOK] at * <;> grind [before_none, before_some]

theorem rets_step (h : Inv s) (hs : step s t x = some s') : ∀ r ∈ s'.rets, RetOK s' r := by
  intro r hr
  rcases rets_new h hs with he | ⟨r0, he, hok⟩
  · rw [he] at hr; exact retOK_frame h hs r (h.rets r hr)
  · rw [he] at hr
    rcases List.mem_cons.mp hr with rfl | hm
    · exact hok
    · exact retOK_frame h hs r (h.rets r hm)

theorem inv_step (h : Inv s) (hs : step s t x = some s') : Inv s' :=
  ⟨lock_step h hs, lockr_step h hs, flight_step h hs, prereg_step h hs, owns_step h hs, wg1_step h hs, wg0_step h hs,
   nores_step h hs, tmpres_step h hs, stored_step h hs, calls_step h hs, waits_step h hs, woken_step h hs,
   done_step h hs, tinv_step h hs, tlinv_step h hs, tlret_step h hs, rets_step h hs,
   cv0_step h hs, pnpc_step h hs, pnpx_step h hs, pnown_step h hs, panz_step h hs⟩

theorem inv_reach {s : St} (h : Reach s) : Inv s := by
  induction h with
  | init => exact inv_init
  | step t x _ hs ih => exact inv_step ih hs

/-! ### exactly one fresh caller per execution -/

def freshCount (c : CallId) (l : List Ret) : Nat := (l.filter (fun r => r.fresh && r.exec == c)).length

def FreshInv (s : St) : Prop := ∀ c, freshCount c s.rets = if (s.lret c).isSome ∧ s.pan c = false then 1 else 0

theorem freshCount_cons (c : CallId) (r : Ret) (l : List Ret) :
    freshCount c (r :: l) = (if r.fresh = true ∧ r.exec = c then 1 else 0) + freshCount c l := by
  unfold freshCount
  by_cases h : r.fresh = true ∧ r.exec = c
  · simp [h]; omega
  · have h' : ¬ ((r.fresh && r.exec == c) = true) := by simpa using h
    simp [h', h]

theorem freshCount_zero (c : CallId) (l : List Ret) (h : ∀ r ∈ l, r.exec ≠ c) : freshCount c l = 0 := by
  unfold freshCount
  rw [List.length_eq_zero_iff, List.filter_eq_nil_iff]
  intro r hr
  have := h r hr
  simp [this]

theorem fresh_step (h : Inv s) (hf : FreshInv s) (hs : step s t x = some s') : FreshInv s' := by
  intro c
  have h1 := hf c
  have h2 := h.owns t
  have h4 := h.pnown t
  have h5 := h.pnpc t
  have h6 := h.pnpx t
  have h3 : c = s.next → freshCount c s.rets = 0 := fun hc =>
    freshCount_zero c s.rets (fun r hr => by have := (h.rets r hr).1; subst hc; exact Nat.ne_of_lt this)
  step_cases hs <;> simp [upd, PC.owns, PC.deferred, freshCount_cons] at * <;> grind

theorem fresh_reach {s : St} (h : Reach s) : FreshInv s := by
  induction h with
  | init => intro c; simp [init, freshCount]
  | step t x hr hs ih => exact fresh_step (inv_reach hr) ih hs

/-- control flow: a step moves the stepping goroutine along `succ` and nobody else. -/
theorem step_flow (hs : step s t x = some s') : s'.pc t ∈ succ (s.pc t) ∧ ∀ u, u ≠ t → s'.pc u = s.pc u := by
  step_cases hs <;> simp_all [upd, succ]

end GoZero.C07.SF
