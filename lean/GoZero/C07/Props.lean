/-
C07 — property theorems (statements, their short proofs from the invariants, non-vacuity examples).
Invariants and their preservation live in ProofsSF / ProofsLC / ProofsRM.

Every theorem quantifies over `Reach s`: every configuration reachable by ANY schedule of ANY number of
goroutines, each issuing any number of calls with any keys, the user function returning anything after any
number of other goroutines' steps.
-/
import GoZero.C07.ProofsSFX
import GoZero.C07.ProofsLCX
import GoZero.C07.ProofsRM
import GoZero.C07.ProofsRMX
import GoZero.C07.ProofsRME
set_option linter.unusedSimpArgs false
namespace GoZero.C07

/-! ## SingleFlight (core/syncx/singleflight.go) -/

/-- **At most one execution per key at any instant.**  Two goroutines that both hold a published flight
(from registering the call in `g.calls` until deleting it — the user function runs strictly inside) for the
same key are the same goroutine. -/
theorem sf_exclusive {s : SF.St} (h : SF.Reach s) (t u : Tid)
    (ht : (s.pc t).inFlight = true) (hu : (s.pc u).inFlight = true) (hk : s.key t = s.key u) : t = u := by
  have hi := SF.inv_reach h
  have a := hi.flight t ht
  have b := hi.flight u hu
  have c := (hi.owns t (by revert ht; cases s.pc t <;> simp [SF.PC.inFlight, SF.PC.owns])).2.1
  have d := (hi.owns u (by revert hu; cases s.pc u <;> simp [SF.PC.inFlight, SF.PC.owns])).2.1
  rw [hk, b] at a
  have e : s.reg u = s.reg t := by simpa using a
  rw [e] at d
  rw [← c, d]

/-- the user function runs between `m0` (about to start) and `m1` / `mp` (running; `mp`: it is going to panic):
all inside the flight. -/
theorem sf_exclusive_fn {s : SF.St} (h : SF.Reach s) (t u : Tid)
    (ht : (s.pc t).running = true) (hu : (s.pc u).running = true) (hk : s.key t = s.key u) : t = u :=
  sf_exclusive h t u (by revert ht; cases s.pc t <;> simp [SF.PC.running, SF.PC.inFlight])
    (by revert hu; cases s.pc u <;> simp [SF.PC.running, SF.PC.inFlight]) hk

/-- **History form of the exclusion**: the execution intervals `[fstart, fend]` of two different call objects of
the same key are disjoint — one of them ended before the other started. -/
theorem sf_exec_disjoint {s : SF.St} (h : SF.Reach s) (c d : CallId) (hne : c ≠ d) (hk : s.ekey c = s.ekey d)
    (a a' : Nat) (hc : s.fstart c = some a) (hd : s.fstart d = some a') :
    (∃ b, s.fend c = some b ∧ b < a') ∨ (∃ b, s.fend d = some b ∧ b < a) := by
  rcases (SF.invX_reach h).disj c d a a' hne hk hc hd with h1 | h1
  · left
    cases hf : s.fend c with
    | none => rw [hf] at h1; exact absurd h1 (by simp [SF.endsBefore])
    | some b => rw [hf] at h1; exact ⟨b, rfl, h1⟩
  · right
    cases hf : s.fend d with
    | none => rw [hf] at h1; exact absurd h1 (by simp [SF.endsBefore])
    | some b => rw [hf] at h1; exact ⟨b, rfl, h1⟩

/-- **No stale result.**  Every returned call `r` got exactly what the (single) execution of the function
for call object `r.exec` returned, that execution was for `r`'s key, and either `r` is the leading call of that
execution itself (then it is reported fresh) or the leading call overlaps `r` in time: it was invoked before
`r` returned and, if it has returned at all, it returned after `r` was invoked.  A result retained from a call
that had already returned is therefore never handed out. -/
theorem sf_no_stale {s : SF.St} (h : SF.Reach s) (r : Ret) (hr : r ∈ s.rets) :
    s.fnres r.exec = some r.val ∧ s.ekey r.exec = r.key ∧
    (r.fresh = true → s.leader r.exec = r.tid ∧ s.linv r.exec = r.inv ∧ s.lret r.exec = some r.ret) ∧
    (r.fresh = false → s.linv r.exec < r.ret ∧ ∀ lr, s.lret r.exec = some lr → r.inv < lr) := by
  obtain ⟨_, a2, a3, _, _, a6, a7⟩ := (SF.inv_reach h).rets r hr
  refine ⟨a2, a3, a6, fun hf => ⟨(a7 hf).1, fun lr hlr => ?_⟩⟩
  have := (a7 hf).2
  rw [hlr] at this
  exact this

/-- **Never a retained result** (the property's own wording): a caller is never handed the result of an
execution whose leading call had already returned when the caller invoked. -/
theorem sf_never_retained {s : SF.St} (h : SF.Reach s) (r : Ret) (hr : r ∈ s.rets) (lr : Nat)
    (hl : s.lret r.exec = some lr) (hle : lr ≤ r.inv) : False := by
  obtain ⟨_, _, hfresh, hjoin⟩ := sf_no_stale h r hr
  have hinv := ((SF.inv_reach h).rets r hr).2.2.2.1
  cases hf : r.fresh with
  | true =>
    have := (hfresh hf).2.2
    rw [hl] at this
    have : lr = r.ret := by simpa using this
    omega
  | false =>
    have := (hjoin hf).2 lr hl
    omega

/-- **Exactly one fresh caller per execution**: among the returned calls that were handed the result of call
object `c`, the number reported fresh is 1 once the leading call has returned, and 0 before — and 0 for ever if
the function panicked (the leading call then ends with the panic and returns nothing). -/
theorem sf_one_fresh {s : SF.St} (h : SF.Reach s) (c : CallId) :
    (s.rets.filter (fun r => r.fresh && r.exec == c)).length = if (s.lret c).isSome ∧ s.pan c = false then 1 else 0 :=
  SF.fresh_reach h c

/-! ### a panicking user function (outside the property's quantifier; this is what the code does)
`makeCall`'s deferred block runs while the panic unwinds: the key is deleted under the lock, the wait group is
released, then the panic propagates to the leader's caller.  `c.val, c.err = fn()` never executed, so every
joiner of that flight returns the zero values `(nil, nil)` — silently, with `fresh = false`. Nobody hangs. -/

/-- joiners of a flight whose function panicked get the zero value, not reported fresh; the leader itself never
returns from such a call. -/
theorem sf_panic_joiners_zero {s : SF.St} (h : SF.Reach s) (r : Ret) (hr : r ∈ s.rets) (hp : s.pan r.exec = true) :
    r.val = 0 ∧ r.fresh = false := by
  have hi := SF.inv_reach h
  obtain ⟨a1, a2, _⟩ := hi.rets r hr
  have hz := hi.panz r.exec a1 hp
  rw [a2] at hz
  refine ⟨by simpa using hz, ?_⟩
  have hf := SF.fresh_reach h r.exec
  rw [hp] at hf
  simp only [Bool.true_eq_false, and_false, if_false] at hf
  unfold SF.freshCount at hf
  rw [List.length_eq_zero_iff] at hf
  cases hfr : r.fresh with
  | false => rfl
  | true =>
    exfalso
    have hmem : r ∈ s.rets.filter (fun q => q.fresh && q.exec == r.exec) := by
      simp [List.mem_filter, hr, hfr]
    rw [hf] at hmem
    simp at hmem

/-- when the panic leaves `Do`/`DoEx` (`px`), the deferred cleanup is complete: the wait group is released and
the key no longer maps to this call — the next caller starts a new flight, nobody is left waiting. -/
theorem sf_panic_cleanup {s : SF.St} (h : SF.Reach s) (t : Tid) (ht : s.pc t = .px) :
    s.wg (s.reg t) = 0 ∧ s.calls (s.key t) ≠ some (s.reg t) ∧ s.pan (s.reg t) = true := by
  have hi := SF.inv_reach h
  have ho := hi.owns t (by simp [ht, SF.PC.owns])
  refine ⟨hi.wg0 t (Or.inr (by simp [ht, SF.PC.after])), ?_, ?_⟩
  · intro hc
    have := (hi.calls _ _ hc).2.2.1
    rw [ho.2.1, ht] at this
    simp [SF.PC.inFlight] at this
  · rw [hi.pnown t (by simp [ht, SF.PC.owns])]; exact hi.pnpx t ht

/-- a non-panicking execution is never cut short: a goroutine that returns fresh went through the store. -/
theorem sf_fresh_not_panicked {s : SF.St} (h : SF.Reach s) (r : Ret) (hr : r ∈ s.rets) (hf : r.fresh = true) :
    s.pan r.exec = false := by
  cases hp : s.pan r.exec with
  | false => rfl
  | true => have := (sf_panic_joiners_zero h r hr hp).2; rw [hf] at this; cases this

/-! ### a re-entrant call on the same key (outside the quantifier): self-deadlock
If `fn` itself calls `Do` with the key it is running for, the inner call finds the outer call's entry and waits for
its `Done`, which only comes after `fn` returns.  In the model: goroutine `u` (the inner call) waits on the call
object of leader `t` whose function is still running; as long as `t` does not take its `fn returns` step (it
cannot: `fn` is waiting for `u`), `u` stays blocked — whatever all other goroutines do. -/
theorem sf_reentrant_blocked {s s' : SF.St} (h : SF.Reach s) (t u v : Tid) (x : Nat)
    (ht : (s.pc t).running = true) (hu : s.pc u = .w1) (hreg : s.reg u = s.reg t)
    (hv : v ≠ t) (hs : SF.step s v x = some s') :
    (s'.pc t).running = true ∧ s'.pc u = .w1 ∧ s'.reg u = s'.reg t ∧ ∀ y, SF.step s' u y = none := by
  have hi := SF.inv_reach h
  have hw := hi.wg1 t (by revert ht; cases s.pc t <;> simp [SF.PC.running, SF.PC.wgOne])
  have ho := hi.owns t (by revert ht; cases s.pc t <;> simp [SF.PC.running, SF.PC.owns])
  have hov := hi.owns v
  have hne : u ≠ t := by intro e; rw [e] at hu; rw [hu] at ht; simp [SF.PC.running] at ht
  have key : (s'.pc t).running = true ∧ s'.pc u = .w1 ∧ s'.reg u = s'.reg t ∧ s'.wg (s'.reg u) ≠ 0 := by
    by_cases huv : v = u
    · subst huv
      unfold SF.step at hs
      rw [hu] at hs
      simp [hreg, hw] at hs
    · unfold SF.step at hs
      split at hs <;> (try split at hs) <;> simp at hs <;> (try subst hs) <;>
        simp [upd, SF.PC.owns, SF.PC.running] at * <;> grind
  refine ⟨key.1, key.2.1, key.2.2.1, fun y => ?_⟩
  unfold SF.step
  rw [key.2.1]
  simp [key.2.2.2]

/-- a SingleFlight step is disabled only at the mutex or at a wait group. -/
theorem sf_blocked_cases {s : SF.St} {t : Tid} {x : Nat} (hb : SF.step s t x = none) :
    ((s.pc t = .l0 ∨ s.pc t = .d0) ∧ s.lock ≠ none) ∨ (s.pc t = .w1 ∧ s.wg (s.reg t) ≠ 0) := by
  unfold SF.step at hb
  split at hb <;> (try split at hb) <;> simp_all

/-- the mutex holder can always take its next step (it is never inside user code, never at a wait). -/
theorem sf_holder_enabled {s : SF.St} (u : Tid) (hu : (s.pc u).holdsLock = true) (y : Nat) :
    (SF.step s u y).isSome = true := by
  unfold SF.step
  revert hu
  cases hp : s.pc u <;> simp [SF.PC.holdsLock]
  split <;> simp

/-- **Who a blocked SingleFlight caller waits for**: the holder of the mutex — who is inside one of the short
critical sections, never in user code, and can always take its next step — or, at `c.wg.Wait()`, the leader of a
flight *for the same key* that has not called `Done` yet. Calls on other keys are never waited for. -/
theorem sf_keys_independent {s : SF.St} (h : SF.Reach s) (t : Tid) (x : Nat) (hb : SF.step s t x = none) :
    (∃ u, s.lock = some u ∧ (s.pc u).holdsLock = true ∧ ∀ y, (SF.step s u y).isSome = true) ∨
    (s.pc t = .w1 ∧ ∃ u, s.key u = s.key t ∧ (s.pc u).wgOne = true ∧ s.reg u = s.reg t) := by
  have hi := SF.inv_reach h
  rcases sf_blocked_cases hb with ⟨_, hl⟩ | ⟨hp, hw⟩
  · left
    cases hlk : s.lock with
    | none => exact absurd hlk hl
    | some u => exact ⟨u, rfl, hi.lockr u hlk, fun y => sf_holder_enabled u (hi.lockr u hlk) y⟩
  · right
    refine ⟨hp, s.leader (s.reg t), ?_⟩
    obtain ⟨a1, a2, _, a4⟩ := hi.waits t (by simp [hp, SF.PC.waits])
    rcases a4 with hl | ⟨hpub, hreg⟩
    · exact absurd (hi.done _ a1 hl).2 hw
    · have hown := hi.owns (s.leader (s.reg t)) (by revert hpub; cases s.pc (s.leader (s.reg t)) <;> simp [SF.PC.pubd, SF.PC.owns])
      have hk : s.key (s.leader (s.reg t)) = s.key t := by rw [← hown.2.2.1, hreg, a2]
      refine ⟨hk, ?_, hreg⟩
      -- published and counter ≠ 0 ⇒ not yet past Done
      have h0 := hi.wg0 (s.leader (s.reg t))
      rw [hreg] at h0
      revert hpub h0
      cases s.pc (s.leader (s.reg t)) <;> simp [SF.PC.pubd, SF.PC.wgOne, SF.PC.after] <;> omega

/-- **No deadlock, no lost wake-up**: whenever some call is in progress, some goroutine that is inside a call
can take a step (for every environment input). -/
theorem sf_no_deadlock {s : SF.St} (h : SF.Reach s) (t : Tid) (ht : s.pc t ≠ .idle) :
    ∃ u, s.pc u ≠ .idle ∧ ∀ y, (SF.step s u y).isSome = true := by
  have hi := SF.inv_reach h
  -- a goroutine that is enabled for one input is enabled for all (enabledness does not depend on the input)
  have indep : ∀ u y z, (SF.step s u y).isSome = true → (SF.step s u z).isSome = true := by
    intro u y z
    unfold SF.step
    cases s.pc u <;> simp <;> (try split) <;> (try split) <;> simp
  have lockcase : s.lock ≠ none → ∃ u, s.pc u ≠ .idle ∧ ∀ y, (SF.step s u y).isSome = true := by
    intro hl
    cases hlk : s.lock with
    | none => exact absurd hlk hl
    | some u =>
      have hh := hi.lockr u hlk
      exact ⟨u, by revert hh; cases s.pc u <;> simp [SF.PC.holdsLock], fun y => sf_holder_enabled u hh y⟩
  cases hst : SF.step s t 0 with
  | some s' => exact ⟨t, ht, fun y => indep t 0 y (by simp [hst])⟩
  | none =>
    rcases sf_keys_independent h t 0 hst with ⟨u, hl, _, _⟩ | ⟨_, u, _, hw, _⟩
    · exact lockcase (by simp [hl])
    · -- the leader we wait for is enabled, or itself waits for the mutex
      cases hsu : SF.step s u 0 with
      | some s' => exact ⟨u, by revert hw; cases s.pc u <;> simp [SF.PC.wgOne], fun y => indep u 0 y (by simp [hsu])⟩
      | none =>
        rcases sf_blocked_cases hsu with ⟨_, hl⟩ | ⟨hp, _⟩
        · exact lockcase hl
        · rw [hp] at hw; simp [SF.PC.wgOne] at hw

/-- the model's control flow is the one the statement table (tied to the source in `Tie.lean`) lists. -/
theorem sf_flow {s s' : SF.St} {t : Tid} {x : Nat} (hs : SF.step s t x = some s') :
    s'.pc t ∈ SF.succ (s.pc t) ∧ ∀ u, u ≠ t → s'.pc u = s.pc u := SF.step_flow hs

/-! non-vacuity: a concrete schedule — goroutine 0 leads on key 7, goroutine 1 joins while the function runs,
goroutine 2 arrives after the function has ended but before the entry is deleted; all three return 42. -/

def sfDemo : List (Tid × Nat) :=
  [(0,7),(0,0),(0,0),(0,0),(0,0),(0,0),(0,0),(0,0),   -- 0: invoke … fn started (m1)
   (1,7),(1,0),(1,0),(1,0),                            -- 1: invoke, lock, found, unlock → waits
   (0,42),(0,0),                                       -- 0: fn returns 42, stored
   (2,7),(2,0),(2,0),(2,0),                            -- 2: arrives after fn ended, still finds the entry
   (0,0),(0,0),(0,0),(0,0),(0,0),                      -- 0: lock, delete, unlock, Done, return (fresh)
   (1,0),(1,0),(2,0),(2,0)]                            -- waiters wake and return

theorem sfDemo_reach : ∀ s, SF.run SF.init sfDemo = some s → SF.Reach s := by
  suffices H : ∀ (l : List (Tid × Nat)) (s0 s : SF.St), SF.Reach s0 → SF.run s0 l = some s → SF.Reach s from
    fun s hs => H _ _ _ .init hs
  intro l
  induction l with
  | nil => intro s0 s h0 hr; simp [SF.run] at hr; subst hr; exact h0
  | cons a l ih =>
    intro s0 s h0 hr
    simp only [SF.run] at hr
    split at hr
    · rename_i s1 hs1; exact ih s1 s (.step a.1 a.2 h0 hs1) hr
    · simp at hr

example : (SF.run SF.init sfDemo).map (fun s => s.rets.map fun r => (r.tid, r.key, r.val, r.fresh, r.exec))
    = some [(2, 7, 42, false, 0), (1, 7, 42, false, 0), (0, 7, 42, true, 0)] := by decide

/-- a panicking leader: goroutine 0 leads on key 7 and its function panics (input 1 at `fn starts`); goroutine 1
joined while it ran.  1 returns the zero value, not fresh; 0's call ends without a return record; the key is
free again (goroutine 2 then leads a new flight and returns 5, fresh). -/
def sfPanicDemo : List (Tid × Nat) :=
  [(0,7),(0,0),(0,0),(0,0),(0,0),(0,0),(0,0),(0,1),   -- 0: invoke … fn started, will panic (mp)
   (1,7),(1,0),(1,0),(1,0),                            -- 1: joins, waits
   (0,0),                                              -- 0: fn panics
   (0,0),(0,0),(0,0),(0,0),(0,0),                      -- 0: deferred lock, delete, unlock, Done; panic leaves Do
   (1,0),(1,0),                                        -- 1: wakes, returns (nil, nil)
   (2,7),(2,0),(2,0),(2,0),(2,0),(2,0),(2,0),(2,0),(2,5),(2,0),(2,0),(2,0),(2,0),(2,0),(2,0)]

example : (SF.run SF.init sfPanicDemo).map (fun s => s.rets.map fun r => (r.tid, r.key, r.val, r.fresh, r.exec))
    = some [(2, 7, 5, true, 1), (1, 7, 0, false, 0)] := by decide
example : (SF.run SF.init sfPanicDemo).map (fun s => (s.pc 0, s.pan 0, s.pan 1, (s.calls 7).isNone))
    = some (SF.PC.idle, true, false, true) := by decide

/-- in `sfPanicDemo` after 17 steps goroutine 0 is at `px`: `sf_panic_cleanup`'s hypotheses are inhabited. -/
example : (SF.run SF.init (sfPanicDemo.take 17)).map (fun s => (s.pc 0, s.wg 0, (s.calls 7).isNone, s.pc 1))
    = some (SF.PC.px, 0, true, SF.PC.w1) := by decide

/-- `sf_reentrant_blocked` is inhabited: in `sfDemo` after 12 steps goroutine 0 runs its function and goroutine 1
waits on the same call object. -/
example : (SF.run SF.init (sfDemo.take 12)).map (fun s => (s.pc 0, s.pc 1, decide (s.reg 1 = s.reg 0)))
    = some (SF.PC.m1, SF.PC.w1, true) := by decide

/-- in `sfDemo`, after 12 steps goroutine 1 is blocked at `c.wg.Wait()`; `sf_keys_independent` names goroutine 0
(same key), and `sf_no_deadlock` is witnessed by goroutine 0 being enabled. -/
example : (SF.run SF.init (sfDemo.take 12)).map
      (fun s => (s.pc 1, (SF.step s 1 0).isSome, decide (s.key 0 = s.key 1), (SF.step s 0 0).isSome))
    = some (SF.PC.w1, false, true, true) := by decide

/-! ## LockedCalls (core/syncx/lockedcalls.go) -/

/-- **No two executions for the same key overlap**: two goroutines that both have their wait group registered in
`lg.m` (from `lg.m[key] = &wg` until `delete(lg.m, key)` — the caller's function runs strictly inside) for the same
key are the same goroutine. -/
theorem lc_exclusive_per_key {s : LC.St} (h : LC.Reach s) (t u : Tid)
    (ht : (s.pc t).inFlight = true) (hu : (s.pc u).inFlight = true) (hk : s.key t = s.key u) : t = u := by
  have hi := LC.inv_reach h
  have a := hi.flight t ht
  have b := hi.flight u hu
  have c := (hi.owns t (by revert ht; cases s.pc t <;> simp [LC.PC.inFlight, LC.PC.owns])).2
  have d := (hi.owns u (by revert hu; cases s.pc u <;> simp [LC.PC.inFlight, LC.PC.owns])).2
  rw [hk, b] at a
  have e : s.reg u = s.reg t := by simpa using a
  rw [e] at d
  rw [← c, d]

/-- **History form**: the execution intervals of two different calls on the same key are disjoint (every call
allocates its own wait group `c`, `d`; `fstart`/`fend` are the clock values at which its function started / ended). -/
theorem lc_exec_disjoint {s : LC.St} (h : LC.Reach s) (c d : Nat) (hne : c ≠ d) (hk : s.ekey c = s.ekey d)
    (a a' : Nat) (hc : s.fstart c = some a) (hd : s.fstart d = some a') :
    (∃ b, s.fend c = some b ∧ b < a') ∨ (∃ b, s.fend d = some b ∧ b < a) := by
  rcases (LC.invX_reach h).disj c d a a' hne hk hc hd with h1 | h1
  · left
    cases hf : s.fend c with
    | none => rw [hf] at h1; exact absurd h1 (by simp [LC.endsBefore])
    | some b => rw [hf] at h1; exact ⟨b, rfl, h1⟩
  · right
    cases hf : s.fend d with
    | none => rw [hf] at h1; exact absurd h1 (by simp [LC.endsBefore])
    | some b => rw [hf] at h1; exact ⟨b, rfl, h1⟩

/-- **Every caller's own function runs exactly once** during its call, and the call returns that function's
result (never somebody else's). -/
theorem lc_own_fn_once {s : LC.St} (h : LC.Reach s) (r : LRet) (hr : r ∈ s.rets) :
    r.runs = 1 ∧ r.val = r.own := by
  have := (LC.inv_reach h).rets r hr
  exact ⟨this.1, this.2.1⟩

/-- … and during a call that is still in progress the caller's own function has run at most once — exactly once as
soon as it has started (rows `f1` … `px`). -/
theorem lc_own_fn_at_most_once {s : LC.St} (h : LC.Reach s) (t : Tid) (ht : s.pc t ≠ .idle) :
    s.runs t ≤ 1 ∧ ((s.pc t).ranOnce = true → s.runs t = 1) := by
  have hi := LC.inv_reach h
  have h0 := hi.notrun t
  have h1 := hi.ranonce t
  revert ht h0 h1
  cases s.pc t <;> simp [LC.PC.notRun, LC.PC.ranOnce] <;> omega

/-- inhabited: after 8 steps of its first call goroutine 0 is inside its function, which has run once. -/
example : (LC.run LC.init (List.replicate 1 (0,3) ++ List.replicate 7 (0,0))).map (fun s => (s.pc 0, s.runs 0))
    = some (LC.PC.f1, 1) := by decide

/-- a step is disabled only at the mutex or at a wait group -/
theorem lc_blocked_cases {s : LC.St} {t : Tid} {x : Nat} (hb : LC.step s t x = none) :
    ((s.pc t = .b0 ∨ s.pc t = .e0) ∧ s.lock ≠ none) ∨ (s.pc t = .b3 ∧ s.wg (s.reg t) ≠ 0) := by
  unfold LC.step at hb
  split at hb <;> (try split at hb) <;> simp_all

/-- the mutex holder can always take its next step (it is never inside user code, never at a wait). -/
theorem lc_holder_enabled {s : LC.St} (u : Tid) (hu : (s.pc u).holdsLock = true) (y : Nat) :
    (LC.step s u y).isSome = true := by
  unfold LC.step
  revert hu
  cases hp : s.pc u <;> simp [LC.PC.holdsLock]
  split <;> simp

/-- **Calls on different keys never wait for each other**: a blocked caller waits either for the holder of the
mutex — who is inside a short critical section, never in user code, and always able to step — or, at `wg.Wait()`,
for a goroutine *on the same key* whose wait group is still registered / not yet released. -/
theorem lc_keys_independent {s : LC.St} (h : LC.Reach s) (t : Tid) (x : Nat) (hb : LC.step s t x = none) :
    (∃ u, s.lock = some u ∧ (s.pc u).holdsLock = true ∧ ∀ y, (LC.step s u y).isSome = true) ∨
    (s.pc t = .b3 ∧ ∃ u, s.key u = s.key t ∧ (s.pc u).wgOne = true ∧ s.reg u = s.reg t) := by
  have hi := LC.inv_reach h
  rcases lc_blocked_cases hb with ⟨_, hl⟩ | ⟨hp, hw⟩
  · left
    cases hlk : s.lock with
    | none => exact absurd hlk hl
    | some u => exact ⟨u, rfl, hi.lockr u hlk, fun y => lc_holder_enabled u (hi.lockr u hlk) y⟩
  · right
    have := (hi.waits t (Or.inr hp)).2.2 hw
    exact ⟨hp, s.owner (s.reg t), this.2.2, this.1, this.2.1⟩


/-- the mutex is released after at most five further steps of its holder, none of them a user step. -/
theorem lc_lock_released {s : LC.St} (h : LC.Reach s) (u : Tid) (hl : s.lock = some u) :
    ∃ n, n ≤ 5 ∧ ∃ s', LC.run s (List.replicate n (u, 0)) = some s' ∧ s'.lock = none := by
  have hp := (LC.inv_reach h).lockr u hl
  revert hp
  cases hpc : s.pc u <;> simp [LC.PC.holdsLock]
  · -- b1
    cases hm : s.m (s.key u) with
    | some w => exact ⟨2, by omega, by simp [List.replicate, LC.run, LC.step, hpc, hm, upd]⟩
    | none => exact ⟨5, by omega, by simp [List.replicate, LC.run, LC.step, hpc, hm, upd]⟩
  · exact ⟨1, by omega, by simp [List.replicate, LC.run, LC.step, hpc, upd]⟩
  · exact ⟨4, by omega, by simp [List.replicate, LC.run, LC.step, hpc, upd]⟩
  · exact ⟨3, by omega, by simp [List.replicate, LC.run, LC.step, hpc, upd]⟩
  · exact ⟨2, by omega, by simp [List.replicate, LC.run, LC.step, hpc, upd]⟩
  · exact ⟨1, by omega, by simp [List.replicate, LC.run, LC.step, hpc, upd]⟩
  · exact ⟨2, by omega, by simp [List.replicate, LC.run, LC.step, hpc, upd]⟩
  · exact ⟨1, by omega, by simp [List.replicate, LC.run, LC.step, hpc, upd]⟩


/-- **No deadlock, no lost wake-up** (the reason for "delete first, Done later"): whenever some LockedCalls call
is in progress, some goroutine that is inside a call can take a step. -/
theorem lc_no_deadlock {s : LC.St} (h : LC.Reach s) (t : Tid) (ht : s.pc t ≠ .idle) :
    ∃ u, s.pc u ≠ .idle ∧ ∀ y, (LC.step s u y).isSome = true := by
  have hi := LC.inv_reach h
  have indep : ∀ u y z, (LC.step s u y).isSome = true → (LC.step s u z).isSome = true := by
    intro u y z
    unfold LC.step
    cases s.pc u <;> simp <;> (try split) <;> (try split) <;> simp
  have lockcase : s.lock ≠ none → ∃ u, s.pc u ≠ .idle ∧ ∀ y, (LC.step s u y).isSome = true := by
    intro hl
    cases hlk : s.lock with
    | none => exact absurd hlk hl
    | some u =>
      have hh := hi.lockr u hlk
      exact ⟨u, by revert hh; cases s.pc u <;> simp [LC.PC.holdsLock], fun y => lc_holder_enabled u hh y⟩
  cases hst : LC.step s t 0 with
  | some s' => exact ⟨t, ht, fun y => indep t 0 y (by simp [hst])⟩
  | none =>
    rcases lc_keys_independent h t 0 hst with ⟨u, hl, _, _⟩ | ⟨_, u, _, hw, _⟩
    · exact lockcase (by simp [hl])
    · cases hsu : LC.step s u 0 with
      | some s' => exact ⟨u, by revert hw; cases s.pc u <;> simp [LC.PC.wgOne], fun y => indep u 0 y (by simp [hsu])⟩
      | none =>
        rcases lc_blocked_cases hsu with ⟨_, hl⟩ | ⟨hp, _⟩
        · exact lockcase hl
        · rw [hp] at hw; simp [LC.PC.wgOne] at hw

/-- the model's control flow is the one its statement table (tied to the source in `Tie.lean`) lists. -/
theorem lc_flow {s s' : LC.St} {t : Tid} {x : Nat} (hs : LC.step s t x = some s') :
    s'.pc t ∈ LC.succ (s.pc t) ∧ ∀ u, u ≠ t → s'.pc u = s.pc u := LC.step_flow hs

/-! non-vacuity: goroutine 0 runs on key 3; goroutine 1 (same key) finds the wait group, waits, retries and then
runs its own function; goroutine 2 (key 4) runs to completion while goroutine 0 is still inside its function. -/
def lcDemo : List (Tid × Nat) :=
  [(0,3),(0,0),(0,0),(0,0),(0,0),(0,0),(0,0),(0,0),          -- 0: … inside fn (f1)
   (1,3),(1,0),(1,0),(1,0),                                   -- 1: finds 0's wait group, unlocks, now at Wait
   (2,4),(2,0),(2,0),(2,0),(2,0),(2,0),(2,0),(2,0),(2,9),(2,0),(2,0),(2,0),(2,0),(2,0),  -- 2: other key, done
   (0,5),(0,0),(0,0),(0,0),(0,0),(0,0),                       -- 0: fn returns 5, delete, unlock, Done, return
   (1,0),(1,0),(1,0),(1,0),(1,0),(1,0),(1,0),(1,0),(1,6),(1,0),(1,0),(1,0),(1,0),(1,0)] -- 1: retry, own fn → 6

example : (LC.run LC.init lcDemo).map (fun s => s.rets.map fun r => (r.tid, r.key, r.val, r.runs))
    = some [(1, 3, 6, 1), (0, 3, 5, 1), (2, 4, 9, 1)] := by decide

/-- goroutine 1 really is blocked at `wg.Wait()` while 0 runs, and `lc_keys_independent` names 0 (same key). -/
example : (LC.run LC.init (lcDemo.take 12)).map (fun s => (s.pc 1, (LC.step s 1 0).isSome, decide (s.key 0 = s.key 1)))
    = some (LC.PC.b3, false, true) := by decide

/-- a panicking caller function (outside the quantifier): goroutine 0's function on key 3 panics while goroutine 1
waits for the key; the deferred block still deletes the entry and releases the wait group, the panic leaves `Do`
(no return record for 0), and goroutine 1 then runs its own function.  All LockedCalls theorems above quantify over
these schedules too (`lc_no_deadlock`: nobody is left waiting). -/
def lcPanicDemo : List (Tid × Nat) :=
  [(0,3),(0,0),(0,0),(0,0),(0,0),(0,0),(0,0),(0,1),          -- 0: … fn started, will panic (fp)
   (1,3),(1,0),(1,0),(1,0),                                   -- 1: finds 0's wait group, now at Wait
   (0,0),(0,0),(0,0),(0,0),(0,0),(0,0),                       -- 0: fn panics; delete, unlock, Done; panic leaves Do
   (1,0),(1,0),(1,0),(1,0),(1,0),(1,0),(1,0),(1,0),(1,6),(1,0),(1,0),(1,0),(1,0),(1,0)] -- 1: retry, own fn → 6

example : (LC.run LC.init lcPanicDemo).map (fun s => (s.rets.map fun r => (r.tid, r.key, r.val, r.runs), s.pc 0))
    = some ([(1, 3, 6, 1)], LC.PC.idle) := by decide

/-! ## ResourceManager (core/syncx/resourcemanager.go) and the two anchored users of the same pattern
`RM.Reach` ranges over every `Cfg`: `Cfg.getResource` (ResourceManager.GetResource), `Cfg.cacheTake`
(collection.Cache.Take: a lookup in front of the flight, no type assertion after it) and `Cfg.doTake`
(cacheNode.doTake).  Read "create" as `create` / `fetch` / `query` and "the map" as `manager.resources` / `c.data` /
the redis key.  Every theorem of this section therefore speaks about all three. -/

/-- **Each keyed resource is created successfully at most once**, on every schedule. -/
theorem rm_create_once {s : RM.St} (h : RM.Reach s) (k : Key) : s.ncreate k ≤ 1 :=
  ((RM.inv_reach h).r3 k).1

/-- **Everyone gets the same instance**: a `GetResource` call that returns a resource (not an error) returns the
instance made by the one successful `create` of its key. -/
theorem rm_same_instance {s : RM.St} (h : RM.Reach s) (r : RRet) (hr : r ∈ s.rets) (hv : r.val ≠ 0) :
    s.ncreate r.key = 1 ∧ r.val = s.inst r.key := by
  have := (RM.inv_reach h).retsI r hr hv
  exact ⟨this.1, this.2.symm⟩

/-- **… to everyone**: any two calls on the same key that returned a resource returned the same one — whichever way
each got it (own flight, shared flight, re-check inside the flight, hit in front of the flight). -/
theorem rm_everyone_same {s : RM.St} (h : RM.Reach s) (r q : RRet) (hr : r ∈ s.rets) (hq : q ∈ s.rets)
    (hk : r.key = q.key) (hrv : r.val ≠ 0) (hqv : q.val ≠ 0) : r.val = q.val := by
  have a := (rm_same_instance h r hr hrv).2
  have b := (rm_same_instance h q hq hqv).2
  rw [a, b, hk]

/-- what a `GetResource` call returns is what the single execution of the closure for its flight returned (its
own, or the one it shared), and that flight was for its key. -/
theorem rm_result_is_execution {s : RM.St} (h : RM.Reach s) (r : RRet) (hr : r ∈ s.rets) (hd : r.direct = false) :
    s.fnres r.exec = some r.val ∧ s.ekey r.exec = r.key := by
  have := (RM.inv_reach h).rets r hr hd
  exact ⟨this.2.1, this.2.2⟩

/-- a call answered by the lookup in front of the flight (`collection.Cache.Take`'s first `doGet`) returns the stored
instance — never an error, never nil — which is the one successful load's instance. -/
theorem rm_direct_hit {s : RM.St} (h : RM.Reach s) (r : RRet) (hr : r ∈ s.rets) (hd : r.direct = true) :
    r.val ≠ 0 ∧ s.ncreate r.key = 1 ∧ r.val = s.inst r.key := by
  have hv := (RM.inv_reach h).retsD r hr hd
  have := (RM.inv_reach h).retsI r hr hv
  exact ⟨hv, this.1, this.2.symm⟩

/-- the lookup in front of the flight exists only for `Cfg.pre` users; no step changes the configuration. -/
theorem rm_cfg_constant {s s' : RM.St} {t : Tid} {x : Nat} (hs : RM.step s t x = some s') : s'.cfg = s.cfg := by
  unfold RM.step at hs
  split at hs <;> (try split at hs) <;> simp at hs <;> subst hs <;> rfl

/-- **cleanup of the users' flight group** (as `sf_cleanup`): an entry of the flight map belongs to a leader that is
right now inside that flight for that key — whichever way `create`/`fetch`/`query` ended. -/
theorem rm_cleanup {s : RM.St} (h : RM.Reach s) (k : Key) (c : CallId) (hc : s.calls k = some c) :
    (s.pc (s.leader c)).inFlight = true ∧ s.reg (s.leader c) = c ∧ s.key (s.leader c) = k := by
  have hi := RM.inv_reach h
  obtain ⟨_, a2, a3, a4⟩ := hi.calls k c hc
  have ho := hi.owns (s.leader c) (by revert a3; cases s.pc (s.leader c) <;> simp [RM.PC.inFlight, RM.PC.owns])
  rw [a4] at ho
  exact ⟨a3, a4, by rw [← ho.2.2.1]; exact a2⟩

theorem rm_quiescent_clean {s : RM.St} (h : RM.Reach s) (hq : ∀ t, s.pc t = .idle) (k : Key) : s.calls k = none := by
  cases hc : s.calls k with
  | none => rfl
  | some c =>
    have := (rm_cleanup h k c hc).1
    rw [hq] at this
    simp [RM.PC.inFlight] at this

/-- the stored instance is that one, too. -/
theorem rm_stored {s : RM.St} (h : RM.Reach s) (k : Key) (v : Val) (hv : s.res k = some v) :
    s.ncreate k = 1 ∧ v = s.inst k ∧ v ≠ 0 := by
  have := (RM.inv_reach h).r1 k v hv
  exact ⟨this.1, this.2.1.symm, this.2.2⟩

/-- at most one goroutine per key is anywhere inside the closure (lookup, `create`, store). -/
theorem rm_exclusive {s : RM.St} (h : RM.Reach s) (t u : Tid)
    (ht : (s.pc t).inFlight = true) (hu : (s.pc u).inFlight = true) (hk : s.key t = s.key u) : t = u :=
  RM.flight_unique (RM.inv_reach h) t u ht hu hk

/-- the model's control flow is the one its statement table (tied to the source in `Tie.lean`) lists. -/
theorem rm_flow {s s' : RM.St} {t : Tid} {x : Nat} (hs : RM.step s t x = some s') :
    s'.pc t ∈ RM.succ (s.pc t) ∧ ∀ u, u ≠ t → s'.pc u = s.pc u := RM.step_flow hs

/-! non-vacuity: goroutine 0's `create` for key 2 fails; goroutine 1 (joined the flight) gets the error too;
goroutine 0 tries again and creates instance 9; goroutine 2 then finds it in the map. -/
def rmDemo : List (Tid × Nat) :=
  [(0,2)] ++ List.replicate 11 (0,0) ++          -- 0: invoke … create() running (g5)
  [(1,2),(1,0),(1,0),(1,0)] ++                    -- 1: joins the flight
  List.replicate 7 (0,0) ++                       -- 0: create fails (input 0), store, delete, Done, return
  [(1,0),(1,0)] ++                                -- 1: returns the error
  [(0,2)] ++ List.replicate 11 (0,0) ++ [(0,9)] ++ List.replicate 9 (0,0) ++   -- 0: second call creates 9
  [(2,2)] ++ List.replicate 16 (2,0)              -- 2: finds 9 in the map

example : (RM.run (RM.init .getResource) rmDemo).map (fun s => (s.rets.map fun r => (r.tid, r.key, r.val), s.ncreate 2, s.res 2))
    = some ([(2, 2, 9), (0, 2, 9), (1, 2, 0), (0, 2, 0)], 1, some 9) := by decide

/-! ### a panicking `create` (outside the property's quantifier; this is what the code does)
The flight group cleans up as in `sf_panic_cleanup` and the panic leaves `GetResource` in the leader.  A joiner gets
`(nil, nil)` from `Do` and `val.(io.Closer)` then panics with a nil interface conversion: joiners of a panicked
flight panic as well (rows `w2`/`px` of the model); nothing is stored, the next caller creates afresh.  All `rm_*`
theorems above quantify over these schedules too. -/
theorem rm_panic_cleanup {s : RM.St} (h : RM.Reach s) (t : Tid) (ht : s.pc t = .px) :
    s.wg (s.reg t) = 0 ∧ s.calls (s.key t) ≠ some (s.reg t) := by
  have hi := RM.inv_reach h
  have ho := hi.owns t (by simp [ht, RM.PC.owns])
  refine ⟨hi.wg0 t (Or.inr (by simp [ht, RM.PC.after])), ?_⟩
  intro hc
  have := (hi.calls _ _ hc).2.2.1
  rw [ho.2.1, ht] at this
  simp [RM.PC.inFlight] at this

/-- goroutine 0's `create` for key 2 panics while goroutine 1 has joined the flight: neither call returns
(both panic), nothing is stored or counted; goroutine 2 then creates instance 9. -/
def rmPanicDemo : List (Tid × Nat) :=
  [(0,2)] ++ List.replicate 10 (0,0) ++ [(0,1)] ++   -- 0: invoke … create() running, will panic (gp)
  [(1,2),(1,0),(1,0),(1,0)] ++                    -- 1: joins the flight
  List.replicate 6 (0,0) ++                       -- 0: create panics; delete, unlock, Done; panic leaves GetResource
  [(1,0),(1,0)] ++                                -- 1: wakes; val.(io.Closer) panics
  [(2,2)] ++ List.replicate 11 (2,0) ++ [(2,9)] ++ List.replicate 9 (2,0)   -- 2: creates 9

example : (RM.run (RM.init .getResource) rmPanicDemo).map
      (fun s => (s.rets.map fun r => (r.tid, r.key, r.val), s.ncreate 2, s.res 2, s.pc 0, s.pc 1))
    = some ([(2, 2, 9)], 1, some 9, RM.PC.idle, RM.PC.idle) := by decide

/-! ### collection.Cache.Take as an instance (`Cfg.cacheTake`)
goroutine 0 misses in front of the flight, leads, `fetch` returns 9, `c.Set`; goroutine 1 missed in front of the
flight too (before the store), enters after 0's flight is gone, leads its own flight and finds 9 in the re-check
inside the barrier (no second fetch: `ncreate = 1`); goroutine 2 then hits in front of the flight (direct). -/
def takeDemo : List (Tid × Nat) :=
  [(0,2)] ++ List.replicate 4 (0,0) ++            -- 0: invoke, p0..p3 (miss) → l0
  [(1,2)] ++ List.replicate 4 (1,0) ++            -- 1: invoke, p0..p3 (miss) → l0
  List.replicate 11 (0,0) ++ [(0,9)] ++ List.replicate 9 (0,0) ++   -- 0: flight, fetch → 9, Set, delete, Done, return
  List.replicate 16 (1,0) ++                      -- 1: own flight, re-check finds 9
  [(2,2)] ++ List.replicate 4 (2,0)               -- 2: direct hit

example : (RM.run (RM.init .cacheTake) takeDemo).map
      (fun s => s.rets.map fun r => (r.tid, r.key, r.val, r.direct))
    = some [(2, 2, 9, true), (1, 2, 9, false), (0, 2, 9, false)] := by decide
example : (RM.run (RM.init .cacheTake) takeDemo).map (fun s => (s.ncreate 2, s.res 2)) = some (1, some 9) := by decide

/-- without the re-check inside the barrier (what seeded C07-1 and C07-2 did to GetResource) goroutine 1 would fetch again:
the model's row `g3` is what prevents it — in `takeDemo` after 40 steps goroutine 1 is at `g3` with `found`. -/
example : (RM.run (RM.init .cacheTake) (takeDemo.take 40)).map (fun s => (s.pc 1, s.found 1, s.loc 1))
    = some (RM.PC.g3, true, 9) := by decide

/-- a panicking `fetch` under `Cfg.cacheTake` (what the code does): the leader's Take panics, the joiner returns
`(nil, nil)` (no type assertion), nothing is stored; the key is free again. -/
def takePanicDemo : List (Tid × Nat) :=
  [(0,2)] ++ List.replicate 14 (0,0) ++ [(0,1)] ++   -- 0: pre-miss, flight, fetch starts, will panic (gp)
  [(1,2)] ++ List.replicate 7 (1,0) ++            -- 1: pre-miss, joins the flight
  List.replicate 6 (0,0) ++                       -- 0: fetch panics; delete, unlock, Done; panic leaves Take
  [(1,0),(1,0)]                                   -- 1: wakes, returns the nil value
example : (RM.run (RM.init .cacheTake) takePanicDemo).map
      (fun s => s.rets.map fun r => (r.tid, r.key, r.val, r.direct))
    = some [(1, 2, 0, false)] := by decide
example : (RM.run (RM.init .cacheTake) takePanicDemo).map
      (fun s => (s.ncreate 2, s.res 2, s.pc 0, s.pc 1, (s.calls 2).isNone))
    = some (0, none, RM.PC.idle, RM.PC.idle, true) := by decide

/-! `Inject` (outside `RM.Reach`, inside `RM.ReachI` when the manager is quiescent and the key holds nothing: `rm_inject_*`
at the end of this file; what the code does): registered *before* any call it is simply the instance
everyone gets and `create` never runs; registered *after* a successful create it replaces the stored instance, so
later callers hold a different instance than earlier ones — `Inject` is a test hook, not covered by the property. -/
example : ((RM.inject (RM.init .getResource) 2 5).bind fun s => RM.run s ([(0,2)] ++ List.replicate 16 (0,0))).map
      (fun s => (s.rets.map fun r => (r.tid, r.key, r.val), s.ncreate 2, s.inst 2))
    = some ([(0, 2, 5)], 1, 5) := by decide   -- (ghost: the registration counts as the key's one creation, `rm_injected_is_handed_out`)

example : (((RM.run (RM.init .getResource) rmDemo).bind fun s => RM.inject s 2 5).bind fun s =>
        RM.run s ([(3,2)] ++ List.replicate 16 (3,0))).map (fun s => s.rets.map fun r => (r.tid, r.key, r.val))
    = some [(3, 2, 5), (2, 2, 9), (0, 2, 9), (1, 2, 0), (0, 2, 0)] := by decide

/-! ## Cleanup on every exit (return, error, panic)
`g.calls` / `lg.m` hold an entry only while the goroutine that registered it is still between "registered" and
"deleted" of the SAME call: whichever way the user function ends (value, error — the same rows — or panic, rows
`mp`/`fp`/`gp` → deferred block → `px`), the entry is gone before the call ends, so a later call never finds a
finished flight (seeded C07-3) and never waits on a wait group nobody will release (seeded C07-4). -/

/-- **SingleFlight cleanup**: every entry of `g.calls` belongs to a leader that is right now inside the flight of
that very call object, for that key, and whose call has not ended. -/
theorem sf_cleanup {s : SF.St} (h : SF.Reach s) (k : Key) (c : CallId) (hc : s.calls k = some c) :
    (s.pc (s.leader c)).inFlight = true ∧ s.reg (s.leader c) = c ∧ s.key (s.leader c) = k ∧ s.lret c = none := by
  have hi := SF.inv_reach h
  obtain ⟨_, a2, a3, a4⟩ := hi.calls k c hc
  have ho := hi.owns (s.leader c) (by revert a3; cases s.pc (s.leader c) <;> simp [SF.PC.inFlight, SF.PC.owns])
  rw [a4] at ho
  exact ⟨a3, a4, by rw [← ho.2.2.1]; exact a2, ho.2.2.2.2⟩

/-- a goroutine outside a flight (idle: its last call ended by return, error or panic; or on the joiner path; or past
`delete`) has no entry in the map: **after any execution ends the key is absent** unless a NEW call registered it. -/
theorem sf_cleanup_after_call {s : SF.St} (h : SF.Reach s) (t : Tid) (ht : (s.pc t).inFlight = false)
    (k : Key) (c : CallId) (hc : s.calls k = some c) : s.leader c ≠ t := by
  intro e
  have := (sf_cleanup h k c hc).1
  rw [e, ht] at this
  cases this

/-- when no call is in progress the map is empty. -/
theorem sf_quiescent_clean {s : SF.St} (h : SF.Reach s) (hq : ∀ t, s.pc t = .idle) (k : Key) : s.calls k = none := by
  cases hc : s.calls k with
  | none => rfl
  | some c =>
    have := (sf_cleanup h k c hc).1
    rw [hq] at this
    simp [SF.PC.inFlight] at this

/-- the wait group of a call object is non-zero only while its leader is between `Add(1)` and `Done()` of that call:
nobody can be left waiting on a finished flight, however the function ended. -/
theorem sf_wg_released {s : SF.St} (h : SF.Reach s) (t : Tid) (hp : s.pc t = .r0 ∨ s.pc t = .px ∨ s.pc t = .n1) :
    s.wg (s.reg t) = 0 := by
  have hi := SF.inv_reach h
  rcases hp with hp | hp | hp
  · exact hi.wg0 t (Or.inr (by simp [hp, SF.PC.after]))
  · exact hi.wg0 t (Or.inr (by simp [hp, SF.PC.after]))
  · exact hi.wg0 t (Or.inl hp)

/-- in `sfPanicDemo`, once goroutine 0's panic has left `Do` (18 steps) nothing is registered for key 7 although
goroutine 1 still waits to be woken; `sf_cleanup`'s hypothesis is inhabited after 12 steps (entry of call 0). -/
example : (SF.run SF.init (sfPanicDemo.take 18)).map (fun s => (s.pc 0, (s.calls 7).isNone, s.wg 0))
    = some (SF.PC.idle, true, 0) := by decide
example : (SF.run SF.init (sfPanicDemo.take 12)).map (fun s => (s.calls 7, s.leader 0, s.pc 0))
    = some (some 0, 0, SF.PC.mp) := by decide

/-- **LockedCalls cleanup**: every entry of `lg.m` is the wait group of a goroutine that is right now between
registering and deleting it, for that key. -/
theorem lc_cleanup {s : LC.St} (h : LC.Reach s) (k : Key) (w : Nat) (hm : s.m k = some w) :
    (s.pc (s.owner w)).inFlight = true ∧ s.reg (s.owner w) = w ∧ s.key (s.owner w) = k := by
  have := (LC.inv_reach h).m k w hm
  exact ⟨this.2.1, this.2.2.1, this.2.2.2⟩

/-- a goroutine whose call has ended (return, error or panic: `e2`…`px`, `idle`) or has not registered yet has no entry
in `lg.m`. -/
theorem lc_cleanup_after_call {s : LC.St} (h : LC.Reach s) (t : Tid) (ht : (s.pc t).inFlight = false)
    (k : Key) (w : Nat) (hm : s.m k = some w) : s.owner w ≠ t := by
  intro e
  have := (lc_cleanup h k w hm).1
  rw [e, ht] at this
  cases this

/-- … and every wait group with a non-zero counter belongs to a goroutine that has not reached the end of `Done()` of
that very wait group: after the call ended — also by an error or a panic — nobody can block on it (C07-4's hang). -/
theorem lc_wg_released {s : LC.St} (h : LC.Reach s) (w : Nat) (hw : w < s.next) (hz : s.wg w ≠ 0) :
    (s.pc (s.owner w)).wgOne = true ∧ s.reg (s.owner w) = w :=
  (LC.inv_reach h).wgfree w hw hz

theorem lc_quiescent_clean {s : LC.St} (h : LC.Reach s) (hq : ∀ t, s.pc t = .idle) (k : Key) : s.m k = none := by
  cases hm : s.m k with
  | none => rfl
  | some w =>
    have := (lc_cleanup h k w hm).1
    rw [hq] at this
    simp [LC.PC.inFlight] at this

/-- in `lcPanicDemo`, after goroutine 0's panic left `Do` (18 steps): key 3 is free, wait group 0 released, goroutine 1
(still at `wg.Wait()`) can go on. -/
example : (LC.run LC.init (lcPanicDemo.take 18)).map (fun s => (s.pc 0, (s.m 3).isNone, s.wg 0, s.pc 1, (LC.step s 1 0).isSome))
    = some (LC.PC.idle, true, 0, LC.PC.b3, true) := by decide
example : (LC.run LC.init (lcPanicDemo.take 12)).map (fun s => (s.m 3, s.owner 0, s.pc 0))
    = some (some 0, 0, LC.PC.fp) := by decide


/-! ## Round 5: end-to-end statements over the WHOLE configuration space of the public API

`*_reach_of_run`: every prefix-closed run of the executable step function — from the state the constructor builds, for
every schedule given as a plain list — is reachable; so every theorem above holds after ANY list of (goroutine, input)
pairs, for every user `Cfg` (all `pre` / `asrt` combinations, not only the three named ones). -/

theorem sf_reach_of_run (l : List (Tid × Nat)) : ∀ (s0 s : SF.St), SF.Reach s0 → SF.run s0 l = some s → SF.Reach s := by
  induction l with
  | nil => intro s0 s h0 hr; simp [SF.run] at hr; subst hr; exact h0
  | cons a l ih =>
    intro s0 s h0 hr
    simp only [SF.run] at hr
    split at hr
    · rename_i s1 hs1; exact ih s1 s (.step a.1 a.2 h0 hs1) hr
    · simp at hr

theorem lc_reach_of_run (l : List (Tid × Nat)) : ∀ (s0 s : LC.St), LC.Reach s0 → LC.run s0 l = some s → LC.Reach s := by
  induction l with
  | nil => intro s0 s h0 hr; simp [LC.run] at hr; subst hr; exact h0
  | cons a l ih =>
    intro s0 s h0 hr
    simp only [LC.run] at hr
    split at hr
    · rename_i s1 hs1; exact ih s1 s (.step a.1 a.2 h0 hs1) hr
    · simp at hr

theorem rm_reach_of_run (l : List (Tid × Nat)) : ∀ (s0 s : RM.St), RM.Reach s0 → RM.run s0 l = some s → RM.Reach s := by
  induction l with
  | nil => intro s0 s h0 hr; simp [RM.run] at hr; subst hr; exact h0
  | cons a l ih =>
    intro s0 s h0 hr
    simp only [RM.run] at hr
    split at hr
    · rename_i s1 hs1; exact ih s1 s (.step a.1 a.2 h0 hs1) hr
    · simp at hr

/-- **SingleFlight end to end**: after ANY schedule on a fresh `NewSingleFlight()`: every returned call got the result
of the one execution of its flight, that flight was for its key and its leading call overlaps the caller's call, and
every finished non-panicking execution has exactly one fresh caller. -/
theorem sf_end_to_end (l : List (Tid × Nat)) (s : SF.St) (hr : SF.run SF.init l = some s) :
    (∀ r ∈ s.rets, s.fnres r.exec = some r.val ∧ s.ekey r.exec = r.key ∧
       ∀ lr, s.lret r.exec = some lr → r.inv < lr ∨ (r.fresh = true ∧ lr = r.ret)) ∧
    (∀ k c, s.calls k = some c → s.key (s.leader c) = k ∧ s.lret c = none) := by
  have h := sf_reach_of_run l _ _ .init hr
  refine ⟨fun r hrm => ?_, fun k c hc => ?_⟩
  · have a := sf_no_stale h r hrm
    refine ⟨a.1, a.2.1, fun lr hlr => ?_⟩
    cases hf : r.fresh with
    | true =>
      have := (a.2.2.1 hf).2.2
      rw [hlr] at this
      exact .inr ⟨rfl, by simpa using this⟩
    | false => exact .inl ((a.2.2.2 hf).2 lr hlr)
  · have := sf_cleanup h k c hc
    exact ⟨this.2.2.1, this.2.2.2⟩

example : (SF.run SF.init sfDemo).isSome = true := by decide

/-- **LockedCalls end to end**: after ANY schedule on a fresh `NewLockedCalls()` every returned call ran its own
function exactly once and returned that run's result. -/
theorem lc_end_to_end (l : List (Tid × Nat)) (s : LC.St) (hr : LC.run LC.init l = some s) :
    ∀ r ∈ s.rets, r.runs = 1 ∧ r.val = r.own := by
  have h := lc_reach_of_run l _ _ .init hr
  intro r hrm
  exact lc_own_fn_once h r hrm

/-- **Every user of the double-checked pattern, end to end** (all `Cfg`: `ResourceManager.GetResource`,
`collection.Cache.Take`, `cacheNode.doTake` through any of its four entry points, and every other combination of the
two flags): after ANY schedule on a freshly constructed object, every key was loaded successfully at most once, and any
two calls of a key that returned an instance returned the same one. -/
theorem rm_end_to_end (cfg : Cfg) (l : List (Tid × Nat)) (s : RM.St) (hr : RM.run (RM.init cfg) l = some s) :
    s.cfg = cfg ∧ (∀ k, s.ncreate k ≤ 1) ∧
    (∀ r ∈ s.rets, ∀ q ∈ s.rets, r.key = q.key → r.val ≠ 0 → q.val ≠ 0 → r.val = q.val) := by
  have h := rm_reach_of_run l _ _ (.init cfg) hr
  refine ⟨?_, fun k => rm_create_once h k, fun r hrm q hq hk hv hw => rm_everyone_same h r q hrm hq hk hv hw⟩
  clear h
  revert hr
  generalize hs0 : RM.init cfg = s0
  have hc : s0.cfg = cfg := by subst hs0; rfl
  clear hs0
  induction l generalizing s0 with
  | nil => intro hr; simp [RM.run] at hr; subst hr; exact hc
  | cons a l ih =>
    intro hr
    simp only [RM.run] at hr
    split at hr
    · rename_i s1 hs1; exact ih s1 (by rw [rm_cfg_constant hs1]; exact hc) hr
    · simp at hr

example : (RM.run (RM.init { pre := true, asrt := true }) takeDemo).map (fun s => (s.cfg, s.ncreate 2)) =
    some ({ pre := true, asrt := true }, 1) := by decide

/-- **Negative caching is consistent** (`cacheNode.doTake`: a query that reports "no such row" makes `doTake` store the
not-found placeholder — in the model the instance that execution created; the harness prints such results as the id of
that execution): whatever set of instances `isNF` stands for the placeholders, two calls of one key that returned
something never disagree on whether the row exists — nobody is handed a row for a key somebody else was told does not
exist, as long as the entry is cached. -/
theorem rm_not_found_consistent {s : RM.St} (h : RM.Reach s) (isNF : Val → Prop) (r q : RRet) (hr : r ∈ s.rets)
    (hq : q ∈ s.rets) (hk : r.key = q.key) (hrv : r.val ≠ 0) (hqv : q.val ≠ 0) : isNF r.val ↔ isNF q.val := by
  rw [rm_everyone_same h r q hr hq hk hrv hqv]

/-- … and it is reported after at most one query: the placeholder's execution is the key's one successful load. -/
theorem rm_not_found_one_query {s : RM.St} (h : RM.Reach s) (r : RRet) (hr : r ∈ s.rets) (hv : r.val ≠ 0) :
    s.ncreate r.key = 1 := (rm_same_instance h r hr hv).1

/-! ### several instances (`objs` > 1 in the harness): nothing leaks between objects

A family of objects, each built by its constructor with its own maps and its own flight group (tied:
`tie_newSingleFlight`, `tie_newLockedCalls`, `tie_newResourceManager`, `tie_newCache_fields`), steps one object at a
time.  Whatever the other objects do, every object of the family is a reachable configuration of the single-object
system — so every theorem above holds for each of them — and a step of object `i` leaves every other object untouched. -/
inductive RM.MReach : (Nat → RM.St) → Prop
  | init (cfgs : Nat → Cfg) : RM.MReach (fun i => RM.init (cfgs i))
  | step {m : Nat → RM.St} {s' : RM.St} (i : Nat) (t : Tid) (x : Nat) :
      RM.MReach m → RM.step (m i) t x = some s' → RM.MReach (upd m i s')

theorem rm_instances_independent {m : Nat → RM.St} (h : RM.MReach m) (i : Nat) : RM.Reach (m i) := by
  induction h with
  | init cfgs => exact .init (cfgs i)
  | step j t x _ hs ih =>
    by_cases hij : i = j
    · subst hij; rw [upd_same]; exact .step t x ih hs
    · rw [upd_other _ _ _ _ hij]; exact ih

theorem rm_instances_untouched (m : Nat → RM.St) (i j : Nat) (s' : RM.St) (hij : j ≠ i) : upd m i s' j = m j :=
  upd_other m i j s' hij

/-- e.g. two managers with the same key: each creates its own instance once; neither sees the other's. -/
theorem rm_instances_create_once {m : Nat → RM.St} (h : RM.MReach m) (i : Nat) (k : Key) : (m i).ncreate k ≤ 1 :=
  rm_create_once (rm_instances_independent h i) k

example : ∃ m, RM.MReach m ∧ (m 1).pc 0 = .l0 ∧ (m 0).pc 0 = .idle :=
  ⟨_, .step (s' := { RM.init .getResource with pc := upd (RM.init .getResource).pc 0 .l0, key := upd (RM.init .getResource).key 0 2 })
        1 0 2 (.init fun _ => .getResource) (by simp [RM.step, RM.init, Cfg.getResource]), by simp [upd], by simp [upd, RM.init]⟩


/-! ### Round 5: `cacheNode.doTake`'s closure decisions (`RM.doTakeClosure`, tied to the translated source by
`tie_doTake_decisions`) are the branching of rows g3 and g5 — for every cache-read / query outcome. -/

/-- row g3: the closure goes on to the query iff `doTakeClosure` says it queries; otherwise it ends at once with the
found instance (a row, or the placeholder) or with the error outcome `0` (a failed lookup). -/
theorem rm_closure_row_g3 (s : RM.St) (t : Tid) (c : RM.CacheRead) (q : RM.QueryRes)
    (hpc : s.pc t = .g3) (hl : s.cfg.lerr = true) (hf : s.found t = c.found) :
    (RM.step s t c.g3Input).map (fun s' => (s'.pc t, s'.tmp t)) =
      some (if (RM.doTakeClosure c q).queried then (.g4, s.tmp t)
            else (.m2, if (RM.doTakeClosure c q).out = .error then 0 else s.loc t)) := by
  unfold RM.step; rw [hpc]
  cases c <;> cases q <;> simp [RM.CacheRead.found] at hf <;>
    simp [hf, hl, RM.doTakeClosure, RM.CacheRead.g3Input, upd]

/-- row g5: after the query the closure stores (the row, or the not-found placeholder — an instance) iff
`doTakeClosure` says so; a failed query ends with the error outcome, nothing stored. -/
theorem rm_closure_row_g5 (s : RM.St) (t : Tid) (q : RM.QueryRes) (v : Val) (hv : v ≠ 0) (hpc : s.pc t = .g5) :
    (RM.step s t (q.g5Input v)).map (fun s' => s'.pc t) =
      some (if (RM.doTakeClosure .empty q).stored then .g6 else .m2) := by
  unfold RM.step; rw [hpc]
  cases q <;> simp [RM.doTakeClosure, RM.QueryRes.g5Input, upd, hv]

/-- a failed lookup (`doGetCache` returned a redis / context error) never runs the loader and never counts as a load:
the flight ends with the error outcome for the leader and every joiner. -/
theorem rm_lookup_error_no_load (s s' : RM.St) (t : Tid) (x : Nat) (hpc : s.pc t = .g3) (hf : s.found t = false)
    (hx : x ≠ 0) (hl : s.cfg.lerr = true) (hs : RM.step s t x = some s') :
    s'.pc t = .m2 ∧ s'.tmp t = 0 ∧ s'.ncreate = s.ncreate ∧ s'.res = s.res := by
  unfold RM.step at hs; rw [hpc] at hs
  simp [hf, hx, hl] at hs
  subst hs; simp [upd]

example : ((RM.run (RM.init .doTake) ([(0,2)] ++ List.replicate 9 (0,0))).bind fun s => RM.step s 0 1).map
    (fun s => (s.pc 0, s.tmp 0, s.ncreate 2)) = some (.m2, 0, 0) := by decide


/-! ### Round 5: who a blocked `GetResource` / `Take` call waits for (RM had no such statement before)

Full statement (as `sf_keys_independent` for SingleFlight): a blocked caller waits only for the holder of a mutex — who
exists and is enabled — or for the unfinished leader of a flight of its OWN key.  Proven (`rm_keys_independent_partial`,
with `RM.InvL` of ProofsRMX.lean: a taken flight-group mutex / write lock has a holder inside its critical section): all
of that for the flight-group mutex, the write lock and `Wait`.  Round 5c: the readers are identified (`RM.Readers`: the counter is the length of a duplicate-free list of exactly the
goroutines at p1 / p2 / g1 / g2), which gives the full `rm_keys_independent` and `rm_no_deadlock` below;
`rm_keys_independent_partial` is kept as the lemma they are built on. -/
theorem rm_blocked_cases {s : RM.St} {t : Tid} {x : Nat} (hb : RM.step s t x = none) :
    ((s.pc t = .l0 ∨ s.pc t = .d0) ∧ s.lock ≠ none) ∨ (s.pc t = .w1 ∧ s.wg (s.reg t) ≠ 0) ∨
    ((s.pc t = .p0 ∨ s.pc t = .g0) ∧ s.rw ≠ none) ∨ (s.pc t = .g6 ∧ ¬(s.rw = none ∧ s.nrd = 0)) := by
  unfold RM.step at hb
  split at hb <;> (try split at hb) <;> simp_all

theorem rm_critical_section_enabled (s : RM.St) (u : Tid) (y : Nat)
    (hu : (s.pc u).holdsLock = true ∨ s.pc u = .g7 ∨ s.pc u = .g8 ∨ s.pc u = .p1 ∨ s.pc u = .p2 ∨ s.pc u = .g1 ∨ s.pc u = .g2) :
    (RM.step s u y).isSome = true := by
  unfold RM.step
  rcases hu with hu | hu | hu | hu | hu | hu | hu
  · revert hu; cases hpc : s.pc u <;> simp [RM.PC.holdsLock] <;> (try split) <;> simp
  all_goals (rw [hu]; simp)

/-- **Who a blocked `GetResource` / `Take` caller waits for** (every `Cfg`): the holder of the flight-group mutex — who is
inside one of its short critical sections and can always take its next step —, the writer of the resource map (rows g7 /
g8: one store, one unlock, always enabled), readers of the map (rows p1 p2 g1 g2 are always enabled:
`rm_critical_section_enabled`; they are counted, not identified), or, in `Wait`, the leader of a flight *for the same
key* that has not called `Done` yet.  Calls on other keys are never waited for. -/
theorem rm_keys_independent_partial {s : RM.St} (h : RM.Reach s) (t : Tid) (x : Nat) (hb : RM.step s t x = none) :
    (∃ u, s.lock = some u ∧ (s.pc u).holdsLock = true ∧ ∀ y, (RM.step s u y).isSome = true) ∨
    (s.pc t = .w1 ∧ ∃ u, s.key u = s.key t ∧ (s.pc u).wgOne = true ∧ s.reg u = s.reg t) ∨
    (∃ u, s.rw = some u ∧ (s.pc u = .g7 ∨ s.pc u = .g8) ∧ ∀ y, (RM.step s u y).isSome = true) ∨
    (s.pc t = .g6 ∧ s.rw = none ∧ s.nrd ≠ 0) := by
  have hi := RM.inv_reach h
  have hl := RM.invL_reach h
  rcases rm_blocked_cases hb with ⟨_, hlk⟩ | ⟨hp, hw⟩ | ⟨_, hrw⟩ | ⟨hp, hg⟩
  · left
    cases hlock : s.lock with
    | none => exact absurd hlock hlk
    | some u => exact ⟨u, rfl, hl.lockr u hlock, fun y => rm_critical_section_enabled s u y (.inl (hl.lockr u hlock))⟩
  · right; left
    refine ⟨hp, s.leader (s.reg t), ?_⟩
    obtain ⟨a1, a2, a4⟩ := hi.waits t (by simp [hp, RM.PC.waits])
    rcases a4 with hlr | ⟨hpub, hreg⟩
    · exact absurd (hi.done _ a1 hlr).2 hw
    · have hown := hi.owns (s.leader (s.reg t)) (by revert hpub; cases s.pc (s.leader (s.reg t)) <;> simp [RM.PC.pubd, RM.PC.owns])
      have hk : s.key (s.leader (s.reg t)) = s.key t := by rw [← hown.2.2.1, hreg, a2]
      refine ⟨hk, ?_, hreg⟩
      have h0 := hi.wg0 (s.leader (s.reg t))
      rw [hreg] at h0
      revert hpub h0
      cases s.pc (s.leader (s.reg t)) <;> simp [RM.PC.pubd, RM.PC.wgOne, RM.PC.after] <;> omega
  · right; right; left
    cases hrwv : s.rw with
    | none => exact absurd hrwv hrw
    | some u =>
      have := hl.rwr u hrwv
      exact ⟨u, rfl, this, fun y => rm_critical_section_enabled s u y (by rcases this with h1 | h1 <;> simp [h1])⟩
  · cases hrwv : s.rw with
    | some u =>
      right; right; left
      have := hl.rwr u hrwv
      exact ⟨u, rfl, this, fun y => rm_critical_section_enabled s u y (by rcases this with h1 | h1 <;> simp [h1])⟩
    | none =>
      right; right; right
      refine ⟨hp, rfl, ?_⟩
      intro h0; exact hg ⟨hrwv, h0⟩

/-- non-vacuity: goroutine 1 joined goroutine 0's flight on key 2 and is blocked in `Wait` while `create` runs. -/
example : (RM.run (RM.init .getResource) (rmDemo.take 16)).map (fun s => (s.pc 1, (RM.step s 1 0).isSome, decide (s.key 1 = s.key 0)))
    = some (.w1, false, true) := by decide


/-! ### Round 5c: the full statements (readers identified: `RM.Readers`, `RM.reader_exists` in ProofsRMX.lean) -/

/-- **Who a blocked `GetResource` / `Take` caller waits for** (every `Cfg`; full statement, as `sf_keys_independent`): the
holder of the flight-group mutex, the writer of the map, or an identified READER of the map — each of whom is inside a
short critical section and can always take its next step — or, in `Wait`, the leader of a flight *for the same key*
that has not called `Done` yet.  Calls on other keys are never waited for. -/
theorem rm_keys_independent {s : RM.St} (h : RM.Reach s) (t : Tid) (x : Nat) (hb : RM.step s t x = none) :
    (∃ u, s.lock = some u ∧ (s.pc u).holdsLock = true ∧ ∀ y, (RM.step s u y).isSome = true) ∨
    (s.pc t = .w1 ∧ ∃ u, s.key u = s.key t ∧ (s.pc u).wgOne = true ∧ s.reg u = s.reg t) ∨
    (∃ u, s.rw = some u ∧ (s.pc u = .g7 ∨ s.pc u = .g8) ∧ ∀ y, (RM.step s u y).isSome = true) ∨
    (s.pc t = .g6 ∧ ∃ u, (s.pc u).isRd = true ∧ ∀ y, (RM.step s u y).isSome = true) := by
  rcases rm_keys_independent_partial h t x hb with a | a | a | ⟨hp, _, hn⟩
  · exact .inl a
  · exact .inr (.inl a)
  · exact .inr (.inr (.inl a))
  · obtain ⟨u, hu⟩ := RM.reader_exists h hn
    refine .inr (.inr (.inr ⟨hp, u, hu, fun y => rm_critical_section_enabled s u y ?_⟩))
    revert hu; cases s.pc u <;> simp [RM.PC.isRd]

/-- **No deadlock, no lost wake-up** for `GetResource` and both `Take` users: whenever some call is in progress, some
goroutine that is inside a call can take a step (for every environment input). -/
theorem rm_no_deadlock {s : RM.St} (h : RM.Reach s) (t : Tid) (ht : s.pc t ≠ .idle) :
    ∃ u, s.pc u ≠ .idle ∧ ∀ y, (RM.step s u y).isSome = true := by
  have indep : ∀ u y z, (RM.step s u y).isSome = true → (RM.step s u z).isSome = true := by
    intro u y z
    unfold RM.step
    cases s.pc u <;> simp <;> (try split) <;> (try split) <;> simp
  -- a blocked goroutine either has an enabled goroutine to wait for, or waits (in `Wait`) for a leader past `Add`
  have blocked : ∀ v, RM.step s v 0 = none →
      (∃ u, s.pc u ≠ .idle ∧ ∀ y, (RM.step s u y).isSome = true) ∨ (s.pc v = .w1 ∧ ∃ u, (s.pc u).wgOne = true) := by
    intro v hv
    rcases rm_keys_independent h v 0 hv with ⟨u, _, hh, he⟩ | ⟨hp, u, _, hw, _⟩ | ⟨u, _, hh, he⟩ | ⟨_, u, hh, he⟩
    · exact .inl ⟨u, by revert hh; cases s.pc u <;> simp [RM.PC.holdsLock], he⟩
    · exact .inr ⟨hp, u, hw⟩
    · exact .inl ⟨u, by rcases hh with hh | hh <;> simp [hh], he⟩
    · exact .inl ⟨u, by revert hh; cases s.pc u <;> simp [RM.PC.isRd], he⟩
  cases hst : RM.step s t 0 with
  | some s' => exact ⟨t, ht, fun y => indep t 0 y (by simp [hst])⟩
  | none =>
    rcases blocked t hst with a | ⟨_, u, hw⟩
    · exact a
    · cases hsu : RM.step s u 0 with
      | some s' => exact ⟨u, by revert hw; cases s.pc u <;> simp [RM.PC.wgOne], fun y => indep u 0 y (by simp [hsu])⟩
      | none =>
        rcases blocked u hsu with a | ⟨hp, _⟩
        · exact a
        · rw [hp] at hw; simp [RM.PC.wgOne] at hw

/-- non-vacuity: goroutine 1 waits for goroutine 0's flight; goroutine 0 (inside `create`) is enabled. -/
example : (RM.run (RM.init .getResource) (rmDemo.take 16)).map
    (fun s => (s.pc 1, (RM.step s 1 0).isSome, s.pc 0, (RM.step s 0 0).isSome)) = some (.w1, false, .g5, true) := by decide

/-! ### Round 5: `ResourceManager.Inject` inside the theorems (`RM.ReachI`: calls and registrations — a registration while
no call is in progress, of a key that holds nothing, with a non-nil resource; this is how mon's `Inject` test hook is
used and how the correspondence runs pre-register resources) -/

/-- with registrations, too, each key gets its instance at most once (a registration counts as the creation) … -/
theorem rm_inject_create_once {s : RM.St} (h : RM.ReachI s) (k : Key) : s.ncreate k ≤ 1 :=
  ((RM.inv_reachI h).r3 k).1

/-- … and everyone is handed that one instance. -/
theorem rm_inject_same_instance {s : RM.St} (h : RM.ReachI s) (r : RRet) (hr : r ∈ s.rets) (hv : r.val ≠ 0) :
    s.ncreate r.key = 1 ∧ r.val = s.inst r.key := by
  have := (RM.inv_reachI h).retsI r hr hv
  exact ⟨this.1, this.2.symm⟩

theorem rm_run_keeps_instance (k : Key) (l : List (Tid × Nat)) : ∀ (s1 s2 : RM.St), RM.ReachI s1 → s1.ncreate k = 1 →
    RM.run s1 l = some s2 → RM.ReachI s2 ∧ s2.ncreate k = 1 ∧ s2.inst k = s1.inst k := by
  induction l with
  | nil => intro s1 s2 h h1 hr; simp [RM.run] at hr; subst hr; exact ⟨h, h1, rfl⟩
  | cons a l ih =>
    intro s1 s2 h h1 hr
    simp only [RM.run] at hr
    split at hr
    · rename_i s' hs'
      have st := RM.inst_stable (RM.inv_reachI h) hs' k h1
      have := ih s' s2 (.step a.1 a.2 h hs') st.1 hr
      exact ⟨this.1, this.2.1, by rw [this.2.2, st.2]⟩
    · simp at hr

/-- **a registered resource is THE instance of its key for ever**: after `Inject(k, v)` (quiescent manager, `k` holds
nothing, `v` not nil) and ANY further schedule, `create` for `k` never succeeds again and every call on `k` that
returns a resource returns `v`. -/
theorem rm_injected_is_handed_out {s s1 s2 : RM.St} {k : Key} {v : Val} (h : RM.ReachI s) (hq : ∀ t, s.pc t = .idle)
    (hk : s.res k = none) (hv : v ≠ 0) (hi : RM.inject s k v = some s1) (l : List (Tid × Nat))
    (hrun : RM.run s1 l = some s2) :
    s2.ncreate k = 1 ∧ s2.inst k = v ∧ ∀ r ∈ s2.rets, r.key = k → r.val ≠ 0 → r.val = v := by
  have h1 : RM.ReachI s1 := .inject k v h hq hk hv hi
  have hs1 : s1.ncreate k = 1 ∧ s1.inst k = v := by
    unfold RM.inject at hi
    split at hi
    · simp at hi; subst hi; simp [upd]
    · simp at hi
  obtain ⟨h2, hn, hin⟩ := rm_run_keeps_instance k l s1 s2 h1 hs1.1 hrun
  refine ⟨hn, by rw [hin, hs1.2], fun r hr hrk hrv => ?_⟩
  have := (rm_inject_same_instance h2 r hr hrv).2
  rw [this, hrk, hin, hs1.2]


/-! ### Round 5c: expiry / eviction / Del (`RM.evict`, `RM.ReachE`: calls and evictions in any order)

An entry may disappear at any time the map's lock is free — `collection.Cache.Del`, the timing wheel's expiry, lru
eviction, `cacheNode.Del`, a redis TTL.  The FLIGHT part of the invariant (`RM.InvF`, ProofsRME.lean) survives it, so the
flight group never becomes a second cache: **never a retained result** — whatever is evicted between a flight's end
and the next call, a caller that does not find the entry in the map is handed the result of an execution of a flight
that is registered (its leader inside it) while the caller is inside its own call; an entry of the flight group exists
only while its leader is inside that very flight.  NOT re-established under eviction (stated per epoch only in the ghost
field `ncreate`, which `evict` resets): the map part — "at most one successful load per key and epoch" and "everyone
gets the epoch's instance" (a caller that read the entry just before it was evicted legitimately returns the old
instance). -/

/-- with evictions, too: what a call returns from a flight is what the single execution of that flight's closure
returned, and that flight was for the caller's key. -/
theorem rm_evict_result_is_execution {s : RM.St} (h : RM.ReachE s) (r : RRet) (hr : r ∈ s.rets) (hd : r.direct = false) :
    r.exec < s.next ∧ s.fnres r.exec = some r.val ∧ s.ekey r.exec = r.key :=
  (RM.invF_reachE h).rets r hr hd

/-- … the flight group holds an entry only while its leader is inside that very flight (so a flight that has ended can
not be joined: the next caller registers a flight of its own and runs the closure — lookup, and on a miss the loader —
again), … -/
theorem rm_evict_cleanup {s : RM.St} (h : RM.ReachE s) (k : Key) (c : CallId) (hc : s.calls k = some c) :
    c < s.next ∧ s.ekey c = k ∧ (s.pc (s.leader c)).inFlight = true ∧ s.reg (s.leader c) = c :=
  (RM.invF_reachE h).calls k c hc

/-- … a joiner only ever waits for / reads a flight that was published for its own key, … -/
theorem rm_evict_joins_own_key {s : RM.St} (h : RM.ReachE s) (u : Tid) (hu : (s.pc u).waits = true) :
    s.ekey (s.reg u) = s.key u ∧ RM.published s (s.reg u) :=
  ⟨((RM.invF_reachE h).waits u hu).2.1, ((RM.invF_reachE h).waits u hu).2.2⟩

/-- … and when no call is in progress the flight group is empty, whatever was loaded or evicted before. -/
theorem rm_evict_quiescent_clean {s : RM.St} (h : RM.ReachE s) (hq : ∀ t, s.pc t = .idle) (k : Key) : s.calls k = none := by
  cases hc : s.calls k with
  | none => rfl
  | some c =>
    have := (rm_evict_cleanup h k c hc).2.2.1
    rw [hq] at this
    simp [RM.PC.inFlight] at this

/-- an eviction starts a new epoch of the key: nothing stored, no load counted. -/
theorem rm_evict_new_epoch {s s' : RM.St} {k : Key} (hs : RM.evict s k = some s') :
    s'.res k = none ∧ s'.ncreate k = 0 ∧ s'.calls = s.calls ∧ s'.cval = s.cval := by
  unfold RM.evict at hs
  split at hs
  · simp at hs; subst hs; simp [upd]
  · simp at hs

/-- non-vacuity (`cacheNode.doTake` / `Cache.Take` alike): goroutine 0 loads 9 for key 2; the entry is evicted; goroutine
1's call — started after the first flight ended — finds nothing retained, runs the loader AGAIN (it returns 11) and is
handed 11, not 9. -/
def evictDemo1 : List (Tid × Nat) := [(0,2)] ++ List.replicate 11 (0,0) ++ [(0,9)] ++ List.replicate 9 (0,0)
def evictDemo2 : List (Tid × Nat) := [(1,2)] ++ List.replicate 11 (1,0) ++ [(1,11)] ++ List.replicate 9 (1,0)

example : (((RM.run (RM.init .doTake) evictDemo1).bind fun s => RM.evict s 2).bind fun s => RM.run s evictDemo2).map
    (fun s => (s.rets.map fun r => (r.tid, r.key, r.val), s.res 2, s.ncreate 2, (s.calls 2).isNone))
    = some ([(1, 2, 11), (0, 2, 9)], some 11, 1, true) := by decide


/-! ### Round 5c: a loader that returns `(nil, nil)` — what the code does (`RM.nilInst`)

The nil instance is stored and shared like any instance (so every `rm_*` theorem covers it: one load, everyone "gets"
it); users that assert the type after the flight (`Cfg.asrt`: `GetResource`, `doTake`) panic instead of returning it —
leader, joiners and, because the key now holds it, every later caller: the key is poisoned; `collection.Cache.Take`
hands `(nil, nil)` to everyone. -/

theorem rm_nil_leader_panics (s : RM.St) (t : Tid) (x : Nat) (hpc : s.pc t = .r0) (hv : s.cval (s.reg t) = RM.nilInst)
    (ha : s.cfg.asrt = true) : (RM.step s t x).map (fun s' => (s'.pc t, s'.rets)) = some (.idle, s.rets) := by
  unfold RM.step; rw [hpc]; simp [hv, ha, upd]

theorem rm_nil_joiner_panics (s : RM.St) (t : Tid) (x : Nat) (hpc : s.pc t = .w2) (hv : s.cval (s.reg t) = RM.nilInst)
    (ha : s.cfg.asrt = true) : (RM.step s t x).map (fun s' => (s'.pc t, s'.rets)) = some (.idle, s.rets) := by
  unfold RM.step; rw [hpc]; simp [hv, ha, upd]

theorem rm_nil_returned_without_assertion (s : RM.St) (t : Tid) (x : Nat) (hpc : s.pc t = .r0)
    (hv : s.cval (s.reg t) = RM.nilInst) (ha : s.cfg.asrt = false) :
    ((RM.step s t x).bind (·.rets.head?)).map (·.val) = some RM.nilInst := by
  unfold RM.step; rw [hpc]; simp [hv, ha]

def RM.PC.front : RM.PC → Bool
  | .p0 | .p1 | .p2 | .p3 => true
  | _ => false

/-- **nobody who asserts the type is ever handed the nil instance** (`GetResource`, `doTake`: `asrt`, no lookup in front of
the flight): on every schedule every returned call returned something else — the callers of a key that holds the nil
instance panic instead (`rm_nil_leader_panics`, `rm_nil_joiner_panics`). -/
theorem rm_nil_never_returned_asserted {s : RM.St} (h : RM.Reach s) (ha : s.cfg.asrt = true) (hp : s.cfg.pre = false) :
    (∀ t, (s.pc t).front = false) ∧ ∀ r ∈ s.rets, r.val ≠ RM.nilInst := by
  induction h with
  | init cfg => simp [RM.init, RM.PC.front]
  | step t x hr hs ih =>
    rename_i s0 s1
    have hc := rm_cfg_constant hs
    rw [hc] at ha hp
    obtain ⟨i1, i2⟩ := ih ha hp
    have it := i1 t
    unfold RM.step at hs
    split at hs <;> (try split at hs) <;> simp at hs <;> (try subst hs) <;>
      simp_all [upd, RM.PC.front] <;> (try (intro u; by_cases hu : u = t <;> simp_all [RM.PC.front]))

/-- the poisoned key (`GetResource`): goroutine 0's `create` returns `(nil, nil)` — it is stored, goroutine 0 panics;
goroutine 1 comes later, finds the nil instance in the map and panics, too: nobody ever returns. -/
example : (RM.run (RM.init .getResource) ([(0,2)] ++ List.replicate 11 (0,0) ++ [(0,1)] ++ List.replicate 9 (0,0) ++
    [(1,2)] ++ List.replicate 16 (1,0))).map (fun s => (s.rets.length, s.res 2, s.ncreate 2, s.pc 0, s.pc 1))
    = some (0, some 1, 1, .idle, .idle) := by decide
/-- `collection.Cache.Take`: the same schedule hands the nil value to both. -/
example : (RM.run (RM.init .cacheTake) ([(0,2)] ++ List.replicate 15 (0,0) ++ [(0,1)] ++ List.replicate 9 (0,0) ++
    [(1,2)] ++ List.replicate 4 (1,0))).map (fun s => (s.rets.map fun r => (r.tid, r.val, r.direct), s.res 2))
    = some ([(1, 1, true), (0, 1, false)], some 1) := by decide

end GoZero.C07
