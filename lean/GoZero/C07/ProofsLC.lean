/-
C07 — LockedCalls: the inductive invariant of the interleaving model and its preservation by every step.
-/
import GoZero.C07.LC
namespace GoZero.C07.LC

def PC.holdsLock : PC → Bool
  | .b1 | .b2 | .c0 | .c1 | .c2 | .c3 | .e1 | .e2 => true
  | _ => false
/-- the caller's wait group is registered in `lg.m` -/
def PC.inFlight : PC → Bool
  | .c3 | .f0 | .f1 | .fp | .e0 | .e1 => true
  | _ => false
def PC.preReg : PC → Bool
  | .c0 | .c1 | .c2 => true
  | _ => false
/-- the goroutine owns a wait group it allocated and has not released yet -/
def PC.owns : PC → Bool
  | .c1 | .c2 | .c3 | .f0 | .f1 | .fp | .e0 | .e1 | .e2 | .e3 => true
  | _ => false
def PC.wgOne : PC → Bool
  | .c2 | .c3 | .f0 | .f1 | .fp | .e0 | .e1 | .e2 | .e3 => true
  | _ => false
/-- before the own function has started -/
def PC.notRun : PC → Bool
  | .b0 | .b1 | .b2 | .b3 | .c0 | .c1 | .c2 | .c3 | .f0 => true
  | _ => false
def PC.ranOnce : PC → Bool
  | .f1 | .fp | .e0 | .e1 | .e2 | .e3 | .e4 | .px => true
  | _ => false

structure Inv (s : St) : Prop where
  lock   : ∀ u, (s.pc u).holdsLock = true → s.lock = some u
  lockr  : ∀ u, s.lock = some u → (s.pc u).holdsLock = true
  flight : ∀ u, (s.pc u).inFlight = true → s.m (s.key u) = some (s.reg u)
  prereg : ∀ u, (s.pc u).preReg = true → s.m (s.key u) = none
  owns   : ∀ u, (s.pc u).owns = true → s.reg u < s.next ∧ s.owner (s.reg u) = u
  wg1    : ∀ u, (s.pc u).wgOne = true → s.wg (s.reg u) = 1
  wg0    : ∀ u, s.pc u = .c1 → s.wg (s.reg u) = 0
  m      : ∀ k w, s.m k = some w → w < s.next ∧ (s.pc (s.owner w)).inFlight = true ∧ s.reg (s.owner w) = w
              ∧ s.key (s.owner w) = k
  /-- a wait group somebody still waits on: its counter is non-zero only while its owner (same key) is busy -/
  waits  : ∀ u, s.pc u = .b2 ∨ s.pc u = .b3 → s.reg u < s.next ∧
              ((s.pc (s.owner (s.reg u)) = .c1 ∨ s.pc (s.owner (s.reg u)) = .c2) → s.reg (s.owner (s.reg u)) ≠ s.reg u) ∧
              (s.wg (s.reg u) ≠ 0 → (s.pc (s.owner (s.reg u))).wgOne = true ∧ s.reg (s.owner (s.reg u)) = s.reg u
                  ∧ s.key (s.owner (s.reg u)) = s.key u)
  wgfree : ∀ w, w < s.next → s.wg w ≠ 0 → (s.pc (s.owner w)).wgOne = true ∧ s.reg (s.owner w) = w
  notrun : ∀ u, (s.pc u).notRun = true → s.runs u = 0
  ranonce : ∀ u, (s.pc u).ranOnce = true → s.runs u = 1
  tinv   : ∀ u, s.pc u ≠ .idle → s.inv u < s.now
  rets   : ∀ r ∈ s.rets, r.runs = 1 ∧ r.val = r.own ∧ r.inv < r.ret ∧ r.ret < s.now

theorem inv_init : Inv init := by
  constructor <;> simp [init, PC.holdsLock, PC.inFlight, PC.preReg, PC.owns, PC.wgOne, PC.notRun, PC.ranOnce]

macro "step_cases" hs:ident : tactic =>
  `(tactic| (unfold step at $hs:ident; split at $hs:ident <;> (try split at $hs:ident) <;> simp at $hs:ident <;> (try subst $hs:ident)))

macro "close_step" hs:ident : tactic =>
  `(tactic| (step_cases $hs:ident <;>
      simp [upd, PC.holdsLock, PC.inFlight, PC.preReg, PC.owns, PC.wgOne, PC.notRun, PC.ranOnce] at * <;> grind))

variable {s s' : St} {t : Tid} {x : Nat}

theorem lock_step (h : Inv s) (hs : step s t x = some s') :
    ∀ u, (s'.pc u).holdsLock = true → s'.lock = some u := by
  intro u hu
  have h1 := h.lock u
  have h2 := h.lock t
  close_step hs

theorem lockr_step (h : Inv s) (hs : step s t x = some s') :
    ∀ u, s'.lock = some u → (s'.pc u).holdsLock = true := by
  intro u hu
  have h1 := h.lockr u
  have h2 := h.lock t
  close_step hs

theorem flight_step (h : Inv s) (hs : step s t x = some s') :
    ∀ u, (s'.pc u).inFlight = true → s'.m (s'.key u) = some (s'.reg u) := by
  intro u hu
  have h1 := h.flight u
  have h2 := h.flight t
  have h3 := h.prereg u
  have h4 := h.prereg t
  have h5 := h.lock u
  have h6 := h.lock t
  have h7 := h.owns u
  have h8 := h.owns t
  close_step hs

theorem prereg_step (h : Inv s) (hs : step s t x = some s') :
    ∀ u, (s'.pc u).preReg = true → s'.m (s'.key u) = none := by
  intro u hu
  have h3 := h.prereg u
  have h4 := h.prereg t
  have h5 := h.lock u
  have h6 := h.lock t
  close_step hs

theorem owns_step (h : Inv s) (hs : step s t x = some s') :
    ∀ u, (s'.pc u).owns = true → s'.reg u < s'.next ∧ s'.owner (s'.reg u) = u := by
  intro u hu
  have h7 := h.owns u
  have h8 := h.owns t
  close_step hs

theorem wg1_step (h : Inv s) (hs : step s t x = some s') :
    ∀ u, (s'.pc u).wgOne = true → s'.wg (s'.reg u) = 1 := by
  intro u hu
  have h1 := h.wg1 u
  have h2 := h.wg1 t
  have h3 := h.wg0 u
  have h4 := h.wg0 t
  have h7 := h.owns u
  have h8 := h.owns t
  close_step hs

theorem wg0_step (h : Inv s) (hs : step s t x = some s') :
    ∀ u, s'.pc u = .c1 → s'.wg (s'.reg u) = 0 := by
  intro u hu
  have h3 := h.wg0 u
  have h4 := h.wg0 t
  have h7 := h.owns u
  have h8 := h.owns t
  close_step hs

theorem m_step (h : Inv s) (hs : step s t x = some s') :
    ∀ k w, s'.m k = some w → w < s'.next ∧ (s'.pc (s'.owner w)).inFlight = true ∧ s'.reg (s'.owner w) = w
      ∧ s'.key (s'.owner w) = k := by
  intro k w hw
  have h1 := h.m k w
  have h2 := h.flight t
  have h3 := h.owns t
  have h4 := h.owns (s.owner w)
  close_step hs

theorem wgfree_step (h : Inv s) (hs : step s t x = some s') :
    ∀ w, w < s'.next → s'.wg w ≠ 0 → (s'.pc (s'.owner w)).wgOne = true ∧ s'.reg (s'.owner w) = w := by
  intro w hw hz
  have h1 := h.wgfree w
  have h2 := h.owns t
  have h3 := h.wg1 t
  have h4 := h.wg0 t
  close_step hs

theorem waits_step (h : Inv s) (hs : step s t x = some s') :
    ∀ u, s'.pc u = .b2 ∨ s'.pc u = .b3 → s'.reg u < s'.next ∧
      ((s'.pc (s'.owner (s'.reg u)) = .c1 ∨ s'.pc (s'.owner (s'.reg u)) = .c2) → s'.reg (s'.owner (s'.reg u)) ≠ s'.reg u) ∧
      (s'.wg (s'.reg u) ≠ 0 → (s'.pc (s'.owner (s'.reg u))).wgOne = true ∧ s'.reg (s'.owner (s'.reg u)) = s'.reg u
          ∧ s'.key (s'.owner (s'.reg u)) = s'.key u) := by
  intro u hu
  have h1 := h.waits u
  have h2 := h.owns t
  have h3 := h.wg1 t
  have h4 := h.wg0 t
  have h5 := h.wgfree (s.reg u)
  rcases hc : s.m (s.key t) with _ | w
  · close_step hs
  · have h6 := h.m (s.key t) w hc
    have h7 := h.owns (s.owner w)
    have h8 := h.wgfree w
    close_step hs

theorem notrun_step (h : Inv s) (hs : step s t x = some s') : ∀ u, (s'.pc u).notRun = true → s'.runs u = 0 := by
  intro u hu
  have h1 := h.notrun u
  have h2 := h.notrun t
  close_step hs

theorem ranonce_step (h : Inv s) (hs : step s t x = some s') : ∀ u, (s'.pc u).ranOnce = true → s'.runs u = 1 := by
  intro u hu
  have h1 := h.ranonce u
  have h2 := h.ranonce t
  have h3 := h.notrun t
  close_step hs

theorem tinv_step (h : Inv s) (hs : step s t x = some s') : ∀ u, s'.pc u ≠ .idle → s'.inv u < s'.now := by
  intro u hu
  have h1 := h.tinv u
  have h2 := h.tinv t
  close_step hs

theorem rets_step (h : Inv s) (hs : step s t x = some s') :
    ∀ r ∈ s'.rets, r.runs = 1 ∧ r.val = r.own ∧ r.inv < r.ret ∧ r.ret < s'.now := by
  intro r hr
  have h1 := h.rets r
  have h2 := h.ranonce t
  have h3 := h.tinv t
  close_step hs

theorem inv_step (h : Inv s) (hs : step s t x = some s') : Inv s' :=
  ⟨lock_step h hs, lockr_step h hs, flight_step h hs, prereg_step h hs, owns_step h hs, wg1_step h hs, wg0_step h hs,
   m_step h hs, waits_step h hs, wgfree_step h hs, notrun_step h hs, ranonce_step h hs, tinv_step h hs, rets_step h hs⟩

theorem inv_reach {s : St} (h : Reach s) : Inv s := by
  induction h with
  | init => exact inv_init
  | step t x _ hs ih => exact inv_step ih hs

theorem step_flow (hs : step s t x = some s') : s'.pc t ∈ succ (s.pc t) ∧ ∀ u, u ≠ t → s'.pc u = s.pc u := by
  step_cases hs <;> simp_all [upd, succ]

end GoZero.C07.LC
