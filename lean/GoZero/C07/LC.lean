/-
C07 — executable small-step model of core/syncx/lockedcalls.go (core Lean only). See Basic.lean for the conventions.
-/
import GoZero.C07.Basic
namespace GoZero.C07

/-! ## LockedCalls (core/syncx/lockedcalls.go) -/

/-- one returned LockedCalls call (ghost record). -/
structure LRet where
  tid  : Tid
  key  : Key
  inv  : Nat
  ret  : Nat
  val  : Val     -- what the call returned
  own  : Val     -- what the caller's own function returned (last execution)
  runs : Nat     -- how often the caller's own function was executed during this call
  deriving Repr, DecidableEq

namespace LC

/-- program counters of `lockedGroup.Do` with `makeCall` inlined.
```
idle  (caller invokes Do with a key)
b0    begin: lg.mu.Lock()
b1    if wg, ok := lg.m[key]; ok {
b2        lg.mu.Unlock()
b3        wg.Wait()
          goto begin
c0    var wg sync.WaitGroup
c1    wg.Add(1)
c2    lg.m[key] = &wg
c3    lg.mu.Unlock()
f0    fn starts            (return fn(): the result is evaluated before the deferred block runs;
                            environment input ≠ 0: this execution is going to panic → fp)
f1    fn returns
fp    fn panics: the deferred block runs, then the panic propagates
e0    (deferred) lg.mu.Lock()
e1    delete(lg.m, key)
e2    lg.mu.Unlock()
e3    wg.Done()
e4    return
px    (after the deferred block of a panicking fn) the panic leaves Do: the call ends without returning
``` -/
inductive PC
  | idle | b0 | b1 | b2 | b3 | c0 | c1 | c2 | c3 | f0 | f1 | fp | e0 | e1 | e2 | e3 | e4 | px
  deriving DecidableEq, Repr

structure St where
  lock  : Option Tid            -- lg.mu
  m     : Key → Option Nat      -- lg.m : key -> wait group
  wg    : Nat → Nat             -- wait-group counters
  next  : Nat                   -- allocation counter of `var wg`
  pc    : Tid → PC
  key   : Tid → Key
  reg   : Tid → Nat             -- the wait group in hand (found one, or own)
  tmp   : Tid → Val             -- fn's result
  pn    : Tid → Bool            -- the goroutine is unwinding a panic of its fn
  -- ghost
  now   : Nat
  inv   : Tid → Nat
  runs  : Tid → Nat             -- executions of the caller's own fn in the current call
  owner : Nat → Tid             -- who allocated the wait group
  ekey   : Nat → Key            -- the key it was allocated for
  fstart : Nat → Option Nat     -- clock when the owner's fn started / ended (one execution per wait group)
  fend   : Nat → Option Nat
  rets  : List LRet

def init : St :=
  { lock := none, m := fun _ => none, wg := fun _ => 0, next := 0, pc := fun _ => .idle, key := fun _ => 0,
    reg := fun _ => 0, tmp := fun _ => 0, pn := fun _ => false, now := 0, inv := fun _ => 0, runs := fun _ => 0, owner := fun _ => 0,
    ekey := fun _ => 0, fstart := fun _ => none, fend := fun _ => none, rets := [] }

def step (s : St) (t : Tid) (x : Nat) : Option St :=
  match s.pc t with
  | .idle => some { s with pc := upd s.pc t .b0, key := upd s.key t x, inv := upd s.inv t s.now,
                           runs := upd s.runs t 0, pn := upd s.pn t false, now := s.now + 1 }
  | .b0 => if s.lock = none then some { s with lock := some t, pc := upd s.pc t .b1, now := s.now + 1 } else none
  | .b1 =>
    match s.m (s.key t) with
    | some w => some { s with reg := upd s.reg t w, pc := upd s.pc t .b2, now := s.now + 1 }
    | none => some { s with pc := upd s.pc t .c0, now := s.now + 1 }
  | .b2 => some { s with lock := none, pc := upd s.pc t .b3, now := s.now + 1 }
  | .b3 => if s.wg (s.reg t) = 0 then some { s with pc := upd s.pc t .b0, now := s.now + 1 } else none
  | .c0 => some { s with reg := upd s.reg t s.next, next := s.next + 1, wg := upd s.wg s.next 0,
                         owner := upd s.owner s.next t, ekey := upd s.ekey s.next (s.key t),
                         fstart := upd s.fstart s.next none, fend := upd s.fend s.next none,
                         pc := upd s.pc t .c1, now := s.now + 1 }
  | .c1 => some { s with wg := upd s.wg (s.reg t) (s.wg (s.reg t) + 1), pc := upd s.pc t .c2, now := s.now + 1 }
  | .c2 => some { s with m := upd s.m (s.key t) (some (s.reg t)), pc := upd s.pc t .c3, now := s.now + 1 }
  | .c3 => some { s with lock := none, pc := upd s.pc t .f0, now := s.now + 1 }
  | .f0 => if x = 0 then some { s with runs := upd s.runs t (s.runs t + 1), fstart := upd s.fstart (s.reg t) (some s.now),
                                       pc := upd s.pc t .f1, now := s.now + 1 }
           else some { s with runs := upd s.runs t (s.runs t + 1), fstart := upd s.fstart (s.reg t) (some s.now),
                              pc := upd s.pc t .fp, now := s.now + 1 }
  | .f1 => some { s with tmp := upd s.tmp t x, fend := upd s.fend (s.reg t) (some s.now), pc := upd s.pc t .e0,
                         now := s.now + 1 }
  | .fp => some { s with pn := upd s.pn t true, fend := upd s.fend (s.reg t) (some s.now), pc := upd s.pc t .e0,
                         now := s.now + 1 }
  | .e0 => if s.lock = none then some { s with lock := some t, pc := upd s.pc t .e1, now := s.now + 1 } else none
  | .e1 => some { s with m := upd s.m (s.key t) none, pc := upd s.pc t .e2, now := s.now + 1 }
  | .e2 => some { s with lock := none, pc := upd s.pc t .e3, now := s.now + 1 }
  | .e3 => if s.pn t = true then some { s with wg := upd s.wg (s.reg t) (s.wg (s.reg t) - 1), pc := upd s.pc t .px, now := s.now + 1 }
           else some { s with wg := upd s.wg (s.reg t) (s.wg (s.reg t) - 1), pc := upd s.pc t .e4, now := s.now + 1 }
  | .e4 => some { s with pc := upd s.pc t .idle, now := s.now + 1,
                         rets := { tid := t, key := s.key t, inv := s.inv t, ret := s.now, val := s.tmp t,
                                   own := s.tmp t, runs := s.runs t } :: s.rets }
  | .px => some { s with pc := upd s.pc t .idle, pn := upd s.pn t false, now := s.now + 1 }

def stmt : PC → String
  | .idle => "invoke"
  | .b0 => "call lg.mu.Lock()"
  | .b1 => "mapget lg.m[key]"
  | .b2 => "call lg.mu.Unlock()"
  | .b3 => "call wg.Wait()"
  | .c0 => "var wg"
  | .c1 => "call wg.Add(1)"
  | .c2 => "mapset lg.m[key] = &wg"
  | .c3 => "call lg.mu.Unlock()"
  | .f0 => "call fn()"
  | .f1 => "fn returns"
  | .fp => "fn panics"
  | .e0 => "call lg.mu.Lock()"
  | .e1 => "delete lg.m[key]"
  | .e2 => "call lg.mu.Unlock()"
  | .e3 => "call wg.Done()"
  | .e4 => "return <call>"
  | .px => "panic propagates"

def succ : PC → List PC
  | .idle => [.b0] | .b0 => [.b1] | .b1 => [.b2, .c0] | .b2 => [.b3] | .b3 => [.b0]
  | .c0 => [.c1] | .c1 => [.c2] | .c2 => [.c3] | .c3 => [.f0] | .f0 => [.f1, .fp] | .f1 => [.e0] | .fp => [.e0]
  | .e0 => [.e1] | .e1 => [.e2] | .e2 => [.e3] | .e3 => [.e4, .px] | .e4 => [.idle] | .px => [.idle]

def run (s : St) : List (Tid × Nat) → Option St
  | [] => some s
  | (t, x) :: rest => match step s t x with
    | some s' => run s' rest
    | none => none

inductive Reach : St → Prop
  | init : Reach init
  | step {s s' : St} (t : Tid) (x : Nat) : Reach s → step s t x = some s' → Reach s'

end LC
end GoZero.C07
