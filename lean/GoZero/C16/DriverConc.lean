/-
C16 — driver for the concurrency harness (TestVerifC16Conc, built with -race).
One section = one concurrent run on one real object; one line = one call
    c id=… g=… y=… op=… [k=…] [v=…] [f=…] [ly=…]  =>  inv=<stamp> ret=<stamp> res=<…> [calls=… ls=… le=…]
The stamps come from one atomic counter, taken before the call and after it returned: if `a.ret < b.inv` then `a`
really finished before `b` started.  The monitors only use that implication, so every alarm is a real violation of
"behaves as its sequential reference model" under the lock (linearizability: Props.lean `conc_calls_atomic`);
silence is not a proof (that is the theorems' job).
-/
import GoZero.Base.Trace
namespace GoZero.C16
open GoZero

structure CEv where
  line  : Nat
  id    : Nat
  g     : Int
  op    : String
  k     : Nat
  v     : Nat
  fail  : Bool
  inv   : Nat
  ret   : Nat
  res   : String
  calls : Nat
  ls    : Nat
  le    : Nat
  deriving Repr, Inhabited

def parseCEv (l : Line) : Option CEv :=
  match l.op with
  | "c" :: rest =>
    match kv? rest "id", kv? rest "op", kv? l.obs "inv", kv? l.obs "ret", kv? l.obs "res" with
    | some id, some op, some inv, some ret, some res =>
      match id.toNat?, inv.toNat?, ret.toNat? with
      | some id, some inv, some ret =>
        some { line := l.idx, id := id, g := kvInt rest "g" 0, op := op, k := kvNat rest "k" 0, v := kvNat rest "v" 0,
               fail := kvNat rest "f" 0 = 1, inv := inv, ret := ret, res := res, calls := kvNat l.obs "calls" 0,
               ls := kvNat l.obs "ls" 0, le := kvNat l.obs "le" 0 }
      | _, _, _ => none
    | _, _, _, _, _ => none
  | _ => none

def resNat (s : String) : Option Nat := if s = "none" ∨ s = "-" then none else s.toNat?

/-- number of leading elements whose `ret` is below `t` (the array is ordered by time) -/
def countBefore (ws : Array (Nat × Nat × Option Nat)) (t : Nat) : Nat := Id.run do
  let mut lo := 0
  let mut hi := ws.size
  for _ in [0:64] do
    if lo < hi then
      let mid := (lo + hi) / 2
      if (ws[mid]!).2.1 < t then lo := mid + 1 else hi := mid
  return lo

/-- outcomes a read of one key may see: the last write that finished before the read began (or the empty map),
and every write that overlaps the read -/
def admissible (ws : Array (Nat × Nat × Option Nat)) (inv ret : Nat) : List (Option Nat) := Id.run do
  let n0 := countBefore ws inv
  let mut out : List (Option Nat) := [if n0 = 0 then none else (ws[n0 - 1]!).2.2]
  let mut j := n0
  for _ in [0:ws.size] do
    if j < ws.size ∧ (ws[j]!).1 < ret then
      out := (ws[j]!).2.2 :: out
      j := j + 1
  return out

def optStr : Option Nat → String
  | none => "none"
  | some v => toString v

/-- `k:v,k:v` -/
def parsePairs (s : String) : Option (List (Nat × Nat)) :=
  if s = "-" then some [] else
  (s.splitOn ",").mapM fun t =>
    match t.splitOn ":" with
    | [a, b] => do pure ((← a.toNat?), (← b.toNat?))
    | _ => none

def parseList (s : String) : Option (List Nat) :=
  if s = "-" then some [] else (s.splitOn ",").mapM (·.toNat?)

/-! ### SafeMap -/

def monCMap (r : Report) (s : Section) (evs : Array CEv) : Report := Id.run do
  let mut r := r
  -- writes per key, in file order (= program order of the key's only writer)
  let mut keys : List Nat := []
  let mut owner : List (Nat × Int) := []
  let mut shared : List Nat := []
  for e in evs do
    if e.op = "set" ∨ e.op = "del" then
      if ¬ keys.contains e.k then keys := e.k :: keys
      match owner.lookup e.k with
      | none => owner := (e.k, e.g) :: owner
      | some g => if g ≠ e.g ∧ ¬ shared.contains e.k then shared := e.k :: shared
  let writesOf := fun (k : Nat) =>
    evs.foldl (fun (acc : Array (Nat × Nat × Option Nat)) e =>
      if e.k = k ∧ e.op = "set" then acc.push (e.inv, e.ret, some e.v)
      else if e.k = k ∧ e.op = "del" then acc.push (e.inv, e.ret, none) else acc) #[]
  let tbl : List (Nat × Array (Nat × Nat × Option Nat)) := keys.map fun k => (k, writesOf k)
  for e in evs do
    if e.op = "get" then
      let ws := (tbl.lookup e.k).getD #[]
      if shared.contains e.k then r := r.addCover "cmap-get-sharedkey" else
      let adm := admissible ws e.inv e.ret
      let got := resNat e.res
      r := r.addCover (if adm.length > 1 then "cmap-get-overlaps-write" else "cmap-get")
      if ¬ adm.contains got then
        r := r.violation s.idx e.line s!"struct=safemap concurrent Get k={e.k} returned {optStr got}; possible under the lock: {adm.map optStr}"
    else if e.op = "range" then
      if e.res.startsWith "dup" then
        r := r.violation s.idx e.line s!"struct=safemap concurrent Range handed a key to the callback twice: {e.res}"
      else match parsePairs e.res with
      | none => r := r.mismatch s.idx e.line "k:v,…" e.res
      | some ps =>
        r := r.addCover (if e.g < 0 then "cmap-range-final" else "cmap-range")
        for p in ps do
          if ¬ keys.contains p.1 then
            r := r.violation s.idx e.line s!"struct=safemap concurrent Range produced key {p.1} that was never set"
        for (k, ws) in tbl do
          if ¬ shared.contains k then
            let adm := admissible ws e.inv e.ret
            let got := ps.lookup k
            if adm.length > 1 then r := r.addCover "cmap-range-overlaps-write"
            if ¬ adm.contains got then
              r := r.violation s.idx e.line s!"struct=safemap concurrent Range saw k={k} as {optStr got}; possible under the lock: {adm.map optStr}"
    else if e.op = "size" then
      match e.res.toNat? with
      | none => r := r.mismatch s.idx e.line "a number" e.res
      | some n =>
        let mut lo := 0
        let mut hi := 0
        for (k, ws) in tbl do
          let adm := if shared.contains k then [none, some 0] else admissible ws e.inv e.ret
          if adm.all (·.isSome) then lo := lo + 1
          if adm.any (·.isSome) then hi := hi + 1
        r := r.addCover (if lo = hi then "cmap-size-exact" else "cmap-size-range")
        if n < lo ∨ n > hi then
          r := r.violation s.idx e.line s!"struct=safemap concurrent Size returned {n}; possible under the lock: {lo}..{hi}"
    else if e.op = "set" ∨ e.op = "del" then
      r := r.addCover (if e.op = "set" then "cmap-set" else "cmap-del")
    else r := r.mismatch s.idx e.line "cmap op" e.op
  if kvNat s.cfg "long" 0 = 1 then r := r.addCover "cmap-long-section-with-migration"
  return r

/-! ### Queue -/

def monCQueue (r : Report) (s : Section) (evs : Array CEv) : Report := Id.run do
  let mut r := r
  let puts := evs.filter (·.op = "put")
  let takes := evs.filter (·.op = "take")
  let takeOf := fun (v : Nat) => takes.find? fun t => resNat t.res = some v
  -- every taken value was put, once
  let mut seen : List Nat := []
  for t in takes do
    match resNat t.res with
    | none =>
      r := r.addCover (if t.g < 0 then "cqueue-take-final-empty" else "cqueue-take-empty")
      -- Take found the queue empty although a value was in it during the whole call
      for p in puts do
        if p.ret < t.inv then
          match takeOf p.v with
          | none => r := r.violation s.idx t.line s!"struct=queue concurrent Take returned none but {p.v} was put before and never taken"
          | some t' =>
            if t'.inv > t.ret then
              r := r.violation s.idx t.line s!"struct=queue concurrent Take returned none but {p.v} was in the queue (put before, taken after)"
    | some v =>
      r := r.addCover "cqueue-take"
      if seen.contains v then
        r := r.violation s.idx t.line s!"struct=queue concurrent Take returned {v} twice"
      seen := v :: seen
      match puts.find? (·.v = v) with
      | none => r := r.violation s.idx t.line s!"struct=queue concurrent Take returned {v} that was never put"
      | some p =>
        if ¬ p.inv < t.ret then
          r := r.violation s.idx t.line s!"struct=queue concurrent Take returned {v} before it was put"
  -- FIFO: a put entirely before b  ⇒  b is not taken entirely before a
  for a in puts do
    match takeOf a.v with
    | none => pure ()
    | some ta =>
      for b in puts do
        if a.ret < b.inv then
          match takeOf b.v with
          | none => pure ()
          | some tb =>
            if a.g = b.g then r := r.addCover "cqueue-fifo-pair-same-producer" else r := r.addCover "cqueue-fifo-pair"
            if tb.ret < ta.inv then
              r := r.violation s.idx tb.line s!"struct=queue concurrent FIFO order broken: {a.v} was put before {b.v} but {b.v} was taken first"
  -- Empty
  for e in evs do
    if e.op = "empty" then
      if e.res = "true" then
        r := r.addCover "cqueue-empty-true"
        for p in puts do
          if p.ret < e.inv then
            let gone : Bool := match takeOf p.v with | none => false | some t' => decide (t'.inv ≤ e.ret)
            if gone = false then
              r := r.violation s.idx e.line s!"struct=queue concurrent Empty returned true but {p.v} was in the queue"
      else if e.res = "false" then
        r := r.addCover "cqueue-empty-false"
        let allGone := puts.all fun p => decide (e.ret ≤ p.inv) || (match takeOf p.v with | none => false | some t' => decide (t'.ret < e.inv))
        if allGone then
          r := r.violation s.idx e.line s!"struct=queue concurrent Empty returned false but every value put so far had been taken"
      else r := r.mismatch s.idx e.line "true|false" e.res
    else if e.op ≠ "put" ∧ e.op ≠ "take" then r := r.mismatch s.idx e.line "cqueue op" e.op
  return r

/-! ### Ring -/

def monCRing (r : Report) (s : Section) (evs : Array CEv) : Report := Id.run do
  let mut r := r
  let n := kvNat s.cfg "n" 1
  let adds := evs.filter (·.op = "add")
  for e in evs do
    if e.op = "take" then
      match parseList e.res with
      | none => r := r.mismatch s.idx e.line "v,v,…" e.res
      | some vs =>
        r := r.addCover (if e.g < 0 then "cring-take-final" else if vs.length = n then "cring-take-full" else "cring-take-partial")
        if vs.length > n then
          r := r.violation s.idx e.line s!"struct=ring concurrent Take returned {vs.length} elements, n={n}"
        let before := (adds.filter (·.ret < e.inv)).size
        let started := (adds.filter (·.inv < e.ret)).size
        if vs.length < min n before ∨ vs.length > started then
          r := r.violation s.idx e.line s!"struct=ring concurrent Take returned {vs.length} elements; {before} adds had finished, {started} had started, n={n}"
        if ¬ vs.Nodup then
          r := r.violation s.idx e.line s!"struct=ring concurrent Take returned an element twice: {e.res}"
        -- every element was added, in an order compatible with real time
        let evOf := fun (v : Nat) => adds.find? (·.v = v)
        let mut prev : Option CEv := none
        for v in vs do
          match evOf v with
          | none => r := r.violation s.idx e.line s!"struct=ring concurrent Take returned {v} that was never added"
          | some a =>
            if ¬ a.inv < e.ret then
              r := r.violation s.idx e.line s!"struct=ring concurrent Take returned {v} before it was added"
            match prev with
            | some p =>
              if a.ret < p.inv then
                r := r.violation s.idx e.line s!"struct=ring concurrent Take order: {p.v} before {a.v}, but {a.v} was added first"
            | none => pure ()
            prev := some a
            -- a later add that finished before the Take began cannot be missing
            for b in adds do
              if a.ret < b.inv ∧ b.ret < e.inv ∧ ¬ vs.contains b.v then
                r := r.violation s.idx e.line s!"struct=ring concurrent Take holds {a.v} but not the later {b.v}"
    else if e.op = "held" then
      r := r.addCover "cring-held-slices-rechecked"
      if e.res ≠ "same" then
        r := r.violation s.idx e.line s!"struct=ring a slice returned by Take changed after later Adds: {e.res}"
    else if e.op = "add" then r := r.addCover "cring-add"
    else r := r.mismatch s.idx e.line "cring op" e.op
  return r

/-! ### Cache.Take -/

def monCTake (r : Report) (s : Section) (evs : Array CEv) : Report := Id.run do
  let mut r := r
  let takes := evs.filter (·.op = "take")
  let loads := takes.filter (·.calls > 0)
  let keys := (evs.toList.map (·.k)).eraseDups
  -- per call
  for t in takes do
    if t.calls > 1 then
      r := r.violation s.idx t.line s!"struct=cache concurrent Take k={t.k} called its loader {t.calls} times"
    r := r.addCover (if t.calls = 0 then (if t.res = "err" then "ctake-shared-error" else "ctake-hit-or-shared")
                     else if t.fail then "ctake-load-fails" else "ctake-load")
    -- the result is a value somebody produced for this key
    match resNat t.res with
    | some v =>
      let fromLoad := loads.any fun l => l.k = t.k ∧ l.v = v ∧ ¬ l.fail ∧ l.ls < t.ret
      let fromSet := evs.any fun e => e.op = "set" ∧ e.k = t.k ∧ e.v = v ∧ e.inv < t.ret
      if ¬ (fromLoad ∨ fromSet) then
        r := r.violation s.idx t.line s!"struct=cache concurrent Take k={t.k} returned {v}, which no loader of the key and no Set produced"
      if t.calls > 0 ∧ ¬ t.fail ∧ v ≠ t.v then
        r := r.violation s.idx t.line s!"struct=cache concurrent Take k={t.k} loaded {t.v} itself but returned {v}"
    | none =>
      if t.res ≠ "err" then r := r.mismatch s.idx t.line "value|err" t.res
      else if ¬ loads.any (fun l => l.k = t.k ∧ l.fail ∧ l.ls < t.ret) then
        r := r.violation s.idx t.line s!"struct=cache concurrent Take k={t.k} returned an error but no loader of the key failed"
    -- the loader was called although the key was present during the whole call
    if t.calls > 0 then
      let dels := evs.filter fun e => e.op = "del" ∧ e.k = t.k
      let producers := evs.filter fun e => e.k = t.k ∧ e.ret < t.inv ∧
        ((e.op = "set") ∨ (e.op = "take" ∧ e.calls > 0 ∧ ¬ e.fail ∧ e.res ≠ "err"))
      for p in producers do
        if dels.all (fun d => d.ret < p.inv ∨ d.inv > t.ret) then
          r := r.violation s.idx t.line s!"struct=cache loader called on a hit: Take k={t.k} called the loader although call id={p.id} had stored the key before and no Del ran since"
  for k in keys do
    let lk := loads.filter (·.k = k)
    -- loader executions of one key never overlap
    for a in lk do
      for b in lk do
        if a.id < b.id ∧ ¬ (a.le < b.ls ∨ b.le < a.ls) then
          r := r.violation s.idx b.line s!"struct=cache concurrent loaders of k={k} overlap: calls id={a.id} [{a.ls},{a.le}] and id={b.id} [{b.ls},{b.le}]"
    -- at most once per miss
    let nd := (evs.filter fun e => e.op = "del" ∧ e.k = k).size
    let nf := (lk.filter (·.fail)).size
    if lk.size > 1 then r := r.addCover "ctake-key-loaded-again"
    if (takes.filter (·.k = k)).size > lk.size + 1 then r := r.addCover "ctake-loads-shared"
    if lk.size > nd + nf + 1 then
      r := r.violation s.idx 0 s!"struct=cache concurrent Take called the loader of k={k} {lk.size} times with {nd} Del calls and {nf} failed loads: more than once per miss"
  -- other ops, statistics
  for e in evs do
    if e.op = "get" then
      r := r.addCover (if e.res = "none" then "ctake-get-miss" else "ctake-get-hit")
      match resNat e.res with
      | some v =>
        let ok := (loads.any fun l => l.k = e.k ∧ l.v = v ∧ ¬ l.fail ∧ l.ls < e.ret) ∨ (evs.any fun x => x.op = "set" ∧ x.k = e.k ∧ x.v = v ∧ x.inv < e.ret)
        if ¬ ok then r := r.violation s.idx e.line s!"struct=cache concurrent Get k={e.k} returned {v}, which nobody stored"
      | none => pure ()
    else if e.op = "stats" then
      r := r.addCover "ctake-stats"
      let done := evs.filter (·.ret < e.inv)
      let miss := (done.filter fun x => (x.op = "get" ∧ x.res = "none") ∨ (x.op = "take" ∧ x.res ≠ "err" ∧ x.calls > 0)).size
      let hit := (done.filter fun x => (x.op = "get" ∧ x.res ≠ "none") ∨ (x.op = "take" ∧ x.res ≠ "err" ∧ x.calls = 0)).size
      let want := s!"hit:{hit},miss:{miss}"
      if e.res ≠ want then
        r := r.violation s.idx e.line s!"struct=cache statistics: counted {e.res}, the calls made {want} (Get hit/miss, Take found-or-shared = hit, Take loaded = miss, Take error = none)"
    else if e.op ≠ "take" ∧ e.op ≠ "set" ∧ e.op ≠ "del" then r := r.mismatch s.idx e.line "ctake op" e.op
  return r

def runConcSection (r : Report) (s : Section) : Report := Id.run do
  let mut r := r
  let mut evs : Array CEv := #[]
  for l in s.lines do
    r := { r with ops := r.ops + 1 }
    match parseCEv l with
    | none => r := r.mismatch s.idx l.idx "c id=… op=… => inv=… ret=… res=…" (joinSp (l.op ++ ["=>"] ++ l.obs))
    | some e =>
      if e.res = "STUCK" then
        r := r.violation s.idx l.idx s!"struct={kvStr s.cfg "s"} concurrent call id={e.id} op={e.op} never returned (deadlock)"
      else if e.res = "PANIC" then
        r := r.violation s.idx l.idx s!"struct={kvStr s.cfg "s"} concurrent call id={e.id} op={e.op} panicked"
      else if ¬ e.inv < e.ret then r := r.mismatch s.idx l.idx "inv < ret" (joinSp l.obs)
      else evs := evs.push e
  match kvStr s.cfg "s" with
  | "cmap" => return (monCMap r s evs).addCover "sections-cmap"
  | "cqueue" => return (monCQueue r s evs).addCover "sections-cqueue"
  | "cring" => return (monCRing r s evs).addCover "sections-cring"
  | "ctake" => return (monCTake r s evs).addCover "sections-ctake"
  | other => return r.mismatch s.idx 0 "known concurrent structure" other

def driverConc (secs : List Section) : Report := secs.foldl runConcSection {}

end GoZero.C16
