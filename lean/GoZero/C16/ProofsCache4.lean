/-
C16 — `SetWithExpire` with a non-positive (jittered) expiry: the wheel is not told (`SetTimer` rejects the delay).
-/
import GoZero.C16.ProofsCache3
namespace GoZero.C16

open GoZero.C12 (Op)
open GoZero.C12.Spec (Table Timer keys KeysNodup)

section
variable {T : Type} (ts : TStep T)

theorem setNoTimer_spec (c : CacheG T) (h : c.Inv) (k v : Nat) :
    (CacheG.setNoTimer ts c k v).1.Inv ∧ (CacheG.setNoTimer ts c k v).1.limit = c.limit
    ∧ (CacheG.get ts (CacheG.setNoTimer ts c k v).1 k).2.result = some v
    ∧ ((CacheG.setNoTimer ts c k v).2.evicted = [] ∧ (CacheG.setNoTimer ts c k v).1.timers = c.timers
       ∨ ∃ old, (CacheG.setNoTimer ts c k v).2.evicted = [old] ∧ old ≠ k ∧ c.lru.getLast? = some old
           ∧ (CacheG.setNoTimer ts c k v).1.timers = (ts c.timers (.remove old)).1) := by
  obtain ⟨h1, h2, h3⟩ := lruAdd_after_insert ts c k v h
  refine ⟨h1, h2, ?_, ?_⟩
  · have hl : alookup (CacheG.setNoTimer ts c k v).1.data k = some v := by
      show alookup (CacheG.lruAdd ts { c with data := ainsert c.data k v } k).1.data k = some v
      rcases h3 with ⟨_, e2, _⟩ | ⟨old, _, e2, _, hne, _⟩
      · rw [e2, alookup_ainsert]; simp
      · rw [e2, alookup_aerase, alookup_ainsert]; simp [hne.symm]
    simp [CacheG.get, hl]
  · rcases h3 with ⟨e1, _, e3⟩ | ⟨old, e1, _, e3, hne, _, _, e7⟩
    · exact Or.inl ⟨e1, e3⟩
    · exact Or.inr ⟨old, e1, hne, e3, e7⟩

end

/-- an entry without a timer survives a tick, and still has no timer afterwards -/
theorem no_timer_survives_tick (c : Spec.ACache) (hn : KeysNodup c.timers) (k : Nat) (hk : k ∉ keys c.timers) :
    k ∉ (CacheG.tick C12.Spec.step c).2.expired
    ∧ alookup (CacheG.tick C12.Spec.step c).1.data k = alookup c.data k
    ∧ KeysNodup (CacheG.tick C12.Spec.step c).1.timers
    ∧ k ∉ keys (CacheG.tick C12.Spec.step c).1.timers := by
  have hnd1 : KeysNodup (C12.Spec.step c.timers Op.tick).1 := C12.Spec.step_keys_nodup _ hn _
  have hsub : ∀ k', k' ∈ (C12.Spec.tick c.timers).2.map (·.1) → k' ∈ keys c.timers := by
    intro k' hk'
    simp only [C12.Spec.tick, List.map_map, List.mem_map, List.mem_filter, Function.comp] at hk'
    obtain ⟨x, ⟨hx, _⟩, rfl⟩ := hk'
    exact List.mem_map_of_mem hx
  have hnot : k ∉ (C12.Spec.tick c.timers).2.map (·.1) := fun hm => hk (hsub k hm)
  obtain ⟨e1, e2, _⟩ := expire_after_tick (C12.Spec.step c.timers Op.tick).2 { c with timers := (C12.Spec.step c.timers Op.tick).1 } hnd1
  refine ⟨hnot, ?_, e1, ?_⟩
  · show alookup (CacheG.expire C12.Spec.step { c with timers := (C12.Spec.step c.timers Op.tick).1 } (C12.Spec.step c.timers Op.tick).2).data k = _
    rw [expire_lookup]
    have hnot' : k ∉ (C12.Spec.step c.timers Op.tick).2.map (·.1) := hnot
    rw [if_neg hnot']
  · intro hm
    have := (e2 k).1 hm
    exact hk ((keys_tick c.timers hn k).1 this.1).1

def ticksN (c : Spec.ACache) : Nat → Spec.ACache
  | 0 => c
  | n + 1 => ticksN (CacheG.tick C12.Spec.step c).1 n

theorem no_timer_never_expires (n : Nat) : ∀ (c : Spec.ACache), KeysNodup c.timers → ∀ k, k ∉ keys c.timers →
    alookup (ticksN c n).data k = alookup c.data k := by
  induction n with
  | zero => intro c _ k _; rfl
  | succ n ih =>
    intro c hn k hk
    obtain ⟨_, b, c', d⟩ := no_timer_survives_tick c hn k hk
    simp only [ticksN]
    rw [ih _ c' k d, b]

end GoZero.C16
