/-
C16 — round 5c property theorems.
  * Cache with the goroutines of its timing wheel, EVERY schedule (model: ConcWheel.lean)
  * re-entrant use: a loader that calls Take for its own key, a Range callback that calls back into the map
    (model: Reent.lean)
  * Go `int` width: the ring index never overflows; RollingWindow with an interval ≤ 0
-/
import GoZero.C16.ProofsMap
import GoZero.C16.ConcWheel
import GoZero.C16.Reent
import GoZero.C16.ProofsSet
namespace GoZero.C16.CW

/-! ## Cache + wheel goroutines, every schedule -/

structure Inv (s : St) : Prop where
  data  : ∀ k, alookup s.data k = lastWrite s.log k
  fired : ∀ k, k ∈ s.fired → k ∈ everSet s.log
  timer : ∀ p, p ∈ s.timers → p.1 ∈ everSet s.log
  pend  : ∀ p, p ∈ s.pendSet → p.1 ∈ everSet s.log

theorem inv_init : Inv init := ⟨fun _ => rfl, by simp [init], by simp [init], by simp [init]⟩

theorem everSet_store (k v : Nat) (l : List Ev) : everSet (.store k v :: l) = k :: everSet l := rfl
theorem everSet_delete (k : Nat) (c : Cause) (l : List Ev) : everSet (.delete k c :: l) = everSet l := rfl

theorem mem_terase {t : List (Nat × Nat)} {k : Nat} {p : Nat × Nat} (h : p ∈ terase t k) : p ∈ t :=
  (List.mem_filter.1 h).1

theorem inv_step {s s' : St} (a : Act) (hi : Inv s) (h : step s a = some s') : Inv s' := by
  obtain ⟨h1, h2, h3, h4⟩ := hi
  cases a with
  | setLock k v ticks victim =>
    cases victim with
    | none =>
      simp only [step, Option.some.injEq] at h; subst h
      refine ⟨fun k' => ?_, fun x hx => ?_, fun p hp => ?_, fun p hp => ?_⟩
      · simp only [lastWrite, alookup_ainsert, h1]
      · rw [everSet_store]; exact List.mem_cons_of_mem _ (h2 x hx)
      · rw [everSet_store]; exact List.mem_cons_of_mem _ (h3 p hp)
      · rw [everSet_store]
        rcases List.mem_append.1 hp with hp | hp
        · exact List.mem_cons_of_mem _ (h4 p hp)
        · simp only [List.mem_singleton] at hp; subst hp; exact List.mem_cons_self
    | some o =>
      simp only [step] at h
      split at h
      · cases h
      · rename_i hne
        simp only [Option.some.injEq] at h; subst h
        refine ⟨fun k' => ?_, fun x hx => ?_, fun p hp => ?_, fun p hp => ?_⟩
        · simp only [lastWrite, alookup_aerase, alookup_ainsert, h1]
        · rw [everSet_delete, everSet_store]; exact List.mem_cons_of_mem _ (h2 x hx)
        · rw [everSet_delete, everSet_store]; exact List.mem_cons_of_mem _ (h3 p (mem_terase hp))
        · rw [everSet_delete, everSet_store]
          rcases List.mem_append.1 hp with hp | hp
          · exact List.mem_cons_of_mem _ (h4 p hp)
          · simp only [List.mem_singleton] at hp; subst hp; exact List.mem_cons_self
  | setWheel i =>
    simp only [step] at h
    cases hp : s.pendSet[i]? with
    | none => simp [hp] at h
    | some q =>
      obtain ⟨k, v, ticks⟩ := q
      simp only [hp, Option.some.injEq] at h; subst h
      have hk : k ∈ everSet s.log := h4 (k, v, ticks) (List.mem_of_getElem? hp)
      refine ⟨h1, h2, fun p hp' => ?_, fun p hp' => h4 p (List.mem_of_mem_eraseIdx hp')⟩
      by_cases ht : ticks = 0
      · simp only [ht, if_true] at hp'; exact h3 p hp'
      · simp only [ht, if_false, List.mem_cons] at hp'
        rcases hp' with e | e
        · subst e; exact hk
        · exact h3 p (mem_terase e)
  | delLock k =>
    simp only [step, Option.some.injEq] at h; subst h
    exact ⟨fun k' => by simp only [lastWrite, alookup_aerase, h1], h2, h3, h4⟩
  | rmWheel i =>
    simp only [step] at h
    cases hp : s.pendRm[i]? with
    | none => simp [hp] at h
    | some k =>
      simp only [hp, Option.some.injEq] at h; subst h
      exact ⟨h1, h2, fun p hp' => h3 p (mem_terase hp'), h4⟩
  | tick =>
    simp only [step, Option.some.injEq] at h; subst h
    refine ⟨h1, fun x hx => ?_, fun p hp => ?_, h4⟩
    · rcases List.mem_append.1 hx with hx | hx
      · exact h2 x hx
      · obtain ⟨p, hp, rfl⟩ := List.mem_map.1 hx
        exact h3 p (List.mem_filter.1 hp).1
    · obtain ⟨q, hq, rfl⟩ := List.mem_map.1 hp
      exact h3 q (List.mem_filter.1 hq).1
  | cbLock i =>
    simp only [step] at h
    cases hp : s.fired[i]? with
    | none => simp [hp] at h
    | some k =>
      simp only [hp, Option.some.injEq] at h; subst h
      exact ⟨fun k' => by simp only [lastWrite, alookup_aerase, h1],
             fun x hx => h2 x (List.mem_of_mem_eraseIdx hx), h3, h4⟩
  | get k =>
    simp only [step, Option.some.injEq] at h; subst h
    exact ⟨h1, h2, h3, h4⟩

theorem inv_run (acts : List Act) (s s' : St) (hi : Inv s) (h : run s acts = some s') : Inv s' := by
  induction acts generalizing s with
  | nil => simp only [run, Option.some.injEq] at h; subst h; exact hi
  | cons a as ih =>
    simp only [run] at h
    cases hs : step s a with
    | none => simp [hs] at h
    | some s1 => simp only [hs] at h; exact ih s1 (inv_step a hi hs) h

/-- **Clause "the Cache returns the latest value set for a key unless it was deleted, has expired, or was evicted", with
the wheel's goroutines, for EVERY schedule.**  Any number of goroutines run `SetWithExpire` / `Del` / `Get`, each Set and
Del split into its section under `c.lock` and its later call into the wheel; the ticker fires timers at any moment; every
fired key's callback (`cache.Del(key)`) takes the lock at any later moment; the pending `SetTimer` / `RemoveTimer` calls
reach the wheel in ANY order (also a Del's `RemoveTimer` after a later Set's `SetTimer`, see `lost_timer_schedule`).
After any such run, `Get k` returns exactly what the NEWEST locked section that touched `k` left: the value of the latest
`Set k` unless a user's `Del k`, an expiry callback for `k` or an eviction of `k` took the lock after it. -/
theorem cw_get_latest_every_schedule (acts : List Act) (s : St) (h : run init acts = some s) (k : Nat) :
    alookup s.data k = lastWrite s.log k :=
  (inv_run acts init s inv_init h).data k

/-- the same in the property's words: if `Set k v` is in the lock order and no later section deleted `k` (user, expiry
callback, eviction) or stored it again, `Get k` is `v` — whatever the wheel's goroutines did in between -/
theorem cw_get_after_set_unless_gone (acts : List Act) (s : St) (h : run init acts = some s) (k v : Nat)
    (newer older : List Ev) (hl : s.log = newer ++ .store k v :: older) (hn : ∀ e ∈ newer, e.key ≠ k) :
    alookup s.data k = some v := by
  rw [cw_get_latest_every_schedule acts s h k, hl]
  clear hl h
  induction newer with
  | nil => simp [lastWrite]
  | cons e r ih =>
    have hk := hn e List.mem_cons_self
    have := ih (fun e' he' => hn e' (List.mem_cons_of_mem _ he'))
    cases e with
    | store k' v' => simp only [Ev.key] at hk; simp only [List.cons_append, lastWrite, Ne.symm hk, if_false]; exact this
    | delete k' c => simp only [Ev.key] at hk; simp only [List.cons_append, lastWrite, Ne.symm hk, if_false]; exact this

/-- an expiry callback only ever runs for a key that some `Set` has stored before (timers come from `SetTimer` calls of
Sets only): "has expired" never hits a key that was never set -/
theorem cw_expiry_only_after_set (acts : List Act) (s : St) (h : run init acts = some s) (k : Nat) (hk : k ∈ s.fired) :
    k ∈ everSet s.log :=
  (inv_run acts init s inv_init h).fired k hk

/-- **The not-applied finding's schedule** (`Del` calls `RemoveTimer` after the unlock): Set k (both phases), then
Del k's locked part, a new Set k (both phases), and only then the Del's `RemoveTimer` — which removes the timer of the
FRESH entry.  The entry then has no timer and never expires (40 ticks later it is still there); the Get clause holds all
along: `Get 1` is the latest value set, 11. -/
theorem lost_timer_schedule :
    let sched : List Act := [.setLock 1 10 5 none, .setWheel 0, .delLock 1, .setLock 1 11 5 none, .setWheel 0, .rmWheel 0]
    (run init sched).map (fun s => alookup s.data 1) = some (some 11)
    ∧ (run init sched).map (·.timers) = some []
    ∧ (run init sched).map (·.pendRm) = some []
    ∧ (run init (sched ++ List.replicate 40 .tick)).map (fun s => alookup s.data 1) = some (some 11)
    ∧ (run init (sched ++ List.replicate 40 .tick)).map (·.fired) = some [] := by
  refine ⟨by decide, by decide, by decide, by decide, by decide⟩

/-- the OPEN finding's schedule, for contrast: the timer of the first value fires, the key is set again before the
callback takes the lock, the callback then deletes the fresh value.  In the lock order the newest section on key 1 is an
expiry deletion, so the clause as stated above holds (`Get 1 = none`, "has expired") — but the expiry that deleted the
value belongs to an OLDER timer than the value's own (its timer, 5 ticks, is still running): read strictly ("its own
timer has expired") this is the violation kept as `pinned_expiry_callback_deletes_later_set`. -/
theorem stale_expiry_schedule :
    let sched : List Act := [.setLock 1 10 1 none, .setWheel 0, .tick, .setLock 1 11 5 none, .setWheel 0, .cbLock 0]
    (run init sched).map (fun s => alookup s.data 1) = some none
    ∧ (run init sched).map (·.timers) = some [(1, 5)]
    ∧ (run init sched).map (·.log.head?) = some (some (.delete 1 .expiry)) := by
  refine ⟨by decide, by decide, by decide⟩

end GoZero.C16.CW

/-! ## Re-entrant use: what the code does (model: Reent.lean) -/
namespace GoZero.C16.Reent

/-- behind a writer that somebody else has announced, a goroutine that holds a read lock stays where it is -/
def StuckBehindWriter (s : RW) : Prop := s.pending = true ∧ s.tReads ≥ 1 ∧ s.writer = false

theorem stuckBehindWriter_step {s s' : RW} (a : Env) (h : StuckBehindWriter s) (hs : envStep s a = some s') :
    StuckBehindWriter s' := by
  obtain ⟨h1, h2, h3⟩ := h
  cases a <;> simp only [envStep, canRLock, noReaders, h1, h3] at hs
  · simp at hs
  · split at hs
    · simp only [Option.some.injEq] at hs; subst hs; exact ⟨rfl, h2, rfl⟩
    · cases hs
  · simp at hs
  · have : ¬ (s.tReads + s.envReads == 0) = true := by simp; omega
    simp [this] at hs
  · simp at hs

/-- **A read (Get / Size / Range) from inside a `Range` callback, behind a pending writer: both wait for ever.**  Once
another goroutine has called `Lock()` while T is inside `Range`, whatever the other goroutines do afterwards, T's nested
`RLock` never passes and the writer never gets the lock (T's outer read hold never goes away). -/
theorem range_callback_read_deadlocks_behind_pending_writer (s s' : RW) (acts : List Env)
    (h : StuckBehindWriter s) (hr : envRun s acts = some s') :
    canRLock s' = false ∧ envStep s' .acquire = none ∧ StuckBehindWriter s' := by
  induction acts generalizing s with
  | nil =>
    simp only [envRun, Option.some.injEq] at hr; subst hr
    obtain ⟨h1, h2, h3⟩ := h
    refine ⟨by simp [canRLock, h1], ?_, h1, h2, h3⟩
    have : ¬ (s.tReads + s.envReads == 0) = true := by simp; omega
    simp [envStep, noReaders, this]
  | cons a as ih =>
    simp only [envRun] at hr
    cases hs : envStep s a with
    | none => simp [hs] at hr
    | some s1 => simp only [hs] at hr; exact ih s1 (stuckBehindWriter_step a h hs) hr

/-- without a pending or active writer the nested read passes (and leaves the lock as it found it after its RUnlock):
Get / Size / Range from inside the callback see the same committed state as the outer Range -/
theorem range_callback_read_passes_without_writer (s : RW) (h : s.writer = false ∧ s.pending = false ∧ s.tPending = false) :
    canRLock s = true := by simp [canRLock, h.1, h.2.1, h.2.2]

/-- T has announced its own `Lock()` from inside its read section -/
def SelfWriter (s : RW) : Prop := s.tPending = true ∧ s.tReads ≥ 1

theorem selfWriter_step {s s' : RW} (a : Env) (h : SelfWriter s) (hs : envStep s a = some s') : SelfWriter s' := by
  obtain ⟨h1, h2⟩ := h
  cases a <;> simp only [envStep, canRLock, noReaders, h1] at hs
  · simp at hs
  · split at hs
    · simp only [Option.some.injEq] at hs; subst hs; exact ⟨rfl, h2⟩
    · cases hs
  · simp at hs
  · have : ¬ (s.tReads + s.envReads == 0) = true := by simp; omega
    simp [this] at hs
  · split at hs
    · simp only [Option.some.injEq] at hs; subst hs; exact ⟨rfl, h2⟩
    · cases hs

/-- **A write (Set / Del) from inside a `Range` callback waits for itself, for ever, and takes the whole map with it.**
After T's `Lock()` has announced itself, whatever the others do: T never acquires (its own read hold is counted), and no
other goroutine can take the read lock any more — every later Get / Size / Range / Set / Del on this map hangs. -/
theorem range_callback_write_deadlocks (s s' : RW) (acts : List Env) (h : SelfWriter s) (hr : envRun s acts = some s') :
    tCanAcquire s' = false ∧ canRLock s' = false ∧ envStep s' .announce = none := by
  induction acts generalizing s with
  | nil =>
    simp only [envRun, Option.some.injEq] at hr; subst hr
    obtain ⟨h1, h2⟩ := h
    have : ¬ (s.tReads + s.envReads == 0) = true := by simp; omega
    exact ⟨by simp [tCanAcquire, noReaders, this], by simp [canRLock, h1], by simp [envStep, h1]⟩
  | cons a as ih =>
    simp only [envRun] at hr
    cases hs : envStep s a with
    | none => simp [hs] at hr
    | some s1 => simp only [hs] at hr; exact ih s1 (selfWriter_step a h hs) hr

/-- if another writer is already pending when T wants to write, T cannot even announce — and is stuck behind that
writer as in `range_callback_read_deadlocks_behind_pending_writer` -/
theorem range_callback_write_behind_writer (s : RW) (h : StuckBehindWriter s) : tCanAnnounce s = false := by
  simp [tCanAnnounce, h.1]

example : envRun { tReads := 1, envReads := 2, writer := false, pending := false, tPending := true }
    [.runlock, .runlock] = some { tReads := 1, envReads := 0, writer := false, pending := false, tPending := true } := by decide

/-- T owns the call of key `k` (it is inside its loader) -/
theorem sf_owner_stays (t k : Nat) (s s' : SF) (acts : List SFEnv) (h : (k, t) ∈ s.inflight) (hr : sfRun t s acts = some s') :
    (k, t) ∈ s'.inflight := by
  induction acts generalizing s with
  | nil => simp only [sfRun, Option.some.injEq] at hr; subst hr; exact h
  | cons a as ih =>
    simp only [sfRun] at hr
    cases hs : sfStep t s a with
    | none => simp [hs] at hr
    | some s1 =>
      simp only [hs] at hr
      refine ih s1 ?_ hr
      cases a with
      | start k' o =>
        simp only [sfStep] at hs
        split at hs
        · simp only [Option.some.injEq] at hs; subst hs; exact List.mem_cons_of_mem _ h
        · cases hs
      | finish k' o =>
        simp only [sfStep] at hs
        split at hs
        · rename_i hc
          simp only [Option.some.injEq] at hs; subst hs
          refine List.mem_filter.2 ⟨h, ?_⟩
          have : (k, t) ≠ (k', o) := fun e => hc.1 (by cases e; rfl)
          exact decide_eq_true this
        · cases hs

/-- **A loader that calls `Take` for its own key waits for itself, for ever** (if the nested Take misses, i.e. nothing
stored the key in between): the call of `k` stays in `g.calls` whatever the other goroutines do, so the nested
`barrier.Do(k, …)` — and every other Take of `k` that misses from now on — must wait, for ever. -/
theorem take_reentrant_loader_deadlocks (t k : Nat) (s s' : SF) (acts : List SFEnv) (h : (k, t) ∈ s.inflight)
    (hr : sfRun t s acts = some s') : mustWait s' k = true := by
  have := sf_owner_stays t k s s' acts h hr
  simp only [mustWait, List.any_eq_true]
  exact ⟨(k, t), this, by simp⟩

/-- a nested Take for ANOTHER key that nobody is loading starts its own call: no self-wait -/
example : mustWait { inflight := [(1, 7)] } 2 = false ∧ mustWait { inflight := [(1, 7)] } 1 = true := by decide

end GoZero.C16.Reent

/-! ## Go `int` width: the ring index stays below 2n -/
namespace GoZero.C16

theorem Ring.add_index_lt (r : Ring) (v : Nat) (hl : 0 < r.elems.length) (h : r.index < 2 * r.elems.length) :
    (r.add v).elems.length = r.elems.length ∧ (r.add v).index < 2 * r.elems.length := by
  unfold Ring.add
  simp only [List.length_set, true_and]
  split <;> omega

/-- **The ring index never leaves `[0, 2n)`** (every `n ≥ 1`, every sequence of `Add`s) — with `n < 2^62` all of
`index + 1`, `rlen << 1` and `index - rlen` therefore fit a 64-bit Go `int`, and `tie_ringAddIndex_width` shows that the
machine's wrapped arithmetic is the unbounded arithmetic `ring_keeps_last_n_in_order` was proven about. -/
theorem ring_index_lt_2n (n : Nat) (hn : 1 ≤ n) (vs : List Nat) :
    ((Ring.new n).run vs).elems.length = n ∧ ((Ring.new n).run vs).index < 2 * n := by
  have key : ∀ (vs : List Nat) (r : Ring), r.elems.length = n → r.index < 2 * n →
      (r.run vs).elems.length = n ∧ (r.run vs).index < 2 * n := by
    intro vs
    induction vs with
    | nil => intro r h1 h2; exact ⟨h1, h2⟩
    | cons v vs ih =>
      intro r h1 h2
      have := Ring.add_index_lt r v (by omega) (by omega)
      exact ih (r.add v) (by omega) (by omega)
  exact key vs (Ring.new n) (by simp [Ring.new]) (by simp [Ring.new]; omega)

example : ((Ring.new 3).run [1, 2, 3, 4, 5, 6, 7, 8, 9, 10, 11]).index = 5 := by decide

end GoZero.C16
