/-
C16 — round 5: the PUBLIC entry points around the core models (core Lean only).

  constructors   NewRing(n), NewRollingWindow(newBucket, size, interval, opts...), NewCache(expire, opts...)
                 with their panics and their option loops (`for _, opt := range opts { opt(x) }`)
  options        IgnoreCurrentBucket(), WithLimit(limit), WithName(name)
  callbacks      SafeMap.Range(f) with an `f` that answers false (early return out of BOTH loops),
                 Cache.Take(key, fetch) with every way `fetch` can end (value, error, typed-nil error, panic with an
                 error value, panic with another value, runtime.Goexit)

Values: a Go `nil` value (Put(nil), Set(k, nil), a loader returning (nil, nil)) is the natural 0 — an ordinary
value for every model below (a stored nil is PRESENT: `Get` answers (nil, true), `Queue.Take` (nil, true)).
-/
import GoZero.C16.ModelCache
import GoZero.C16.ModelRW
namespace GoZero.C16

/-! ### constructors -/

/-- `NewRing(n)`: `if n < 1 { panic }` (none = the constructor panicked, no ring exists) -/
def Ring.newApi (n : Int) : Option Ring := if n < 1 then none else some (Ring.new n.toNat)

inductive RWOpt where
  | ignoreCurrent
  deriving Repr, DecidableEq

/-- `IgnoreCurrentBucket()`: `w.ignoreCurrent = true` -/
def RWOpt.apply (w : RW) : RWOpt → RW
  | .ignoreCurrent => { w with ignoreCurrent := true }

/-- `NewRollingWindow(newBucket, size, interval, opts...)` at clock `t0`: `if size < 1 { panic }`, the struct literal
(`ignoreCurrent` false), then the option loop in order -/
def RW.newApi (size : Int) (interval : Nat) (opts : List RWOpt) (t0 : Nat) : Option RW :=
  if size < 1 then none else some (opts.foldl RWOpt.apply (RW.new size.toNat interval false t0))

/-- what `NewCache`'s option loop decides: the limit of the installed keyLru (0 = `emptyLruCache` stays) and the
name (0 = the empty string) -/
structure CacheCfg where
  limit : Nat
  name  : Nat
  deriving Repr, DecidableEq

inductive CacheOpt where
  | withLimit (l : Int)
  | withName (name : Nat)
  deriving Repr, DecidableEq

/-- `WithLimit(l)`: `if limit > 0 { cache.lruCache = newKeyLru(limit, cache.onEvict) }` — a non-positive limit leaves
whatever an earlier option installed; `WithName(n)`: `cache.name = name` -/
def CacheOpt.apply (c : CacheCfg) : CacheOpt → CacheCfg
  | .withLimit l => if l > 0 then { c with limit := l.toNat } else c
  | .withName n => { c with name := n }

/-- `for _, opt := range opts { opt(cache) }` starting from `lruCache: emptyLruCache`, name "" -/
def cacheCfg (opts : List CacheOpt) : CacheCfg := opts.foldl CacheOpt.apply { limit := 0, name := 0 }

def effLimit (opts : List CacheOpt) : Nat := (cacheCfg opts).limit

/-- `if len(cache.name) == 0 { cache.name = defaultCacheName }` (names as naturals; `dflt` = "proc") -/
def effName (dflt : Nat) (opts : List CacheOpt) : Nat := if (cacheCfg opts).name = 0 then dflt else (cacheCfg opts).name

/-- `NewCache(expire, opts...)` (the default expiry is an argument of every `Set`, see `COp.set`) -/
def Cache.newApi (opts : List CacheOpt) (slots : Nat) : Cache := Cache.new (effLimit opts) slots

/-- the positive limit of an option, if it has one -/
def CacheOpt.posLimit : CacheOpt → Option Nat
  | .withLimit l => if l > 0 then some l.toNat else none
  | .withName _ => none

/-! ### SafeMap.Range with a callback that stops -/

/-- `for k, v := range gen { if !f(k, v) { return } }` where `f` answers false at its `stop`-th call overall (`seen`
calls were made before this loop; `stop = 0`: never false).  Result: the pairs handed to `f`, and whether the function
returned from inside the loop. -/
def rangeLoop (stop : Nat) : AL → Nat → AL × Bool
  | [], _ => ([], false)
  | p :: r, seen =>
    if seen + 1 = stop then ([p], true)
    else (p :: (rangeLoop stop r (seen + 1)).1, (rangeLoop stop r (seen + 1)).2)

/-- `Range(f)`: dirtyOld, then — unless `f` said stop — dirtyNew -/
def SafeMap.rangeUntil (m : SafeMap) (stop : Nat) : AL :=
  if (rangeLoop stop m.old 0).2 then (rangeLoop stop m.old 0).1
  else (rangeLoop stop m.old 0).1 ++ (rangeLoop stop m.new (rangeLoop stop m.old 0).1.length).1

/-! ### Cache.Take: every way the loader can end -/

inductive Load where
  | value (v : Nat)       -- (v, nil); v = 0: (nil, nil)
  | error                 -- (nil, errors.New(…))
  | typedNilError         -- (nil, (*E)(nil)): a non-nil error interface holding a nil pointer
  | panicError            -- panic(err)
  | panicValue            -- panic("…")
  | goexit                -- runtime.Goexit()
  deriving Repr, DecidableEq

def Load.fails : Load → Bool
  | .value _ => false
  | _ => true

def Load.val : Load → Nat
  | .value v => v
  | _ => 0

/-- what the caller of `Take` gets -/
inductive TakeRet where
  | val (v : Nat) | err | panics | exits
  deriving Repr, DecidableEq

variable {T : Type} (ts : TStep T)

/-- `Take(key, fetch)` where `fetch` ends as `l`: `e != nil` is true for the typed-nil error as well; a panic or
Goexit unwinds through `barrier.Do` (whose deferred function ends the flight) before `c.Set` is reached -/
def CacheG.takeL (c : CacheG T) (k : Nat) (l : Load) (ticks : Nat) : CacheG T × CacheOut :=
  CacheG.take ts c k l.val l.fails ticks

def CacheG.takeRet (c : CacheG T) (k : Nat) (l : Load) : TakeRet :=
  match alookup c.data k with
  | some x => .val x
  | none =>
    match l with
    | .value v => .val v
    | .error => .err
    | .typedNilError => .err
    | .panicError => .panics
    | .panicValue => .panics
    | .goexit => .exits

/-! ### Go `int` width (round 5c) -/

/-- two's-complement wrap-around of a 64-bit Go `int` -/
def wrap64 (x : Int) : Int := (x + 9223372036854775808) % 18446744073709551616 - 9223372036854775808

/-- `r.index++; if r.index >= rlen<<1 { r.index -= rlen }` as the machine computes it: every intermediate result wrapped
to 64 bits -/
def ringAddIndexW (index rlen : Int) : Int :=
  if wrap64 (index + 1) ≥ wrap64 (rlen * 2) then wrap64 (wrap64 (index + 1) - rlen) else wrap64 (index + 1)

/-! ### RollingWindow with a negative interval (round 5c; outside the property: `interval ≥ 1` is a hypothesis)

`span()`: `int(timex.Since(lastTime) / interval)` truncates towards zero, so with `interval = -a < 0` and the clock not
behind `lastTime` the quotient is `-(elapsed / a) ≤ 0`; the range check `0 <= offset` then lets only 0 through. -/
def RW.spanNeg (lastTime now a size : Nat) : Nat := if now - lastTime < a then 0 else size

end GoZero.C16
