/-
C16 — RollingWindow section driver.
Ops:  add <now> <v> | reduce <now> | st        Obs: ok | `b:v,v,…` per visited bucket, then `s:sum/count` per bucket of the real-Bucket window | `<offset> <lastTime>`
-/
import GoZero.Base.Trace
import GoZero.C16.SpecRW
import GoZero.C16.ModelApi
namespace GoZero.C16
open GoZero

def bucketsS (bs : List (List Nat)) : String :=
  joinSp (bs.map fun b => "b:" ++ ",".intercalate (b.map toString))

/-- what the package's own `Bucket` (Sum, Count) holds for these buckets -/
def sumsS (bs : List (List Nat)) : String :=
  joinSp (bs.map fun b => s!"s:{b.foldl (· + ·) 0}/{b.length}")

/-- the values of an observation `b:1,2 b: b:3`, flattened (none if unparsable) -/
def parseFlat (obs : List String) : Option (List Nat) :=
  obs.foldr (fun tok acc => do
    let acc ← acc
    if !tok.startsWith "b:" then none else
    let body := (tok.drop 2).toString
    if body = "" then pure acc else
    let vs ← (body.splitOn ",").mapM (·.toNat?)
    pure (vs ++ acc)) (some [])

def runRW (r : Report) (s : Section) : Report := Id.run do
  let sizeI := kvInt s.cfg "size" 1
  let size := sizeI.toNat
  let iv := kvNat s.cfg "interval" 1
  -- `iopts=` how many IgnoreCurrentBucket() options the constructor got (older traces: `ignore=0/1`)
  let iopts := kvNat s.cfg "iopts" (kvNat s.cfg "ignore" 0)
  let t0 := kvNat s.cfg "t0" 0
  let mut log : Array (Nat × Nat) := #[]
  let mut last := t0
  let mut back := false     -- the clock has gone backwards in this section: outside the property, correspondence only
  let mut r := r
  -- the constructor with its panic and its option loop (`RW.newApi`, `rw_api_reduce_visits_last_intervals`)
  let made := RW.newApi sizeI iv (List.replicate iopts RWOpt.ignoreCurrent) t0
  if made.isNone then
    -- `NewRollingWindow(size < 1)` panics (`tie_newRollingWindowGuard`): no window exists, outside the property
    r := r.addCover "rw-new-panics"
    for l in s.lines do
      r := { r with ops := r.ops + 1 }
      if joinSp l.obs ≠ "PANIC-new" then
        r := r.mismatch s.idx l.idx "PANIC-new" (joinSp l.obs)
        -- a window of size < 1 has no "last size intervals": the only conforming behaviour is to refuse
        r := r.violation s.idx l.idx s!"struct=rw NewRollingWindow(size={sizeI}) returned a window (size < 1 must panic) op=[{joinSp l.op}] impl=[{joinSp l.obs}]"
    return r
  let mut rw := made.getD (RW.new size iv false t0)
  let ign := rw.ignoreCurrent
  r := r.addCover s!"rw-new-options-{min iopts 2}"
  if iv = 0 then
    -- `interval = 0` (outside the property: interval ≥ 1): `span()` divides by zero, every Add / Reduce panics (the
    -- deferred unlock runs, so the next call panics the same way instead of hanging); nothing is ever stored
    r := r.addCover "rw-interval-zero-panics"
    for l in s.lines do
      r := { r with ops := r.ops + 1 }
      match l.op with
      | ["st"] => if joinSp l.obs ≠ s!"0 {t0}" then r := r.mismatch s.idx l.idx s!"0 {t0}" (joinSp l.obs)
      | _ => if l.obs.head? ≠ some "PANIC" then r := r.mismatch s.idx l.idx "PANIC" (joinSp l.obs)
    return r
  for l in s.lines do
    r := { r with ops := r.ops + 1 }
    match l.op with
    | ["add", t, v] =>
      match t.toNat?, v.toNat? with
      | some t, some v =>
        if t < last then
          back := true
          r := r.addCover (if rw.lastTime ≤ t then "rw-add-back-but-not-behind-lastTime"
                           else if rw.lastTime - t < iv then "rw-add-back-less-than-interval" else "rw-add-back-wipes-window")
        let sp := rw.spanB t
        r := r.addCover (if sp = 0 then "rw-add-same-bucket" else if sp = size then
                           (if (t - rw.lastTime) / iv = size then "rw-add-span-eq-size" else "rw-add-span-gt-size")
                         else if sp + 1 = size then "rw-add-span-size-1" else "rw-add-advance")
        if (t - t0) % iv = 0 then r := r.addCover "rw-on-boundary"
        if (t - t0) % iv + 1 = iv ∧ iv > 1 then r := r.addCover "rw-boundary-minus-1"
        if (t - t0) % iv = 1 ∧ iv > 2 then r := r.addCover "rw-boundary-plus-1"
        rw := rw.addB t v
        log := log.push (t, v)
        last := t
        if joinSp l.obs ≠ "ok" then r := r.mismatch s.idx l.idx "ok" (joinSp l.obs)
      | _, _ => r := r.mismatch s.idx l.idx "bad-op" (joinSp l.op)
    | ["reduce", t] =>
      match t.toNat? with
      | some t =>
        if t < last then
          back := true
          r := r.addCover (if rw.lastTime ≤ t then "rw-reduce-back-but-not-behind-lastTime"
                           else if rw.lastTime - t < iv then "rw-reduce-back-less-than-interval" else "rw-reduce-back-reads-empty")
        last := t
        let sp := rw.spanB t
        r := r.addCover (if sp = 0 then (if ign then "rw-reduce-current-ignored" else "rw-reduce-current")
                         else if sp = size then "rw-reduce-all-expired"
                         else if sp + 1 = size then "rw-reduce-span-size-1" else "rw-reduce-partly-expired")
        -- `b:…` tokens: the recording buckets; `s:sum/count` tokens: a second window over the real `Bucket` type
        let bObs := l.obs.filter (·.startsWith "b:")
        let sObs := l.obs.filter (·.startsWith "s:")
        let impl := joinSp bObs
        let implS := joinSp sObs
        let m := bucketsS (rw.reduceB t)
        if m ≠ impl then r := r.mismatch s.idx l.idx m impl
        if sumsS (rw.reduceB t) ≠ implS ∨ bObs.length + sObs.length ≠ l.obs.length then
          r := r.mismatch s.idx l.idx (sumsS (rw.reduceB t)) (joinSp l.obs)
        if back then continue
        -- monitor 0: the real Bucket type holds the sums / counts of the log's intervals
        let specS := sumsS (Spec.visible size ign t0 iv log.toList t)
        if specS ≠ implS then
          r := r.violation s.idx l.idx s!"struct=rw op=[{joinSp l.op}] Bucket sum/count spec=[{specS}] impl=[{implS}]"
        -- monitor 1 (bucket level): the visited buckets are the log's intervals
        let spec := bucketsS (Spec.visible size ign t0 iv log.toList t)
        if spec ≠ impl then
          r := r.violation s.idx l.idx s!"struct=rw op=[{joinSp l.op}] spec=[{spec}] impl=[{impl}]"
        -- monitor 2 (the property's words): exactly the values of the last `size` intervals
        let want := (Spec.lastIntervals size ign t0 iv log.toList t).flatten
        match parseFlat bObs with
        | some got =>
          if got ≠ want then
            r := r.violation s.idx l.idx s!"struct=rw op=[{joinSp l.op}] values-of-last-intervals=[{joinSp (want.map toString)}] impl=[{impl}]"
        | none => r := r.mismatch s.idx l.idx "bucket tokens" impl
      | none => r := r.mismatch s.idx l.idx "bad-op" (joinSp l.op)
    | ["st"] =>
      let ms := s!"{rw.offset} {rw.lastTime}"
      if ms ≠ joinSp l.obs then r := r.mismatch s.idx l.idx ms (joinSp l.obs)
    | _ => r := r.mismatch s.idx l.idx "bad-op" (joinSp l.op)
  return r

end GoZero.C16
