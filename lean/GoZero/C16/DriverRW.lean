import GoZero.Base.Trace
namespace GoZero.C16
open GoZero
def runRW (r : Report) (s : Section) : Report := r.mismatch s.idx 0 "rw driver" "not built yet"
end GoZero.C16
