/-
C16 — property theorems (statements, short proofs from the lemmas, non-vacuity examples).
Helper lemmas: ProofsMap / ProofsQueue / ProofsSet / ProofsRW / ProofsCache.
-/
import GoZero.C16.ProofsSet
import GoZero.C16.ProofsRW
import GoZero.C16.ProofsCache2
import GoZero.C16.ProofsCache3
import GoZero.C16.ProofsCache4
import GoZero.C16.ProofsLru
import GoZero.C16.ProofsConcObjs
import GoZero.C16.ProofsConcTake
import GoZero.C16.ProofsR4
import GoZero.C07.Props
namespace GoZero.C16

/-! ## Queue behaves as a FIFO -/

/-- **Queue ⊑ FIFO.**  For every initial capacity `size ≥ 1` and every sequence of Put / Take / Empty, the
results of the slice-based queue (head/tail indices modulo the buffer length, growth by `size` when
full — also when the buffer is wrapped) are those of the list `s ↦ s ++ [x]` / `head, tail`. -/
theorem queue_refines_fifo (size : Nat) (hs : 1 ≤ size) (ops : List QOp) :
    Queue.run (Queue.new size) ops = Spec.Fifo.run [] ops := by
  have := Queue.run_refines ops (Queue.new size) (Queue.inv_new size hs)
  rwa [Queue.abs_new] at this

/-- wrap-around + growth with a wrapped buffer (size 2: put 1 2, take, put 3 → full with head = 1, put 4 grows) -/
example : Queue.run (Queue.new 2) [.put 1, .put 2, .take, .put 3, .put 4, .take, .take, .take, .take]
    = [.unit, .unit, .val (some 1), .unit, .unit, .val (some 2), .val (some 3), .val (some 4), .val none] := by decide

example : ((((Queue.new 2).put 1).put 2).take.2.put 3).head = 1 ∧ ((((Queue.new 2).put 1).put 2).take.2.put 3).tail = 1 := by
  decide

/-! ## Ring keeps the last n elements in order -/

/-- **Ring = last n.**  For every `n ≥ 1` and every sequence of added values, `Take` returns exactly the
last `n` of them (all of them while fewer than `n` were added), oldest first — including the index
fold-back at `2n`. -/
theorem ring_keeps_last_n_in_order (n : Nat) (hn : 1 ≤ n) (vs : List Nat) :
    ((Ring.new n).run vs).take = vs.drop (vs.length - n) := by
  have := (Ring.run_spec n hn vs (Ring.new n) [] (Ring.inv_new n hn) (by simp [Ring.new])
    (by simp [Ring.new, Ring.take, Ring.sz, Spec.lastN])).1
  simpa [Spec.lastN] using this

/-- n = 3, seven additions: index has been folded back (7 ≥ 2·3) -/
example : ((Ring.new 3).run [1, 2, 3, 4, 5, 6, 7]).take = [5, 6, 7] ∧ ((Ring.new 3).run [1, 2, 3, 4, 5, 6, 7]).index = 4 := by
  decide

/-! ## Set behaves as a mathematical set -/

/-- **Set = mathematical set** (managed/typed or unmanaged): after any sequence of Add / Remove of
elements of any dynamic types, `Contains y` is true iff the last operation on `y` was an `Add`;
the key list has no duplicates, so `Count` is the cardinality of that set. -/
theorem set_refines_finset (managed : Bool) (ops : List SetOp) (y : Nat × Nat) :
    (((GSet.new managed).run ops).contains y = Spec.setMemAfter ops y)
    ∧ ((GSet.new managed).run ops).data.Nodup
    ∧ ((GSet.new managed).run ops).count = ((GSet.new managed).run ops).data.length
    ∧ (y ∈ ((GSet.new managed).run ops).data ↔ Spec.setMemAfter ops y = true) := by
  have h := GSet.run_spec ops (GSet.new managed) [] (by simp [GSet.new]) (by simp [GSet.new, Spec.setMem])
  simp only [List.append_nil] at h
  refine ⟨?_, h.1, rfl, h.2 y⟩
  have h1 := GSet.contains_iff ((GSet.new managed).run ops) y
  have h2 := h.2 y
  unfold Spec.setMemAfter
  cases hc : ((GSet.new managed).run ops).contains y <;> cases hm : Spec.setMem ops.reverse y <;> simp_all

example : ((GSet.new true).run [.add (2, 1), .add (6, 1), .remove (2, 1), .add (2, 5)]).contains (6, 1) = true
    ∧ ((GSet.new true).run [.add (2, 1), .add (6, 1), .remove (2, 1), .add (2, 5)]).contains (2, 1) = false
    ∧ ((GSet.new true).run [.add (2, 1), .add (6, 1), .remove (2, 1), .add (2, 5)]).count = 2 := by decide

/-! ## SafeMap behaves as a map -/

/-- **SafeMap ⊑ map**, for every pair of thresholds (`maxDeletion`, `copyThreshold`) and every sequence
of Set / Del — including the long runs of deletions that switch and merge the two generations:
`Get k` is the value of the last `Set k` unless a `Del k` came after it. -/
theorem safemap_refines_map (maxDel copyThr : Nat) (ops : List MapOp) (k : Nat) :
    (SafeMap.init.run maxDel copyThr ops).get k = Spec.mapGetAfter ops k := by
  have := (SafeMap.run_spec maxDel copyThr ops SafeMap.init [] SafeMap.inv_init (by simp [SafeMap.init, SafeMap.get, alookup, Spec.mapGet])).2 k
  simpa [Spec.mapGetAfter] using this

/-- the two generations stay key-disjoint and duplicate-free (the invariant behind the refinement) -/
theorem safemap_generations_disjoint (maxDel copyThr : Nat) (ops : List MapOp) :
    (SafeMap.init.run maxDel copyThr ops).Inv :=
  (SafeMap.run_spec maxDel copyThr ops SafeMap.init [] SafeMap.inv_init (by simp [SafeMap.init, SafeMap.get, alookup, Spec.mapGet])).1

/-- **`Range` enumerates the map's graph exactly once and `Size` is its cardinality.** -/
theorem safemap_range_size (maxDel copyThr : Nat) (ops : List MapOp) :
    let m := SafeMap.init.run maxDel copyThr ops
    (akeys m.range).Nodup
    ∧ (∀ k v, (k, v) ∈ m.range ↔ Spec.mapGetAfter ops k = some v)
    ∧ m.size = m.range.length := by
  intro m
  have hi : m.Inv := safemap_generations_disjoint maxDel copyThr ops
  refine ⟨m.range_nodup hi, fun k v => ?_, by simp [SafeMap.size, SafeMap.range]⟩
  rw [mem_iff_alookup m.range (m.range_nodup hi), SafeMap.alookup_range]
  show (SafeMap.init.run maxDel copyThr ops).get k = some v ↔ _
  rw [safemap_refines_map]

/-- the executable monitor used by the driver (one association list) computes the same function -/
theorem map_monitor_is_map (ops : List MapOp) (k : Nat) :
    alookup (ops.foldl Spec.alStep []) k = Spec.mapGetAfter ops k := by
  have := (alStep_lookup ops [] [] (by simp [akeys]) (by simp [alookup, Spec.mapGet])).2 k
  simpa [Spec.mapGetAfter] using this

/-- small thresholds (2 deletions, copy below 2 keys) so that the generation switch and a merge happen in
a short history: key 4 moves old → new, then the generations are merged, every lookup sees the latest value -/
example : (SafeMap.init.run 2 2 [.set 1 10, .set 2 20, .set 3 30, .set 4 40, .set 5 50, .del 1, .del 2, .del 3, .set 4 41]).new = [(4, 41)]
    ∧ (SafeMap.init.run 2 2 [.set 1 10, .set 2 20, .set 3 30, .set 4 40, .set 5 50, .del 1, .del 2, .del 3, .set 4 41]).old = [(5, 50)] := by
  decide

example : (SafeMap.init.run 2 2 [.set 1 10, .set 2 20, .set 3 30, .set 4 40, .set 5 50, .del 1, .del 2, .del 3, .set 4 41,
      .set 6 60, .del 6]).new = []
    ∧ (SafeMap.init.run 2 2 [.set 1 10, .set 2 20, .set 3 30, .set 4 40, .set 5 50, .del 1, .del 2, .del 3, .set 4 41,
      .set 6 60, .del 6]).get 4 = some 41 := by
  decide

/-! ## RollingWindow is a view of the event log -/

/-- **`rw_refines_log`.**  For every `size ≥ 1`, `interval ≥ 1`, `ignoreCurrent`, creation time `t0`, every
time-monotone history of additions `(time, value)` and every later time `now` — landing on, before or after
bucket boundaries, with gaps shorter or longer than the window — `Reduce` at `now` hands out, oldest first,
exactly the buckets of the last `size` intervals as cut from the log (`Spec.visible`): the bucket of age `a`
holds the values added during interval `idx now - a`, in arrival order; buckets younger than the newest
addition are not visited (they cannot hold anything) and the current interval is left out when
`ignoreCurrent` is set. -/
theorem rw_refines_log (size interval : Nat) (hs : 1 ≤ size) (hi : 1 ≤ interval) (ign : Bool) (t0 : Nat)
    (evs : List (Nat × Nat)) (hmono : List.Pairwise (· ≤ ·) (t0 :: evs.map (·.1)))
    (now : Nat) (hnow : ∀ t, t ∈ t0 :: evs.map (·.1) → t ≤ now) :
    ((RW.new size interval ign t0).run evs).reduce now = Spec.visible size ign t0 interval evs now := by
  simp only [List.pairwise_cons] at hmono
  have h0 := RW.rep_new size interval ign t0 hs hi
  obtain ⟨r1, r2, r3, r4, r5⟩ := RW.run_rep t0 evs (RW.new size interval ign t0) [] 0 h0
    (by simp [Spec.lastIdx]) hmono.2
    (fun e he => hmono.1 e.1 (List.mem_map_of_mem (f := (·.1)) he))
    now (hnow t0 (by simp)) (fun e he => hnow e.1 (by simp only [List.mem_cons]; exact Or.inr (List.mem_map_of_mem (f := (·.1)) he)))
  have := RW.reduce_rep _ t0 _ _ now r1 r5
  rw [r2, r3, r4] at this
  rw [this]
  simp only [Spec.visible, RW.new]
  congr

/-- **The property in its own words**: under the same hypotheses, the values `Reduce` visits are exactly the
values added during the last `size` intervals — ages `size-1 … 0` — or `size-1 … 1` when the current interval
is ignored (bucket by bucket, arrival order inside a bucket). -/
theorem rw_reduce_visits_last_intervals (size interval : Nat) (hs : 1 ≤ size) (hi : 1 ≤ interval) (ign : Bool) (t0 : Nat)
    (evs : List (Nat × Nat)) (hmono : List.Pairwise (· ≤ ·) (t0 :: evs.map (·.1)))
    (now : Nat) (hnow : ∀ t, t ∈ t0 :: evs.map (·.1) → t ≤ now) :
    (((RW.new size interval ign t0).run evs).reduce now).flatten
      = (Spec.lastIntervals size ign t0 interval evs now).flatten := by
  rw [rw_refines_log size interval hs hi ign t0 evs hmono now hnow]
  simp only [List.pairwise_cons] at hmono
  have h0 := RW.rep_new size interval ign t0 hs hi
  obtain ⟨r1, _, r3, _, r5⟩ := RW.run_rep t0 evs (RW.new size interval ign t0) [] 0 h0
    (by simp [Spec.lastIdx]) hmono.2
    (fun e he => hmono.1 e.1 (List.mem_map_of_mem (f := (·.1)) he))
    now (hnow t0 (by simp)) (fun e he => hnow e.1 (by simp only [List.mem_cons]; exact Or.inr (List.mem_map_of_mem (f := (·.1)) he)))
  have hb := r1.bound
  have hlast := r1.last
  rw [r3] at hb hlast
  simp only [RW.new, List.nil_append] at hb hlast r5
  rw [hlast] at r5
  have hcl := (span_arith t0 interval _ now hi r5).2.1
  simp only [Spec.visible, Spec.lastIntervals]
  generalize Spec.idx t0 interval now = c at hcl ⊢
  generalize Spec.lastIdx t0 interval evs = L at hb hcl ⊢
  cases ign with
  | false =>
    simp only [Bool.false_eq_true, and_false, if_false]
    have := agesDown_flatten_skip size (Spec.contentsAge t0 interval evs c) (c - L) 0 (fun a h1 h2 =>
      contentsAge_empty t0 interval evs L c a hb (by omega))
    rw [Nat.zero_add] at this
    exact this.symm
  | true =>
    simp only [and_true, if_true]
    by_cases hc : c = L
    · simp [hc]
    · simp only [hc, if_false]
      have := agesDown_flatten_skip size (Spec.contentsAge t0 interval evs c) (c - L - 1) 1 (fun a h1 h2 =>
        contentsAge_empty t0 interval evs L c a hb (by omega))
      have e : 1 + (c - L - 1) = c - L := by omega
      rw [e] at this
      exact this.symm

/-- window spans of exactly size-1 / size / size+1 buckets (size 3, interval 10, t0 = 5): additions in
intervals 0, 1, 2; reduce in interval 2 (all three), 3 (two left), 4 (one left), 5 (none) -/
example : ((RW.new 3 10 false 5).run [(5, 1), (14, 2), (15, 3), (25, 4)]).reduce 34 = [[1, 2], [3], [4]]
    ∧ ((RW.new 3 10 false 5).run [(5, 1), (14, 2), (15, 3), (25, 4)]).reduce 35 = [[3], [4]]
    ∧ ((RW.new 3 10 false 5).run [(5, 1), (14, 2), (15, 3), (25, 4)]).reduce 45 = [[4]]
    ∧ ((RW.new 3 10 false 5).run [(5, 1), (14, 2), (15, 3), (25, 4)]).reduce 55 = []
    ∧ ((RW.new 3 10 true 5).run [(5, 1), (14, 2), (15, 3), (25, 4)]).reduce 34 = [[1, 2], [3]] := by decide

example : List.Pairwise (· ≤ ·) (5 :: [(5, 1), (14, 2), (15, 3), (25, 4)].map (·.1)) := by decide

/-! ### RollingWindow when the clock goes backwards (outside the property; characterisation of the code)

The theorems above assume a non-decreasing clock.  `timex.Now()` is `time.Since(initTime)` with
`initTime = time.Now().AddDate(-1, -1, -1)`; `AddDate` builds its result with `time.Date`, which carries no monotonic
reading, so `time.Since` falls back to the wall clock: `timex.Now()` follows the wall clock and *can* go backwards
when the system time is stepped back (observed by the glue test `timex-inittime-has-no-monotonic-reading`).  What the
window then does (`RW.spanB` …, tied to the source by `tie_rwSpanBackwards` / `tie_rwUpdateTailBackwards`, compared
with the real code by the correspondence harness): -/

/-- with a clock that has not gone back, the backwards-aware model is the model -/
theorem rw_backwards_model_agrees (rw : RW) (now v : Nat) (h : rw.lastTime ≤ now) :
    rw.addB now v = rw.add now v ∧ rw.reduceB now = rw.reduce now := by
  have hs : rw.spanB now = rw.span now := by simp [RW.spanB, Nat.not_lt.2 h]
  have hu : rw.updateOffsetB now = rw.updateOffset now := by simp [RW.updateOffsetB, RW.updateOffset, hs, Nat.not_lt.2 h]
  exact ⟨by simp [RW.addB, RW.add, hu], by simp [RW.reduceB, RW.reduce, RW.diffB, RW.diff, hs]⟩

/-- **less than one interval back**: nothing expires, `Add` adds to the newest bucket, `Reduce` sees what it would see
at `lastTime`; **one interval or more back**: `Reduce` visits nothing — the window reads as empty although its values
were added during the last `size` intervals — and the next `Add` runs the reset loop over all `size` buckets. -/
theorem rw_backwards_characterised (rw : RW) (now : Nat) (h : now < rw.lastTime) :
    (rw.lastTime - now < rw.interval → rw.spanB now = 0 ∧ rw.updateOffsetB now = rw ∧ rw.reduceB now = rw.reduce rw.lastTime)
    ∧ (rw.interval ≤ rw.lastTime - now → rw.spanB now = rw.size ∧ rw.reduceB now = []
        ∧ (0 < rw.size → (rw.updateOffsetB now).buckets = RW.resetLoop rw.size rw.offset rw.size rw.buckets
            ∧ now ≤ (rw.updateOffsetB now).lastTime)) := by
  constructor
  · intro hlt
    have hs : rw.spanB now = 0 := by simp [RW.spanB, h, hlt]
    have hs0 : rw.span rw.lastTime = 0 := by
      unfold RW.span; simp only [Nat.sub_self, Nat.zero_div]; split <;> omega
    refine ⟨hs, by simp [RW.updateOffsetB, hs], ?_⟩
    simp [RW.reduceB, RW.reduce, RW.diffB, RW.diff, hs, hs0]
  · intro hge
    have hs : rw.spanB now = rw.size := by simp [RW.spanB, h, Nat.not_lt.2 hge]
    refine ⟨hs, by simp [RW.reduceB, RW.diffB, hs]; intro h0 _; omega, fun hpos => ?_⟩
    have hne : ¬ rw.size = 0 := by omega
    simp [RW.updateOffsetB, hs, hne, h]

/-- size 3, interval 10: values in three buckets; the clock steps back 25: Reduce sees nothing; an Add then wipes all -/
example : ((RW.new 3 10 false 0).run [(5, 1), (15, 2), (25, 3)]).reduceB 0 = []
    ∧ ((RW.new 3 10 false 0).run [(5, 1), (15, 2), (25, 3)]).reduceB 25 = [[1], [2], [3]]
    ∧ ((RW.new 3 10 false 0).run [(5, 1), (15, 2), (25, 3)]).reduceB 12 = [[1], [2], [3]]
    ∧ (((RW.new 3 10 false 0).run [(5, 1), (15, 2), (25, 3)]).addB 0 9).buckets = [[], [], [9]]
    ∧ (((RW.new 3 10 false 0).run [(5, 1), (15, 2), (25, 3)]).addB 0 9).lastTime = 0 := by decide

/-! ## Cache -/

theorem cache_new_inv {T : Type} (limit : Nat) (x : T) : ({ limit := limit, data := [], lru := [], timers := x } : CacheG T).Inv :=
  ⟨by simp [akeys], fun _ => by simp, fun _ k => by simp [akeys], fun _ => by simp⟩

/-- **The cache over the timing wheel behaves as the cache over the timer table.**  For every limit
(0 = no LRU), every number of wheel slots ≥ 1 and every history of Set / Get / Del / Take / tick with any
(jittered) expiry, every operation of the model of the code (map + `keyLru` + C12 timing-wheel model) has the
same result, the same evicted keys, the same expired keys and the same loader calls as the abstract cache
whose timers are the table `key ↦ ticks remaining` (uses `C12.step_refines`). -/
theorem cache_refines_timer_table (limit slots : Nat) (hs : 1 ≤ slots) (ops : List COp) :
    CacheG.run C12.step (Cache.new limit slots) ops = CacheG.run C12.Spec.step (Spec.ACache.new limit) ops :=
  run_rel wheel_sim ops ⟨rfl, rfl, rfl, ⟨C12.init_wf slots hs, by simp [C12.abs, C12.TW.init, Cache.new, Spec.ACache.new]⟩⟩

/-- **Never more than `limit` entries** (any timer mechanism, any history). -/
theorem cache_size_le_limit {T : Type} (ts : TStep T) (limit : Nat) (hl : 0 < limit) (x : T) (ops : List COp) :
    (CacheG.after ts { limit := limit, data := [], lru := [], timers := x } ops).data.length ≤ limit := by
  obtain ⟨h1, h2⟩ := inv_after ts ops _ (cache_new_inv limit x)
  have := CacheG.Inv.size_le _ h1 (by rw [h2]; exact hl)
  rw [h2] at this
  exact this

/-- the recency list holds exactly the keys of the map, once each (invariant behind the size bound) -/
theorem cache_lru_tracks_keys {T : Type} (ts : TStep T) (limit : Nat) (x : T) (ops : List COp) :
    (CacheG.after ts { limit := limit, data := [], lru := [], timers := x } ops).Inv :=
  (inv_after ts ops _ (cache_new_inv limit x)).1

/-- **Eviction is in least-recently-used order.**  In any reachable state, a `Set` evicts at most one key, and
only when the key is new and the cache is full; the victim is the *last* element of the recency list (whose
head is always the key used most recently, see `cache_use_moves_to_front`) and never the key being set. -/
theorem cache_evicts_lru_order {T : Type} (ts : TStep T) (c : CacheG T) (h : c.Inv) (k v t : Nat) :
    (CacheG.set ts c k v t).2.evicted = []
    ∨ ∃ old, (CacheG.set ts c k v t).2.evicted = [old] ∧ c.lru.getLast? = some old ∧ old ≠ k
        ∧ k ∉ c.lru ∧ c.lru.length = c.limit := by
  have h3 := (lruAdd_after_insert ts c k v h).2.2
  unfold CacheG.set
  dsimp only
  rcases h3 with ⟨e, _⟩ | ⟨old, e1, _, e3, e4, e5, e6, _⟩
  · exact Or.inl e
  · exact Or.inr ⟨old, e1, e3, e4, e5, e6⟩

/-- **The evicted key is the least recently used one.**  Run any history with a ghost clock that stamps each
key at every use (a `Set`, a `Get`/`Take` hit, a successful `Take` load — `usedKey`); in the state reached, if a
`Set` evicts `old`, then `old`'s last use is older than the last use of every other cached key. -/
theorem cache_evicts_least_recently_used {T : Type} (ts : TStep T) (limit : Nat) (hl : 0 < limit) (x : T)
    (ops : List COp) (k v t old : Nat) :
    let g := Ghost.run ts ⟨{ limit := limit, data := [], lru := [], timers := x }, fun _ => 0, 0⟩ ops
    (CacheG.set ts g.c k v t).2.evicted = [old] →
    ∀ k', k' ∈ akeys g.c.data → k' ≠ old → g.stamp old < g.stamp k' := by
  intro g hev k' hk' hne
  obtain ⟨hg, hc⟩ := Ghost.inv_run ts ops ⟨{ limit := limit, data := [], lru := [], timers := x }, fun _ => 0, 0⟩
    (cache_new_inv limit x) ⟨fun _ => Nat.le_refl _, fun _ => List.Pairwise.nil⟩
  have hlim : 0 < g.c.limit := by
    have := (inv_after ts ops _ (cache_new_inv limit x)).2
    show 0 < (Ghost.run ts _ ops).c.limit
    rw [Ghost.run_c, this]; exact hl
  rcases cache_evicts_lru_order ts g.c hc k v t with e | ⟨old', e, hlast, _⟩
  · rw [e] at hev; cases hev
  · rw [e] at hev
    simp only [List.cons.injEq, and_true] at hev
    subst hev
    obtain ⟨ys, hys⟩ := List.getLast?_eq_some_iff.1 hlast
    have hs := hg.sorted hlim
    rw [hys, List.pairwise_append] at hs
    have hm : k' ∈ g.c.lru := (hc.sameKeys hlim k').2 hk'
    rw [hys, List.mem_append] at hm
    rcases hm with hm | hm
    · exact hs.2.2 k' hm old' (by simp)
    · simp only [List.mem_singleton] at hm; exact absurd hm hne

/-- limit 2: set 1, set 2, get 1 (stamps 1 ↦ 3, 2 ↦ 2); setting 3 evicts 2, the key used longest ago -/
example :
    let g := Ghost.run C12.Spec.step ⟨Spec.ACache.new 2, fun _ => 0, 0⟩ [.set 1 10 5, .set 2 20 5, .get 1]
    (CacheG.set C12.Spec.step g.c 3 30 5).2.evicted = [2] ∧ g.stamp 2 = 2 ∧ g.stamp 1 = 3 ∧ g.c.lru = [1, 2] := by
  decide

/-- a hit (`Get`, or `Take` on a present key) moves the key to the front of the recency list, evicts nothing -/
theorem cache_use_moves_to_front {T : Type} (ts : TStep T) (c : CacheG T) (hl : 0 < c.limit) (h : c.Inv)
    (k v : Nat) (hv : alookup c.data k = some v) :
    (CacheG.get ts c k).1.lru = k :: c.lru.filter (· ≠ k) ∧ (CacheG.get ts c k).2.evicted = [] := by
  have hm : k ∈ c.lru := (h.sameKeys hl k).2 (mem_akeys_of_lookup _ _ _ hv)
  have h0 : ¬ c.limit = 0 := by omega
  simp [CacheG.get, hv, CacheG.lruAdd, h0, hm]

/-- **`Take` calls the loader only on a miss** (and then exactly once), `Get`/`Take` on a hit return the stored value. -/
theorem take_loads_only_on_miss {T : Type} (ts : TStep T) (c : CacheG T) (k v : Nat) (f : Bool) (t : Nat) :
    ((CacheG.take ts c k v f t).2.loaded = true ↔ alookup c.data k = none)
    ∧ (∀ x, alookup c.data k = some x → (CacheG.take ts c k v f t).2.result = some x)
    ∧ (CacheG.get ts c k).2.result = alookup c.data k := by
  unfold CacheG.take CacheG.get
  cases h : alookup c.data k with
  | none => cases f <;> simp
  | some x => simp

/-- **`Get` returns the latest value set unless the entry was deleted, expired or evicted.**  After
`Set k v` in an invariant state (not expired on the spot: see `set_expires_later`), and any history that does not
address `k` and in which no operation reports `k` as evicted or expired, `Get k` returns `v`. -/
theorem cache_get_latest_unless_gone {T : Type} (ts : TStep T) (c : CacheG T) (h : c.Inv) (k v t : Nat)
    (ops : List COp) (hnow : k ∉ (CacheG.set ts c k v t).2.expired)
    (hun : ∀ op, op ∈ ops → touches k op = false)
    (hgone : ∀ o, o ∈ CacheG.run ts (CacheG.set ts c k v t).1 ops → k ∉ o.evicted ∧ k ∉ o.expired) :
    (CacheG.get ts (CacheG.after ts (CacheG.set ts c k v t).1 ops) k).2.result = some v := by
  rw [(take_loads_only_on_miss ts _ k 0 false 0).2.2]
  rw [frame_run ts ops _ (inv_set ts c k v t h) k hun hgone, set_lookup ts c k v t h k]
  have hev : k ∉ (CacheG.set ts c k v t).2.evicted := by
    rcases cache_evicts_lru_order ts c h k v t with e | ⟨old, e, _, hne, _⟩
    · rw [e]; simp
    · rw [e]; simp only [List.mem_singleton]; exact fun x => hne x.symm
  simp [hnow, hev]

/-- nothing expires at the `Set` itself, whatever the (jittered) expiry — also below one wheel interval
(timer table; by `cache_refines_timer_table` the same holds for the wheel) -/
theorem set_expires_later (c : Spec.ACache) (k v t : Nat) :
    (CacheG.set C12.Spec.step c k v t).2.expired = [] := by
  unfold CacheG.set
  dsimp only
  rw [table_no_immediate_fire _ k v t]
  rfl

/-- **`Get` right after `Set` returns the value set**, for every expiry (corollary for the timer-table cache). -/
theorem cache_get_after_set (c : Spec.ACache) (h : c.Inv) (k v t : Nat) :
    (CacheG.get C12.Spec.step (CacheG.set C12.Spec.step c k v t).1 k).2.result = some v := by
  have := cache_get_latest_unless_gone C12.Spec.step c h k v t [] (by rw [set_expires_later]; simp)
    (by simp) (by simp [CacheG.run])
  simpa [CacheG.after] using this

/-- **One pending timer per cached entry, no timer without an entry** (abstract cache, any history): the keys
of the timer table are exactly the keys of the map, each once.  So no entry can outlive its expiry for lack of
a timer, and no stale timer (of an evicted, deleted or expired entry) can delete a later entry of the same key. -/
theorem cache_timer_per_entry (limit : Nat) (ops : List COp) :
    let c := CacheG.after C12.Spec.step (Spec.ACache.new limit) ops
    (C12.Spec.keys c.timers).Nodup ∧ ∀ k, k ∈ C12.Spec.keys c.timers ↔ k ∈ akeys c.data := by
  intro c
  have h := tinv_after ops (Spec.ACache.new limit) (cache_new_inv limit [])
    ⟨by simp [Spec.ACache.new, C12.Spec.KeysNodup, C12.Spec.keys], by simp [Spec.ACache.new, C12.Spec.keys, akeys]⟩
  exact ⟨h.nodup, h.same⟩

/-- **A tick expires exactly the entries whose timer is due** (one tick left), and they leave the cache. With
`C12`'s `pending_fires_exactly_at_due` for the table (a timer set with `s ≥ 1` is due at the `s`-th following
tick unless set again or removed) this is "has expired" in the property's sense. -/
theorem cache_tick_expires_due (limit : Nat) (ops : List COp) (k : Nat) :
    let c := CacheG.after C12.Spec.step (Spec.ACache.new limit) ops
    (k ∈ (CacheG.tick C12.Spec.step c).2.expired ↔ ∃ v, (⟨k, v, 1⟩ : C12.Spec.Timer) ∈ c.timers)
    ∧ (k ∈ (CacheG.tick C12.Spec.step c).2.expired → alookup (CacheG.tick C12.Spec.step c).1.data k = none) := by
  intro c
  have h := tinv_after ops (Spec.ACache.new limit) (cache_new_inv limit [])
    ⟨by simp [Spec.ACache.new, C12.Spec.KeysNodup, C12.Spec.keys], by simp [Spec.ACache.new, C12.Spec.keys, akeys]⟩
  exact tick_expires_due c h k

/-- limit 2: keys 1, 2 set, 1 read (moves to front), 3 set → 2 is evicted, 1 and 3 stay; expiry after 3 ticks -/
example : (CacheG.run C12.step (Cache.new 2 300) [.set 1 10 3, .set 2 20 3, .get 1, .set 3 30 5, .get 2, .get 1, .tick, .tick, .tick, .get 1, .get 3]).map
      (fun o => (o.evicted, o.expired, o.result))
    = [([], [], none), ([], [], none), ([], [], some 10), ([2], [], none), ([], [], none), ([], [], some 10),
       ([], [], none), ([], [], none), ([], [1], none), ([], [], none), ([], [], some 30)] := by decide

/-! ### Non-positive expiry (`NewCache(0)`, `SetWithExpire(k, v, 0)`, a 1 ns expiry jittered down to 0)

`SetWithExpire` computes `expiry := AroundDuration(expire)` and calls `SetTimer(key, value, expiry)`, which rejects a
delay ≤ 0 with `ErrArgument`; the error is dropped.  The property text ("returns the latest value set for a key unless
it was deleted, has expired, or was evicted") has no clause that an entry must eventually expire, so this is modelled
as the code behaves (`CacheG.setNoTimer`) and not counted as a violation: -/

/-- **`Set` with a non-positive expiry**: the value is stored and returned by the next `Get`, the size bound and the
recency invariant hold, LRU eviction works as usual — and the timers are left alone (apart from the evicted key's):
a pending timer of the key keeps running, so the new value expires on the *old* schedule; a new key gets no timer. -/
theorem set_nonpositive_expiry {T : Type} (ts : TStep T) (c : CacheG T) (h : c.Inv) (k v : Nat) :
    (CacheG.setNoTimer ts c k v).1.Inv ∧ (CacheG.setNoTimer ts c k v).1.limit = c.limit
    ∧ (CacheG.get ts (CacheG.setNoTimer ts c k v).1 k).2.result = some v
    ∧ ((CacheG.setNoTimer ts c k v).2.evicted = [] ∧ (CacheG.setNoTimer ts c k v).1.timers = c.timers
       ∨ ∃ old, (CacheG.setNoTimer ts c k v).2.evicted = [old] ∧ old ≠ k ∧ c.lru.getLast? = some old
           ∧ (CacheG.setNoTimer ts c k v).1.timers = (ts c.timers (.remove old)).1) :=
  setNoTimer_spec ts c h k v

/-- **an entry without a timer never expires**: whatever the number of ticks, it is still there (timer table) -/
theorem entry_without_timer_never_expires (c : Spec.ACache) (hn : C12.Spec.KeysNodup c.timers) (k : Nat)
    (hk : k ∉ C12.Spec.keys c.timers) (n : Nat) :
    alookup (ticksN c n).data k = alookup c.data k :=
  no_timer_never_expires n c hn k hk

/-- key 1 set with expiry 0 in an empty cache: no timer, still there after 40 ticks; key 2 set with 2 ticks and then
re-set with expiry 0: the old timer keeps running and removes the new value at the second tick -/
example : (CacheG.setNoTimer C12.Spec.step (Spec.ACache.new 0) 1 10).1.timers = []
    ∧ alookup (ticksN (CacheG.setNoTimer C12.Spec.step (Spec.ACache.new 0) 1 10).1 40).data 1 = some 10
    ∧ alookup (ticksN (CacheG.setNoTimer C12.Spec.step (CacheG.set C12.Spec.step (Spec.ACache.new 0) 2 20 2).1 2 21).1 1).data 2 = some 21
    ∧ alookup (ticksN (CacheG.setNoTimer C12.Spec.step (CacheG.set C12.Spec.step (Spec.ACache.new 0) 2 20 2).1 2 21).1 2).data 2 = none := by
  decide

/-! ### The defect of the pinned code (kept as a machine-checked witness)

`SetWithExpire` used `MoveTimer` for a key that was already cached; `MoveTimer` with a delay below the wheel
interval (one second) runs the expiry callback at once.  So re-setting a key with a (jittered) expiry below
one second deleted the entry that had just been set: `Get` right after `Set` missed
(`NewCache(time.Second)`: about half of all re-Sets).  Replayed on the real code
(fixes/C16-cache-reset-subsecond-expiry.replay.json), fixed by fixes/C16-cache-reset-subsecond-expiry.patch. -/

/-- the faithful model of the pinned `SetWithExpire` violates `cache_get_after_set`:
set 1 ↦ 10, set 1 ↦ 11 with an expiry of 0 whole ticks (e.g. 500 ms), get 1 misses -/
theorem pinned_set_subsecond_deletes :
    let c1 := (CacheG.setPinned C12.step (Cache.new 0 300) 1 10 1).1
    (CacheG.setPinned C12.step c1 1 11 0).2.expired = [1]
    ∧ (CacheG.get C12.step (CacheG.setPinned C12.step c1 1 11 0).1 1).2.result = none := by decide

/-- the fixed code on the same history -/
example : (CacheG.run C12.step (Cache.new 0 300) [.set 1 10 1, .set 1 11 0, .get 1]).map (fun o => (o.expired, o.result))
    = [([], none), ([], none), ([], some 11)] := by decide

/-! ## Concurrency: the lock-protected structures under every schedule

`Conc.step` (Conc.lean) is the interleaving semantics of "take the object's lock (`Lock`, or `RLock` for the
read-only methods), run the body statement by statement, unlock, return" for an unbounded number of goroutines.
The theorems hold for every reachable state, i.e. every schedule. -/

/-- **The lock makes every call atomic (serializability + real-time order), for any lock-protected object whose
read operations do not write.**  For every returned call `r`: the shared state it found is the committed state
number `r.pos` (`hist`: the state after each write operation's unlock, in unlock order); run *alone* from that
state its body ends with exactly the locals (results) `r.res` and the state `r.post`, which is the next committed
state for a write operation and the same state for a read operation; and `r.pos` lies between the number of
commits at its invocation and at its return (so the serial order respects the order of non-overlapping calls). -/
theorem conc_calls_atomic {σ L Op : Type} (o : Conc.Obj σ L Op) (hp : Conc.ReadsPure o) {s0 : σ} {o0 : Op} {l0 : L}
    {s : Conc.St σ L Op} (h : Conc.Reach o s0 o0 l0 s) (r : Conc.Rec σ L Op) (hr : r ∈ s.rets) :
    Conc.Solo o r.op (s.hist r.pos) r.res (s.hist (r.pos + r.w o))
    ∧ r.pre = s.hist r.pos ∧ r.post = s.hist (r.pos + r.w o)
    ∧ r.invN ≤ r.pos ∧ r.pos + r.w o ≤ r.retN ∧ r.retN ≤ s.n := by
  obtain ⟨a, b, c, d, e, f⟩ := (Conc.inv_reach o hp h).recs r hr
  refine ⟨?_, a, b, d, e, f⟩
  rw [← a, ← b]; exact c

/-- every committed state is produced from the previous one by one recorded write operation run alone, the first
one from the initial state; and the commit counter only grows (`Conc.n_mono`) -/
theorem conc_commits_explained {σ L Op : Type} (o : Conc.Obj σ L Op) (hp : Conc.ReadsPure o) {s0 : σ} {o0 : Op} {l0 : L}
    {s : Conc.St σ L Op} (h : Conc.Reach o s0 o0 l0 s) :
    s.hist 0 = s0 ∧ ∀ i, i < s.n → ∃ r, r ∈ s.rets ∧ o.isRead r.op = false ∧
      Conc.Solo o r.op (s.hist i) r.res (s.hist (i + 1)) := by
  refine ⟨Conc.hist0 o h, fun i hi => ?_⟩
  obtain ⟨r, hr, hw, hpos⟩ := (Conc.inv_reach o hp h).every i hi
  have := (conc_calls_atomic o hp h r hr).1
  have hw1 : r.w o = 1 := by simp [Conc.Rec.w, hw]
  rw [hw1, hpos] at this
  exact ⟨r, hr, hw, this⟩

/-- **Mutual exclusion and reader isolation**: a writer inside its body is alone; while a reader is inside its body
the shared state is the committed state it found when it got the lock — a `Range` or `Get` concurrent with a `Del`
never sees a half-done migration. -/
theorem conc_reader_isolation {σ L Op : Type} (o : Conc.Obj σ L Op) (hp : Conc.ReadsPure o) {s0 : σ} {o0 : Op} {l0 : L}
    {s : Conc.St σ L Op} (h : Conc.Reach o s0 o0 l0 s) (t : Conc.Tid) (ht : s.pc t = .inside) :
    (o.isRead (s.op t) = true → s.sh = s.snap t ∧ s.writer = none)
    ∧ (o.isRead (s.op t) = false → ∀ u, s.pc u = .inside → u = t) := by
  have hi := Conc.inv_reach o hp h
  constructor
  · intro hr
    have hm := hi.insideR t ht hr
    have hw : s.writer = none := by
      cases hw : s.writer with
      | none => rfl
      | some u => have := (hi.lockW u hw).2.2; simp_all
    exact ⟨by rw [(hi.inT t ht).2.1]; exact hi.commit hw, hw⟩
  · intro hr u hu
    have hw := hi.insideW t ht hr
    have hrd := (hi.lockW t hw).2.2
    cases hru : o.isRead (s.op u) with
    | true => have := hi.insideR u hu hru; rw [hrd] at this; cases this
    | false => have := hi.insideW u hu hru; rw [hw] at this; cases this; rfl

/-! ### SafeMap under concurrency (RWMutex; `Del` with its migration spread over many steps, `Range` element by element) -/

/-- the map operation a SafeMap write stands for -/
def CMap.toMapOp : CMap.Op → Option MapOp
  | .set k v => some (.set k v)
  | .del k => some (.del k)
  | _ => none

/-- **every committed state of a concurrently used SafeMap is a state of the sequential model**: the result of
running some sequence of Set / Del (the write operations in unlock order) from the empty map — so every sequential
theorem (`safemap_refines_map`, `safemap_range_size`, `safemap_generations_disjoint`) applies to it. -/
theorem safemap_conc_states_sequential (maxDel thr : Nat) {o0 : CMap.Op} {l0 : Loc} {s : Conc.St SafeMap Loc CMap.Op}
    (h : Conc.Reach (CMap.obj maxDel thr) SafeMap.init o0 l0 s) (i : Nat) (hi : i ≤ s.n) :
    ∃ ops : List MapOp, s.hist i = SafeMap.init.run maxDel thr ops := by
  induction i with
  | zero => exact ⟨[], by rw [(conc_commits_explained _ (CMap.readsPure maxDel thr) h).1]; rfl⟩
  | succ i ih =>
    obtain ⟨ops, hops⟩ := ih (by omega)
    obtain ⟨r, _, hw, hsolo⟩ := (conc_commits_explained _ (CMap.readsPure maxDel thr) h).2 i (by omega)
    have hseq := (CMap.solo_is_seq maxDel thr r.op _ _ _ hsolo).1
    cases hop : r.op with
    | get k => rw [hop] at hw; simp [CMap.obj, CMap.isRead] at hw
    | size => rw [hop] at hw; simp [CMap.obj, CMap.isRead] at hw
    | range => rw [hop] at hw; simp [CMap.obj, CMap.isRead] at hw
    | set k v =>
      refine ⟨ops ++ [.set k v], ?_⟩
      rw [hseq, hop, hops]; simp [CMap.seqPost, SafeMap.run, SafeMap.step]
    | del k =>
      refine ⟨ops ++ [.del k], ?_⟩
      rw [hseq, hop, hops]; simp [CMap.seqPost, SafeMap.run, SafeMap.step]

/-- **SafeMap behaves as a map under every schedule.**  Every returned call of a concurrently used SafeMap — with
`Del`'s generation migration and `Range`'s iteration interleaved statement by statement with the other goroutines —
took effect atomically on a state `m` of the sequential model reached by the writes serialized before it:
`Get k` returned `mapGetAfter ops k`, `Size` the number of keys, `Range` handed its callback every pair of the map's
graph exactly once (no pair of a half-migrated generation twice, none missing), and a write left the sequential
model's next state. -/
theorem safemap_conc_behaves_as_map (maxDel thr : Nat) {o0 : CMap.Op} {l0 : Loc} {s : Conc.St SafeMap Loc CMap.Op}
    (h : Conc.Reach (CMap.obj maxDel thr) SafeMap.init o0 l0 s) (r : Conc.Rec SafeMap Loc CMap.Op) (hr : r ∈ s.rets) :
    ∃ ops : List MapOp, r.pre = SafeMap.init.run maxDel thr ops
      ∧ r.post = CMap.seqPost maxDel thr r.pre r.op
      ∧ (match r.op with
         | .get k => r.res.res = Spec.mapGetAfter ops k
         | .size => r.res.res = some r.pre.range.length
         | .range => (akeys r.res.acc).Nodup ∧ ∀ k v, (k, v) ∈ r.res.acc ↔ Spec.mapGetAfter ops k = some v
         | _ => True) := by
  obtain ⟨hsolo, hpre, hpost, _, hret, hle⟩ := conc_calls_atomic _ (CMap.readsPure maxDel thr) h r hr
  obtain ⟨ops, hops⟩ := safemap_conc_states_sequential maxDel thr h r.pos (by omega)
  have hseq := CMap.solo_is_seq maxDel thr r.op _ _ _ hsolo
  refine ⟨ops, by rw [hpre, hops], by rw [hpost, hpre]; exact hseq.1, ?_⟩
  have hres := hseq.2
  unfold CMap.resultOK at hres
  cases hop : r.op with
  | get k =>
    rw [hop] at hres
    simp only at hres ⊢
    rw [hres, hops]; exact safemap_refines_map maxDel thr ops k
  | size =>
    rw [hop] at hres
    simp only at hres ⊢
    rw [hres, hpre]; simp [SafeMap.size, SafeMap.range]
  | range =>
    rw [hop] at hres
    simp only at hres ⊢
    rw [hres, hops]
    have := safemap_range_size maxDel thr ops
    exact ⟨this.1, this.2.1⟩
  | set k v => trivial
  | del k => trivial

/-- Queue under concurrency (Mutex): every returned Put / Take / Empty took effect atomically, with the result and
successor state of the sequential model `Queue.step` (which `queue_refines_fifo` relates to the FIFO) on the committed
state it found. -/
theorem queue_conc_calls_sequential {o0 : CQueue.Op} {l0 : Loc} {q0 : Queue} {s : Conc.St Queue Loc CQueue.Op}
    (h : Conc.Reach CQueue.obj q0 o0 l0 s) (r : Conc.Rec Queue Loc CQueue.Op) (hr : r ∈ s.rets) :
    (r.post, CQueue.visible r.op r.res) = CQueue.seqStep r.pre r.op
    ∧ r.pre = s.hist r.pos ∧ r.post = s.hist (r.pos + 1) ∧ r.invN ≤ r.pos ∧ r.pos + 1 ≤ r.retN := by
  obtain ⟨hsolo, hpre, hpost, hinv, hret, _⟩ := conc_calls_atomic _ CQueue.readsPure h r hr
  have hw : r.w CQueue.obj = 1 := by simp [Conc.Rec.w, CQueue.obj]
  rw [hw] at hpost hret hsolo
  refine ⟨?_, hpre, hpost, hinv, hret⟩
  rw [hpre, hpost]
  exact CQueue.solo_is_seq r.op _ _ _ hsolo

/-- Ring under concurrency (RWMutex): an `Add` leaves the sequential model's next state, a `Take` (copying element by
element under the read lock) returns exactly `Ring.take` of the committed state it found — by
`ring_keeps_last_n_in_order` the last n values added before it in the serial order. -/
theorem ring_conc_calls_sequential {o0 : CRing.Op} {l0 : Loc} {r0 : Ring} {s : Conc.St Ring Loc CRing.Op}
    (h : Conc.Reach CRing.obj r0 o0 l0 s) (r : Conc.Rec Ring Loc CRing.Op) (hr : r ∈ s.rets) :
    r.pre = s.hist r.pos ∧ CRing.resultOK r.pre r.op r.res r.post := by
  obtain ⟨hsolo, hpre, hpost, _, _, _⟩ := conc_calls_atomic _ CRing.readsPure h r hr
  refine ⟨hpre, ?_⟩
  have := CRing.solo_is_seq r.op _ _ _ hsolo
  rw [← hpre, ← hpost] at this
  exact this

/-- non-vacuity: SafeMap with thresholds 1/2; goroutine 1 runs `Del 7` (which migrates) statement by statement while
goroutine 2 waits for the read lock, then runs `Range`; goroutine 3's `Get` joins the reader.  The schedule is
accepted by `Conc.step` and the three calls return. -/
example :
    (match Conc.run (CMap.obj 1 2) (Conc.init SafeMap.init (.get 0) { pc := 0 })
      [(0, .set 7 70), (0, .size), (0, .size), (0, .size), (0, .size), (0, .size),          -- Set 7 70 by goroutine 0
       (0, .set 8 80), (0, .size), (0, .size), (0, .size), (0, .size), (0, .size),          -- Set 8 80
       (1, .del 7), (2, .range),                                                              -- 1 wants Lock, 2 wants RLock
       (1, .size), (1, .size), (1, .size), (1, .size), (1, .size), (1, .size), (1, .size),  -- Del 7: delete, count, migrate …
       (1, .size), (1, .size), (1, .size), (1, .size), (1, .size),                          -- … unlock (commit 3)
       (2, .size), (3, .get 8), (3, .size), (2, .size), (2, .size), (3, .size), (3, .size), -- Range and Get share the read lock
       (2, .size), (2, .size), (2, .size)] with
     | some s => s.n == 3 && (s.rets.map fun r => (r.tid, r.pos, r.res.acc, r.res.res))
         == [(2, 3, [(8, 80)], none), (3, 3, [], some 80), (1, 2, [], none), (0, 1, [], none), (0, 0, [], none)]
     | none => false) = true := by
  decide

/-- … and while `Del` holds the write lock in the middle of its migration, the reader cannot move -/
example :
    (Conc.run (CMap.obj 1 2) (Conc.init SafeMap.init (.get 0) { pc := 0 })
      [(0, .set 7 70), (0, .size), (0, .size), (0, .size), (0, .size), (0, .size),
       (1, .del 7), (2, .range), (1, .size), (1, .size), (1, .size), (1, .size), (2, .size)]).isNone = true := by
  decide

/-! ### Cache.Take under concurrency: the loader runs at most once per miss

`CT.step` (ConcTake.lean): any number of goroutines calling `Take`, `Set`, `Del` on any keys, entries expiring or
being evicted at any moment, loaders returning values or errors after any delay.  The singleflight barrier is
modelled by its specification, which C07 proves of core/syncx/singleflight.go for every schedule: -/

/-- (C07, re-exported) at most one goroutine per key is between registering and deleting a flight of the real
`SingleFlight` — the user function runs strictly inside — and every returned call got the value of the single
execution of the flight it joined. -/
theorem take_barrier_is_singleflight {s : C07.SF.St} (h : C07.SF.Reach s) :
    (∀ t u, (s.pc t).inFlight = true → (s.pc u).inFlight = true → s.key t = s.key u → t = u)
    ∧ (∀ r, r ∈ s.rets → s.ekey r.exec = r.key ∧ s.fnres r.exec = some r.val) :=
  ⟨fun t u ht hu hk => C07.sf_exclusive h t u ht hu hk, fun r hr => ⟨(C07.sf_no_stale h r hr).2.1, (C07.sf_no_stale h r hr).1⟩⟩

/-- **One loader at a time per key**: two goroutines inside the function handed to the barrier (from the re-check
`doGet` to the end of the flight, the loader call in between) for the same key are the same goroutine. -/
theorem take_loader_exclusive {s : CT.St} (h : CT.Reach s) (t u : CT.Tid)
    (ht : (s.pc t).lead = true) (hu : (s.pc u).lead = true) (hk : s.key t = s.key u) : t = u := by
  have hi := CT.inv_reach h
  obtain ⟨a1, a2⟩ := hi.lead t ht
  obtain ⟨b1, b2⟩ := hi.lead u hu
  rw [hk, b1] at a1
  have e := Option.some.inj a1
  rw [← a2, ← b2, e]

/-- **The loader is called at most once per miss** (any schedule, any number of concurrent `Take`s of the key): the
number of loader calls for a key never exceeds one, plus the number of times a present entry of the key was removed
(`Del`, expiry, eviction), plus the number of loader calls that failed.  In particular, while the entry is not
removed and no load fails, all concurrent and later `Take`s of the key together call the loader once. -/
theorem take_loads_once_per_miss {s : CT.St} (h : CT.Reach s) (k : CT.Key) :
    s.loads k ≤ s.gone k + s.fails k + 1 :=
  ((CT.inv_reach h).cnt k).1

/-- **`Take` calls the loader only on a miss**: a `Take` calls the loader at most once, and only after it has looked
the key up *inside the barrier* and missed; while the loader runs, that holds of the calling goroutine. -/
theorem take_conc_loads_only_on_miss {s : CT.St} (h : CT.Reach s) :
    (∀ r, r ∈ s.rets → r.calls ≤ 1 ∧ (r.calls = 1 → r.sawMiss = true))
    ∧ (∀ t, s.pc t = .f2 → s.calls t = 1 ∧ s.sawMiss t = true) := by
  have hi := CT.inv_reach h
  refine ⟨hi.rets, fun t ht => ?_⟩
  have := hi.calls t
  unfold CT.callsOK at this
  rw [ht] at this
  exact this

/-- non-vacuity: goroutines 1 and 2 `Take` key 5 concurrently (both miss at `t0`), 1 leads, 2 joins the flight;
goroutine 3 arrives after the flight and hits.  One loader call, all three get 50. -/
example :
    (match CT.run CT.init [(1, .take 5), (2, .take 5), (1, .tau), (2, .tau), (1, .tau), (2, .tau), (1, .tau), (1, .tau),
        (1, .ret (some 50)), (1, .tau), (1, .tau), (2, .tau), (1, .tau), (2, .tau), (3, .take 5), (3, .tau), (3, .tau)] with
     | some s => s.loads 5 == 1 && (s.rets.map fun r => (r.tid, r.calls, r.res)) == [(3, 0, some 50), (2, 0, some 50), (1, 1, some 50)]
     | none => false) = true := by
  decide

/-! ### Open finding: the asynchronous expiry callback deletes a value set after the timer fired

`NewCache` hands `cache.Del(key)` to the wheel as expiry callback, and the wheel runs the callbacks of a tick in a new
goroutine.  If the user — a single goroutine suffices — calls `Set(k, v2)` after the tick has taken `k`'s timer out of
the wheel and before that goroutine runs, the callback deletes `v2` and removes `v2`'s fresh timer: `Get k` misses
although the latest value set was neither deleted by the user, nor expired, nor evicted.  Reproduced on the real code
with the callback goroutine delayed (fixes/C16-cache-expiry-callback-race.demo_test.go.txt); proposed fix
fixes/C16-cache-expiry-callback-race.patch (the timer carries the sequence number of its Set; a stale callback is
ignored).  `CacheG.tick` — the schedule in which the callbacks run at once — is the one all other theorems cover. -/

/-- witness (model of the code that exists, tick split into `fire` and the callbacks): set 1 ↦ 10 for one tick; the
tick fires key 1; set 1 ↦ 11 for 50 ticks; the delayed callback runs; get 1 misses and the new timer is gone -/
theorem pinned_expiry_callback_deletes_later_set :
    let c1 := (CacheG.set C12.Spec.step (Spec.ACache.new 0) 1 10 1).1
    let f := CacheG.fire C12.Spec.step c1
    let c2 := (CacheG.set C12.Spec.step f.1 1 11 50).1
    let c3 := CacheG.expire C12.Spec.step c2 f.2
    f.2 = [(1, 10)] ∧ (CacheG.get C12.Spec.step c2 1).2.result = some 11
    ∧ (CacheG.get C12.Spec.step c3 1).2.result = none ∧ c3.timers = [] := by decide

/-- `tick` = `fire` followed at once by the callbacks -/
theorem tick_is_fire_then_callbacks {T : Type} (ts : TStep T) (c : CacheG T) :
    (CacheG.tick ts c).1 = CacheG.expire ts (CacheG.fire ts c).1 (CacheG.fire ts c).2 := rfl

/-! ## Round 4: end-to-end clause theorems -/

/-- **Clause "the Cache returns the latest value set for a key unless it was deleted, has expired, or was evicted" —
end to end, for every history.**  For every limit (0 = no LRU), every timer mechanism, every history of
Set / Get / Del / Take / tick from the empty cache and every key: `Get k` returns exactly `Spec.latestAlive`, which is
computed from the operations and from what they *reported* alone — the value of the last `Set k` (or of the last `Take k`
that loaded successfully), unless a `Del k` came later or a later operation reported `k` evicted or expired.  No side
condition on the history (the earlier `cache_get_latest_unless_gone` needed one that does not address `k`). -/
theorem cache_get_is_latest_alive {T : Type} (ts : TStep T) (limit : Nat) (x : T) (ops : List COp) (k : Nat) :
    (CacheG.get ts (CacheG.after ts { limit := limit, data := [], lru := [], timers := x } ops) k).2.result
      = Spec.latestAlive k none ops (CacheG.run ts { limit := limit, data := [], lru := [], timers := x } ops) := by
  rw [(take_loads_only_on_miss ts _ k 0 false 0).2.2]
  exact after_lookup ts ops _ (cache_new_inv limit x) k

/-- the same for the model of the code (map + keyLru + C12 timing wheel with any number of slots) -/
theorem cache_code_get_is_latest_alive (limit slots : Nat) (ops : List COp) (k : Nat) :
    (CacheG.get C12.step (CacheG.after C12.step (Cache.new limit slots) ops) k).2.result
      = Spec.latestAlive k none ops (CacheG.run C12.step (Cache.new limit slots) ops) :=
  cache_get_is_latest_alive C12.step limit (C12.TW.init slots) ops k

/-- **Clause "Take calls the loader only on a miss" — end to end**: after any history, `Take k` calls the loader iff
the latest value set for `k` is not alive any more (or never was); otherwise it returns that value without loading. -/
theorem cache_take_loads_iff_not_alive {T : Type} (ts : TStep T) (limit : Nat) (x : T) (ops : List COp)
    (k v : Nat) (f : Bool) (t : Nat) :
    let c0 : CacheG T := { limit := limit, data := [], lru := [], timers := x }
    ((CacheG.take ts (CacheG.after ts c0 ops) k v f t).2.loaded = true
        ↔ Spec.latestAlive k none ops (CacheG.run ts c0 ops) = none)
    ∧ (∀ y, Spec.latestAlive k none ops (CacheG.run ts c0 ops) = some y →
        (CacheG.take ts (CacheG.after ts c0 ops) k v f t).2.result = some y) := by
  intro c0
  have h := take_loads_only_on_miss ts (CacheG.after ts c0 ops) k v f t
  rw [after_lookup ts ops c0 (cache_new_inv limit x) k] at h
  exact ⟨h.1, h.2.1⟩

/-- limit 2, one history with every way of losing an entry: key 1 evicted by the third Set, key 2 deleted, key 3
expired at the second tick, key 4 alive — and a `Take` loads only for the lost keys -/
example :
    let ops : List COp := [.set 1 10 9, .set 2 20 9, .set 3 30 2, .del 2, .set 4 40 9, .tick, .tick]
    let outs := CacheG.run C12.step (Cache.new 2 300) ops
    outs.map (fun o => (o.evicted, o.expired)) = [([], []), ([], []), ([1], []), ([], []), ([], []), ([], []), ([], [3])]
    ∧ [1, 2, 3, 4].map (fun k => Spec.latestAlive k none ops outs) = [none, none, none, some 40]
    ∧ [1, 2, 3, 4].map (fun k => (CacheG.take C12.step (CacheG.after C12.step (Cache.new 2 300) ops) k 99 false 5).2.loaded)
        = [true, true, true, false] := by decide

/-- `WithLimit(1)`: every new key evicts the previous one; `WithLimit(0)` (and negative limits, `tie_cacheLimitGuard`):
nothing is ever evicted -/
example : ((CacheG.run C12.step (Cache.new 1 300) [.set 1 10 9, .set 2 20 9, .set 2 21 9, .set 3 30 9]).map (·.evicted)
      = [[], [1], [], [2]])
    ∧ ((CacheG.run C12.step (Cache.new 0 300) [.set 1 10 9, .set 2 20 9, .set 3 30 9, .get 1]).map (·.evicted)
      = [[], [], [], []]) := by decide

/-- **Queue: the representation invariant holds in every reachable state** (head inside the buffer, count ≤ length,
tail = head + count modulo the length) — after any number of expansions, with any wrapped head.  This is the
hypothesis under which the Tie proves the translated growth block equal to `Queue.grow` (`tie_queueGrow`). -/
theorem queue_reachable_inv (size : Nat) (hs : 1 ≤ size) (ops : List QOp) : ((Queue.new size).after ops).Inv :=
  Queue.inv_after ops _ (Queue.inv_new size hs)

/-- size 2, three expansions, each with a different wrapped head -/
example : ((Queue.new 2).after [.put 1, .put 2, .take, .put 3, .put 4, .take, .take, .put 5, .put 6, .put 7, .put 8,
      .take, .put 9, .put 10, .put 11]).elems.length = 8
    ∧ Queue.run (Queue.new 2) [.put 1, .put 2, .take, .put 3, .put 4, .take, .take, .put 5, .put 6, .put 7, .put 8,
      .take, .put 9, .put 10, .put 11, .take, .take, .take, .take, .take, .take, .take, .take]
      = [.unit, .unit, .val (some 1), .unit, .unit, .val (some 2), .val (some 3), .unit, .unit, .unit, .unit,
         .val (some 4), .unit, .unit, .unit, .val (some 5), .val (some 6), .val (some 7), .val (some 8), .val (some 9),
         .val (some 10), .val (some 11), .val none] := by decide

/-- **Set: the variadic adds** (`Add(i ...any)`, `AddInt(ii ...int)`, …: `GSet.addMany`) after any history are the
mathematical set with all the elements added: membership is `setMemAfter` of the history extended by one `add` per
element, and the key list stays duplicate-free. -/
theorem set_variadic_add_refines_finset (managed : Bool) (pre : List SetOp) (xs : List (Nat × Nat)) (y : Nat × Nat) :
    ((((GSet.new managed).run pre).addMany xs).contains y = Spec.setMemAfter (pre ++ xs.map SetOp.add) y)
    ∧ (((GSet.new managed).run pre).addMany xs).data.Nodup := by
  rw [GSet.addMany_eq_run, ← GSet.run_append]
  exact ⟨(set_refines_finset managed _ y).1, (set_refines_finset managed _ y).2.1⟩

example : (((GSet.new true).run [.add (2, 1), .remove (2, 1)]).addMany [(2, 5), (2, 1), (2, 5), (3, 7)]).count = 3
    ∧ (((GSet.new true).run [.add (2, 1), .remove (2, 1)]).addMany [(2, 5), (2, 1), (2, 5), (3, 7)]).tp = 2 := by decide

end GoZero.C16
