import GoZero.C16.Spec
namespace GoZero.C16

theorem placeholder_ring_new (n : Nat) : (Ring.new n).take = [] := by
  simp [Ring.new, Ring.take, Ring.sz]

end GoZero.C16
