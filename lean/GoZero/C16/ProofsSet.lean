/-
C16 — Set model = mathematical set; `lastN` algebra for the Ring; history folds for SafeMap.
-/
import GoZero.C16.ProofsMap
import GoZero.C16.ProofsQueue
namespace GoZero.C16

/-! ### lastN -/

theorem lastN_snoc (n : Nat) (hn : 0 < n) (h : List Nat) (v : Nat) :
    Spec.lastN n (Spec.lastN n h ++ [v]) = Spec.lastN n (h ++ [v]) := by
  unfold Spec.lastN
  by_cases hc : h.length ≤ n
  · have : h.length - n = 0 := by omega
    simp [this]
  · have h1 : (h.drop (h.length - n) ++ [v]).length - n = 1 := by simp; omega
    have h2 : (h ++ [v]).length - n = (h.length - n) + 1 := by simp; omega
    rw [h1, h2]
    rw [List.drop_append_of_le_length (by simp; omega), List.drop_append_of_le_length (by omega)]
    rw [List.drop_drop]

def Ring.run (r : Ring) (vs : List Nat) : Ring := vs.foldl Ring.add r

theorem Ring.run_spec (n : Nat) (hn : 0 < n) (vs : List Nat) : ∀ (r : Ring) (hist : List Nat), r.Inv → r.elems.length = n →
    r.take = Spec.lastN n hist → (r.run vs).take = Spec.lastN n (hist ++ vs) ∧ (r.run vs).Inv := by
  induction vs with
  | nil => intro r hist hi _ ht; simpa [Ring.run] using ⟨ht, hi⟩
  | cons v vs ih =>
    intro r hist hi hl ht
    obtain ⟨h1, h2, h3⟩ := r.add_spec v hi
    have := ih (r.add v) (hist ++ [v]) h1 (by rw [h2, hl]) (by rw [h3, hl, ht, lastN_snoc n hn])
    simpa [Ring.run] using this

theorem Ring.inv_new (n : Nat) (h : 0 < n) : (Ring.new n).Inv := ⟨by simp [Ring.new, h], by simp [Ring.new]; omega⟩

/-! ### Set -/

theorem GSet.mem_add (s : GSet) (x y : Nat × Nat) : y ∈ (s.add x).data ↔ y = x ∨ y ∈ s.data := by
  simp only [GSet.add]
  by_cases h : x ∈ s.data
  · simp only [h, if_true]
    constructor
    · exact Or.inr
    · rintro (e | e)
      · exact e ▸ h
      · exact e
  · simp [h]

theorem GSet.nodup_add (s : GSet) (x : Nat × Nat) (h : s.data.Nodup) : (s.add x).data.Nodup := by
  simp only [GSet.add]
  by_cases hx : x ∈ s.data
  · simpa [hx] using h
  · simp [hx, h]

theorem GSet.mem_remove (s : GSet) (x y : Nat × Nat) : y ∈ (s.remove x).data ↔ y ∈ s.data ∧ y ≠ x := by
  simp [GSet.remove]

theorem GSet.nodup_remove (s : GSet) (x : Nat × Nat) (h : s.data.Nodup) : (s.remove x).data.Nodup := by
  simp only [GSet.remove]; exact h.filter _

theorem GSet.contains_iff (s : GSet) (x : Nat × Nat) : s.contains x = true ↔ x ∈ s.data := by
  unfold GSet.contains
  by_cases h : s.data.length = 0
  · have : s.data = [] := List.eq_nil_of_length_eq_zero h
    simp [this]
  · simp [h]

def GSet.run (s : GSet) (ops : List SetOp) : GSet := ops.foldl GSet.step s

theorem GSet.run_spec (ops : List SetOp) : ∀ (s : GSet) (hist : List SetOp), s.data.Nodup →
    (∀ y, y ∈ s.data ↔ Spec.setMem hist y = true) →
    (s.run ops).data.Nodup ∧ ∀ y, y ∈ (s.run ops).data ↔ Spec.setMem (ops.reverse ++ hist) y = true := by
  induction ops with
  | nil => intro s hist hn hm; exact ⟨hn, by simpa [GSet.run] using hm⟩
  | cons op ops ih =>
    intro s hist hn hm
    have key : (s.step op).data.Nodup ∧ ∀ y, y ∈ (s.step op).data ↔ Spec.setMem (op :: hist) y = true := by
      cases op with
      | add x =>
        refine ⟨s.nodup_add x hn, fun y => ?_⟩
        simp only [GSet.step, GSet.mem_add, Spec.setMem, hm y]
        by_cases h : Spec.setMem hist y = true <;> simp [h]
      | remove x =>
        refine ⟨s.nodup_remove x hn, fun y => ?_⟩
        simp only [GSet.step, GSet.mem_remove, Spec.setMem, hm y]
        by_cases h : y = x <;> simp [h]
    have := ih (s.step op) (op :: hist) key.1 key.2
    simpa [GSet.run] using this

/-! ### SafeMap over histories -/

def SafeMap.run (a b : Nat) (m : SafeMap) (ops : List MapOp) : SafeMap := ops.foldl (SafeMap.step a b) m

theorem SafeMap.run_spec (a b : Nat) (ops : List MapOp) : ∀ (m : SafeMap) (hist : List MapOp), m.Inv →
    (∀ k, m.get k = Spec.mapGet hist k) →
    (m.run a b ops).Inv ∧ ∀ k, (m.run a b ops).get k = Spec.mapGet (ops.reverse ++ hist) k := by
  induction ops with
  | nil => intro m hist hi hg; exact ⟨hi, by simpa [SafeMap.run] using hg⟩
  | cons op ops ih =>
    intro m hist hi hg
    have key : ∀ k, (m.step a b op).get k = Spec.mapGet (op :: hist) k := by
      intro k
      cases op with
      | set k' v => simp only [SafeMap.step, SafeMap.get_set, Spec.mapGet, hg k]
      | del k' => simp only [SafeMap.step, SafeMap.get_del _ _ _ _ _ hi, Spec.mapGet, hg k]
    have := ih (m.step a b op) (op :: hist) (SafeMap.inv_step a b m op hi) key
    simpa [SafeMap.run] using this

/-- the executable map monitor (one association list) is the pointwise-updated function -/
theorem alStep_lookup (ops : List MapOp) : ∀ (s : AL) (hist : List MapOp), (akeys s).Nodup →
    (∀ k, alookup s k = Spec.mapGet hist k) →
    (akeys (ops.foldl Spec.alStep s)).Nodup ∧ ∀ k, alookup (ops.foldl Spec.alStep s) k = Spec.mapGet (ops.reverse ++ hist) k := by
  induction ops with
  | nil => intro s hist hn hg; exact ⟨hn, by simpa using hg⟩
  | cons op ops ih =>
    intro s hist hn hg
    have key : (akeys (Spec.alStep s op)).Nodup ∧ ∀ k, alookup (Spec.alStep s op) k = Spec.mapGet (op :: hist) k := by
      cases op with
      | set k' v => exact ⟨nodup_ainsert _ _ _ hn, fun k => by simp only [Spec.alStep, alookup_ainsert, Spec.mapGet, hg k]⟩
      | del k' => exact ⟨nodup_aerase _ _ hn, fun k => by simp only [Spec.alStep, alookup_aerase, Spec.mapGet, hg k]⟩
    have := ih (Spec.alStep s op) (op :: hist) key.1 key.2
    simpa using this

end GoZero.C16
