/-
C16 — interleaving model of a lock-protected object (core Lean only).

Queue (sync.Mutex), Ring and SafeMap (sync.RWMutex) all have the same shape: every public method takes the
object's lock (`Lock`, or `RLock` for the methods that only read), executes its body statement by statement,
releases the lock and returns.  This file models that shape once, for an unbounded number of goroutines, any
schedule and *non-atomic* bodies:

  * `Obj` : the object — which operations only take the read lock, the locals a body starts with, and ONE
    STATEMENT of a body (`body op locals shared = some (locals', shared')`, `none` = the body is finished:
    unlock and return).
  * `step s t x` : goroutine `t` makes one move — invoke operation `x` / acquire the lock (enabled iff no writer
    holds it and, for a write lock, no reader either) / one body statement / unlock + return.
    (Go's RWMutex additionally keeps new readers out while a writer waits; that only removes schedules.)
  * ghost fields (never read by the control): the number of committed write operations `n`, the shared state
    after each commit `hist`, per goroutine the shared state it found when it got the lock (`snap`) and the
    commit count then (`pos`), and one record per returned call.
-/
namespace GoZero.C16.Conc

abbrev Tid := Nat

def upd {α : Type} (f : Nat → α) (i : Nat) (v : α) : Nat → α := fun j => if j = i then v else f j

@[simp] theorem upd_same {α : Type} (f : Nat → α) (i : Nat) (v : α) : upd f i v i = v := by simp [upd]
theorem upd_other {α : Type} (f : Nat → α) (i j : Nat) (v : α) (h : j ≠ i) : upd f i v j = f j := by simp [upd, h]

structure Obj (σ L Op : Type) where
  isRead : Op → Bool
  start  : Op → L
  body   : Op → L → σ → Option (L × σ)

inductive PC
  | idle | want | inside
  deriving DecidableEq, Repr

/-- one returned call (ghost) -/
structure Rec (σ L Op : Type) where
  tid  : Tid
  op   : Op
  invN : Nat     -- committed writes when the call was invoked
  pos  : Nat     -- committed writes when it got the lock: its place in the serial order
  retN : Nat     -- committed writes when it returned
  pre  : σ       -- shared state it found
  post : σ       -- shared state it left
  res  : L       -- its locals at the end of the body (they hold the results)

structure St (σ L Op : Type) where
  sh      : σ
  writer  : Option Tid
  readers : List Tid
  pc      : Tid → PC
  op      : Tid → Op
  loc     : Tid → L
  -- ghost
  n       : Nat
  hist    : Nat → σ
  snap    : Tid → σ
  pos     : Tid → Nat
  invN    : Tid → Nat
  rets    : List (Rec σ L Op)

variable {σ L Op : Type}

def init (s0 : σ) (o0 : Op) (l0 : L) : St σ L Op :=
  { sh := s0, writer := none, readers := [], pc := fun _ => .idle, op := fun _ => o0, loc := fun _ => l0,
    n := 0, hist := fun _ => s0, snap := fun _ => s0, pos := fun _ => 0, invN := fun _ => 0, rets := [] }

def step (o : Obj σ L Op) (s : St σ L Op) (t : Tid) (x : Op) : Option (St σ L Op) :=
  match s.pc t with
  | .idle => some { s with pc := upd s.pc t .want, op := upd s.op t x, invN := upd s.invN t s.n }
  | .want =>
    if o.isRead (s.op t) then
      if s.writer = none then
        some { s with readers := t :: s.readers, pc := upd s.pc t .inside, loc := upd s.loc t (o.start (s.op t)),
                      snap := upd s.snap t s.sh, pos := upd s.pos t s.n }
      else none
    else
      if s.writer = none ∧ s.readers = [] then
        some { s with writer := some t, pc := upd s.pc t .inside, loc := upd s.loc t (o.start (s.op t)),
                      snap := upd s.snap t s.sh, pos := upd s.pos t s.n }
      else none
  | .inside =>
    match o.body (s.op t) (s.loc t) s.sh with
    | some (l, sh') => some { s with loc := upd s.loc t l, sh := sh' }
    | none =>
      if o.isRead (s.op t) then
        some { s with readers := s.readers.erase t, pc := upd s.pc t .idle,
                      rets := { tid := t, op := s.op t, invN := s.invN t, pos := s.pos t, retN := s.n,
                                pre := s.snap t, post := s.sh, res := s.loc t } :: s.rets }
      else
        some { s with writer := none, pc := upd s.pc t .idle, n := s.n + 1, hist := upd s.hist (s.n + 1) s.sh,
                      rets := { tid := t, op := s.op t, invN := s.invN t, pos := s.pos t, retN := s.n + 1,
                                pre := s.snap t, post := s.sh, res := s.loc t } :: s.rets }

inductive Reach (o : Obj σ L Op) (s0 : σ) (o0 : Op) (l0 : L) : St σ L Op → Prop
  | init : Reach o s0 o0 l0 (init s0 o0 l0)
  | step {s s' : St σ L Op} (t : Tid) (x : Op) : Reach o s0 o0 l0 s → step o s t x = some s' → Reach o s0 o0 l0 s'

def run (o : Obj σ L Op) (s : St σ L Op) : List (Tid × Op) → Option (St σ L Op)
  | [] => some s
  | (t, x) :: rest => match step o s t x with
    | some s' => run o s' rest
    | none => none

/-- the body of `op` executed statement by statement, by itself, from `a` to `b` -/
inductive Exec (o : Obj σ L Op) (op : Op) : L × σ → L × σ → Prop
  | refl (a : L × σ) : Exec o op a a
  | tail {a b : L × σ} (l : L) (sh : σ) : Exec o op a b → o.body op b.1 b.2 = some (l, sh) → Exec o op a (l, sh)

/-- `op` run alone on shared state `pre` ends with locals `res` and shared state `post` -/
def Solo (o : Obj σ L Op) (op : Op) (pre : σ) (res : L) (post : σ) : Prop :=
  Exec o op (o.start op, pre) (res, post) ∧ o.body op res post = none

/-- read operations do not write the shared state (checked per instance) -/
def ReadsPure (o : Obj σ L Op) : Prop :=
  ∀ op l sh l' sh', o.isRead op = true → o.body op l sh = some (l', sh') → sh' = sh

/-- number of commits a call contributes -/
def Rec.w (o : Obj σ L Op) (r : Rec σ L Op) : Nat := if o.isRead r.op then 0 else 1

end GoZero.C16.Conc
