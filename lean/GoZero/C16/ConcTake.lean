/-
C16 — interleaving model of `Cache.Take` (core/collection/cache.go) for an unbounded number of goroutines
(core Lean only).

```
idle  a goroutine invokes Take(key, fetch)   — or performs, in one step, Set(key, v) / Del(key) (the map write
      under c.lock), or the environment removes an entry (`lose`: expiry callback / LRU eviction)
t0    if val, ok := c.doGet(key); ok { return val, nil }                    (c.lock held for the lookup)
b0    c.barrier.Do(key, func…): no flight for the key → become its leader;  else → wait for that flight
w0    (waiter) the flight is finished → take over its result
f0    (leader, inside the function) if val, ok := c.doGet(key); ok { return val, nil }
f1    v, e := fetch()          — the loader is called
f2    the loader returns (input: a value or an error);  if e != nil { return nil, e }
f3    fresh = true; c.Set(key, v)
e0    the flight ends: it is deleted, its result is published to the waiters
r0    return
```
The singleflight barrier is modelled by its specification — at most one flight per key between registering and
deleting, every waiter gets the result of the flight it joined — which is what C07 proves about
core/syncx/singleflight.go for all schedules (`sf_exclusive_fn`, `sf_no_stale`; re-exported in Props.lean).
Ghost counters per key: loader calls, failed loader calls, removals of a present entry.
-/
namespace GoZero.C16.CT

abbrev Tid := Nat
abbrev Key := Nat
abbrev CallId := Nat

def upd {α : Type} (f : Nat → α) (i : Nat) (v : α) : Nat → α := fun j => if j = i then v else f j

@[simp] theorem upd_same {α : Type} (f : Nat → α) (i : Nat) (v : α) : upd f i v i = v := by simp [upd]
theorem upd_other {α : Type} (f : Nat → α) (i j : Nat) (v : α) (h : j ≠ i) : upd f i v j = f j := by simp [upd, h]

inductive PC
  | idle | t0 | b0 | w0 | f0 | f1 | f2 | f3 | e0 | r0
  deriving DecidableEq, Repr

/-- environment input of a step -/
inductive In
  | take (k : Key) | set (k : Key) (v : Nat) | del (k : Key) | lose (k : Key)
  | ret (v : Option Nat)      -- what the loader returns (`none` = error)
  | tau
  deriving DecidableEq, Repr

/-- one returned Take (ghost) -/
structure TRet where
  tid     : Tid
  key     : Key
  calls   : Nat            -- loader calls made by this Take
  sawMiss : Bool           -- it looked the key up inside the barrier and missed
  res     : Option Nat
  deriving DecidableEq, Repr

structure St where
  data   : Key → Option Nat
  flight : Key → Option CallId      -- the barrier's map
  done   : CallId → Option (Option Nat)
  next   : CallId
  leader : CallId → Tid
  pc     : Tid → PC
  key    : Tid → Key
  cur    : Tid → CallId             -- the flight this goroutine leads / waits for
  tmp    : Tid → Nat                -- the loaded value
  res    : Tid → Option Nat
  -- ghost
  calls   : Tid → Nat
  sawMiss : Tid → Bool
  loads   : Key → Nat
  fails   : Key → Nat
  gone    : Key → Nat               -- Del / expiry / eviction of a present entry
  rets    : List TRet

def init : St :=
  { data := fun _ => none, flight := fun _ => none, done := fun _ => none, next := 0, leader := fun _ => 0,
    pc := fun _ => .idle, key := fun _ => 0, cur := fun _ => 0, tmp := fun _ => 0, res := fun _ => none,
    calls := fun _ => 0, sawMiss := fun _ => false, loads := fun _ => 0, fails := fun _ => 0, gone := fun _ => 0,
    rets := [] }

def remove (s : St) (k : Key) : St :=
  match s.data k with
  | some _ => { s with data := upd s.data k none, gone := upd s.gone k (s.gone k + 1) }
  | none => s

def step (s : St) (t : Tid) (x : In) : Option St :=
  match s.pc t with
  | .idle =>
    match x with
    | .take k => some { s with pc := upd s.pc t .t0, key := upd s.key t k, calls := upd s.calls t 0,
                               sawMiss := upd s.sawMiss t false, res := upd s.res t none }
    | .set k v => some { s with data := upd s.data k (some v) }
    | .del k => some (remove s k)
    | .lose k => some (remove s k)
    | _ => none
  | .t0 =>
    match s.data (s.key t) with
    | some v => some { s with res := upd s.res t (some v), pc := upd s.pc t .r0 }
    | none => some { s with pc := upd s.pc t .b0 }
  | .b0 =>
    match s.flight (s.key t) with
    | none => some { s with flight := upd s.flight (s.key t) (some s.next), leader := upd s.leader s.next t,
                            done := upd s.done s.next none, cur := upd s.cur t s.next, next := s.next + 1,
                            pc := upd s.pc t .f0 }
    | some c => some { s with cur := upd s.cur t c, pc := upd s.pc t .w0 }
  | .w0 =>
    match s.done (s.cur t) with
    | some r => some { s with res := upd s.res t r, pc := upd s.pc t .r0 }
    | none => none
  | .f0 =>
    match s.data (s.key t) with
    | some v => some { s with res := upd s.res t (some v), pc := upd s.pc t .e0 }
    | none => some { s with sawMiss := upd s.sawMiss t true, pc := upd s.pc t .f1 }
  | .f1 => some { s with loads := upd s.loads (s.key t) (s.loads (s.key t) + 1), calls := upd s.calls t (s.calls t + 1),
                         pc := upd s.pc t .f2 }
  | .f2 =>
    match x with
    | .ret (some v) => some { s with tmp := upd s.tmp t v, pc := upd s.pc t .f3 }
    | .ret none => some { s with fails := upd s.fails (s.key t) (s.fails (s.key t) + 1), res := upd s.res t none,
                                 pc := upd s.pc t .e0 }
    | _ => none
  | .f3 => some { s with data := upd s.data (s.key t) (some (s.tmp t)), res := upd s.res t (some (s.tmp t)),
                         pc := upd s.pc t .e0 }
  | .e0 => some { s with flight := upd s.flight (s.key t) none, done := upd s.done (s.cur t) (some (s.res t)),
                         pc := upd s.pc t .r0 }
  | .r0 => some { s with pc := upd s.pc t .idle,
                         rets := { tid := t, key := s.key t, calls := s.calls t, sawMiss := s.sawMiss t, res := s.res t } :: s.rets }

inductive Reach : St → Prop
  | init : Reach init
  | step {s s' : St} (t : Tid) (x : In) : Reach s → step s t x = some s' → Reach s'

def run (s : St) : List (Tid × In) → Option St
  | [] => some s
  | (t, x) :: rest => match step s t x with
    | some s' => run s' rest
    | none => none

/-- the goroutine leads a flight (is inside the function handed to the barrier) -/
def PC.lead : PC → Bool
  | .f0 | .f1 | .f2 | .f3 | .e0 => true
  | _ => false

/-- the loader is running -/
def PC.loading : PC → Bool
  | .f2 => true
  | _ => false

end GoZero.C16.CT
