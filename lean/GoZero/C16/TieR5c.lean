/-
C16 — Tie, round 5c: a SEMANTICS for the typed effect lists of round 5.  Every (kind, callee, arguments) triple of the
decision-relevant Cache / RollingWindow methods is read as a transition of the model (`ceffOf`, `reffOf`: a triple that
is not one of the known transitions makes the reading fail), the transitions are run in source order under a lock
discipline (map and recency list only under `c.lock`, `SetTimer` only after the unlock), and the result is proven EQUAL to
the model's function for all states and arguments.  So a reordered, dropped or added call — or an argument that goes to
another parameter — breaks a theorem here, not only a string comparison.  Also: the two phases of Set / Del that the
interleaving model ConcWheel.lean schedules independently.
-/
import GoZero.Extracted.C16
import GoZero.C16.ModelCache
import GoZero.C16.ModelRW
import GoZero.C16.ConcWheel
import GoZero.C16.Model
set_option maxRecDepth 8000
namespace GoZero.C16.TieR5c
open GoZero.C16
open GoZero.Extracted.C16

/-! ### Cache -/

inductive CEff where
  | lock | unlock | dataDelete | dataStore | lruAdd | lruRemove | timerRemove | jitter | timerSet
  deriving Repr, DecidableEq

/-- which model transition a call / store of the Cache methods is; the argument texts are the method's own parameters
(`key`, `value`, `expire`) or the local `expiry` the jitter produced — anything else is not understood -/
def ceffOf : String × String × List String → Option CEff
  | ("call", "c.lock.Lock", []) => some .lock
  | ("call", "c.lock.Unlock", []) => some .unlock
  | ("call", "delete", ["c.data", "key"]) => some .dataDelete
  | ("store", "c.data", ["key", "value"]) => some .dataStore
  | ("call", "c.lruCache.add", ["key"]) => some .lruAdd
  | ("call", "c.lruCache.remove", ["key"]) => some .lruRemove
  | ("call", "c.timingWheel.RemoveTimer", ["key"]) => some .timerRemove
  | ("call", "c.unstableExpiry.AroundDuration", ["expire"]) => some .jitter
  | ("call", "c.timingWheel.SetTimer", ["key", "value", "expiry"]) => some .timerSet
  | _ => none

variable {T : Type} (ts : TStep T)

/-- one transition on (cache, what the call reported so far, is `c.lock` held); `none` = the lock discipline is broken
(map / recency list touched without the lock, lock taken twice, the timer started while the lock is held) -/
def CEff.run (k v ticks : Nat) : CacheG T × CacheOut × Bool → CEff → Option (CacheG T × CacheOut × Bool)
  | (c, o, false), .lock => some (c, o, true)
  | (c, o, true), .unlock => some (c, o, false)
  | (c, o, true), .dataDelete => some ({ c with data := aerase c.data k }, o, true)
  | (c, o, true), .dataStore => some ({ c with data := ainsert c.data k v }, o, true)
  | (c, o, true), .lruAdd => some ((CacheG.lruAdd ts c k).1, { o with evicted := (CacheG.lruAdd ts c k).2 }, true)
  | (c, o, true), .lruRemove => some (CacheG.lruRemove ts c k, o, true)
  | (c, o, l), .timerRemove => some ({ c with timers := (ts c.timers (.remove k)).1 }, o, l)
  | (c, o, false), .jitter => some (c, o, false)
  | (c, o, false), .timerSet =>
    some (CacheG.expire ts { c with timers := (ts c.timers (.set k v ticks)).1 } (ts c.timers (.set k v ticks)).2,
          { o with expired := (ts c.timers (.set k v ticks)).2.map (·.1) }, false)
  | _, _ => none

def runAll (k v ticks : Nat) (st : CacheG T × CacheOut × Bool) : List CEff → Option (CacheG T × CacheOut × Bool)
  | [] => some st
  | e :: es => match CEff.run ts k v ticks st e with
    | none => none
    | some st' => runAll k v ticks st' es

/-- **`Cache.Del` IS `CacheG.del`**: the extracted calls, read as transitions and run in source order from an unlocked
cache, give exactly the model's function (and end unlocked) -/
theorem tie_cacheDel_semantics :
    cacheDelCalls.mapM ceffOf = some [.lock, .dataDelete, .lruRemove, .unlock, .timerRemove]
    ∧ ∀ (T : Type) (ts : TStep T) (c : CacheG T) (k : Nat),
        runAll ts k 0 0 (c, {}, false) [.lock, .dataDelete, .lruRemove, .unlock, .timerRemove]
          = some (CacheG.del ts c k, {}, false) :=
  ⟨by decide, fun _ _ _ _ => rfl⟩

/-- **`Cache.SetWithExpire` IS `CacheG.set`** (state, evicted keys, expired keys) -/
theorem tie_cacheSetWithExpire_semantics :
    cacheSetWithExpireCalls.mapM ceffOf = some [.lock, .dataStore, .lruAdd, .unlock, .jitter, .timerSet]
    ∧ ∀ (T : Type) (ts : TStep T) (c : CacheG T) (k v ticks : Nat),
        runAll ts k v ticks (c, {}, false) [.lock, .dataStore, .lruAdd, .unlock, .jitter, .timerSet]
          = some ((CacheG.set ts c k v ticks).1, (CacheG.set ts c k v ticks).2, false) :=
  ⟨by decide, fun _ _ _ _ _ _ => rfl⟩

/-- **`Cache.onEvict` IS `CacheG.onEvict`** (called with the lock held) -/
theorem tie_cacheOnEvict_semantics :
    cacheOnEvictCalls.mapM ceffOf = some [.dataDelete, .timerRemove]
    ∧ ∀ (T : Type) (ts : TStep T) (c : CacheG T) (k : Nat),
        runAll ts k 0 0 (c, {}, true) [.dataDelete, .timerRemove] = some (CacheG.onEvict ts c k, {}, true) :=
  ⟨by decide, fun _ _ _ _ => rfl⟩

/-- `Cache.Set` forwards its two parameters and the CONFIGURED expiry, in this order, to `SetWithExpire` -/
theorem tie_cacheSet_forward : cacheSetCalls = [("call", "c.SetWithExpire", ["key", "value", "c.expire"])] := by decide

/-- the effects of a method before and after its (only) `Unlock` -/
def phases (l : List CEff) : List CEff × List CEff :=
  ((l.takeWhile (· ≠ .unlock)).filter (· ≠ .lock), (l.dropWhile (· ≠ .unlock)).drop 1)

/-- **The two phases the interleaving model schedules independently** (`CW.setLock` / `CW.setWheel`, `CW.delLock` /
`CW.rmWheel`): under the lock the map and the recency list, after the unlock the wheel — and the map effect of the locked
phase is the one `CW.step` applies (`limit = 0`: the recency list does nothing) -/
theorem tie_cachePhases :
    (cacheDelCalls.mapM ceffOf).map phases = some ([.dataDelete, .lruRemove], [.timerRemove])
    ∧ (cacheSetWithExpireCalls.mapM ceffOf).map phases = some ([.dataStore, .lruAdd], [.jitter, .timerSet])
    ∧ (∀ s k, (CW.step s (.delLock k)).map (·.data) = some (aerase s.data k))
    ∧ (∀ s k v t, (CW.step s (.setLock k v t none)).map (·.data) = some (ainsert s.data k v))
    ∧ (∀ s k, (CW.step s (.delLock k)).map (·.pendRm) = some (s.pendRm ++ [k]))
    ∧ (∀ s k v t, (CW.step s (.setLock k v t none)).map (·.pendSet) = some (s.pendSet ++ [(k, v, t)])) :=
  ⟨by decide, by decide, fun _ _ => rfl, fun _ _ _ _ => rfl, fun _ _ => rfl, fun _ _ _ _ => rfl⟩

/-! ### RollingWindow.Add -/

inductive REff where
  | lock | deferUnlock | updateOffset | winAdd
  deriving Repr, DecidableEq

def reffOf : String × String × List String → Option REff
  | ("call", "rw.lock.Lock", []) => some .lock
  | ("defer", "rw.lock.Unlock", []) => some .deferUnlock
  | ("call", "rw.updateOffset", []) => some .updateOffset
  | ("call", "rw.win.add", ["rw.offset", "v"]) => some .winAdd
  | _ => none

/-- `updateOffset()` moves the window to `now`; `win.add(rw.offset, v)` appends to the bucket at the CURRENT offset
(`tie_winAddSlot`: slot `offset % size`) -/
def REff.run (now v : Nat) (rw : RW) : REff → RW
  | .lock => rw
  | .deferUnlock => rw
  | .updateOffset => rw.updateOffset now
  | .winAdd => { rw with buckets := rw.buckets.set (rw.offset % rw.size) (rw.buckets.getD (rw.offset % rw.size) [] ++ [v]) }

/-- **`RollingWindow.Add` IS `RW.add`**: lock, deferred unlock, `updateOffset` BEFORE the bucket write, the write at the
updated offset -/
theorem tie_rwAdd_semantics :
    rwAddCalls.mapM reffOf = some [.lock, .deferUnlock, .updateOffset, .winAdd]
    ∧ ∀ (rw : RW) (now v : Nat) (hs : (rw.updateOffset now).size = rw.size),
        [REff.lock, .deferUnlock, .updateOffset, .winAdd].foldl (REff.run now v) rw = rw.add now v := by
  refine ⟨by decide, fun rw now v hs => ?_⟩
  simp only [List.foldl, REff.run, RW.add, hs]

theorem updateOffset_size (rw : RW) (now : Nat) : (rw.updateOffset now).size = rw.size := by
  unfold RW.updateOffset; split <;> rfl

/-! ### constructors: which argument initialises which field (round 5e)

The keyed struct literal of every constructor, read field by field (`initOf`: a parameter of the constructor, a fresh
container sized by a parameter, the clock, the package's empty LRU, …) and assembled into the MODEL's initial value: the
result is proven equal to `Queue.new` / `Ring.new` / `RW.new` / (`default expiry`, `Cache.new 0`) for all arguments.  A
field initialised from the wrong parameter (or dropped: Go's zero value) breaks the equality. -/

inductive Init where
  | param (name : String) | freshMap | freshSlice (len : String) | window (size : String) | clock | emptyLru | other (txt : String)
  deriving Repr, DecidableEq

def initOf : String → Init
  | "size" => .param "size" | "interval" => .param "interval" | "expire" => .param "expire" | "limit" => .param "limit"
  | "onEvict" => .param "onEvict" | "buckets" => .param "buckets"
  | "make(map[string]any)" => .freshMap | "make(map[string]*list.Element)" => .freshMap
  | "make([]any, size)" => .freshSlice "size" | "make([]any, n)" => .freshSlice "n"
  | "newWindow[T, B](newBucket, size)" => .window "size"
  | "timex.Now()" => .clock
  | "emptyLruCache" => .emptyLru
  | t => .other t

def fieldInit (fields : List (String × String)) (f : String) : Option Init := (fields.lookup f).map initOf

/-- a field the literal does not mention keeps Go's zero value: the reading must say so explicitly -/
def absent (fields : List (String × String)) (f : String) : Bool := (fields.lookup f).isNone

def queueOf (fields : List (String × String)) (size : Nat) : Option Queue :=
  if fieldInit fields "elements" = some (.freshSlice "size") ∧ fieldInit fields "size" = some (.param "size")
     ∧ absent fields "head" ∧ absent fields "tail" ∧ absent fields "count"
  then some { elems := List.replicate size 0, size := size, head := 0, tail := 0, count := 0 } else none

def ringOf (fields : List (String × String)) (n : Nat) : Option Ring :=
  if fieldInit fields "elements" = some (.freshSlice "n") ∧ absent fields "index"
  then some { elems := List.replicate n 0, index := 0 } else none

def rwOf (fields : List (String × String)) (size interval now : Nat) : Option RW :=
  if fieldInit fields "size" = some (.param "size") ∧ fieldInit fields "win" = some (.window "size")
     ∧ fieldInit fields "interval" = some (.param "interval") ∧ fieldInit fields "lastTime" = some .clock
     ∧ absent fields "offset" ∧ absent fields "ignoreCurrent"
  then some { size := size, interval := interval, ignoreCurrent := false, offset := 0, lastTime := now,
              buckets := List.replicate size [] } else none

/-- (the default expiry `Set` / `Take` will use, the empty cache) -/
def cacheOf (fields : List (String × String)) (expire slots : Nat) : Option (Nat × Cache) :=
  if fieldInit fields "data" = some .freshMap ∧ fieldInit fields "expire" = some (.param "expire")
     ∧ fieldInit fields "lruCache" = some .emptyLru
  then some (expire, Cache.new 0 slots) else none

theorem tie_newQueue_semantics (size : Nat) : queueOf newQueueFields size = some (Queue.new size) := by
  have : (fieldInit newQueueFields "elements" = some (.freshSlice "size") ∧ fieldInit newQueueFields "size" = some (.param "size")
     ∧ absent newQueueFields "head" ∧ absent newQueueFields "tail" ∧ absent newQueueFields "count") := by decide
  simp only [queueOf, this, and_self, if_true, Queue.new]

theorem tie_newRing_semantics (n : Nat) : ringOf newRingFields n = some (Ring.new n) := by
  have : (fieldInit newRingFields "elements" = some (.freshSlice "n") ∧ absent newRingFields "index") := by decide
  simp only [ringOf, this, and_self, if_true, Ring.new]

theorem tie_newRollingWindow_semantics (size interval now : Nat) :
    rwOf newRollingWindowFields size interval now = some (RW.new size interval false now) := by
  have : (fieldInit newRollingWindowFields "size" = some (.param "size") ∧ fieldInit newRollingWindowFields "win" = some (.window "size")
     ∧ fieldInit newRollingWindowFields "interval" = some (.param "interval") ∧ fieldInit newRollingWindowFields "lastTime" = some .clock
     ∧ absent newRollingWindowFields "offset" ∧ absent newRollingWindowFields "ignoreCurrent") := by decide
  simp only [rwOf, this, and_self, if_true, RW.new]

/-- **`NewCache`: the default expiry IS the `expire` argument, the cache starts empty and unbounded** (options come after) -/
theorem tie_newCache_semantics (expire slots : Nat) : cacheOf newCacheFields expire slots = some (expire, Cache.new 0 slots) := by
  have : (fieldInit newCacheFields "data" = some .freshMap ∧ fieldInit newCacheFields "expire" = some (.param "expire")
     ∧ fieldInit newCacheFields "lruCache" = some .emptyLru) := by decide
  simp only [cacheOf, this, and_self, if_true]

/-- `newKeyLru`: the limit and the eviction callback are the arguments; `newWindow`: the buckets built in the loop -/
theorem tie_newKeyLru_newWindow_fields :
    fieldInit newKeyLruFields "limit" = some (.param "limit") ∧ fieldInit newKeyLruFields "onEvict" = some (.param "onEvict")
    ∧ fieldInit newKeyLruFields "elements" = some .freshMap
    ∧ fieldInit newWindowFields "buckets" = some (.param "buckets") ∧ fieldInit newWindowFields "size" = some (.param "size") := by
  decide

end GoZero.C16.TieR5c
