/-
C16 — Queue ⊑ FIFO and Ring = last n: index arithmetic lemmas and the refinement steps.
-/
import GoZero.C16.Spec
namespace GoZero.C16

/-- `a % n` for `a < 2n` without a symbolic modulus (so that `omega` can finish) -/
theorem mod2 {a n : Nat} (hn : 0 < n) (h : a < 2 * n) : a % n = if a < n then a else a - n := by
  split
  · exact Nat.mod_eq_of_lt ‹_›
  · rw [Nat.mod_eq_sub_mod (by omega), Nat.mod_eq_of_lt (by omega)]

theorem map_range_succ (f : Nat → Nat) (n : Nat) :
    (List.range (n + 1)).map f = (List.range n).map f ++ [f n] := by
  simp [List.range_succ]

theorem map_range_succ' (f : Nat → Nat) (n : Nat) :
    (List.range (n + 1)).map f = f 0 :: (List.range n).map (fun i => f (i + 1)) := by
  simp [List.range_succ_eq_map, List.map_map, Function.comp_def]

theorem map_range_congr (f g : Nat → Nat) (n : Nat) (h : ∀ i, i < n → f i = g i) :
    (List.range n).map f = (List.range n).map g := by
  apply List.map_congr_left
  intro i hi
  exact h i (List.mem_range.1 hi)

/-! ### Queue -/

/-- the queue's content, oldest first -/
def Queue.abs (q : Queue) : List Nat :=
  (List.range q.count).map fun i => q.elems.getD ((q.head + i) % q.elems.length) 0

structure Queue.Inv (q : Queue) : Prop where
  size_pos : 0 < q.size
  len_pos  : 0 < q.elems.length
  head_lt  : q.head < q.elems.length
  count_le : q.count ≤ q.elems.length
  tail_eq  : q.tail = (q.head + q.count) % q.elems.length

theorem Queue.inv_new (size : Nat) (h : 0 < size) : (Queue.new size).Inv :=
  ⟨h, by simp [Queue.new, h], by simp [Queue.new, h], by simp [Queue.new], by simp [Queue.new]⟩

theorem Queue.abs_new (size : Nat) : (Queue.new size).abs = [] := by simp [Queue.new, Queue.abs]

theorem Queue.full_iff (q : Queue) (hi : q.Inv) : (q.head = q.tail ∧ q.count > 0) ↔ q.count = q.elems.length := by
  have h1 := hi.tail_eq
  have := hi.head_lt
  have := hi.count_le
  have := hi.len_pos
  rw [mod2 hi.len_pos (by omega)] at h1
  constructor
  · intro ⟨h2, h3⟩; split at h1 <;> omega
  · intro h2; split at h1 <;> omega

theorem getD_rot (l : List Nat) (h i : Nat) (hh : h < l.length) (hi : i < l.length) :
    (l.drop h ++ l.take h)[i]?.getD 0 = l[(h + i) % l.length]?.getD 0 := by
  rw [mod2 (by omega) (by omega)]
  by_cases hc : h + i < l.length
  · simp only [hc, if_true]
    rw [List.getElem?_append_left (by simp; omega)]
    simp
  · simp only [hc, if_false]
    rw [List.getElem?_append_right (by simp; omega)]
    simp only [List.length_drop]
    rw [List.getElem?_take_of_lt (by omega)]
    congr 2
    omega

theorem Queue.grow_spec (q : Queue) (hi : q.Inv) :
    q.grow.Inv ∧ q.grow.abs = q.abs ∧ q.grow.count = q.count ∧ q.grow.count < q.grow.elems.length := by
  unfold Queue.grow
  by_cases hf : q.head = q.tail ∧ q.count > 0
  · have hc := (q.full_iff hi).1 hf
    have := hi.size_pos
    have := hi.head_lt
    rw [if_pos hf]
    have hl : (q.elems.drop q.head ++ q.elems.take q.head ++ List.replicate q.size 0).length = q.elems.length + q.size := by
      simp; omega
    refine ⟨⟨hi.size_pos, ?_, ?_, ?_, ?_⟩, ?_, rfl, ?_⟩
    · dsimp only; rw [hl]; omega
    · dsimp only; rw [hl]; omega
    · dsimp only; rw [hl]; omega
    · dsimp only; rw [hl, hc, Nat.zero_add, Nat.mod_eq_of_lt (by omega)]
    · unfold Queue.abs
      dsimp only
      rw [hl]
      apply map_range_congr
      intro i hi'
      rw [hc] at hi'
      rw [Nat.zero_add, Nat.mod_eq_of_lt (by omega)]
      simp only [List.getD_eq_getElem?_getD]
      rw [List.getElem?_append_left (by simp; omega)]
      exact getD_rot q.elems q.head i (by omega) hi'
    · dsimp only; rw [hl]; omega
  · have hlt : q.count < q.elems.length := by
      have := hi.count_le
      have h2 := (q.full_iff hi)
      apply Nat.lt_of_le_of_ne hi.count_le
      intro e
      exact hf (h2.2 e)
    rw [if_neg hf]
    exact ⟨hi, rfl, rfl, hlt⟩

theorem Queue.put_core (q : Queue) (x : Nat) (hi : q.Inv) (hlt : q.count < q.elems.length) :
    let q' : Queue := { q with elems := q.elems.set q.tail x, tail := (q.tail + 1) % q.elems.length, count := q.count + 1 }
    q'.Inv ∧ q'.abs = q.abs ++ [x] := by
  intro q'
  have hlen : q'.elems.length = q.elems.length := by simp [q']
  have htl : q.tail < q.elems.length := by rw [hi.tail_eq]; exact Nat.mod_lt _ hi.len_pos
  refine ⟨⟨hi.size_pos, by rw [hlen]; exact hi.len_pos, by rw [hlen]; exact hi.head_lt, by rw [hlen]; simp only [q']; omega, ?_⟩, ?_⟩
  · simp only [q', List.length_set]
    rw [hi.tail_eq, Nat.mod_add_mod]
    rfl
  · unfold Queue.abs
    simp only [q', List.length_set]
    rw [map_range_succ]
    congr 1
    · apply map_range_congr
      intro i hi'
      simp only [List.getD_eq_getElem?_getD]
      rw [List.getElem?_set_ne]
      rw [hi.tail_eq]
      have := hi.head_lt
      have := hi.len_pos
      rw [mod2 hi.len_pos (by omega), mod2 (a := q.head + i) hi.len_pos (by omega)]
      split <;> split <;> omega
    · simp only [List.getD_eq_getElem?_getD, ← hi.tail_eq]
      rw [List.getElem?_set_self htl]
      rfl

theorem Queue.put_spec (q : Queue) (x : Nat) (hi : q.Inv) : (q.put x).Inv ∧ (q.put x).abs = q.abs ++ [x] := by
  obtain ⟨h1, h2, _, h4⟩ := q.grow_spec hi
  have := Queue.put_core q.grow x h1 h4
  rw [h2] at this
  exact this

theorem Queue.take_spec (q : Queue) (hi : q.Inv) :
    (q.take).2.Inv ∧ (q.take).1 = q.abs.head? ∧ (q.take).2.abs = q.abs.tail := by
  unfold Queue.take
  by_cases hc : q.count = 0
  · simp only [hc, if_true]
    refine ⟨hi, ?_, ?_⟩ <;> simp [Queue.abs, hc]
  · simp only [hc, if_false]
    obtain ⟨c, hc'⟩ : ∃ c, q.count = c + 1 := ⟨q.count - 1, by omega⟩
    have := hi.head_lt
    have := hi.count_le
    refine ⟨⟨hi.size_pos, hi.len_pos, Nat.mod_lt _ hi.len_pos, by simp only []; omega, ?_⟩, ?_, ?_⟩
    · simp only []
      rw [Nat.mod_add_mod, hi.tail_eq]
      congr 1
      omega
    · unfold Queue.abs
      rw [hc', map_range_succ']
      simp [Nat.mod_eq_of_lt hi.head_lt]
    · unfold Queue.abs
      simp only []
      rw [hc', map_range_succ']
      simp only [List.tail_cons, Nat.add_sub_cancel]
      apply map_range_congr
      intro i _
      rw [Nat.mod_add_mod]
      congr 2
      omega

theorem Queue.step_refines (q : Queue) (hi : q.Inv) (op : QOp) :
    (q.step op).1.Inv ∧ (q.step op).1.abs = (Spec.Fifo.step q.abs op).1 ∧ (q.step op).2 = (Spec.Fifo.step q.abs op).2 := by
  cases op with
  | put x =>
    have := q.put_spec x hi
    exact ⟨this.1, this.2, rfl⟩
  | take =>
    have := q.take_spec hi
    refine ⟨this.1, this.2.2, ?_⟩
    simp only [Queue.step, Spec.Fifo.step, this.2.1]
  | empty =>
    refine ⟨hi, rfl, ?_⟩
    simp only [Queue.step, Spec.Fifo.step, Queue.empty, Queue.abs]
    congr 1
    by_cases h : q.count = 0 <;> simp [h]

theorem Queue.run_refines (ops : List QOp) : ∀ (q : Queue), q.Inv → Queue.run q ops = Spec.Fifo.run q.abs ops := by
  induction ops with
  | nil => intro q _; rfl
  | cons op ops ih =>
    intro q hi
    obtain ⟨h1, h2, h3⟩ := q.step_refines hi op
    simp only [Queue.run, Spec.Fifo.run]
    rw [ih _ h1, h2, h3]

/-! ### Ring -/

structure Ring.Inv (r : Ring) : Prop where
  len_pos : 0 < r.elems.length
  idx_lt  : r.index < 2 * r.elems.length

theorem Ring.take_length (r : Ring) : r.take.length = r.sz := by simp [Ring.take]

theorem Ring.add_spec (r : Ring) (v : Nat) (hi : r.Inv) :
    (r.add v).Inv ∧ (r.add v).elems.length = r.elems.length ∧
      (r.add v).take = Spec.lastN r.elems.length (r.take ++ [v]) := by
  have hn := hi.len_pos
  have hx := hi.idx_lt
  have hlen : (r.add v).elems.length = r.elems.length := by simp [Ring.add]
  refine ⟨⟨by rw [hlen]; exact hn, ?_⟩, hlen, ?_⟩
  · rw [hlen]; simp only [Ring.add]; split <;> omega
  · unfold Spec.lastN
    by_cases hc : r.index < r.elems.length
    · -- still filling: nothing dropped
      have hsz : r.sz = r.index := by simp [Ring.sz]; omega
      have : (r.take ++ [v]).length - r.elems.length = 0 := by
        simp [Ring.take_length, hsz]; omega
      rw [this, List.drop_zero]
      have hi' : (r.add v).index = r.index + 1 := by simp only [Ring.add]; split <;> omega
      unfold Ring.take Ring.sz Ring.start
      rw [hlen, hi']
      have e1 : ¬ r.index + 1 > r.elems.length := by omega
      have e2 : ¬ r.index > r.elems.length := by omega
      simp only [e1, e2, if_false, Nat.zero_add]
      rw [map_range_succ]
      congr 1
      · apply map_range_congr
        intro i hi2
        simp only [Ring.add, List.getD_eq_getElem?_getD]
        rw [List.getElem?_set_ne]
        rw [Nat.mod_eq_of_lt hc, Nat.mod_eq_of_lt (by omega)]
        omega
      · simp only [Ring.add, List.getD_eq_getElem?_getD]
        rw [Nat.mod_eq_of_lt hc]
        rw [List.getElem?_set_self hc]
        rfl
    · -- full: the oldest element is overwritten
      have hsz : r.sz = r.elems.length := by simp only [Ring.sz]; split <;> omega
      have hd : (r.take ++ [v]).length - r.elems.length = 1 := by
        simp [Ring.take_length, hsz]
      rw [hd]
      have hst : r.start = r.index - r.elems.length := by
        simp only [Ring.start]
        split
        · rw [mod2 hn hx]; split <;> omega
        · omega
      have hsz' : (r.add v).sz = r.elems.length := by
        simp only [Ring.sz, hlen]
        simp only [Ring.add]
        split <;> split <;> omega
      have hst' : (r.add v).start = (r.index - r.elems.length + 1) % r.elems.length := by
        simp only [Ring.start, hlen]
        simp only [Ring.add]
        by_cases h2 : r.index + 1 ≥ 2 * r.elems.length
        · simp only [h2, if_true]
          have e : (r.index - r.elems.length + 1) % r.elems.length = 0 := by
            rw [mod2 hn (by omega)]; split <;> omega
          rw [e]
          split
          · rename_i h; exact absurd h (by omega)
          · rfl
        · simp only [h2, if_false]
          have e : (r.index - r.elems.length + 1) % r.elems.length = r.index + 1 - r.elems.length := by
            rw [mod2 hn (by omega)]; split <;> omega
          rw [e]
          split
          · rw [mod2 hn (by omega)]; split <;> omega
          · omega
      obtain ⟨m, hm⟩ : ∃ m, r.elems.length = m + 1 := ⟨r.elems.length - 1, by omega⟩
      have e1 : (r.add v).take = (List.range (m + 1)).map (fun i => (r.add v).elems.getD (((r.add v).start + i) % (m + 1)) 0) := by
        unfold Ring.take; rw [hsz', hlen, hm]
      have e2 : r.take = (List.range (m + 1)).map (fun i => r.elems.getD ((r.start + i) % (m + 1)) 0) := by
        unfold Ring.take; rw [hsz, hm]
      rw [e1, e2, map_range_succ, map_range_succ']
      simp only [List.cons_append, List.drop_succ_cons, List.drop_zero]
      have hpos : r.index % r.elems.length = r.index - r.elems.length := by
        rw [mod2 hn hx]; split <;> omega
      have hlt : r.index - r.elems.length < r.elems.length := by omega
      congr 1
      · apply map_range_congr
        intro i hi2
        rw [hst', hst]
        simp only [Ring.add, List.getD_eq_getElem?_getD]
        rw [hpos, ← hm, Nat.mod_add_mod, List.getElem?_set_ne]
        · congr 2
          congr 1
          omega
        · rw [mod2 hn (by omega)]
          split <;> omega
      · rw [hst']
        simp only [Ring.add, List.getD_eq_getElem?_getD]
        rw [hpos, ← hm, Nat.mod_add_mod]
        have : (r.index - r.elems.length + 1 + m) % r.elems.length = r.index - r.elems.length := by
          rw [mod2 hn (by omega)]; split <;> omega
        rw [this, List.getElem?_set_self hlt]
        rfl

end GoZero.C16
