/-
C16 — the lock gives atomicity: inductive invariant of `Conc.step`, for every object, every schedule.
-/
import GoZero.C16.Conc
namespace GoZero.C16.Conc

variable {σ L Op : Type}

structure RecOK (o : Obj σ L Op) (s : St σ L Op) (r : Rec σ L Op) : Prop where
  pre   : r.pre = s.hist r.pos
  post  : r.post = s.hist (r.pos + r.w o)
  solo  : Solo o r.op r.pre r.res r.post
  inv   : r.invN ≤ r.pos
  ret   : r.pos + r.w o ≤ r.retN
  le    : r.retN ≤ s.n

structure Inv (o : Obj σ L Op) (s : St σ L Op) : Prop where
  lockW   : ∀ t, s.writer = some t → s.pc t = .inside ∧ o.isRead (s.op t) = false ∧ s.readers = []
  insideW : ∀ t, s.pc t = .inside → o.isRead (s.op t) = false → s.writer = some t
  insideR : ∀ t, s.pc t = .inside → o.isRead (s.op t) = true → t ∈ s.readers
  rdrs    : ∀ t, t ∈ s.readers → s.pc t = .inside ∧ o.isRead (s.op t) = true
  nodup   : s.readers.Nodup
  commit  : s.writer = none → s.sh = s.hist s.n
  inT     : ∀ t, s.pc t = .inside → s.pos t = s.n ∧ s.snap t = s.hist s.n ∧ s.invN t ≤ s.n
              ∧ Exec o (s.op t) (o.start (s.op t), s.snap t) (s.loc t, s.sh)
  wantT   : ∀ t, s.pc t = .want → s.invN t ≤ s.n
  recs    : ∀ r, r ∈ s.rets → RecOK o s r
  every   : ∀ i, i < s.n → ∃ r, r ∈ s.rets ∧ o.isRead r.op = false ∧ r.pos = i

theorem inv_init (o : Obj σ L Op) (s0 : σ) (o0 : Op) (l0 : L) : Inv o (init s0 o0 l0) := by
  refine ⟨?_, ?_, ?_, ?_, ?_, ?_, ?_, ?_, ?_, ?_⟩ <;> simp [init]

theorem pc_upd (s : St σ L Op) (t u : Tid) (p : PC) : upd s.pc t p u = if u = t then p else s.pc u := rfl

/-! ### the five kinds of step -/

theorem inv_invoke (o : Obj σ L Op) (s : St σ L Op) (h : Inv o s) (t : Tid) (x : Op) (hpc : s.pc t = .idle) :
    Inv o { s with pc := upd s.pc t .want, op := upd s.op t x, invN := upd s.invN t s.n } := by
  have hne : ∀ u, s.pc u = .inside → u ≠ t := fun u hu e => by rw [e, hpc] at hu; cases hu
  refine ⟨?_, ?_, ?_, ?_, h.nodup, h.commit, ?_, ?_, ?_, h.every⟩
  · intro u hu
    have := h.lockW u hu
    have hut := hne u this.1
    simp only [upd_other _ _ _ _ hut]
    exact this
  · intro u hu
    by_cases hut : u = t
    · subst hut; simp at hu
    · simp only [upd_other _ _ _ _ hut] at hu ⊢; exact h.insideW u hu
  · intro u hu
    by_cases hut : u = t
    · subst hut; simp at hu
    · simp only [upd_other _ _ _ _ hut] at hu ⊢; exact h.insideR u hu
  · intro u hu
    have := h.rdrs u hu
    have hut := hne u this.1
    simp only [upd_other _ _ _ _ hut]
    exact this
  · intro u hu
    by_cases hut : u = t
    · subst hut; simp at hu
    · simp only [upd_other _ _ _ _ hut] at hu ⊢; exact h.inT u hu
  · intro u hu
    by_cases hut : u = t
    · subst hut; simp
    · simp only [upd_other _ _ _ _ hut] at hu ⊢; exact h.wantT u hu
  · intro r hr
    obtain ⟨a, b, c, d, e, f⟩ := h.recs r hr
    exact ⟨a, b, c, d, e, f⟩

theorem inv_acquireR (o : Obj σ L Op) (s : St σ L Op) (h : Inv o s) (t : Tid) (hpc : s.pc t = .want)
    (hr : o.isRead (s.op t) = true) (hw : s.writer = none) :
    Inv o { s with readers := t :: s.readers, pc := upd s.pc t .inside, loc := upd s.loc t (o.start (s.op t)),
                   snap := upd s.snap t s.sh, pos := upd s.pos t s.n } := by
  have hne : ∀ u, s.pc u = .inside → u ≠ t := fun u hu e => by rw [e, hpc] at hu; cases hu
  have hnot : t ∉ s.readers := fun hm => by have := (h.rdrs t hm).1; rw [hpc] at this; cases this
  refine ⟨?_, ?_, ?_, ?_, ?_, h.commit, ?_, ?_, ?_, h.every⟩
  · intro u hu; rw [hw] at hu; cases hu
  · intro u hu hru
    by_cases hut : u = t
    · subst hut; rw [hr] at hru; cases hru
    · simp only [upd_other _ _ _ _ hut] at hu; exact h.insideW u hu hru
  · intro u hu hru
    by_cases hut : u = t
    · subst hut; simp
    · simp only [upd_other _ _ _ _ hut] at hu
      exact List.mem_cons_of_mem _ (h.insideR u hu hru)
  · intro u hu
    by_cases hut : u = t
    · subst hut; simp [hr]
    · simp only [List.mem_cons, hut, false_or] at hu
      simp only [upd_other _ _ _ _ hut]; exact h.rdrs u hu
  · exact List.nodup_cons.2 ⟨hnot, h.nodup⟩
  · intro u hu
    by_cases hut : u = t
    · subst hut
      simp only [upd_same]
      exact ⟨trivial, h.commit hw, h.wantT u hpc, Exec.refl _⟩
    · simp only [upd_other _ _ _ _ hut] at hu ⊢; exact h.inT u hu
  · intro u hu
    by_cases hut : u = t
    · subst hut; simp at hu
    · simp only [upd_other _ _ _ _ hut] at hu; exact h.wantT u hu
  · intro r hr'
    obtain ⟨a, b, c, d, e, f⟩ := h.recs r hr'
    exact ⟨a, b, c, d, e, f⟩

theorem inv_acquireW (o : Obj σ L Op) (s : St σ L Op) (h : Inv o s) (t : Tid) (hpc : s.pc t = .want)
    (hr : o.isRead (s.op t) = false) (hw : s.writer = none) (hrd : s.readers = []) :
    Inv o { s with writer := some t, pc := upd s.pc t .inside, loc := upd s.loc t (o.start (s.op t)),
                   snap := upd s.snap t s.sh, pos := upd s.pos t s.n } := by
  -- nobody is inside
  have hnone : ∀ u, s.pc u ≠ .inside := by
    intro u hu
    cases hru : o.isRead (s.op u) with
    | true => have := h.insideR u hu hru; rw [hrd] at this; cases this
    | false => have := h.insideW u hu hru; rw [hw] at this; cases this
  refine ⟨?_, ?_, ?_, ?_, h.nodup, ?_, ?_, ?_, ?_, h.every⟩
  · intro u hu
    simp only [Option.some.injEq] at hu
    subst hu
    simp [hr, hrd]
  · intro u hu _
    by_cases hut : u = t
    · subst hut; rfl
    · simp only [upd_other _ _ _ _ hut] at hu; exact absurd hu (hnone u)
  · intro u hu hru
    by_cases hut : u = t
    · subst hut; rw [hr] at hru; cases hru
    · simp only [upd_other _ _ _ _ hut] at hu; exact absurd hu (hnone u)
  · intro u hu; simp only [hrd] at hu; cases hu
  · intro hc; cases hc
  · intro u hu
    by_cases hut : u = t
    · subst hut
      simp only [upd_same]
      exact ⟨trivial, h.commit hw, h.wantT u hpc, Exec.refl _⟩
    · simp only [upd_other _ _ _ _ hut] at hu; exact absurd hu (hnone u)
  · intro u hu
    by_cases hut : u = t
    · subst hut; simp at hu
    · simp only [upd_other _ _ _ _ hut] at hu; exact h.wantT u hu
  · intro r hr'
    obtain ⟨a, b, c, d, e, f⟩ := h.recs r hr'
    exact ⟨a, b, c, d, e, f⟩

theorem inv_body (o : Obj σ L Op) (hp : ReadsPure o) (s : St σ L Op) (h : Inv o s) (t : Tid) (hpc : s.pc t = .inside)
    (l : L) (sh' : σ) (hb : o.body (s.op t) (s.loc t) s.sh = some (l, sh')) :
    Inv o { s with loc := upd s.loc t l, sh := sh' } := by
  cases hr : o.isRead (s.op t) with
  | true =>
    -- a reader: the shared state does not change
    have e : sh' = s.sh := hp _ _ _ _ _ hr hb
    subst e
    have hwn : s.writer = none := by
      cases hw : s.writer with
      | none => rfl
      | some u => have := (h.lockW u hw).2.2; have := h.insideR t hpc hr; simp_all
    refine ⟨h.lockW, h.insideW, h.insideR, h.rdrs, h.nodup, h.commit, ?_, h.wantT, ?_, h.every⟩
    · intro u hu
      by_cases hut : u = t
      · subst hut
        obtain ⟨a, b, c, d⟩ := h.inT u hu
        simp only [upd_same]
        exact ⟨a, b, c, Exec.tail l s.sh d hb⟩
      · simp only [upd_other _ _ _ _ hut]; exact h.inT u hu
    · intro r hr'
      obtain ⟨a, b, c, d, e, f⟩ := h.recs r hr'
      exact ⟨a, b, c, d, e, f⟩
  | false =>
    have hw := h.insideW t hpc hr
    have hrd := (h.lockW t hw).2.2
    have honly : ∀ u, s.pc u = .inside → u = t := by
      intro u hu
      cases hru : o.isRead (s.op u) with
      | true => have := h.insideR u hu hru; rw [hrd] at this; cases this
      | false => have := h.insideW u hu hru; rw [hw] at this; cases this; rfl
    refine ⟨h.lockW, h.insideW, h.insideR, h.rdrs, h.nodup, ?_, ?_, h.wantT, ?_, h.every⟩
    · intro hc; change s.writer = none at hc; rw [hw] at hc; cases hc
    · intro u hu
      have hut := honly u hu
      subst hut
      obtain ⟨a, b, c, d⟩ := h.inT u hu
      simp only [upd_same]
      exact ⟨a, b, c, Exec.tail l sh' d hb⟩
    · intro r hr'
      obtain ⟨a, b, c, d, e, f⟩ := h.recs r hr'
      exact ⟨a, b, c, d, e, f⟩

theorem inv_releaseR (o : Obj σ L Op) (s : St σ L Op) (h : Inv o s) (t : Tid) (hpc : s.pc t = .inside)
    (hb : o.body (s.op t) (s.loc t) s.sh = none) (hr : o.isRead (s.op t) = true) :
    Inv o { s with readers := s.readers.erase t, pc := upd s.pc t .idle,
                   rets := { tid := t, op := s.op t, invN := s.invN t, pos := s.pos t, retN := s.n,
                             pre := s.snap t, post := s.sh, res := s.loc t } :: s.rets } := by
  have hmem := h.insideR t hpc hr
  have hwn : s.writer = none := by
    cases hw : s.writer with
    | none => rfl
    | some u => have := (h.lockW u hw).2.2; simp_all
  obtain ⟨i1, i2, i3, i4⟩ := h.inT t hpc
  refine ⟨?_, ?_, ?_, ?_, h.nodup.erase t, h.commit, ?_, ?_, ?_, ?_⟩
  · intro u hu; change s.writer = some u at hu; rw [hwn] at hu; cases hu
  · intro u hu hru
    by_cases hut : u = t
    · subst hut; simp at hu
    · simp only [upd_other _ _ _ _ hut] at hu; exact h.insideW u hu hru
  · intro u hu hru
    by_cases hut : u = t
    · subst hut; simp at hu
    · simp only [upd_other _ _ _ _ hut] at hu
      exact (List.mem_erase_of_ne hut).2 (h.insideR u hu hru)
  · intro u hu
    have hut : u ≠ t := fun e => by subst e; exact (h.nodup.mem_erase_iff.1 hu).1 rfl
    simp only [upd_other _ _ _ _ hut]
    exact h.rdrs u (List.mem_of_mem_erase hu)
  · intro u hu
    by_cases hut : u = t
    · subst hut; simp at hu
    · simp only [upd_other _ _ _ _ hut] at hu ⊢; exact h.inT u hu
  · intro u hu
    by_cases hut : u = t
    · subst hut; simp at hu
    · simp only [upd_other _ _ _ _ hut] at hu ⊢; exact h.wantT u hu
  · intro r hr'
    simp only [List.mem_cons] at hr'
    rcases hr' with e | hr'
    · subst e
      have hw0 : Rec.w o { tid := t, op := s.op t, invN := s.invN t, pos := s.pos t, retN := s.n,
                             pre := s.snap t, post := s.sh, res := s.loc t } = 0 := by simp [Rec.w, hr]
      refine ⟨?_, ?_, ⟨i4, hb⟩, ?_, ?_, Nat.le_refl _⟩
      · show s.snap t = s.hist (s.pos t); rw [i1, i2]
      · show s.sh = s.hist (s.pos t + _); rw [hw0, i1, Nat.add_zero]; exact h.commit hwn
      · show s.invN t ≤ s.pos t; rw [i1]; exact i3
      · show s.pos t + _ ≤ s.n; rw [hw0, i1]; exact Nat.le_refl _
    · obtain ⟨a, b, c, d, e, f⟩ := h.recs r hr'
      exact ⟨a, b, c, d, e, f⟩
  · intro i hi
    obtain ⟨r, hr1, hr2⟩ := h.every i hi
    exact ⟨r, List.mem_cons_of_mem _ hr1, hr2⟩

theorem inv_releaseW (o : Obj σ L Op) (s : St σ L Op) (h : Inv o s) (t : Tid) (hpc : s.pc t = .inside)
    (hb : o.body (s.op t) (s.loc t) s.sh = none) (hr : o.isRead (s.op t) = false) :
    Inv o { s with writer := none, pc := upd s.pc t .idle, n := s.n + 1, hist := upd s.hist (s.n + 1) s.sh,
                   rets := { tid := t, op := s.op t, invN := s.invN t, pos := s.pos t, retN := s.n + 1,
                             pre := s.snap t, post := s.sh, res := s.loc t } :: s.rets } := by
  have hw := h.insideW t hpc hr
  have hrd := (h.lockW t hw).2.2
  have honly : ∀ u, s.pc u = .inside → u = t := by
    intro u hu
    cases hru : o.isRead (s.op u) with
    | true => have := h.insideR u hu hru; rw [hrd] at this; cases this
    | false => have := h.insideW u hu hru; rw [hw] at this; cases this; rfl
  obtain ⟨i1, i2, i3, i4⟩ := h.inT t hpc
  have hold : ∀ j, j ≤ s.n → upd s.hist (s.n + 1) s.sh j = s.hist j := fun j hj => upd_other _ _ _ _ (by omega)
  refine ⟨?_, ?_, ?_, ?_, h.nodup, ?_, ?_, ?_, ?_, ?_⟩
  · intro u hu; cases hu
  · intro u hu _
    by_cases hut : u = t
    · subst hut; simp at hu
    · simp only [upd_other _ _ _ _ hut] at hu; exact absurd (honly u hu) hut
  · intro u hu _
    by_cases hut : u = t
    · subst hut; simp at hu
    · simp only [upd_other _ _ _ _ hut] at hu; exact absurd (honly u hu) hut
  · intro u hu; change u ∈ s.readers at hu; rw [hrd] at hu; cases hu
  · intro _; show s.sh = upd s.hist (s.n + 1) s.sh (s.n + 1); simp
  · intro u hu
    by_cases hut : u = t
    · subst hut; simp at hu
    · simp only [upd_other _ _ _ _ hut] at hu; exact absurd (honly u hu) hut
  · intro u hu
    by_cases hut : u = t
    · subst hut; simp at hu
    · simp only [upd_other _ _ _ _ hut] at hu
      have := h.wantT u hu
      show s.invN u ≤ s.n + 1
      omega
  · intro r hr'
    simp only [List.mem_cons] at hr'
    rcases hr' with e | hr'
    · subst e
      have hw1 : Rec.w o { tid := t, op := s.op t, invN := s.invN t, pos := s.pos t, retN := s.n + 1,
                             pre := s.snap t, post := s.sh, res := s.loc t } = 1 := by simp [Rec.w, hr]
      refine ⟨?_, ?_, ⟨i4, hb⟩, ?_, ?_, Nat.le_refl _⟩
      · show s.snap t = upd s.hist (s.n + 1) s.sh (s.pos t); rw [i1, hold _ (Nat.le_refl _), i2]
      · show s.sh = upd s.hist (s.n + 1) s.sh (s.pos t + _); rw [hw1, i1]; simp
      · show s.invN t ≤ s.pos t; rw [i1]; exact i3
      · show s.pos t + _ ≤ s.n + 1; rw [hw1, i1]; exact Nat.le_refl _
    · obtain ⟨a, b, c, d, e, f⟩ := h.recs r hr'
      have hwle : r.w o ≤ 1 := by unfold Rec.w; split <;> omega
      refine ⟨?_, ?_, c, d, e, Nat.le_succ_of_le f⟩
      · show r.pre = upd s.hist (s.n + 1) s.sh r.pos; rw [hold _ (by omega)]; exact a
      · show r.post = upd s.hist (s.n + 1) s.sh (r.pos + r.w o); rw [hold _ (by omega)]; exact b
  · intro i hi
    by_cases hin : i < s.n
    · obtain ⟨r, hr1, hr2⟩ := h.every i hin
      exact ⟨r, List.mem_cons_of_mem _ hr1, hr2⟩
    · have : i = s.n := by change i < s.n + 1 at hi; omega
      subst this
      exact ⟨_, List.mem_cons_self, hr, i1⟩

theorem inv_step (o : Obj σ L Op) (hp : ReadsPure o) {s s' : St σ L Op} {t : Tid} {x : Op} (h : Inv o s)
    (hs : step o s t x = some s') : Inv o s' := by
  unfold step at hs
  split at hs
  · next hpc => cases hs; exact inv_invoke o s h t x hpc
  · next hpc =>
    split at hs
    · next hr =>
      split at hs
      · next hw => cases hs; exact inv_acquireR o s h t hpc hr hw
      · cases hs
    · next hr =>
      split at hs
      · next hw => cases hs; exact inv_acquireW o s h t hpc (by simpa using hr) hw.1 hw.2
      · cases hs
  · next hpc =>
    split at hs
    · next l sh' hb => cases hs; exact inv_body o hp s h t hpc l sh' hb
    · next hb =>
      split at hs
      · next hr => cases hs; exact inv_releaseR o s h t hpc hb hr
      · next hr => cases hs; exact inv_releaseW o s h t hpc hb (by simpa using hr)

theorem inv_reach (o : Obj σ L Op) (hp : ReadsPure o) {s0 : σ} {o0 : Op} {l0 : L} {s : St σ L Op}
    (h : Reach o s0 o0 l0 s) : Inv o s := by
  induction h with
  | init => exact inv_init o s0 o0 l0
  | step t x _ hs ih => exact inv_step o hp ih hs

/-- the commit counter never decreases, the committed states are never rewritten -/
theorem n_mono (o : Obj σ L Op) {s s' : St σ L Op} {t : Tid} {x : Op} (hs : step o s t x = some s') :
    s.n ≤ s'.n ∧ ∀ i, i ≤ s.n → s'.hist i = s.hist i := by
  unfold step at hs
  split at hs
  · cases hs; exact ⟨Nat.le_refl _, fun _ _ => rfl⟩
  · split at hs
    · split at hs
      · cases hs; exact ⟨Nat.le_refl _, fun _ _ => rfl⟩
      · cases hs
    · split at hs
      · cases hs; exact ⟨Nat.le_refl _, fun _ _ => rfl⟩
      · cases hs
  · split at hs
    · cases hs; exact ⟨Nat.le_refl _, fun _ _ => rfl⟩
    · split at hs
      · cases hs; exact ⟨Nat.le_refl _, fun _ _ => rfl⟩
      · cases hs; exact ⟨Nat.le_succ _, fun i hi => upd_other _ _ _ _ (by omega)⟩

theorem hist0 (o : Obj σ L Op) {s0 : σ} {o0 : Op} {l0 : L} {s : St σ L Op} (h : Reach o s0 o0 l0 s) : s.hist 0 = s0 := by
  induction h with
  | init => rfl
  | step t x _ hs ih => rw [(n_mono o hs).2 0 (Nat.zero_le _)]; exact ih

/-! ### bodies are deterministic: the solo result is unique -/

theorem Exec.trans' (o : Obj σ L Op) (op : Op) {a b c : L × σ} (h1 : Exec o op a b) (h2 : Exec o op b c) : Exec o op a c := by
  induction h2 with
  | refl => exact h1
  | tail l sh _ hb ih => exact Exec.tail l sh ih hb

/-- head-first view of an execution -/
theorem Exec.head (o : Obj σ L Op) (op : Op) {a c : L × σ} (l : L) (sh : σ) (hb : o.body op a.1 a.2 = some (l, sh))
    (h : Exec o op (l, sh) c) : Exec o op a c :=
  Exec.trans' o op (Exec.tail l sh (Exec.refl a) hb) h

theorem Exec.cases_head (o : Obj σ L Op) (op : Op) {a c : L × σ} (h : Exec o op a c) :
    a = c ∨ ∃ l sh, o.body op a.1 a.2 = some (l, sh) ∧ Exec o op (l, sh) c := by
  induction h with
  | refl => exact Or.inl rfl
  | tail l sh h' hb ih =>
    rcases ih with e | ⟨l1, sh1, hb1, h1⟩
    · subst e; exact Or.inr ⟨l, sh, hb, Exec.refl _⟩
    · exact Or.inr ⟨l1, sh1, hb1, Exec.tail l sh h1 hb⟩

/-- executions from one start are linearly ordered (the body is a function) -/
theorem Exec.linear (o : Obj σ L Op) (op : Op) {a b c : L × σ} (h1 : Exec o op a b) (h2 : Exec o op a c) :
    Exec o op b c ∨ Exec o op c b := by
  induction h1 with
  | refl => exact Or.inl h2
  | tail l sh _ hb ih =>
    rcases ih with h | h
    · rcases Exec.cases_head o op h with e | ⟨l1, sh1, hb1, h1⟩
      · subst e; exact Or.inr (Exec.tail l sh (Exec.refl _) hb)
      · rw [hb] at hb1; cases hb1; exact Or.inl h1
    · exact Or.inr (Exec.tail l sh h hb)

/-- from the same start, two finished executions end in the same place -/
theorem Exec.det (o : Obj σ L Op) (op : Op) {a b c : L × σ} (h1 : Exec o op a b) (hb : o.body op b.1 b.2 = none)
    (h2 : Exec o op a c) (hc : o.body op c.1 c.2 = none) : b = c := by
  rcases Exec.linear o op h1 h2 with h | h
  · rcases Exec.cases_head o op h with e | ⟨l1, sh1, hb1, _⟩
    · exact e
    · rw [hb] at hb1; cases hb1
  · rcases Exec.cases_head o op h with e | ⟨l1, sh1, hb1, _⟩
    · exact e.symm
    · rw [hc] at hb1; cases hb1

/-- a solo run that is known (`res0`, `post0`) determines every solo run from the same state -/
theorem Solo.unique (o : Obj σ L Op) (op : Op) (pre : σ) {res0 res : L} {post0 post : σ}
    (h0 : Solo o op pre res0 post0) (h : Solo o op pre res post) : res = res0 ∧ post = post0 := by
  have := Exec.det o op h.1 h.2 h0.1 h0.2
  exact ⟨congrArg Prod.fst this, congrArg Prod.snd this⟩

end GoZero.C16.Conc
