/-
C16 — in-memory collections.  Executable models of the code that exists (core Lean only):
  Queue    core/collection/fifo.go      (slice + head/tail/count, growth by `size` when full)
  Ring     core/collection/ring.go      (slice + index folded back at 2n)
  Set      core/collection/set.go       (map[any]placeholder + type tag that only drives logging)
  SafeMap  core/collection/safemap.go   (two generations dirtyOld/dirtyNew + deletion counters)
RollingWindow and Cache live in ModelRW.lean / ModelCache.lean.

Go slices are `List Nat` (`nil`/zero value = 0), Go maps are association lists with unique keys
(`ainsert` = erase + cons), elements are naturals (Set: pairs (type tag, value)).
-/
namespace GoZero.C16

/-! ### association lists (Go maps) -/

abbrev AL := List (Nat × Nat)

def alookup (l : AL) (k : Nat) : Option Nat :=
  match l with
  | [] => none
  | (a, b) :: r => if a = k then some b else alookup r k

def aerase (l : AL) (k : Nat) : AL := l.filter (fun p => p.1 ≠ k)

/-- `m[k] = v` -/
def ainsert (l : AL) (k v : Nat) : AL := (k, v) :: aerase l k

def ahas (l : AL) (k : Nat) : Bool := (alookup l k).isSome

/-- `for k, v := range src { dst[k] = v }` (iteration order of `src` as stored; immaterial for unique keys) -/
def acopyInto (dst src : AL) : AL := src.foldl (fun d p => ainsert d p.1 p.2) dst

/-! ### Queue (fifo.go) -/

structure Queue where
  elems : List Nat
  size  : Nat
  head  : Nat
  tail  : Nat
  count : Nat
  deriving Repr, DecidableEq

def Queue.new (size : Nat) : Queue :=
  { elems := List.replicate size 0, size := size, head := 0, tail := 0, count := 0 }

/-- the growth step of `Put`: `nodes = elements[head:] ++ elements[:head] ++ zeros(size)` -/
def Queue.grow (q : Queue) : Queue :=
  if q.head = q.tail ∧ q.count > 0 then
    { q with elems := q.elems.drop q.head ++ q.elems.take q.head ++ List.replicate q.size 0,
             head := 0, tail := q.elems.length }
  else q

def Queue.put (q : Queue) (x : Nat) : Queue :=
  { q.grow with elems := q.grow.elems.set q.grow.tail x,
                tail := (q.grow.tail + 1) % q.grow.elems.length,
                count := q.grow.count + 1 }

def Queue.take (q : Queue) : Option Nat × Queue :=
  if q.count = 0 then (none, q)
  else (some (q.elems.getD q.head 0),
        { q with head := (q.head + 1) % q.elems.length, count := q.count - 1 })

def Queue.empty (q : Queue) : Bool := q.count = 0

/-! ### Ring (ring.go) -/

structure Ring where
  elems : List Nat
  index : Nat
  deriving Repr, DecidableEq

def Ring.new (n : Nat) : Ring := { elems := List.replicate n 0, index := 0 }

def Ring.add (r : Ring) (v : Nat) : Ring :=
  { elems := r.elems.set (r.index % r.elems.length) v,
    index := if r.index + 1 ≥ 2 * r.elems.length then r.index + 1 - r.elems.length else r.index + 1 }

def Ring.start (r : Ring) : Nat := if r.index > r.elems.length then r.index % r.elems.length else 0
def Ring.sz (r : Ring) : Nat := if r.index > r.elems.length then r.elems.length else r.index

def Ring.take (r : Ring) : List Nat :=
  (List.range r.sz).map fun i => r.elems.getD ((r.start + i) % r.elems.length) 0

/-! ### Set (set.go).  Elements are (dynamic type, value); type tags as the Go constants. -/

def tpUnmanaged : Nat := 0
def tpUntyped : Nat := 1

structure GSet where
  data : List (Nat × Nat)   -- keys of the Go map, no duplicates
  tp   : Nat
  deriving Repr, DecidableEq

def GSet.new (managed : Bool) : GSet := { data := [], tp := if managed then tpUntyped else tpUnmanaged }

/-- dynamic types the type switches of `setType`/`validate` know: intType=2 … stringType=6 -/
def knownType (t : Nat) : Bool := 2 ≤ t ∧ t ≤ 6

/-- `validate`: would log an error (the element is still processed). -/
def GSet.mismatch (s : GSet) (x : Nat × Nat) : Bool := s.tp ≠ tpUnmanaged ∧ knownType x.1 ∧ s.tp ≠ x.1

/-- `add` (`setType` on a still untyped managed set; `x.1` is the Go type constant of the element's
dynamic type, 7 = any other type) -/
def GSet.add (s : GSet) (x : Nat × Nat) : GSet :=
  { data := if x ∈ s.data then s.data else x :: s.data,
    tp := if s.tp = tpUntyped ∧ knownType x.1 then x.1 else s.tp }

/-- variadic `Add(i ...any)` / `AddInt(ii ...int)` …: `for _, each := range i { s.add(each) }` -/
def GSet.addMany (s : GSet) (xs : List (Nat × Nat)) : GSet := xs.foldl GSet.add s

def GSet.remove (s : GSet) (x : Nat × Nat) : GSet := { s with data := s.data.filter (· ≠ x) }

def GSet.contains (s : GSet) (x : Nat × Nat) : Bool :=
  if s.data.length = 0 then false else decide (x ∈ s.data)

def GSet.count (s : GSet) : Nat := s.data.length

/-! ### SafeMap (safemap.go) -/

structure SafeMap where
  old    : AL
  new    : AL
  delOld : Nat
  delNew : Nat
  deriving Repr, DecidableEq

def SafeMap.init : SafeMap := { old := [], new := [], delOld := 0, delNew := 0 }

def SafeMap.get (m : SafeMap) (k : Nat) : Option Nat :=
  match alookup m.old k with
  | some v => some v
  | none => alookup m.new k

def SafeMap.set (maxDel : Nat) (m : SafeMap) (k v : Nat) : SafeMap :=
  if m.delOld ≤ maxDel then
    { m with new := if ahas m.new k then aerase m.new k else m.new,
             delNew := if ahas m.new k then m.delNew + 1 else m.delNew,
             old := ainsert m.old k v }
  else
    { m with old := if ahas m.old k then aerase m.old k else m.old,
             delOld := if ahas m.old k then m.delOld + 1 else m.delOld,
             new := ainsert m.new k v }

/-- first part of `Del`: delete from the generation that holds the key -/
def SafeMap.del1 (m : SafeMap) (k : Nat) : SafeMap :=
  if ahas m.old k then { m with old := aerase m.old k, delOld := m.delOld + 1 }
  else if ahas m.new k then { m with new := aerase m.new k, delNew := m.delNew + 1 }
  else m

/-- second part: old generation exhausted → it is merged into the new one, which becomes the old one -/
def SafeMap.mig1 (maxDel copyThr : Nat) (m : SafeMap) : SafeMap :=
  if m.delOld ≥ maxDel ∧ m.old.length < copyThr then
    { old := acopyInto m.new m.old, delOld := m.delNew, new := [], delNew := 0 }
  else m

/-- third part: new generation exhausted → merged back into the old one -/
def SafeMap.mig2 (maxDel copyThr : Nat) (m : SafeMap) : SafeMap :=
  if m.delNew ≥ maxDel ∧ m.new.length < copyThr then
    { m with old := acopyInto m.old m.new, new := [], delNew := 0 }
  else m

def SafeMap.del (maxDel copyThr : Nat) (m : SafeMap) (k : Nat) : SafeMap :=
  (m.del1 k).mig1 maxDel copyThr |>.mig2 maxDel copyThr

def SafeMap.size (m : SafeMap) : Nat := m.old.length + m.new.length

/-- `Range` visits dirtyOld then dirtyNew -/
def SafeMap.range (m : SafeMap) : AL := m.old ++ m.new

/-! ### operations and runs -/

inductive QOp where
  | put (x : Nat) | take | empty
  deriving Repr, DecidableEq

/-- observable result of a queue operation -/
inductive QOut where
  | unit | val (x : Option Nat) | bool (b : Bool)
  deriving Repr, DecidableEq

def Queue.step (q : Queue) : QOp → Queue × QOut
  | .put x => (q.put x, .unit)
  | .take => ((q.take).2, .val (q.take).1)
  | .empty => (q, .bool q.empty)

def Queue.run (q : Queue) : List QOp → List QOut
  | [] => []
  | op :: ops => (q.step op).2 :: Queue.run (q.step op).1 ops

inductive SetOp where
  | add (x : Nat × Nat) | remove (x : Nat × Nat)
  deriving Repr, DecidableEq

def GSet.step (s : GSet) : SetOp → GSet
  | .add x => s.add x
  | .remove x => s.remove x

inductive MapOp where
  | set (k v : Nat) | del (k : Nat)
  deriving Repr, DecidableEq

def SafeMap.step (maxDel copyThr : Nat) (m : SafeMap) : MapOp → SafeMap
  | .set k v => m.set maxDel k v
  | .del k => m.del maxDel copyThr k

end GoZero.C16
