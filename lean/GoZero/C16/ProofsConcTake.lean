/-
C16 — invariants of the `Cache.Take` interleaving model (every schedule, unbounded goroutines).
-/
import GoZero.C16.ConcTake
namespace GoZero.C16.CT

/-- loader calls of a key are paid for: one initial credit, one per removal of the present entry, one per failed
load.  `credit` = one more loader call is paid for.  Without a flight (or with a leader that has not yet looked
the key up / is finishing) an absent key has credit; a leader about to call the loader has credit; a leader
inside the loader or about to store has used it. -/
def cntOK (s : St) (k : Key) : Prop :=
  s.loads k ≤ s.gone k + s.fails k + 1 ∧
  (s.flight k = none → s.data k = none → s.loads k ≤ s.gone k + s.fails k) ∧
  (∀ c, s.flight k = some c → s.pc (s.leader c) = .f2 ∨ s.pc (s.leader c) = .f3 ∨ s.loads k ≤ s.gone k + s.fails k
                ∨ (s.data k ≠ none ∧ s.pc (s.leader c) ≠ .f1))

theorem PC.lead_iff (p : PC) : p.lead = true ↔ p = .f0 ∨ p = .f1 ∨ p = .f2 ∨ p = .f3 ∨ p = .e0 := by
  cases p <;> simp [PC.lead]

def callsOK (s : St) (t : Tid) : Prop :=
  match s.pc t with
  | .idle => True
  | .t0 | .b0 | .w0 | .f0 => s.calls t = 0
  | .f1 => s.calls t = 0 ∧ s.sawMiss t = true
  | .f2 | .f3 => s.calls t = 1 ∧ s.sawMiss t = true
  | .e0 | .r0 => s.calls t ≤ 1 ∧ (s.calls t = 1 → s.sawMiss t = true)

structure Inv (s : St) : Prop where
  fl    : ∀ k c, s.flight k = some c → (s.pc (s.leader c)).lead = true ∧ s.cur (s.leader c) = c ∧ s.key (s.leader c) = k ∧ c < s.next
  lead  : ∀ t, (s.pc t).lead = true → s.flight (s.key t) = some (s.cur t) ∧ s.leader (s.cur t) = t
  cnt   : ∀ k, cntOK s k
  calls : ∀ t, callsOK s t
  rets  : ∀ r, r ∈ s.rets → r.calls ≤ 1 ∧ (r.calls = 1 → r.sawMiss = true)

theorem inv_init : Inv init := by
  refine ⟨?_, ?_, ?_, ?_, ?_⟩ <;> simp [init, cntOK, callsOK, PC.lead]

variable {s s' : St} {t : Tid} {x : In}

theorem fl_step (h : Inv s) (hs : step s t x = some s') :
    ∀ k c, s'.flight k = some c → (s'.pc (s'.leader c)).lead = true ∧ s'.cur (s'.leader c) = c ∧ s'.key (s'.leader c) = k ∧ c < s'.next := by
  have h1 := h.fl; have h2 := h.lead
  unfold step at hs
  split at hs
  · split at hs <;> simp at hs <;> (try subst hs) <;> (try unfold remove) <;> (try split) <;> simp [upd, PC.lead] at * <;> grind
  all_goals (try split at hs) <;> simp at hs <;> (try subst hs) <;> simp [upd, PC.lead] at * <;> grind

theorem lead_step (h : Inv s) (hs : step s t x = some s') :
    ∀ u, (s'.pc u).lead = true → s'.flight (s'.key u) = some (s'.cur u) ∧ s'.leader (s'.cur u) = u := by
  have h1 := h.fl; have h2 := h.lead
  unfold step at hs
  split at hs
  · split at hs <;> simp at hs <;> (try subst hs) <;> (try unfold remove) <;> (try split) <;> simp [upd, PC.lead] at * <;> grind
  all_goals (try split at hs) <;> simp at hs <;> (try subst hs) <;> simp [upd, PC.lead] at * <;> grind

theorem frame_other (hs : step s t x = some s') (u : Tid) (hut : u ≠ t) :
    s'.pc u = s.pc u ∧ s'.calls u = s.calls u ∧ s'.sawMiss u = s.sawMiss u := by
  unfold step at hs
  split at hs
  · split at hs <;> simp at hs <;> (try subst hs) <;> (try unfold remove) <;> (try split) <;> simp [upd, hut]
  all_goals (try split at hs) <;> simp at hs <;> (try subst hs) <;> simp [upd, hut]

theorem calls_step (h : Inv s) (hs : step s t x = some s') : ∀ u, callsOK s' u := by
  intro u
  by_cases hut : u = t
  · subst hut
    have h4t := h.calls u
    unfold callsOK at *
    unfold step at hs
    split at hs
    · next hpc =>
      have hrm : ∀ k, (remove s k).pc = s.pc := fun k => by unfold remove; split <;> rfl
      split at hs <;> simp at hs <;> (try subst hs) <;> simp [upd, hpc, hrm]
    all_goals (next hpc => (try split at hs) <;> simp at hs <;> (try subst hs) <;> simp [hpc] at h4t <;> simp [upd, h4t] <;> grind)
  · obtain ⟨a, b, c⟩ := frame_other hs u hut
    have := h.calls u
    unfold callsOK at *
    rw [a, b, c]; exact this

theorem rets_step (h : Inv s) (hs : step s t x = some s') :
    ∀ r, r ∈ s'.rets → r.calls ≤ 1 ∧ (r.calls = 1 → r.sawMiss = true) := by
  have h4t := h.calls t
  have h5 := h.rets
  unfold callsOK at h4t
  unfold step at hs
  split at hs
  · split at hs <;> simp at hs <;> (try subst hs) <;> (try unfold remove) <;> (try split) <;> exact h5
  all_goals (next hpc => (try split at hs) <;> simp at hs <;> (try subst hs) <;> (try exact h5) <;>
    (simp [hpc] at h4t; intro r hr; simp only [List.mem_cons] at hr; rcases hr with e | hr; (subst e; exact h4t); exact h5 r hr))

theorem cnt_step (h : Inv s) (hs : step s t x = some s') : ∀ k, cntOK s' k := by
  intro k
  have h1 := h.fl; have h2 := h.lead t; have h3 := h.cnt k
  simp only [PC.lead_iff] at h1 h2
  unfold cntOK at *
  unfold step at hs
  split at hs
  · split at hs <;> simp at hs <;> (try subst hs) <;> (try unfold remove) <;> (try split) <;> simp [upd] at * <;> grind
  all_goals (try split at hs) <;> simp at hs <;> (try subst hs) <;> simp [upd] at * <;> grind

theorem inv_step (h : Inv s) (hs : step s t x = some s') : Inv s' :=
  ⟨fl_step h hs, lead_step h hs, cnt_step h hs, calls_step h hs, rets_step h hs⟩

theorem inv_reach {s : St} (h : Reach s) : Inv s := by
  induction h with
  | init => exact inv_init
  | step t x _ hs ih => exact inv_step ih hs

end GoZero.C16.CT
