/-
C16 — round 5c: re-entrant use (core Lean only).

(1) `SafeMap.Range(f)` holds `m.lock.RLock()` while `f` runs.  If `f` calls back into the same map:
      Set / Del   → `m.lock.Lock()`  : the writer announces itself and waits for every active reader to leave — the
                    caller itself is one of them and is blocked: it waits for itself, for ever; and from the announcement
                    on no other goroutine can take the read lock either (Go's RWMutex lets no new reader pass a
                    pending writer)
      Get / Size / Range → `m.lock.RLock()` again: passes as long as no writer is pending; behind a pending writer it
                    blocks, and that writer waits for the outer read lock: both wait for ever
    State of the RWMutex as seen from the re-entering goroutine T and everybody else ("env"):
(2) `Cache.Take(k, fetch)` runs `fetch` as the owner of the singleflight call of `k`.  If `fetch` calls `Take(k, …)` again
    (and misses again — nothing was stored in between), `barrier.Do(k, …)` finds the call of `k`, whose `wg` only its
    owner — the blocked caller — can finish.
-/
namespace GoZero.C16.Reent

/-! ### sync.RWMutex with a pending writer -/

structure RW where
  tReads   : Nat    -- read holds of T (1 while inside Range, 2 inside a nested read)
  envReads : Nat    -- read holds of everybody else
  writer   : Bool   -- somebody else holds the write lock
  pending  : Bool   -- somebody else has announced a Lock() and waits for the readers
  tPending : Bool   -- T has announced a Lock() (from inside its own read section)
  deriving Repr, DecidableEq

/-- what the other goroutines can do -/
inductive Env where
  | rlock | runlock | announce | acquire | unlock
  deriving Repr, DecidableEq

/-- `RLock` passes iff no writer holds or is pending -/
def canRLock (s : RW) : Bool := !s.writer && !s.pending && !s.tPending

/-- a pending writer gets the lock when no reader is left -/
def noReaders (s : RW) : Bool := s.tReads + s.envReads == 0

def envStep (s : RW) : Env → Option RW
  | .rlock => if canRLock s then some { s with envReads := s.envReads + 1 } else none
  | .runlock => if s.envReads > 0 then some { s with envReads := s.envReads - 1 } else none
  | .announce => if !s.writer && !s.pending && !s.tPending then some { s with pending := true } else none
  | .acquire => if s.pending && noReaders s then some { s with pending := false, writer := true } else none
  | .unlock => if s.writer then some { s with writer := false } else none

def envRun (s : RW) : List Env → Option RW
  | [] => some s
  | a :: as => match envStep s a with
    | none => none
    | some s' => envRun s' as

/-- T's nested `Lock()` (Set / Del inside the callback): announce (needs the writers' mutex: nobody else pending or
holding), then acquire once no reader is left -/
def tCanAnnounce (s : RW) : Bool := !s.writer && !s.pending && !s.tPending
def tCanAcquire (s : RW) : Bool := s.tPending && noReaders s

/-! ### singleflight -/

structure SF where
  inflight : List (Nat × Nat)     -- (key, owner) of the calls in `g.calls`
  deriving Repr, DecidableEq

inductive SFEnv where
  | start (k owner : Nat)         -- somebody else becomes the owner of a new call
  | finish (k owner : Nat)        -- an owner other than T returns from its function: the call is removed
  deriving Repr, DecidableEq

/-- `Do(k, fn)` either becomes the owner (no call of `k`) or waits for the call of `k` to finish -/
def mustWait (s : SF) (k : Nat) : Bool := s.inflight.any (·.1 == k)

def sfStep (t : Nat) (s : SF) : SFEnv → Option SF
  | .start k o => if o ≠ t ∧ !mustWait s k then some { inflight := (k, o) :: s.inflight } else none
  | .finish k o => if o ≠ t ∧ (k, o) ∈ s.inflight then some { inflight := s.inflight.filter (· ≠ (k, o)) } else none

def sfRun (t : Nat) (s : SF) : List SFEnv → Option SF
  | [] => some s
  | a :: as => match sfStep t s a with
    | none => none
    | some s' => sfRun t s' as

end GoZero.C16.Reent
