/-
C16 — Cache: (A) the cache over the timing wheel simulates the cache over the timer table (uses the C12
refinement), (B) invariants of the map + recency list, for any timer mechanism.
-/
import GoZero.C12.Refine
import GoZero.C16.SpecCache
import GoZero.C16.ProofsMap
namespace GoZero.C16

/-! ### (A) simulation, generic in the two timer mechanisms -/

section Sim
variable {T1 T2 : Type} (ts1 : TStep T1) (ts2 : TStep T2) (R : T1 → T2 → Prop)

/-- the two timer mechanisms stay related and fire the same (key,value) pairs -/
def TSim : Prop := ∀ t1 t2 op, R t1 t2 → R (ts1 t1 op).1 (ts2 t2 op).1 ∧ (ts1 t1 op).2 = (ts2 t2 op).2

structure CRel (c1 : CacheG T1) (c2 : CacheG T2) : Prop where
  limit  : c1.limit = c2.limit
  data   : c1.data = c2.data
  lru    : c1.lru = c2.lru
  timers : R c1.timers c2.timers

variable {ts1 ts2 R}

theorem onEvict_rel (hs : TSim ts1 ts2 R) {c1 : CacheG T1} {c2 : CacheG T2} (h : CRel R c1 c2) (k : Nat) :
    CRel R (CacheG.onEvict ts1 c1 k) (CacheG.onEvict ts2 c2 k) :=
  ⟨h.limit, by simp only [CacheG.onEvict, h.data], h.lru, (hs _ _ _ h.timers).1⟩

theorem lruRemove_rel (hs : TSim ts1 ts2 R) {c1 : CacheG T1} {c2 : CacheG T2} (h : CRel R c1 c2) (k : Nat) :
    CRel R (CacheG.lruRemove ts1 c1 k) (CacheG.lruRemove ts2 c2 k) := by
  unfold CacheG.lruRemove
  rw [h.limit, h.lru]
  split
  · exact h
  · split
    · apply onEvict_rel hs
      exact ⟨rfl, h.data, rfl, h.timers⟩
    · exact h

theorem lruAdd_rel (hs : TSim ts1 ts2 R) {c1 : CacheG T1} {c2 : CacheG T2} (h : CRel R c1 c2) (k : Nat) :
    CRel R (CacheG.lruAdd ts1 c1 k).1 (CacheG.lruAdd ts2 c2 k).1
    ∧ (CacheG.lruAdd ts1 c1 k).2 = (CacheG.lruAdd ts2 c2 k).2 := by
  unfold CacheG.lruAdd
  rw [h.limit, h.lru]
  split
  · exact ⟨h, rfl⟩
  · split
    · exact ⟨⟨rfl, h.data, rfl, h.timers⟩, rfl⟩
    · split
      · split
        · refine ⟨?_, rfl⟩
          apply onEvict_rel hs
          exact ⟨rfl, h.data, rfl, h.timers⟩
        · exact ⟨⟨rfl, h.data, rfl, h.timers⟩, rfl⟩
      · exact ⟨⟨rfl, h.data, rfl, h.timers⟩, rfl⟩

theorem del_rel (hs : TSim ts1 ts2 R) {c1 : CacheG T1} {c2 : CacheG T2} (h : CRel R c1 c2) (k : Nat) :
    CRel R (CacheG.del ts1 c1 k) (CacheG.del ts2 c2 k) := by
  have h1 : CRel R { c1 with data := aerase c1.data k } { c2 with data := aerase c2.data k } :=
    ⟨h.limit, by simp only [h.data], h.lru, h.timers⟩
  have h2 := lruRemove_rel hs h1 k
  exact ⟨h2.limit, h2.data, h2.lru, (hs _ _ _ h2.timers).1⟩

theorem expire_rel (hs : TSim ts1 ts2 R) (fired : List (Nat × Nat)) : ∀ {c1 : CacheG T1} {c2 : CacheG T2},
    CRel R c1 c2 → CRel R (CacheG.expire ts1 c1 fired) (CacheG.expire ts2 c2 fired) := by
  induction fired with
  | nil => intro c1 c2 h; exact h
  | cons kv rest ih =>
    intro c1 c2 h
    simp only [CacheG.expire, List.foldl_cons]
    exact ih (del_rel hs h kv.1)

theorem set_rel (hs : TSim ts1 ts2 R) {c1 : CacheG T1} {c2 : CacheG T2} (h : CRel R c1 c2) (k v t : Nat) :
    CRel R (CacheG.set ts1 c1 k v t).1 (CacheG.set ts2 c2 k v t).1
    ∧ (CacheG.set ts1 c1 k v t).2 = (CacheG.set ts2 c2 k v t).2 := by
  unfold CacheG.set
  rw [h.data]
  have h1 : CRel R { c1 with data := ainsert c2.data k v } { c2 with data := ainsert c2.data k v } :=
    ⟨h.limit, rfl, h.lru, h.timers⟩
  obtain ⟨h2, h3⟩ := lruAdd_rel hs h1 k
  have h4 := hs _ _ (C12.Op.set k v t) h2.timers
  dsimp only
  rw [h3, h4.2]
  exact ⟨expire_rel hs _ ⟨h2.limit, h2.data, h2.lru, h4.1⟩, rfl⟩

theorem get_rel (hs : TSim ts1 ts2 R) {c1 : CacheG T1} {c2 : CacheG T2} (h : CRel R c1 c2) (k : Nat) :
    CRel R (CacheG.get ts1 c1 k).1 (CacheG.get ts2 c2 k).1
    ∧ (CacheG.get ts1 c1 k).2 = (CacheG.get ts2 c2 k).2 := by
  unfold CacheG.get
  rw [h.data]
  split
  · exact ⟨(lruAdd_rel hs h k).1, rfl⟩
  · exact ⟨h, rfl⟩

theorem take_rel (hs : TSim ts1 ts2 R) {c1 : CacheG T1} {c2 : CacheG T2} (h : CRel R c1 c2) (k v : Nat) (f : Bool) (t : Nat) :
    CRel R (CacheG.take ts1 c1 k v f t).1 (CacheG.take ts2 c2 k v f t).1
    ∧ (CacheG.take ts1 c1 k v f t).2 = (CacheG.take ts2 c2 k v f t).2 := by
  unfold CacheG.take
  rw [h.data]
  split
  · exact ⟨(lruAdd_rel hs h k).1, rfl⟩
  · split
    · exact ⟨h, rfl⟩
    · have := set_rel hs h k v t
      exact ⟨this.1, by rw [this.2]⟩

theorem tick_rel (hs : TSim ts1 ts2 R) {c1 : CacheG T1} {c2 : CacheG T2} (h : CRel R c1 c2) :
    CRel R (CacheG.tick ts1 c1).1 (CacheG.tick ts2 c2).1 ∧ (CacheG.tick ts1 c1).2 = (CacheG.tick ts2 c2).2 := by
  have h4 := hs _ _ C12.Op.tick h.timers
  unfold CacheG.tick
  rw [h4.2]
  exact ⟨expire_rel hs _ ⟨h.limit, h.data, h.lru, h4.1⟩, rfl⟩

theorem step_rel (hs : TSim ts1 ts2 R) {c1 : CacheG T1} {c2 : CacheG T2} (h : CRel R c1 c2) (op : COp) :
    CRel R (CacheG.step ts1 c1 op).1 (CacheG.step ts2 c2 op).1
    ∧ (CacheG.step ts1 c1 op).2 = (CacheG.step ts2 c2 op).2 := by
  cases op with
  | set k v t => exact set_rel hs h k v t
  | get k => exact get_rel hs h k
  | del k => exact ⟨del_rel hs h k, rfl⟩
  | take k v f t => exact take_rel hs h k v f t
  | tick => exact tick_rel hs h

theorem run_rel (hs : TSim ts1 ts2 R) (ops : List COp) : ∀ {c1 : CacheG T1} {c2 : CacheG T2},
    CRel R c1 c2 → CacheG.run ts1 c1 ops = CacheG.run ts2 c2 ops := by
  induction ops with
  | nil => intro _ _ _; rfl
  | cons op ops ih =>
    intro c1 c2 h
    obtain ⟨h1, h2⟩ := step_rel hs h op
    simp only [CacheG.run]
    rw [h2, ih h1]

end Sim

/-- the C12 refinement as a simulation: a well-formed wheel and the timer table it represents -/
def WheelRel (tw : C12.TW) (tbl : C12.Spec.Table) : Prop := C12.WF tw ∧ C12.abs tw = tbl

theorem wheel_sim : TSim C12.step C12.Spec.step WheelRel := by
  intro tw tbl op ⟨hwf, habs⟩
  obtain ⟨h1, h2, h3⟩ := C12.step_refines tw hwf op
  subst habs
  exact ⟨⟨h1, h2⟩, h3⟩

/-! ### (B) data / recency-list facts, for any timer mechanism -/

section Inv
variable {T : Type} (ts : TStep T)

theorem aerase_idem (l : AL) (k : Nat) : aerase (aerase l k) k = aerase l k := by
  simp [aerase, List.filter_filter]

@[simp] theorem onEvict_data (c : CacheG T) (k : Nat) : (CacheG.onEvict ts c k).data = aerase c.data k := rfl
@[simp] theorem onEvict_lru (c : CacheG T) (k : Nat) : (CacheG.onEvict ts c k).lru = c.lru := rfl
@[simp] theorem onEvict_limit (c : CacheG T) (k : Nat) : (CacheG.onEvict ts c k).limit = c.limit := rfl

theorem filter_ne_of_not_mem (l : List Nat) (k : Nat) (h : k ∉ l) : l.filter (· ≠ k) = l := by
  rw [List.filter_eq_self]
  intro a ha
  simp only [ne_eq, decide_eq_true_eq]
  intro e; subst e; exact h ha

theorem del_limit (c : CacheG T) (k : Nat) : (CacheG.del ts c k).limit = c.limit := by
  simp only [CacheG.del, CacheG.lruRemove]
  split
  · rfl
  · split <;> rfl

theorem del_data (c : CacheG T) (k : Nat) : (CacheG.del ts c k).data = aerase c.data k := by
  simp only [CacheG.del, CacheG.lruRemove]
  split
  · rfl
  · split
    · simp [aerase_idem]
    · rfl

theorem del_lru (c : CacheG T) (k : Nat) :
    (CacheG.del ts c k).lru = if c.limit = 0 then c.lru else c.lru.filter (· ≠ k) := by
  simp only [CacheG.del, CacheG.lruRemove]
  split
  · rfl
  · split
    · rfl
    · rename_i h; exact (filter_ne_of_not_mem _ _ h).symm

/-- map and recency list agree: unique keys; with an LRU, the list holds exactly the map's keys, once, and
never more than `limit` of them -/
structure CacheG.Inv (c : CacheG T) : Prop where
  nodupData : (akeys c.data).Nodup
  nodupLru  : 0 < c.limit → c.lru.Nodup
  sameKeys  : 0 < c.limit → ∀ k, k ∈ c.lru ↔ k ∈ akeys c.data
  lruLen    : 0 < c.limit → c.lru.length ≤ c.limit

theorem CacheG.Inv.size_le (c : CacheG T) (h : c.Inv) (hl : 0 < c.limit) : c.data.length ≤ c.limit := by
  have hp := (List.perm_ext_iff_of_nodup (h.nodupLru hl) h.nodupData).2 (h.sameKeys hl)
  have := hp.length_eq
  have := h.lruLen hl
  simp only [akeys, List.length_map] at *
  omega

theorem inv_del (c : CacheG T) (k : Nat) (h : c.Inv) : (CacheG.del ts c k).Inv := by
  refine ⟨?_, ?_, ?_, ?_⟩
  · rw [del_data]; exact nodup_aerase _ _ h.nodupData
  · rw [del_limit]; intro hl
    rw [del_lru, if_neg (by omega)]
    exact (h.nodupLru hl).sublist List.filter_sublist
  · rw [del_limit]; intro hl k'
    rw [del_lru, if_neg (by omega), del_data, mem_akeys_aerase, List.mem_filter, h.sameKeys hl k']
    simp
  · rw [del_limit]; intro hl
    rw [del_lru, if_neg (by omega)]
    exact Nat.le_trans (List.length_filter_le _ _) (h.lruLen hl)

theorem expire_limit (fired : List (Nat × Nat)) : ∀ (c : CacheG T), (CacheG.expire ts c fired).limit = c.limit := by
  induction fired with
  | nil => intro c; rfl
  | cons kv rest ih => intro c; simp only [CacheG.expire, List.foldl_cons]; exact (ih _).trans (del_limit ts c kv.1)

theorem inv_expire (fired : List (Nat × Nat)) : ∀ (c : CacheG T), c.Inv → (CacheG.expire ts c fired).Inv := by
  induction fired with
  | nil => intro c h; exact h
  | cons kv rest ih => intro c h; simp only [CacheG.expire, List.foldl_cons]; exact ih _ (inv_del ts c kv.1 h)

/-- data after running the expiry callbacks: exactly the fired keys are gone -/
theorem expire_lookup (fired : List (Nat × Nat)) : ∀ (c : CacheG T) (k : Nat),
    alookup (CacheG.expire ts c fired).data k = if k ∈ fired.map (·.1) then none else alookup c.data k := by
  induction fired with
  | nil => intro c k; simp [CacheG.expire]
  | cons kv rest ih =>
    intro c k
    simp only [CacheG.expire, List.foldl_cons] at ih ⊢
    rw [ih, del_data, alookup_aerase]
    simp only [List.map_cons, List.mem_cons]
    by_cases h1 : k ∈ rest.map (·.1)
    · simp [h1]
    · by_cases h2 : k = kv.1 <;> simp [h1, h2]

theorem length_filter_ne_lt (l : List Nat) (k : Nat) (h : k ∈ l) : (l.filter (· ≠ k)).length < l.length := by
  induction l with
  | nil => cases h
  | cons a r ih =>
    by_cases e : a = k
    · subst e
      simp only [List.filter_cons, ne_eq, not_true_eq_false, decide_false, List.length_cons]
      have := List.length_filter_le (fun x => decide (x ≠ a)) r
      simp only [ne_eq] at this
      exact Nat.lt_succ_of_le this
    · have hk : k ∈ r := by
        rcases List.mem_cons.1 h with h | h
        · exact absurd h.symm e
        · exact h
      simp only [List.filter_cons, ne_eq, e, not_false_eq_true, decide_true, List.length_cons, if_true]
      have := ih hk
      simp only [ne_eq] at this
      omega

/-- `keyLru.add(k)` once `k` is in the map: re-establishes the invariant; reports what it evicted -/
theorem lruAdd_spec (c : CacheG T) (k : Nat) (hd : (akeys c.data).Nodup)
    (hn : 0 < c.limit → c.lru.Nodup) (hlen : 0 < c.limit → c.lru.length ≤ c.limit)
    (hk : 0 < c.limit → ∀ k', (k' ∈ c.lru ∨ k' = k) ↔ k' ∈ akeys c.data) :
    (CacheG.lruAdd ts c k).1.Inv ∧ (CacheG.lruAdd ts c k).1.limit = c.limit
    ∧ ((CacheG.lruAdd ts c k).2 = [] ∧ (CacheG.lruAdd ts c k).1.data = c.data
         ∧ (CacheG.lruAdd ts c k).1.timers = c.timers
       ∨ ∃ old, (CacheG.lruAdd ts c k).2 = [old] ∧ (CacheG.lruAdd ts c k).1.data = aerase c.data old
           ∧ c.lru.getLast? = some old ∧ old ≠ k ∧ k ∉ c.lru ∧ c.lru.length = c.limit
           ∧ (CacheG.lruAdd ts c k).1.timers = (ts c.timers (.remove old)).1) := by
  unfold CacheG.lruAdd
  by_cases h0 : c.limit = 0
  · rw [if_pos h0]
    dsimp only
    exact ⟨⟨hd, fun h => by omega, fun h => by omega, fun h => by omega⟩, rfl, Or.inl ⟨rfl, rfl, rfl⟩⟩
  · have hl : 0 < c.limit := by omega
    rw [if_neg h0]
    by_cases hm : k ∈ c.lru
    · rw [if_pos hm]
      dsimp only
      refine ⟨⟨hd, fun _ => ?_, fun _ k' => ?_, fun _ => ?_⟩, rfl, Or.inl ⟨rfl, rfl, rfl⟩⟩
      · simp only [List.nodup_cons, List.mem_filter, ne_eq, not_true_eq_false, decide_false, and_false,
          not_false_eq_true, true_and, Bool.false_eq_true]
        exact (hn hl).sublist List.filter_sublist
      · simp only [List.mem_cons, List.mem_filter, ne_eq, decide_eq_true_eq]
        rw [← hk hl k']
        by_cases e : k' = k <;> simp [e]
      · simp only [List.length_cons]
        have := length_filter_ne_lt c.lru k hm
        have := hlen hl
        omega
    · rw [if_neg hm]
      by_cases hov : (k :: c.lru).length > c.limit
      · rw [if_pos hov]
        have hne : c.lru ≠ [] := by
          intro e; rw [e] at hov; simp only [List.length_cons, List.length_nil] at hov; omega
        obtain ⟨ys, old, hys⟩ : ∃ ys old, c.lru = ys ++ [old] := by
          have := List.dropLast_concat_getLast hne
          exact ⟨_, _, this.symm⟩
        have hlast : (k :: c.lru).getLast? = some old := by
          rw [hys]; exact List.getLast?_eq_some_iff.2 ⟨k :: ys, rfl⟩
        have hdrop : (k :: c.lru).dropLast = k :: ys := by
          rw [hys, ← List.cons_append, List.dropLast_concat]
        rw [hlast]
        dsimp only
        have hnd := hn hl
        rw [hys, List.nodup_append] at hnd
        have hold : old ∉ ys := fun hh => hnd.2.2 old hh old (by simp) rfl
        have hkold : old ≠ k := by
          intro e; apply hm; rw [hys, e]; simp
        have hkys : k ∉ ys := fun hh => hm (by rw [hys]; exact List.mem_append_left _ hh)
        have hlen' := hlen hl
        refine ⟨⟨?_, fun _ => ?_, fun _ k' => ?_, fun _ => ?_⟩, rfl, Or.inr ⟨old, rfl, rfl, ?_, hkold, hm, ?_, rfl⟩⟩
        · exact nodup_aerase _ _ hd
        · rw [onEvict_lru, hdrop]
          exact List.nodup_cons.2 ⟨hkys, hnd.1⟩
        · rw [onEvict_lru, onEvict_data, hdrop, mem_akeys_aerase, ← hk hl k', hys]
          simp only [List.mem_cons, List.mem_append, List.not_mem_nil, or_false]
          constructor
          · rintro (e | e)
            · exact ⟨Or.inr e, by rw [e]; exact fun x => hkold x.symm⟩
            · exact ⟨Or.inl (Or.inl e), fun x => hold (x ▸ e)⟩
          · rintro ⟨(e | e) | e, h2⟩
            · exact Or.inr e
            · exact absurd e h2
            · exact Or.inl e
        · rw [onEvict_lru, onEvict_limit, hdrop]
          rw [hys] at hlen'
          simp only [List.length_cons, List.length_append, List.length_nil] at hlen' ⊢
          omega
        · rw [hys]; simp
        · simp only [List.length_cons] at hov; omega
      · rw [if_neg hov]
        dsimp only
        refine ⟨⟨hd, fun _ => List.nodup_cons.2 ⟨hm, hn hl⟩, fun _ k' => ?_,
          fun _ => by simp only [List.length_cons] at hov ⊢; omega⟩, rfl, Or.inl ⟨rfl, rfl, rfl⟩⟩
        rw [← hk hl k']
        simp only [List.mem_cons]
        constructor <;> (rintro (e | e); exact Or.inr e; exact Or.inl e)

end Inv

end GoZero.C16
