/-
C16 — in-memory Cache (core/collection/cache.go), executable model (core Lean only).

  data        map[string]any                         → association list (keys are naturals)
  lruCache    emptyLru | keyLru{limit, evicts list}   → `limit = 0` ⇒ no LRU, else recency list (front = newest)
  timingWheel the C12 wheel model (300 slots, 1 s)     → `GoZero.C12.TW`, driven through `C12.step`
(the definitions are generic in the timer mechanism `ts`, so that the same text instantiated with the C12
timer *table* is the abstract cache of SpecCache.lean)
The jittered expiry `unstableExpiry.AroundDuration(expire)` is an *input* (`ticks = expiry / 1s`, observed by
the harness).  Stats, the name and the singleflight barrier (sequential histories) are not modelled.
-/
import GoZero.C12.Model
import GoZero.C16.Model
namespace GoZero.C16

/-- a timer mechanism: state `T` and its reaction to the wheel operations (output = fired (key,value) pairs) -/
abbrev TStep (T : Type) := T → C12.Op → T × List (Nat × Nat)

structure CacheG (T : Type) where
  limit  : Nat              -- 0 = emptyLru
  data   : AL
  lru    : List Nat         -- keyLru.evicts, front first (unused when limit = 0)
  timers : T

/-- what one operation did besides its result -/
structure CacheOut where
  evicted : List Nat := []     -- keys handed to onEvict by `keyLru.add` (LRU overflow)
  expired : List Nat := []     -- keys handed to the wheel's execute callback
  loaded  : Bool := false      -- Take called the loader
  result  : Option Nat := none
  deriving Repr, DecidableEq

variable {T : Type} (ts : TStep T)

/-- `onEvict(key)`: `delete(c.data, key); c.timingWheel.RemoveTimer(key)` -/
def CacheG.onEvict (c : CacheG T) (k : Nat) : CacheG T :=
  { c with data := aerase c.data k, timers := (ts c.timers (.remove k)).1 }

/-- `keyLru.remove(key)` (through `removeElement`, which calls `onEvict`) -/
def CacheG.lruRemove (c : CacheG T) (k : Nat) : CacheG T :=
  if c.limit = 0 then c
  else if k ∈ c.lru then CacheG.onEvict ts { c with lru := c.lru.filter (· ≠ k) } k else c

/-- `keyLru.add(key)`; returns the evicted keys -/
def CacheG.lruAdd (c : CacheG T) (k : Nat) : CacheG T × List Nat :=
  if c.limit = 0 then (c, [])
  else if k ∈ c.lru then ({ c with lru := k :: c.lru.filter (· ≠ k) }, [])
  else if (k :: c.lru).length > c.limit then
    match (k :: c.lru).getLast? with
    | some old => (CacheG.onEvict ts { c with lru := (k :: c.lru).dropLast } old, [old])
    | none => ({ c with lru := k :: c.lru }, [])
  else ({ c with lru := k :: c.lru }, [])

/-- `Del(key)` -/
def CacheG.del (c : CacheG T) (k : Nat) : CacheG T :=
  { CacheG.lruRemove ts { c with data := aerase c.data k } k with
    timers := (ts (CacheG.lruRemove ts { c with data := aerase c.data k } k).timers (.remove k)).1 }

/-- run the wheel's execute callback (`cache.Del(key)`) for every fired timer -/
def CacheG.expire (c : CacheG T) (fired : List (Nat × Nat)) : CacheG T :=
  fired.foldl (fun c kv => CacheG.del ts c kv.1) c

/-- `SetWithExpire(key, value, _)` with the observed jittered expiry of `ticks` wheel intervals: write the map,
touch the recency list, (re)start the timer with `SetTimer` (which also handles a pending key, and clamps a
delay below one interval up to one interval). -/
def CacheG.set (c : CacheG T) (k v ticks : Nat) : CacheG T × CacheOut :=
  let c1 := CacheG.lruAdd ts { c with data := ainsert c.data k v } k
  let w := ts c1.1.timers (.set k v ticks)
  (CacheG.expire ts { c1.1 with timers := w.1 } w.2, { evicted := c1.2, expired := w.2.map (·.1) })

/-- `SetWithExpire(key, value, expire)` whose jittered expiry is ≤ 0 (`expire ≤ 0`, or a sub-nanosecond product):
`SetTimer` rejects the delay (`ErrArgument`, which `SetWithExpire` drops), so the map and the recency list are
updated and the wheel is not told: a pending timer of the key keeps running (the new value expires on the old
schedule), a new key gets no timer at all and stays until deleted or evicted. -/
def CacheG.setNoTimer (c : CacheG T) (k v : Nat) : CacheG T × CacheOut :=
  ((CacheG.lruAdd ts { c with data := ainsert c.data k v } k).1,
   { evicted := (CacheG.lruAdd ts { c with data := ainsert c.data k v } k).2 })

/-- `Take` in a cache whose (jittered) default expiry is ≤ 0 -/
def CacheG.takeNoTimer (c : CacheG T) (k v : Nat) (fails : Bool) : CacheG T × CacheOut :=
  match alookup c.data k with
  | some x => ((CacheG.lruAdd ts c k).1, { result := some x })
  | none =>
    if fails then (c, { loaded := true })
    else ((CacheG.setNoTimer ts c k v).1, { (CacheG.setNoTimer ts c k v).2 with loaded := true, result := some v })

/-- `SetWithExpire` as it was before fixes/C16-cache-reset-subsecond-expiry.patch (kept to state the defect):
a key already present took the `MoveTimer` path, and `MoveTimer` with a delay below one interval runs the
expiry callback at once. -/
def CacheG.setPinned (c : CacheG T) (k v ticks : Nat) : CacheG T × CacheOut :=
  let c1 := CacheG.lruAdd ts { c with data := ainsert c.data k v } k
  let w := ts c1.1.timers (if ahas c.data k then .move k ticks else .set k v ticks)
  (CacheG.expire ts { c1.1 with timers := w.1 } w.2, { evicted := c1.2, expired := w.2.map (·.1) })

/-- `doGet` -/
def CacheG.get (c : CacheG T) (k : Nat) : CacheG T × CacheOut :=
  match alookup c.data k with
  | some v => ((CacheG.lruAdd ts c k).1, { result := some v })
  | none => (c, {})

/-- `Take(key, fetch)`: `fetch` returns `v` or fails; a loaded value is stored with `Set` (expiry `ticks`) -/
def CacheG.take (c : CacheG T) (k v : Nat) (fails : Bool) (ticks : Nat) : CacheG T × CacheOut :=
  match alookup c.data k with
  | some x => ((CacheG.lruAdd ts c k).1, { result := some x })
  | none =>
    if fails then (c, { loaded := true })
    else ((CacheG.set ts c k v ticks).1, { (CacheG.set ts c k v ticks).2 with loaded := true, result := some v })

/-- one tick of the wheel's ticker -/
def CacheG.tick (c : CacheG T) : CacheG T × CacheOut :=
  (CacheG.expire ts { c with timers := (ts c.timers .tick).1 } (ts c.timers .tick).2,
   { expired := (ts c.timers .tick).2.map (·.1) })

/-! The wheel runs the expiry callbacks in a goroutine of their own (`runTasks`): between the tick that takes the due
timers out of the wheel (`CacheG.fire`) and the callbacks (`CacheG.expire`, i.e. `cache.Del(key)` per fired key) the
user's operations go on.  `CacheG.tick` is the schedule in which nothing happens in between. -/

/-- the tick itself: due timers leave the wheel; returns the fired (key, value) pairs still to be handed to `Del` -/
def CacheG.fire (c : CacheG T) : CacheG T × List (Nat × Nat) :=
  ({ c with timers := (ts c.timers .tick).1 }, (ts c.timers .tick).2)

inductive COp where
  | set (k v ticks : Nat)
  | get (k : Nat)
  | del (k : Nat)
  | take (k v : Nat) (fails : Bool) (ticks : Nat)
  | tick
  deriving Repr, DecidableEq

def CacheG.step (c : CacheG T) : COp → CacheG T × CacheOut
  | .set k v t => CacheG.set ts c k v t
  | .get k => CacheG.get ts c k
  | .del k => (CacheG.del ts c k, {})
  | .take k v f t => CacheG.take ts c k v f t
  | .tick => CacheG.tick ts c

def CacheG.run (c : CacheG T) : List COp → List CacheOut
  | [] => []
  | op :: ops => (CacheG.step ts c op).2 :: CacheG.run (CacheG.step ts c op).1 ops

/-- the model of the code: Cache over the C12 timing-wheel model -/
abbrev Cache := CacheG C12.TW

def Cache.new (limit slots : Nat) : Cache := { limit := limit, data := [], lru := [], timers := C12.TW.init slots }

def Cache.step (c : Cache) (op : COp) : Cache × CacheOut := CacheG.step C12.step c op

end GoZero.C16
