/-
C16 — RollingWindow is a view of the event log: representation invariant and its preservation.
-/
import GoZero.C16.SpecRW
import GoZero.C16.ProofsQueue
namespace GoZero.C16

open Spec

/-! ### index arithmetic of the bucket ring (n = size, o = offset, s = span, a = age) -/

theorem pos_reset (n o s a : Nat) (hn : 0 < n) (ho : o < n) (hs : s ≤ n) (ha : a < s) :
    ((o + s) % n + n - a) % n = (o + (s - a - 1) + 1) % n := by
  rw [mod2 (a := o + s) hn (by omega)]
  split
  · rw [mod2 hn (by omega), mod2 hn (by omega)]; split <;> split <;> omega
  · rw [mod2 hn (by omega), mod2 hn (by omega)]; split <;> split <;> omega

theorem pos_keep (n o s a : Nat) (hn : 0 < n) (ho : o < n) (hs : s ≤ a) (ha : a < n) :
    ((o + s) % n + n - a) % n = (o + n - (a - s)) % n := by
  rw [mod2 (a := o + s) hn (by omega)]
  split
  · rw [mod2 hn (by omega), mod2 hn (by omega)]; split <;> split <;> omega
  · rw [mod2 hn (by omega), mod2 hn (by omega)]; split <;> split <;> omega

theorem pos_untouched (n o s a i : Nat) (hn : 0 < n) (ho : o < n) (hs : s ≤ a) (ha : a < n) (hi : i < s) :
    (o + i + 1) % n ≠ (o + n - (a - s)) % n := by
  rw [mod2 hn (by omega), mod2 hn (by omega)]; split <;> split <;> omega

theorem pos_age0 (n o : Nat) (hn : 0 < n) (ho : o < n) : (o + n - 0) % n = o := by
  rw [mod2 hn (by omega)]; split <;> omega

theorem pos_other (n o a : Nat) (hn : 0 < n) (ho : o < n) (ha : a < n) (h0 : a ≠ 0) : o ≠ (o + n - a) % n := by
  rw [mod2 hn (by omega)]; split <;> omega

/-! ### the reset loop -/

theorem resetLoop_succ (n o s : Nat) (b : List (List Nat)) :
    RW.resetLoop n o (s + 1) b = (RW.resetLoop n o s b).set ((o + s + 1) % n) [] := by
  simp [RW.resetLoop, List.range_succ, List.foldl_append]

theorem resetLoop_length (n o s : Nat) (b : List (List Nat)) : (RW.resetLoop n o s b).length = b.length := by
  induction s with
  | zero => simp [RW.resetLoop]
  | succ s ih => rw [resetLoop_succ, List.length_set, ih]

theorem getD_set_nil (l : List (List Nat)) (i p : Nat) :
    (l.set i []).getD p [] = if i = p then [] else l.getD p [] := by
  simp only [List.getD_eq_getElem?_getD, List.getElem?_set]
  by_cases h : i = p
  · simp only [h, if_true]; split <;> rfl
  · simp [h]

theorem resetLoop_hit (n o : Nat) (b : List (List Nat)) (p : Nat) :
    ∀ s, (∃ i, i < s ∧ (o + i + 1) % n = p) → (RW.resetLoop n o s b).getD p [] = [] := by
  intro s
  induction s with
  | zero => intro ⟨i, hi, _⟩; omega
  | succ s ih =>
    intro ⟨i, hi, hp⟩
    rw [resetLoop_succ, getD_set_nil]
    by_cases h : (o + s + 1) % n = p
    · simp [h]
    · simp only [h, if_false]
      apply ih
      refine ⟨i, ?_, hp⟩
      by_cases e : i = s
      · subst e; exact absurd hp h
      · omega

theorem resetLoop_miss (n o : Nat) (b : List (List Nat)) (p : Nat) :
    ∀ s, (∀ i, i < s → (o + i + 1) % n ≠ p) → (RW.resetLoop n o s b).getD p [] = b.getD p [] := by
  intro s
  induction s with
  | zero => intro _; simp [RW.resetLoop]
  | succ s ih =>
    intro h
    rw [resetLoop_succ, getD_set_nil]
    have := h s (by omega)
    simp only [this, if_false]
    exact ih (fun i hi => h i (by omega))

/-! ### representation invariant: the ring of buckets is the log cut into intervals -/

structure RW.Rep (rw : RW) (t0 : Nat) (hist : List (Nat × Nat)) (L : Nat) : Prop where
  size_pos : 0 < rw.size
  iv_pos   : 0 < rw.interval
  len      : rw.buckets.length = rw.size
  off      : rw.offset < rw.size
  last     : rw.lastTime = t0 + rw.interval * L
  bound    : ∀ e, e ∈ hist → idx t0 rw.interval e.1 ≤ L
  cont     : ∀ a, a < rw.size →
               rw.buckets.getD ((rw.offset + rw.size - a) % rw.size) [] = contentsAge t0 rw.interval hist L a

theorem RW.rep_new (size iv : Nat) (ign : Bool) (t0 : Nat) (hs : 0 < size) (hi : 0 < iv) :
    (RW.new size iv ign t0).Rep t0 [] 0 := by
  refine ⟨hs, hi, by simp [RW.new], by simpa [RW.new] using hs, by simp [RW.new], by simp, ?_⟩
  intro a _
  simp only [RW.new, contentsAge, List.filter_nil, List.map_nil, List.getD_eq_getElem?_getD, List.getElem?_replicate]
  split <;> rfl

/-- time arithmetic: intervals elapsed since `lastTime`, and the re-alignment of `lastTime` -/
theorem span_arith (t0 iv L now : Nat) (hiv : 0 < iv) (hnow : t0 + iv * L ≤ now) :
    (now - (t0 + iv * L)) / iv = idx t0 iv now - L
    ∧ L ≤ idx t0 iv now
    ∧ now - (now - (t0 + iv * L)) % iv = t0 + iv * idx t0 iv now := by
  unfold idx
  have e1 : now - (t0 + iv * L) = (now - t0) - iv * L := by omega
  have h2 : iv * L ≤ now - t0 := by omega
  have hdm := Nat.div_add_mod (now - t0) iv
  refine ⟨by rw [e1, Nat.sub_mul_div], ?_, ?_⟩
  · rw [Nat.le_div_iff_mul_le hiv, Nat.mul_comm]; exact h2
  · rw [e1, Nat.sub_mul_mod h2]
    have := Nat.mod_lt (now - t0) hiv
    omega

theorem contentsAge_shift (t0 iv : Nat) (hist : List (Nat × Nat)) (L a s : Nat) :
    contentsAge t0 iv hist L a = contentsAge t0 iv hist (L + s) (a + s) := by
  unfold contentsAge
  congr 1
  apply List.filter_congr
  intro e _
  congr 1
  apply propext
  constructor <;> intro h <;> omega

theorem contentsAge_empty (t0 iv : Nat) (hist : List (Nat × Nat)) (L c a : Nat)
    (hb : ∀ e, e ∈ hist → idx t0 iv e.1 ≤ L) (h : L + a < c) : contentsAge t0 iv hist c a = [] := by
  unfold contentsAge
  rw [List.map_eq_nil_iff, List.filter_eq_nil_iff]
  intro e he
  have := hb e he
  simp only [decide_eq_true_eq]
  omega

/-- `updateOffset` at a time in interval `c ≥ L` re-bases the ring to `c`. -/
theorem RW.rep_update (rw : RW) (t0 : Nat) (hist : List (Nat × Nat)) (L now : Nat) (h : rw.Rep t0 hist L)
    (hnow : rw.lastTime ≤ now) :
    (rw.updateOffset now).Rep t0 hist (idx t0 rw.interval now)
    ∧ (rw.updateOffset now).size = rw.size ∧ (rw.updateOffset now).interval = rw.interval
    ∧ (rw.updateOffset now).ignoreCurrent = rw.ignoreCurrent := by
  have hn := h.size_pos
  have hiv := h.iv_pos
  have ho := h.off
  rw [h.last] at hnow
  obtain ⟨a1, a2, a3⟩ := span_arith t0 rw.interval L now hiv hnow
  have hspan : rw.span now = if idx t0 rw.interval now - L < rw.size then idx t0 rw.interval now - L else rw.size := by
    unfold RW.span; rw [h.last, a1]
  unfold RW.updateOffset
  by_cases hz : rw.span now = 0
  · rw [if_pos hz]
    have hc : idx t0 rw.interval now = L := by
      rw [hspan] at hz
      split at hz <;> omega
    rw [hc]
    exact ⟨h, rfl, rfl, rfl⟩
  · rw [if_neg hz]
    refine ⟨?_, rfl, rfl, rfl⟩
    have hs_le : rw.span now ≤ rw.size := by rw [hspan]; split <;> omega
    have hs_c : rw.span now ≤ idx t0 rw.interval now - L := by rw [hspan]; split <;> omega
    refine ⟨hn, hiv, ?_, Nat.mod_lt _ hn, ?_, ?_, ?_⟩
    · show (RW.resetLoop _ _ _ _).length = rw.size
      rw [resetLoop_length, h.len]
    · show now - (now - rw.lastTime) % rw.interval = _
      rw [h.last, a3]
    · intro e he
      have := h.bound e he
      show idx t0 rw.interval e.1 ≤ _
      omega
    · intro a ha
      have ha : a < rw.size := ha
      show (RW.resetLoop rw.size rw.offset (rw.span now) rw.buckets).getD
          (((rw.offset + rw.span now) % rw.size + rw.size - a) % rw.size) []
          = contentsAge t0 rw.interval hist (idx t0 rw.interval now) a
      by_cases hlt : a < rw.span now
      · rw [pos_reset _ _ _ _ hn ho hs_le hlt]
        rw [resetLoop_hit _ _ _ _ _ ⟨rw.span now - a - 1, by omega, rfl⟩]
        rw [contentsAge_empty t0 rw.interval hist L _ a h.bound (by omega)]
      · have hge : rw.span now ≤ a := by omega
        have hsc : rw.span now = idx t0 rw.interval now - L := by
          by_cases hq : idx t0 rw.interval now - L < rw.size
          · rw [hspan, if_pos hq]
          · exfalso
            rw [hspan, if_neg hq] at hge
            omega
        rw [pos_keep _ _ _ _ hn ho hge ha]
        rw [resetLoop_miss _ _ _ _ _ (fun i hi => pos_untouched _ _ _ _ _ hn ho hge ha hi)]
        rw [h.cont (a - rw.span now) (by omega)]
        rw [contentsAge_shift t0 rw.interval hist L (a - rw.span now) (rw.span now)]
        congr 1 <;> omega

theorem contentsAge_snoc (t0 iv : Nat) (hist : List (Nat × Nat)) (now v c a : Nat) :
    contentsAge t0 iv (hist ++ [(now, v)]) c a
      = contentsAge t0 iv hist c a ++ (if idx t0 iv now + a = c then [v] else []) := by
  unfold contentsAge
  rw [List.filter_append, List.map_append]
  congr 1
  by_cases h : idx t0 iv now + a = c <;> simp [List.filter, h]

theorem lastIdx_snoc (t0 iv : Nat) (hist : List (Nat × Nat)) (e : Nat × Nat) :
    lastIdx t0 iv (hist ++ [e]) = idx t0 iv e.1 := by
  simp [lastIdx]

/-- `Add` at time `now ≥ lastTime`: the log grows by `(now, v)` and the ring follows. -/
theorem RW.rep_add (rw : RW) (t0 : Nat) (hist : List (Nat × Nat)) (L now v : Nat) (h : rw.Rep t0 hist L)
    (hnow : rw.lastTime ≤ now) :
    (rw.add now v).Rep t0 (hist ++ [(now, v)]) (idx t0 rw.interval now)
    ∧ (rw.add now v).size = rw.size ∧ (rw.add now v).interval = rw.interval
    ∧ (rw.add now v).ignoreCurrent = rw.ignoreCurrent
    ∧ (rw.add now v).lastTime ≤ now := by
  obtain ⟨hu, e1, e2, e3⟩ := rw.rep_update t0 hist L now h hnow
  generalize hc : idx t0 rw.interval now = c at hu
  generalize hu' : rw.updateOffset now = u at hu e1 e2 e3
  have hn : 0 < u.size := hu.size_pos
  have hlast : u.lastTime ≤ now := by
    rw [hu.last, e2, ← hc]
    unfold idx
    have := Nat.mul_div_le (now - t0) rw.interval
    have : t0 ≤ now := by have := h.last; omega
    omega
  unfold RW.add
  rw [hu']
  rw [← e1, Nat.mod_eq_of_lt hu.off]
  refine ⟨⟨hn, hu.iv_pos, ?_, hu.off, hu.last, ?_, ?_⟩, rfl, e2, e3, hlast⟩
  · show (u.buckets.set _ _).length = u.size
    rw [List.length_set, hu.len]
  · intro e he
    rcases List.mem_append.1 he with he | he
    · exact hu.bound e he
    · simp only [List.mem_singleton] at he
      subst he
      show idx t0 u.interval now ≤ c
      rw [e2, hc]; exact Nat.le_refl _
  · intro a ha
    show (u.buckets.set u.offset (u.buckets.getD u.offset [] ++ [v])).getD ((u.offset + u.size - a) % u.size) []
        = contentsAge t0 u.interval (hist ++ [(now, v)]) c a
    rw [contentsAge_snoc, e2, hc]
    by_cases ha0 : a = 0
    · subst ha0
      rw [pos_age0 _ _ hn hu.off]
      have h0 := hu.cont 0 hn
      rw [pos_age0 _ _ hn hu.off] at h0
      simp only [Nat.add_zero, if_true, List.getD_eq_getElem?_getD]
      rw [List.getElem?_set_self (by rw [hu.len]; exact hu.off)]
      simp only [Option.getD_some, List.getD_eq_getElem?_getD] at h0 ⊢
      rw [h0, e2]
    · have : ¬ c + a = c := by omega
      simp only [this, if_false, List.append_nil, List.getD_eq_getElem?_getD]
      rw [List.getElem?_set_ne (pos_other _ _ _ hn hu.off ha ha0)]
      have := hu.cont a ha
      simp only [List.getD_eq_getElem?_getD] at this
      rw [this, e2]

/-- `Reduce` at time `now ≥ lastTime` hands out the log's intervals. -/
theorem RW.reduce_rep (rw : RW) (t0 : Nat) (hist : List (Nat × Nat)) (L now : Nat) (h : rw.Rep t0 hist L)
    (hnow : rw.lastTime ≤ now) :
    rw.reduce now = (agesDown rw.size (if idx t0 rw.interval now = L ∧ rw.ignoreCurrent then 1
        else idx t0 rw.interval now - L)).map (contentsAge t0 rw.interval hist (idx t0 rw.interval now)) := by
  have hn := h.size_pos
  have hiv := h.iv_pos
  have ho := h.off
  rw [h.last] at hnow
  obtain ⟨a1, a2, _⟩ := span_arith t0 rw.interval L now hiv hnow
  generalize hc : idx t0 rw.interval now = c at a1 a2
  have hspan : rw.span now = if c - L < rw.size then c - L else rw.size := by
    unfold RW.span; rw [h.last, a1]
  have hdiff : rw.diff now = rw.size - (if c = L ∧ rw.ignoreCurrent then 1 else c - L) := by
    unfold RW.diff
    by_cases hcl : c = L
    · have hs0 : rw.span now = 0 := by rw [hspan]; split <;> omega
      by_cases hig : rw.ignoreCurrent = true
      · simp [hs0, hcl, hig]
      · simp [hs0, hcl, hig]
    · have hs0 : ¬ rw.span now = 0 := by rw [hspan]; split <;> omega
      simp only [hs0, hcl, false_and, if_false]
      rw [hspan]; split <;> omega
  unfold RW.reduce agesDown
  rw [hdiff, List.map_map]
  apply List.map_congr_left
  intro i hi
  have hi' := List.mem_range.1 hi
  simp only [Function.comp]
  rw [Nat.mod_add_mod]
  -- i < diff, so the span is below size and equals c - L
  have hlo : (if c = L ∧ rw.ignoreCurrent then 1 else c - L) ≥ c - L := by split <;> omega
  have hsc : rw.span now = c - L := by rw [hspan]; split <;> omega
  have hpos : rw.offset + rw.span now + 1 + i = rw.offset + rw.size - (rw.size - 1 - i - (c - L)) := by omega
  rw [hpos, h.cont _ (by omega)]
  rw [contentsAge_shift t0 rw.interval hist L _ (c - L)]
  congr 1 <;> omega

/-- all additions of a time-monotone history: the ring represents the whole log -/
theorem RW.run_rep (t0 : Nat) (evs : List (Nat × Nat)) : ∀ (rw : RW) (hist : List (Nat × Nat)) (L : Nat),
    rw.Rep t0 hist L → L = lastIdx t0 rw.interval hist →
    List.Pairwise (· ≤ ·) (evs.map (·.1)) → (∀ e, e ∈ evs → rw.lastTime ≤ e.1) →
    ∀ now, rw.lastTime ≤ now → (∀ e, e ∈ evs → e.1 ≤ now) →
    (rw.run evs).Rep t0 (hist ++ evs) (lastIdx t0 rw.interval (hist ++ evs))
    ∧ (rw.run evs).size = rw.size ∧ (rw.run evs).interval = rw.interval
    ∧ (rw.run evs).ignoreCurrent = rw.ignoreCurrent ∧ (rw.run evs).lastTime ≤ now := by
  induction evs with
  | nil =>
    intro rw hist L h hL _ _ now hnow _
    subst hL
    simpa [RW.run] using ⟨h, hnow⟩
  | cons e es ih =>
    intro rw hist L h hL hp hlo now hnow hall
    obtain ⟨r1, r2, r3, r4, r5⟩ := rw.rep_add t0 hist L e.1 e.2 h (hlo e (by simp))
    simp only [List.map_cons, List.pairwise_cons] at hp
    have hstep := ih (rw.add e.1 e.2) (hist ++ [e]) (idx t0 rw.interval e.1)
      (by simpa using r1) (by rw [r3, lastIdx_snoc]) hp.2
      (fun x hx => Nat.le_trans r5 (hp.1 x.1 (List.mem_map_of_mem (f := (·.1)) hx)))
      now (Nat.le_trans r5 (hall e (by simp))) (fun x hx => hall x (by simp [hx]))
    rw [r2, r3, r4] at hstep
    have e1 : hist ++ e :: es = hist ++ [e] ++ es := by simp
    rw [e1]
    simpa [RW.run] using hstep

/-! ### dropping buckets that cannot hold anything does not change the visited values -/

theorem agesDown_succ (size lo : Nat) (h : lo < size) : agesDown size lo = agesDown size (lo + 1) ++ [lo] := by
  unfold agesDown
  have e : size - lo = (size - (lo + 1)) + 1 := by omega
  rw [e, List.range_succ, List.map_append]
  congr 1
  simp only [List.map_cons, List.map_nil, List.cons.injEq, and_true]
  omega

theorem agesDown_empty (size lo : Nat) (h : size ≤ lo) : agesDown size lo = [] := by
  unfold agesDown
  have : size - lo = 0 := by omega
  rw [this]; rfl

theorem agesDown_flatten_skip (size : Nat) (f : Nat → List Nat) : ∀ (d lo' : Nat),
    (∀ a, lo' ≤ a → a < lo' + d → f a = []) →
    ((agesDown size lo').map f).flatten = ((agesDown size (lo' + d)).map f).flatten := by
  intro d
  induction d with
  | zero => intro lo' _; rfl
  | succ d ih =>
    intro lo' h
    have h1 := ih (lo' + 1) (fun a h1 h2 => h a (by omega) (by omega))
    have e : lo' + 1 + d = lo' + (d + 1) := by omega
    rw [e] at h1
    rw [← h1]
    by_cases hl : lo' < size
    · rw [agesDown_succ size lo' hl, List.map_append, List.flatten_append]
      simp [h lo' (Nat.le_refl _) (by omega)]
    · rw [agesDown_empty size lo' (by omega), agesDown_empty size (lo' + 1) (by omega)]

end GoZero.C16
