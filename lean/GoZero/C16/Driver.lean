/-
C16 — driver: replays an implementation trace through the models (correspondence) and the specs (monitor).
One section = one structure instance; `s=<queue|ring|set|safemap|rw|cache>` in the section header selects it.
-/
import GoZero.Base.Trace
import GoZero.C16.Spec
import GoZero.C16.DriverRW
import GoZero.C16.DriverCache
import GoZero.C16.ModelApi
namespace GoZero.C16

open GoZero

def optS : Option Nat → String
  | none => "none"
  | some v => toString v

def boolS (b : Bool) : String := if b then "true" else "false"

def insertPair (x : Nat × Nat) : List (Nat × Nat) → List (Nat × Nat)
  | [] => [x]
  | y :: ys => if x.1 < y.1 ∨ (x.1 = y.1 ∧ x.2 ≤ y.2) then x :: y :: ys else y :: insertPair x ys

def canonList (l : List (Nat × Nat)) : List String :=
  (l.foldr insertPair []).map fun (k, v) => s!"{k}:{v}"

def canonPairs (l : List (Nat × Nat)) : String := joinSp (canonList l)

/-- compare one observation with model and spec -/
def judge (r : Report) (s : Section) (l : Line) (model spec : String) : Report :=
  let impl := joinSp l.obs
  let r := if model ≠ impl then r.mismatch s.idx l.idx model impl else r
  if spec ≠ impl then r.violation s.idx l.idx s!"struct={kvStr s.cfg "s"} op=[{joinSp l.op}] spec=[{spec}] impl=[{impl}]" else r

/-! ### queue -/

def runQueue (r : Report) (s : Section) : Report := Id.run do
  let size := kvNat s.cfg "size" 0
  let mut q := Queue.new size
  let mut sp : Spec.Fifo := []
  let mut r := r
  if kvInt s.cfg "size" 0 < 0 then
    -- `NewQueue(negative)`: `make([]any, size)` panics, no queue exists (outside the property: size ≥ 1)
    r := r.addCover "q-new-negative-panics"
    for l in s.lines do
      r := { r with ops := r.ops + 1 }
      if joinSp l.obs ≠ "PANIC-new" then r := r.mismatch s.idx l.idx "PANIC-new" (joinSp l.obs)
    return r
  for l in s.lines do
    r := { r with ops := r.ops + 1 }
    match l.op with
    | ["put", x] =>
      match x.toNat? with
      | none => r := r.mismatch s.idx l.idx "bad-op" (joinSp l.op)
      | some x =>
        if q.grow.elems.length = 0 then
          -- size 0: `q.elements[q.tail]` is out of range; outside the property (size ≥ 1)
          r := r.addCover "q-put-size0-panic"
          if l.obs.head? ≠ some "PANIC" then r := r.mismatch s.idx l.idx "PANIC" (joinSp l.obs)
        else
          r := r.addCover (if q.head = q.tail ∧ q.count > 0 then
                             (if q.head = 0 then "q-put-grow-head0" else "q-put-grow-wrapped")
                           else if q.tail + 1 = q.elems.length then "q-put-wrap" else "q-put")
          if x = 0 then r := r.addCover "q-put-nil"
          q := q.put x
          sp := (Spec.Fifo.step sp (.put x)).1
          r := judge r s l "ok" "ok"
    | ["take"] =>
      let (o, q') := q.take
      let (sp', so) := Spec.Fifo.step sp .take
      r := r.addCover (if o.isNone then "q-take-empty" else if q.head + 1 = q.elems.length then "q-take-wrap" else "q-take")
      if o = some 0 then r := r.addCover "q-take-nil-is-present"
      r := judge r s l (optS o) (match so with | .val v => optS v | _ => "?")
      q := q'
      sp := sp'
    | ["empty"] =>
      r := r.addCover "q-empty"
      r := judge r s l (boolS q.empty) (boolS sp.isEmpty)
    | _ => r := r.mismatch s.idx l.idx "bad-op" (joinSp l.op)
  return r

/-! ### ring -/

def runRing (r : Report) (s : Section) : Report := Id.run do
  let nI := kvInt s.cfg "n" 1
  let n := nI.toNat
  let mut hist : Array Nat := #[]
  let mut r := r
  -- the constructor as a function of ANY integer argument (`Ring.newApi`, `ring_api_keeps_last_n`)
  let mut rg := (Ring.newApi nI).getD (Ring.new 0)
  if (Ring.newApi nI).isNone then
    -- `NewRing(n)` with n < 1 panics (`tie_newRingGuard`): no ring exists, outside the property (n ≥ 1)
    r := r.addCover "ring-new-panics"
    for l in s.lines do
      r := { r with ops := r.ops + 1 }
      if joinSp l.obs ≠ "PANIC-new" then
        r := r.mismatch s.idx l.idx "PANIC-new" (joinSp l.obs)
        -- a ring of n < 1 elements cannot keep "the last n elements": the only conforming behaviour is to refuse
        r := r.violation s.idx l.idx s!"struct=ring NewRing({nI}) returned a ring (n < 1 must panic) op=[{joinSp l.op}] impl=[{joinSp l.obs}]"
    return r
  for l in s.lines do
    r := { r with ops := r.ops + 1 }
    match l.op with
    | ["add", x] =>
      match x.toNat? with
      | none => r := r.mismatch s.idx l.idx "bad-op" (joinSp l.op)
      | some x =>
        r := r.addCover (if rg.index + 1 ≥ 2 * n then "ring-add-foldback" else if rg.index ≥ n then "ring-add-overwrite" else "ring-add")
        if x = 0 then r := r.addCover "ring-add-nil"
        rg := rg.add x
        hist := hist.push x
        r := judge r s l "ok" "ok"
    | ["take"] =>
      r := r.addCover (if rg.index > n then "ring-take-wrapped" else if rg.index = n then "ring-take-full" else "ring-take-partial")
      let m := joinSp (rg.take.map toString)
      let sp := joinSp ((Spec.lastN n hist.toList).map toString)
      -- the harness keeps the slices earlier Takes returned: "keeps the last n elements" is about the moment of the
      -- call, a later Add must not reach into a slice already handed out
      if l.obs.contains "HELD-SLICE-CHANGED" then
        r := r.violation s.idx l.idx s!"struct=ring op=[take] a slice returned by an earlier Take changed after later Adds (Take must return a fresh slice, not a view of the ring's buffer)"
      r := judge r s l m sp
    | _ => r := r.mismatch s.idx l.idx "bad-op" (joinSp l.op)
  return r

/-! ### set -/

def parsePair (t v : String) : Option (Nat × Nat) := do pure ((← t.toNat?), (← v.toNat?))

/-- `t v1 v2 …` → elements of one type -/
def parseSame (t : String) (vs : List String) : Option (List (Nat × Nat)) := do
  let t ← t.toNat?
  vs.mapM fun v => do pure (t, (← v.toNat?))

/-- `t1 v1 t2 v2 …` -/
def parseMixed : List String → Option (List (Nat × Nat))
  | [] => some []
  | t :: v :: rest => do pure ((← parsePair t v) :: (← parseMixed rest))
  | _ => none

def runSet (r : Report) (s : Section) : Report := Id.run do
  let managed := kvNat s.cfg "managed" 1 = 1
  let mut st := GSet.new managed
  let mut hist : List SetOp := []      -- newest first
  let mut sp : List (Nat × Nat) := []  -- executable reference: duplicate-free list
  let mut r := r
  for l in s.lines do
    r := { r with ops := r.ops + 1 }
    match l.op with
    | ["add", t, v] =>
      match parsePair t v with
      | none => r := r.mismatch s.idx l.idx "bad-op" (joinSp l.op)
      | some x =>
        r := r.addCover (if st.tp = tpUntyped ∧ knownType x.1 then "set-add-settype"
                         else if x ∈ st.data then "set-add-present"
                         else if st.tp ≠ tpUnmanaged ∧ st.tp ≠ tpUntyped ∧ st.mismatch x then "set-add-typemismatch" else "set-add")
        if x.1 = 8 then r := r.addCover "set-add-nil"
        st := st.add x
        hist := .add x :: hist
        sp := if sp.contains x then sp else x :: sp
        r := judge r s l s!"tp={st.tp}" (joinSp l.obs)
    | "addn" :: t :: vs | "addmix" :: t :: vs =>
      -- variadic Add / AddInt / … : the elements are added one by one, in order
      match (if l.op.head? = some "addn" then parseSame t vs else parseMixed (t :: vs)) with
      | none => r := r.mismatch s.idx l.idx "bad-op" (joinSp l.op)
      | some xs =>
        r := r.addCover (if xs.length ≥ 2 then "set-add-variadic-many" else if xs.length = 1 then "set-add-variadic-1" else "set-add-variadic-0")
        if xs.length ≥ 2 ∧ ¬ xs.Nodup then r := r.addCover "set-add-variadic-duplicates"
        if st.tp = tpUntyped ∧ (xs.any fun x => knownType x.1) then r := r.addCover "set-add-variadic-settype"
        st := st.addMany xs
        hist := (xs.map SetOp.add).reverse ++ hist
        sp := xs.foldl (fun sp x => if sp.contains x then sp else x :: sp) sp
        r := judge r s l s!"tp={st.tp}" (joinSp l.obs)
    | ["addmix"] =>
      r := r.addCover "set-add-variadic-0"
      r := judge r s l s!"tp={st.tp}" (joinSp l.obs)
    | ["remove", t, v] =>
      match parsePair t v with
      | none => r := r.mismatch s.idx l.idx "bad-op" (joinSp l.op)
      | some x =>
        r := r.addCover (if x ∈ st.data then "set-remove" else "set-remove-absent")
        st := st.remove x
        hist := .remove x :: hist
        sp := sp.filter (· ≠ x)
        r := judge r s l s!"tp={st.tp}" (joinSp l.obs)
    | ["contains", t, v] =>
      match parsePair t v with
      | none => r := r.mismatch s.idx l.idx "bad-op" (joinSp l.op)
      | some x =>
        r := r.addCover (if st.data.length = 0 then "set-contains-emptyset" else if x ∈ st.data then "set-contains-yes" else "set-contains-no")
        r := judge r s l (boolS (st.contains x)) (boolS (Spec.setMem hist x))
    | ["count"] =>
      r := r.addCover "set-count"
      r := judge r s l (toString st.count) (toString sp.length)
    | ["keys"] =>
      -- Keys(), then the union of the typed views KeysInt … KeysStr (+ the keys of other types): both are the set
      r := r.addCover "set-keys"
      if (sp.map (·.1)).eraseDups.length ≥ 2 then r := r.addCover "set-keys-several-types"
      r := judge r s l (joinSp (canonList st.data ++ ["|"] ++ canonList st.data)) (joinSp (canonList sp ++ ["|"] ++ canonList sp))
    | _ => r := r.mismatch s.idx l.idx "bad-op" (joinSp l.op)
  return r

/-! ### safemap -/

def runSafeMap (r : Report) (s : Section) : Report := Id.run do
  let maxDel := kvNat s.cfg "maxdel" 10000
  let thr := kvNat s.cfg "copythr" 1000
  let mut m := SafeMap.init
  let mut sp : AL := []
  let mut r := r
  -- `pre=n:d`: keys 0…n-1 preloaded (Set k (k+1)), then deletionOld poked to d (a reachable state, see the harness)
  match (kvStr s.cfg "pre").splitOn ":" with
  | [n, d] =>
    match n.toNat?, d.toNat? with
    | some n, some d =>
      r := r.addCover "sm-preloaded"
      -- the n Sets on the empty map, built directly (`SafeMap.set` with deletionOld = 0 conses the pair)
      m := { m with old := (List.range n).reverse.map (fun k => (k, k + 1)), delOld := d }
      sp := (List.range n).reverse.map fun k => (k, k + 1)
    | _, _ => r := r.mismatch s.idx 0 "pre=<n>:<d>" (joinSp s.cfg)
  | _ => pure ()
  for l in s.lines do
    r := { r with ops := r.ops + 1 }
    match l.op with
    | ["set", k, v] =>
      match parsePair k v with
      | none => r := r.mismatch s.idx l.idx "bad-op" (joinSp l.op)
      | some (k, v) =>
        r := r.addCover (if m.delOld ≤ maxDel then (if ahas m.new k then "sm-set-old-movefromnew" else "sm-set-old")
                         else (if ahas m.old k then "sm-set-new-movefromold" else "sm-set-new"))
        if v = 0 then r := r.addCover "sm-set-nil"
        m := m.set maxDel k v
        sp := Spec.alStep sp (.set k v)
        r := judge r s l "ok" "ok"
    | ["del", k] =>
      match k.toNat? with
      | none => r := r.mismatch s.idx l.idx "bad-op" (joinSp l.op)
      | some k =>
        let m1 := m.del1 k
        r := r.addCover (if ahas m.old k then "sm-del-old" else if ahas m.new k then "sm-del-new" else "sm-del-absent")
        if m1.delOld ≥ maxDel ∧ m1.old.length < thr then r := r.addCover "sm-migrate-old-into-new"
        if (m1.mig1 maxDel thr).delNew ≥ maxDel ∧ (m1.mig1 maxDel thr).new.length < thr then r := r.addCover "sm-migrate-new-into-old"
        if m1.delOld ≥ maxDel ∧ ¬ m1.old.length < thr then r := r.addCover "sm-old-exhausted-but-large"
        m := m.del maxDel thr k
        sp := Spec.alStep sp (.del k)
        r := judge r s l "ok" "ok"
    | ["get", k] =>
      match k.toNat? with
      | none => r := r.mismatch s.idx l.idx "bad-op" (joinSp l.op)
      | some k =>
        r := r.addCover (if ahas m.old k then "sm-get-old" else if ahas m.new k then "sm-get-new" else "sm-get-absent")
        if m.get k = some 0 then r := r.addCover "sm-get-nil-is-present"
        r := judge r s l (optS (m.get k)) (optS (alookup sp k))
    | ["size"] =>
      r := r.addCover "sm-size"
      r := judge r s l (toString m.size) (toString sp.length)
    | ["range"] =>
      r := r.addCover "sm-range"
      r := judge r s l (canonPairs m.range) (canonPairs sp)
    | ["rangestop", j] =>
      -- `Range(f)` with an `f` that answers false from its j-th call on (0 = never): `safemap_range_stops` —
      -- f is called min(j, size) times, never twice with a key, only with pairs of the map.  The order of a Go map
      -- iteration is random, so the pairs are compared with the spec map, the COUNT with the model.
      -- `o+d`: d calls beyond the size of the old generation at this moment
      match (if j.startsWith "o+" then (j.drop 2).toString.toNat?.map (m.old.length + ·) else j.toNat?) with
      | none => r := r.mismatch s.idx l.idx "bad-op" (joinSp l.op)
      | some j =>
        let want := (m.rangeUntil j).length
        let wantSpec := if j = 0 then sp.length else min j sp.length
        r := r.addCover (if j = 0 then "sm-rangestop-never" else if j ≤ m.old.length then "sm-rangestop-in-old"
                         else if j ≤ m.size then "sm-rangestop-in-new" else "sm-rangestop-beyond-size")
        if j ≠ 0 ∧ j ≤ m.old.length ∧ m.new.length > 0 then r := r.addCover "sm-rangestop-in-old-new-nonempty"
        let calls := kvNat l.obs "calls" 0
        let pairs := (l.obs.drop 1).filterMap fun tok =>
          match tok.splitOn ":" with
          | [k, v] => (do pure ((← k.toNat?), (← v.toNat?)) : Option (Nat × Nat))
          | _ => none
        if l.obs.head? ≠ some s!"calls={calls}" ∨ pairs.length + 1 ≠ l.obs.length ∨ pairs.length ≠ calls then
          r := r.mismatch s.idx l.idx s!"calls={want} <pairs>" (joinSp l.obs)
        else
          if calls ≠ want then r := r.mismatch s.idx l.idx s!"calls={want}" (joinSp l.obs)
          if calls ≠ wantSpec then
            r := r.violation s.idx l.idx s!"struct=safemap op=[{joinSp l.op}] Range called f {calls} times although f said stop at call {j}; size={sp.length}, want {wantSpec} calls"
          if ¬ (pairs.map (·.1)).Nodup then
            r := r.violation s.idx l.idx s!"struct=safemap op=[{joinSp l.op}] Range visited a key twice impl=[{joinSp l.obs}]"
          if pairs.any fun (k, v) => alookup sp k ≠ some v then
            r := r.violation s.idx l.idx s!"struct=safemap op=[{joinSp l.op}] Range visited a pair that is not in the map impl=[{joinSp l.obs}] map=[{canonPairs sp}]"
    | ["st"] =>
      -- white-box: generation counters and sizes (correspondence only)
      let ms := s!"{m.delOld} {m.delNew} {m.old.length} {m.new.length}"
      if ms ≠ joinSp l.obs then r := r.mismatch s.idx l.idx ms (joinSp l.obs)
    | _ => r := r.mismatch s.idx l.idx "bad-op" (joinSp l.op)
  return r

def runSingle (r : Report) (s : Section) : Report :=
  match kvStr s.cfg "s" with
  | "queue" => (runQueue r s).addCover "sections-queue"
  | "ring" => (runRing r s).addCover "sections-ring"
  | "set" => (runSet r s).addCover "sections-set"
  | "safemap" => (runSafeMap r s).addCover "sections-safemap"
  | "rw" => (runRW r s).addCover "sections-rw"
  | "cache" => (runCache r s).addCover "sections-cache"
  | other => r.mismatch s.idx 0 "known structure" other

/-- the instance tags `@i` of a multi-instance section, in order of first appearance -/
def instTags (s : Section) : List String := (s.lines.filterMap fun (l : Line) => l.op.head?).eraseDups

/-- Multi-instance section: the operations of several instances of one structure are interleaved in the trace.  The
instances are independent objects, so every instance is replayed on its own, through the same model / spec / monitor
as a single-instance section (any influence of one instance on another shows as a mismatch and a violation there).
`@i new <cfg>` creates instance i. -/
def runMulti (r : Report) (s : Section) : Report := Id.run do
  let mut r := r.addCover "sections-multi"
  let tags := instTags s
  r := r.addCover s!"multi-instances-{tags.length}"
  let mut cfgs : List (List String) := []
  for tag in tags do
    let mine : List Line := s.lines.filter fun (l : Line) => l.op.head? = some tag
    let pre : List Line := mine.takeWhile fun (l : Line) => (l.op.drop 1).head? ≠ some "new"
    for l in pre do
      r := { r with ops := r.ops + 1 }
      if ¬ tag.startsWith "@" then r := r.mismatch s.idx l.idx "bad-op" (joinSp l.op)
      else if joinSp l.obs ≠ "no-instance" then r := r.mismatch s.idx l.idx "no-instance" (joinSp l.obs)
    match mine.drop pre.length with
    | [] => pure ()
    | nl :: rest =>
      r := { r with ops := r.ops + 1 }
      let cfg := nl.op.drop 2
      if kvStr cfg "s" = "multi" ∨ kvStr cfg "s" = "" then
        r := r.mismatch s.idx nl.idx "structure" (joinSp nl.op)
      else
        if joinSp nl.obs ≠ "ok" then r := r.mismatch s.idx nl.idx "ok" (joinSp nl.obs)
        if cfgs.contains cfg then
          r := r.addCover "multi-same-parameters"
          if kvStr cfg "s" = "cache" ∧ cacheLimitOf cfg > 0 then r := r.addCover "multi-cache-shared-option-lru"
        cfgs := cfg :: cfgs
        r := runSingle r { idx := s.idx, cfg := cfg, lines := rest.map fun (l : Line) => { l with op := l.op.drop 1 } }
  return r

def runSection (r : Report) (s : Section) : Report :=
  if kvStr s.cfg "s" = "multi" then runMulti r s else runSingle r s

def driver (secs : List Section) : Report := secs.foldl runSection {}

end GoZero.C16
