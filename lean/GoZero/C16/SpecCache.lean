/-
C16 — abstract cache: the same map + recency list, with the timing wheel replaced by the C12 timer *table*
(key ↦ value, ticks remaining): an entry set with `ticks` expires at exactly the `ticks`-th following tick
unless it is set again (timer restarted), deleted or evicted before.
-/
import GoZero.C12.Spec
import GoZero.C16.ModelCache
namespace GoZero.C16.Spec

abbrev ACache := CacheG C12.Spec.Table

def ACache.new (limit : Nat) : ACache := { limit := limit, data := [], lru := [], timers := [] }

def ACache.step (c : ACache) (op : COp) : ACache × CacheOut := CacheG.step C12.Spec.step c op

end GoZero.C16.Spec
