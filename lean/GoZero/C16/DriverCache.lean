import GoZero.Base.Trace
namespace GoZero.C16
open GoZero
def runCache (r : Report) (s : Section) : Report := r.mismatch s.idx 0 "cache driver" "not built yet"
end GoZero.C16
