/-
C16 — Cache section driver.
Ops:  set <k> <v> <expire-ns> <rand> | get <k> | del <k> | take <k> <v> ok|fail <rand> | tick | st
Obs:  ns=<jittered expiry, observed> evict=<keys|-> expired=<keys|->   (set)
      <v>|none (get)   ok (del)   <v>|err calls=<n> ns=… evict=… expired=… (take)   expired=… (tick)
      size=<n> lru=<keys front first|-> timers=<n>   (st, white-box)
The first line carries ` | interval=<ns> slots=<n>` (the real wheel's parameters).
-/
import GoZero.Base.Trace
import GoZero.C16.SpecCache
import GoZero.C16.ModelApi
namespace GoZero.C16
open GoZero

/-- the option list of the section header: `opts=L3,N2,L0` = WithLimit(3), WithName("n2"), WithLimit(0) (`-` = none);
older traces carry `limit=<n>` alone (= one WithLimit).  none = unparsable. -/
def cacheOptsOf (cfg : List String) : Option (List CacheOpt) :=
  let spec := kvStr cfg "opts"
  if spec = "" then some [CacheOpt.withLimit (kvInt cfg "limit" 0)]
  else if spec = "-" then some []
  else (spec.splitOn ",").mapM fun tok =>
    if tok.startsWith "L" then (tok.drop 1).toString.toInt?.map CacheOpt.withLimit
    else if tok.startsWith "N" then (tok.drop 1).toString.toNat?.map CacheOpt.withName
    else none

def cacheLimitOf (cfg : List String) : Nat := effLimit ((cacheOptsOf cfg).getD [])

/-- loader kinds of the `take` op -/
def loadOf (f : String) (v : Nat) : Option Load :=
  match f with
  | "ok" => some (.value v)
  | "fail" => some .error
  | "nilerr" => some .typedNilError
  | "panice" => some .panicError
  | "panics" => some .panicValue
  | "goexit" => some .goexit
  | _ => none

def takeRetS : TakeRet → String
  | .val v => toString v
  | .err => "err"
  | .panics => "panic"
  | .exits => "goexit"

def keysS (l : List Nat) : String := if l.isEmpty then "-" else ",".intercalate (l.map toString)

def outEvents (o : CacheOut) : String := s!"evict={keysS o.evicted} expired={keysS (sortNat o.expired)}"

def runCache (r : Report) (s : Section) : Report := Id.run do
  -- `WithLimit(limit)` installs a keyLru only for limit > 0; zero and negative limits mean "no limit"
  let optsO := cacheOptsOf s.cfg
  let opts := optsO.getD []
  let limit := effLimit opts
  let expireI := kvInt s.cfg "expire" 0
  let firstObs := match s.lines.head? with | some l => l.obs | none => []
  let interval := kvNat firstObs "interval" 0
  let slots := kvNat firstObs "slots" 0
  let mut r := r
  if s.lines.isEmpty then return r
  if interval = 0 ∨ slots = 0 then return r.mismatch s.idx 0 "interval=… slots=… on the first line" (joinSp firstObs)
  if optsO.isNone then return r.mismatch s.idx 0 "opts=L<int>,N<nat>,…" (joinSp s.cfg)
  -- the option loop of NewCache (`cacheCfg`): which limit is in force, which name reached newCacheStat
  r := r.addCover (if opts.isEmpty then "cache-opts-none" else if opts.length = 1 then "cache-opts-1" else "cache-opts-several")
  if (opts.filterMap CacheOpt.posLimit).length ≥ 2 then r := r.addCover "cache-opts-limit-replaced"
  if limit > 0 ∧ (opts.getLast?.map CacheOpt.posLimit) = some none then r := r.addCover "cache-opts-limit-kept-after-later-option"
  if opts.any (fun o => match o with | .withLimit l => l ≤ 0 | _ => false) ∧ limit > 0 then r := r.addCover "cache-opts-nonpositive-limit-beside-positive"
  if opts.any (fun o => match o with | .withName _ => true | _ => false) then
    r := r.addCover (if (cacheCfg opts).name = 0 then "cache-opts-name-empty" else "cache-opts-name")
  let wantName := if effName 0 opts = 0 then "proc" else s!"n{effName 0 opts}"
  if kvStr firstObs "name" ≠ "" ∧ (kvStr firstObs "name" ≠ wantName ∨ kvStr firstObs "sname" ≠ wantName) then
    r := r.mismatch s.idx 0 s!"name={wantName} sname={wantName}" (joinSp firstObs)
  let mut c : Cache := Cache.newApi opts slots
  let mut a : Spec.ACache := Spec.ACache.new limit
  let mut hit := 0
  let mut miss := 0
  if opts.any (fun o => match o with | .withLimit l => l < 0 | _ => false) then r := r.addCover "cache-limit-negative"
  if expireI ≤ 0 then r := r.addCover "cache-default-expiry-nonpositive"
  for l in s.lines do
    r := { r with ops := r.ops + 1 }
    let obs := l.obs.takeWhile (· ≠ "|")
    let impl := joinSp obs
    -- jittered expiry observed by the harness (input of model and spec)
    let nsI := kvInt obs "ns" 0
    let ns := nsI.toNat
    let judge := fun (r : Report) (m sp : String) =>
      let r := if m ≠ impl then r.mismatch s.idx l.idx m impl else r
      if sp ≠ impl then r.violation s.idx l.idx s!"struct=cache op=[{joinSp l.op}] spec=[{sp}] impl=[{impl}]" else r
    let jitter := fun (r : Report) (baseI : Int) =>
      -- [0.95, 1.05]·base, ±1 ns for the float64 product (a non-positive base stays non-positive)
      if baseI ≤ 0 then
        let r := if nsI > 0 ∨ 20 * nsI - 20 > 19 * baseI ∨ 20 * nsI + 20 < 21 * baseI then
          r.violation s.idx l.idx s!"struct=cache op=[{joinSp l.op}] expiry {nsI} outside [0.95,1.05]*{baseI}" else r
        r.addCover "cache-jitter-nonpositive-base"
      else
      let base := baseI.toNat
      let r := if nsI < 0 ∨ 20 * ns + 20 < 19 * base ∨ 20 * ns > 21 * base + 20 then
          r.violation s.idx l.idx s!"struct=cache op=[{joinSp l.op}] expiry {nsI} outside [0.95,1.05]*{base}" else r
      if 20 * ns ≤ 19 * base + 20 then r.addCover "cache-jitter-low-end"
      else if 20 * ns + 20 ≥ 21 * base then r.addCover "cache-jitter-high-end" else r
    -- the property's words "evicts in least-recently-used order / never more than its limit", on what the REAL cache
    -- reported: an eviction is due only when a NEW key arrives at a cache that already holds `limit` live entries
    -- (`a` = the reference cache before the operation); anything else evicts a live entry for no reason (e.g. a
    -- recency list that still carries keys which are gone)
    let evictClause := fun (r : Report) (k : Nat) =>
      let ev := kvStr obs "evict"
      if ev ≠ "" ∧ ev ≠ "-" ∧ (limit = 0 ∨ a.data.length < limit ∨ ahas a.data k) then
        r.violation s.idx l.idx s!"struct=cache op=[{joinSp l.op}] evicted {ev} although the cache held {a.data.length} live entries (limit {limit}) and key {k} was {if ahas a.data k then "cached" else "new"}: no eviction is due"
      else r
    -- "evicts in least-recently-used order": when an eviction IS due, the victim the real cache reports must be the
    -- least recently used key of the reference cache
    let lruClause := fun (r : Report) (ao : CacheOut) =>
      let ev := kvStr obs "evict"
      match ao.evicted with
      | [old] => if ev ≠ "" ∧ ev ≠ "-" ∧ ev ≠ toString old then
          r.violation s.idx l.idx s!"struct=cache op=[{joinSp l.op}] evicted {ev}, but the least recently used key is {old} (recency, oldest last: {keysS a.lru})"
        else r
      | _ => r
    -- `setd k v rand` = Cache.Set: SetWithExpire with the configured default expiry
    let lop := match l.op with
      | ["setd", k, v, j] => ["set", k, v, toString expireI, j]
      | op => op
    if l.op.head? = some "setd" then r := r.addCover "cache-set-default-expiry"
    match lop with
    | ["set", k, v, e, _] =>
      match k.toNat?, v.toNat?, e.toInt? with
      | some k, some v, some e =>
        let ticks := ns / interval
        r := jitter r e
        r := r.addCover (if ahas c.data k then "cache-set-existing" else "cache-set-new")
        if ticks > slots then r := r.addCover "cache-expiry-multirev"
        if ticks = 0 ∧ nsI > 0 then r := r.addCover "cache-expiry-subsecond"
        if nsI ≤ 0 then
          -- SetTimer rejects a delay ≤ 0: no timer is set, a pending one keeps running
          r := r.addCover (if C12.Spec.hasKey a.timers k then "cache-expiry-nonpositive-keeps-old-timer" else "cache-expiry-nonpositive-no-timer")
        let (c', o) := if nsI ≤ 0 then CacheG.setNoTimer C12.step c k v else c.step (.set k v ticks)
        let (a', ao) := if nsI ≤ 0 then CacheG.setNoTimer C12.Spec.step a k v else a.step (.set k v ticks)
        if ¬ o.evicted.isEmpty then r := r.addCover "cache-evict"
        r := evictClause r k
        r := lruClause r ao
        r := judge r s!"ns={nsI} {outEvents o}" s!"ns={nsI} {outEvents ao}"
        if ao.evicted.length > 0 ∧ a.data.length < limit then
          r := r.violation s.idx l.idx s!"struct=cache evicted below the limit op=[{joinSp l.op}]"
        c := c'; a := a'
      | _, _, _ => r := r.mismatch s.idx l.idx "bad-op" (joinSp l.op)
    | ["get", k] =>
      match k.toNat? with
      | some k =>
        let (c', o) := c.step (.get k)
        let (a', ao) := a.step (.get k)
        r := r.addCover (if o.result.isSome then "cache-get-hit" else "cache-get-miss")
        if o.result = some 0 then r := r.addCover "cache-get-hit-nil-value"
        if ao.result.isSome then hit := hit + 1 else miss := miss + 1
        let f := fun (x : Option Nat) => match x with | some v => toString v | none => "none"
        r := judge r (f o.result) (f ao.result)
        c := c'; a := a'
      | none => r := r.mismatch s.idx l.idx "bad-op" (joinSp l.op)
    | ["del", k] =>
      match k.toNat? with
      | some k =>
        r := r.addCover (if ahas c.data k then "cache-del" else "cache-del-absent")
        c := (c.step (.del k)).1; a := (a.step (.del k)).1
        r := judge r "ok" "ok"
      | none => r := r.mismatch s.idx l.idx "bad-op" (joinSp l.op)
    | ["take", k, v, f, _] =>
      match k.toNat?, v.toNat? with
      | some k, some v =>
        match loadOf f v with
        | none => r := r.mismatch s.idx l.idx "bad-op" (joinSp l.op)
        | some ld =>
        -- every way the loader can end (`Load`, `take_every_loader_outcome`): anything but a value leaves the cache
        -- as it was and reaches the caller as an error / panic / exit; on a hit the loader's kind is immaterial
        let fails := ld.fails
        let ticks := ns / interval
        r := jitter r expireI
        let (c', o) := if nsI ≤ 0 then CacheG.takeNoTimer C12.step c k ld.val fails else CacheG.takeL C12.step c k ld ticks
        let (a', ao) := if nsI ≤ 0 then CacheG.takeNoTimer C12.Spec.step a k ld.val fails else CacheG.takeL C12.Spec.step a k ld ticks
        -- statistics: found = hit, loaded = miss, load failed = neither
        if ¬ ao.loaded then hit := hit + 1 else if ¬ fails then miss := miss + 1
        if nsI ≤ 0 ∧ ao.loaded ∧ ¬ fails then r := r.addCover "cache-take-load-nonpositive-expiry"
        r := r.addCover (if ¬ o.loaded then "cache-take-hit" else if fails then "cache-take-load-fails" else "cache-take-load")
        r := r.addCover s!"cache-take-loader-{f}-{if o.loaded then "miss" else "hit"}"
        if o.loaded ∧ ¬ fails ∧ v = 0 then r := r.addCover "cache-take-load-nil-value"
        if ¬ o.loaded ∧ o.result = some 0 then r := r.addCover "cache-take-hit-nil-value"
        let fmt := fun (ret : TakeRet) (o : CacheOut) =>
          s!"{takeRetS ret} calls={if o.loaded then 1 else 0} ns={nsI} {outEvents o}"
        r := evictClause r k
        r := lruClause r ao
        r := judge r (fmt (CacheG.takeRet c k ld) o) (fmt (CacheG.takeRet a k ld) ao)
        -- the property's words: the loader runs only on a miss
        if kvNat obs "calls" 0 > 0 ∧ (alookup a.data k).isSome then
          r := r.violation s.idx l.idx s!"struct=cache loader called on a hit op=[{joinSp l.op}]"
        c := c'; a := a'
      | _, _ => r := r.mismatch s.idx l.idx "bad-op" (joinSp l.op)
    | ["tick"] =>
      let (c', o) := c.step .tick
      let (a', ao) := a.step .tick
      r := r.addCover (if o.expired.isEmpty then "cache-tick" else "cache-tick-expires")
      -- the property's words "unless it … has expired", on what the REAL wheel handed to the expiry callback: an entry
      -- expires at the tick its OWN (jittered) expiry falls due — the expire ARGUMENT of the SetWithExpire that stored
      -- it, the configured default for Set / Take — not earlier and not later
      let implExp := (kvStr obs "expired").splitOn "," |>.filterMap (·.toNat?)
      for k in implExp do
        if ¬ ao.expired.contains k then
          r := r.violation s.idx l.idx s!"struct=cache op=[tick] entry {k} expired EARLY: its own expiry (the expire it was set with, jittered) is not due yet {if (alookup a.data k).isSome then "- the latest value set is lost although it was neither deleted nor expired nor evicted" else "(key not cached)"}"
      for k in ao.expired do
        if ¬ implExp.contains k then
          r := r.violation s.idx l.idx s!"struct=cache op=[tick] entry {k} did NOT expire although the expiry it was set with (jittered) has passed: it outlives its expire"
      r := judge r s!"expired={keysS (sortNat o.expired)}" s!"expired={keysS (sortNat ao.expired)}"
      c := c'; a := a'
    | ["st"] =>
      r := r.addCover "cache-st"
      let fmt := fun (n : Nat) (lru : List Nat) (t : Nat) => s!"size={n} lru={keysS (if limit = 0 then [] else lru)} timers={t} hit={hit} miss={miss} cb={n}"
      r := judge r (fmt c.data.length c.lru c.timers.entries.length) (fmt a.data.length a.lru a.timers.length)
      -- the property's words: never more than `limit` entries
      if limit > 0 ∧ kvNat obs "size" 0 > limit then
        r := r.violation s.idx l.idx s!"struct=cache holds {kvNat obs "size" 0} entries, limit {limit}"
      if limit > 0 ∧ a.data.length = limit then r := r.addCover "cache-at-limit"
    | _ => r := r.mismatch s.idx l.idx "bad-op" (joinSp l.op)
  return r

end GoZero.C16
