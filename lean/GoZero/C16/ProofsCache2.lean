/-
C16 — Cache: invariants per operation, eviction / loader / frame facts (any timer mechanism).
-/
import GoZero.C16.ProofsCache
namespace GoZero.C16

section
variable {T : Type} (ts : TStep T)

theorem inv_timers (c : CacheG T) (x : T) (h : c.Inv) : ({ c with timers := x } : CacheG T).Inv :=
  ⟨h.nodupData, h.nodupLru, h.sameKeys, h.lruLen⟩

/-- `keyLru.add(k)` for a key that is (now) in the map, from an invariant state -/
theorem lruAdd_after_insert (c : CacheG T) (k v : Nat) (h : c.Inv) :
    let c0 : CacheG T := { c with data := ainsert c.data k v }
    (CacheG.lruAdd ts c0 k).1.Inv ∧ (CacheG.lruAdd ts c0 k).1.limit = c.limit
    ∧ ((CacheG.lruAdd ts c0 k).2 = [] ∧ (CacheG.lruAdd ts c0 k).1.data = ainsert c.data k v
         ∧ (CacheG.lruAdd ts c0 k).1.timers = c.timers
       ∨ ∃ old, (CacheG.lruAdd ts c0 k).2 = [old] ∧ (CacheG.lruAdd ts c0 k).1.data = aerase (ainsert c.data k v) old
           ∧ c.lru.getLast? = some old ∧ old ≠ k ∧ k ∉ c.lru ∧ c.lru.length = c.limit
           ∧ (CacheG.lruAdd ts c0 k).1.timers = (ts c.timers (.remove old)).1) := by
  intro c0
  exact lruAdd_spec ts c0 k (nodup_ainsert _ _ _ h.nodupData) h.nodupLru h.lruLen (fun hl k' => by
    show (k' ∈ c.lru ∨ k' = k) ↔ k' ∈ akeys (ainsert c.data k v)
    rw [mem_akeys_ainsert, h.sameKeys hl k']
    constructor <;> (rintro (e | e); exact Or.inr e; exact Or.inl e))

/-- `keyLru.add(k)` for a key already in map and list (a hit): no eviction, data untouched -/
theorem lruAdd_hit (c : CacheG T) (k : Nat) (h : c.Inv) (hk : k ∈ akeys c.data) :
    (CacheG.lruAdd ts c k).1.Inv ∧ (CacheG.lruAdd ts c k).1.limit = c.limit
    ∧ (CacheG.lruAdd ts c k).2 = [] ∧ (CacheG.lruAdd ts c k).1.data = c.data := by
  obtain ⟨h1, h2, h3⟩ := lruAdd_spec ts c k h.nodupData h.nodupLru h.lruLen (fun hl k' => by
    rw [h.sameKeys hl k']
    constructor
    · rintro (e | e)
      · exact e
      · exact e ▸ hk
    · exact Or.inl)
  refine ⟨h1, h2, ?_⟩
  rcases h3 with h3 | ⟨old, _, _, _, _, hnot, _⟩
  · exact ⟨h3.1, h3.2.1⟩
  · by_cases hl : 0 < c.limit
    · exact absurd ((h.sameKeys hl k).2 hk) hnot
    · have : c.limit = 0 := by omega
      simp [CacheG.lruAdd, this]

theorem set_limit (c : CacheG T) (k v t : Nat) (h : c.Inv) : (CacheG.set ts c k v t).1.limit = c.limit := by
  unfold CacheG.set
  dsimp only
  rw [expire_limit]
  exact (lruAdd_after_insert ts c k v h).2.1

theorem inv_set (c : CacheG T) (k v t : Nat) (h : c.Inv) : (CacheG.set ts c k v t).1.Inv := by
  unfold CacheG.set
  dsimp only
  apply inv_expire
  apply inv_timers
  exact (lruAdd_after_insert ts c k v h).1

theorem mem_akeys_of_lookup (l : AL) (k v : Nat) (h : alookup l k = some v) : k ∈ akeys l := by
  apply Decidable.by_contra
  intro hc
  rw [(alookup_none_iff l k).2 hc] at h
  cases h

theorem inv_get (c : CacheG T) (k : Nat) (h : c.Inv) :
    (CacheG.get ts c k).1.Inv ∧ (CacheG.get ts c k).1.limit = c.limit ∧ (CacheG.get ts c k).1.data = c.data := by
  unfold CacheG.get
  split
  · rename_i v hv
    have := lruAdd_hit ts c k h (mem_akeys_of_lookup _ _ _ hv)
    exact ⟨this.1, this.2.1, this.2.2.2⟩
  · exact ⟨h, rfl, rfl⟩

theorem inv_take (c : CacheG T) (k v : Nat) (f : Bool) (t : Nat) (h : c.Inv) :
    (CacheG.take ts c k v f t).1.Inv ∧ (CacheG.take ts c k v f t).1.limit = c.limit := by
  unfold CacheG.take
  split
  · rename_i x hx
    have := lruAdd_hit ts c k h (mem_akeys_of_lookup _ _ _ hx)
    exact ⟨this.1, this.2.1⟩
  · split
    · exact ⟨h, rfl⟩
    · exact ⟨inv_set ts c k v t h, set_limit ts c k v t h⟩

theorem inv_tick (c : CacheG T) (h : c.Inv) : (CacheG.tick ts c).1.Inv ∧ (CacheG.tick ts c).1.limit = c.limit := by
  unfold CacheG.tick
  exact ⟨inv_expire ts _ _ (inv_timers c _ h), by rw [expire_limit]⟩

theorem inv_step (c : CacheG T) (op : COp) (h : c.Inv) :
    (CacheG.step ts c op).1.Inv ∧ (CacheG.step ts c op).1.limit = c.limit := by
  cases op with
  | set k v t => exact ⟨inv_set ts c k v t h, set_limit ts c k v t h⟩
  | get k => exact ⟨(inv_get ts c k h).1, (inv_get ts c k h).2.1⟩
  | del k => exact ⟨inv_del ts c k h, del_limit ts c k⟩
  | take k v f t => exact inv_take ts c k v f t h
  | tick => exact inv_tick ts c h

/-- state after a history -/
def CacheG.after (c : CacheG T) (ops : List COp) : CacheG T := ops.foldl (fun c op => (CacheG.step ts c op).1) c

theorem inv_after (ops : List COp) : ∀ (c : CacheG T), c.Inv →
    (CacheG.after ts c ops).Inv ∧ (CacheG.after ts c ops).limit = c.limit := by
  induction ops with
  | nil => intro c h; exact ⟨h, rfl⟩
  | cons op ops ih =>
    intro c h
    obtain ⟨h1, h2⟩ := inv_step ts c op h
    have := ih _ h1
    simp only [CacheG.after, List.foldl_cons] at this ⊢
    exact ⟨this.1, this.2.trans h2⟩

/-! ### what an operation can do to the entry of a key -/

/-- operations that address the entry of `k` themselves -/
def touches (k : Nat) : COp → Bool
  | .set k' _ _ => k' = k
  | .del k' => k' = k
  | .take k' _ _ _ => k' = k
  | .get _ => false
  | .tick => false

theorem set_lookup (c : CacheG T) (k v t : Nat) (h : c.Inv) (k' : Nat) :
    alookup (CacheG.set ts c k v t).1.data k' =
      if k' ∈ (CacheG.set ts c k v t).2.expired ∨ k' ∈ (CacheG.set ts c k v t).2.evicted then none
      else if k' = k then some v else alookup c.data k' := by
  unfold CacheG.set
  dsimp only
  rw [expire_lookup]
  obtain ⟨_, _, h3⟩ := lruAdd_after_insert ts c k v h
  by_cases hx : k' ∈ List.map (fun x => x.fst) (ts (CacheG.lruAdd ts { c with data := ainsert c.data k v } k).1.timers
      (C12.Op.set k v t)).2
  · simp [hx]
  · simp only [hx, if_false, false_or]
    rcases h3 with ⟨e1, e2, _⟩ | ⟨old, e1, e2, _⟩
    · rw [e1, e2, alookup_ainsert]; simp
    · rw [e1, e2, alookup_aerase, alookup_ainsert]
      simp only [List.mem_singleton]

theorem step_frame (c : CacheG T) (op : COp) (h : c.Inv) (k : Nat) (hun : touches k op = false) :
    alookup (CacheG.step ts c op).1.data k = alookup c.data k
    ∨ k ∈ (CacheG.step ts c op).2.evicted ∨ k ∈ (CacheG.step ts c op).2.expired := by
  cases op with
  | set k' v t =>
    simp only [touches, decide_eq_false_iff_not] at hun
    have hne : ¬ k = k' := fun e => hun e.symm
    simp only [CacheG.step]
    rw [set_lookup ts c k' v t h k]
    by_cases h1 : k ∈ (CacheG.set ts c k' v t).2.expired
    · exact Or.inr (Or.inr h1)
    · by_cases h2 : k ∈ (CacheG.set ts c k' v t).2.evicted
      · exact Or.inr (Or.inl h2)
      · simp [h1, h2, hne]
  | get k' => exact Or.inl (by simp only [CacheG.step]; rw [(inv_get ts c k' h).2.2])
  | del k' =>
    simp only [touches, decide_eq_false_iff_not] at hun
    have hne : ¬ k = k' := fun e => hun e.symm
    left
    simp only [CacheG.step, del_data, alookup_aerase, hne, if_false]
  | take k' v f t =>
    simp only [touches, decide_eq_false_iff_not] at hun
    have hne : ¬ k = k' := fun e => hun e.symm
    simp only [CacheG.step]
    unfold CacheG.take
    split
    · rename_i x hx
      left
      rw [(lruAdd_hit ts c k' h (mem_akeys_of_lookup _ _ _ hx)).2.2.2]
    · split
      · exact Or.inl rfl
      · dsimp only
        rw [set_lookup ts c k' v t h k]
        by_cases h1 : k ∈ (CacheG.set ts c k' v t).2.expired
        · exact Or.inr (Or.inr h1)
        · by_cases h2 : k ∈ (CacheG.set ts c k' v t).2.evicted
          · exact Or.inr (Or.inl h2)
          · simp [h1, h2, hne]
  | tick =>
    simp only [CacheG.step, CacheG.tick]
    rw [expire_lookup]
    by_cases h1 : k ∈ List.map (fun x => x.fst) (ts c.timers C12.Op.tick).2
    · exact Or.inr (Or.inr h1)
    · simp [h1]

/-- an entry survives any history that neither addresses its key nor reports it evicted or expired -/
theorem frame_run (ops : List COp) : ∀ (c : CacheG T), c.Inv → ∀ k,
    (∀ op, op ∈ ops → touches k op = false) →
    (∀ o, o ∈ CacheG.run ts c ops → k ∉ o.evicted ∧ k ∉ o.expired) →
    alookup (CacheG.after ts c ops).data k = alookup c.data k := by
  induction ops with
  | nil => intro c _ k _ _; rfl
  | cons op ops ih =>
    intro c h k hun hgone
    have h1 := step_frame ts c op h k (hun op (by simp))
    have hg := hgone (CacheG.step ts c op).2 (by simp [CacheG.run])
    have h2 : alookup (CacheG.step ts c op).1.data k = alookup c.data k := by
      rcases h1 with e | e | e
      · exact e
      · exact absurd e hg.1
      · exact absurd e hg.2
    have := ih (CacheG.step ts c op).1 (inv_step ts c op h).1 k (fun o ho => hun o (by simp [ho]))
      (fun o ho => hgone o (by simp [CacheG.run, ho]))
    simp only [CacheG.after, List.foldl_cons] at this ⊢
    rw [this, h2]

end

/-- the timer table never fires at a `set` -/
theorem table_no_immediate_fire (tbl : C12.Spec.Table) (k v t : Nat) :
    (C12.Spec.step tbl (C12.Op.set k v t)).2 = [] := by
  simp [C12.Spec.step]

end GoZero.C16
