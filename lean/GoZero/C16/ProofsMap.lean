/-
C16 — lemmas about association lists (Go maps) and the SafeMap model.
-/
import GoZero.C16.Spec
namespace GoZero.C16

/-! ### association lists -/

def akeys (l : AL) : List Nat := l.map (·.1)

theorem alookup_aerase (l : AL) (k k' : Nat) :
    alookup (aerase l k) k' = if k' = k then none else alookup l k' := by
  induction l with
  | nil => simp [aerase, alookup]
  | cons p r ih =>
    obtain ⟨a, b⟩ := p
    simp only [aerase] at ih ⊢
    by_cases h : a = k
    · subst h
      simp only [List.filter, ne_eq, not_true_eq_false, decide_false, alookup]
      rw [ih]
      by_cases h2 : k' = a
      · simp [h2]
      · have : ¬ a = k' := fun e => h2 e.symm
        simp [h2, this]
    · simp only [List.filter, ne_eq, h, not_false_eq_true, decide_true, alookup]
      rw [ih]
      by_cases h2 : a = k'
      · have : ¬ k' = k := by subst h2; exact h
        simp [h2, this]
      · simp [h2]

theorem alookup_ainsert (l : AL) (k v k' : Nat) :
    alookup (ainsert l k v) k' = if k' = k then some v else alookup l k' := by
  simp only [ainsert, alookup]
  by_cases h : k' = k
  · subst h; simp
  · have : ¬ k = k' := fun e => h e.symm
    simp [h, this, alookup_aerase]

theorem alookup_none_iff (l : AL) (k : Nat) : alookup l k = none ↔ k ∉ akeys l := by
  induction l with
  | nil => simp [alookup, akeys]
  | cons p r ih =>
    obtain ⟨a, b⟩ := p
    simp only [alookup, akeys, List.map_cons, List.mem_cons] at ih ⊢
    by_cases h : a = k
    · simp [h]
    · have : ¬ k = a := fun e => h e.symm
      simp [h, this, ih]

theorem ahas_iff (l : AL) (k : Nat) : ahas l k = true ↔ k ∈ akeys l := by
  have := alookup_none_iff l k
  unfold ahas
  cases h : alookup l k with
  | none => simp [h] at this ⊢; exact this
  | some v => simp [h] at this ⊢; exact this

theorem ahas_false_iff (l : AL) (k : Nat) : ahas l k = false ↔ k ∉ akeys l := by
  rw [← ahas_iff]; cases ahas l k <;> simp

theorem aerase_cons (a b : Nat) (r : AL) (k : Nat) :
    aerase ((a, b) :: r) k = if a = k then aerase r k else (a, b) :: aerase r k := by
  by_cases h : a = k <;> simp [aerase, List.filter_cons, h]

theorem akeys_aerase (l : AL) (k : Nat) : akeys (aerase l k) = (akeys l).filter (· ≠ k) := by
  induction l with
  | nil => rfl
  | cons p r ih =>
    obtain ⟨a, b⟩ := p
    rw [aerase_cons]
    by_cases h : a = k
    · simp only [akeys] at ih
      simp [h, ih, akeys]
    · simp only [akeys] at ih
      simp [h, ih, akeys]

theorem mem_akeys_aerase (l : AL) (k k' : Nat) : k' ∈ akeys (aerase l k) ↔ k' ∈ akeys l ∧ k' ≠ k := by
  rw [akeys_aerase]; simp

theorem nodup_aerase (l : AL) (k : Nat) (h : (akeys l).Nodup) : (akeys (aerase l k)).Nodup := by
  rw [akeys_aerase]; exact h.filter _

theorem nodup_ainsert (l : AL) (k v : Nat) (h : (akeys l).Nodup) : (akeys (ainsert l k v)).Nodup := by
  simp only [ainsert, akeys, List.map_cons, List.nodup_cons]
  refine ⟨?_, nodup_aerase l k h⟩
  intro hm
  have := (mem_akeys_aerase l k k).1 hm
  exact this.2 rfl

theorem mem_akeys_ainsert (l : AL) (k v k' : Nat) : k' ∈ akeys (ainsert l k v) ↔ k' = k ∨ k' ∈ akeys l := by
  simp only [ainsert, akeys, List.map_cons, List.mem_cons]
  have := mem_akeys_aerase l k k'
  simp only [akeys] at this
  rw [this]
  by_cases h : k' = k <;> simp [h]

theorem aerase_of_not_mem (l : AL) (k : Nat) (h : k ∉ akeys l) : aerase l k = l := by
  induction l with
  | nil => rfl
  | cons p r ih =>
    simp only [akeys, List.map_cons, List.mem_cons, not_or] at h
    simp only [aerase, List.filter]
    have h1 : p.1 ≠ k := fun e => h.1 e.symm
    simp only [ne_eq, h1, not_false_eq_true, decide_true]
    congr 1
    exact ih h.2

theorem length_aerase_mem (l : AL) (k : Nat) (hn : (akeys l).Nodup) (h : k ∈ akeys l) :
    (aerase l k).length + 1 = l.length := by
  induction l with
  | nil => simp [akeys] at h
  | cons p r ih =>
    simp only [akeys, List.map_cons, List.nodup_cons] at hn
    simp only [akeys, List.map_cons, List.mem_cons] at h
    obtain ⟨a, b⟩ := p
    rw [aerase_cons]
    by_cases h1 : a = k
    · have hk : k ∉ akeys r := by rw [← h1]; exact hn.1
      simp only [h1, if_true, List.length_cons]
      rw [aerase_of_not_mem r k hk]
    · have hk : k ∈ akeys r := by
        rcases h with h | h
        · exact absurd h.symm h1
        · exact h
      simp only [h1, if_false, List.length_cons]
      have := ih hn.2 hk
      omega

theorem mem_iff_alookup (l : AL) (hn : (akeys l).Nodup) (k v : Nat) :
    (k, v) ∈ l ↔ alookup l k = some v := by
  induction l with
  | nil => simp [alookup]
  | cons p r ih =>
    obtain ⟨a, b⟩ := p
    simp only [akeys, List.map_cons, List.nodup_cons] at hn
    simp only [List.mem_cons, alookup, Prod.mk.injEq]
    by_cases h : a = k
    · subst h
      simp only [if_true, Option.some.injEq]
      constructor
      · rintro (⟨_, h2⟩ | h2)
        · exact h2.symm
        · exact absurd (List.mem_map_of_mem (f := (·.1)) h2) hn.1
      · intro h2; exact Or.inl ⟨trivial, h2.symm⟩
    · have : ¬ k = a := fun e => h e.symm
      simp only [h, this, false_and, false_or, if_false]
      exact ih hn.2

/-- copying `src` into `dst` (`for k, v := range src { dst[k] = v }`): `src` wins. -/
theorem alookup_acopyInto (src : AL) : ∀ (dst : AL), (akeys src).Nodup → ∀ k,
    alookup (acopyInto dst src) k = match alookup src k with
      | some v => some v
      | none => alookup dst k := by
  induction src with
  | nil => intro dst _ k; simp [acopyInto, alookup]
  | cons p r ih =>
    intro dst hn k
    obtain ⟨a, b⟩ := p
    simp only [akeys, List.map_cons, List.nodup_cons] at hn
    have := ih (ainsert dst a b) hn.2 k
    simp only [acopyInto, List.foldl_cons] at this ⊢
    rw [this]
    simp only [alookup]
    by_cases h : a = k
    · subst h
      have hnone : alookup r a = none := (alookup_none_iff r a).2 hn.1
      simp [hnone, alookup_ainsert]
    · have h' : ¬ k = a := fun e => h e.symm
      simp only [h, if_false, alookup_ainsert, h']

theorem nodup_acopyInto (src : AL) : ∀ (dst : AL), (akeys dst).Nodup → (akeys (acopyInto dst src)).Nodup := by
  induction src with
  | nil => intro dst h; exact h
  | cons p r ih =>
    intro dst h
    simp only [acopyInto, List.foldl_cons]
    exact ih _ (nodup_ainsert dst p.1 p.2 h)

theorem length_ainsert_new (l : AL) (k v : Nat) (h : k ∉ akeys l) : (ainsert l k v).length = l.length + 1 := by
  simp [ainsert, aerase_of_not_mem l k h]

theorem length_acopyInto (src : AL) : ∀ (dst : AL), (akeys src).Nodup →
    (∀ k, k ∈ akeys src → k ∉ akeys dst) → (acopyInto dst src).length = dst.length + src.length := by
  induction src with
  | nil => intro dst _ _; rfl
  | cons p r ih =>
    intro dst hn hd
    simp only [akeys, List.map_cons, List.nodup_cons] at hn
    simp only [acopyInto, List.foldl_cons]
    have h1 : p.1 ∉ akeys dst := hd p.1 (by simp [akeys])
    have := ih (ainsert dst p.1 p.2) hn.2 (by
      intro k hk hk2
      rcases (mem_akeys_ainsert dst p.1 p.2 k).1 hk2 with e | e
      · subst e; exact hn.1 hk
      · exact hd k (by simp only [akeys, List.map_cons, List.mem_cons]; exact Or.inr hk) e)
    simp only [acopyInto] at this
    rw [this, length_ainsert_new dst p.1 p.2 h1]
    simp only [List.length_cons]
    omega

theorem mem_akeys_acopyInto (src dst : AL) (hn : (akeys src).Nodup) (k : Nat) :
    k ∈ akeys (acopyInto dst src) ↔ k ∈ akeys src ∨ k ∈ akeys dst := by
  have h := alookup_acopyInto src dst hn k
  have a1 := alookup_none_iff (acopyInto dst src) k
  have a2 := alookup_none_iff src k
  have a3 := alookup_none_iff dst k
  cases h2 : alookup src k with
  | some v =>
    rw [h2] at h a2
    simp only [] at h
    rw [h] at a1
    simp only [reduceCtorEq, false_iff, Decidable.not_not] at a1 a2
    simp [a1, a2]
  | none =>
    rw [h2] at h a2
    simp only [] at h
    simp only [true_iff] at a2
    rw [h] at a1
    constructor
    · intro hm
      right
      apply Decidable.by_contra
      intro hc
      exact (a1.1 (a3.2 hc)) hm
    · rintro (hm | hm)
      · exact absurd hm a2
      · apply Decidable.by_contra; intro hc
        exact (a3.1 (a1.2 hc)) hm

/-! ### SafeMap -/

structure SafeMap.Inv (m : SafeMap) : Prop where
  nodupOld : (akeys m.old).Nodup
  nodupNew : (akeys m.new).Nodup
  disjoint : ∀ k, k ∈ akeys m.old → k ∉ akeys m.new

theorem SafeMap.inv_init : SafeMap.init.Inv := ⟨by simp [SafeMap.init, akeys], by simp [SafeMap.init, akeys], by simp [SafeMap.init, akeys]⟩

theorem ite_aerase (l : AL) (k : Nat) : (if ahas l k then aerase l k else l) = aerase l k := by
  by_cases h : ahas l k = true
  · simp [h]
  · have : ahas l k = false := by simpa using h
    simp [this, aerase_of_not_mem l k ((ahas_false_iff l k).1 this)]

theorem SafeMap.get_set (maxDel : Nat) (m : SafeMap) (k v k' : Nat) :
    (m.set maxDel k v).get k' = if k' = k then some v else m.get k' := by
  unfold SafeMap.set SafeMap.get
  by_cases hb : m.delOld ≤ maxDel
  · simp only [hb, if_true, ite_aerase, alookup_ainsert, alookup_aerase]
    by_cases h : k' = k <;> simp [h]
  · simp only [hb, if_false, ite_aerase, alookup_ainsert, alookup_aerase]
    by_cases h : k' = k <;> simp [h]

theorem SafeMap.inv_set (maxDel : Nat) (m : SafeMap) (k v : Nat) (hi : m.Inv) : (m.set maxDel k v).Inv := by
  unfold SafeMap.set
  by_cases hb : m.delOld ≤ maxDel
  · simp only [hb, if_true, ite_aerase]
    refine ⟨nodup_ainsert _ _ _ hi.nodupOld, nodup_aerase _ _ hi.nodupNew, ?_⟩
    intro k' h1 h2
    rcases (mem_akeys_ainsert _ _ _ _).1 h1 with e | e
    · exact ((mem_akeys_aerase _ _ _).1 h2).2 e
    · exact hi.disjoint k' e ((mem_akeys_aerase _ _ _).1 h2).1
  · simp only [hb, if_false, ite_aerase]
    refine ⟨nodup_aerase _ _ hi.nodupOld, nodup_ainsert _ _ _ hi.nodupNew, ?_⟩
    intro k' h1 h2
    have h1' := (mem_akeys_aerase _ _ _).1 h1
    rcases (mem_akeys_ainsert _ _ _ _).1 h2 with e | e
    · exact h1'.2 e
    · exact hi.disjoint k' h1'.1 e

theorem SafeMap.inv_del1 (m : SafeMap) (k : Nat) (hi : m.Inv) : (m.del1 k).Inv := by
  unfold SafeMap.del1
  split
  · exact ⟨nodup_aerase _ _ hi.nodupOld, hi.nodupNew, fun k' h => hi.disjoint k' ((mem_akeys_aerase _ _ _).1 h).1⟩
  · split
    · exact ⟨hi.nodupOld, nodup_aerase _ _ hi.nodupNew, fun k' h h2 => hi.disjoint k' h ((mem_akeys_aerase _ _ _).1 h2).1⟩
    · exact hi

theorem SafeMap.get_del1 (m : SafeMap) (k k' : Nat) (hi : m.Inv) :
    (m.del1 k).get k' = if k' = k then none else m.get k' := by
  unfold SafeMap.del1 SafeMap.get
  by_cases h1 : ahas m.old k = true
  · simp only [h1, if_true, alookup_aerase]
    by_cases h : k' = k
    · subst h
      have := hi.disjoint k' ((ahas_iff _ _).1 h1)
      simp [(alookup_none_iff _ _).2 this]
    · simp [h]
  · have h1' : ahas m.old k = false := by simpa using h1
    have ho : alookup m.old k = none := (alookup_none_iff _ _).2 ((ahas_false_iff _ _).1 h1')
    by_cases h2 : ahas m.new k = true
    · simp only [h1', h2, if_true, alookup_aerase, Bool.false_eq_true, if_false]
      by_cases h : k' = k
      · subst h; simp [ho]
      · simp [h]
    · have h2' : ahas m.new k = false := by simpa using h2
      have hn : alookup m.new k = none := (alookup_none_iff _ _).2 ((ahas_false_iff _ _).1 h2')
      simp only [h1', h2', Bool.false_eq_true, if_false]
      by_cases h : k' = k
      · subst h; simp [ho, hn]
      · simp [h]

theorem SafeMap.inv_mig1 (a b : Nat) (m : SafeMap) (hi : m.Inv) : (m.mig1 a b).Inv := by
  unfold SafeMap.mig1
  split
  · exact ⟨nodup_acopyInto _ _ hi.nodupNew, by simp [akeys], by simp [akeys]⟩
  · exact hi

theorem SafeMap.get_mig1 (a b : Nat) (m : SafeMap) (hi : m.Inv) (k : Nat) : (m.mig1 a b).get k = m.get k := by
  unfold SafeMap.mig1
  split
  · simp only [SafeMap.get, alookup_acopyInto m.old m.new hi.nodupOld k]
    cases h : alookup m.old k with
    | some v => simp
    | none => cases h2 : alookup m.new k <;> simp [alookup]
  · rfl

theorem SafeMap.inv_mig2 (a b : Nat) (m : SafeMap) (hi : m.Inv) : (m.mig2 a b).Inv := by
  unfold SafeMap.mig2
  split
  · exact ⟨nodup_acopyInto _ _ hi.nodupOld, by simp [akeys], by simp [akeys]⟩
  · exact hi

theorem SafeMap.get_mig2 (a b : Nat) (m : SafeMap) (hi : m.Inv) (k : Nat) : (m.mig2 a b).get k = m.get k := by
  unfold SafeMap.mig2
  split
  · simp only [SafeMap.get, alookup_acopyInto m.new m.old hi.nodupNew k]
    cases h : alookup m.old k with
    | none => cases h2 : alookup m.new k <;> simp [alookup]
    | some v =>
      have : k ∈ akeys m.old := by
        apply Decidable.by_contra; intro hc
        have := (alookup_none_iff _ _).2 hc
        rw [h] at this; cases this
      have := (alookup_none_iff _ _).2 (hi.disjoint k this)
      simp [this, alookup]
  · rfl

theorem SafeMap.inv_del (a b : Nat) (m : SafeMap) (k : Nat) (hi : m.Inv) : (m.del a b k).Inv :=
  SafeMap.inv_mig2 _ _ _ (SafeMap.inv_mig1 _ _ _ (SafeMap.inv_del1 _ _ hi))

theorem SafeMap.get_del (a b : Nat) (m : SafeMap) (k k' : Nat) (hi : m.Inv) :
    (m.del a b k).get k' = if k' = k then none else m.get k' := by
  unfold SafeMap.del
  rw [SafeMap.get_mig2 _ _ _ (SafeMap.inv_mig1 _ _ _ (SafeMap.inv_del1 _ _ hi)),
      SafeMap.get_mig1 _ _ _ (SafeMap.inv_del1 _ _ hi), SafeMap.get_del1 _ _ _ hi]

theorem SafeMap.inv_step (a b : Nat) (m : SafeMap) (op : MapOp) (hi : m.Inv) : (m.step a b op).Inv := by
  cases op with
  | set k v => exact SafeMap.inv_set _ _ _ _ hi
  | del k => exact SafeMap.inv_del _ _ _ _ hi

/-- sizes: both migrations keep `len(dirtyOld)+len(dirtyNew)` -/
theorem SafeMap.size_mig1 (a b : Nat) (m : SafeMap) (hi : m.Inv) : (m.mig1 a b).size = m.size := by
  unfold SafeMap.mig1
  split
  · simp only [SafeMap.size, List.length_nil, Nat.add_zero]
    rw [length_acopyInto m.old m.new hi.nodupOld hi.disjoint]; omega
  · rfl

theorem SafeMap.size_mig2 (a b : Nat) (m : SafeMap) (hi : m.Inv) : (m.mig2 a b).size = m.size := by
  unfold SafeMap.mig2
  split
  · simp only [SafeMap.size, List.length_nil, Nat.add_zero]
    rw [length_acopyInto m.new m.old hi.nodupNew (fun k h h2 => hi.disjoint k h2 h)]
  · rfl

/-- the keys enumerated by `Range` -/
theorem SafeMap.range_nodup (m : SafeMap) (hi : m.Inv) : (akeys m.range).Nodup := by
  simp only [SafeMap.range, akeys, List.map_append]
  exact List.nodup_append.2 ⟨hi.nodupOld, hi.nodupNew, fun a ha b hb e => hi.disjoint a ha (e ▸ hb)⟩

theorem SafeMap.alookup_range (m : SafeMap) (k : Nat) : alookup m.range k = m.get k := by
  unfold SafeMap.range SafeMap.get
  generalize m.old = o
  induction o with
  | nil => simp [alookup]
  | cons p r ih =>
    obtain ⟨a, b⟩ := p
    simp only [List.cons_append, alookup]
    by_cases h : a = k <;> simp [h, ih]

end GoZero.C16
