/-
C16 — RollingWindow, abstract view: the window is a view of the event log.
Interval index of a time: `idx t = (t - t0) / interval` (`t0` = creation time).  The bucket of age `a`
at interval `c` holds the values added during interval `c - a`, in arrival order.
-/
import GoZero.C16.ModelRW
namespace GoZero.C16.Spec

def idx (t0 iv t : Nat) : Nat := (t - t0) / iv

/-- values added during the interval that lies `age` intervals before interval `c` -/
def contentsAge (t0 iv : Nat) (log : List (Nat × Nat)) (c age : Nat) : List Nat :=
  (log.filter fun e => idx t0 iv e.1 + age = c).map (·.2)

/-- interval of the newest addition (0 before the first one) -/
def lastIdx (t0 iv : Nat) (log : List (Nat × Nat)) : Nat :=
  match log.getLast? with
  | none => 0
  | some e => idx t0 iv e.1

/-- ages `size-1, size-2, …, lo` (oldest bucket first) -/
def agesDown (size lo : Nat) : List Nat := (List.range (size - lo)).map fun i => size - 1 - i

/-- what `Reduce` must hand to its callback at time `now`: the buckets of the last `size` intervals, oldest
first, down to the interval of the newest addition (younger buckets cannot hold anything), without the
current interval if `ignoreCurrent`. -/
def visible (size : Nat) (ignoreCurrent : Bool) (t0 iv : Nat) (log : List (Nat × Nat)) (now : Nat) : List (List Nat) :=
  let c := idx t0 iv now
  let l := lastIdx t0 iv log
  (agesDown size (if c = l ∧ ignoreCurrent then 1 else c - l)).map (contentsAge t0 iv log c)

/-- the property's own words: all values added during the last `size` intervals (ages `size-1 … 0`, or
`… 1` when the current interval is ignored) -/
def lastIntervals (size : Nat) (ignoreCurrent : Bool) (t0 iv : Nat) (log : List (Nat × Nat)) (now : Nat) : List (List Nat) :=
  (agesDown size (if ignoreCurrent then 1 else 0)).map (contentsAge t0 iv log (idx t0 iv now))

end GoZero.C16.Spec
