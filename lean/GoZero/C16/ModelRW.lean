/-
C16 — RollingWindow (core/collection/rollingwindow.go), executable model (core Lean only).

Times are naturals (the `time.Duration` values `timex.Now()` returns, in ns); the caller passes `now`
with every operation (the harness sets the virtual clock).  A bucket is the list of values added to it
(the real code is generic in the bucket type; the harness instantiates it with a recording bucket).
Time going backwards is outside the property and outside this model (`Nat` subtraction).
-/
namespace GoZero.C16

structure RW where
  size          : Nat
  interval      : Nat
  ignoreCurrent : Bool
  offset        : Nat
  lastTime      : Nat
  buckets       : List (List Nat)
  deriving Repr, DecidableEq

def RW.new (size interval : Nat) (ignoreCurrent : Bool) (t0 : Nat) : RW :=
  { size := size, interval := interval, ignoreCurrent := ignoreCurrent, offset := 0, lastTime := t0,
    buckets := List.replicate size [] }

/-- `span()`: whole intervals since `lastTime`, capped at `size` -/
def RW.span (rw : RW) (now : Nat) : Nat :=
  if (now - rw.lastTime) / rw.interval < rw.size then (now - rw.lastTime) / rw.interval else rw.size

/-- the reset loop of `updateOffset`: `for i := 0; i < span; i++ { resetBucket((offset+i+1) % size) }` -/
def RW.resetLoop (size offset span : Nat) (b : List (List Nat)) : List (List Nat) :=
  (List.range span).foldl (fun b i => b.set ((offset + i + 1) % size) []) b

def RW.updateOffset (rw : RW) (now : Nat) : RW :=
  if rw.span now = 0 then rw
  else { rw with buckets := RW.resetLoop rw.size rw.offset (rw.span now) rw.buckets,
                 offset := (rw.offset + rw.span now) % rw.size,
                 lastTime := now - (now - rw.lastTime) % rw.interval }

/-- `Add(v)` at time `now` -/
def RW.add (rw : RW) (now v : Nat) : RW :=
  { rw.updateOffset now with
    buckets := (rw.updateOffset now).buckets.set ((rw.updateOffset now).offset % rw.size)
                 ((rw.updateOffset now).buckets.getD ((rw.updateOffset now).offset % rw.size) [] ++ [v]) }

/-- number of buckets `Reduce` visits -/
def RW.diff (rw : RW) (now : Nat) : Nat :=
  if rw.span now = 0 ∧ rw.ignoreCurrent then rw.size - 1 else rw.size - rw.span now

/-- `Reduce(fn)` at time `now`: the buckets handed to `fn`, in order -/
def RW.reduce (rw : RW) (now : Nat) : List (List Nat) :=
  (List.range (rw.diff now)).map fun i =>
    rw.buckets.getD (((rw.offset + rw.span now + 1) % rw.size + i) % rw.size) []

/-! ### time going backwards (outside the property: `timex.Now()` is assumed non-decreasing)

What the code does when `timex.Since(lastTime)` is negative (`span()`: Go's division truncates towards zero and the
range check `0 <= offset` fails for a quotient below zero): less than one interval back → span 0, the call behaves as
in the newest interval; one interval or more back → span = size, so `Reduce` visits nothing and the next `Add` resets
every bucket and re-aligns `lastTime` on its old grid at or after `now`. -/

def RW.spanB (rw : RW) (now : Nat) : Nat :=
  if now < rw.lastTime then (if rw.lastTime - now < rw.interval then 0 else rw.size) else rw.span now

def RW.updateOffsetB (rw : RW) (now : Nat) : RW :=
  if rw.spanB now = 0 then rw
  else { rw with buckets := RW.resetLoop rw.size rw.offset (rw.spanB now) rw.buckets,
                 offset := (rw.offset + rw.spanB now) % rw.size,
                 lastTime := if now < rw.lastTime then now + (rw.lastTime - now) % rw.interval
                             else now - (now - rw.lastTime) % rw.interval }

def RW.addB (rw : RW) (now v : Nat) : RW :=
  { rw.updateOffsetB now with
    buckets := (rw.updateOffsetB now).buckets.set ((rw.updateOffsetB now).offset % rw.size)
                 ((rw.updateOffsetB now).buckets.getD ((rw.updateOffsetB now).offset % rw.size) [] ++ [v]) }

def RW.diffB (rw : RW) (now : Nat) : Nat :=
  if rw.spanB now = 0 ∧ rw.ignoreCurrent then rw.size - 1 else rw.size - rw.spanB now

def RW.reduceB (rw : RW) (now : Nat) : List (List Nat) :=
  (List.range (rw.diffB now)).map fun i =>
    rw.buckets.getD (((rw.offset + rw.spanB now + 1) % rw.size + i) % rw.size) []

/-- state after a history of additions `(now, v)`, oldest first -/
def RW.run (rw : RW) (evs : List (Nat × Nat)) : RW := evs.foldl (fun r e => r.add e.1 e.2) rw

end GoZero.C16
