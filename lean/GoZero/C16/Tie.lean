import GoZero.Extracted.C16
import GoZero.C16.Model
namespace GoZero.C16.Tie
open GoZero.Extracted.C16

theorem extraction_clean : extractionErrors = [] := by decide
theorem tie_maxDeletion : maxDeletion = 10000 := by decide
theorem tie_copyThreshold : copyThreshold = 1000 := by decide

end GoZero.C16.Tie
