/-
C16 — Tie: what the extractor read from core/collection/{fifo,ring,set,safemap,rollingwindow,cache}.go *now*
equals what the models were written against.  A failing obligation means the code moved away from the model.
  * constants with the literal numbers
  * translated arithmetic = the model's functions, for all arguments
  * the statements of the small functions the models transcribe (locking, logging, statistics dropped)
-/
import GoZero.Extracted.C16
import GoZero.C16.Model
import GoZero.C16.ModelRW
import GoZero.C16.ModelCache
import GoZero.C16.ConcObjs
import GoZero.C16.ProofsR4
set_option maxRecDepth 8000
namespace GoZero.C16.Tie
open GoZero.C16
open GoZero.Extracted.C16

theorem extraction_clean : extractionErrors = [] := by decide

/-! ### constants -/

/-- SafeMap: generation switch after 10000 deletions -/
theorem tie_maxDeletion : maxDeletion = 10000 := by decide
/-- SafeMap: a generation is merged only when it holds fewer than 1000 keys -/
theorem tie_copyThreshold : copyThreshold = 1000 := by decide
/-- Cache: the wheel has 300 slots (one-second interval: `tie_cacheWheel`) -/
theorem tie_cacheSlots : cacheSlots = 300 := by decide
/-- Cache: expiry jitter ±5 % = 1/20, i.e. a factor in [19/20, 21/20] = [0.95, 1.05] (the bounds of the driver's monitor) -/
theorem tie_expiryDeviation : expiryDeviation = (1 : Rat) / 20 := rfl

/-! ### translated arithmetic -/

/-- `Queue.Put`: `q.tail = (q.tail + 1) % len(q.elements); q.count++` is the model's update -/
theorem tie_queuePutTail (q : Queue) (x : Nat) :
    queuePutTail q.grow.tail q.grow.elems.length q.grow.count
      = [("tail", ((q.put x).tail : Int)), ("count", ((q.put x).count : Int))] := by
  simp only [queuePutTail, Queue.put]
  rw [Int.tmod_eq_emod_of_nonneg (by omega)]
  norm_cast

/-- `Queue.Take` on a non-empty queue: `q.head = (q.head + 1) % len(q.elements); q.count--` -/
theorem tie_queueTakeTail (q : Queue) (h : q.count ≠ 0) :
    queueTakeTail q.head q.elems.length q.count
      = [("head", ((q.take).2.head : Int)), ("count", ((q.take).2.count : Int))] := by
  simp only [queueTakeTail, Queue.take, h, if_false]
  rw [Int.tmod_eq_emod_of_nonneg (by omega)]
  have : ((q.count - 1 : Nat) : Int) = (q.count : Int) - 1 := by omega
  rw [this]
  norm_cast

/-- `RollingWindow.span` (Go `int` division of `timex.Since(lastTime)` by the interval, truncating) is the
model's `RW.span` whenever the clock has not gone backwards -/
theorem tie_rwSpan (rw : RW) (now : Nat) (h : rw.lastTime ≤ now) :
    rwSpan rw.lastTime now rw.interval rw.size = (rw.span now : Int) := by
  unfold rwSpan clockSince RW.span
  have e : ((now : Int) - (rw.lastTime : Int)) = ((now - rw.lastTime : Nat) : Int) := by omega
  rw [e, Int.tdiv_eq_ediv_of_nonneg (by omega)]
  have e2 : ((now - rw.lastTime : Nat) : Int) / (rw.interval : Int) = (((now - rw.lastTime) / rw.interval : Nat) : Int) := by
    norm_cast
  rw [e2]
  generalize (now - rw.lastTime) / rw.interval = d
  by_cases hd : d < rw.size
  · have : ((d : Int) < (rw.size : Int)) := by omega
    have h0 : (0 : Int) ≤ (d : Int) := by omega
    simp [hd, this, h0]
  · have : ¬ ((d : Int) < (rw.size : Int)) := by omega
    simp [hd, this]

/-- the tail of `updateOffset`: new offset and re-aligned `lastTime` -/
theorem tie_rwUpdateTail (rw : RW) (now : Nat) (h : rw.lastTime ≤ now) (hs : rw.span now ≠ 0) :
    rwUpdateTail rw.offset (rw.span now) rw.size now rw.lastTime rw.interval
      = [("offset", ((rw.updateOffset now).offset : Int)), ("lastTime", ((rw.updateOffset now).lastTime : Int))] := by
  simp only [rwUpdateTail, clockNow, RW.updateOffset, hs, if_false]
  have e : ((now : Int) - (rw.lastTime : Int)) = ((now - rw.lastTime : Nat) : Int) := by omega
  rw [e, Int.tmod_eq_emod_of_nonneg (by omega), Int.tmod_eq_emod_of_nonneg (by omega)]
  have hle : (now - rw.lastTime) % rw.interval ≤ now := Nat.le_trans (Nat.mod_le _ _) (Nat.sub_le _ _)
  have e3 : ((now - (now - rw.lastTime) % rw.interval : Nat) : Int)
      = (now : Int) - (((now - rw.lastTime) % rw.interval : Nat) : Int) := by omega
  rw [e3]
  norm_cast

/-- `RollingWindow.span` with the clock *behind* `lastTime`: Go's truncating division gives 0 for less than one interval
(span 0) and a negative quotient otherwise, which fails `0 <= offset`: span = size (`RW.spanB`) -/
theorem tie_rwSpanBackwards (rw : RW) (now : Nat) (h : now < rw.lastTime) (hi : 0 < rw.interval) :
    rwSpan rw.lastTime now rw.interval rw.size = (rw.spanB now : Int) := by
  unfold rwSpan clockSince RW.spanB
  simp only [h, if_true]
  have e : ((now : Int) - (rw.lastTime : Int)) = -((rw.lastTime - now : Nat) : Int) := by omega
  rw [e, Int.neg_tdiv]
  have e2 : Int.tdiv ((rw.lastTime - now : Nat) : Int) (rw.interval : Int) = (((rw.lastTime - now) / rw.interval : Nat) : Int) := by
    rw [Int.tdiv_eq_ediv_of_nonneg (by omega)]; norm_cast
  rw [e2]
  by_cases hlt : rw.lastTime - now < rw.interval
  · have : (rw.lastTime - now) / rw.interval = 0 := Nat.div_eq_of_lt hlt
    rw [this]
    by_cases hz : (0 : Int) < (rw.size : Int)
    · simp [hlt]
    · have : rw.size = 0 := by omega
      simp [hlt, this]
  · have hq : 1 ≤ (rw.lastTime - now) / rw.interval := (Nat.one_le_div_iff hi).2 (by omega)
    generalize (rw.lastTime - now) / rw.interval = q at hq ⊢
    simp [hlt]
    intro h0; omega

/-- the tail of `updateOffset` with the clock behind `lastTime`: Go's `%` keeps the sign of the dividend, so `lastTime`
is re-aligned on its old grid at or after `now` (`RW.updateOffsetB`) -/
theorem tie_rwUpdateTailBackwards (rw : RW) (now : Nat) (h : now < rw.lastTime) (hs : rw.spanB now ≠ 0) (hi : 0 < rw.interval) :
    rwUpdateTail rw.offset (rw.spanB now) rw.size now rw.lastTime rw.interval
      = [("offset", ((rw.updateOffsetB now).offset : Int)), ("lastTime", ((rw.updateOffsetB now).lastTime : Int))] := by
  simp only [rwUpdateTail, clockNow, RW.updateOffsetB, hs, if_false, h, if_true]
  have e : ((now : Int) - (rw.lastTime : Int)) = -((rw.lastTime - now : Nat) : Int) := by omega
  rw [e, Int.neg_tmod, Int.tmod_eq_emod_of_nonneg (by omega), Int.tmod_eq_emod_of_nonneg (by omega)]
  norm_cast
  simp only [Int.sub_neg]
  norm_cast

/-! ### statements of the transcribed functions -/

/-- `NewQueue(size)`: `size` zeroed slots, growth step `size` (Queue.new) -/
theorem tie_newQueueStmts : newQueueStmts = [
    "return &Queue{ elements: make([]any, size), size: size, }"] := by decide

/-- `Put`: full ⇔ head = tail ∧ count > 0 → unrolled copy into a buffer `size` longer, head 0, tail = old length; then store at tail, tail+1 mod len, count+1 (Queue.grow / Queue.put) -/
theorem tie_queuePutStmts : queuePutStmts = [
    "if q.head == q.tail && q.count > 0 {",
    "nodes := make([]any, len(q.elements)+q.size)",
    "copy(nodes, q.elements[q.head:])",
    "copy(nodes[len(q.elements)-q.head:], q.elements[:q.head])",
    "q.head = 0",
    "q.tail = len(q.elements)",
    "q.elements = nodes",
    "}",
    "q.elements[q.tail] = element",
    "q.tail = (q.tail + 1) % len(q.elements)",
    "q.count++"] := by decide

/-- `Take`: empty → (nil,false); else element at head, head+1 mod len, count-1 (Queue.take) -/
theorem tie_queueTakeStmts : queueTakeStmts = [
    "if q.count == 0 {",
    "return nil, false",
    "}",
    "element := q.elements[q.head]",
    "q.head = (q.head + 1) % len(q.elements)",
    "q.count--",
    "return element, true"] := by decide

/-- `Empty` (Queue.empty) -/
theorem tie_queueEmptyStmts : queueEmptyStmts = [
    "empty := q.count == 0",
    "return empty"] := by decide

/-- `Add`: store at index mod n, index+1, folded back by n once it reaches 2n (Ring.add) -/
theorem tie_ringAddStmts : ringAddStmts = [
    "rlen := len(r.elements)",
    "r.elements[r.index%rlen] = v",
    "r.index++",
    "if r.index >= rlen<<1 {",
    "r.index -= rlen",
    "}"] := by decide

/-- `Take`: index > n → n elements from index mod n, else the first `index` elements (Ring.take) -/
theorem tie_ringTakeStmts : ringTakeStmts = [
    "var size int",
    "var start int",
    "rlen := len(r.elements)",
    "if r.index > rlen {",
    "size = rlen",
    "start = r.index % rlen",
    "}",
    "else {",
    "size = r.index",
    "}",
    "elements := make([]any, size)",
    "for i := 0; i < size; i++ {",
    "elements[i] = r.elements[(start+i)%rlen]",
    "}",
    "return elements"] := by decide

/-- `Set`: deletionOld ≤ maxDeletion → move the key out of dirtyNew (counted), write dirtyOld; else the mirror image (SafeMap.set) -/
theorem tie_safeMapSetStmts : safeMapSetStmts = [
    "if m.deletionOld <= maxDeletion {",
    "if _, ok := m.dirtyNew[key]; ok {",
    "delete(m.dirtyNew, key)",
    "m.deletionNew++",
    "}",
    "m.dirtyOld[key] = value",
    "}",
    "else {",
    "if _, ok := m.dirtyOld[key]; ok {",
    "delete(m.dirtyOld, key)",
    "m.deletionOld++",
    "}",
    "m.dirtyNew[key] = value",
    "}"] := by decide

/-- `Del`: delete from the generation holding the key (counted); merge old→new and swap when deletionOld ≥ maxDeletion ∧ |old| < copyThreshold; merge new→old when deletionNew ≥ maxDeletion ∧ |new| < copyThreshold (SafeMap.del1 / mig1 / mig2) -/
theorem tie_safeMapDelStmts : safeMapDelStmts = [
    "if _, ok := m.dirtyOld[key]; ok {",
    "delete(m.dirtyOld, key)",
    "m.deletionOld++",
    "}",
    "else {",
    "if _, ok := m.dirtyNew[key]; ok {",
    "delete(m.dirtyNew, key)",
    "m.deletionNew++",
    "}",
    "}",
    "if m.deletionOld >= maxDeletion && len(m.dirtyOld) < copyThreshold {",
    "range k, v := m.dirtyOld {",
    "m.dirtyNew[k] = v",
    "}",
    "m.dirtyOld = m.dirtyNew",
    "m.deletionOld = m.deletionNew",
    "m.dirtyNew = make(map[any]any)",
    "m.deletionNew = 0",
    "}",
    "if m.deletionNew >= maxDeletion && len(m.dirtyNew) < copyThreshold {",
    "range k, v := m.dirtyNew {",
    "m.dirtyOld[k] = v",
    "}",
    "m.dirtyNew = make(map[any]any)",
    "m.deletionNew = 0",
    "}"] := by decide

/-- `Get`: dirtyOld first, then dirtyNew (SafeMap.get) -/
theorem tie_safeMapGetStmts : safeMapGetStmts = [
    "if val, ok := m.dirtyOld[key]; ok {",
    "return val, true",
    "}",
    "val, ok := m.dirtyNew[key]",
    "return val, ok"] := by decide

/-- `Size` (SafeMap.size) -/
theorem tie_safeMapSizeStmts : safeMapSizeStmts = [
    "size := len(m.dirtyOld) + len(m.dirtyNew)",
    "return size"] := by decide

/-- `Range`: dirtyOld then dirtyNew (SafeMap.range) -/
theorem tie_safeMapRangeStmts : safeMapRangeStmts = [
    "range k, v := m.dirtyOld {",
    "if !f(k, v) {",
    "return",
    "}",
    "}",
    "range k, v := m.dirtyNew {",
    "if !f(k, v) {",
    "return",
    "}",
    "}"] := by decide

/-- `add`: the type tag only selects setType / validate (logging); the element is always inserted (GSet.add) -/
theorem tie_setAddStmts : setAddStmts = [
    "switch s.tp {",
    "case unmanaged:",
    "case untyped:",
    "s.setType(i)",
    "default:",
    "s.validate(i)",
    "}",
    "s.data[i] = lang.Placeholder"] := by decide

/-- `Contains` (GSet.contains) -/
theorem tie_setContainsStmts : setContainsStmts = [
    "if len(s.data) == 0 {",
    "return false",
    "}",
    "s.validate(i)",
    "_, ok := s.data[i]",
    "return ok"] := by decide

/-- `Remove` (GSet.remove) -/
theorem tie_setRemoveStmts : setRemoveStmts = [
    "s.validate(i)",
    "delete(s.data, i)"] := by decide

/-- `Count` (GSet.count) -/
theorem tie_setCountStmts : setCountStmts = [
    "return len(s.data)"] := by decide

/-- `Add`: updateOffset, then add into the bucket at `offset` (RW.add) -/
theorem tie_rwAddStmts : rwAddStmts = [
    "rw.updateOffset()",
    "rw.win.add(rw.offset, v)"] := by decide

/-- `Reduce`: diff = size-1 if span = 0 ∧ ignoreCurrent else size-span; visits diff buckets from (offset+span+1) mod size (RW.diff / RW.reduce) -/
theorem tie_rwReduceStmts : rwReduceStmts = [
    "var diff int",
    "span := rw.span()",
    "if span == 0 && rw.ignoreCurrent {",
    "diff = rw.size - 1",
    "}",
    "else {",
    "diff = rw.size - span",
    "}",
    "if diff > 0 {",
    "offset := (rw.offset + span + 1) % rw.size",
    "rw.win.reduce(offset, diff, fn)",
    "}"] := by decide

/-- `updateOffset`: span ≤ 0 → nothing; reset buckets (offset+i+1) mod size for i < span; offset+span mod size; lastTime aligned (RW.updateOffset / RW.resetLoop) -/
theorem tie_rwUpdateStmts : rwUpdateStmts = [
    "span := rw.span()",
    "if span <= 0 {",
    "return",
    "}",
    "offset := rw.offset",
    "for i := 0; i < span; i++ {",
    "rw.win.resetBucket((offset + i + 1) % rw.size)",
    "}",
    "rw.offset = (offset + span) % rw.size",
    "now := timex.Now()",
    "rw.lastTime = now - (now-rw.lastTime)%rw.interval"] := by decide

/-- `window.add` (RW.add: index mod size) -/
theorem tie_winAddStmts : winAddStmts = [
    "w.buckets[offset%w.size].Add(v)"] := by decide

/-- `window.reduce`: count buckets from start, indices mod size (RW.reduce) -/
theorem tie_winReduceStmts : winReduceStmts = [
    "for i := 0; i < count; i++ {",
    "fn(w.buckets[(start+i)%w.size])",
    "}"] := by decide

/-- `window.resetBucket` (RW.resetLoop) -/
theorem tie_winResetStmts : winResetStmts = [
    "w.buckets[offset%w.size].Reset()"] := by decide

/-- `Del`: delete from the map, `lruCache.remove`, `RemoveTimer` (CacheG.del) -/
theorem tie_cacheDelStmts : cacheDelStmts = [
    "delete(c.data, key)",
    "c.lruCache.remove(key)",
    "c.timingWheel.RemoveTimer(key)"] := by decide

/-- `SetWithExpire`: write; `lruCache.add`; jittered expiry; `SetTimer` for new and pending keys alike — no
`MoveTimer` (which would fire at once for a delay below one interval) (CacheG.set) -/
theorem tie_cacheSetStmts : cacheSetStmts = [
    "c.data[key] = value",
    "c.lruCache.add(key)",
    "expiry := c.unstableExpiry.AroundDuration(expire)",
    "c.timingWheel.SetTimer(key, value, expiry)"] := by decide

/-- `Set` = SetWithExpire with the configured expiry -/
theorem tie_cacheSetDefaultStmts : cacheSetDefaultStmts = [
    "c.SetWithExpire(key, value, c.expire)"] := by decide

/-- `Take`: hit → value; else (inside the barrier) re-check, fetch, on success `Set` and return the value (CacheG.take) -/
theorem tie_cacheTakeStmts : cacheTakeStmts = [
    "if val, ok := c.doGet(key); ok {",
    "return val, nil",
    "}",
    "var fresh bool",
    "val, err := c.barrier.Do(key, func() (any, error) { if val, ok := c.doGet(key); ok { return val, nil } v, e := fetch() if e != nil { return nil, e } fresh = true c.Set(key, v) return v, nil })",
    "if err != nil {",
    "return nil, err",
    "}",
    "if fresh {",
    "return val, nil",
    "}",
    "return val, nil"] := by decide

/-- `doGet`: lookup, a hit touches the recency list (CacheG.get) -/
theorem tie_cacheDoGetStmts : cacheDoGetStmts = [
    "value, ok := c.data[key]",
    "if ok {",
    "c.lruCache.add(key)",
    "}",
    "return value, ok"] := by decide

/-- `onEvict`: delete from the map, `RemoveTimer` (CacheG.onEvict) -/
theorem tie_cacheOnEvictStmts : cacheOnEvictStmts = [
    "delete(c.data, key)",
    "c.timingWheel.RemoveTimer(key)"] := by decide

/-- `WithLimit`: a keyLru only for limit > 0 (CacheG.limit = 0 ⇒ emptyLru) -/
theorem tie_cacheWithLimitStmts : cacheWithLimitStmts = [
    "return func(cache *Cache) { if limit > 0 { cache.lruCache = newKeyLru(limit, cache.onEvict) } }"] := by decide

/-- `keyLru.add`: present → MoveToFront; else PushFront and, if longer than limit, removeOldest (CacheG.lruAdd) -/
theorem tie_lruAddStmts : lruAddStmts = [
    "if elem, ok := klru.elements[key]; ok {",
    "klru.evicts.MoveToFront(elem)",
    "return",
    "}",
    "elem := klru.evicts.PushFront(key)",
    "klru.elements[key] = elem",
    "if klru.evicts.Len() > klru.limit {",
    "klru.removeOldest()",
    "}"] := by decide

/-- `keyLru.remove` (CacheG.lruRemove) -/
theorem tie_lruRemoveStmts : lruRemoveStmts = [
    "if elem, ok := klru.elements[key]; ok {",
    "klru.removeElement(elem)",
    "}"] := by decide

/-- `keyLru.removeOldest`: the back of the list -/
theorem tie_lruRemoveOldestStmts : lruRemoveOldestStmts = [
    "elem := klru.evicts.Back()",
    "if elem != nil {",
    "klru.removeElement(elem)",
    "}"] := by decide

/-- `keyLru.removeElement`: unlink, forget, `onEvict` -/
theorem tie_lruRemoveElementStmts : lruRemoveElementStmts = [
    "klru.evicts.Remove(e)",
    "key := e.Value.(string)",
    "delete(klru.elements, key)",
    "klru.onEvict(key)"] := by decide

/-- the wheel of `NewCache`: interval one second, `slots` slots, callback = `cache.Del(key)` (CacheG.expire) -/
theorem tie_cacheWheel : cacheWheel = [
    "time.Second",
    "slots",
    "key, ok := k.(string)",
    "if !ok {",
    "return",
    "}",
    "cache.Del(key)"] := by decide

/-! ### lock frames: what the interleaving models (Conc.lean, ConcObjs.lean, ConcTake.lean) assume about locking

`body` stands for the statements executed while the lock is held (pinned by the statement lists above); a statement
outside the locked region appears verbatim and must not touch shared state. -/

/-- Queue: Put / Take / Empty hold the exclusive lock over their whole body (`CQueue.obj.isRead = false`) -/
theorem tie_queueLocks :
    queuePutLocks = ["q.lock.Lock()", "defer q.lock.Unlock()", "body"]
    ∧ queueTakeLocks = ["q.lock.Lock()", "defer q.lock.Unlock()", "body"]
    ∧ queueEmptyLocks = ["q.lock.Lock()", "body", "q.lock.Unlock()", "return empty"] := by decide

/-- Ring: Add under the write lock, Take (the whole copy loop) under the read lock (`CRing.obj.isRead`) -/
theorem tie_ringLocks :
    ringAddLocks = ["r.lock.Lock()", "defer r.lock.Unlock()", "body"]
    ∧ ringTakeLocks = ["r.lock.RLock()", "defer r.lock.RUnlock()", "body"] := by decide

/-- SafeMap: Set / Del (including both migrations) under the write lock; Get / Size / Range (including the callback
calls) under the read lock (`CMap.isRead`) -/
theorem tie_safeMapLocks :
    safeMapSetLocks = ["m.lock.Lock()", "defer m.lock.Unlock()", "body"]
    ∧ safeMapDelLocks = ["m.lock.Lock()", "defer m.lock.Unlock()", "body"]
    ∧ safeMapGetLocks = ["m.lock.RLock()", "defer m.lock.RUnlock()", "body"]
    ∧ safeMapSizeLocks = ["m.lock.RLock()", "body", "m.lock.RUnlock()", "return size"]
    ∧ safeMapRangeLocks = ["m.lock.RLock()", "defer m.lock.RUnlock()", "body"] := by decide

/-- the model's read operations are exactly the methods that take `RLock` -/
theorem tie_readOps :
    (CMap.isRead (.get 0), CMap.isRead .size, CMap.isRead .range, CMap.isRead (.set 0 0), CMap.isRead (.del 0))
      = (true, true, true, false, false)
    ∧ (CRing.obj.isRead .take, CRing.obj.isRead (.add 0)) = (true, false)
    ∧ (CQueue.obj.isRead .take, CQueue.obj.isRead (.put 0), CQueue.obj.isRead .empty) = (false, false, false) := by decide

/-- Cache: `doGet` (lookup + recency touch) and the map writes of `Del` / `SetWithExpire` are single critical sections
of `c.lock` (one atomic step each in `CT.step`); the timer calls come after the unlock -/
theorem tie_cacheLocks :
    cacheDoGetLocks = ["c.lock.Lock()", "defer c.lock.Unlock()", "body"]
    ∧ cacheDelLocks = ["c.lock.Lock()", "body", "c.lock.Unlock()", "c.timingWheel.RemoveTimer(key)"]
    ∧ cacheSetLocks = ["c.lock.Lock()", "body", "c.lock.Unlock()", "expiry := c.unstableExpiry.AroundDuration(expire)",
                       "c.timingWheel.SetTimer(key, value, expiry)"]
    ∧ cacheSizeLocks = ["c.lock.Lock()", "defer c.lock.Unlock()", "body"] := by decide

/-! ### statistics and the rejected timer -/

/-- `Get`: exactly one of hit / miss per call (the driver's hit/miss accounting) -/
theorem tie_cacheGetStatStmts : cacheGetStatStmts = [
    "value, ok := c.doGet(key)",
    "if ok {",
    "c.stats.IncrementHit()",
    "}",
    "else {",
    "c.stats.IncrementMiss()",
    "}",
    "return value, ok"] := by decide

/-- `Take`: found at once = hit; loaded by this call (`fresh`) = miss; result shared through the barrier (or found by
the re-check) = hit; error = neither -/
theorem tie_cacheTakeStatStmts : cacheTakeStatStmts = [
    "if val, ok := c.doGet(key); ok {",
    "c.stats.IncrementHit()",
    "return val, nil",
    "}",
    "var fresh bool",
    "val, err := c.barrier.Do(key, func() (any, error) { if val, ok := c.doGet(key); ok { return val, nil } v, e := fetch() if e != nil { return nil, e } fresh = true c.Set(key, v) return v, nil })",
    "if err != nil {",
    "return nil, err",
    "}",
    "if fresh {",
    "c.stats.IncrementMiss()",
    "return val, nil",
    "}",
    "c.stats.IncrementHit()",
    "return val, nil"] := by decide

/-- `SetTimer` rejects a delay ≤ 0 before anything is sent to the wheel (`CacheG.setNoTimer`: no timer operation) -/
theorem tie_wheelSetTimerStmts : wheelSetTimerStmts = [
    "if delay <= 0 || key == nil {",
    "return ErrArgument",
    "}",
    "select { case tw.setChannel <- timingEntry{ baseEntry: baseEntry{ delay: delay, key: key, }, value: value, }: return nil case <-tw.stopChannel: return ErrClosed }"] := by decide

/-! ## round 4: semantic ties -/

/-- `Put` grows exactly when the model does -/
theorem tie_queueFullCond (q : Queue) :
    queueFullCond q.head q.tail q.count = decide (q.head = q.tail ∧ q.count > 0) := by
  simp only [queueFullCond]
  by_cases h1 : q.head = q.tail <;> by_cases h2 : q.count > 0 <;> simp [h1, h2] <;> omega

theorem tie_queueTakeEmptyCond (q : Queue) :
    queueTakeEmptyCond q.count = decide (q.count = 0) ∧ queueEmptyExpr q.count = q.empty := by
  simp only [queueTakeEmptyCond, queueEmptyExpr, Queue.empty]
  by_cases h : q.count = 0 <;> simp [h]

/-- `copy(dst[len(a):], src)` on `dst = a ++ b` with room for `src` -/
theorem goCopy_append (a b src : List Nat) (h : src.length ≤ b.length) :
    goCopy (a ++ b) (a.length : Int) src = a ++ src ++ b.drop src.length := by
  unfold goCopy
  have e1 : ((a.length : Int)).toNat = a.length := Int.toNat_natCast _
  rw [e1]
  have e2 : (a ++ b).length - a.length = b.length := by simp
  rw [e2, List.take_left' rfl, List.take_of_length_le h, Nat.min_eq_left h, List.drop_length_add_append]

/-- **the growth block of `Put`, translated statement by statement (`make`, the two `copy` calls with their offsets, the
index resets), computes the model's `Queue.grow`**: new buffer = `elements[head:] ++ elements[:head] ++ zeros(size)`,
head 0, tail = old length — for every buffer, every wrapped head (`head ≤ len`), every growth step -/
theorem tie_queueGrowProg (elems : List Nat) (head size : Nat) (h : head ≤ elems.length) :
    queueGrowProg elems head size
      = (elems.drop head ++ elems.take head ++ List.replicate size 0, 0, (elems.length : Int)) := by
  unfold queueGrowProg
  simp only []
  have m : goMake ((elems.length : Int) + (size : Int)) = List.replicate (elems.length + size) 0 := by
    unfold goMake
    have : ((elems.length : Int) + (size : Int)).toNat = elems.length + size := by omega
    rw [this]
  have s1 : goSlice elems (head : Int) (elems.length : Int) = elems.drop head := by
    unfold goSlice
    rw [Int.toNat_natCast, Int.toNat_natCast, List.take_length]
  have s2 : goSlice elems 0 (head : Int) = elems.take head := by
    unfold goSlice
    rw [Int.toNat_natCast]
    simp
  rw [m, s1, s2]
  have c1 : goCopy (List.replicate (elems.length + size) 0) 0 (elems.drop head)
      = elems.drop head ++ List.replicate (head + size) 0 := by
    have := goCopy_append [] (List.replicate (elems.length + size) 0) (elems.drop head) (by simp; omega)
    simp only [List.nil_append, List.length_nil, Int.natCast_zero] at this
    rw [this, List.drop_replicate, List.length_drop]
    congr 2
    omega
  rw [c1]
  have e : ((elems.length : Int) - (head : Int)) = ((elems.drop head).length : Int) := by
    rw [List.length_drop]; omega
  rw [e, goCopy_append _ _ _ (by simp; omega), List.drop_replicate, List.length_take, Nat.min_eq_left h]
  congr 3
  omega

/-- `Queue.grow` is the translated condition + the translated growth block -/
theorem tie_queueGrow (q : Queue) (h : q.head ≤ q.elems.length) :
    q.grow = if queueFullCond q.head q.tail q.count then
        { q with elems := (queueGrowProg q.elems q.head q.size).1,
                 head := (queueGrowProg q.elems q.head q.size).2.1.toNat,
                 tail := (queueGrowProg q.elems q.head q.size).2.2.toNat }
      else q := by
  rw [tie_queueFullCond, tie_queueGrowProg _ _ _ h]
  unfold Queue.grow
  by_cases c : q.head = q.tail ∧ q.count > 0
  · simp [c]
  · simp [c]

/-- … in every reachable state of every queue (any capacity ≥ 1, any history: any number of expansions, any wrapped
head), the growth step of the model is the translated condition and the translated growth block -/
theorem tie_queueGrow_reachable (size : Nat) (hs : 1 ≤ size) (ops : List QOp) :
    let q := (Queue.new size).after ops
    q.grow = if queueFullCond q.head q.tail q.count then
        { q with elems := (queueGrowProg q.elems q.head q.size).1,
                 head := (queueGrowProg q.elems q.head q.size).2.1.toNat,
                 tail := (queueGrowProg q.elems q.head q.size).2.2.toNat }
      else q := by
  intro q
  exact tie_queueGrow q (Nat.le_of_lt (Queue.inv_after ops _ (Queue.inv_new size hs)).head_lt)

/-! ### Ring -/

/-- `NewRing` panics exactly for n < 1 (the driver's `nI < 1`) -/
theorem tie_newRingGuard (n : Int) : newRingGuard n = decide (n < 1) := rfl

/-- `Add` stores at `index % len` -/
theorem tie_ringAddSlot (r : Ring) : ringAddSlot r.index r.elems.length = ((r.index % r.elems.length : Nat) : Int) := by
  unfold ringAddSlot
  rw [Int.tmod_eq_emod_of_nonneg (by omega)]
  norm_cast

/-- `r.index++; if r.index >= rlen<<1 { r.index -= rlen }` is the model's index update, for every index and length -/
theorem tie_ringAddIndex (r : Ring) (v : Nat) : ringAddIndex r.index r.elems.length = ((r.add v).index : Int) := by
  simp only [ringAddIndex, Ring.add]
  by_cases h : r.index + 1 ≥ 2 * r.elems.length
  · have : ((r.index : Int) + 1 ≥ (r.elems.length : Int) * 2) := by omega
    simp only [this, decide_true, if_true, h]
    omega
  · have : ¬ ((r.index : Int) + 1 ≥ (r.elems.length : Int) * 2) := by omega
    simp only [this, decide_false, h, if_false, Bool.false_eq_true]
    omega

/-- `Take`: `size`, `start` as the model's `Ring.sz`, `Ring.start` -/
theorem tie_ringTakeWindow (r : Ring) : ringTakeWindow r.index r.elems.length = ((r.sz : Int), (r.start : Int)) := by
  simp only [ringTakeWindow, Ring.sz, Ring.start]
  by_cases h : r.index > r.elems.length
  · have : ((r.index : Int) > (r.elems.length : Int)) := by omega
    simp only [this, decide_true, if_true, h]
    rw [Int.tmod_eq_emod_of_nonneg (by omega)]
    norm_cast
  · have : ¬ ((r.index : Int) > (r.elems.length : Int)) := by omega
    simp [this, h]

/-- element `i` of `Take` is read from slot `(start + i) % len`; the loop runs for `i < size` -/
theorem tie_ringTakeSlot (r : Ring) (i : Nat) :
    ringTakeSlot r.start i r.elems.length = (((r.start + i) % r.elems.length : Nat) : Int)
    ∧ ringTakeLoopCond i r.sz = decide (i ∈ List.range r.sz) := by
  constructor
  · unfold ringTakeSlot
    rw [Int.tmod_eq_emod_of_nonneg (by omega)]
    norm_cast
  · simp [ringTakeLoopCond]

/-! ### Set -/

theorem tie_setTypeConsts : setTypeConsts = [("unmanaged", 0), ("untyped", 1), ("intType", 2), ("int64Type", 3),
    ("uintType", 4), ("uint64Type", 5), ("stringType", 6)] := by decide

theorem tie_setTypeTags : ((tpUnmanaged : Int), (tpUntyped : Int)) = (0, 1) := rfl

theorem tie_setSetTypeCases : setSetTypeCases = [("int", "s.tp =", 2), ("int64", "s.tp =", 3), ("uint", "s.tp =", 4),
    ("uint64", "s.tp =", 5), ("string", "s.tp =", 6)] := by decide

theorem tie_setValidateCases : setValidateCases = [("int", "log if s.tp !=", 2), ("int64", "log if s.tp !=", 3),
    ("uint", "log if s.tp !=", 4), ("uint64", "log if s.tp !=", 5), ("string", "log if s.tp !=", 6)] := by decide

/-- the dynamic types `setType` knows are the model's `knownType`, and it sets the tag to the element's type code -/
theorem tie_knownType (t : Nat) : knownType t = decide ((t : Int) ∈ setSetTypeCases.map (·.2.2)) := by
  rw [tie_setSetTypeCases]
  simp only [knownType, List.map, List.mem_cons, List.not_mem_nil, or_false]
  by_cases h : 2 ≤ t ∧ t ≤ 6
  · have : (t : Int) = 2 ∨ (t : Int) = 3 ∨ (t : Int) = 4 ∨ (t : Int) = 5 ∨ (t : Int) = 6 := by omega
    simp [h, this]
  · have : ¬ ((t : Int) = 2 ∨ (t : Int) = 3 ∨ (t : Int) = 4 ∨ (t : Int) = 5 ∨ (t : Int) = 6) := by omega
    simp [h, this]

/-- `validate` logs exactly when the model's `GSet.mismatch` says so: not for an unmanaged set, and for a known dynamic
type whose code differs from the set's tag -/
theorem tie_setValidate (s : GSet) (x : Nat × Nat) :
    s.mismatch x = (!setValidateSkip s.tp && setValidateCases.any fun e => decide (e.2.2 = (x.1 : Int)) && decide ((s.tp : Int) ≠ e.2.2)) := by
  rw [tie_setValidateCases]
  simp only [GSet.mismatch, setValidateSkip, tpUnmanaged, knownType, List.any, Bool.or_false]
  by_cases h0 : s.tp = 0
  · simp [h0]
  · have h0' : ¬ ((s.tp : Int) = 0) := by omega
    simp only [h0, h0', ne_eq, not_false_eq_true, true_and, decide_false, Bool.not_false, Bool.true_and]
    by_cases hk : 2 ≤ x.1 ∧ x.1 ≤ 6
    · by_cases hm : s.tp = x.1
      · simp [hk, hm] <;> omega
      · have h5 : x.1 = 2 ∨ x.1 = 3 ∨ x.1 = 4 ∨ x.1 = 5 ∨ x.1 = 6 := by omega
        rcases h5 with e | e | e | e | e <;> simp [e] at hm ⊢ <;> omega
    · have : ¬ ((2:Int) = x.1) ∧ ¬ ((3:Int) = x.1) ∧ ¬ ((4:Int) = x.1) ∧ ¬ ((5:Int) = x.1) ∧ ¬ ((6:Int) = x.1) := by omega
      simp [hk, this]

/-- `Contains` answers false on an empty set before looking (GSet.contains) -/
theorem tie_setContainsEmptyGuard (s : GSet) : setContainsEmptyGuard s.data.length = decide (s.data.length = 0) := by
  simp only [setContainsEmptyGuard]
  by_cases h : s.data.length = 0 <;> simp [h]

/-! ### SafeMap -/

theorem tie_safeMapSetOldCond (m : SafeMap) : safeMapSetOldCond m.delOld = decide (m.delOld ≤ 10000) := by
  simp only [safeMapSetOldCond, maxDeletion]
  by_cases h : m.delOld ≤ 10000
  · have : (m.delOld : Int) ≤ 10000 := by omega
    simp [h, this]
  · have : ¬ (m.delOld : Int) ≤ 10000 := by omega
    simp [h, this]

/-- the two migration conditions of `Del` are the guards of `SafeMap.mig1` / `mig2` at the extracted thresholds -/
theorem tie_safeMapMigrateConds (m : SafeMap) :
    safeMapMigrate1Cond m.delOld m.old.length = decide (m.delOld ≥ 10000 ∧ m.old.length < 1000)
    ∧ safeMapMigrate2Cond m.delNew m.new.length = decide (m.delNew ≥ 10000 ∧ m.new.length < 1000) := by
  simp only [safeMapMigrate1Cond, safeMapMigrate2Cond, maxDeletion, copyThreshold]
  have key : ∀ a b : Nat, ((decide ((a : Int) ≥ 10000)) && (decide ((b : Int) < 1000))) = decide (a ≥ 10000 ∧ b < 1000) := by
    intro a b
    by_cases h1 : a ≥ 10000 <;> by_cases h2 : b < 1000
    · have i1 : (a : Int) ≥ 10000 := by omega
      have i2 : (b : Int) < 1000 := by omega
      simp [h1, h2, i1, i2]
    · have i1 : (a : Int) ≥ 10000 := by omega
      have i2 : ¬ (b : Int) < 1000 := by omega
      simp [h1, h2, i1, i2]
    · have i1 : ¬ (a : Int) ≥ 10000 := by omega
      simp [h1, i1]
    · have i1 : ¬ (a : Int) ≥ 10000 := by omega
      simp [h1, i1]
  exact ⟨key _ _, key _ _⟩

/-! ### Cache -/

/-- `WithLimit(limit)` installs the `keyLru` iff `limit > 0`: the model's `limit = 0` (the driver maps the configured limit
with `Int.toNat`) is exactly "no LRU" -/
theorem tie_cacheLimitGuard (l : Int) : cacheLimitGuard l = decide (l.toNat ≠ 0) := by
  simp only [cacheLimitGuard]
  by_cases h : l > 0
  · have : l.toNat ≠ 0 := by omega
    simp [h, this]
  · have : l.toNat = 0 := by omega
    simp [h, this]

/-- `keyLru.add` evicts iff the list — the new key included — is longer than the limit (`CacheG.lruAdd`) -/
theorem tie_lruOverflowCond (lru : List Nat) (k limit : Nat) :
    lruOverflowCond ((k :: lru).length : Nat) limit = decide ((k :: lru).length > limit) := by
  simp only [lruOverflowCond]
  by_cases h : (k :: lru).length > limit
  · have : (((k :: lru).length : Nat) : Int) > (limit : Int) := by omega
    simp only [this, h]
  · have : ¬ (((k :: lru).length : Nat) : Int) > (limit : Int) := by omega
    simp only [this, h]

/-- `SetTimer` rejects exactly the delays ≤ 0 for a non-nil key (the driver's `nsI ≤ 0` ⇒ `CacheG.setNoTimer`) -/
theorem tie_wheelSetTimerRejects (d : Int) : wheelSetTimerRejects d false = decide (d ≤ 0) := by
  simp [wheelSetTimerRejects]

/-- the wheel `NewCache` builds ticks once a second -/
theorem tie_cacheWheelInterval : cacheWheelIntervalNs = 1000000000 := by decide

/-! ### RollingWindow.Reduce -/

theorem tie_rwUpdateSkip (rw : RW) (now : Nat) : rwUpdateSkip (rw.span now) = decide (rw.span now = 0) := by
  simp only [rwUpdateSkip]
  by_cases h : rw.span now = 0
  · simp [h]
  · have : ¬ ((rw.span now : Int) ≤ 0) := by omega
    simp [h, this]

/-- `Reduce`: the number of buckets visited (`diff`, when positive) and the slot of the first one, from the translated
statements — the model's `RW.diff` and the start index of `RW.reduce` (clock not behind `lastTime`) -/
theorem tie_rwReduce (rw : RW) (now : Nat) (h : rw.lastTime ≤ now) :
    (rwReduceDiff rw.lastTime now rw.interval rw.size rw.ignoreCurrent).toNat = rw.diff now
    ∧ rwReduceGuard (rwReduceDiff rw.lastTime now rw.interval rw.size rw.ignoreCurrent) = decide (0 < rw.diff now)
    ∧ rwReduceStart rw.offset (rw.span now) rw.size = (((rw.offset + rw.span now + 1) % rw.size : Nat) : Int) := by
  have hd : rwReduceDiff rw.lastTime now rw.interval rw.size rw.ignoreCurrent
      = (rw.size : Int) - (if rw.span now = 0 ∧ rw.ignoreCurrent = true then 1 else (rw.span now : Int)) := by
    simp only [rwReduceDiff, tie_rwSpan rw now h]
    by_cases h0 : rw.span now = 0
    · cases hi : rw.ignoreCurrent <;> simp [h0, hi]
    · have : ¬ ((rw.span now : Int) = 0) := by omega
      simp [h0, this]
  have hs : rw.span now ≤ rw.size := by unfold RW.span; split <;> omega
  refine ⟨?_, ?_, ?_⟩
  · rw [hd]; unfold RW.diff; split <;> omega
  · rw [hd]; unfold rwReduceGuard RW.diff
    by_cases c : rw.span now = 0 ∧ rw.ignoreCurrent = true
    · simp only [c, and_self, if_true]
      by_cases h1 : 0 < rw.size - 1
      · have : ((rw.size : Int) - 1 > 0) := by omega
        simp [h1, this] <;> omega
      · have : ¬ ((rw.size : Int) - 1 > 0) := by omega
        simp [h1, this] <;> omega
    · simp only [c, if_false]
      by_cases h1 : 0 < rw.size - rw.span now
      · have : ((rw.size : Int) - (rw.span now : Int) > 0) := by omega
        simp [h1, this] <;> omega
      · have : ¬ ((rw.size : Int) - (rw.span now : Int) > 0) := by omega
        simp [h1, this] <;> omega
  · unfold rwReduceStart
    rw [Int.tmod_eq_emod_of_nonneg (by omega)]
    norm_cast

/-! ### constructors, variadic adds, key views, cache glue: statement lists -/

/-- `NewRing`: panics for n < 1, else n zeroed slots (Ring.new; the guard is `tie_newRingGuard`) -/
theorem tie_newRingStmts : newRingStmts = [
  "if n < 1 {",
  "panic(\"n should be greater than 0\")",
  "}",
  "return &Ring{ elements: make([]any, n), }"] := by decide

/-- `NewSet`: empty map, tag `untyped` (GSet.new true) -/
theorem tie_newSetStmts : newSetStmts = [
  "return &Set{ data: make(map[any]lang.PlaceholderType), tp: untyped, }"] := by decide

/-- `NewUnmanagedSet`: empty map, tag `unmanaged` (GSet.new false) -/
theorem tie_newUnmanagedSetStmts : newUnmanagedSetStmts = [
  "return &Set{ data: make(map[any]lang.PlaceholderType), tp: unmanaged, }"] := by decide

/-- `Add(i ...any)`: every element, in order, through `add` (GSet.addMany) -/
theorem tie_setPubAddStmts : setPubAddStmts = [
  "range _, each := i {",
  "s.add(each)",
  "}"] := by decide

/-- same shape as its sibling above -/
theorem tie_setPubAddIntStmts : setPubAddIntStmts = [
  "range _, each := ii {",
  "s.add(each)",
  "}"] := by decide

/-- same shape as its sibling above -/
theorem tie_setPubAddInt64Stmts : setPubAddInt64Stmts = [
  "range _, each := ii {",
  "s.add(each)",
  "}"] := by decide

/-- same shape as its sibling above -/
theorem tie_setPubAddUintStmts : setPubAddUintStmts = [
  "range _, each := ii {",
  "s.add(each)",
  "}"] := by decide

/-- same shape as its sibling above -/
theorem tie_setPubAddUint64Stmts : setPubAddUint64Stmts = [
  "range _, each := ii {",
  "s.add(each)",
  "}"] := by decide

/-- same shape as its sibling above -/
theorem tie_setPubAddStrStmts : setPubAddStrStmts = [
  "range _, each := ss {",
  "s.add(each)",
  "}"] := by decide

/-- `Keys`: every key of the map -/
theorem tie_setPubKeysStmts : setPubKeysStmts = [
  "var keys []any",
  "range key := s.data {",
  "keys = append(keys, key)",
  "}",
  "return keys"] := by decide

/-- `KeysInt`: exactly the keys of dynamic type int -/
theorem tie_setPubKeysIntStmts : setPubKeysIntStmts = [
  "var keys []int",
  "range key := s.data {",
  "if intKey, ok := key.(int); ok {",
  "keys = append(keys, intKey)",
  "}",
  "}",
  "return keys"] := by decide

/-- same shape as its sibling above -/
theorem tie_setPubKeysInt64Stmts : setPubKeysInt64Stmts = [
  "var keys []int64",
  "range key := s.data {",
  "if intKey, ok := key.(int64); ok {",
  "keys = append(keys, intKey)",
  "}",
  "}",
  "return keys"] := by decide

/-- same shape as its sibling above -/
theorem tie_setPubKeysUintStmts : setPubKeysUintStmts = [
  "var keys []uint",
  "range key := s.data {",
  "if intKey, ok := key.(uint); ok {",
  "keys = append(keys, intKey)",
  "}",
  "}",
  "return keys"] := by decide

/-- same shape as its sibling above -/
theorem tie_setPubKeysUint64Stmts : setPubKeysUint64Stmts = [
  "var keys []uint64",
  "range key := s.data {",
  "if intKey, ok := key.(uint64); ok {",
  "keys = append(keys, intKey)",
  "}",
  "}",
  "return keys"] := by decide

/-- same shape as its sibling above -/
theorem tie_setPubKeysStrStmts : setPubKeysStrStmts = [
  "var keys []string",
  "range key := s.data {",
  "if strKey, ok := key.(string); ok {",
  "keys = append(keys, strKey)",
  "}",
  "}",
  "return keys"] := by decide

/-- `newKeyLru`: a fresh list and index per call, the limit and the eviction callback as given -/
theorem tie_newKeyLruStmts : newKeyLruStmts = [
  "return &keyLru{ limit: limit, evicts: list.New(), elements: make(map[string]*list.Element), onEvict: onEvict, }"] := by decide

/-- `Cache.size` (the statistics callback): number of entries -/
theorem tie_cacheSizeStmts : cacheSizeStmts = [
  "return len(c.data)"] := by decide

/-- `newCacheStat`: keeps the size callback it is given -/
theorem tie_newCacheStatStmts : newCacheStatStmts = [
  "st := &cacheStat{ name: name, sizeCallback: sizeCallback, }",
  "go st.statLoop()",
  "return st"] := by decide

/-- `NewCache`: fresh map per cache, options applied to this cache, statistics over this cache's `size`, wheel of one-second interval and `slots` slots whose callback deletes from this cache -/
theorem tie_newCacheStmts : newCacheStmts = [
  "cache := &Cache{ data: make(map[string]any), expire: expire, lruCache: emptyLruCache, barrier: syncx.NewSingleFlight(), unstableExpiry: mathx.NewUnstable(expiryDeviation), }",
  "range _, opt := opts {",
  "opt(cache)",
  "}",
  "if len(cache.name) == 0 {",
  "cache.name = defaultCacheName",
  "}",
  "cache.stats = newCacheStat(cache.name, cache.size)",
  "timingWheel, err := NewTimingWheel(time.Second, slots, func(k, v any) { key, ok := k.(string) if !ok { return } cache.Del(key) })",
  "if err != nil {",
  "return nil, err",
  "}",
  "cache.timingWheel = timingWheel",
  "return cache, nil"] := by decide

/-- `NewSafeMap`: two fresh empty generations (SafeMap.init) -/
theorem tie_newSafeMapStmts : newSafeMapStmts = [
  "return &SafeMap{ dirtyOld: make(map[any]any), dirtyNew: make(map[any]any), }"] := by decide

/-- `NewRollingWindow`: size < 1 panics; buckets from `newWindow`; `lastTime` = the clock at creation; options applied (RW.new) -/
theorem tie_newRollingWindowStmts : newRollingWindowStmts = [
  "if size < 1 {",
  "panic(\"size must be greater than 0\")",
  "}",
  "w := &RollingWindow[T, B]{ size: size, win: newWindow[T, B](newBucket, size), interval: interval, lastTime: timex.Now(), }",
  "range _, opt := opts {",
  "opt(w)",
  "}",
  "return w"] := by decide

/-- `newWindow`: `size` buckets, each from its own `newBucket()` call -/
theorem tie_newWindowStmts : newWindowStmts = [
  "buckets := make([]B, size)",
  "for i := 0; i < size; i++ {",
  "buckets[i] = newBucket()",
  "}",
  "return &window[T, B]{ buckets: buckets, size: size, }"] := by decide

/-- `IgnoreCurrentBucket`: sets `ignoreCurrent` -/
theorem tie_ignoreCurrentStmts : ignoreCurrentStmts = [
  "return func(w *RollingWindow[T, B]) { w.ignoreCurrent = true }"] := by decide

/-- `Bucket.Add`: sum and count -/
theorem tie_bucketAddStmts : bucketAddStmts = [
  "b.Sum += v",
  "b.Count++"] := by decide

/-- `Bucket.Reset`: both back to zero -/
theorem tie_bucketResetStmts : bucketResetStmts = [
  "b.Sum = 0",
  "b.Count = 0"] := by decide

end GoZero.C16.Tie
