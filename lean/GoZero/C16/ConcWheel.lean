/-
C16 — round 5c: Cache together with the goroutines of its timing wheel, every schedule.

`SetWithExpire` and `Del` work in two phases (`tie_cacheLocks`, `tie_cachePhases`): a section under `c.lock`
(map + recency list), then — after the unlock — the call into the wheel (`SetTimer` / `RemoveTimer`).  The wheel's tick
hands the due keys to a goroutine of its own (`runTasks`), whose callback is `cache.Del(key)`: again a locked section
and a later `RemoveTimer`.  Any number of goroutines may be between their two phases at once, so the model keeps the
pending second phases as multisets (lists) and lets the scheduler pick ANY of them next:

  pendSet   SetTimer(k, v, ticks) calls whose Set has released the lock already
  pendRm    RemoveTimer(k) calls whose Del (a user's or an expiry callback's) has released the lock already
  fired     keys whose timer has fired and whose callback has not taken the lock yet

`setLock` may also evict one key (`victim`: whatever `keyLru.add` picks — left open here, LRU order is the sequential
theorems' business); `onEvict` runs under the lock and tells the wheel at once.  `log` records the sections that ran
under `c.lock`, newest first — the order the lock imposes.  Core Lean only.
-/
import GoZero.C16.Model
namespace GoZero.C16.CW

inductive Cause where
  | userDel | expiry | evict
  deriving Repr, DecidableEq

/-- what a section under `c.lock` did to the map -/
inductive Ev where
  | store (k v : Nat)
  | delete (k : Nat) (why : Cause)
  deriving Repr, DecidableEq

structure St where
  data    : AL                        -- c.data
  timers  : List (Nat × Nat)          -- the wheel: key ↦ ticks left (at most one timer per key)
  fired   : List Nat                  -- expiry callbacks not yet started
  pendSet : List (Nat × Nat × Nat)    -- SetTimer(k, v, ticks) still to be called
  pendRm  : List Nat                  -- RemoveTimer(k) still to be called
  log     : List Ev                   -- locked sections, newest first
  deriving Repr, DecidableEq

def init : St := { data := [], timers := [], fired := [], pendSet := [], pendRm := [], log := [] }

inductive Act where
  | setLock (k v ticks : Nat) (victim : Option Nat)   -- locked part of SetWithExpire (+ LRU overflow eviction)
  | setWheel (i : Nat)                                -- the i-th pending SetTimer reaches the wheel
  | delLock (k : Nat)                                 -- locked part of a user's Del
  | rmWheel (i : Nat)                                 -- the i-th pending RemoveTimer reaches the wheel
  | tick                                              -- the wheel's ticker: due timers fire
  | cbLock (i : Nat)                                  -- the i-th fired key's callback takes the lock (cache.Del)
  | get (k : Nat)                                     -- doGet: reads under the lock
  deriving Repr, DecidableEq

def terase (t : List (Nat × Nat)) (k : Nat) : List (Nat × Nat) := t.filter (·.1 ≠ k)

def step (s : St) : Act → Option St
  | .setLock k v ticks victim =>
    match victim with
    | none => some { s with data := ainsert s.data k v, pendSet := s.pendSet ++ [(k, v, ticks)], log := .store k v :: s.log }
    | some o =>
      if o = k then none    -- keyLru.add never evicts the key it has just moved to the front
      else some { s with data := aerase (ainsert s.data k v) o, timers := terase s.timers o,
                         pendSet := s.pendSet ++ [(k, v, ticks)], log := .delete o .evict :: .store k v :: s.log }
  | .setWheel i =>
    match s.pendSet[i]? with
    | none => none
    | some (k, _, ticks) =>
      -- SetTimer: rejected for a delay ≤ 0, else the key's timer is (re)started
      some { s with pendSet := s.pendSet.eraseIdx i,
                    timers := if ticks = 0 then s.timers else (k, ticks) :: terase s.timers k }
  | .delLock k => some { s with data := aerase s.data k, pendRm := s.pendRm ++ [k], log := .delete k .userDel :: s.log }
  | .rmWheel i =>
    match s.pendRm[i]? with
    | none => none
    | some k => some { s with pendRm := s.pendRm.eraseIdx i, timers := terase s.timers k }
  | .tick =>
    some { s with timers := (s.timers.filter (·.2 > 1)).map (fun p => (p.1, p.2 - 1)),
                  fired := s.fired ++ (s.timers.filter (·.2 ≤ 1)).map (·.1) }
  | .cbLock i =>
    match s.fired[i]? with
    | none => none
    | some k => some { s with fired := s.fired.eraseIdx i, data := aerase s.data k, pendRm := s.pendRm ++ [k],
                              log := .delete k .expiry :: s.log }
  | .get _ => some s

def run (s : St) : List Act → Option St
  | [] => some s
  | a :: as => match step s a with
    | none => none
    | some s' => run s' as

/-- the value the newest locked section that touched `k` left (`log` is newest first) -/
def lastWrite : List Ev → Nat → Option Nat
  | [], _ => none
  | .store k v :: r, k' => if k' = k then some v else lastWrite r k'
  | .delete k _ :: r, k' => if k' = k then none else lastWrite r k'

/-- does the event touch key `k` -/
def Ev.key : Ev → Nat
  | .store k _ => k
  | .delete k _ => k

/-- keys for which a timer has ever been started: only those can be handed to an expiry callback -/
def everSet (log : List Ev) : List Nat := log.filterMap fun e => match e with | .store k _ => some k | _ => none

end GoZero.C16.CW
