/-
C16 round 4 — helper lemmas:
  * Cache: what ONE operation does to the entry of ANY key, read off the operation and what it reported
    (`step_lookup`), and its lift to whole histories (`after_lookup`): the end-to-end form of "returns the latest
    value set unless deleted, expired or evicted".
  * Queue: the invariant holds in every reachable state (so the Tie's hypothesis `head ≤ len` is always met).
  * Set: the variadic adds are runs of single adds.
-/
import GoZero.C16.ProofsCache2
import GoZero.C16.ProofsSet
namespace GoZero.C16

/-- **The property's reference for one key**, computed only from the operations and from what each operation
*reported* (evicted / expired keys, whether the loader ran): the entry of `k` after one more operation.
Gone if reported evicted or expired; else the value just set (`Set`, or a `Take` that loaded successfully); gone after
`Del`; otherwise unchanged. -/
def Spec.aliveStep (k : Nat) (cur : Option Nat) (e : COp × CacheOut) : Option Nat :=
  if k ∈ e.2.expired ∨ k ∈ e.2.evicted then none
  else match e.1 with
    | .set k' v _ => if k = k' then some v else cur
    | .del k' => if k = k' then none else cur
    | .take k' v fails _ => if k = k' ∧ e.2.loaded = true ∧ fails = false then some v else cur
    | .get _ => cur
    | .tick => cur

/-- the latest value set for `k` that is still alive after the history `ops` whose operations reported `outs` -/
def Spec.latestAlive (k : Nat) (cur : Option Nat) (ops : List COp) (outs : List CacheOut) : Option Nat :=
  (ops.zip outs).foldl (Spec.aliveStep k) cur

section
variable {T : Type} (ts : TStep T)

theorem step_lookup (c : CacheG T) (op : COp) (h : c.Inv) (k : Nat) :
    alookup (CacheG.step ts c op).1.data k = Spec.aliveStep k (alookup c.data k) (op, (CacheG.step ts c op).2) := by
  cases op with
  | set k' v t =>
    simp only [CacheG.step, Spec.aliveStep]
    exact set_lookup ts c k' v t h k
  | get k' =>
    have hd := (inv_get ts c k' h).2.2
    simp only [CacheG.step] at hd ⊢
    rw [hd]
    unfold CacheG.get Spec.aliveStep
    split <;> simp
  | del k' =>
    simp only [CacheG.step, Spec.aliveStep, del_data, alookup_aerase]
    simp
  | take k' v f t =>
    cases hx : alookup c.data k' with
    | some x =>
      have e : CacheG.take ts c k' v f t = ((CacheG.lruAdd ts c k').1, { result := some x }) := by
        unfold CacheG.take; simp only [hx]
      simp only [CacheG.step, Spec.aliveStep, e]
      rw [(lruAdd_hit ts c k' h (mem_akeys_of_lookup _ _ _ hx)).2.2.2]
      simp
    | none =>
      cases f with
      | true =>
        have e : CacheG.take ts c k' v true t = (c, { loaded := true }) := by
          unfold CacheG.take; simp only [hx]; rfl
        simp only [CacheG.step, Spec.aliveStep, e]
        simp
      | false =>
        have e : CacheG.take ts c k' v false t = ((CacheG.set ts c k' v t).1,
            { (CacheG.set ts c k' v t).2 with loaded := true, result := some v }) := by
          unfold CacheG.take; simp only [hx]; rfl
        simp only [CacheG.step, Spec.aliveStep, e]
        rw [set_lookup ts c k' v t h k]
        simp
  | tick =>
    simp only [CacheG.step, CacheG.tick, Spec.aliveStep]
    rw [expire_lookup]
    simp only [List.not_mem_nil, or_false]

theorem after_lookup (ops : List COp) : ∀ (c : CacheG T), c.Inv → ∀ k,
    alookup (CacheG.after ts c ops).data k = Spec.latestAlive k (alookup c.data k) ops (CacheG.run ts c ops) := by
  induction ops with
  | nil => intro c _ k; rfl
  | cons op ops ih =>
    intro c h k
    have := ih (CacheG.step ts c op).1 (inv_step ts c op h).1 k
    simp only [CacheG.after, List.foldl_cons, Spec.latestAlive, CacheG.run, List.zip_cons_cons] at this ⊢
    rw [this, step_lookup ts c op h k]

end

/-! ### Queue: the invariant in every reachable state -/

def Queue.after (q : Queue) (ops : List QOp) : Queue := ops.foldl (fun q op => (q.step op).1) q

theorem Queue.inv_step (q : Queue) (hi : q.Inv) (op : QOp) : (q.step op).1.Inv := by
  cases op with
  | put x => exact (Queue.put_spec q x hi).1
  | take => exact (Queue.take_spec q hi).1
  | empty => exact hi

theorem Queue.inv_after (ops : List QOp) : ∀ (q : Queue), q.Inv → (q.after ops).Inv := by
  induction ops with
  | nil => intro q h; exact h
  | cons op ops ih => intro q h; exact ih _ (Queue.inv_step q h op)

/-! ### Set: variadic adds -/

theorem GSet.addMany_eq_run (s : GSet) (xs : List (Nat × Nat)) : s.addMany xs = s.run (xs.map SetOp.add) := by
  unfold GSet.addMany GSet.run
  induction xs generalizing s with
  | nil => rfl
  | cons x xs ih => simp only [List.foldl_cons, List.map_cons]; exact ih _

theorem GSet.run_append (s : GSet) (a b : List SetOp) : s.run (a ++ b) = (s.run a).run b := by
  simp [GSet.run, List.foldl_append]

end GoZero.C16
