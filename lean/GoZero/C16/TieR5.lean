/-
C16 — Tie, round 5: the public entry points of ModelApi.lean against the working tree.
  * constructor guards / option guards translated from the Go conditions and proven equal to `Ring.newApi`,
    `RW.newApi`, `CacheOpt.apply`, `effName`, `Load.fails` for all arguments
  * the bucket slots and loop bounds of `window` (add / resetBucket / reduce / newWindow) and the reset index of
    `updateOffset`, equal to the indices the model `RW` uses, for all arguments
  * how the loops of `SafeMap.Range` leave when the callback answers false
  * typed call lists (kind, callee, forwarded arguments) of every delegating entry point and constructor: the order of
    the effects (lock, deferred unlock, calls) and which argument goes where
-/
import GoZero.Extracted.C16
import GoZero.C16.ModelApi
set_option maxRecDepth 8000
namespace GoZero.C16.TieR5
open GoZero.C16
open GoZero.Extracted.C16

theorem tie_defaultCacheName : defaultCacheName = "proc" := by decide

/-! ### guards -/

/-- `NewRing`: the constructor panics exactly when the translated guard `n < 1` holds -/
theorem tie_newRingApi (n : Int) : (Ring.newApi n).isNone = newRingGuard n := by
  unfold Ring.newApi newRingGuard
  by_cases h : n < 1 <;> simp [h]

/-- `NewRollingWindow`: the constructor panics exactly when the translated guard `size < 1` holds, whatever the options -/
theorem tie_newRollingWindowApi (size : Int) (interval : Nat) (opts : List RWOpt) (t0 : Nat) :
    (RW.newApi size interval opts t0).isNone = newRollingWindowGuard size := by
  unfold RW.newApi newRollingWindowGuard
  by_cases h : size < 1 <;> simp [h]

/-- `WithLimit(l)`: a keyLru of limit `l` is installed exactly when the translated guard `limit > 0` holds; otherwise
the cache keeps what it had -/
theorem tie_withLimitApply (c : CacheCfg) (l : Int) :
    (CacheOpt.apply c (.withLimit l)).limit = if cacheLimitGuard l then l.toNat else c.limit := by
  unfold CacheOpt.apply cacheLimitGuard
  by_cases h : l > 0 <;> simp [h]

/-- `if len(cache.name) == 0 { cache.name = defaultCacheName }` (a name is the natural 0 iff its length is 0) -/
theorem tie_cacheNameDefault (dflt : Nat) (opts : List CacheOpt) :
    effName dflt opts = if newCacheNameDefaultCond (cacheCfg opts).name then dflt else (cacheCfg opts).name := by
  unfold effName newCacheNameDefaultCond
  by_cases h : (cacheCfg opts).name = 0
  · simp [h]
  · have : ¬ (((cacheCfg opts).name : Int) = 0) := by omega
    simp [h, this]

/-- the error value the loader hands back, as `e == nil` sees it: a value comes with a nil error, `errors.New` and a
typed-nil pointer in the interface are both non-nil; a panic / Goexit never reaches the test -/
def Load.errNil : Load → Option Bool
  | .value _ => some true
  | .error => some false
  | .typedNilError => some false
  | _ => none

/-- `if e != nil { return nil, e }` inside the closure of `Take`: the load counts as failed exactly when the translated
condition holds; outcomes that do not return (panic, Goexit) never reach `c.Set` either -/
theorem tie_takeLoaderErrCond (l : Load) :
    (∀ b, Load.errNil l = some b → l.fails = cacheTakeLoaderErrCond b)
    ∧ (Load.errNil l = none → l.fails = true) := by
  cases l <;> simp [Load.errNil, Load.fails, cacheTakeLoaderErrCond]

/-! ### bucket slots and loop bounds -/

theorem tmod_nat (a b : Nat) : Int.tmod (a : Int) (b : Int) = ((a % b : Nat) : Int) := by
  rw [Int.tmod_eq_emod_of_nonneg (by omega)]
  norm_cast

/-- `window.add(offset, v)`: bucket `offset % size` — the slot `RW.add` writes -/
theorem tie_winAddSlot (offset size : Nat) : winAddSlot offset size = ((offset % size : Nat) : Int) := by
  unfold winAddSlot; exact tmod_nat _ _

/-- `window.reduce(start, count, fn)`: the i-th visited bucket is `(start + i) % size` — the index of `RW.reduce` -/
theorem tie_winReduceSlot (start i size : Nat) : winReduceSlot start i size = (((start + i) % size : Nat) : Int) := by
  unfold winReduceSlot
  have := tmod_nat (start + i) size
  push_cast at this ⊢
  exact this

/-- `updateOffset`: the i-th expired bucket is `(offset + i + 1) % size` — the index `RW.resetLoop` clears; `resetBucket`
reduces it modulo `size` once more, which changes nothing -/
theorem tie_rwResetIndex (offset i size : Nat) :
    rwResetIndex offset i size = (((offset + i + 1) % size : Nat) : Int)
    ∧ winResetSlot (rwResetIndex offset i size) size = rwResetIndex offset i size := by
  have h1 : rwResetIndex offset i size = (((offset + i + 1) % size : Nat) : Int) := by
    unfold rwResetIndex
    have := tmod_nat (offset + i + 1) size
    push_cast at this ⊢
    exact this
  refine ⟨h1, ?_⟩
  rw [h1]
  unfold winResetSlot
  rw [tmod_nat, Nat.mod_mod]

/-- the loops run `i = 0 … n-1` (`List.range n` in the models) -/
theorem tie_windowLoopConds (i n : Nat) :
    winReduceLoopCond i n = decide (i < n) ∧ rwResetLoopCond i n = decide (i < n) ∧ newWindowLoopCond i n = decide (i < n) := by
  unfold winReduceLoopCond rwResetLoopCond newWindowLoopCond
  by_cases h : i < n
  · have : (i : Int) < n := by omega
    simp [h, this]
  · have : ¬ ((i : Int) < n) := by omega
    simp [h, this]

/-! ### Range: both loops RETURN when the callback answers false (`rangeLoop`'s stop flag ends `SafeMap.rangeUntil`) -/

theorem tie_safeMapRangeLoops : safeMapRangeLoops = [("m.dirtyOld", "if !f(k, v) return"), ("m.dirtyNew", "if !f(k, v) return")] := by
  decide

/-! ### typed call lists: order of effects, forwarded arguments -/

/-- `Set` forwards key, value and the CONFIGURED expiry to SetWithExpire (the driver maps `setd` to `COp.set` with the section's expire) -/
theorem tie_cacheSetCalls : cacheSetCalls = [
  ("call", "c.SetWithExpire", ["key", "value", "c.expire"])
] := by decide

/-- `Get` forwards the key to doGet; one statistics call per branch -/
theorem tie_cacheGetCalls : cacheGetCalls = [
  ("call", "c.doGet", ["key"]),
  ("call", "c.stats.IncrementHit", []),
  ("call", "c.stats.IncrementMiss", [])
] := by decide

/-- `Del`: under the lock the recency list, after the unlock the wheel - each with the key (CacheG.del) -/
theorem tie_cacheDelCalls : cacheDelCalls = [
  ("call", "c.lock.Lock", []),
  ("call", "delete", ["c.data", "key"]),
  ("call", "c.lruCache.remove", ["key"]),
  ("call", "c.lock.Unlock", []),
  ("call", "c.timingWheel.RemoveTimer", ["key"])
] := by decide

/-- `SetWithExpire`: recency list under the lock; the jitter is applied to the expire ARGUMENT; SetTimer gets key, value and the jittered expiry (CacheG.set) -/
theorem tie_cacheSetWithExpireCalls : cacheSetWithExpireCalls = [
  ("call", "c.lock.Lock", []),
  ("store", "c.data", ["key", "value"]),
  ("call", "c.lruCache.add", ["key"]),
  ("call", "c.lock.Unlock", []),
  ("call", "c.unstableExpiry.AroundDuration", ["expire"]),
  ("call", "c.timingWheel.SetTimer", ["key", "value", "expiry"])
] := by decide

/-- `Take`: doGet(key); barrier.Do(key, closure); inside the closure doGet(key) again, fetch(), Set(key, v) with the FETCHED value (CacheG.take / takeL) -/
theorem tie_cacheTakeCalls : cacheTakeCalls = [
  ("call", "c.doGet", ["key"]),
  ("call", "c.stats.IncrementHit", []),
  ("call", "c.barrier.Do", ["key", "func"]),
  ("call", "c.doGet", ["key"]),
  ("call", "fetch", []),
  ("call", "c.Set", ["key", "v"]),
  ("call", "c.stats.IncrementMiss", []),
  ("call", "c.stats.IncrementHit", [])
] := by decide

/-- `doGet`: lock, deferred unlock, a hit touches the recency list with the key -/
theorem tie_cacheDoGetCalls : cacheDoGetCalls = [
  ("call", "c.lock.Lock", []),
  ("defer", "c.lock.Unlock", []),
  ("call", "c.lruCache.add", ["key"])
] := by decide

/-- `onEvict`: the evicted key's timer is removed -/
theorem tie_cacheOnEvictCalls : cacheOnEvictCalls = [
  ("call", "delete", ["c.data", "key"]),
  ("call", "c.timingWheel.RemoveTimer", ["key"])
] := by decide

/-- `size`: lock, deferred unlock -/
theorem tie_cacheSizeCalls : cacheSizeCalls = [
  ("call", "c.lock.Lock", []),
  ("defer", "c.lock.Unlock", [])
] := by decide

/-- `NewCache`: every option is applied to the cache being built, in order (cacheCfg); the statistics get the name and the size callback; the wheel gets one second, `slots` and a callback that deletes the fired KEY -/
theorem tie_newCacheCalls : newCacheCalls = [
  ("call", "syncx.NewSingleFlight", []),
  ("call", "mathx.NewUnstable", ["expiryDeviation"]),
  ("call", "opt", ["cache"]),
  ("call", "newCacheStat", ["cache.name", "cache.size"]),
  ("call", "NewTimingWheel", ["time.Second", "slots", "func"]),
  ("call", "cache.Del", ["key"])
] := by decide

/-- `WithLimit`: the keyLru gets the limit and THIS cache's onEvict -/
theorem tie_withLimitCalls : withLimitCalls = [
  ("call", "newKeyLru", ["limit", "cache.onEvict"])
] := by decide

/-- `newCacheStat`: starts the statistics loop (outside the model) -/
theorem tie_newCacheStatCalls : newCacheStatCalls = [
  ("go", "st.statLoop", [])
] := by decide

/-- `keyLru.add` -/
theorem tie_lruAddCalls : lruAddCalls = [
  ("call", "klru.evicts.MoveToFront", ["elem"]),
  ("call", "klru.evicts.PushFront", ["key"]),
  ("store", "klru.elements", ["key", "elem"]),
  ("call", "klru.evicts.Len", []),
  ("call", "klru.removeOldest", [])
] := by decide

/-- `keyLru.remove` -/
theorem tie_lruRemoveCalls : lruRemoveCalls = [
  ("call", "klru.removeElement", ["elem"])
] := by decide

/-- `keyLru.removeOldest`: the BACK of the list -/
theorem tie_lruRemoveOldestCalls : lruRemoveOldestCalls = [
  ("call", "klru.evicts.Back", []),
  ("call", "klru.removeElement", ["elem"])
] := by decide

/-- `keyLru.removeElement`: the list element, then onEvict with its key -/
theorem tie_lruRemoveElementCalls : lruRemoveElementCalls = [
  ("call", "klru.evicts.Remove", ["e"]),
  ("call", "delete", ["klru.elements", "key"]),
  ("call", "klru.onEvict", ["key"])
] := by decide

/-- `NewRollingWindow`: newWindow gets the bucket constructor and the size; lastTime is the clock; every option is applied to the window being built (RW.newApi) -/
theorem tie_newRollingWindowCalls : newRollingWindowCalls = [
  ("call", "newWindow[T, B]", ["newBucket", "size"]),
  ("call", "timex.Now", []),
  ("call", "opt", ["w"])
] := by decide

/-- `Add`: write lock, updateOffset, then the value goes to the bucket at rw.offset (RW.add) -/
theorem tie_rwAddCalls : rwAddCalls = [
  ("call", "rw.lock.Lock", []),
  ("defer", "rw.lock.Unlock", []),
  ("call", "rw.updateOffset", []),
  ("call", "rw.win.add", ["rw.offset", "v"])
] := by decide

/-- `Reduce`: read lock, span, then win.reduce(start offset, count, callback) (RW.reduce) -/
theorem tie_rwReduceCalls : rwReduceCalls = [
  ("call", "rw.lock.RLock", []),
  ("defer", "rw.lock.RUnlock", []),
  ("call", "rw.span", []),
  ("call", "rw.win.reduce", ["offset", "diff", "fn"])
] := by decide

/-- `updateOffset`: span, one resetBucket per expired interval at (offset+i+1) % size, the clock (RW.updateOffset) -/
theorem tie_rwUpdateCalls : rwUpdateCalls = [
  ("call", "rw.span", []),
  ("call", "rw.win.resetBucket", ["(offset + i + 1) % rw.size"]),
  ("call", "timex.Now", [])
] := by decide

/-- `Range`: read lock held over both loops; the callback gets key and value (SafeMap.rangeUntil) -/
theorem tie_safeMapRangeCalls : safeMapRangeCalls = [
  ("call", "m.lock.RLock", []),
  ("defer", "m.lock.RUnlock", []),
  ("call", "f", ["k", "v"]),
  ("call", "f", ["k", "v"])
] := by decide

/-- `Get`: read lock -/
theorem tie_safeMapGetCalls : safeMapGetCalls = [
  ("call", "m.lock.RLock", []),
  ("defer", "m.lock.RUnlock", [])
] := by decide

/-- `Size`: read lock around the sum -/
theorem tie_safeMapSizeCalls : safeMapSizeCalls = [
  ("call", "m.lock.RLock", []),
  ("call", "m.lock.RUnlock", [])
] := by decide

/-- `Empty`: the lock around the comparison -/
theorem tie_queueEmptyCalls : queueEmptyCalls = [
  ("call", "q.lock.Lock", []),
  ("call", "q.lock.Unlock", [])
] := by decide

/-- `Take`: read lock, deferred unlock -/
theorem tie_ringTakeCalls : ringTakeCalls = [
  ("call", "r.lock.RLock", []),
  ("defer", "r.lock.RUnlock", []),
  ("store", "elements", ["i", "r.elements[(start+i)%rlen]"])
] := by decide


/-! ### round 5c: Go `int` width of the ring index; RollingWindow with an interval ≤ 0 -/

theorem wrap64_id (x : Int) (h1 : -9223372036854775808 ≤ x) (h2 : x < 9223372036854775808) : wrap64 x = x := by
  unfold wrap64; omega

/-- **`Ring.Add` does not overflow.**  With the index inside `[0, 2·rlen)` (`ring_index_lt_2n`: every reachable state) and
`rlen < 2^62` (a slice of 2^62 interface values — 2^66 bytes — cannot be allocated), the 64-bit computation of the
translated statements (`ringAddIndexW`: every intermediate result wrapped) is the unbounded one the model was proven
about (`ringAddIndex`, `tie_ringAddIndex`), and the new index is inside `[0, 2·rlen)` again. -/
theorem tie_ringAddIndex_width (index rlen : Int) (h0 : 0 ≤ index) (h1 : index < 2 * rlen)
    (hn : rlen < 4611686018427387904) :
    ringAddIndexW index rlen = ringAddIndex index rlen
    ∧ 0 ≤ ringAddIndex index rlen ∧ ringAddIndex index rlen < 2 * rlen := by
  unfold ringAddIndexW ringAddIndex
  rw [wrap64_id (index + 1) (by omega) (by omega), wrap64_id (rlen * 2) (by omega) (by omega)]
  simp only [ge_iff_le, decide_eq_true_eq]
  by_cases h : rlen * 2 ≤ index + 1
  · rw [wrap64_id (index + 1 - rlen) (by omega) (by omega)]
    simp only [h, if_true]
    exact ⟨trivial, by omega, by omega⟩
  · simp only [h, if_false]
    exact ⟨trivial, by omega, by omega⟩

/-- at the very edge the hypothesis is needed: with `rlen = 2^62` the guard `rlen<<1` wraps to `-2^63` and the index is
folded back on the first Add -/
example : ringAddIndexW 0 4611686018427387904 ≠ ringAddIndex 0 4611686018427387904 := by decide

/-- **`span()` with a negative interval** (clock not behind `lastTime`): 0 while less than `|interval|` has passed, `size`
from then on — so `Reduce` visits nothing and the next `Add` resets every bucket.  The property speaks about "the last
`size` intervals" and has no reading for intervals of negative length: `interval ≥ 1` is an explicit hypothesis (`hi`) of
every RollingWindow theorem.  (For `interval = 0` Go panics with a division by zero in every `Add` / `Reduce`; Lean's
`Int.tdiv x 0 = 0`, so the translated `rwSpan` does not describe that case.) -/
theorem tie_rwSpan_negativeInterval (lastTime now a size : Nat) (h : lastTime ≤ now) (ha : 0 < a) :
    rwSpan lastTime now (-(a : Int)) size = (RW.spanNeg lastTime now a size : Int) := by
  unfold rwSpan clockSince RW.spanNeg
  have e : ((now : Int) - (lastTime : Int)) = ((now - lastTime : Nat) : Int) := by omega
  rw [e, Int.tdiv_neg]
  have e2 : Int.tdiv ((now - lastTime : Nat) : Int) (a : Int) = (((now - lastTime) / a : Nat) : Int) := by
    rw [Int.tdiv_eq_ediv_of_nonneg (by omega)]; norm_cast
  rw [e2]
  by_cases hlt : now - lastTime < a
  · have : (now - lastTime) / a = 0 := Nat.div_eq_of_lt hlt
    rw [this]
    by_cases hz : (0 : Int) < (size : Int)
    · simp [hlt]
    · have : size = 0 := by omega
      simp [hlt, this]
  · have hq : 1 ≤ (now - lastTime) / a := (Nat.one_le_div_iff ha).2 (by omega)
    generalize (now - lastTime) / a = q at hq ⊢
    simp [hlt]
    intro h0; omega

example : rwSpan 10 14 (-5) 3 = 0 ∧ rwSpan 10 15 (-5) 3 = 3 ∧ rwSpan 10 99 (-5) 3 = 3 := by decide

end GoZero.C16.TieR5
