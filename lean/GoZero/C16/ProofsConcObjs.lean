/-
C16 — the statement-by-statement bodies of ConcObjs.lean, run alone, compute exactly the sequential models
(Model.lean); read operations do not write.
-/
import GoZero.C16.ConcObjs
import GoZero.C16.ProofsConc
import GoZero.C16.ProofsMap
namespace GoZero.C16

open Conc

section generic
variable {σ L Op : Type}

theorem Exec.one (o : Obj σ L Op) (op : Op) (a b : L × σ) (hb : o.body op a.1 a.2 = some b) : Exec o op a b :=
  Exec.tail b.1 b.2 (Exec.refl a) hb

theorem Exec.step1 (o : Obj σ L Op) (op : Op) {a c : L × σ} (b : L × σ) (hb : o.body op a.1 a.2 = some b)
    (h : Exec o op b c) : Exec o op a c :=
  Exec.trans' o op (Exec.one o op a b hb) h

end generic

/-! ## SafeMap -/
namespace CMap

theorem readsPure (maxDel thr : Nat) : ReadsPure (obj maxDel thr) := by
  intro op l m l' m' hr hb
  cases op with
  | get k =>
    simp only [obj, bodyGet] at hb
    split at hb
    · split at hb <;> (cases hb; rfl)
    · cases hb; rfl
    · cases hb
  | size =>
    simp only [obj, bodySize] at hb
    split at hb
    · cases hb; rfl
    · cases hb
  | range =>
    simp only [obj, bodyRange] at hb
    split at hb
    · cases hb; rfl
    · split at hb <;> (cases hb; rfl)
    · split at hb <;> (cases hb; rfl)
    · cases hb
  | set k v => simp [obj, isRead] at hr
  | del k => simp [obj, isRead] at hr

/-- the copy loop of a migration into `dirtyNew` -/
theorem loop4 (maxDel thr k : Nat) (todo : AL) : ∀ (l : Loc) (m : SafeMap), l.pc = 4 → l.todo = todo →
    Exec (obj maxDel thr) (.del k) (l, m) ({ l with pc := 5, todo := [] }, { m with new := acopyInto m.new todo }) := by
  induction todo with
  | nil =>
    intro l m hpc ht
    refine Exec.one _ _ _ _ ?_
    simp only [obj, bodyDel, hpc, ht, acopyInto, List.foldl_nil]
  | cons p r ih =>
    intro l m hpc ht
    refine Exec.step1 _ _ ({ l with todo := r }, { m with new := ainsert m.new p.1 p.2 }) ?_ ?_
    · simp only [obj, bodyDel, hpc, ht]
    · have := ih { l with todo := r } { m with new := ainsert m.new p.1 p.2 } hpc rfl
      simpa [acopyInto] using this

/-- the copy loop of a migration into `dirtyOld` -/
theorem loop10 (maxDel thr k : Nat) (todo : AL) : ∀ (l : Loc) (m : SafeMap), l.pc = 10 → l.todo = todo →
    Exec (obj maxDel thr) (.del k) (l, m) ({ l with pc := 11, todo := [] }, { m with old := acopyInto m.old todo }) := by
  induction todo with
  | nil =>
    intro l m hpc ht
    refine Exec.one _ _ _ _ ?_
    simp only [obj, bodyDel, hpc, ht, acopyInto, List.foldl_nil]
  | cons p r ih =>
    intro l m hpc ht
    refine Exec.step1 _ _ ({ l with todo := r }, { m with old := ainsert m.old p.1 p.2 }) ?_ ?_
    · simp only [obj, bodyDel, hpc, ht]
    · have := ih { l with todo := r } { m with old := ainsert m.old p.1 p.2 } hpc rfl
      simpa [acopyInto] using this

/-- the two loops of `Range` -/
theorem loopR (maxDel thr : Nat) (pc : Nat) (hpc' : pc = 1 ∨ pc = 2) (todo : AL) : ∀ (l : Loc) (m : SafeMap), l.pc = pc → l.todo = todo →
    Exec (obj maxDel thr) .range (l, m) ({ l with todo := [], acc := l.acc ++ todo }, m) := by
  induction todo with
  | nil =>
    intro l m hpc ht
    have : ({ l with todo := [], acc := l.acc ++ [] } : Loc) = l := by cases l; simp_all
    rw [this]; exact Exec.refl _
  | cons p r ih =>
    intro l m hpc ht
    refine Exec.step1 _ _ ({ l with todo := r, acc := l.acc ++ [p] }, m) ?_ ?_
    · rcases hpc' with e | e <;> (subst e; simp only [obj, bodyRange, hpc, ht])
    · have := ih { l with todo := r, acc := l.acc ++ [p] } m hpc rfl
      simpa using this

/-- where `Del k`, run alone, ends -/
def delEnd (maxDel thr : Nat) (m : SafeMap) (k : Nat) : Loc × SafeMap :=
  ({ pc := 13 }, m.del maxDel thr k)

theorem del_first (maxDel thr k : Nat) (m : SafeMap) :
    Exec (obj maxDel thr) (.del k) ({ pc := 0 }, m) ({ pc := 3 }, m.del1 k) := by
  by_cases h1 : ahas m.old k = true
  · refine Exec.step1 _ _ ({ pc := 1 }, { m with old := aerase m.old k }) (by simp [obj, bodyDel, h1]) ?_
    refine Exec.one _ _ _ _ ?_
    simp [obj, bodyDel, SafeMap.del1, h1]
  · by_cases h2 : ahas m.new k = true
    · refine Exec.step1 _ _ ({ pc := 2 }, { m with new := aerase m.new k }) (by simp [obj, bodyDel, h1, h2]) ?_
      refine Exec.one _ _ _ _ ?_
      simp [obj, bodyDel, SafeMap.del1, h1, h2]
    · refine Exec.one _ _ _ _ ?_
      simp [obj, bodyDel, SafeMap.del1, h1, h2]

theorem del_mid (maxDel thr k : Nat) (m : SafeMap) :
    ∃ l : Loc, l.pc = 9 ∧ Exec (obj maxDel thr) (.del k) ({ pc := 3 }, m) (l, m.mig1 maxDel thr) := by
  by_cases hc : m.delOld ≥ maxDel ∧ m.old.length < thr
  · refine ⟨{ pc := 9 }, rfl, ?_⟩
    refine Exec.step1 _ _ ({ pc := 4, todo := m.old }, m) (by simp [obj, bodyDel, hc]) ?_
    refine Exec.trans' _ _ (loop4 maxDel thr k m.old _ m rfl rfl) ?_
    refine Exec.step1 _ _ ({ pc := 6 }, _) (by first | rfl | (simp only [obj, bodyDel]; rfl)) ?_
    refine Exec.step1 _ _ ({ pc := 7 }, _) (by first | rfl | (simp only [obj, bodyDel]; rfl)) ?_
    refine Exec.step1 _ _ ({ pc := 8 }, _) (by first | rfl | (simp only [obj, bodyDel]; rfl)) ?_
    refine Exec.one _ _ _ _ ?_
    simp [obj, bodyDel, SafeMap.mig1, hc]
  · refine ⟨{ pc := 9 }, rfl, ?_⟩
    refine Exec.one _ _ _ _ ?_
    simp [obj, bodyDel, SafeMap.mig1, hc]

theorem del_last (maxDel thr k : Nat) (l : Loc) (hl : l.pc = 9) (m : SafeMap) :
    ∃ l' : Loc, l'.pc = 13 ∧ Exec (obj maxDel thr) (.del k) (l, m) (l', m.mig2 maxDel thr) := by
  by_cases hc : m.delNew ≥ maxDel ∧ m.new.length < thr
  · refine ⟨{ l with pc := 13, todo := [] }, rfl, ?_⟩
    refine Exec.step1 _ _ ({ l with pc := 10, todo := m.new }, m) (by simp [obj, bodyDel, hc, hl]) ?_
    refine Exec.trans' _ _ (loop10 maxDel thr k m.new _ m rfl rfl) ?_
    refine Exec.step1 _ _ ({ l with pc := 12, todo := [] }, _) (by first | rfl | (simp only [obj, bodyDel]; rfl)) ?_
    refine Exec.one _ _ _ _ ?_
    simp [obj, bodyDel, SafeMap.mig2, hc]
  · refine ⟨{ l with pc := 13 }, rfl, ?_⟩
    refine Exec.one _ _ _ _ ?_
    simp [obj, bodyDel, SafeMap.mig2, hc, hl]

theorem solo_del (maxDel thr k : Nat) (m : SafeMap) :
    ∃ l : Loc, Solo (obj maxDel thr) (.del k) m l (m.del maxDel thr k) := by
  obtain ⟨l1, h1, e1⟩ := del_mid maxDel thr k (m.del1 k)
  obtain ⟨l2, h2, e2⟩ := del_last maxDel thr k l1 h1 ((m.del1 k).mig1 maxDel thr)
  refine ⟨l2, Exec.trans' _ _ (del_first maxDel thr k m) (Exec.trans' _ _ e1 e2), ?_⟩
  simp [obj, bodyDel, h2]

theorem solo_set (maxDel k v : Nat) (thr : Nat) (m : SafeMap) :
    Solo (obj maxDel thr) (.set k v) m { pc := 7 } (m.set maxDel k v) := by
  refine ⟨?_, by simp [obj, bodySet]⟩
  show Exec _ _ (({ pc := 0 } : Loc), m) _
  by_cases h0 : m.delOld ≤ maxDel
  · refine Exec.step1 _ _ ({ pc := 1 }, m) (by simp [obj, bodySet, h0]) ?_
    by_cases h1 : ahas m.new k = true
    · refine Exec.step1 _ _ ({ pc := 2 }, { m with new := aerase m.new k }) (by simp [obj, bodySet, h1]) ?_
      refine Exec.step1 _ _ ({ pc := 3 }, _) (by first | rfl | (simp only [obj, bodySet]; rfl)) ?_
      refine Exec.one _ _ _ _ ?_
      simp [obj, bodySet, SafeMap.set, h0, h1]
    · refine Exec.step1 _ _ ({ pc := 3 }, m) (by simp [obj, bodySet, h1]) ?_
      refine Exec.one _ _ _ _ ?_
      simp [obj, bodySet, SafeMap.set, h0, h1]
  · refine Exec.step1 _ _ ({ pc := 4 }, m) (by simp [obj, bodySet, h0]) ?_
    by_cases h1 : ahas m.old k = true
    · refine Exec.step1 _ _ ({ pc := 5 }, { m with old := aerase m.old k }) (by simp [obj, bodySet, h1]) ?_
      refine Exec.step1 _ _ ({ pc := 6 }, _) (by first | rfl | (simp only [obj, bodySet]; rfl)) ?_
      refine Exec.one _ _ _ _ ?_
      simp [obj, bodySet, SafeMap.set, h0, h1]
    · refine Exec.step1 _ _ ({ pc := 6 }, m) (by simp [obj, bodySet, h1]) ?_
      refine Exec.one _ _ _ _ ?_
      simp [obj, bodySet, SafeMap.set, h0, h1]

theorem solo_get (maxDel thr k : Nat) (m : SafeMap) :
    Solo (obj maxDel thr) (.get k) m { pc := 2, res := m.get k } m := by
  refine ⟨?_, by simp [obj, bodyGet]⟩
  show Exec _ _ (({ pc := 0 } : Loc), m) _
  cases h : alookup m.old k with
  | some v =>
    refine Exec.one _ _ _ _ ?_
    simp [obj, bodyGet, SafeMap.get, h]
  | none =>
    refine Exec.step1 _ _ ({ pc := 1 }, m) (by simp [obj, bodyGet, h]) ?_
    refine Exec.one _ _ _ _ ?_
    simp [obj, bodyGet, SafeMap.get, h]

theorem solo_size (maxDel thr : Nat) (m : SafeMap) :
    Solo (obj maxDel thr) .size m { pc := 1, res := some m.size } m := by
  refine ⟨Exec.one _ _ _ _ ?_, by simp [obj, bodySize]⟩
  simp [obj, bodySize, SafeMap.size]

theorem solo_range (maxDel thr : Nat) (m : SafeMap) :
    Solo (obj maxDel thr) .range m { pc := 3, acc := m.range } m := by
  refine ⟨?_, by simp [obj, bodyRange]⟩
  show Exec _ _ (({ pc := 0 } : Loc), m) _
  refine Exec.step1 _ _ ({ pc := 1, todo := m.old }, m) (by simp [obj, bodyRange]) ?_
  refine Exec.trans' _ _ (loopR maxDel thr 1 (Or.inl rfl) m.old _ m rfl rfl) ?_
  refine Exec.step1 _ _ ({ pc := 2, todo := m.new, acc := m.old }, m) (by simp [obj, bodyRange]) ?_
  refine Exec.trans' _ _ (loopR maxDel thr 2 (Or.inr rfl) m.new _ m rfl rfl) ?_
  refine Exec.one _ _ _ _ ?_
  simp [obj, bodyRange, SafeMap.range]

/-- the visible result of an operation is the sequential model's -/
def resultOK (m : SafeMap) (op : Op) (res : Loc) : Prop :=
  match op with
  | .get k => res.res = m.get k
  | .size => res.res = some m.size
  | .range => res.acc = m.range
  | _ => True

/-- **a body run alone = the sequential model** (state and visible result) -/
theorem solo_is_seq (maxDel thr : Nat) (op : Op) (m : SafeMap) (res : Loc) (post : SafeMap)
    (h : Solo (obj maxDel thr) op m res post) :
    post = seqPost maxDel thr m op ∧ resultOK m op res := by
  unfold resultOK
  cases op with
  | get k => obtain ⟨a, b⟩ := Solo.unique _ _ _ (solo_get maxDel thr k m) h; subst a; exact ⟨b, rfl⟩
  | size => obtain ⟨a, b⟩ := Solo.unique _ _ _ (solo_size maxDel thr m) h; subst a; exact ⟨b, rfl⟩
  | range => obtain ⟨a, b⟩ := Solo.unique _ _ _ (solo_range maxDel thr m) h; subst a; exact ⟨b, rfl⟩
  | set k v => obtain ⟨_, b⟩ := Solo.unique _ _ _ (solo_set maxDel k v thr m) h; exact ⟨b, trivial⟩
  | del k =>
    obtain ⟨l, hl⟩ := solo_del maxDel thr k m
    obtain ⟨_, b⟩ := Solo.unique _ _ _ hl h; exact ⟨b, trivial⟩

end CMap

/-! ## Queue -/
namespace CQueue

theorem readsPure : ReadsPure obj := by
  intro op l m l' m' hr _; simp [obj] at hr

def seqStep (q : Queue) : Op → Queue × QOut
  | .put x => q.step (.put x)
  | .take => q.step .take
  | .empty => q.step .empty

def visible (op : Op) (l : Loc) : QOut :=
  match op with
  | .put _ => .unit
  | .take => .val l.res
  | .empty => .bool (l.i = 1)

theorem solo_put (x : Nat) (q : Queue) : ∃ l : Loc, Solo obj (.put x) q l (q.put x) := by
  by_cases hc : q.head = q.tail ∧ q.count > 0
  · refine ⟨{ pc := 7, out := q.elems.drop q.head ++ q.elems.take q.head ++ List.replicate q.size 0 }, ?_, by simp [obj, bodyPut]⟩
    show Exec _ _ (({ pc := 0 } : Loc), q) _
    refine Exec.step1 _ _ ({ pc := 1, out := q.elems.drop q.head ++ q.elems.take q.head ++ List.replicate q.size 0 }, q) (by simp [obj, bodyPut, hc]) ?_
    refine Exec.step1 _ _ ({ pc := 2, out := _ }, _) (by first | rfl | (simp only [obj, bodyPut]; rfl)) ?_
    refine Exec.step1 _ _ ({ pc := 3, out := _ }, _) (by first | rfl | (simp only [obj, bodyPut]; rfl)) ?_
    refine Exec.step1 _ _ ({ pc := 4, out := _ }, _) (by first | rfl | (simp only [obj, bodyPut]; rfl)) ?_
    refine Exec.step1 _ _ ({ pc := 5, out := _ }, _) (by first | rfl | (simp only [obj, bodyPut]; rfl)) ?_
    refine Exec.step1 _ _ ({ pc := 6, out := _ }, _) (by first | rfl | (simp only [obj, bodyPut]; rfl)) ?_
    refine Exec.one _ _ _ _ ?_
    simp [obj, bodyPut, Queue.put, Queue.grow, hc]
  · refine ⟨{ pc := 7 }, ?_, by simp [obj, bodyPut]⟩
    show Exec _ _ (({ pc := 0 } : Loc), q) _
    refine Exec.step1 _ _ ({ pc := 4 }, q) (by simp [obj, bodyPut, hc]) ?_
    refine Exec.step1 _ _ ({ pc := 5 }, _) (by first | rfl | (simp only [obj, bodyPut]; rfl)) ?_
    refine Exec.step1 _ _ ({ pc := 6 }, _) (by first | rfl | (simp only [obj, bodyPut]; rfl)) ?_
    refine Exec.one _ _ _ _ ?_
    simp [obj, bodyPut, Queue.put, Queue.grow, hc]

theorem solo_take (q : Queue) : Solo obj .take q { pc := 4, res := (q.take).1 } (q.take).2 := by
  refine ⟨?_, by simp [obj, bodyTake]⟩
  show Exec _ _ (({ pc := 0 } : Loc), q) _
  by_cases hc : q.count = 0
  · refine Exec.one _ _ _ _ ?_
    simp [obj, bodyTake, Queue.take, hc]
  · refine Exec.step1 _ _ ({ pc := 1 }, q) (by simp [obj, bodyTake, hc]) ?_
    refine Exec.step1 _ _ ({ pc := 2, res := some (q.elems.getD q.head 0) }, q) (by simp [obj, bodyTake]) ?_
    refine Exec.step1 _ _ ({ pc := 3, res := some (q.elems.getD q.head 0) }, _) (by first | rfl | (simp only [obj, bodyTake]; rfl)) ?_
    refine Exec.one _ _ _ _ ?_
    simp [obj, bodyTake, Queue.take, hc]

theorem solo_empty (q : Queue) : Solo obj .empty q { pc := 1, i := if q.count = 0 then 1 else 0 } q := by
  refine ⟨Exec.one _ _ _ _ ?_, by simp [obj, bodyEmpty]⟩
  simp [obj, bodyEmpty]

/-- **a body run alone = the sequential model** -/
theorem solo_is_seq (op : Op) (q : Queue) (res : Loc) (post : Queue) (h : Solo obj op q res post) :
    (post, visible op res) = seqStep q op := by
  cases op with
  | put x =>
    obtain ⟨l, hl⟩ := solo_put x q
    obtain ⟨_, b⟩ := Solo.unique _ _ _ hl h
    subst b; rfl
  | take =>
    obtain ⟨a, b⟩ := Solo.unique _ _ _ (solo_take q) h
    subst a b; rfl
  | empty =>
    obtain ⟨a, b⟩ := Solo.unique _ _ _ (solo_empty q) h
    rw [a, b]
    simp only [visible, seqStep, Queue.step, Queue.empty]
    by_cases hc : q.count = 0 <;> simp [hc]

end CQueue

/-! ## Ring -/
namespace CRing

theorem readsPure : ReadsPure obj := by
  intro op l m l' m' hr hb
  cases op with
  | add v => simp [obj] at hr
  | take =>
    simp only [obj, bodyTake] at hb
    split at hb
    · cases hb; rfl
    · split at hb <;> (cases hb; rfl)
    · cases hb

theorem solo_add (v : Nat) (r : Ring) : Solo obj (.add v) r { pc := 3 } (r.add v) := by
  refine ⟨?_, by simp [obj, bodyAdd]⟩
  show Exec _ _ (({ pc := 0 } : Loc), r) _
  refine Exec.step1 _ _ ({ pc := 1 }, _) (by first | rfl | (simp only [obj, bodyAdd]; rfl)) ?_
  refine Exec.step1 _ _ ({ pc := 2 }, _) (by first | rfl | (simp only [obj, bodyAdd]; rfl)) ?_
  refine Exec.one _ _ _ _ ?_
  by_cases hc : r.index + 1 ≥ 2 * r.elems.length
  · simp [obj, bodyAdd, Ring.add, hc]
  · simp [obj, bodyAdd, Ring.add, hc]

theorem loopT (r : Ring) (n : Nat) : ∀ (l : Loc), l.pc = 1 → l.i + n = r.sz →
    Exec obj .take (l, r) ({ l with i := r.sz, out := l.out ++ (List.range' l.i n).map fun i => r.elems.getD ((r.start + i) % r.elems.length) 0 }, r) := by
  induction n with
  | zero =>
    intro l hpc hi
    have : ({ l with i := r.sz, out := l.out ++ (List.range' l.i 0).map fun i => r.elems.getD ((r.start + i) % r.elems.length) 0 } : Loc) = l := by
      cases l; simp_all
    rw [this]; exact Exec.refl _
  | succ n ih =>
    intro l hpc hi
    have hlt : l.i < r.sz := by omega
    refine Exec.step1 _ _ ({ l with i := l.i + 1, out := l.out ++ [r.elems.getD ((r.start + l.i) % r.elems.length) 0] }, r)
      (by simp [obj, bodyTake, hpc, hlt]) ?_
    have := ih { l with i := l.i + 1, out := l.out ++ [r.elems.getD ((r.start + l.i) % r.elems.length) 0] } hpc (by simp; omega)
    simpa [List.range'_succ] using this

theorem solo_take (r : Ring) : Solo obj .take r { pc := 2, i := r.sz, out := r.take } r := by
  refine ⟨?_, by simp [obj, bodyTake]⟩
  show Exec _ _ (({ pc := 0 } : Loc), r) _
  refine Exec.step1 _ _ ({ pc := 1, i := 0, out := [] }, r) (by simp [obj, bodyTake]) ?_
  refine Exec.trans' _ _ (loopT r r.sz { pc := 1, i := 0, out := [] } rfl (by simp)) ?_
  refine Exec.one _ _ _ _ ?_
  simp [obj, bodyTake, Ring.take, List.range_eq_range']

def resultOK (r : Ring) (op : Op) (res : Loc) (post : Ring) : Prop :=
  match op with
  | .add v => post = r.add v
  | .take => post = r ∧ res.out = r.take

/-- **a body run alone = the sequential model** -/
theorem solo_is_seq (op : Op) (r : Ring) (res : Loc) (post : Ring) (h : Solo obj op r res post) :
    resultOK r op res post := by
  unfold resultOK
  cases op with
  | add v => exact (Solo.unique _ _ _ (solo_add v r) h).2
  | take =>
    obtain ⟨a, b⟩ := Solo.unique _ _ _ (solo_take r) h
    subst a; exact ⟨b, rfl⟩

end CRing
end GoZero.C16
