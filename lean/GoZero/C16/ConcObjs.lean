/-
C16 — the lock-protected structures as instances of `Conc.Obj`, bodies statement by statement (core Lean only).

  CMap   SafeMap   (sync.RWMutex: Get / Size / Range under RLock, Set / Del under Lock).  `Del` is modelled with its
                   migration spread over many steps (the copy loop element by element, then `dirtyOld = dirtyNew`,
                   `deletionOld = deletionNew`, `dirtyNew = make(..)`, `deletionNew = 0`: in between, both generations
                   hold the same keys), `Range` hands out one pair per step.
  CQueue Queue     (sync.Mutex: Put / Take / Empty under Lock)
  CRing  Ring      (sync.RWMutex: Add under Lock, Take under RLock; Take copies one element per step)
-/
import GoZero.C16.Model
import GoZero.C16.Conc
namespace GoZero.C16

/-- locals of a body: a statement counter, a loop worklist, an accumulator and a result register -/
structure Loc where
  pc   : Nat
  todo : AL := []
  acc  : AL := []
  res  : Option Nat := none
  out  : List Nat := []
  i    : Nat := 0
  deriving Repr, DecidableEq

namespace CMap

inductive Op
  | get (k : Nat) | set (k v : Nat) | del (k : Nat) | size | range
  deriving Repr, DecidableEq

def isRead : Op → Bool
  | .get _ => true | .size => true | .range => true | _ => false

def bodyGet (k : Nat) (l : Loc) (m : SafeMap) : Option (Loc × SafeMap) :=
  match l.pc with
  | 0 => match alookup m.old k with
    | some v => some ({ l with pc := 2, res := some v }, m)         -- if val, ok := m.dirtyOld[key]; ok { return val, true }
    | none => some ({ l with pc := 1 }, m)
  | 1 => some ({ l with pc := 2, res := alookup m.new k }, m)        -- val, ok := m.dirtyNew[key]; return val, ok
  | _ => none

def bodySize (l : Loc) (m : SafeMap) : Option (Loc × SafeMap) :=
  match l.pc with
  | 0 => some ({ l with pc := 1, res := some (m.old.length + m.new.length) }, m)
  | _ => none

def bodyRange (l : Loc) (m : SafeMap) : Option (Loc × SafeMap) :=
  match l.pc with
  | 0 => some ({ l with pc := 1, todo := m.old }, m)                 -- for k, v := range m.dirtyOld
  | 1 => match l.todo with
    | p :: r => some ({ l with todo := r, acc := l.acc ++ [p] }, m)  --   f(k, v)
    | [] => some ({ l with pc := 2, todo := m.new }, m)              -- for k, v := range m.dirtyNew
  | 2 => match l.todo with
    | p :: r => some ({ l with todo := r, acc := l.acc ++ [p] }, m)
    | [] => some ({ l with pc := 3 }, m)
  | _ => none

def bodySet (maxDel k v : Nat) (l : Loc) (m : SafeMap) : Option (Loc × SafeMap) :=
  match l.pc with
  | 0 => if m.delOld ≤ maxDel then some ({ l with pc := 1 }, m) else some ({ l with pc := 4 }, m)
  | 1 => if ahas m.new k then some ({ l with pc := 2 }, { m with new := aerase m.new k }) else some ({ l with pc := 3 }, m)
  | 2 => some ({ l with pc := 3 }, { m with delNew := m.delNew + 1 })
  | 3 => some ({ l with pc := 7 }, { m with old := ainsert m.old k v })
  | 4 => if ahas m.old k then some ({ l with pc := 5 }, { m with old := aerase m.old k }) else some ({ l with pc := 6 }, m)
  | 5 => some ({ l with pc := 6 }, { m with delOld := m.delOld + 1 })
  | 6 => some ({ l with pc := 7 }, { m with new := ainsert m.new k v })
  | _ => none

def bodyDel (maxDel thr k : Nat) (l : Loc) (m : SafeMap) : Option (Loc × SafeMap) :=
  match l.pc with
  | 0 => if ahas m.old k then some ({ l with pc := 1 }, { m with old := aerase m.old k })
         else if ahas m.new k then some ({ l with pc := 2 }, { m with new := aerase m.new k })
         else some ({ l with pc := 3 }, m)
  | 1 => some ({ l with pc := 3 }, { m with delOld := m.delOld + 1 })
  | 2 => some ({ l with pc := 3 }, { m with delNew := m.delNew + 1 })
  | 3 => if m.delOld ≥ maxDel ∧ m.old.length < thr then some ({ l with pc := 4, todo := m.old }, m)
         else some ({ l with pc := 9 }, m)
  | 4 => match l.todo with                                                        -- for k, v := range m.dirtyOld { m.dirtyNew[k] = v }
    | p :: r => some ({ l with todo := r }, { m with new := ainsert m.new p.1 p.2 })
    | [] => some ({ l with pc := 5 }, m)
  | 5 => some ({ l with pc := 6 }, { m with old := m.new })                        -- m.dirtyOld = m.dirtyNew   (both generations equal now)
  | 6 => some ({ l with pc := 7 }, { m with delOld := m.delNew })                  -- m.deletionOld = m.deletionNew
  | 7 => some ({ l with pc := 8 }, { m with new := [] })                           -- m.dirtyNew = make(map[any]any)
  | 8 => some ({ l with pc := 9 }, { m with delNew := 0 })                         -- m.deletionNew = 0
  | 9 => if m.delNew ≥ maxDel ∧ m.new.length < thr then some ({ l with pc := 10, todo := m.new }, m)
         else some ({ l with pc := 13 }, m)
  | 10 => match l.todo with                                                       -- for k, v := range m.dirtyNew { m.dirtyOld[k] = v }
    | p :: r => some ({ l with todo := r }, { m with old := ainsert m.old p.1 p.2 })
    | [] => some ({ l with pc := 11 }, m)
  | 11 => some ({ l with pc := 12 }, { m with new := [] })
  | 12 => some ({ l with pc := 13 }, { m with delNew := 0 })
  | _ => none

def obj (maxDel thr : Nat) : Conc.Obj SafeMap Loc Op :=
  { isRead := isRead
    start := fun _ => { pc := 0 }
    body := fun op l m => match op with
      | .get k => bodyGet k l m
      | .size => bodySize l m
      | .range => bodyRange l m
      | .set k v => bodySet maxDel k v l m
      | .del k => bodyDel maxDel thr k l m }

/-- the sequential model's effect and visible result of an operation -/
def seqPost (maxDel thr : Nat) (m : SafeMap) : Op → SafeMap
  | .set k v => m.set maxDel k v
  | .del k => m.del maxDel thr k
  | _ => m

end CMap

namespace CQueue

inductive Op
  | put (x : Nat) | take | empty
  deriving Repr, DecidableEq

def bodyPut (x : Nat) (l : Loc) (q : Queue) : Option (Loc × Queue) :=
  match l.pc with
  | 0 => if q.head = q.tail ∧ q.count > 0 then                       -- nodes := make(..); copy; copy
           some ({ l with pc := 1, out := q.elems.drop q.head ++ q.elems.take q.head ++ List.replicate q.size 0 }, q)
         else some ({ l with pc := 4 }, q)
  | 1 => some ({ l with pc := 2 }, { q with head := 0 })                -- q.head = 0
  | 2 => some ({ l with pc := 3 }, { q with tail := q.elems.length })   -- q.tail = len(q.elements)
  | 3 => some ({ l with pc := 4 }, { q with elems := l.out })           -- q.elements = nodes
  | 4 => some ({ l with pc := 5 }, { q with elems := q.elems.set q.tail x })
  | 5 => some ({ l with pc := 6 }, { q with tail := (q.tail + 1) % q.elems.length })
  | 6 => some ({ l with pc := 7 }, { q with count := q.count + 1 })
  | _ => none

def bodyTake (l : Loc) (q : Queue) : Option (Loc × Queue) :=
  match l.pc with
  | 0 => if q.count = 0 then some ({ l with pc := 4 }, q) else some ({ l with pc := 1 }, q)
  | 1 => some ({ l with pc := 2, res := some (q.elems.getD q.head 0) }, q)
  | 2 => some ({ l with pc := 3 }, { q with head := (q.head + 1) % q.elems.length })
  | 3 => some ({ l with pc := 4 }, { q with count := q.count - 1 })
  | _ => none

def bodyEmpty (l : Loc) (q : Queue) : Option (Loc × Queue) :=
  match l.pc with
  | 0 => some ({ l with pc := 1, i := if q.count = 0 then 1 else 0 }, q)
  | _ => none

/-- all three methods take the exclusive lock -/
def obj : Conc.Obj Queue Loc Op :=
  { isRead := fun _ => false
    start := fun _ => { pc := 0 }
    body := fun op l q => match op with
      | .put x => bodyPut x l q
      | .take => bodyTake l q
      | .empty => bodyEmpty l q }

end CQueue

namespace CRing

inductive Op
  | add (v : Nat) | take
  deriving Repr, DecidableEq

def bodyAdd (v : Nat) (l : Loc) (r : Ring) : Option (Loc × Ring) :=
  match l.pc with
  | 0 => some ({ l with pc := 1 }, { r with elems := r.elems.set (r.index % r.elems.length) v })
  | 1 => some ({ l with pc := 2 }, { r with index := r.index + 1 })
  | 2 => if r.index ≥ 2 * r.elems.length then some ({ l with pc := 3 }, { r with index := r.index - r.elems.length })
         else some ({ l with pc := 3 }, r)
  | _ => none

def bodyTake (l : Loc) (r : Ring) : Option (Loc × Ring) :=
  match l.pc with
  | 0 => some ({ l with pc := 1, i := 0, out := [] }, r)
  | 1 => if l.i < r.sz then                                          -- elements[i] = r.elements[(start+i)%rlen]
           some ({ l with i := l.i + 1, out := l.out ++ [r.elems.getD ((r.start + l.i) % r.elems.length) 0] }, r)
         else some ({ l with pc := 2 }, r)
  | _ => none

def obj : Conc.Obj Ring Loc Op :=
  { isRead := fun op => match op with | .take => true | _ => false
    start := fun _ => { pc := 0 }
    body := fun op l r => match op with
      | .add v => bodyAdd v l r
      | .take => bodyTake l r }

end CRing
end GoZero.C16
