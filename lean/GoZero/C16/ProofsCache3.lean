/-
C16 — abstract cache (timer table): every cached entry has exactly one pending timer and every pending timer
belongs to a cached entry; a tick expires exactly the entries whose timer is due.
-/
import GoZero.C12.SpecFacts
import GoZero.C16.ProofsCache2
namespace GoZero.C16

open GoZero.C12 (Op)
open GoZero.C12.Spec (Table Timer keys KeysNodup)

/-! ### key sets of the timer table under the wheel operations -/

theorem keys_remove (t : Table) (k k' : Nat) : k' ∈ keys (C12.Spec.remove t k) ↔ k' ∈ keys t ∧ k' ≠ k := by
  simp only [keys, C12.Spec.remove, List.mem_map, List.mem_filter, ne_eq, decide_eq_true_eq]
  constructor
  · rintro ⟨x, ⟨hx, hne⟩, rfl⟩; exact ⟨⟨x, hx, rfl⟩, hne⟩
  · rintro ⟨⟨x, hx, rfl⟩, hne⟩; exact ⟨x, ⟨hx, hne⟩, rfl⟩

theorem keys_set (t : Table) (k v s k' : Nat) : k' ∈ keys (C12.Spec.set t k v s) ↔ k' = k ∨ k' ∈ keys t := by
  unfold C12.Spec.set
  by_cases h : C12.Spec.hasKey t k = true
  · rw [if_pos h]
    have hk := (C12.Spec.hasKey_iff t k).1 h
    rw [C12.Spec.keys_map_same t _ (by intro x; split <;> rfl)]
    constructor
    · exact Or.inr
    · rintro (e | e)
      · exact e ▸ hk
      · exact e
  · rw [if_neg h]
    simp only [keys, List.map_append, List.map_cons, List.map_nil, List.mem_append, List.mem_singleton]
    constructor
    · rintro (e | e)
      · exact Or.inr e
      · exact Or.inl e
    · rintro (e | e)
      · exact Or.inr e
      · exact Or.inl e

theorem keys_tick (t : Table) (hnd : KeysNodup t) (k' : Nat) :
    k' ∈ keys (C12.Spec.tick t).1 ↔ k' ∈ keys t ∧ k' ∉ (C12.Spec.tick t).2.map (·.1) := by
  have e1 : keys (C12.Spec.tick t).1 = keys (t.filter (fun x => x.rem ≠ 1)) := by
    simp only [C12.Spec.tick]
    exact C12.Spec.keys_map_same _ _ (fun x => rfl)
  have e2 : (C12.Spec.tick t).2.map (·.1) = keys (t.filter (fun x => x.rem = 1)) := by
    simp [C12.Spec.tick, keys, List.map_map, Function.comp_def]
  rw [e1, e2]
  constructor
  · intro h
    obtain ⟨x, hx, rfl⟩ := List.mem_map.1 h
    have hx' := List.mem_filter.1 hx
    refine ⟨List.mem_map.2 ⟨x, hx'.1, rfl⟩, ?_⟩
    intro h2
    obtain ⟨z, hz, hzk⟩ := List.mem_map.1 h2
    have hz' := List.mem_filter.1 hz
    have := C12.Spec.unique_of_nodup t hnd z x hz'.1 hx'.1 hzk
    subst this
    have a1 := hx'.2
    have a2 := hz'.2
    simp only [ne_eq, decide_eq_true_eq] at a1 a2
    exact a1 a2
  · rintro ⟨h1, h2⟩
    obtain ⟨x, hx, rfl⟩ := List.mem_map.1 h1
    by_cases hr : x.rem = 1
    · exact absurd (List.mem_map.2 ⟨x, List.mem_filter.2 ⟨hx, by simp [hr]⟩, rfl⟩) h2
    · exact List.mem_map.2 ⟨x, List.mem_filter.2 ⟨hx, by simp [hr]⟩, rfl⟩

/-! ### the invariant -/

/-- one pending timer per cached entry, no timer without an entry -/
structure TInv (c : Spec.ACache) : Prop where
  nodup : KeysNodup c.timers
  same  : ∀ k, k ∈ keys c.timers ↔ k ∈ akeys c.data

abbrev sstep : TStep Table := C12.Spec.step

theorem del_timers (c : Spec.ACache) (k : Nat) :
    KeysNodup c.timers → KeysNodup (CacheG.del sstep c k).timers
      ∧ ∀ k', k' ∈ keys (CacheG.del sstep c k).timers ↔ k' ∈ keys c.timers ∧ k' ≠ k := by
  intro hnd
  simp only [CacheG.del, CacheG.lruRemove, CacheG.onEvict]
  split
  · exact ⟨C12.Spec.step_keys_nodup _ hnd _, fun k' => keys_remove _ _ _⟩
  · split
    · refine ⟨C12.Spec.step_keys_nodup _ (C12.Spec.step_keys_nodup _ hnd _) _, fun k' => ?_⟩
      show k' ∈ keys (C12.Spec.remove (C12.Spec.remove c.timers k) k) ↔ _
      rw [keys_remove, keys_remove]
      constructor
      · rintro ⟨h, _⟩; exact h
      · intro h; exact ⟨h, h.2⟩
    · exact ⟨C12.Spec.step_keys_nodup _ hnd _, fun k' => keys_remove _ _ _⟩

theorem tinv_del (c : Spec.ACache) (k : Nat) (h : TInv c) : TInv (CacheG.del sstep c k) := by
  obtain ⟨h1, h2⟩ := del_timers c k h.nodup
  refine ⟨h1, fun k' => ?_⟩
  rw [h2, del_data, mem_akeys_aerase, h.same]

theorem tinv_expire (fired : List (Nat × Nat)) : ∀ (c : Spec.ACache), TInv c → TInv (CacheG.expire sstep c fired) := by
  induction fired with
  | nil => intro c h; exact h
  | cons kv rest ih => intro c h; simp only [CacheG.expire, List.foldl_cons]; exact ih _ (tinv_del c kv.1 h)

/-- data and timers after the expiry callbacks, from a state where the fired timers have already left the table -/
theorem expire_after_tick (fired : List (Nat × Nat)) : ∀ (c : Spec.ACache), KeysNodup c.timers →
    KeysNodup (CacheG.expire sstep c fired).timers
    ∧ (∀ k', k' ∈ keys (CacheG.expire sstep c fired).timers ↔ k' ∈ keys c.timers ∧ k' ∉ fired.map (·.1))
    ∧ (∀ k', k' ∈ akeys (CacheG.expire sstep c fired).data ↔ k' ∈ akeys c.data ∧ k' ∉ fired.map (·.1)) := by
  induction fired with
  | nil => intro c h; simp [CacheG.expire, h]
  | cons kv rest ih =>
    intro c h
    obtain ⟨d1, d2⟩ := del_timers c kv.1 h
    obtain ⟨i1, i2, i3⟩ := ih (CacheG.del sstep c kv.1) d1
    simp only [CacheG.expire, List.foldl_cons] at i1 i2 i3 ⊢
    refine ⟨i1, fun k' => ?_, fun k' => ?_⟩
    · rw [i2, d2]
      simp only [List.map_cons, List.mem_cons, not_or]
      constructor
      · rintro ⟨⟨a, b⟩, c'⟩; exact ⟨a, b, c'⟩
      · rintro ⟨a, b, c'⟩; exact ⟨⟨a, b⟩, c'⟩
    · rw [i3, del_data, mem_akeys_aerase]
      simp only [List.map_cons, List.mem_cons, not_or]
      constructor
      · rintro ⟨⟨a, b⟩, c'⟩; exact ⟨a, b, c'⟩
      · rintro ⟨a, b, c'⟩; exact ⟨⟨a, b⟩, c'⟩

theorem tinv_tick (c : Spec.ACache) (h : TInv c) : TInv (CacheG.tick sstep c).1 := by
  unfold CacheG.tick
  have hnd1 : KeysNodup (sstep c.timers Op.tick).1 := C12.Spec.step_keys_nodup _ h.nodup _
  obtain ⟨e1, e2, e3⟩ := expire_after_tick (sstep c.timers Op.tick).2 { c with timers := (sstep c.timers Op.tick).1 } hnd1
  refine ⟨e1, fun k' => ?_⟩
  rw [e2, e3]
  show k' ∈ keys (C12.Spec.tick c.timers).1 ∧ _ ↔ _
  rw [keys_tick c.timers h.nodup k', h.same k']
  constructor
  · rintro ⟨⟨a, _⟩, b⟩; exact ⟨a, b⟩
  · rintro ⟨a, b⟩; exact ⟨⟨a, b⟩, b⟩

theorem tinv_set (c : Spec.ACache) (k v t : Nat) (hi : c.Inv) (h : TInv c) : TInv (CacheG.set sstep c k v t).1 := by
  unfold CacheG.set
  dsimp only
  rw [table_no_immediate_fire]
  simp only [CacheG.expire, List.foldl_nil]
  obtain ⟨_, _, h3⟩ := lruAdd_after_insert sstep c k v hi
  have hts : ∀ (c' : Spec.ACache), KeysNodup c'.timers → KeysNodup (sstep c'.timers (Op.set k v t)).1 :=
    fun c' hn => C12.Spec.step_keys_nodup _ hn _
  have hkeys : ∀ (tb : Table) k', k' ∈ keys (sstep tb (Op.set k v t)).1 ↔ k' = k ∨ k' ∈ keys tb := by
    intro tb k'
    show k' ∈ keys (C12.Spec.set tb k v _) ↔ _
    exact keys_set tb k v _ k'
  have hl : (CacheG.lruAdd sstep { c with data := ainsert c.data k v } k).1.timers = c.timers
      ∧ (CacheG.lruAdd sstep { c with data := ainsert c.data k v } k).1.data = ainsert c.data k v
      ∨ ∃ old, old ≠ k ∧ (CacheG.lruAdd sstep { c with data := ainsert c.data k v } k).1.timers = C12.Spec.remove c.timers old
          ∧ (CacheG.lruAdd sstep { c with data := ainsert c.data k v } k).1.data = aerase (ainsert c.data k v) old := by
    rcases h3 with ⟨_, e2, e3⟩ | ⟨old, _, e2, _, hne, _, _, e3⟩
    · exact Or.inl ⟨e3, e2⟩
    · exact Or.inr ⟨old, hne, e3, e2⟩
  rcases hl with ⟨t1, d1⟩ | ⟨old, hne, t1, d1⟩
  · refine ⟨?_, fun k' => ?_⟩
    · show KeysNodup (sstep _ _).1
      rw [t1]; exact C12.Spec.step_keys_nodup _ h.nodup _
    · show k' ∈ keys (sstep _ _).1 ↔ k' ∈ akeys (CacheG.lruAdd sstep _ k).1.data
      rw [t1, d1, hkeys, mem_akeys_ainsert, h.same]
  · refine ⟨?_, fun k' => ?_⟩
    · show KeysNodup (sstep _ _).1
      rw [t1]
      exact C12.Spec.step_keys_nodup _ (C12.Spec.step_keys_nodup _ h.nodup (Op.remove old)) _
    · show k' ∈ keys (sstep _ _).1 ↔ k' ∈ akeys (CacheG.lruAdd sstep _ k).1.data
      rw [t1, d1, hkeys, keys_remove, mem_akeys_aerase, mem_akeys_ainsert, h.same]
      constructor
      · rintro (e | ⟨a, b⟩)
        · exact ⟨Or.inl e, by rw [e]; exact fun x => hne x.symm⟩
        · exact ⟨Or.inr a, b⟩
      · rintro ⟨e | a, b⟩
        · exact Or.inl e
        · exact Or.inr ⟨a, b⟩

theorem tinv_lruAdd_hit (c : Spec.ACache) (k : Nat) (hi : c.Inv) (hk : k ∈ akeys c.data) (h : TInv c) :
    TInv (CacheG.lruAdd sstep c k).1 := by
  have hd := (lruAdd_hit sstep c k hi hk).2.2.2
  have ht : (CacheG.lruAdd sstep c k).1.timers = c.timers := by
    unfold CacheG.lruAdd
    split
    · rfl
    · split
      · rfl
      · rename_i h0 h1
        have hl : 0 < c.limit := by omega
        exact absurd ((hi.sameKeys hl k).2 hk) h1
  exact ⟨by rw [ht]; exact h.nodup, fun k' => by rw [ht, hd]; exact h.same k'⟩

theorem tinv_step (c : Spec.ACache) (op : COp) (hi : c.Inv) (h : TInv c) : TInv (CacheG.step sstep c op).1 := by
  cases op with
  | set k v t => exact tinv_set c k v t hi h
  | get k =>
    simp only [CacheG.step, CacheG.get]
    split
    · rename_i v hv; exact tinv_lruAdd_hit c k hi (mem_akeys_of_lookup _ _ _ hv) h
    · exact h
  | del k => exact tinv_del c k h
  | take k v f t =>
    simp only [CacheG.step, CacheG.take]
    split
    · rename_i x hx; exact tinv_lruAdd_hit c k hi (mem_akeys_of_lookup _ _ _ hx) h
    · split
      · exact h
      · exact tinv_set c k v t hi h
  | tick => exact tinv_tick c h

theorem tinv_after (ops : List COp) : ∀ (c : Spec.ACache), c.Inv → TInv c → TInv (CacheG.after sstep c ops) := by
  induction ops with
  | nil => intro c _ h; exact h
  | cons op ops ih =>
    intro c hi h
    have := ih _ (inv_step sstep c op hi).1 (tinv_step c op hi h)
    simpa [CacheG.after] using this

/-- a tick expires exactly the entries whose timer has one tick left, and they leave the cache -/
theorem tick_expires_due (c : Spec.ACache) (h : TInv c) (k : Nat) :
    (k ∈ (CacheG.tick sstep c).2.expired ↔ ∃ v, (⟨k, v, 1⟩ : Timer) ∈ c.timers)
    ∧ (k ∈ (CacheG.tick sstep c).2.expired → alookup (CacheG.tick sstep c).1.data k = none) := by
  constructor
  · simp only [CacheG.tick, List.mem_map]
    show (∃ a, a ∈ (C12.Spec.tick c.timers).2 ∧ a.1 = k) ↔ _
    simp only [C12.Spec.tick, List.mem_map, List.mem_filter, decide_eq_true_eq]
    constructor
    · rintro ⟨a, ⟨x, ⟨hx, hr⟩, rfl⟩, rfl⟩
      exact ⟨x.value, by cases x; simp_all⟩
    · rintro ⟨v, hv⟩
      exact ⟨(k, v), ⟨⟨k, v, 1⟩, ⟨hv, rfl⟩, rfl⟩, rfl⟩
  · intro hk
    unfold CacheG.tick at hk ⊢
    dsimp only at hk ⊢
    rw [expire_lookup]
    simp only [hk, if_true]

end GoZero.C16
