/-
C16 — abstract specifications (the "sequential reference models" of the property, read literally).
  FIFO         : a list; put appends, take removes the head
  last-n       : the last n elements of the history, in order
  set          : a membership function updated pointwise
  map          : a function Nat → Option Nat updated pointwise
Executable monitors for the driver use the same definitions (maps/sets as association lists whose
lookup is proven to be the pointwise-updated function, see `Proofs.lean`).
-/
import GoZero.C16.Model
namespace GoZero.C16.Spec

/-! ### FIFO -/

abbrev Fifo := List Nat

def Fifo.step (s : Fifo) : QOp → Fifo × QOut
  | .put x => (s ++ [x], .unit)
  | .take => (s.tail, .val s.head?)
  | .empty => (s, .bool s.isEmpty)

def Fifo.run (s : Fifo) : List QOp → List QOut
  | [] => []
  | op :: ops => (Fifo.step s op).2 :: Fifo.run (Fifo.step s op).1 ops

/-! ### last n -/

def lastN (n : Nat) (l : List Nat) : List Nat := l.drop (l.length - n)

/-! ### mathematical set: membership after a history of add/remove -/

def setMem : List SetOp → (Nat × Nat) → Bool
  | [], _ => false
  | .add x :: ops, y => if setMem ops y then true else decide (y = x)
  | .remove x :: ops, y => if y = x then false else setMem ops y

/-- membership after executing `ops` in order (the list is the history, oldest first) -/
def setMemAfter (ops : List SetOp) (y : Nat × Nat) : Bool := setMem ops.reverse y

/-! ### map: value of a key after a history of set/del (newest operation first in `mapGet`) -/

def mapGet : List MapOp → Nat → Option Nat
  | [], _ => none
  | .set k v :: ops, k' => if k' = k then some v else mapGet ops k'
  | .del k :: ops, k' => if k' = k then none else mapGet ops k'

def mapGetAfter (ops : List MapOp) (k : Nat) : Option Nat := mapGet ops.reverse k

/-- executable map monitor: one association list -/
def alStep (s : AL) : MapOp → AL
  | .set k v => ainsert s k v
  | .del k => aerase s k

end GoZero.C16.Spec
