/-
C16 — the recency list really is "ordered by last use": a ghost clock stamps every use of a key; in every
reachable state the list is strictly decreasing in the stamps, so the evicted key (the last one) is the
least recently used of all cached keys.
-/
import GoZero.C16.ProofsCache2
namespace GoZero.C16

section
variable {T : Type} (ts : TStep T)

/-- the key an operation *uses* (reads successfully or writes), if any -/
def usedKey (c : CacheG T) : COp → Option Nat
  | .set k _ _ => some k
  | .get k => if (alookup c.data k).isSome then some k else none
  | .take k _ fails _ => if (alookup c.data k).isSome then some k else if fails then none else some k
  | .del _ => none
  | .tick => none

/-- cache + ghost: stamp of the last use of every key, and the ghost clock -/
structure Ghost (T : Type) where
  c     : CacheG T
  stamp : Nat → Nat
  clock : Nat

def Ghost.step (g : Ghost T) (op : COp) : Ghost T :=
  match usedKey g.c op with
  | some k => { c := (CacheG.step ts g.c op).1, stamp := fun x => if x = k then g.clock + 1 else g.stamp x, clock := g.clock + 1 }
  | none => { g with c := (CacheG.step ts g.c op).1 }

def Ghost.run (g : Ghost T) (ops : List COp) : Ghost T := ops.foldl (Ghost.step ts) g

theorem Ghost.run_c (ops : List COp) : ∀ (g : Ghost T), (Ghost.run ts g ops).c = CacheG.after ts g.c ops := by
  induction ops with
  | nil => intro g; rfl
  | cons op ops ih =>
    intro g
    simp only [Ghost.run, List.foldl_cons, CacheG.after] at ih ⊢
    rw [ih]
    congr 1
    unfold Ghost.step
    split <;> rfl

/-! ### how the recency list changes -/

theorem expire_lru_sublist (fired : List (Nat × Nat)) : ∀ (c : CacheG T), (CacheG.expire ts c fired).lru.Sublist c.lru := by
  induction fired with
  | nil => intro c; exact List.Sublist.refl _
  | cons kv rest ih =>
    intro c
    simp only [CacheG.expire, List.foldl_cons] at ih ⊢
    refine (ih _).trans ?_
    rw [del_lru]
    split
    · exact List.Sublist.refl _
    · exact List.filter_sublist

/-- `keyLru.add(k)` puts `k` in front of a sub-list of the old list that does not contain `k` -/
theorem lruAdd_shape (c : CacheG T) (k : Nat) (hl : 0 < c.limit) :
    ∃ rest, (CacheG.lruAdd ts c k).1.lru = k :: rest ∧ rest.Sublist c.lru ∧ (k ∉ c.lru → k ∉ rest)
      ∧ (k ∈ c.lru → rest = c.lru.filter (· ≠ k)) := by
  have h0 : ¬ c.limit = 0 := by omega
  unfold CacheG.lruAdd
  rw [if_neg h0]
  by_cases hm : k ∈ c.lru
  · rw [if_pos hm]
    exact ⟨_, rfl, List.filter_sublist, fun h => absurd hm h, fun _ => rfl⟩
  · rw [if_neg hm]
    by_cases hov : (k :: c.lru).length > c.limit
    · rw [if_pos hov]
      have hne : c.lru ≠ [] := by
        intro e; rw [e] at hov; simp only [List.length_cons, List.length_nil] at hov; omega
      obtain ⟨ys, old, hys⟩ : ∃ ys old, c.lru = ys ++ [old] := ⟨_, _, (List.dropLast_concat_getLast hne).symm⟩
      have hlast : (k :: c.lru).getLast? = some old := by
        rw [hys]; exact List.getLast?_eq_some_iff.2 ⟨k :: ys, rfl⟩
      have hdrop : (k :: c.lru).dropLast = k :: ys := by
        rw [hys, ← List.cons_append, List.dropLast_concat]
      rw [hlast]
      dsimp only
      rw [onEvict_lru, hdrop]
      refine ⟨ys, rfl, ?_, fun _ h => hm (by rw [hys]; exact List.mem_append_left _ h), fun h => absurd h hm⟩
      rw [hys]; exact List.sublist_append_left _ _
    · rw [if_neg hov]
      exact ⟨c.lru, rfl, List.Sublist.refl _, fun h => h, fun h => absurd h hm⟩

/-- the list after an operation: a sub-list of the old list if the operation uses no key, else a sub-list of
(used key :: sub-list of the old list without that key) -/
theorem step_lru (c : CacheG T) (op : COp) (hl : 0 < c.limit) :
    match usedKey c op with
    | none => (CacheG.step ts c op).1.lru.Sublist c.lru
    | some k => ∃ rest, (CacheG.step ts c op).1.lru.Sublist (k :: rest) ∧ rest.Sublist c.lru ∧ k ∉ rest := by
  have hset : ∀ k v t, ∃ rest, (CacheG.set ts c k v t).1.lru.Sublist (k :: rest) ∧ rest.Sublist c.lru ∧ k ∉ rest := by
    intro k v t
    obtain ⟨rest, e1, e2, e3, e4⟩ := lruAdd_shape ts { c with data := ainsert c.data k v } k hl
    refine ⟨rest, ?_, e2, ?_⟩
    · unfold CacheG.set
      dsimp only
      refine (expire_lru_sublist ts _ _).trans ?_
      show (CacheG.lruAdd ts { c with data := ainsert c.data k v } k).1.lru.Sublist _
      rw [e1]
      exact List.Sublist.refl _
    · by_cases hm : k ∈ c.lru
      · rw [e4 hm]; simp
      · exact e3 hm
  have hhit : ∀ k, ∃ rest, (CacheG.lruAdd ts c k).1.lru.Sublist (k :: rest) ∧ rest.Sublist c.lru ∧ k ∉ rest := by
    intro k
    obtain ⟨rest, e1, e2, e3, e4⟩ := lruAdd_shape ts c k hl
    refine ⟨rest, by rw [e1]; exact List.Sublist.refl _, e2, ?_⟩
    by_cases hm : k ∈ c.lru
    · rw [e4 hm]; simp
    · exact e3 hm
  cases op with
  | set k v t => exact hset k v t
  | get k =>
    simp only [CacheG.step, CacheG.get, usedKey]
    cases hv : alookup c.data k with
    | none => exact List.Sublist.refl _
    | some x => exact hhit k
  | del k =>
    simp only [CacheG.step, usedKey]
    rw [del_lru]
    split
    · exact List.Sublist.refl _
    · exact List.filter_sublist
  | take k v f t =>
    simp only [CacheG.step, CacheG.take, usedKey]
    cases hv : alookup c.data k with
    | some x => exact hhit k
    | none =>
      cases f with
      | true => exact List.Sublist.refl _
      | false => exact hset k v t
  | tick =>
    simp only [CacheG.step, CacheG.tick, usedKey]
    exact expire_lru_sublist ts _ _

/-! ### the invariant: strictly decreasing stamps along the list -/

structure Ghost.Inv (g : Ghost T) : Prop where
  le     : ∀ k, g.stamp k ≤ g.clock
  sorted : 0 < g.c.limit → g.c.lru.Pairwise (fun a b => g.stamp a > g.stamp b)

theorem Ghost.inv_step (g : Ghost T) (op : COp) (hc : g.c.Inv) (h : g.Inv) : (Ghost.step ts g op).Inv := by
  have hlim := (_root_.GoZero.C16.inv_step ts g.c op hc).2
  have hstep := fun hl => step_lru ts g.c op hl
  unfold Ghost.step
  cases hu : usedKey g.c op with
  | none =>
    dsimp only
    refine ⟨h.le, fun hl => ?_⟩
    rw [hlim] at hl
    have hs := hstep hl
    rw [hu] at hs
    exact (h.sorted hl).sublist hs
  | some k =>
    dsimp only
    refine ⟨fun x => ?_, fun hl => ?_⟩
    · have := h.le x
      dsimp only
      split <;> omega
    · rw [hlim] at hl
      have hs := hstep hl
      rw [hu] at hs
      obtain ⟨rest, hs, hr, hnot⟩ := hs
      refine List.Pairwise.sublist hs ?_
      rw [List.pairwise_cons]
      constructor
      · intro b hb
        have hbk : b ≠ k := fun e => hnot (e ▸ hb)
        simp only [if_true, hbk, if_false]
        have := h.le b
        omega
      · have hp := (h.sorted hl).sublist hr
        refine hp.imp_of_mem ?_
        intro a b ha hb hab
        have hak : a ≠ k := fun e => hnot (e ▸ ha)
        have hbk : b ≠ k := fun e => hnot (e ▸ hb)
        simp only [hak, hbk, if_false]
        exact hab

theorem Ghost.inv_run (ops : List COp) : ∀ (g : Ghost T), g.c.Inv → g.Inv →
    (Ghost.run ts g ops).Inv ∧ (Ghost.run ts g ops).c.Inv := by
  induction ops with
  | nil => intro g hc h; exact ⟨h, hc⟩
  | cons op ops ih =>
    intro g hc h
    have h1 := Ghost.inv_step ts g op hc h
    have h2 : (Ghost.step ts g op).c.Inv := by
      have := (_root_.GoZero.C16.inv_step ts g.c op hc).1
      unfold Ghost.step
      split <;> exact this
    have := ih _ h2 h1
    simpa [Ghost.run] using this

end
end GoZero.C16
