/-
C16 — round 5 property theorems: the clauses of the property stated THROUGH the public entry points
(constructors with their panics, option loops, callbacks that stop, loaders that fail in every way),
quantified over the whole configuration space of the API.  Models: ModelApi.lean.
-/
import GoZero.C16.Props
import GoZero.C16.ModelApi
namespace GoZero.C16

/-! ## Ring: every constructor argument -/

/-- **`NewRing(n)` for every `n : Int`.**  Either the constructor panics (exactly when `n < 1`) or the ring it returns
keeps the last `n` elements in order after any sequence of `Add`s. -/
theorem ring_api_keeps_last_n (n : Int) (vs : List Nat) :
    (n < 1 ∧ Ring.newApi n = none)
    ∨ (1 ≤ n ∧ ∃ r, Ring.newApi n = some r ∧ (r.run vs).take = vs.drop (vs.length - n.toNat)) := by
  by_cases h : n < 1
  · exact Or.inl ⟨h, by simp [Ring.newApi, h]⟩
  · refine Or.inr ⟨by omega, Ring.new n.toNat, by simp [Ring.newApi, h], ?_⟩
    exact ring_keeps_last_n_in_order n.toNat (by omega) vs

example : Ring.newApi 0 = none ∧ Ring.newApi (-3) = none ∧ (Ring.newApi 2).isSome = true := by decide

/-! ## RollingWindow: every size, every option list -/

theorem rwopts_fold (opts : List RWOpt) (w : RW) :
    opts.foldl RWOpt.apply w = if opts.isEmpty then w else { w with ignoreCurrent := true } := by
  induction opts generalizing w with
  | nil => rfl
  | cons o r ih =>
    cases o
    rw [List.foldl_cons, ih]
    cases r <;> simp [RWOpt.apply]

/-- the option loop of `NewRollingWindow`: any number ≥ 1 of `IgnoreCurrentBucket()` options sets the flag, none
leaves it false; `size < 1` panics before anything is built -/
theorem rw_newApi_eq (size : Int) (interval : Nat) (opts : List RWOpt) (t0 : Nat) :
    RW.newApi size interval opts t0
      = if size < 1 then none else some (RW.new size.toNat interval (!opts.isEmpty) t0) := by
  unfold RW.newApi
  split
  · rfl
  · rw [rwopts_fold]
    cases opts <;> simp [RW.new]

/-- **Clause "Reduce visits exactly the values added during the last `size` intervals, excluding the current one when
so configured" through the constructor, for every `size : Int`, every interval ≥ 1 and every option list.** -/
theorem rw_api_reduce_visits_last_intervals (size : Int) (interval : Nat) (hi : 1 ≤ interval) (opts : List RWOpt) (t0 : Nat)
    (evs : List (Nat × Nat)) (hmono : List.Pairwise (· ≤ ·) (t0 :: evs.map (·.1)))
    (now : Nat) (hnow : ∀ t, t ∈ t0 :: evs.map (·.1) → t ≤ now) :
    (size < 1 ∧ RW.newApi size interval opts t0 = none)
    ∨ (1 ≤ size ∧ ∃ w, RW.newApi size interval opts t0 = some w
        ∧ ((w.run evs).reduce now).flatten
            = (Spec.lastIntervals size.toNat (!opts.isEmpty) t0 interval evs now).flatten) := by
  by_cases h : size < 1
  · exact Or.inl ⟨h, by simp [rw_newApi_eq, h]⟩
  · refine Or.inr ⟨by omega, RW.new size.toNat interval (!opts.isEmpty) t0, by simp [rw_newApi_eq, h], ?_⟩
    exact rw_reduce_visits_last_intervals size.toNat interval (by omega) hi _ t0 evs hmono now hnow

example : RW.newApi 0 10 [.ignoreCurrent] 5 = none
    ∧ (RW.newApi 3 10 [.ignoreCurrent, .ignoreCurrent] 5).map (·.ignoreCurrent) = some true
    ∧ (RW.newApi 3 10 [] 5).map (·.ignoreCurrent) = some false := by decide

/-! ## Cache: every option list -/

theorem cacheCfg_append (opts : List CacheOpt) (o : CacheOpt) : cacheCfg (opts ++ [o]) = CacheOpt.apply (cacheCfg opts) o := by
  simp [cacheCfg, List.foldl_append]

/-- the limit `NewCache(expire, opts...)` ends up with, option by option: a positive `WithLimit` replaces the keyLru,
a non-positive one and `WithName` leave it -/
theorem effLimit_snoc (opts : List CacheOpt) (o : CacheOpt) :
    effLimit (opts ++ [o]) = (o.posLimit).getD (effLimit opts) := by
  unfold effLimit
  rw [cacheCfg_append]
  cases o with
  | withLimit l => by_cases h : l > 0 <;> simp [CacheOpt.apply, CacheOpt.posLimit, h]
  | withName n => simp [CacheOpt.apply, CacheOpt.posLimit]

theorem fold_limit_zero (opts : List CacheOpt) (c : CacheCfg) :
    (opts.foldl CacheOpt.apply c).limit = 0 ↔ c.limit = 0 ∧ ∀ o ∈ opts, o.posLimit = none := by
  induction opts generalizing c with
  | nil => simp
  | cons o r ih =>
    rw [List.foldl_cons, ih]
    cases o with
    | withName n => simp [CacheOpt.apply, CacheOpt.posLimit]
    | withLimit l =>
      by_cases h : l > 0
      · have : l.toNat ≠ 0 := by omega
        simp [CacheOpt.apply, CacheOpt.posLimit, h, this]
      · simp [CacheOpt.apply, CacheOpt.posLimit, h]

/-- the cache is unbounded exactly when no option carries a positive limit -/
theorem effLimit_zero_iff (opts : List CacheOpt) : effLimit opts = 0 ↔ ∀ o ∈ opts, o.posLimit = none := by
  unfold effLimit cacheCfg
  rw [fold_limit_zero]
  simp

theorem cache_newApi_eq (opts : List CacheOpt) (slots : Nat) :
    Cache.newApi opts slots = { limit := effLimit opts, data := [], lru := [], timers := C12.TW.init slots } := rfl

/-- **Clause "never holds more than its limit", for every option list** (several `WithLimit`s, non-positive ones,
`WithName` in between): if some option carries a positive limit, the cache built by `NewCache(expire, opts...)` never
holds more entries than the LAST such limit (`effLimit_snoc`), after any history. -/
theorem cache_api_size_le_limit (opts : List CacheOpt) (slots : Nat) (hl : 0 < effLimit opts) (ops : List COp) :
    (CacheG.after C12.step (Cache.newApi opts slots) ops).data.length ≤ effLimit opts := by
  rw [cache_newApi_eq]
  exact cache_size_le_limit C12.step (effLimit opts) hl (C12.TW.init slots) ops

/-- **Clause "returns the latest value set unless deleted / expired / evicted", for every option list.** -/
theorem cache_api_get_is_latest_alive (opts : List CacheOpt) (slots : Nat) (ops : List COp) (k : Nat) :
    (CacheG.get C12.step (CacheG.after C12.step (Cache.newApi opts slots) ops) k).2.result
      = Spec.latestAlive k none ops (CacheG.run C12.step (Cache.newApi opts slots) ops) :=
  cache_code_get_is_latest_alive (effLimit opts) slots ops k

/-- `WithLimit(3), WithName, WithLimit(0)`: the zero limit does NOT remove the keyLru of 3;
`WithLimit(2), WithLimit(5)`: the later one wins; only non-positive limits: unbounded -/
example : effLimit [.withLimit 3, .withName 7, .withLimit 0] = 3 ∧ effLimit [.withLimit 2, .withLimit 5] = 5
    ∧ effLimit [.withLimit 0, .withLimit (-4)] = 0 ∧ effLimit [] = 0
    ∧ effName 99 [.withName 0] = 99 ∧ effName 99 [.withName 4, .withLimit 1] = 4 := by decide

/-! ## SafeMap.Range with a callback that stops -/

theorem rangeLoop_zero (l : AL) (seen : Nat) : rangeLoop 0 l seen = (l, false) := by
  induction l generalizing seen with
  | nil => rfl
  | cons p r ih => simp [rangeLoop, ih]

theorem rangeLoop_spec (stop : Nat) (l : AL) (seen : Nat) (h : seen < stop) :
    (rangeLoop stop l seen).1 = l.take (stop - seen) ∧ ((rangeLoop stop l seen).2 = true ↔ stop - seen ≤ l.length) := by
  induction l generalizing seen with
  | nil =>
    simp only [rangeLoop, List.take_nil, List.length_nil, true_and]
    constructor
    · intro h'; cases h'
    · intro h'; omega
  | cons p r ih =>
    unfold rangeLoop
    by_cases he : seen + 1 = stop
    · have : stop - seen = 1 := by omega
      simp [he, this]
    · have h2 : seen + 1 < stop := by omega
      obtain ⟨i1, i2⟩ := ih (seen + 1) h2
      have e : stop - seen = (stop - (seen + 1)) + 1 := by omega
      simp only [he, if_false]
      rw [i1, e, List.take_succ_cons]
      refine ⟨rfl, ?_⟩
      rw [i2]
      simp only [List.length_cons]
      omega

/-- `Range(f)` hands `f` the first `stop` pairs of the enumeration dirtyOld ++ dirtyNew when `f` answers false at its
`stop`-th call: in particular a stop inside the first generation also skips the second one -/
theorem SafeMap.rangeUntil_eq (m : SafeMap) (stop : Nat) :
    m.rangeUntil stop = if stop = 0 then m.range else m.range.take stop := by
  unfold SafeMap.rangeUntil SafeMap.range
  by_cases h0 : stop = 0
  · subst h0
    simp [rangeLoop_zero]
  · simp only [h0, if_false]
    obtain ⟨a1, a2⟩ := rangeLoop_spec stop m.old 0 (by omega)
    simp only [Nat.sub_zero] at a1 a2
    by_cases hs : stop ≤ m.old.length
    · rw [if_pos (a2.2 hs), a1, List.take_append_of_le_length hs]
    · have hn : ¬ (rangeLoop stop m.old 0).2 = true := fun h => hs (a2.1 h)
      rw [if_neg hn, a1]
      have hlen : (m.old.take stop).length = m.old.length := by
        rw [List.length_take]; omega
      rw [hlen]
      obtain ⟨b1, _⟩ := rangeLoop_spec stop m.new m.old.length (by omega)
      rw [b1, List.take_append, List.take_of_length_le (by omega)]

/-- **Clause "SafeMap behaves as a map", for `Range` with a callback that stops** (every threshold pair, every history,
every stop position): `f` is called exactly `min stop size` times (`size` times when it never says stop), never twice
with the same key, and only with pairs of the map (`Get k = v`).  A `Range` that went on into the second generation
after `f` had answered false in the first would break the first conjunct. -/
theorem safemap_range_stops (maxDel copyThr : Nat) (ops : List MapOp) (stop : Nat) :
    let m := SafeMap.init.run maxDel copyThr ops
    (m.rangeUntil stop).length = (if stop = 0 then m.size else min stop m.size)
    ∧ (akeys (m.rangeUntil stop)).Nodup
    ∧ ∀ k v, (k, v) ∈ m.rangeUntil stop → Spec.mapGetAfter ops k = some v := by
  intro m
  obtain ⟨hn, hmem, hsz⟩ := safemap_range_size maxDel copyThr ops
  rw [SafeMap.rangeUntil_eq]
  by_cases h0 : stop = 0
  · simp only [h0, if_true]
    exact ⟨hsz.symm, hn, fun k v h => (hmem k v).1 h⟩
  · simp only [h0, if_false]
    refine ⟨by rw [List.length_take, hsz], ?_, fun k v h => (hmem k v).1 (List.mem_of_mem_take h)⟩
    unfold akeys
    rw [List.map_take]
    exact List.Sublist.nodup (List.take_sublist _ _) hn

/-- thresholds 2/2: after the history below both generations are non-empty (old = [(5,50)], new = [(4,41)]);
stopping at the first call visits one pair — of the OLD generation — and not the new one -/
example : (SafeMap.init.run 2 2 [.set 1 10, .set 2 20, .set 3 30, .set 4 40, .set 5 50, .del 1, .del 2, .del 3, .set 4 41]).rangeUntil 1 = [(5, 50)]
    ∧ (SafeMap.init.run 2 2 [.set 1 10, .set 2 20, .set 3 30, .set 4 40, .set 5 50, .del 1, .del 2, .del 3, .set 4 41]).rangeUntil 2 = [(5, 50), (4, 41)]
    ∧ (SafeMap.init.run 2 2 [.set 1 10, .set 2 20, .set 3 30, .set 4 40, .set 5 50, .del 1, .del 2, .del 3, .set 4 41]).rangeUntil 0 = [(5, 50), (4, 41)] := by
  decide

/-! ## Cache.Take: every way the loader can end -/

/-- **Clause "Take calls the loader only on a miss", for every outcome of the loader** (a value — also nil —, an error,
a typed-nil error, a panic with an error or another value, runtime.Goexit), in any state: the loader runs iff the key is
absent; on a hit the caller gets the cached value whatever the loader would have done, and the cache is touched exactly
as by `Get`; on a miss with a loader that does not deliver a value the cache is left exactly as it was (nothing is
stored, no timer is set, nothing is evicted) and the caller gets the error / panic / exit; on a miss with a value the
value is stored as by `Set`. -/
theorem take_every_loader_outcome {T : Type} (ts : TStep T) (c : CacheG T) (k : Nat) (l : Load) (ticks : Nat) :
    ((CacheG.takeL ts c k l ticks).2.loaded = true ↔ alookup c.data k = none)
    ∧ (∀ x, alookup c.data k = some x →
        CacheG.takeRet c k l = .val x ∧ (CacheG.takeL ts c k l ticks).1 = (CacheG.get ts c k).1)
    ∧ (alookup c.data k = none → l.fails = true →
        (CacheG.takeL ts c k l ticks).1 = c ∧ (CacheG.takeL ts c k l ticks).2.evicted = []
        ∧ (CacheG.takeL ts c k l ticks).2.expired = [] ∧ ∀ v, CacheG.takeRet c k l ≠ .val v)
    ∧ (∀ v, alookup c.data k = none → l = .value v →
        (CacheG.takeL ts c k l ticks).1 = (CacheG.set ts c k v ticks).1 ∧ CacheG.takeRet c k l = .val v) := by
  unfold CacheG.takeL CacheG.take CacheG.takeRet CacheG.get
  cases hk : alookup c.data k with
  | some x => simp
  | none => cases l <;> simp [Load.fails, Load.val]

/-- after a loader that did not deliver, the next `Take` of the key is a miss again (the loader runs again) -/
theorem take_reloads_after_failed_load {T : Type} (ts : TStep T) (c : CacheG T) (k : Nat) (l l' : Load) (t t' : Nat)
    (hm : alookup c.data k = none) (hf : l.fails = true) :
    (CacheG.takeL ts (CacheG.takeL ts c k l t).1 k l' t').2.loaded = true := by
  rw [((take_every_loader_outcome ts c k l t).2.2.1 hm hf).1]
  exact (take_every_loader_outcome ts c k l' t').1.2 hm

example : (CacheG.takeL C12.step (Cache.new 2 300) 1 .panicValue 3).1.data = []
    ∧ (CacheG.takeL C12.step (Cache.new 2 300) 1 (.value 0) 3).1.data = [(1, 0)]
    ∧ CacheG.takeRet (CacheG.takeL C12.step (Cache.new 2 300) 1 (.value 0) 3).1 1 .goexit = .val 0
    ∧ CacheG.takeRet (Cache.new 2 300) 1 .typedNilError = .err := by decide

/-! ## Take when the default expiry is not positive (the branch `CacheG.takeNoTimer` of the driver) -/

/-- **`Take` in a cache whose jittered default expiry is ≤ 0** (`NewCache(0)`, the branch the driver takes when the
observed expiry is not positive): the loader still runs iff the key is absent; a hit is a `Get`; a failed load leaves
the cache as it was; a successful one stores the value without a timer (`set_nonpositive_expiry` then gives the
invariants, the size bound and `Get k = v`). -/
theorem take_nonpositive_expiry_every_outcome {T : Type} (ts : TStep T) (c : CacheG T) (k v : Nat) (fails : Bool) :
    ((CacheG.takeNoTimer ts c k v fails).2.loaded = true ↔ alookup c.data k = none)
    ∧ (∀ x, alookup c.data k = some x →
        (CacheG.takeNoTimer ts c k v fails).2.result = some x ∧ (CacheG.takeNoTimer ts c k v fails).1 = (CacheG.get ts c k).1)
    ∧ (alookup c.data k = none → fails = true →
        (CacheG.takeNoTimer ts c k v fails).1 = c ∧ (CacheG.takeNoTimer ts c k v fails).2.result = none)
    ∧ (alookup c.data k = none → fails = false →
        (CacheG.takeNoTimer ts c k v fails).1 = (CacheG.setNoTimer ts c k v).1
        ∧ (CacheG.takeNoTimer ts c k v fails).2.result = some v
        ∧ (CacheG.takeNoTimer ts c k v fails).2.evicted = (CacheG.setNoTimer ts c k v).2.evicted) := by
  unfold CacheG.takeNoTimer CacheG.get
  cases hk : alookup c.data k with
  | some x => simp
  | none => cases fails <;> simp

/-- the loaded entry of such a cache keeps every invariant and is returned by the next `Get` -/
theorem take_nonpositive_expiry_stores {T : Type} (ts : TStep T) (c : CacheG T) (h : c.Inv) (k v : Nat)
    (hm : alookup c.data k = none) :
    (CacheG.takeNoTimer ts c k v false).1.Inv
    ∧ (CacheG.get ts (CacheG.takeNoTimer ts c k v false).1 k).2.result = some v := by
  rw [((take_nonpositive_expiry_every_outcome ts c k v false).2.2.2 hm rfl).1]
  exact ⟨(set_nonpositive_expiry ts c h k v).1, (set_nonpositive_expiry ts c h k v).2.2.1⟩

example : (CacheG.takeNoTimer C12.step (Cache.new 1 300) 1 10 false).1.data = [(1, 10)]
    ∧ (CacheG.takeNoTimer C12.step (Cache.new 1 300) 1 10 false).1.timers = (Cache.new 1 300).timers
    ∧ (CacheG.takeNoTimer C12.step (Cache.new 1 300) 1 10 true).1.data = [] := by decide

end GoZero.C16
