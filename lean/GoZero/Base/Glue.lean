/-
Driver for glue tests (harness-side checks of hooks): every line must be observed as `ok`.
A failing line is reported as a correspondence mismatch (the hook no longer behaves like the code it wraps).
-/
import GoZero.Base.Trace
namespace GoZero.Glue
open GoZero

def runSection (r : Report) (s : Section) : Report :=
  s.lines.foldl (fun r l =>
    let r := { r with ops := r.ops + 1 }
    let r := r.addCover (joinSp l.op)
    if l.obs = ["ok"] then r else r.mismatch s.idx l.idx "ok" (joinSp l.obs)) r

def driver (secs : List Section) : Report := secs.foldl runSection {}

end GoZero.Glue
