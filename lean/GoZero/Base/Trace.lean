/-
Line protocol shared by every property driver (core Lean only).

A trace file is a list of sections:
    begin <cfg tokens…>
    <op tokens…> => <observation tokens…>
    …
    end
The driver of a property folds a section through its model/spec and reports, per line, whether the
implementation's observation (right of `=>`) is what the model/spec computes for the operation (left).
-/
namespace GoZero

structure Line where
  idx : Nat            -- 1-based line number in the file
  op  : List String    -- tokens left of `=>`
  obs : List String    -- tokens right of `=>`
  deriving Repr

structure Section where
  idx   : Nat          -- 0-based section number
  cfg   : List String
  lines : List Line
  deriving Repr

/-- What a property driver reports for a whole trace file. -/
structure Report where
  ops        : Nat := 0
  mismatches : Array String := #[]     -- model ≠ implementation (correspondence)
  monitor    : Array String := #[]     -- property monitor failed on the implementation's trace
  cover      : List (String × Nat) := []
  deriving Repr

def tokens (s : String) : List String :=
  (s.splitOn " ").filter (· ≠ "")

def splitArrow (toks : List String) : List String × List String :=
  (toks.takeWhile (· ≠ "=>"), (toks.dropWhile (· ≠ "=>")).drop 1)

/-- Parse the lines of a trace file into sections. Lines outside begin/end are ignored. -/
def parseSections (ls : List String) : List Section := Id.run do
  let mut out : Array Section := #[]
  let mut cur : Option (List String × Array Line) := none
  let mut i := 0
  for l in ls do
    i := i + 1
    let t := tokens l
    match t with
    | "begin" :: cfg => cur := some (cfg, #[])
    | ["end"] =>
      match cur with
      | some (cfg, lines) =>
        out := out.push { idx := out.size, cfg := cfg, lines := lines.toList }
        cur := none
      | none => pure ()
    | [] => pure ()
    | _ =>
      match cur with
      | some (cfg, lines) =>
        let (op, obs) := splitArrow t
        cur := some (cfg, lines.push { idx := i, op := op, obs := obs })
      | none => pure ()
  return out.toList

/-- `k=v` lookup in a token list. -/
def kv? (toks : List String) (k : String) : Option String :=
  toks.findSome? fun t =>
    match t.splitOn "=" with
    | [a, b] => if a = k then some b else none
    | _ => none

def kvNat (toks : List String) (k : String) (dflt : Nat := 0) : Nat :=
  match kv? toks k with
  | some v => v.toNat?.getD dflt
  | none => dflt

def kvInt (toks : List String) (k : String) (dflt : Int := 0) : Int :=
  match kv? toks k with
  | some v => v.toInt?.getD dflt
  | none => dflt

def kvStr (toks : List String) (k : String) (dflt : String := "") : String :=
  (kv? toks k).getD dflt

def Report.addCover (r : Report) (k : String) (n : Nat := 1) : Report :=
  let rec go : List (String × Nat) → List (String × Nat)
    | [] => [(k, n)]
    | (a, c) :: rest => if a = k then (a, c + n) :: rest else (a, c) :: go rest
  { r with cover := go r.cover }

def Report.mismatch (r : Report) (sec : Nat) (line : Nat) (model impl : String) : Report :=
  { r with mismatches := r.mismatches.push s!"MISMATCH section={sec} line={line} model=[{model}] impl=[{impl}]" }

def Report.violation (r : Report) (sec : Nat) (line : Nat) (msg : String) : Report :=
  { r with monitor := r.monitor.push s!"MONITOR section={sec} line={line} {msg}" }

def joinSp (l : List String) : String := " ".intercalate l

/-- Insertion sort on naturals (canonical order for sets printed by the harness). -/
def insertSorted (x : Nat) : List Nat → List Nat
  | [] => [x]
  | y :: ys => if x ≤ y then x :: y :: ys else y :: insertSorted x ys

def sortNat (l : List Nat) : List Nat := l.foldr insertSorted []

end GoZero
