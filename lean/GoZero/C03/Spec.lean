/-
C03 — abstract specification, read off the property text, and the executable monitors.

* period limit: per key a *life* `(start of life, number of takes so far)`; the i-th take of a life is
  answered `Allowed` (i < quota), `HitQuota` (i = quota), `OverQuota` (i > quota); a life ends
  `period` seconds after the take that started it.
* token limit: ONE bucket `(tokens, ts)` of size `burst`, refilled with `rate` tokens per whole second;
  a request for `n` tokens at second `now` is granted iff the refilled bucket holds `n`.
* the bound "never more than burst + rate × elapsed over any interval" as a leaky-bucket meter
  (`Meter`): `level` = max over all intervals ending now of (granted − rate × elapsed).
-/
import GoZero.C03.Model
namespace GoZero.C03.Spec
open GoZero.C03

/-! ## period limit -/

/-- reply to the `i`-th (1-based) take of a life -/
def codeOf (quota i : Nat) : Code :=
  if i < quota then .allowed else if i = quota then .hitQuota else .overQuota

structure Life where
  key   : String
  start : Nat      -- store clock (ms) of the take that started the life
  count : Nat      -- takes so far
  deriving Repr, DecidableEq

abbrev PSpec := List Life

def lifeOf (k : String) : PSpec → Option Life
  | [] => none
  | l :: rest => if l.key = k then some l else lifeOf k rest

def setLife (l : Life) : PSpec → PSpec
  | [] => [l]
  | x :: rest => if x.key = l.key then l :: rest else x :: setLife l rest

/-- one take at store clock `clock`: continue the running life if its period has not expired,
else start a new one. -/
def ptake (quota period : Nat) (sp : PSpec) (clock : Nat) (k : String) : PSpec × Code :=
  match lifeOf k sp with
  | some l =>
    if clock < l.start + period * 1000 then (setLife { l with count := l.count + 1 } sp, codeOf quota (l.count + 1))
    else (setLife ⟨k, clock, 1⟩ sp, codeOf quota 1)
  | none => (setLife ⟨k, clock, 1⟩ sp, codeOf quota 1)


/-! ## vocabulary of the period theorems -/
end GoZero.C03.Spec
namespace GoZero.C03

def POp.adv : POp → Nat
  | .ft ms => ms
  | _ => 0

def totalAdv (ops : List POp) : Nat := (ops.map POp.adv).sum

def takesOn (k : String) (ops : List POp) : Nat := (ops.filter (· = POp.take k)).length

/-- final state of a run -/
def PSys.exec (quota period : Nat) : PSys → List POp → PSys
  | s, [] => s
  | s, op :: ops => PSys.exec quota period (s.step quota period op).1 ops

/-- replies to the takes on key `k` during a run, in order -/
def PSys.repliesOn (quota period : Nat) (k : String) : PSys → List POp → List (Code × PErr)
  | _, [] => []
  | s, op :: ops =>
    (if op = .take k then (s.step quota period op).2.toList else [])
      ++ PSys.repliesOn quota period k (s.step quota period op).1 ops

/-- the period specification as a system: lives per key, the store clock, reachability -/
structure SpecSys where
  sp    : Spec.PSpec
  clock : Nat
  up    : Bool

def SpecSys.init : SpecSys := ⟨[], 0, true⟩

def SpecSys.step (quota period : Nat) (t : SpecSys) : POp → SpecSys × Option (Code × PErr)
  | .ft ms => ({ t with clock := t.clock + ms }, none)
  | .take k =>
    if t.up then ({ t with sp := (Spec.ptake quota period t.sp t.clock k).1 }, some ((Spec.ptake quota period t.sp t.clock k).2, .nil))
    else (t, some (.unknown, .store))
  | .down => ({ t with up := false }, none)
  | .up => ({ t with up := true }, none)

def SpecSys.run (quota period : Nat) : SpecSys → List POp → List (Option (Code × PErr))
  | _, [] => []
  | t, op :: ops => (t.step quota period op).2 :: SpecSys.run quota period (t.step quota period op).1 ops

def noDown (ops : List POp) : Prop := ∀ o ∈ ops, o ≠ POp.down

/-- is this reply of `Take` a grant? -/
def granted (r : Code × PErr) : Bool := (r.1 = .allowed || r.1 = .hitQuota) && r.2 = .nil


end GoZero.C03
namespace GoZero.C03.Spec
open GoZero.C03

/-! ## token bucket -/

structure Bucket where
  tok : Nat
  ts  : Nat        -- whole seconds
  deriving Repr, DecidableEq

def Bucket.init (burst : Nat) : Bucket := ⟨burst, 0⟩

def Bucket.filled (rate burst : Nat) (b : Bucket) (now : Nat) : Nat :=
  min burst (b.tok + (now - b.ts) * rate)

/-- a request for `n` tokens at second `now`: granted iff the refilled bucket holds `n`. -/
def Bucket.allow (rate burst : Nat) (b : Bucket) (now n : Nat) : Bucket × Bool :=
  if n ≤ b.filled rate burst now then (⟨b.filled rate burst now - n, now⟩, true)
  else (⟨b.filled rate burst now, now⟩, false)

/-- decisions of a sequence of `(now, n)` requests -/
def Bucket.run (rate burst : Nat) : Bucket → List (Nat × Nat) → List Bool
  | _, [] => []
  | b, (now, n) :: rest => (b.allow rate burst now n).2 :: Bucket.run rate burst (b.allow rate burst now n).1 rest

/-- final bucket after a sequence of requests -/
def Bucket.exec (rate burst : Nat) : Bucket → List (Nat × Nat) → Bucket
  | b, [] => b
  | b, (now, n) :: rest => Bucket.exec rate burst (b.allow rate burst now n).1 rest

/-- tokens granted to a sequence of requests -/
def Bucket.granted (rate burst : Nat) : Bucket → List (Nat × Nat) → Nat
  | _, [] => 0
  | b, (now, n) :: rest =>
    (if (b.allow rate burst now n).2 then n else 0) + Bucket.granted rate burst (b.allow rate burst now n).1 rest

/-- request times never move backwards (starting from `t0`) -/
def Mono (t0 : Nat) : List (Nat × Nat) → Prop
  | [] => True
  | (t, _) :: rest => t0 ≤ t ∧ Mono t rest

/-! ## vocabulary of the token theorems -/
end GoZero.C03.Spec
namespace GoZero.C03

/-- The timing hypothesis of the token theorems ("time advances", "the callers' clock tracks the store's"),
as a predicate on the operation list alone.  `hist` = (store clock in ms, caller's second) of every earlier
`allow`.  For every `allow`: the caller's second is not before any earlier one, and if the store clock has
moved a full `ttl` since an earlier request then so has the caller's second. -/
def TimedFrom (ttl : Nat) (hist : List (Nat × Nat)) (clock : Nat) : List TOp → Prop
  | [] => True
  | op :: ops =>
    match op with
    | .ft ms => TimedFrom ttl hist (clock + ms) ops
    | .allow _ ns _ =>
      (∀ p ∈ hist, p.2 ≤ ns / nsPerSec ∧ (p.1 + ttl * 1000 ≤ clock → p.2 + ttl ≤ ns / nsPerSec)) ∧
        TimedFrom ttl ((clock, ns / nsPerSec) :: hist) clock ops
    | .down => TimedFrom ttl hist clock ops
    | .up => TimedFrom ttl hist clock ops
    | .pingOk _ => TimedFrom ttl hist clock ops
    | .monExit _ => TimedFrom ttl hist clock ops
    | .lateFail _ => TimedFrom ttl hist clock ops
    | .cancelledAlive _ _ _ => TimedFrom ttl hist clock ops

/-- timing hypothesis for a run from the initial state -/
def Timed (c : TCfg) (ops : List TOp) : Prop := TimedFrom (ttlFixed c.rate c.burst) [] 0 ops

/-- the requests decided by the shared store, in order -/
def storeEvs (evs : List Ev) : List Ev := evs.filter fun e => e.route = .store

/-- the requests instance `i` decided with its local rescue limiter, in order -/
def rescueEvs (i : Nat) (evs : List Ev) : List Ev := evs.filter fun e => e.route = .rescue ∧ e.inst = i

/-- decisions of the rescue limiter on a sequence of `(now in ns, n)` requests -/
def Rescue.run (c : TCfg) : Rescue → List (Nat × Nat) → List Bool
  | _, [] => []
  | r, (t, n) :: rest => (r.allowN c t n).2 :: Rescue.run c (r.allowN c t n).1 rest

def Rescue.exec (c : TCfg) : Rescue → List (Nat × Nat) → Rescue
  | r, [] => r
  | r, (t, n) :: rest => Rescue.exec c (r.allowN c t n).1 rest

def Rescue.granted (c : TCfg) : Rescue → List (Nat × Nat) → Nat
  | _, [] => 0
  | r, (t, n) :: rest => (if (r.allowN c t n).2 then n else 0) + Rescue.granted c (r.allowN c t n).1 rest

/-- a request as the rescue limiter sees it: (caller's now in ns, size) -/
def rcallOf (e : Ev) : Nat × Nat := (e.ns, e.n)

/-- a request as the abstract bucket sees it: (caller's whole second, size) -/
def callOf (e : Ev) : Nat × Nat := (e.ns / nsPerSec, e.n)

end GoZero.C03
namespace GoZero.C03.Spec
open GoZero.C03

/-! ## the interval bound as a meter -/

/-- `level` after a grant of `g` at time `t` (time unit and `perUnit` are the caller's):
what earlier grants still "weigh" after draining `perUnit` per time unit, plus `g`.
`level ≤ cap` at every event ⇔ every interval satisfies granted ≤ cap + perUnit × elapsed. -/
structure Meter where
  level : Nat
  t     : Nat
  deriving Repr, DecidableEq

def Meter.init : Meter := ⟨0, 0⟩

def Meter.add (perUnit : Nat) (m : Meter) (t g : Nat) : Meter :=
  ⟨(m.level - perUnit * (t - m.t)) + g, max t m.t⟩

/-- meter levels after each granted request of a decided history -/
def meterLevels (rate : Nat) : Meter → List ((Nat × Nat) × Bool) → List Nat
  | _, [] => []
  | m, ((t, n), ok) :: rest =>
    if ok then (m.add rate t n).level :: meterLevels rate (m.add rate t n) rest
    else meterLevels rate m rest

end GoZero.C03.Spec

namespace GoZero.C03

/-- final state of a run -/
def Sys.exec (fixed : Bool) (c : TCfg) : Sys → List TOp → Sys
  | s, [] => s
  | s, op :: ops => Sys.exec fixed c (s.step fixed c op).1 ops

end GoZero.C03
