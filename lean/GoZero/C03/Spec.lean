/-
C03 — abstract specification, read off the property text, and the executable monitors.

* period limit: per key a *life* `(start of life, number of takes so far)`; the i-th take of a life is
  answered `Allowed` (i < quota), `HitQuota` (i = quota), `OverQuota` (i > quota); a life ends
  `period` seconds after the take that started it.
* token limit: ONE bucket `(tokens, ts)` of size `burst`, refilled with `rate` tokens per whole second;
  a request for `n` tokens at second `now` is granted iff the refilled bucket holds `n`.
* the bound "never more than burst + rate × elapsed over any interval" as a leaky-bucket meter
  (`Meter`): `level` = max over all intervals ending now of (granted − rate × elapsed).
-/
import GoZero.C03.Model
namespace GoZero.C03.Spec
open GoZero.C03

/-! ## period limit -/

/-- reply to the `i`-th (1-based) take of a life -/
def codeOf (quota i : Nat) : Code :=
  if i < quota then .allowed else if i = quota then .hitQuota else .overQuota

structure Life where
  key   : String
  start : Nat      -- store clock (ms) of the take that started the life
  count : Nat      -- takes so far
  deriving Repr, DecidableEq

abbrev PSpec := List Life

def lifeOf (k : String) : PSpec → Option Life
  | [] => none
  | l :: rest => if l.key = k then some l else lifeOf k rest

def setLife (l : Life) : PSpec → PSpec
  | [] => [l]
  | x :: rest => if x.key = l.key then l :: rest else x :: setLife l rest

/-- one take at store clock `clock`: continue the running life if its period has not expired,
else start a new one. -/
def ptake (quota period : Nat) (sp : PSpec) (clock : Nat) (k : String) : PSpec × Code :=
  match lifeOf k sp with
  | some l =>
    if clock < l.start + period * 1000 then (setLife { l with count := l.count + 1 } sp, codeOf quota (l.count + 1))
    else (setLife ⟨k, clock, 1⟩ sp, codeOf quota 1)
  | none => (setLife ⟨k, clock, 1⟩ sp, codeOf quota 1)

/-! ## token bucket -/

structure Bucket where
  tok : Nat
  ts  : Nat        -- whole seconds
  deriving Repr, DecidableEq

def Bucket.init (burst : Nat) : Bucket := ⟨burst, 0⟩

def Bucket.filled (rate burst : Nat) (b : Bucket) (now : Nat) : Nat :=
  min burst (b.tok + (now - b.ts) * rate)

/-- a request for `n` tokens at second `now`: granted iff the refilled bucket holds `n`. -/
def Bucket.allow (rate burst : Nat) (b : Bucket) (now n : Nat) : Bucket × Bool :=
  if n ≤ b.filled rate burst now then (⟨b.filled rate burst now - n, now⟩, true)
  else (⟨b.filled rate burst now, now⟩, false)

/-- decisions of a sequence of `(now, n)` requests -/
def Bucket.run (rate burst : Nat) : Bucket → List (Nat × Nat) → List Bool
  | _, [] => []
  | b, (now, n) :: rest => (b.allow rate burst now n).2 :: Bucket.run rate burst (b.allow rate burst now n).1 rest

/-! ## the interval bound as a meter -/

/-- `level` after a grant of `g` at time `t` (time unit and `perUnit` are the caller's):
what earlier grants still "weigh" after draining `perUnit` per time unit, plus `g`.
`level ≤ cap` at every event ⇔ every interval satisfies granted ≤ cap + perUnit × elapsed. -/
structure Meter where
  level : Nat
  t     : Nat
  deriving Repr, DecidableEq

def Meter.init : Meter := ⟨0, 0⟩

def Meter.add (perUnit : Nat) (m : Meter) (t g : Nat) : Meter :=
  ⟨(m.level - perUnit * (t - m.t)) + g, max t m.t⟩

end GoZero.C03.Spec
