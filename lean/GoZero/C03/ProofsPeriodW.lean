/-
C03 — round 5: the period limit with a window PER TAKE (what `Align()` produces: every `TakeCtx` computes its own
`calcExpireSeconds()`): the model refines the specification by lives whose END is fixed by the window of the take that
started them; the windows of later takes of the life are irrelevant.  Same proof as ProofsPeriodSpec with the deadline
stored in the life.
-/
import GoZero.C03.ProofsPeriodSpec
namespace GoZero.C03
open GoZero.C03 Spec

/-- operations whose takes carry the window (seconds) their `calcExpireSeconds()` computed -/
inductive POpW where
  | ft (ms : Nat)
  | take (key : String) (q w : Nat)     -- limit and window of THIS take (its limiter's quota, its calcExpireSeconds())
  | down
  | up
  deriving Repr, DecidableEq

def PSys.stepW (s : PSys) : POpW → PSys × Option (Code × PErr)
  | .ft ms => ({ s with store := s.store.advance ms }, none)
  | .take k quota w => let r := s.take quota w k; (r.1, some r.2)
  | .down => ({ s with up := false }, none)
  | .up => ({ s with up := true }, none)

def PSys.runW : PSys → List POpW → List (Option (Code × PErr))
  | _, [] => []
  | s, op :: ops => (s.stepW op).2 :: PSys.runW (s.stepW op).1 ops

/-- a life: key, the instant (store clock, ms) at which it ends, takes so far -/
structure LifeW where
  key   : String
  stop  : Nat
  count : Nat
  deriving Repr, DecidableEq

def lifeOfW (k : String) : List LifeW → Option LifeW
  | [] => none
  | l :: rest => if l.key = k then some l else lifeOfW k rest

def setLifeW (l : LifeW) : List LifeW → List LifeW
  | [] => [l]
  | x :: rest => if x.key = l.key then l :: rest else x :: setLifeW l rest

/-- one take with window `w` at store clock `clock`: continue the running life if it has not ended (ITS end, whatever
`w` is now), else start a new one that ends `w` seconds from now -/
def ptakeW (quota w : Nat) (sp : List LifeW) (clock : Nat) (k : String) : List LifeW × Code :=
  match lifeOfW k sp with
  | some l =>
    if clock < l.stop then (setLifeW { l with count := l.count + 1 } sp, codeOf quota (l.count + 1))
    else (setLifeW ⟨k, clock + w * 1000, 1⟩ sp, codeOf quota 1)
  | none => (setLifeW ⟨k, clock + w * 1000, 1⟩ sp, codeOf quota 1)

structure SpecSysW where
  sp    : List LifeW
  clock : Nat
  up    : Bool

def SpecSysW.init : SpecSysW := ⟨[], 0, true⟩

def SpecSysW.step (t : SpecSysW) : POpW → SpecSysW × Option (Code × PErr)
  | .ft ms => ({ t with clock := t.clock + ms }, none)
  | .take k quota w =>
    if t.up then ({ t with sp := (ptakeW quota w t.sp t.clock k).1 }, some ((ptakeW quota w t.sp t.clock k).2, .nil))
    else (t, some (.unknown, .store))
  | .down => ({ t with up := false }, none)
  | .up => ({ t with up := true }, none)

def SpecSysW.run : SpecSysW → List POpW → List (Option (Code × PErr))
  | _, [] => []
  | t, op :: ops => (t.step op).2 :: SpecSysW.run (t.step op).1 ops

theorem lifeOfW_key (k : String) : ∀ (sp : List LifeW) (l : LifeW), lifeOfW k sp = some l → l.key = k := by
  intro sp; induction sp with
  | nil => intro l h; simp [lifeOfW] at h
  | cons x rest ih =>
    intro l h
    unfold lifeOfW at h
    split at h
    · simp at h; subst h; assumption
    · exact ih l h

theorem lifeOfW_setLifeW (l : LifeW) : ∀ (sp : List LifeW) (k : String),
    lifeOfW k (setLifeW l sp) = if k = l.key then some l else lifeOfW k sp := by
  intro sp; induction sp with
  | nil => intro k; simp only [setLifeW, lifeOfW]; by_cases h : k = l.key <;> simp [h, eq_comm]
  | cons x rest ih =>
    intro k
    unfold setLifeW
    by_cases hx : x.key = l.key
    · simp only [hx, if_true, lifeOfW]
      by_cases h : k = l.key
      · simp [h]
      · have h' : ¬ l.key = k := fun e => h e.symm
        have h'' : ¬ x.key = k := by rw [hx]; exact h'
        simp [h, h', h'']
    · simp only [hx, if_false, lifeOfW, ih]
      by_cases h : x.key = k
      · have : ¬ k = l.key := by rw [← h]; exact hx
        simp [h, this]
      · simp [h]

/-- correspondence between the store and the lives -/
def PRelW (s : PSys) (t : SpecSysW) : Prop :=
  s.up = t.up ∧ s.store.clock = t.clock ∧
  ∀ k, match s.store.find k with
    | none => lifeOfW k t.sp = none
    | some e => ∃ l, lifeOfW k t.sp = some l ∧ e.val = l.count ∧ 1 ≤ l.count ∧ e.exp = some l.stop

theorem prelW_take (quota period : Nat) (hp : 1 ≤ period) (s : PSys) (t : SpecSysW) (k : String)
    (h : PRelW s t) (hu : s.up = true) :
    (s.take quota period k).2 = ((ptakeW quota period t.sp t.clock k).2, PErr.nil) ∧
    PRelW (s.take quota period k).1 { t with sp := (ptakeW quota period t.sp t.clock k).1 } := by
  obtain ⟨h1, h2, h3⟩ := h
  have hk := h3 k
  cases hf : s.store.find k with
  | none =>
    rw [hf] at hk
    have hg : s.store.get k = none := by rw [get_eq, hf]
    obtain ⟨f1, f2, f3⟩ := periodScript_fresh s.store k quota period hp hg
    refine ⟨?_, ?_, ?_, ?_⟩
    · simp only [PSys.take, hu, if_true, f3, ptakeW, hk]
      exact takeResult_code quota 1
    · simpa [PSys.take, hu] using h1
    · simp [PSys.take, hu, f2, h2]
    · intro k'
      by_cases hkk : k' = k
      · subst hkk
        simp only [PSys.take, hu, if_true, f1, ptakeW, hk, lifeOfW_setLifeW]
        exact ⟨⟨k', t.clock + period * 1000, 1⟩, by simp, rfl, Nat.le_refl 1, by simp [h2]⟩
      · have := (periodScript_other s.store k' k quota period hkk).1
        simp only [PSys.take, hu, if_true, this, ptakeW, hk, lifeOfW_setLifeW, hkk, if_false]
        exact h3 k'
  | some e =>
    rw [hf] at hk
    obtain ⟨l, hl, hv, hc, he⟩ := hk
    have hlk := lifeOfW_key k t.sp l hl
    by_cases hlive : s.store.clock < l.stop
    · have hfe : s.store.find k = some ⟨l.count, some (l.stop)⟩ := by
        rw [hf]; congr 1; cases e; simp_all
      obtain ⟨f1, f2, f3⟩ := periodScript_running s.store k quota period l.count _ hfe hc hlive
      have hlive' : t.clock < l.stop := by omega
      refine ⟨?_, ?_, ?_, ?_⟩
      · simp only [PSys.take, hu, if_true, f3, ptakeW, hl, hlive']
        exact takeResult_code quota (l.count + 1)
      · simpa [PSys.take, hu] using h1
      · simp [PSys.take, hu, f2, h2]
      · intro k'
        by_cases hkk : k' = k
        · subst hkk
          simp only [PSys.take, hu, if_true, f1, ptakeW, hl, hlive', lifeOfW_setLifeW, hlk]
          exact ⟨{ l with count := l.count + 1 }, by simp [hlk], rfl, by simp, rfl⟩
        · have := (periodScript_other s.store k' k quota period hkk).1
          have hkk' : ¬ k' = l.key := by rw [hlk]; exact hkk
          simp only [PSys.take, hu, if_true, this, ptakeW, hl, hlive', lifeOfW_setLifeW, hkk', if_false]
          exact h3 k'
    · have hg : s.store.get k = none := by
        rw [get_eq, hf]; simp [Entry.live, he, hlive]
      obtain ⟨f1, f2, f3⟩ := periodScript_fresh s.store k quota period hp hg
      have hlive' : ¬ t.clock < l.stop := by omega
      refine ⟨?_, ?_, ?_, ?_⟩
      · simp only [PSys.take, hu, if_true, f3, ptakeW, hl, hlive', if_false]
        exact takeResult_code quota 1
      · simpa [PSys.take, hu] using h1
      · simp [PSys.take, hu, f2, h2]
      · intro k'
        by_cases hkk : k' = k
        · subst hkk
          simp only [PSys.take, hu, if_true, f1, ptakeW, hl, hlive', if_false, lifeOfW_setLifeW]
          exact ⟨⟨k', t.clock + period * 1000, 1⟩, by simp, rfl, Nat.le_refl 1, by simp [h2]⟩
        · have := (periodScript_other s.store k' k quota period hkk).1
          simp only [PSys.take, hu, if_true, this, ptakeW, hl, hlive', if_false, lifeOfW_setLifeW, hkk]
          exact h3 k'

/-- every take of the list carries a window of at least one second -/
def WinOk (ops : List POpW) : Prop := ∀ k q w, POpW.take k q w ∈ ops → 1 ≤ w

/-- the model's replies are the specification's replies, for every operation sequence with per-take windows -/
theorem period_refines_spec_windows_from : ∀ (ops : List POpW) (s : PSys) (t : SpecSysW),
    WinOk ops → PRelW s t → PSys.runW s ops = SpecSysW.run t ops := by
  intro ops
  induction ops with
  | nil => intro s t _ _; rfl
  | cons op ops ih =>
    intro s t hw h
    have hw' : WinOk ops := fun k q w hm => hw k q w (List.mem_cons_of_mem _ hm)
    cases op with
    | ft ms =>
      simp only [PSys.runW, SpecSysW.run, PSys.stepW, SpecSysW.step]
      congr 1
      apply ih _ _ hw'
      obtain ⟨h1, h2, h3⟩ := h
      exact ⟨h1, by simp [h2], fun k => by simpa using h3 k⟩
    | down =>
      simp only [PSys.runW, SpecSysW.run, PSys.stepW, SpecSysW.step]
      congr 1
      apply ih _ _ hw'
      exact ⟨rfl, h.2.1, h.2.2⟩
    | up =>
      simp only [PSys.runW, SpecSysW.run, PSys.stepW, SpecSysW.step]
      congr 1
      apply ih _ _ hw'
      exact ⟨rfl, h.2.1, h.2.2⟩
    | take k quota w =>
      have hp : 1 ≤ w := hw k quota w (List.mem_cons_self)
      simp only [PSys.runW, SpecSysW.run, PSys.stepW, SpecSysW.step]
      by_cases hu : s.up = true
      · have hu' : t.up = true := by rw [← h.1]; exact hu
        obtain ⟨r1, r2⟩ := prelW_take quota w hp s t k h hu
        simp only [hu', if_true]
        rw [r1]
        congr 1
        apply ih _ _ hw'
        rw [hu'] at r2
        exact r2
      · have hu' : t.up = false := by rw [← h.1]; simpa using hu
        have hu'' : s.up = false := by simpa using hu
        simp only [hu', Bool.false_eq_true, if_false]
        have : s.take quota w k = (s, (Code.unknown, PErr.store)) := by simp [PSys.take, hu'', takeResult]
        rw [this]
        congr 1
        exact ih _ _ hw' h

end GoZero.C03
