/-
C03 — the Lua subset of periodscript.lua: token list → AST → meaning over the store model.

The extractor only *lexes* the current file (Extracted.C03.periodLuaToks: raw token triples); parsing and
interpretation happen here, in Lean, so that Tie.lean can prove — for every store, key, limit and window (integers) —
that the script as it is written now means exactly the model's `periodScript`.

Subset:  `local x = <rhs>` · `if c then … {elseif c then …} [else …] end` · `return e` · `redis.call(…)` as a statement;
rhs = expression or `redis.call("CMD", KEYS[n] | e, …)`;  e = integer literal · local variable · `tonumber(ARGV[n])`;
c = `e == e` · `e < e`.  Anything else does not parse (`none`) — the Tie obligation then fails rather than guessing.

Semantics (Redis scripting documentation; validated by the correspondence run where miniredis' gopher-lua executes
the real file):  ARGV are the decimal texts `strconv.Itoa` produced, `tonumber` gives the integer back (trusted:
tonumber ∘ Itoa = id, so ARGV is handed over as integers);  `INCRBY key d` (d ≥ 0) / `EXPIRE key secs` are the store
model's commands, command names case-insensitive as in Redis (the script writes "INCRBY" and "expire"), an integer
reply becomes a Lua number; the script's number result becomes an integer reply.  All numbers are integers (exact
in float64 below 2^53).
-/
import GoZero.C03.Model
namespace GoZero.C03

/-- periodscript.lua on integer arguments: what Redis does with `limit ≤ 0` / `window ≤ 0` included -/
def periodScriptZ (s : Store) (key : String) (limit window : Int) : Store × Int :=
  let r := s.incrby key 1
  let s1 := if (r.2 : Int) = 1 then r.1.expire key window.toNat else r.1
  (s1, if (r.2 : Int) < limit then 1 else if (r.2 : Int) = limit then 2 else 0)

namespace Lua

inductive Tok where
  | w (s : String)
  | s (s : String)
  | n (n : Nat)
  deriving Repr, DecidableEq

def Tok.ofRaw : Nat × String × Nat → Option Tok
  | (0, t, _) => some (.w t)
  | (1, t, _) => some (.s t)
  | (2, _, v) => some (.n v)
  | _ => none

inductive Expr where
  | num (n : Int)
  | var (x : String)
  | argvNum (i : Nat)            -- tonumber(ARGV[i])
  deriving Repr, DecidableEq

inductive Cond where
  | eq (a b : Expr)
  | lt (a b : Expr)
  deriving Repr, DecidableEq

inductive Arg where
  | key (i : Nat)                -- KEYS[i]
  | e (e : Expr)
  deriving Repr, DecidableEq

/-- the Redis commands of the subset; names are case-insensitive in Redis, the spellings accepted here are listed in `Cmd.ofString` -/
inductive Cmd where
  | incrby | expire
  deriving Repr, DecidableEq

def Cmd.ofString (s : String) : Option Cmd :=
  if s = "INCRBY" ∨ s = "incrby" ∨ s = "IncrBy" then some .incrby
  else if s = "EXPIRE" ∨ s = "expire" ∨ s = "Expire" then some .expire
  else none

inductive Stmt where
  | localE (x : String) (e : Expr)
  | localCall (x : String) (cmd : Cmd) (args : List Arg)
  | call (cmd : Cmd) (args : List Arg)
  | ifte (c : Cond) (t e : List Stmt)
  | ret (e : Expr)
  deriving Repr

/-! ### parser -/

def parseExpr : List Tok → Option (Expr × List Tok)
  | .w "tonumber" :: .w "(" :: .w "ARGV" :: .w "[" :: .n i :: .w "]" :: .w ")" :: rest => some (.argvNum i, rest)
  | .n v :: rest => some (.num v, rest)
  | .w x :: rest =>
    if x ∈ ["if", "then", "else", "elseif", "end", "return", "local", "redis", "KEYS", "ARGV", "tonumber",
            "(", ")", "[", "]", ",", ".", "=", "==", "<", ">", "<=", ">=", "~=", "+", "-", "*", "/", "and", "or", "not"]
    then none else some (.var x, rest)
  | _ => none

def parseCond (toks : List Tok) : Option (Cond × List Tok) :=
  match parseExpr toks with
  | some (a, .w "==" :: rest) =>
    match parseExpr rest with
    | some (b, rest) => some (.eq a b, rest)
    | none => none
  | some (a, .w "<" :: rest) =>
    match parseExpr rest with
    | some (b, rest) => some (.lt a b, rest)
    | none => none
  | _ => none

def parseArg : List Tok → Option (Arg × List Tok)
  | .w "KEYS" :: .w "[" :: .n i :: .w "]" :: rest => some (.key i, rest)
  | toks =>
    match parseExpr toks with
    | some (e, rest) => some (.e e, rest)
    | none => none

/-- `, arg , arg … )` -/
def parseArgs : Nat → List Tok → Option (List Arg × List Tok)
  | 0, _ => none
  | fuel + 1, toks =>
    match toks with
    | .w ")" :: rest => some ([], rest)
    | .w "," :: rest =>
      match parseArg rest with
      | some (a, rest) =>
        match parseArgs fuel rest with
        | some (as, rest) => some (a :: as, rest)
        | none => none
      | none => none
    | _ => none

/-- `redis.call("CMD" {, arg})` -/
def parseCall (toks : List Tok) : Option ((Cmd × List Arg) × List Tok) :=
  match toks with
  | .w "redis" :: .w "." :: .w "call" :: .w "(" :: .s cmd :: rest =>
    match Cmd.ofString cmd, parseArgs (rest.length + 1) rest with
    | some c, some (as, rest) => some ((c, as), rest)
    | _, _ => none
  | _ => none

mutual
  /-- statements up to (not including) `else` / `elseif` / `end` / end of input -/
  def parseBlock : Nat → List Tok → Option (List Stmt × List Tok)
    | 0, _ => none
    | fuel + 1, toks =>
      match toks with
      | [] => some ([], [])
      | .w "else" :: _ => some ([], toks)
      | .w "elseif" :: _ => some ([], toks)
      | .w "end" :: _ => some ([], toks)
      | _ =>
        match parseStmt fuel toks with
        | some (s, rest) =>
          match parseBlock fuel rest with
          | some (ss, rest) => some (s :: ss, rest)
          | none => none
        | none => none

  /-- after `if` / `elseif`: `c then block (elseif … | else block end | end)` -/
  def parseIf : Nat → List Tok → Option (Stmt × List Tok)
    | 0, _ => none
    | fuel + 1, toks =>
      match parseCond toks with
      | some (c, .w "then" :: rest) =>
        match parseBlock fuel rest with
        | some (t, .w "elseif" :: rest) =>
          match parseIf fuel rest with
          | some (e, rest) => some (.ifte c t [e], rest)
          | none => none
        | some (t, .w "else" :: rest) =>
          match parseBlock fuel rest with
          | some (e, .w "end" :: rest) => some (.ifte c t e, rest)
          | _ => none
        | some (t, .w "end" :: rest) => some (.ifte c t [], rest)
        | _ => none
      | _ => none

  def parseStmt : Nat → List Tok → Option (Stmt × List Tok)
    | 0, _ => none
    | fuel + 1, toks =>
      match toks with
      | .w "if" :: rest => parseIf fuel rest
      | .w "return" :: rest =>
        match parseExpr rest with
        | some (e, rest) =>
          match rest with
          | [] => some (.ret e, rest)
          | .w "else" :: _ => some (.ret e, rest)
          | .w "elseif" :: _ => some (.ret e, rest)
          | .w "end" :: _ => some (.ret e, rest)
          | _ => none
        | none => none
      | .w "local" :: .w x :: .w "=" :: rest =>
        match parseCall rest with
        | some ((cmd, as), rest) => some (.localCall x cmd as, rest)
        | none =>
          match parseExpr rest with
          | some (e, rest) => some (.localE x e, rest)
          | none => none
      | _ =>
        match parseCall toks with
        | some ((cmd, as), rest) => some (.call cmd as, rest)
        | none => none
end

def parse (toks : List Tok) : Option (List Stmt) :=
  match parseBlock (2 * toks.length + 2) toks with
  | some (ss, []) => some ss
  | _ => none

/-! ### meaning -/

structure Env where
  keys   : List String
  argv   : List Int
  locals : List (String × Int) := []

def evalExpr (env : Env) : Expr → Option Int
  | .num n => some n
  | .var x => env.locals.lookup x
  | .argvNum i => if i = 0 then none else env.argv[i - 1]?

def evalCond (env : Env) : Cond → Option Bool
  | .eq a b => match evalExpr env a, evalExpr env b with
    | some x, some y => some (decide (x = y))
    | _, _ => none
  | .lt a b => match evalExpr env a, evalExpr env b with
    | some x, some y => some (decide (x < y))
    | _, _ => none

/-- one Redis command issued by the script: `(store', integer reply)` -/
def command (env : Env) (s : Store) (cmd : Cmd) (args : List Arg) : Option (Store × Int) :=
  match args with
  | [.key i, .e d] =>
    if i = 0 then none else
    match env.keys[i - 1]?, evalExpr env d with
    | some k, some d =>
      match cmd with
      | .incrby => if 0 ≤ d then some ((s.incrby k d.toNat).1, ((s.incrby k d.toNat).2 : Int)) else none
      | .expire => some (s.expire k d.toNat, if (s.get k).isSome then 1 else 0)
    | _, _ => none
  | _ => none

def setLocal (env : Env) (x : String) (v : Int) : Env := { env with locals := (x, v) :: env.locals }

/-- executes a block; `some v` in the last component = the script returned `v` -/
def execBlock : Nat → Env → Store → List Stmt → Option (Env × Store × Option Int)
  | 0, _, _, _ => none
  | fuel + 1, env, s, ss =>
    match ss with
    | [] => some (env, s, none)
    | .ret e :: _ =>
      match evalExpr env e with
      | some v => some (env, s, some v)
      | none => none
    | .localE x e :: rest =>
      match evalExpr env e with
      | some v => execBlock fuel (setLocal env x v) s rest
      | none => none
    | .localCall x cmd args :: rest =>
      match command env s cmd args with
      | some (s, v) => execBlock fuel (setLocal env x v) s rest
      | none => none
    | .call cmd args :: rest =>
      match command env s cmd args with
      | some (s, _) => execBlock fuel env s rest
      | none => none
    | .ifte c t e :: rest =>
      match evalCond env c with
      | some b =>
        -- a block's locals go out of scope at its end: the outer environment continues
        match execBlock fuel env s (if b then t else e) with
        | some (_, s, some r) => some (env, s, some r)
        | some (_, s, none) => execBlock fuel env s rest
        | none => none
      | none => none

/-! step equations of `execBlock` (used by the Tie proof instead of unfolding the whole interpreter) -/

theorem exec_localE (f : Nat) (env : Env) (s : Store) (x : String) (e : Expr) (rest : List Stmt) :
    execBlock (f+1) env s (.localE x e :: rest) = (match evalExpr env e with
      | some v => execBlock f (setLocal env x v) s rest
      | none => none) := rfl
theorem exec_localCall (f : Nat) (env : Env) (s : Store) (x : String) (c : Cmd) (a : List Arg) (rest : List Stmt) :
    execBlock (f+1) env s (.localCall x c a :: rest) = (match command env s c a with
      | some (s, v) => execBlock f (setLocal env x v) s rest
      | none => none) := rfl
theorem exec_call (f : Nat) (env : Env) (s : Store) (c : Cmd) (a : List Arg) (rest : List Stmt) :
    execBlock (f+1) env s (.call c a :: rest) = (match command env s c a with
      | some (s, _) => execBlock f env s rest
      | none => none) := rfl
theorem exec_ret (f : Nat) (env : Env) (s : Store) (e : Expr) (rest : List Stmt) :
    execBlock (f+1) env s (.ret e :: rest) = (match evalExpr env e with
      | some v => some (env, s, some v)
      | none => none) := rfl
theorem exec_nil (f : Nat) (env : Env) (s : Store) :
    execBlock (f+1) env s [] = some (env, s, none) := rfl
theorem exec_ifte (f : Nat) (env : Env) (s : Store) (c : Cond) (t e rest : List Stmt) :
    execBlock (f+1) env s (.ifte c t e :: rest) = (match evalCond env c with
      | some b =>
        match execBlock f env s (if b then t else e) with
        | some (_, s, some r) => some (env, s, some r)
        | some (_, s, none) => execBlock f env s rest
        | none => none
      | none => none) := rfl


/-- run a script given as raw tokens: `none` = does not parse, raises an error, or ends without `return <number>` -/
def runScript (raw : List (Nat × String × Nat)) (keys : List String) (argv : List Int) (s : Store) : Option (Store × Int) :=
  match (raw.mapM Tok.ofRaw).bind parse with
  | some prog =>
    match execBlock 24 { keys := keys, argv := argv } s prog with
    | some (_, s, some v) => some (s, v)
    | _ => none
  | none => none

end Lua
end GoZero.C03
