/-
C03 — Tie: what the extractor read from core/limit/* *now* equals what the model was written against.
A failing obligation here means the code moved away from the model.
-/
import GoZero.Extracted.C03
import GoZero.C03.Model
namespace GoZero.C03.Tie
open GoZero.C03
open GoZero.Extracted.C03

theorem extraction_clean : extractionErrors = [] := by decide

/-- periodscript.lua, statement by statement, is the script `periodScript` models. -/
theorem tie_periodLua : periodLua = periodLuaStmts := by decide

/-- tokenscript.lua, statement by statement, is the script `tokenScript true` models
(in particular `ttl = math.max(1, math.floor(fill_time*2))`). -/
theorem tie_tokenLua : tokenLua = tokenLuaStmts := by decide

end GoZero.C03.Tie
