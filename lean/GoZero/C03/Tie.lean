/-
C03 — Tie: what the extractor read from core/limit/* *now* equals what the model was written against.
A failing obligation here means the code moved away from the model.
-/
import GoZero.Extracted.C03
import GoZero.C03.Model
namespace GoZero.C03.Tie
open GoZero.C03
open GoZero.Extracted.C03

theorem extraction_clean : extractionErrors = [] := by decide

/-- periodscript.lua, statement by statement, is the script `periodScript` models. -/
theorem tie_periodLua : periodLua = periodLuaStmts := by decide

/-- tokenscript.lua, statement by statement, is the script `tokenScript true` models
(in particular `ttl = math.max(1, math.floor(fill_time*2))`). -/
theorem tie_tokenLua : tokenLua = tokenLuaStmts := by decide

/-- the internal reply codes are the ones `takeResult` switches on, with the property's meaning -/
theorem tie_internalCodes :
    takeResult (.int internalOverQuota) = (.overQuota, .nil) ∧
    takeResult (.int internalAllowed) = (.allowed, .nil) ∧
    takeResult (.int internalHitQuota) = (.hitQuota, .nil) := by decide

/-- the exported codes in iota order are the model's `Code.toNat` numbering (printed by the harness) -/
theorem tie_publicCodes :
    publicCodes = ["Unknown", "Allowed", "HitQuota", "OverQuota"] ∧
    Code.unknown.toNat = 0 ∧ Code.allowed.toNat = 1 ∧ Code.hitQuota.toNat = 2 ∧ Code.overQuota.toNat = 3 := by decide

/-- `TakeCtx`: error ⇒ `(Unknown, err)`; non-integer ⇒ `ErrUnknownCode`; the switch; default ⇒ `ErrUnknownCode` -/
theorem tie_takeShape : takeShape =
    ["resp, err := h.limitStore.ScriptRunCtx(…)", "if err != nil {", "return Unknown, err", "}",
     "code, ok := resp.(int64)", "if !ok {", "return Unknown, ErrUnknownCode", "}",
     "switch code {", "case internalOverQuota:", "return OverQuota, nil", "case internalAllowed:",
     "return Allowed, nil", "case internalHitQuota:", "return HitQuota, nil", "default:",
     "return Unknown, ErrUnknownCode", "}"] := by decide

/-- the script gets KEYS = [prefix+key], ARGV = [quota, expire seconds] in this order -/
theorem tie_periodScriptCall : periodScriptCall =
    ["ctx", "periodScript", "|", "h.keyPrefix + key", "|", "strconv.Itoa(h.quota)",
     "strconv.Itoa(h.calcExpireSeconds())"] := by decide

/-- `calcExpireSeconds`, every statement: with `Align()` the window is `period - (now.Unix()+offset) % period`
(`calcExpireZ true`), without it `h.period` -/
theorem tie_calcExpire : calcExpireShape = calcExpireStmts := by decide

/-- `Take` is `TakeCtx` with the background context; `Align()` sets exactly the `align` flag; `NewPeriodLimit` stores
its arguments in the fields of the same name (period ↔ quota not swapped) -/
theorem tie_periodWrappers :
    takeWrapShape = ["return h.TakeCtx(context.Background(), key)"] ∧
    alignShape = ["return func(l *PeriodLimit) { l.align = true }"] ∧
    periodInit = ["period", "quota", "limitStore", "keyPrefix"] := by decide

/-- the script gets KEYS = [tokens, ts], ARGV = [rate, burst, now.Unix(), n] in this order -/
theorem tie_tokenScriptCall : tokenScriptCall =
    ["ctx", "tokenScript", "|", "lim.tokenKey", "lim.timestampKey", "|", "strconv.Itoa(lim.rate)",
     "strconv.Itoa(lim.burst)", "strconv.FormatInt(now.Unix(), 10)", "strconv.Itoa(n)"] := by decide

/-- a new limiter is alive, its rescue limiter is `Every(time.Second/rate)` with `burst`
(`Rescue.init`, `TCfg.ival`), and the two keys are distinct formats of the same key -/
theorem tie_limiterInit :
    limiterInit = ["1", "xrate.NewLimiter(xrate.Every(time.Second/time.Duration(rate)), burst)", "tokenKey", "timestampKey"] ∧
    tokenFormat = "{%s}.tokens" ∧ timestampFormat = "{%s}.ts" := by decide

/-- `reserveN`: rescue mode ⇒ local limiter; redis.Nil ⇒ false; ctx errors ⇒ false; other error or a
non-integer reply ⇒ `startMonitor` + local limiter; else `code == 1` (`Sys.reserveN`) -/
theorem tie_reserveShape : reserveShape =
    ["if atomic.LoadUint32(&lim.redisAlive) == 0 {", "return lim.rescueLimiter.AllowN(now, n)", "}",
     "resp, err := lim.store.ScriptRunCtx(…)", "if errors.Is(err, redis.Nil) {", "return false", "}",
     "if errorx.In(err, context.DeadlineExceeded, context.Canceled) {", "return false", "}",
     "if err != nil {", "lim.startMonitor()", "return lim.rescueLimiter.AllowN(now, n)", "}",
     "code, ok := resp.(int64)", "if !ok {", "lim.startMonitor()", "return lim.rescueLimiter.AllowN(now, n)", "}",
     "return code == 1"] := by decide

/-- `startMonitor` (`Inst.startMonitor`) -/
theorem tie_startMonitorShape : startMonitorShape =
    ["lim.rescueLock.Lock()", "defer lim.rescueLock.Unlock()", "if lim.monitorStarted {", "return", "}",
     "lim.monitorStarted = true", "atomic.StoreUint32(&lim.redisAlive, 0)", "go lim.waitForRedis()"] := by decide

/-- `waitForRedis` (`TOp.pingOk`, `TOp.monExit`) -/
theorem tie_waitForRedisShape : waitForRedisShape =
    ["ticker := time.NewTicker(…)", "defer func{", "ticker.Stop()", "lim.rescueLock.Lock()",
     "lim.monitorStarted = false", "lim.rescueLock.Unlock()", "}", "for range ticker.C {",
     "if lim.store.Ping() {", "atomic.StoreUint32(&lim.redisAlive, 1)", "return", "}", "}"] := by decide

theorem tie_allowNShape : allowNShape = ["return lim.reserveN(context.Background(), now, n)"] := by decide

/-- the other entry points pass their arguments through unchanged (`n`, `now`, the context), `Allow`/`AllowCtx` ask for
one token at `time.Now()`; `NewTokenLimiter` stores rate, burst and store in the fields of the same name -/
theorem tie_tokenWrappers :
    allowNCtxShape = ["return lim.reserveN(ctx, now, n)"] ∧
    allowShape = ["return lim.AllowN(time.Now(), 1)"] ∧
    allowCtxShape = ["return lim.AllowNCtx(ctx, time.Now(), 1)"] ∧
    limiterFields = ["rate", "burst", "store"] := by decide

end GoZero.C03.Tie
