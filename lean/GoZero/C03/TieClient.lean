/-
C03 — Tie, round 5c: the functions that were tied by statement skeleton only, SEMANTICALLY:
core/stores/redis/redis.go  ScriptRunCtx (translated error chain + forwarded arguments), ScriptRun, Ping (forwarding),
                            PingCtx (translated chain = `pingResult`), getRedis (the switch's constants = `typeSupported`),
                            acceptable (the accepted error values = `breakerAccepts`);
core/limit/periodlimit.go   NewPeriodLimit (field initialisers + the option loop interpreted as a fold = `newPeriodLimit`
                            for every argument and every option list), Align (the closure's assignments = `POpt.apply`).
-/
import GoZero.Extracted.C03
import GoZero.C03.ScriptRun
import GoZero.C03.TieSem
namespace GoZero.C03.TieClient
open GoZero.C03
open GoZero.Extracted.C03
open GoZero.C03.TieSem (FVal evalFwds)

/-! ### ScriptRunCtx / ScriptRun -/

/-- **`ScriptRunCtx` is `scriptRun`'s outer structure for every client type**: a `getRedis` error returns before anything
is sent (no round trip, no reply), otherwise the value AND error of exactly one `script.Run(ctx, conn, keys, args...)`
are returned unchanged — the caller's context, keys and arguments forwarded in this order. -/
theorem tie_scriptRunCtx_sem {σ ρ : Type} (typeErr : Bool) (c : Conn) (exec : σ → σ × ρ) (s : σ) :
    (scriptRunCtxChain typeErr = 0 ↔ (scriptRun (!typeErr) c exec s).2.2 = []) ∧
    (scriptRunCtxChain typeErr = 0 → (scriptRun (!typeErr) c exec s).2.1 = none ∧ (scriptRun (!typeErr) c exec s).1 = (s, c)) ∧
    (scriptRunCtxChain typeErr = 0 ∨ scriptRunCtxChain typeErr = 1) ∧
    scriptRunCtxCallArgs = ["ctx", "conn", "keys", "args"] := by
  refine ⟨?_, ?_, ?_, by decide⟩
  · cases typeErr <;> cases c with | mk link loaded => cases link <;> cases loaded <;> simp [scriptRunCtxChain, scriptRun]
  · cases typeErr <;> simp [scriptRunCtxChain, scriptRun]
  · cases typeErr <;> simp [scriptRunCtxChain]

/-- `ScriptRun(script, keys, args...)` = `ScriptRunCtx(context.Background(), script, keys, args...)` and
`Ping()` = `PingCtx(context.Background())`, for all actual arguments -/
theorem tie_client_forwarding_sem (script keys args : Nat) :
    evalFwds (scriptRunFwdParams.map fun p => if p = "args" then "args..." else p) [.val script, .val keys, .val args] scriptRunFwdArgs
      = some [.bg, .val script, .val keys, .val args] ∧
    evalFwds pingFwdParams [] pingFwdArgs = some [.bg] := by
  have h1 : TieSem.litNat "script" = none := by decide
  have h2 : TieSem.litNat "keys" = none := by decide
  have h3 : TieSem.litNat "args..." = none := by decide
  constructor <;>
    simp [h1, h2, h3, evalFwds, TieSem.evalFwd, scriptRunFwdParams, scriptRunFwdArgs, pingFwdParams, pingFwdArgs,
      List.lookup, List.zip]

/-! ### PingCtx -/

/-- **`PingCtx`'s chain is `pingResult`** for every client type, every outcome of the PING and every answer text -/
theorem tie_pingCtx_sem (typeErr cmdErr : Bool) (v : String) :
    pingCtxChain typeErr cmdErr v = pingResult (!typeErr) (if cmdErr then none else some v) := by
  cases typeErr <;> cases cmdErr <;> simp [pingCtxChain, pingResult]

/-! ### getRedis -/

/-- **`getRedis` yields a connection exactly for the types `typeSupported` names** (the values of the case constants
`ClusterType`, `NodeType`), and its default clause returns an error (`typeOk = false` of `scriptRun` / `pingResult`) -/
theorem tie_getRedis_sem (t : String) :
    getRedisAccepted.contains t = typeSupported t ∧ getRedisDefaultIsError = true := by
  refine ⟨?_, by decide⟩
  have : getRedisAccepted = ["cluster", "node"] := by decide
  rw [this]
  simp only [typeSupported, List.contains, List.elem]
  cases (t == "cluster") <;> cases (t == "node") <;> rfl

/-! ### acceptable -/

def _root_.GoZero.C03.ErrClass.goName : ErrClass → String
  | .none => "nil" | .redisNil => "red.Nil" | .canceled => "context.Canceled"
  | .deadline => "context.DeadlineExceeded" | .other => "<any other error>"

/-- **`acceptable` is `breakerAccepts`** for every class of error: `nil`, `redis.Nil` (the token script's `false`) and a
cancelled context are no failures of the store; a deadline that passed and every other error are -/
theorem tie_acceptable_sem (e : ErrClass) : acceptableErrs.contains e.goName = breakerAccepts e := by
  cases e <;> decide

/-! ### NewPeriodLimit and Align -/

/-- the value of a field initialiser under the constructor's parameters -/
def assign (period quota : Int) (pre : String) (l : PLim) : String × String → Option PLim
  | ("period", "period") => some { l with period := period }
  | ("quota", "quota") => some { l with quota := quota }
  | ("keyPrefix", "keyPrefix") => some { l with pre := pre }
  | ("limitStore", "limitStore") => some l            -- the store client is not part of the model's limiter
  | ("align", "true") => some { l with align := true }
  | ("align", "false") => some { l with align := false }
  | _ => none

def assignAll (period quota : Int) (pre : String) : PLim → List (String × String) → Option PLim
  | l, [] => some l
  | l, a :: rest => (assign period quota pre l a).bind fun l' => assignAll period quota pre l' rest

/-- the constructor as the extracted pieces say: the literal, then `for _, opt := range opts { opt(limiter) }` — every
option of the list applied, in order, to the limiter that is returned — each option being the closure `Align()` returns -/
def interpCtor (period quota : Int) (pre : String) (opts : List POpt) : Option PLim :=
  if newPeriodLoop = ["opt", "opts", "opt", newPeriodLitVar] ∧ newPeriodRet = newPeriodLitVar then
    (assignAll period quota pre ⟨0, 0, "", false⟩ newPeriodFields).bind fun base =>
      opts.foldlM (fun l (_ : POpt) => assignAll period quota pre l alignAssigns) base
  else none

/-- **`NewPeriodLimit` with `Align()` options is the model's `newPeriodLimit`, for every period, quota, prefix and EVERY
option list** (the fold over the options is interpreted, not pinned as text) -/
theorem tie_newPeriodLimit_sem (period quota : Int) (pre : String) (opts : List POpt) :
    interpCtor period quota pre opts = some (newPeriodLimit period quota pre opts) := by
  have hl : newPeriodLoop = ["opt", "opts", "opt", newPeriodLitVar] ∧ newPeriodRet = newPeriodLitVar := by decide
  have hf : assignAll period quota pre ⟨0, 0, "", false⟩ newPeriodFields = some ⟨period, quota, pre, false⟩ := by
    simp [newPeriodFields, assignAll, assign]
  have ha : ∀ l : PLim, assignAll period quota pre l alignAssigns = some (POpt.apply l .align) := by
    intro l; simp [alignAssigns, assignAll, assign, POpt.apply]
  unfold interpCtor
  rw [if_pos hl, hf]
  simp only [Option.bind_some, newPeriodLimit]
  generalize (⟨period, quota, pre, false⟩ : PLim) = base
  induction opts generalizing base with
  | nil => rfl
  | cons o os ih =>
    cases o
    simp only [List.foldlM_cons, ha, Option.bind_some, List.foldl_cons]
    exact ih _

/-! ### round 5e: where the local limiter is built -/

/-- **The in-process limiter is allocated in exactly one place, the constructor** (so one bucket per instance for its
whole life: `PropsApi.local_bucket_survives_outages`, `flapping_store_local_bound`): no function of tokenlimit.go assigns
`rescueLimiter` — not `startMonitor` (seeded change C03-10), not `waitForRedis`, not `reserveN` —, nor takes its address;
`rate` and `burst`, from which it is built, are written by the constructor only as well.  The model agrees: `startMonitor`
and both monitor events leave `Inst.rescue` alone. -/
theorem tie_rescueLimiter_allocation_sem :
    rescueLimiterWrites = ["NewTokenLimiter:literal"] ∧ burstWrites = ["NewTokenLimiter:literal"] ∧
    rateWrites = ["NewTokenLimiter:literal"] ∧
    (∀ inst : Inst, inst.startMonitor.rescue = inst.rescue) := by
  refine ⟨by decide, by decide, by decide, ?_⟩
  intro inst; unfold Inst.startMonitor; split <;> rfl

end GoZero.C03.TieClient
