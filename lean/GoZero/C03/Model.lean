/-
C03 — rate limiters.  Executable model of the code that exists (core Lean only):

* a Redis store (string keys, natural values, optional absolute expiry on the store clock in ms,
  lazy expiry) with the five commands the two scripts use: GET, INCRBY, EXPIRE, SETEX (+ DEL);
* `core/limit/periodscript.lua` and `core/limit/tokenscript.lua`, statement by statement;
* `PeriodLimit.TakeCtx` (reply-code mapping, store error ⇒ `(Unknown, err)`);
* `TokenLimiter.reserveN` with `redisAlive` / `monitorStarted` / `startMonitor` / `waitForRedis`
  and the in-process rescue limiter `xrate.NewLimiter(xrate.Every(time.Second/rate), burst)`
  in exact arithmetic (unit: 1/ival token, ival = ⌊10⁹/rate⌋ ns, so every quantity is an integer).

All quantities of the property are naturals (rate, burst, n, quota, period, now); negative Go ints are
outside the property's quantifier and not modelled.
-/
namespace GoZero.C03

/-! ## Redis store -/

structure Entry where
  val : Nat
  exp : Option Nat          -- absolute deadline (store clock, ms); `none` = no TTL
  deriving Repr, DecidableEq

structure Store where
  clock : Nat               -- ms
  keys  : List (String × Entry)
  deriving Repr, DecidableEq

def Store.empty : Store := ⟨0, []⟩

def Entry.live (e : Entry) (clock : Nat) : Bool :=
  match e.exp with
  | none => true
  | some d => decide (clock < d)

def lookupKey (k : String) : List (String × Entry) → Option Entry
  | [] => none
  | (k', e) :: rest => if k = k' then some e else lookupKey k rest

def eraseKey (k : String) : List (String × Entry) → List (String × Entry)
  | [] => []
  | (k', e) :: rest => if k = k' then eraseKey k rest else (k', e) :: eraseKey k rest

/-- raw entry (ignoring expiry) -/
def Store.find (s : Store) (k : String) : Option Entry := lookupKey k s.keys

/-- GET with lazy expiry: an entry whose deadline has been reached is gone. -/
def Store.get (s : Store) (k : String) : Option Entry :=
  match s.find k with
  | some e => if e.live s.clock then some e else none
  | none => none

def Store.put (s : Store) (k : String) (e : Entry) : Store :=
  { s with keys := (k, e) :: eraseKey k s.keys }

def Store.del (s : Store) (k : String) : Store :=
  { s with keys := eraseKey k s.keys }

/-- miniredis `FastForward` / the passing of time on the server. -/
def Store.advance (s : Store) (ms : Nat) : Store := { s with clock := s.clock + ms }

/-- `INCRBY key d`: a missing key counts as 0 and gets no TTL; an existing key keeps its TTL. -/
def Store.incrby (s : Store) (k : String) (d : Nat) : Store × Nat :=
  match s.get k with
  | some e => (s.put k { e with val := e.val + d }, e.val + d)
  | none => (s.put k ⟨d, none⟩, d)

/-- `EXPIRE key secs`: no-op on a missing key; `secs ≤ 0` deletes the key. -/
def Store.expire (s : Store) (k : String) (secs : Nat) : Store :=
  match s.get k with
  | some e => if secs = 0 then s.del k else s.put k { e with exp := some (s.clock + secs * 1000) }
  | none => s

/-- `SETEX key secs v`: error (`none`) when `secs ≤ 0`. -/
def Store.setex (s : Store) (k : String) (secs : Nat) (v : Nat) : Option Store :=
  if secs = 0 then none else some (s.put k ⟨v, some (s.clock + secs * 1000)⟩)

/-! ## periodscript.lua -/

/-- the statements of `periodscript.lua` (comments and blank lines dropped) this model follows. -/
def periodLuaStmts : List String := [
  "local limit = tonumber(ARGV[1])",
  "local window = tonumber(ARGV[2])",
  "local current = redis.call(\"INCRBY\", KEYS[1], 1)",
  "if current == 1 then",
  "redis.call(\"expire\", KEYS[1], window)",
  "end",
  "if current < limit then",
  "return 1",
  "elseif current == limit then",
  "return 2",
  "else",
  "return 0",
  "end"]

def periodScript (s : Store) (key : String) (limit window : Nat) : Store × Nat :=
  let r := s.incrby key 1                                        -- local current = INCRBY KEYS[1] 1
  let s1 := if r.2 = 1 then r.1.expire key window else r.1       -- if current == 1 then expire
  (s1, if r.2 < limit then 1 else if r.2 = limit then 2 else 0)

/-! ## PeriodLimit.TakeCtx -/

inductive Code where
  | unknown | allowed | hitQuota | overQuota
  deriving Repr, DecidableEq

def Code.toNat : Code → Nat
  | .unknown => 0 | .allowed => 1 | .hitQuota => 2 | .overQuota => 3

inductive PErr where
  | nil | store | unknownCode
  deriving Repr, DecidableEq

def PErr.str : PErr → String
  | .nil => "nil" | .store => "err" | .unknownCode => "unknowncode"

/-- what the store answered to the script call -/
inductive Resp where
  | err                    -- `ScriptRunCtx` returned an error
  | int (v : Int)          -- an integer reply
  | other                  -- any non-integer reply
  deriving Repr, DecidableEq

/-- the `switch code` of `TakeCtx` (internalOverQuota = 0, internalAllowed = 1, internalHitQuota = 2). -/
def takeResult : Resp → Code × PErr
  | .err => (.unknown, .store)
  | .other => (.unknown, .unknownCode)
  | .int 0 => (.overQuota, .nil)
  | .int 1 => (.allowed, .nil)
  | .int 2 => (.hitQuota, .nil)
  | .int _ => (.unknown, .unknownCode)

structure PSys where
  store : Store
  up    : Bool
  deriving Repr, DecidableEq

def PSys.init : PSys := ⟨Store.empty, true⟩

/-! ### `calcExpireSeconds`, `Align()` and non-positive arguments

Go's `%` truncates toward zero (`Int.tmod`); `unix % 0` panics (`none`).  `quota`, `period` are Go `int`s that
nothing validates.  What reaches Redis: `limit = quota`, `window = calcExpireSeconds()`.  In the script
`current ≥ 1`, so a limit `≤ 0` behaves like 0 (always `OverQuota`), and `EXPIRE key w` with `w ≤ 0` deletes
the key, so a window `≤ 0` behaves like 0 (every take finds no counter).  The natural-number model below is
therefore applied to `quota.toNat` and `window.toNat`; the correspondence run checks exactly this on miniredis. -/

/-- the statements of `calcExpireSeconds` this model follows -/
def calcExpireStmts : List String := [
  "if h.align {", "now := time.Now()", "_, offset := now.Zone()", "unix := now.Unix() + int64(offset)",
  "return h.period - int(unix%int64(h.period))", "}", "return h.period"]

/-- `calcExpireSeconds()`; `unix` = local wall-clock second (`now.Unix() + offset`); `none` = run-time panic. -/
def calcExpireZ (align : Bool) (period unix : Int) : Option Int :=
  if align then (if period = 0 then none else some (period - Int.tmod unix period)) else some period

/-- `PeriodLimit.TakeCtx`: the window argument is `calcExpireSeconds()` (`period` without `Align()`). -/
def PSys.take (quota period : Nat) (s : PSys) (key : String) : PSys × (Code × PErr) :=
  if s.up then
    let r := periodScript s.store key quota period
    ({ s with store := r.1 }, takeResult (.int r.2))
  else (s, takeResult .err)

inductive POp where
  | ft (ms : Nat)
  | take (key : String)
  | down
  | up
  deriving Repr, DecidableEq

def PSys.step (quota period : Nat) (s : PSys) : POp → PSys × Option (Code × PErr)
  | .ft ms => ({ s with store := s.store.advance ms }, none)
  | .take k => let r := s.take quota period k; (r.1, some r.2)
  | .down => ({ s with up := false }, none)
  | .up => ({ s with up := true }, none)

/-- replies of a whole run (one entry per op; `none` for ops without a reply) -/
def PSys.run (quota period : Nat) : PSys → List POp → List (Option (Code × PErr))
  | _, [] => []
  | s, op :: ops => (s.step quota period op).2 :: PSys.run quota period (s.step quota period op).1 ops

/-! ## tokenscript.lua -/

structure TCfg where
  rate  : Nat
  burst : Nat
  k1    : String     -- "{key}.tokens"
  k2    : String     -- "{key}.ts"
  deriving Repr, DecidableEq

/-- the statements of `tokenscript.lua` (after the fix `math.max(1, …)`) this model follows. -/
def tokenLuaStmts : List String := [
  "local rate = tonumber(ARGV[1])",
  "local capacity = tonumber(ARGV[2])",
  "local now = tonumber(ARGV[3])",
  "local requested = tonumber(ARGV[4])",
  "local fill_time = capacity/rate",
  "local ttl = math.max(1, math.floor(fill_time*2))",
  "local last_tokens = tonumber(redis.call(\"get\", KEYS[1]))",
  "if last_tokens == nil then",
  "last_tokens = capacity",
  "end",
  "local last_refreshed = tonumber(redis.call(\"get\", KEYS[2]))",
  "if last_refreshed == nil then",
  "last_refreshed = 0",
  "end",
  "local delta = math.max(0, now-last_refreshed)",
  "local filled_tokens = math.min(capacity, last_tokens+(delta*rate))",
  "local allowed = filled_tokens >= requested",
  "local new_tokens = filled_tokens",
  "if allowed then",
  "new_tokens = filled_tokens - requested",
  "end",
  "redis.call(\"setex\", KEYS[1], ttl, new_tokens)",
  "redis.call(\"setex\", KEYS[2], ttl, now)",
  "return allowed"]

/-- `ttl` as the script computed it at the pinned commit: `math.floor(fill_time*2)` — 0 when 2·burst < rate. -/
def ttlPinned (rate capacity : Nat) : Nat := 2 * capacity / rate

/-- `ttl` after the fix: `math.max(1, math.floor(fill_time*2))`. -/
def ttlFixed (rate capacity : Nat) : Nat := max 1 (2 * capacity / rate)

def ttlOf (fixed : Bool) (rate capacity : Nat) : Nat :=
  if fixed then ttlFixed rate capacity else ttlPinned rate capacity

def lastTokens (c : TCfg) (s : Store) : Nat :=
  match s.get c.k1 with | some e => e.val | none => c.burst          -- nil ⇒ capacity

def lastRefreshed (c : TCfg) (s : Store) : Nat :=
  match s.get c.k2 with | some e => e.val | none => 0                -- nil ⇒ 0

/-- `filled_tokens`; `now - last` on `Nat` is `math.max(0, now-last_refreshed)`. -/
def filledTokens (c : TCfg) (s : Store) (now : Nat) : Nat :=
  min c.burst (lastTokens c s + (now - lastRefreshed c s) * c.rate)

/-- one atomic execution of the script; `none` = the script raised an error (nothing was written:
the first SETEX is the first write). `fixed = false` is the script of the pinned commit. -/
def tokenScript (fixed : Bool) (c : TCfg) (s : Store) (now requested : Nat) : Option (Store × Bool) :=
  let ttl := ttlOf fixed c.rate c.burst
  let filled := filledTokens c s now
  let allowed := decide (requested ≤ filled)
  let newTokens := if allowed then filled - requested else filled
  match s.setex c.k1 ttl newTokens with
  | none => none
  | some s1 =>
    match s1.setex c.k2 ttl now with
    | none => none
    | some s2 => some (s2, allowed)

/-! ### tokenscript.lua on arguments nothing validates

`rate`, `burst`, `n` are Go `int`s; `NewTokenLimiter` and `AllowN` accept any value (`rate = 0` panics in the
constructor: `time.Second/time.Duration(rate)`).  What the script then does, on integers, for keys that have
not expired: a negative `n` is granted whenever `filled ≥ n` and ADDS `-n` tokens (the stored value may exceed
`capacity`; the next call caps it again with `math.min`); a negative `rate` makes the bucket lose `|rate|`
tokens per second; a negative `capacity` never grants a request `n ≥ 0`.  Outside the property's quantifier
(naturals); modelled only to state exactly what happens, checked line by line against the real code. -/

structure ZBucket where
  tok : Option Int
  ts  : Option Int
  deriving Repr, DecidableEq

/-- `math.max(1, math.floor(capacity/rate*2))` (floor division) -/
def ttlZ (rate cap : Int) : Int := max 1 (Int.fdiv (2 * cap) rate)

def tokenScriptZ (rate cap now req : Int) (b : ZBucket) : ZBucket × Bool :=
  let filled := min cap (b.tok.getD cap + max 0 (now - b.ts.getD 0) * rate)
  let allowed := decide (req ≤ filled)
  (⟨some (if allowed then filled - req else filled), some now⟩, allowed)

/-! ## the rescue limiter (golang.org/x/time/rate, exact arithmetic) -/

/-- `time.Second / time.Duration(rate)` in ns. -/
def TCfg.ival (c : TCfg) : Nat := 1000000000 / c.rate

/-- state of `xrate.Limiter`: `T = tokens · ival` (so refilling adds exactly the elapsed ns), `last` in ns. -/
structure Rescue where
  T    : Int
  last : Nat
  deriving Repr, DecidableEq

def Rescue.init (c : TCfg) : Rescue := ⟨(c.burst * c.ival : Nat), 0⟩

/-- `advance`: tokens after the time that passed (capped at burst), in units of 1/ival. -/
def Rescue.advanced (c : TCfg) (r : Rescue) (t : Nat) : Int :=
  let last := if t < r.last then t else r.last
  min ((c.burst * c.ival : Nat) : Int) (r.T + ((t - last : Nat) : Int))

/-- tokens left after taking `n` (negative = deficit in ns of waiting). -/
def Rescue.after (c : TCfg) (r : Rescue) (t n : Nat) : Int :=
  r.advanced c t - ((n * c.ival : Nat) : Int)

/-- `Limiter.AllowN(t, n)` = `reserveN(t, n, 0).ok`; a zero interval is `rate.Inf`. -/
def Rescue.allowN (c : TCfg) (r : Rescue) (t n : Nat) : Rescue × Bool :=
  if c.ival = 0 then (r, true)
  else if n ≤ c.burst ∧ 0 ≤ r.after c t n then (⟨r.after c t n, t⟩, true)
  else (r, false)

/-! ## TokenLimiter instances over one shared store -/

structure Inst where
  alive   : Bool      -- redisAlive == 1
  monitor : Bool      -- monitorStarted
  rescue  : Rescue
  deriving Repr, DecidableEq

def Inst.init (c : TCfg) : Inst := ⟨true, false, Rescue.init c⟩

/-- `startMonitor` -/
def Inst.startMonitor (i : Inst) : Inst :=
  if i.monitor then i else { i with monitor := true, alive := false }

structure Sys where
  store : Store
  up    : Bool
  insts : Nat → Inst

def Sys.init (c : TCfg) : Sys := ⟨Store.empty, true, fun _ => Inst.init c⟩

def upd (f : Nat → Inst) (i : Nat) (v : Inst) : Nat → Inst := fun j => if j = i then v else f j

inductive Route where
  | store | rescue
  deriving Repr, DecidableEq

/-- one `AllowN` call: who, which bucket decided, caller's `now` (ns), size, decision. -/
structure Ev where
  inst  : Nat
  route : Route
  ns    : Nat
  n     : Nat
  ok    : Bool
  deriving Repr, DecidableEq

def nsPerSec : Nat := 1000000000

def Sys.rescuePath (c : TCfg) (s : Sys) (i : Nat) (inst : Inst) (ns n : Nat) : Sys × Ev :=
  let r := inst.rescue.allowN c ns n
  ({ s with insts := upd s.insts i { inst with rescue := r.1 } }, ⟨i, .rescue, ns, n, r.2⟩)

/-- `TokenLimiter.reserveN(ctx, now, n)` of instance `i` (background context). -/
def Sys.reserveN (fixed : Bool) (c : TCfg) (s : Sys) (i ns n : Nat) : Sys × Ev :=
  let inst := s.insts i
  if !inst.alive then s.rescuePath c i inst ns n                      -- redisAlive == 0
  else if !s.up then s.rescuePath c i inst.startMonitor ns n          -- err != nil
  else
    match tokenScript fixed c s.store (ns / nsPerSec) n with           -- now.Unix()
    | none => s.rescuePath c i inst.startMonitor ns n                 -- script error reply
    | some r => ({ s with store := r.1 }, ⟨i, .store, ns, n, r.2⟩)     -- code == 1

inductive TOp where
  | ft (ms : Nat)
  | allow (i ns n : Nat)
  | down
  | up
  | pingOk (i : Nat)     -- `waitForRedis`: a ping succeeded ⇒ redisAlive := 1
  | monExit (i : Nat)    -- its deferred func: monitorStarted := false
  | lateFail (i : Nat)   -- the error path of a request that was in flight reaches `startMonitor` (no new script call)
  | cancelledAlive (i ns n : Nat)  -- `AllowNCtx` with a cancelled / expired context on an instance with redisAlive = 1:
                         -- the script call returns the context's error, `return false`, nothing is touched
                         -- (with redisAlive = 0 `reserveN` never looks at the context: that call is `.allow`)
  deriving Repr, DecidableEq

def Sys.step (fixed : Bool) (c : TCfg) (s : Sys) : TOp → Sys × Option Ev
  | .ft ms => ({ s with store := s.store.advance ms }, none)
  | .allow i ns n => let r := s.reserveN fixed c i ns n; (r.1, some r.2)
  | .down => ({ s with up := false }, none)
  | .up => ({ s with up := true }, none)
  | .pingOk i =>
      let inst := s.insts i
      if inst.monitor ∧ !inst.alive ∧ s.up then ({ s with insts := upd s.insts i { inst with alive := true } }, none)
      else (s, none)
  | .monExit i =>
      let inst := s.insts i
      if inst.monitor ∧ inst.alive then ({ s with insts := upd s.insts i { inst with monitor := false } }, none)
      else (s, none)
  | .lateFail i => ({ s with insts := upd s.insts i (s.insts i).startMonitor }, none)
  | .cancelledAlive _ _ _ => (s, none)

/-- events of a whole run -/
def Sys.run (fixed : Bool) (c : TCfg) : Sys → List TOp → List Ev
  | _, [] => []
  | s, op :: ops =>
    match (s.step fixed c op).2 with
    | some e => e :: Sys.run fixed c (s.step fixed c op).1 ops
    | none => Sys.run fixed c (s.step fixed c op).1 ops

def grantedOf (evs : List Ev) : Nat := (evs.map fun e => if e.ok then e.n else 0).sum

end GoZero.C03
