/-
C03 — property theorems (and non-vacuity examples). Nothing else lives here; lemmas are in Proofs*.lean.

Period limit   : period_refines_spec, period_exact_quota, period_grants_exactly_quota, period_life_ends,
                 store_error_never_grants, reply_code_table
Token limit    : ttl_covers_burst, token_refines_bucket, token_rate_bound, joint_meter_sound
Rescue limiter : rescue_local_bound, rescue_rate_exact
Leaving rescue : rescue_mode_has_monitor, monitor_no_lost_wakeup, monitor_at_most_one, rescue_quiescent_has_monitor,
                 seeded_order_loses_wakeup (witness for the order `redisAlive=0` before the `monitorStarted` check)
Arguments      : align_window, quota_zero_never_grants, window_zero_never_limits
Defects (witnesses about the faithful model of the pinned code):
                 pinned_ttl_zero_script_fails, pinned_never_uses_store, pinned_ttl_zero_overgrants,
                 rescue_exceeds_nominal_rate
-/
import GoZero.C03.ProofsPeriodSpec
import GoZero.C03.ProofsTokenBound
import GoZero.C03.ProofsRescueSys
import GoZero.C03.ProofsMonitor
namespace GoZero.C03.Props
open GoZero.C03 Spec

/-! ## PeriodLimit -/

/-- **Exact quota.** For every quota, every period ≥ 1 s, every key and every state `s` of the store in which
the key's counter is absent (never used, or its period has expired): the take that starts a life and all the
takes on that key during the life — interleaved in any way with takes on other keys, `up` events and clock
advances of less than one period in total, the store staying reachable — are answered
`codeOf quota 1, codeOf quota 2, …`, i.e. `Allowed` ×(quota−1), `HitQuota`, then `OverQuota` for all later ones.
Each take is one atomic script execution, so every interleaving of concurrent takes is such a sequence. -/
theorem period_exact_quota (quota period : Nat) (hp : 1 ≤ period) (k : String) (s : PSys) (rest : List POp)
    (hu : s.up = true) (hfresh : s.store.get k = none)
    (hlife : totalAdv rest < period * 1000) (hn : noDown rest) :
    PSys.repliesOn quota period k s (.take k :: rest)
      = (List.range (1 + takesOn k rest)).map (fun i => (codeOf quota (i + 1), PErr.nil)) := by
  obtain ⟨h1, h2, h3⟩ := periodScript_fresh s.store k quota period hp hfresh
  have hA := running_life quota period k (s.store.clock + period * 1000) rest (s.take quota period k).1 1
    (by simp [PSys.take, hu]) (by simp [PSys.take, hu, h1]) (Nat.le_refl 1)
    (by simp [PSys.take, hu, h2]; omega) hn
  have hm : 1 + takesOn k rest = takesOn k rest + 1 := by omega
  rw [hm, range_map_shift]
  simp only [PSys.repliesOn, PSys.step, if_true, Option.toList]
  rw [hA.1]
  have : (s.take quota period k).2 = (codeOf quota 1, PErr.nil) := by
    simp only [PSys.take, hu, if_true, h3]
    exact takeResult_code quota 1
  simp [this]
  intro a _; congr 1; omega

example : PSys.repliesOn 3 2 "a" PSys.init
      [.take "a", .take "b", .ft 1999, .take "a", .up, .take "a", .take "b", .take "a", .take "a"]
    = [(.allowed, .nil), (.allowed, .nil), (.hitQuota, .nil), (.overQuota, .nil), (.overQuota, .nil)] := by decide

/-- **Exactly quota grants per life**: in the setting of `period_exact_quota` the number of granted takes
(`Allowed` or `HitQuota`) on the key is `min (number of takes) quota`. -/
theorem period_grants_exactly_quota (quota period : Nat) (hp : 1 ≤ period) (k : String)
    (s : PSys) (rest : List POp) (hu : s.up = true) (hfresh : s.store.get k = none)
    (hlife : totalAdv rest < period * 1000) (hn : noDown rest) :
    ((PSys.repliesOn quota period k s (.take k :: rest)).filter granted).length
      = min (1 + takesOn k rest) quota := by
  rw [period_exact_quota quota period hp k s rest hu hfresh hlife hn, List.filter_map, List.length_map]
  rw [← count_lt_range]
  congr 1
  apply List.filter_congr
  intro i _
  simp only [Function.comp]
  exact granted_codeOf quota i

/-- **Until the period expires**: the deadline set by the first take never moves; once `period` seconds have
passed since that take the counter is gone, so the next take starts a new life (`period_exact_quota` applies again). -/
theorem period_life_ends (quota period : Nat) (hp : 1 ≤ period) (k : String) (s : PSys) (rest : List POp)
    (hu : s.up = true) (hfresh : s.store.get k = none)
    (hlife : totalAdv rest < period * 1000) (hn : noDown rest) (ms : Nat)
    (hexp : period * 1000 ≤ totalAdv rest + ms) :
    (PSys.exec quota period s (.take k :: rest ++ [.ft ms])).store.get k = none := by
  obtain ⟨h1, h2, h3⟩ := periodScript_fresh s.store k quota period hp hfresh
  have hA := running_life quota period k (s.store.clock + period * 1000) rest (s.take quota period k).1 1
    (by simp [PSys.take, hu]) (by simp [PSys.take, hu, h1]) (Nat.le_refl 1)
    (by simp [PSys.take, hu, h2]; omega) hn
  have hexec : ∀ (l1 l2 : List POp) (t : PSys), PSys.exec quota period t (l1 ++ l2)
      = PSys.exec quota period (PSys.exec quota period t l1) l2 := by
    intro l1; induction l1 with
    | nil => intro l2 t; rfl
    | cons o l1 ih => intro l2 t; simp [PSys.exec, ih]
  have : (.take k :: rest ++ [POp.ft ms]) = (POp.take k :: rest) ++ [POp.ft ms] := rfl
  rw [this, hexec]
  simp only [PSys.exec, PSys.step]
  obtain ⟨_, t2, t3, _⟩ := hA
  rw [get_eq]
  simp only [find_advance, clock_advance, t2, t3]
  simp [Entry.live, PSys.take, hu, h2]
  omega

example : (PSys.exec 3 2 PSys.init [.take "a", .take "a", .ft 1999, .take "a"]).store.get "a"
      = some ⟨3, some 2000⟩ ∧
    (PSys.exec 3 2 PSys.init [.take "a", .take "a", .ft 1999, .take "a", .ft 1]).store.get "a" = none := by decide

/-- **Refinement to the specification by lives** (the executable monitor of the driver): for every quota,
period ≥ 1 and EVERY sequence of takes (any keys), clock advances, outages and recoveries from the empty store,
the replies of the model are the replies of `Spec.ptake` — a life per key starting at the take that finds no
running life, lasting `period` seconds, whose i-th take is answered `codeOf quota i`; takes during an outage are
answered `(Unknown, err)` and do not count. -/
theorem period_refines_spec (quota period : Nat) (hp : 1 ≤ period) (ops : List POp) :
    PSys.run quota period PSys.init ops = SpecSys.run quota period SpecSys.init ops :=
  period_refines_spec_from quota period hp ops PSys.init SpecSys.init ⟨rfl, rfl, fun _ => rfl⟩

example : PSys.run 2 1 PSys.init [.take "a", .take "a", .down, .take "a", .up, .take "a", .ft 1000, .take "a"]
    = [some (.allowed, .nil), some (.hitQuota, .nil), none, some (.unknown, .store), none,
       some (.overQuota, .nil), none, some (.allowed, .nil)] := by decide

/-- **A store error is an error, never a grant**: while the store is unreachable `Take` answers
`(Unknown, err)` and changes nothing. -/
theorem store_error_never_grants (quota period : Nat) (s : PSys) (k : String) (hd : s.up = false) :
    s.take quota period k = (s, (Code.unknown, PErr.store)) ∧ granted (s.take quota period k).2 = false := by
  simp [PSys.take, hd, takeResult, granted]

/-- the reply table of `TakeCtx`: the only granting replies are the integer codes 1 and 2 -/
theorem reply_code_table (r : Resp) :
    granted (takeResult r) = true ↔ (r = .int 1 ∨ r = .int 2) := by
  cases r with
  | err => simp [takeResult, granted]
  | other => simp [takeResult, granted]
  | int v =>
    by_cases h0 : v = 0
    · subst h0; simp [takeResult, granted]
    · by_cases h1 : v = 1
      · subst h1; simp [takeResult, granted]
      · by_cases h2 : v = 2
        · subst h2; simp [takeResult, granted]
        · have : takeResult (.int v) = (.unknown, .unknownCode) := by
            unfold takeResult; split <;> simp_all
          simp [this, granted, h1, h2]

/-! ## TokenLimiter: the shared store -/

/-- the TTL written by the (fixed) script always covers a complete refill:
`max 1 ⌊2·burst/rate⌋ · rate ≥ burst`; so an expired key pair means "full bucket". -/
theorem ttl_covers_burst (rate burst : Nat) (hr : 0 < rate) : burst ≤ ttlFixed rate burst * rate :=
  GoZero.C03.ttl_covers_burst rate burst hr

/-- **One joint bucket.** For every rate ≥ 1, every burst, any number of limiter instances, any sequence of
requests (any instance, any size, any `now`), clock advances, outages, recoveries and monitor events that is
well-timed (`Timed`: callers' seconds never go back and track the store clock): the decisions of all the
requests that reach the store are exactly the decisions of ONE abstract token bucket of size `burst`, refilled
with `rate` tokens per whole second, granting a request for `n` iff it holds `n`. -/
theorem token_refines_bucket (c : TCfg) (hr : 0 < c.rate) (hk : c.k1 ≠ c.k2) (ops : List TOp) (ht : Timed c ops) :
    (storeEvs (Sys.run true c (Sys.init c) ops)).map (·.ok)
      = Bucket.run c.rate c.burst (Bucket.init c.burst) ((storeEvs (Sys.run true c (Sys.init c) ops)).map callOf) :=
  (sys_refines_bucket c hr hk ops (Sys.init c) (Bucket.init c.burst) [] (tinv_init c) ht).1

/-- **The joint bound.** In the same setting, over ANY interval of the history (from the store-decided request
`e1` to the last request of `e1 :: mid`) the tokens granted jointly by all instances are at most
`burst + rate × elapsed whole seconds`. -/
theorem token_rate_bound (c : TCfg) (hr : 0 < c.rate) (hk : c.k1 ≠ c.k2) (ops : List TOp) (ht : Timed c ops)
    (pre mid post : List Ev) (e1 : Ev)
    (hsplit : storeEvs (Sys.run true c (Sys.init c) ops) = pre ++ (e1 :: mid) ++ post) :
    grantedOf (e1 :: mid)
      ≤ c.burst + c.rate * (((e1 :: mid).getLast (by simp)).ns / nsPerSec - e1.ns / nsPerSec) := by
  obtain ⟨h1, h2⟩ := sys_refines_bucket c hr hk ops (Sys.init c) (Bucket.init c.burst) [] (tinv_init c) ht
  exact interval_of_refinement c.rate c.burst (Bucket.init c.burst) _ pre post mid e1 h1 h2 hsplit

/-- **The driver's joint meter is sound**: on any monotone history decided by the abstract bucket (hence, by
`token_refines_bucket`, on the store-decided requests of any well-timed run) the leaky-bucket meter with which
the driver evaluates "granted ≤ burst + rate × elapsed over every interval" never exceeds `burst`. -/
theorem joint_meter_sound (rate burst : Nat) (calls : List (Nat × Nat)) (hm : Mono 0 calls) :
    ∀ lv ∈ meterLevels rate Meter.init (calls.zip (Bucket.run rate burst (Bucket.init burst) calls)), lv ≤ burst :=
  meter_sound_from rate burst calls (Bucket.init burst) Meter.init hm (Nat.le_refl _)
    (by simp [Meter.init, Bucket.init])

example : meterLevels 5 Meter.init
    ([(10, 7), (10, 4), (11, 8), (15, 10)].zip (Bucket.run 5 10 (Bucket.init 10) [(10, 7), (10, 4), (11, 8), (15, 10)]))
    = [7, 10, 10] := by decide

/-- a concrete well-timed history: two instances, an outage in the middle, key expiry at the end -/
def exCfg : TCfg := ⟨5, 10, "{k}.tokens", "{k}.ts"⟩
def exOps : List TOp :=
  [.allow 0 1700000000000000000 7, .allow 1 1700000000500000000 4, .ft 1000, .allow 1 1700000001000000000 8,
   .down, .allow 0 1700000001000000000 1, .up, .pingOk 0, .monExit 0, .ft 4000, .allow 0 1700000005200000000 10]

example : Timed exCfg exOps := by
  simp [Timed, TimedFrom, exOps, exCfg, ttlFixed, nsPerSec]

example : (Sys.run true exCfg (Sys.init exCfg) exOps).map (fun e => (e.inst, e.route, e.ok))
    = [(0, .store, true), (1, .store, false), (1, .store, true), (0, .rescue, true), (0, .store, true)] := by decide

/-! ## TokenLimiter: the rescue limiter -/

/-- **The local bound.** For every rate in 1…10⁹ (`ival = ⌊10⁹/rate⌋ ns ≠ 0`), every instance `i`, either
script version and ANY operation sequence: over any interval of the requests that instance `i` decided with its
local limiter (monotone `now`), `ival × granted ≤ ival × burst + elapsed ns`, i.e.
granted ≤ burst + L × elapsed with L = 10⁹/⌊10⁹/rate⌋ per second (see `rescue_rate_exact`). -/
theorem rescue_local_bound (fixed : Bool) (c : TCfg) (hi : c.ival ≠ 0) (i : Nat) (ops : List TOp)
    (pre mid post : List Ev) (e1 : Ev)
    (hmono : Mono 0 ((rescueEvs i (Sys.run fixed c (Sys.init c) ops)).map rcallOf))
    (hsplit : rescueEvs i (Sys.run fixed c (Sys.init c) ops) = pre ++ (e1 :: mid) ++ post) :
    grantedOf (e1 :: mid) * c.ival ≤ c.burst * c.ival + (((e1 :: mid).getLast (by simp)).ns - e1.ns) := by
  have href := sys_rescue_run fixed c i ops (Sys.init c)
  exact rescue_interval_of_run c hi (Rescue.init c) rfl (Int.natCast_nonneg _) _ pre post mid e1 href hmono hsplit

/-- the exact refill rate of the rescue limiter: `L = 10⁹/ival ≥ rate`, with equality iff `rate ∣ 10⁹`;
the excess is below one token per `ival·rate/(10⁹ − ival·rate)` … in integers: `rate·ival ≤ 10⁹ < rate·(ival+1)`. -/
theorem rescue_rate_exact (rate : Nat) (hr : 0 < rate) (hle : rate ≤ 1000000000) :
    0 < 1000000000 / rate ∧ rate * (1000000000 / rate) ≤ 1000000000 ∧
    1000000000 < rate * (1000000000 / rate + 1) ∧
    (rate * (1000000000 / rate) = 1000000000 ↔ rate ∣ 1000000000) := by
  have h1 := Nat.div_add_mod 1000000000 rate
  have h2 := Nat.mod_lt 1000000000 hr
  refine ⟨Nat.div_pos hle hr, by omega, by rw [Nat.mul_add]; omega, ?_⟩
  constructor
  · intro h; exact ⟨1000000000 / rate, h.symm⟩
  · intro h; exact Nat.mul_div_cancel' h

example : (⟨5, 2, "a", "b"⟩ : TCfg).ival = 200000000 ∧ (⟨7, 2, "a", "b"⟩ : TCfg).ival = 142857142 := by decide

/-! ## Rescue mode is always left again: the monitor goroutine -/

/-- **No lost wake-up (system level).** For every operation sequence — requests, outages, recoveries, successful
pings, monitor exits and late failures (`lateFail`: the error path of a request that was in flight reaches
`startMonitor` at any later moment, in particular between the monitor's `redisAlive=1` and its deferred
`monitorStarted=false`) — an instance that is in rescue mode has a monitor: `redisAlive = 0 → monitorStarted`.
So whenever the store is reachable the event `pingOk i` is enabled and brings the instance back to the ONE bucket. -/
theorem rescue_mode_has_monitor (fixed : Bool) (c : TCfg) (ops : List TOp) (i : Nat) :
    ((Sys.exec fixed c (Sys.init c) ops).insts i).alive = false →
    ((Sys.exec fixed c (Sys.init c) ops).insts i).monitor = true := by
  have key : ∀ (ops : List TOp) (s : Sys), (∀ j, (s.insts j).alive = false → (s.insts j).monitor = true) →
      ∀ j, ((Sys.exec fixed c s ops).insts j).alive = false → ((Sys.exec fixed c s ops).insts j).monitor = true := by
    intro ops
    induction ops with
    | nil => intro s h; exact h
    | cons op ops ih =>
      intro s h
      apply ih
      have hsm : ∀ (x : Inst), (x.alive = false → x.monitor = true) →
          (x.startMonitor.alive = false → x.startMonitor.monitor = true) := by
        intro x hx; unfold Inst.startMonitor; split <;> simp_all
      have hrp : ∀ (s : Sys) (k : Nat) (x : Inst) (ns n : Nat), (∀ j, (s.insts j).alive = false → (s.insts j).monitor = true) →
          (x.alive = false → x.monitor = true) →
          ∀ j, (((s.rescuePath c k x ns n).1.insts j).alive = false → ((s.rescuePath c k x ns n).1.insts j).monitor = true) := by
        intro s k x ns n hs hx j
        unfold Sys.rescuePath
        by_cases hjk : j = k
        · subst hjk; simpa [upd] using hx
        · simpa [upd, hjk] using hs j
      cases op with
      | ft ms => exact h
      | down => exact h
      | up => exact h
      | cancelledAlive k ns n => exact h
      | allow k ns n =>
        simp only [Sys.step, Sys.reserveN]
        split
        · exact hrp s k _ ns n h (h k)
        · split
          · exact hrp s k _ ns n h (hsm _ (h k))
          · split
            · exact hrp s k _ ns n h (hsm _ (h k))
            · exact h
      | pingOk k =>
        simp only [Sys.step]
        split
        · intro j; by_cases hjk : j = k
          · subst hjk; simp [upd]
          · simpa [upd, hjk] using h j
        · exact h
      | monExit k =>
        simp only [Sys.step]
        split
        next hg =>
          intro j; by_cases hjk : j = k
          · subst hjk; simp [upd, hg.2]
          · simpa [upd, hjk] using h j
        · exact h
      | lateFail k =>
        simp only [Sys.step]
        intro j; by_cases hjk : j = k
        · subst hjk; simpa [upd] using hsm _ (h j)
        · simpa [upd, hjk] using h j
  exact key ops (Sys.init c) (by intro j hj; simp [Sys.init, Inst.init] at hj) i

example : ((Sys.exec true exCfg (Sys.init exCfg)
      [.down, .allow 0 1700000001000000000 1, .up, .pingOk 0, .down, .allow 0 1700000001000000000 1, .lateFail 0]).insts 0).alive = true ∧
    ((Sys.exec true exCfg (Sys.init exCfg) [.down, .allow 0 1700000001000000000 1, .up]).insts 0).alive = false := by decide

/-- **No lost wake-up (statement level).** `startMonitor` executed row by row by any number of goroutines, interleaved
in every possible way with the monitor goroutines' steps (ping ok + `redisAlive=1`, deferred Lock, `monitorStarted=false`,
Unlock): whenever `redisAlive = 0`, a monitor goroutine is in its ping loop, or the goroutine holding `rescueLock`
is at `go lim.waitForRedis()` (its next step, which nothing can block, starts one). -/
theorem monitor_no_lost_wakeup (s : Mon.St) (h : Mon.Reach false s) (ha : s.alive = false) :
    1 ≤ s.nLoop ∨ ∃ t, s.lock = .caller t ∧ s.pc t = .spawn :=
  (Mon.inv_reach s h).wake ha

/-- there is never more than one monitor goroutine per limiter, and `monitorStarted` says exactly whether there is one
(in its loop, waiting for the lock in its deferred func, holding it before the clear — or promised by the goroutine
that has set the flag and is about to spawn it) -/
theorem monitor_at_most_one (s : Mon.St) (h : Mon.Reach false s) :
    s.nLoop + s.nWant + (if s.lock = .monClear then 1 else 0) + Mon.pending s = Mon.b2n s.started ∧
    s.nLoop + s.nWant ≤ 1 := by
  have hc := (Mon.inv_reach s h).count
  refine ⟨hc, ?_⟩
  have hb : Mon.b2n s.started ≤ 1 := by cases s.started <;> simp [Mon.b2n]
  generalize Mon.pending s = p at hc
  generalize (if s.lock = Mon.Holder.monClear then 1 else 0 : Nat) = q at hc
  omega

/-- what the harness reads while it holds `rescueLock` itself (nobody is inside `startMonitor` or the deferred func):
`redisAlive = 0` implies `monitorStarted` and exactly one goroutine in the ping loop; the pair
(`redisAlive = 0`, `monitorStarted = false`) — reported as STUCK — is unreachable for the code as it is. -/
theorem rescue_quiescent_has_monitor (s : Mon.St) (h : Mon.Reach false s) (hl : s.lock = .free) (ha : s.alive = false) :
    s.started = true ∧ s.nLoop = 1 ∧ s.nWant = 0 := by
  have hi := Mon.inv_reach s h
  have hw := hi.wake ha
  have hc := hi.count
  rcases hw with hw | ⟨t, hlt, _⟩
  · simp only [Mon.pending, hl] at hc
    have hq : (if Mon.Holder.free = Mon.Holder.monClear then 1 else 0 : Nat) = 0 := by simp
    rw [hq] at hc
    cases hs : s.started with
    | false => simp only [hs, Mon.b2n] at hc; exfalso; simp at hc; omega
    | true =>
      simp only [hs, Mon.b2n] at hc
      simp at hc
      exact ⟨rfl, by omega, by omega⟩
  · simp [hl] at hlt

/-- the schedule of the seeded change C03-2 / of any "late failure in the window" -/
def lateSchedule : List Mon.Ev :=
  [.caller 0, .caller 0, .caller 0, .caller 0, .caller 0, .caller 0, .caller 0,   -- a failed request starts the monitor
   .pingOk,                                                                       -- the store is back: redisAlive=1
   .caller 1, .caller 1, .caller 1, .caller 1,                                    -- a late failure: monitorStarted is still set
   .monLock, .monClear, .monUnlock]                                               -- the deferred cleanup

/-- WITNESS for the order of the seeded change (`redisAlive=0` stored before Lock and before the `monitorStarted`
check): the schedule above ends with `redisAlive = 0`, `monitorStarted = false`, no monitor goroutine and nobody
inside `startMonitor` — the instance stays on its local limiter for ever.  With the order of the code as it is the
same schedule ends with `redisAlive = 1`. -/
theorem seeded_order_loses_wakeup :
    ((Mon.run true Mon.init lateSchedule).map fun s =>
        decide (s.alive = false ∧ s.started = false ∧ s.nLoop = 0 ∧ s.nWant = 0 ∧ s.lock = .free ∧ s.pc 0 = .idle ∧ s.pc 1 = .idle))
      = some true ∧
    ((Mon.run false Mon.init lateSchedule).map fun s =>
        decide (s.alive = true ∧ s.started = false ∧ s.nLoop = 0 ∧ s.nWant = 0 ∧ s.lock = .free ∧ s.pc 0 = .idle ∧ s.pc 1 = .idle))
      = some true := by decide

/-! ## `Align()` and arguments nothing validates -/

/-- **Aligned window.** With `Align()`, `period ≥ 1` and a non-negative local clock, the window handed to the script is
`1 … period` seconds and ends exactly on a multiple of `period` of the local clock (midnight for a day). A life started
by a take therefore lasts at most `period`: `period_exact_quota` / `period_life_ends` apply with this window. -/
theorem align_window (period unix : Int) (hp : 1 ≤ period) (hu : 0 ≤ unix) :
    ∃ w, calcExpireZ true period unix = some w ∧ 1 ≤ w ∧ w ≤ period ∧ (unix + w) % period = 0 := by
  have hp0 : period ≠ 0 := by omega
  refine ⟨period - Int.tmod unix period, by simp [calcExpireZ, hp0], ?_, ?_, ?_⟩
  · have := Int.tmod_lt_of_pos unix (by omega : 0 < period); omega
  · have := Int.tmod_nonneg period hu; omega
  · rw [Int.tmod_eq_emod_of_nonneg hu]
    have h1 := Int.emod_add_mul_ediv unix period
    have : unix + (period - unix % period) = period * (unix / period + 1) := by
      rw [Int.mul_add]; omega
    rw [this]; exact Int.mul_emod_right _ _

example : calcExpireZ true 86400 1790689016 = some 37384 ∧ calcExpireZ true 0 5 = none ∧
    calcExpireZ true (-7) 1790689016 = some (-11) ∧ calcExpireZ false (-7) 0 = some (-7) := by decide

/-- **`quota ≤ 0` never grants** (the script compares `current ≥ 1` with the limit): every take is `OverQuota`. -/
theorem quota_zero_never_grants (window : Nat) (s : PSys) (k : String) (hu : s.up = true) :
    (s.take 0 window k).2 = (Code.overQuota, PErr.nil) := by
  have hne : (s.store.incrby k 1).2 ≠ 0 := by unfold Store.incrby; split <;> simp
  simp [PSys.take, hu, periodScript, takeResult, hne]

/-- **A window `≤ 0` never limits** (`EXPIRE key w` with `w ≤ 0` deletes the counter; `period ≤ 0`, or `Align()` with a
negative period): every take finds no counter and is answered like the first of a life — `Allowed` for ever when
`quota ≥ 2`. Nothing in `NewPeriodLimit` rejects such a period. -/
theorem window_zero_never_limits (quota : Nat) (s : PSys) (k : String) (hu : s.up = true) (hf : s.store.get k = none) :
    (s.take quota 0 k).2 = (codeOf quota 1, PErr.nil) ∧ (s.take quota 0 k).1.store.get k = none ∧
    (s.take quota 0 k).1.up = true := by
  have hinc : s.store.incrby k 1 = (s.store.put k ⟨1, none⟩, 1) := by simp [Store.incrby, hf]
  have hget : (s.store.put k ⟨1, none⟩).get k = some ⟨1, none⟩ := by
    simp [Store.get, Store.find, Store.put, lookupKey, Entry.live]
  have hdel : ((s.store.put k ⟨1, none⟩).del k).get k = none := by
    rw [get_eq, find_del]; simp
  refine ⟨?_, ?_, ?_⟩
  · simp only [PSys.take, hu, if_true, periodScript, hinc]
    exact takeResult_code quota 1
  · simp [PSys.take, hu, periodScript, hinc, Store.expire, hget, hdel]
  · simp [PSys.take, hu]

example : (PSys.run 3 0 PSys.init [.take "a", .take "a", .take "a", .take "a", .take "a"]).filterMap id
    = List.replicate 5 (Code.allowed, PErr.nil) := by decide


/-- what the script does with arguments nothing validates (observed identically on the real code):
rate 3, burst 5, fresh keys: `n = -2` is granted and leaves 7 > burst tokens stored (capped again by the next call);
rate −2, burst 3: the bucket holds 3 − 2·now tokens, nothing positive is ever granted. -/
example : (tokenScriptZ 3 5 1700000000 (-2) ⟨none, none⟩) = (⟨some 7, some 1700000000⟩, true) ∧
    (tokenScriptZ 3 5 1700000000 5 ⟨some 7, some 1700000000⟩) = (⟨some 0, some 1700000000⟩, true) ∧
    (tokenScriptZ (-2) 3 1700000000 1 ⟨none, none⟩) = (⟨some (-3399999997), some 1700000000⟩, false) ∧
    ttlZ (-2) 3 = 1 ∧ ttlZ 3 5 = 3 := by decide

/-! ## Defects: witnesses on the faithful model of the pinned code -/

/-- DEFECT (core/limit/tokenscript.lua at the pinned commit): whenever `2·burst < rate` the script computes
`ttl = 0`, its first SETEX is rejected and the script fails — on every call, in every state. -/
theorem pinned_ttl_zero_script_fails (c : TCfg) (h : 2 * c.burst < c.rate) (s : Store) (now n : Nat) :
    tokenScript false c s now n = none := by
  have : ttlPinned c.rate c.burst = 0 := by unfold ttlPinned; exact Nat.div_eq_of_lt h
  simp [tokenScript, ttlOf, this, Store.setex]

/-- … hence no request is ever decided by the shared store: every instance decides with its own local bucket. -/
theorem pinned_never_uses_store (c : TCfg) (h : 2 * c.burst < c.rate) :
    ∀ (ops : List TOp) (s : Sys), storeEvs (Sys.run false c s ops) = [] := by
  intro ops
  induction ops with
  | nil => intro s; rfl
  | cons op ops ih =>
    intro s
    cases op with
    | allow i ns n =>
      have hrun : Sys.run false c s (TOp.allow i ns n :: ops)
          = (s.reserveN false c i ns n).2 :: Sys.run false c (s.reserveN false c i ns n).1 ops := by
        simp [Sys.run, Sys.step]
      have hroute : (s.reserveN false c i ns n).2.route = Route.rescue := by
        unfold Sys.reserveN
        rw [pinned_ttl_zero_script_fails c h]
        by_cases ha : (s.insts i).alive = true <;> by_cases hu : s.up = true <;> simp [ha, hu, Sys.rescuePath]
      rw [hrun]
      simp only [storeEvs, List.filter, hroute] at ih ⊢
      simpa using ih _
    | ft ms => simpa [Sys.run, Sys.step] using ih _
    | down => simpa [Sys.run, Sys.step] using ih _
    | up => simpa [Sys.run, Sys.step] using ih _
    | lateFail i => simpa [Sys.run, Sys.step] using ih _
    | cancelledAlive i ns n => simpa [Sys.run, Sys.step] using ih _
    | pingOk i =>
      obtain ⟨_, h2⟩ := step_insts_other false c s (.pingOk i) 0 (by intros; simp)
      have : Sys.run false c s (TOp.pingOk i :: ops) = Sys.run false c (s.step false c (.pingOk i)).1 ops := by
        simp [Sys.run, h2]
      rw [this]; exact ih _
    | monExit i =>
      obtain ⟨_, h2⟩ := step_insts_other false c s (.monExit i) 0 (by intros; simp)
      have : Sys.run false c s (TOp.monExit i :: ops) = Sys.run false c (s.step false c (.monExit i)).1 ops := by
        simp [Sys.run, h2]
      rw [this]; exact ih _

def wCfg : TCfg := ⟨5, 2, "{k}.tokens", "{k}.ts"⟩
def wOps : List TOp :=
  [.allow 0 1700000000000000000 1, .allow 0 1700000000000000000 1,
   .allow 1 1700000000000000000 1, .allow 1 1700000000000000000 1]

/-- WITNESS (replayed on the real code): rate 5, burst 2, two instances, reachable store, four requests at one
instant — the pinned script grants 4 (> burst + rate × 0 = 2); the fixed script grants exactly 2. -/
theorem pinned_ttl_zero_overgrants :
    grantedOf (Sys.run false wCfg (Sys.init wCfg) wOps) = 4 ∧
    grantedOf (Sys.run true wCfg (Sys.init wCfg) wOps) = 2 := by decide

def rCfg : TCfg := ⟨3, 1, "{k}.tokens", "{k}.ts"⟩

/-- WITNESS (finding, not patched): the rescue limiter is built with `Every(time.Second/rate)`, whose
interval is truncated to whole ns; for rate = 3 (∤ 10⁹) it refills every 333333333 ns: two grants within
0.333333333 s, while burst + rate × elapsed = 1.999999999 < 2. -/
theorem rescue_exceeds_nominal_rate :
    Rescue.run rCfg (Rescue.init rCfg) [(0, 1), (333333333, 1)] = [true, true] ∧
    1 * 1000000000 + 3 * 333333333 < 2 * 1000000000 := by decide

end GoZero.C03.Props
