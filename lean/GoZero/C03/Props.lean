/-
C03 — property theorems.
-/
import GoZero.C03.Spec
namespace GoZero.C03.Props
open GoZero.C03

/-- a store error is reported as an error, never as a grant; unknown replies are `ErrUnknownCode`. -/
theorem store_error_never_grants :
    takeResult .err = (.unknown, .store) ∧ takeResult .other = (.unknown, .unknownCode) := by
  constructor <;> rfl

end GoZero.C03.Props
