/-
C03 — the rescue limiter (exact model of x/time/rate): potential argument and local interval bound.
-/
import GoZero.C03.ProofsTokenBound
namespace GoZero.C03
open GoZero.C03 Spec

theorem advanced_of_le (c : TCfg) (r : Rescue) (t : Nat) (h : r.last ≤ t) :
    r.advanced c t = min ((c.burst * c.ival : Nat) : Int) (r.T + ((t - r.last : Nat) : Int)) := by
  unfold Rescue.advanced
  have : ¬ t < r.last := by omega
  simp [this]

/-- one request at `t ≥ t0 ≥ last`: granted·ival + tokens available afterwards ≤ tokens available at `t0` + elapsed -/
theorem rescue_step (c : TCfg) (hi : c.ival ≠ 0) (r : Rescue) (t0 t n : Nat) (h0 : r.last ≤ t0) (h1 : t0 ≤ t) (hT : 0 ≤ r.T) :
    ((if (r.allowN c t n).2 then n else 0) * c.ival : Nat) + (r.allowN c t n).1.advanced c t
        ≤ r.advanced c t0 + ((t - t0 : Nat) : Int) ∧
    (r.allowN c t n).1.last ≤ t ∧ 0 ≤ (r.allowN c t n).1.T := by
  have ha := advanced_of_le c r t (by omega)
  have ha0 := advanced_of_le c r t0 h0
  unfold Rescue.allowN
  simp only [hi, if_false]
  by_cases hg : n ≤ c.burst ∧ 0 ≤ r.after c t n
  · simp only [hg, and_self, if_true]
    unfold Rescue.after at hg ⊢
    have hadv : Rescue.advanced c ⟨r.advanced c t - ((n * c.ival : Nat) : Int), t⟩ t
        = r.advanced c t - ((n * c.ival : Nat) : Int) := by
      rw [advanced_of_le c _ t (Nat.le_refl t)]
      simp only [Nat.sub_self]
      have : r.advanced c t ≤ ((c.burst * c.ival : Nat) : Int) := by rw [ha]; omega
      omega
    rw [hadv]
    have hg2 := hg.2
    refine ⟨?_, ?_⟩
    · rw [ha, ha0]
      have : ((t - r.last : Nat) : Int) = ((t0 - r.last : Nat) : Int) + ((t - t0 : Nat) : Int) := by omega
      simp
      omega
    · simp
  · simp only [hg, if_false]
    refine ⟨?_, by omega, hT⟩
    rw [ha, ha0]
    have : ((t - r.last : Nat) : Int) = ((t0 - r.last : Nat) : Int) + ((t - t0 : Nat) : Int) := by omega
    simp
    omega


theorem advanced_mono_time (c : TCfg) (r : Rescue) (t0 t : Nat) (h0 : r.last ≤ t0) (h1 : t0 ≤ t) :
    r.advanced c t ≤ r.advanced c t0 + ((t - t0 : Nat) : Int) := by
  rw [advanced_of_le c r t (by omega), advanced_of_le c r t0 h0]
  have : ((t - r.last : Nat) : Int) = ((t0 - r.last : Nat) : Int) + ((t - t0 : Nat) : Int) := by omega
  omega

/-- last request time of a non-empty monotone sequence (or `t0`) -/
def lastTime (t0 : Nat) : List (Nat × Nat) → Nat
  | [] => t0
  | (t, _) :: rest => lastTime t rest

theorem lastTime_ge (l : List (Nat × Nat)) : ∀ t0, Mono t0 l → t0 ≤ lastTime t0 l := by
  induction l with
  | nil => intro t0 _; exact Nat.le_refl _
  | cons p l ih =>
    intro t0 h; obtain ⟨t, n⟩ := p
    have := ih t h.2
    simp only [lastTime]; exact Nat.le_trans h.1 this

/-- potential argument for the rescue limiter -/
theorem rescue_potential (c : TCfg) (hi : c.ival ≠ 0) : ∀ (calls : List (Nat × Nat)) (r : Rescue) (t0 : Nat),
    r.last ≤ t0 → 0 ≤ r.T → Mono t0 calls →
    ((Rescue.granted c r calls * c.ival : Nat) : Int) + (Rescue.exec c r calls).advanced c (lastTime t0 calls)
        ≤ r.advanced c t0 + ((lastTime t0 calls - t0 : Nat) : Int) ∧
    (Rescue.exec c r calls).last ≤ lastTime t0 calls ∧ 0 ≤ (Rescue.exec c r calls).T := by
  intro calls
  induction calls with
  | nil => intro r t0 h0 hT _; simp [Rescue.granted, Rescue.exec, lastTime, h0, hT]
  | cons p rest ih =>
    intro r t0 h0 hT hm
    obtain ⟨t, n⟩ := p
    obtain ⟨h1, hm'⟩ := hm
    obtain ⟨s1, s2, s3⟩ := rescue_step c hi r t0 t n h0 h1 hT
    obtain ⟨i1, i2, i3⟩ := ih (r.allowN c t n).1 t s2 s3 hm'
    have hl := lastTime_ge rest t hm'
    simp only [Rescue.granted, Rescue.exec, lastTime]
    refine ⟨?_, i2, i3⟩
    have e1 : (((if (r.allowN c t n).2 then n else 0) + Rescue.granted c (r.allowN c t n).1 rest) * c.ival : Nat)
        = (if (r.allowN c t n).2 then n else 0) * c.ival + Rescue.granted c (r.allowN c t n).1 rest * c.ival :=
      Nat.add_mul _ _ _
    rw [e1]
    have e2 : ((lastTime t rest - t0 : Nat) : Int) = ((lastTime t rest - t : Nat) : Int) + ((t - t0 : Nat) : Int) := by omega
    rw [e2]
    push_cast at *
    omega

theorem advanced_le_cap (c : TCfg) (r : Rescue) (t : Nat) : r.advanced c t ≤ ((c.burst * c.ival : Nat) : Int) := by
  unfold Rescue.advanced; exact Int.min_le_left _ _

theorem advanced_nonneg (c : TCfg) (r : Rescue) (t : Nat) (hT : 0 ≤ r.T) : 0 ≤ r.advanced c t := by
  unfold Rescue.advanced
  exact Int.le_min.mpr ⟨Int.natCast_nonneg _, Int.add_nonneg hT (Int.natCast_nonneg _)⟩

/-- the local bound: over any monotone request sequence starting at `t1`,
ival × granted ≤ ival × burst + elapsed ns, i.e. granted ≤ burst + L × elapsed with L = 10⁹/ival per second. -/
theorem rescue_interval_bound (c : TCfg) (hi : c.ival ≠ 0) (r : Rescue) (t1 n1 : Nat) (rest : List (Nat × Nat))
    (h0 : r.last ≤ t1) (hT : 0 ≤ r.T) (hm : Mono t1 rest) :
    Rescue.granted c r ((t1, n1) :: rest) * c.ival ≤ c.burst * c.ival + (lastTime t1 rest - t1) := by
  have hp := rescue_potential c hi ((t1, n1) :: rest) r t1 h0 hT ⟨Nat.le_refl _, hm⟩
  obtain ⟨p1, _, p3⟩ := hp
  have hc := advanced_le_cap c r t1
  have hn := advanced_nonneg c (Rescue.exec c r ((t1, n1) :: rest)) (lastTime t1 ((t1, n1) :: rest)) p3
  simp only [lastTime] at p1 hn
  have : ((Rescue.granted c r ((t1, n1) :: rest) * c.ival : Nat) : Int)
      ≤ ((c.burst * c.ival + (lastTime t1 rest - t1) : Nat) : Int) := by
    push_cast at *
    omega
  exact Int.ofNat_le.mp this

end GoZero.C03
