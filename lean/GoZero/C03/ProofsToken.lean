/-
C03 — token limiter: the shared store under `tokenscript.lua` refines the abstract bucket.
-/
import GoZero.C03.ProofsBucket
namespace GoZero.C03
open GoZero.C03 Spec

theorem ttlFixed_pos (r b : Nat) : 1 ≤ ttlFixed r b := by unfold ttlFixed; omega

/-- the fixed script never fails, and this is what it writes -/
theorem tokenScript_fixed (c : TCfg) (s : Store) (now n : Nat) (hk : c.k1 ≠ c.k2) :
    ∃ s', tokenScript true c s now n = some (s', decide (n ≤ filledTokens c s now)) ∧
      s'.clock = s.clock ∧
      s'.find c.k1 = some ⟨(if n ≤ filledTokens c s now then filledTokens c s now - n else filledTokens c s now),
                          some (s.clock + ttlFixed c.rate c.burst * 1000)⟩ ∧
      s'.find c.k2 = some ⟨now, some (s.clock + ttlFixed c.rate c.burst * 1000)⟩ := by
  have hp := ttlFixed_pos c.rate c.burst
  have hne : ¬ (ttlFixed c.rate c.burst = 0) := by omega
  unfold tokenScript Store.setex ttlOf
  simp only [if_true, hne, if_false, clock_put]
  refine ⟨_, rfl, rfl, ?_, ?_⟩
  · rw [find_put, if_neg hk, find_put, if_pos rfl]
    by_cases h : n ≤ filledTokens c s now <;> simp [h]
  · rw [find_put, if_pos rfl]

/-- relation between the store and the abstract bucket; `hist` as in `TimedFrom` -/
structure TInv (c : TCfg) (st : Store) (b : Bucket) (hist : List (Nat × Nat)) : Prop where
  tok_le : b.tok ≤ c.burst
  keys : (st.find c.k1 = none ∧ st.find c.k2 = none ∧ b = Bucket.init c.burst) ∨
    (∃ c1, (c1, b.ts) ∈ hist ∧ c1 ≤ st.clock ∧
      st.find c.k1 = some ⟨b.tok, some (c1 + ttlFixed c.rate c.burst * 1000)⟩ ∧
      st.find c.k2 = some ⟨b.ts, some (c1 + ttlFixed c.rate c.burst * 1000)⟩)

/-- under the invariant and the timing hypothesis of this request, the script computes the abstract
bucket's `filled` — also when the keys have expired (then ttl × rate ≥ burst has passed: full bucket). -/
theorem filled_eq (c : TCfg) (hr : 0 < c.rate) (st : Store) (b : Bucket) (hist : List (Nat × Nat)) (now : Nat)
    (hinv : TInv c st b hist)
    (hh : ∀ p ∈ hist, p.2 ≤ now ∧ (p.1 + ttlFixed c.rate c.burst * 1000 ≤ st.clock → p.2 + ttlFixed c.rate c.burst ≤ now)) :
    filledTokens c st now = b.filled c.rate c.burst now ∧ b.ts ≤ now := by
  obtain ⟨htok, hkeys⟩ := hinv
  rcases hkeys with ⟨h1, h2, hb⟩ | ⟨c1, hmem, hc1, h1, h2⟩
  · subst hb
    simp [filledTokens, lastTokens, lastRefreshed, get_eq, h1, h2, Bucket.filled, Bucket.init]
  · obtain ⟨hle, htr⟩ := hh _ hmem
    simp only at hle htr
    refine ⟨?_, hle⟩
    by_cases hl : st.clock < c1 + ttlFixed c.rate c.burst * 1000
    · simp [filledTokens, lastTokens, lastRefreshed, get_eq, h1, h2, Entry.live, hl, Bucket.filled]
    · have hge := htr (by omega)
      have hcov := ttl_covers_burst c.rate c.burst hr
      have : ttlFixed c.rate c.burst * c.rate ≤ (now - b.ts) * c.rate :=
        Nat.mul_le_mul_right _ (by omega)
      simp only [filledTokens, lastTokens, lastRefreshed, get_eq, h1, h2, Entry.live, hl, Bucket.filled,
        decide_false, Bool.false_eq_true, if_false]
      omega


/-- what one `reserveN` does to the shared store: nothing (rescue path), or one execution of the script -/
theorem reserveN_cases (c : TCfg) (hk : c.k1 ≠ c.k2) (s : Sys) (i ns n : Nat) :
    ((s.reserveN true c i ns n).2.route = Route.rescue ∧ (s.reserveN true c i ns n).1.store = s.store) ∨
    ((s.reserveN true c i ns n).2.route = Route.store ∧
      (s.reserveN true c i ns n).2.ok = decide (n ≤ filledTokens c s.store (ns / nsPerSec)) ∧
      (s.reserveN true c i ns n).2.ns = ns ∧ (s.reserveN true c i ns n).2.n = n ∧
      (s.reserveN true c i ns n).1.store.clock = s.store.clock ∧
      (s.reserveN true c i ns n).1.store.find c.k1 =
        some ⟨(if n ≤ filledTokens c s.store (ns / nsPerSec) then filledTokens c s.store (ns / nsPerSec) - n
               else filledTokens c s.store (ns / nsPerSec)), some (s.store.clock + ttlFixed c.rate c.burst * 1000)⟩ ∧
      (s.reserveN true c i ns n).1.store.find c.k2 =
        some ⟨ns / nsPerSec, some (s.store.clock + ttlFixed c.rate c.burst * 1000)⟩) := by
  obtain ⟨s', h1, h2, h3, h4⟩ := tokenScript_fixed c s.store (ns / nsPerSec) n hk
  unfold Sys.reserveN
  by_cases ha : (s.insts i).alive = true
  · by_cases hu : s.up = true
    · right
      simp only [ha, hu, h1, Bool.not_true, Bool.false_eq_true, if_false]
      exact ⟨trivial, trivial, trivial, trivial, h2, h3, h4⟩
    · left
      simp [ha, hu, Sys.rescuePath]
  · left
    simp [ha, Sys.rescuePath]

theorem step_store_other (c : TCfg) (s : Sys) (op : TOp) (h : ∀ i ns n, op ≠ .allow i ns n) (hf : ∀ ms, op ≠ .ft ms) :
    (s.step true c op).1.store = s.store ∧ (s.step true c op).2 = none := by
  cases op with
  | ft ms => exact absurd rfl (hf ms)
  | allow i ns n => exact absurd rfl (h i ns n)
  | down => exact ⟨rfl, rfl⟩
  | up => exact ⟨rfl, rfl⟩
  | pingOk i => simp only [Sys.step]; split <;> exact ⟨rfl, rfl⟩
  | monExit i => simp only [Sys.step]; split <;> exact ⟨rfl, rfl⟩
  | lateFail i => exact ⟨rfl, rfl⟩
  | cancelledAlive i ns n => exact ⟨rfl, rfl⟩

theorem tinv_hist_mono (c : TCfg) (st : Store) (b : Bucket) (hist : List (Nat × Nat)) (p : Nat × Nat)
    (h : TInv c st b hist) : TInv c st b (p :: hist) := by
  obtain ⟨h1, h2⟩ := h
  refine ⟨h1, ?_⟩
  rcases h2 with h2 | ⟨c1, hm, rest⟩
  · exact Or.inl h2
  · exact Or.inr ⟨c1, List.mem_cons_of_mem _ hm, rest⟩

/-- Refinement: the decisions of the requests that reach the shared store — from whichever instance,
across outages and recoveries — are the decisions of ONE abstract bucket. -/
theorem sys_refines_bucket (c : TCfg) (hr : 0 < c.rate) (hk : c.k1 ≠ c.k2) :
    ∀ (ops : List TOp) (s : Sys) (b : Bucket) (hist : List (Nat × Nat)),
      TInv c s.store b hist → TimedFrom (ttlFixed c.rate c.burst) hist s.store.clock ops →
      (storeEvs (Sys.run true c s ops)).map (·.ok)
          = Bucket.run c.rate c.burst b ((storeEvs (Sys.run true c s ops)).map callOf) ∧
      Mono b.ts ((storeEvs (Sys.run true c s ops)).map callOf) := by
  intro ops
  induction ops with
  | nil => intro s b hist _ _; simp [Sys.run, storeEvs, Bucket.run, Mono]
  | cons op ops ih =>
    intro s b hist hinv ht
    cases op with
    | ft ms =>
      simp only [TimedFrom] at ht
      have hinv' : TInv c (s.store.advance ms) b hist := by
        obtain ⟨h1, h2⟩ := hinv
        refine ⟨h1, ?_⟩
        rcases h2 with h2 | ⟨c1, hm, hc, r1, r2⟩
        · exact Or.inl h2
        · exact Or.inr ⟨c1, hm, by simp; omega, r1, r2⟩
      exact ih ({ s with store := s.store.advance ms }) b hist hinv' ht
    | allow i ns n =>
      simp only [TimedFrom] at ht
      obtain ⟨hh, ht'⟩ := ht
      have hrun : Sys.run true c s (TOp.allow i ns n :: ops)
          = (s.reserveN true c i ns n).2 :: Sys.run true c (s.reserveN true c i ns n).1 ops := by
        simp [Sys.run, Sys.step]
      rw [hrun]
      rcases reserveN_cases c hk s i ns n with ⟨hroute, hst⟩ | ⟨hroute, hok, hns, hn, hclk, hf1, hf2⟩
      · have hfilter : storeEvs ((s.reserveN true c i ns n).2 :: Sys.run true c (s.reserveN true c i ns n).1 ops)
            = storeEvs (Sys.run true c (s.reserveN true c i ns n).1 ops) := by
          simp [storeEvs, List.filter, hroute]
        rw [hfilter]
        apply ih _ b ((s.store.clock, ns / nsPerSec) :: hist)
        · rw [hst]; exact tinv_hist_mono c _ _ _ _ hinv
        · rw [hst]; exact ht'
      · have hfilter : storeEvs ((s.reserveN true c i ns n).2 :: Sys.run true c (s.reserveN true c i ns n).1 ops)
            = (s.reserveN true c i ns n).2 :: storeEvs (Sys.run true c (s.reserveN true c i ns n).1 ops) := by
          simp [storeEvs, List.filter, hroute]
        rw [hfilter]
        obtain ⟨hfe, hts⟩ := filled_eq c hr s.store b hist (ns / nsPerSec) hinv hh
        have hcall : callOf (s.reserveN true c i ns n).2 = (ns / nsPerSec, n) := by simp [callOf, hns, hn]
        have hinv' : TInv c (s.reserveN true c i ns n).1.store (b.allow c.rate c.burst (ns / nsPerSec) n).1
            ((s.store.clock, ns / nsPerSec) :: hist) := by
          have ha := allow_tok_le c.rate c.burst b (ns / nsPerSec) n
          refine ⟨ha.1, Or.inr ⟨s.store.clock, ?_, ?_, ?_, ?_⟩⟩
          · rw [ha.2]; exact List.mem_cons_self
          · omega
          · rw [hf1, hfe]; unfold Bucket.allow; split <;> simp
          · rw [hf2, ha.2]
        have hi := ih (s.reserveN true c i ns n).1 (b.allow c.rate c.burst (ns / nsPerSec) n).1
          ((s.store.clock, ns / nsPerSec) :: hist) hinv' (by rw [hclk]; exact ht')
        rw [(allow_tok_le c.rate c.burst b (ns / nsPerSec) n).2] at hi
        simp only [List.map_cons, hcall, Bucket.run, Mono]
        refine ⟨?_, hts, hi.2⟩
        rw [hi.1, hok, hfe]
        congr 1
        unfold Bucket.allow
        split <;> simp [*]
    | down =>
      simp only [TimedFrom] at ht
      exact ih _ b hist hinv ht
    | up =>
      simp only [TimedFrom] at ht
      exact ih _ b hist hinv ht
    | lateFail i =>
      simp only [TimedFrom] at ht
      exact ih _ b hist hinv ht
    | cancelledAlive i ns n =>
      simp only [TimedFrom] at ht
      exact ih _ b hist hinv ht
    | pingOk i =>
      simp only [TimedFrom] at ht
      obtain ⟨h1, h2⟩ := step_store_other c s (.pingOk i) (by intros; simp) (by intros; simp)
      have hrun : Sys.run true c s (TOp.pingOk i :: ops) = Sys.run true c (s.step true c (.pingOk i)).1 ops := by
        simp [Sys.run, h2]
      rw [hrun]
      exact ih _ b hist (by rw [h1]; exact hinv) (by rw [h1]; exact ht)
    | monExit i =>
      simp only [TimedFrom] at ht
      obtain ⟨h1, h2⟩ := step_store_other c s (.monExit i) (by intros; simp) (by intros; simp)
      have hrun : Sys.run true c s (TOp.monExit i :: ops) = Sys.run true c (s.step true c (.monExit i)).1 ops := by
        simp [Sys.run, h2]
      rw [hrun]
      exact ih _ b hist (by rw [h1]; exact hinv) (by rw [h1]; exact ht)

end GoZero.C03
