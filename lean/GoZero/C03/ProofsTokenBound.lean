/-
C03 — from the refinement to the interval bound on the events of a run.
-/
import GoZero.C03.ProofsToken
namespace GoZero.C03
open GoZero.C03 Spec

theorem tinv_init (c : TCfg) : TInv c (Sys.init c).store (Bucket.init c.burst) [] :=
  ⟨Nat.le_refl _, Or.inl ⟨rfl, rfl, rfl⟩⟩

theorem granted_eq (rate burst : Nat) : ∀ (l : List Ev) (b : Bucket),
    l.map (·.ok) = Bucket.run rate burst b (l.map callOf) →
    grantedOf l = Bucket.granted rate burst b (l.map callOf) := by
  intro l; induction l with
  | nil => intro b _; rfl
  | cons e l ih =>
    intro b h
    simp only [List.map_cons, callOf, Bucket.run, List.cons.injEq] at h
    obtain ⟨h1, h2⟩ := h
    have := ih _ h2
    simp only [grantedOf, List.map_cons, List.sum_cons, callOf, Bucket.granted] at this ⊢
    rw [this, h1]

theorem exec_ts_last (rate burst : Nat) : ∀ (l : List (Nat × Nat)) (b : Bucket) (h : l ≠ []),
    (Bucket.exec rate burst b l).ts = (l.getLast h).1 := by
  intro l; induction l with
  | nil => intro b h; exact absurd rfl h
  | cons p l ih =>
    intro b _
    obtain ⟨t, n⟩ := p
    cases l with
    | nil => simp [Bucket.exec, (allow_tok_le rate burst b t n).2]
    | cons q l' =>
      simp only [Bucket.exec] at ih ⊢
      rw [List.getLast_cons (by simp)]
      exact ih _ (by simp)

theorem interval_of_refinement (rate burst : Nat) (b0 : Bucket) (evs pre post mid : List Ev) (e1 : Ev)
    (href : evs.map (·.ok) = Bucket.run rate burst b0 (evs.map callOf))
    (hmono : Mono b0.ts (evs.map callOf))
    (hsplit : evs = pre ++ (e1 :: mid) ++ post) :
    grantedOf (e1 :: mid)
      ≤ burst + rate * (((e1 :: mid).getLast (by simp)).ns / nsPerSec - e1.ns / nsPerSec) := by
  subst hsplit
  simp only [List.map_append, List.append_assoc] at href hmono
  rw [run_append, run_append] at href
  have hl1 : (pre.map (·.ok)).length = (Bucket.run rate burst b0 (pre.map callOf)).length := by
    simp [run_length]
  obtain ⟨_, href2⟩ := List.append_inj href hl1
  have hl2 : ((e1 :: mid).map (·.ok)).length
      = (Bucket.run rate burst (Bucket.exec rate burst b0 (pre.map callOf)) ((e1 :: mid).map callOf)).length := by
    simp [run_length]
  obtain ⟨href3, _⟩ := List.append_inj href2 hl2
  have hg := granted_eq rate burst (e1 :: mid) _ href3
  obtain ⟨_, hm2⟩ := mono_append rate burst _ _ b0 hmono
  obtain ⟨hm3, _⟩ := mono_append rate burst _ _ _ hm2
  rw [hg]
  have hb := bucket_interval_bound rate burst (Bucket.exec rate burst b0 (pre.map callOf)) (e1.ns / nsPerSec) e1.n
    (mid.map callOf) (by simpa [callOf] using hm3)
  have hlast := exec_ts_last rate burst ((e1 :: mid).map callOf) (Bucket.exec rate burst b0 (pre.map callOf)) (by simp)
  rw [List.getLast_map (by simp)] at hlast
  have hc : (e1 :: mid).map callOf = (e1.ns / nsPerSec, e1.n) :: mid.map callOf := by simp [callOf]
  simp only [hc] at hlast ⊢
  rw [hlast] at hb
  exact hb

end GoZero.C03
