/-
C03 — the script-evaluation path of the store client (core/stores/redis/redis.go) under both limiters:

    PeriodLimit.TakeCtx / TokenLimiter.reserveN
      → Redis.ScriptRunCtx(ctx, script, keys, args)        getRedis(s) — error ⇒ (nil, err), nothing is sent
          → script.Run(ctx, conn, keys, args...).Result()   go-redis: EVALSHA; iff the error starts with NOSCRIPT: EVAL
      → reply decoding (`takeResult` / `reserveDecide`)

and `Redis.Ping` / `PingCtx` (what the monitor goroutine of a TokenLimiter asks).

The link between client and server is in one of five states (the harness' fault modes); the server keeps a script
cache (`loaded`: it knows the script's SHA1; SCRIPT FLUSH / a restart clears it, EVAL fills it).
A round trip that is answered with an error executes nothing on the store (an error reply of the server; replies
lost AFTER an execution are outside this model — see props/C03.json, assumptions).
Core Lean only.
-/
import GoZero.C03.Model
namespace GoZero.C03

inductive Link where
  | up            -- every command is served
  | down          -- every command is answered with an error
  | noscript      -- EVALSHA is answered `NOSCRIPT …` (hash unknown), EVAL is served (the reload path)
  | noscriptDown  -- EVALSHA is answered `NOSCRIPT …`, the EVAL that follows is answered with an error
  | shaDown       -- EVALSHA is answered with an error that is NOT NOSCRIPT; an EVAL would be served
  deriving Repr, DecidableEq

/-- does a script call end with the script executed? -/
def Link.serves : Link → Bool
  | .up | .noscript => true
  | _ => false

inductive Trip where
  | evalsha | eval
  deriving Repr, DecidableEq

def Trip.str : Trip → String
  | .evalsha => "evalsha" | .eval => "eval"

structure Conn where
  link   : Link := .up
  loaded : Bool := true
  deriving Repr, DecidableEq

/-- `Redis.ScriptRunCtx`: result = ((store, connection) afterwards, reply — `none` = `(nil, err)` —, round trips sent).
`typeOk = false`: `getRedis` rejects the configured type, nothing is sent.  `exec` = one atomic execution of the script. -/
def scriptRun {σ ρ : Type} (typeOk : Bool) (c : Conn) (exec : σ → σ × ρ) (s : σ) : (σ × Conn) × Option ρ × List Trip :=
  if !typeOk then ((s, c), none, [])
  else match c.link with
    | .down => ((s, c), none, [.evalsha])
    | .shaDown => ((s, c), none, [.evalsha])                       -- not NOSCRIPT ⇒ no EVAL
    | .noscriptDown => ((s, c), none, [.evalsha, .eval])           -- the reload fails: still an error
    | .noscript => (((exec s).1, { c with loaded := true }), some (exec s).2, [.evalsha, .eval])
    | .up =>
      if c.loaded then (((exec s).1, c), some (exec s).2, [.evalsha])
      else (((exec s).1, { c with loaded := true }), some (exec s).2, [.evalsha, .eval])

/-- `Redis.PingCtx`: `getRedis` error ⇒ false; command error ⇒ false; else `v == "PONG"`.
`reply = none`: the PING was answered with an error. -/
def pingResult (typeOk : Bool) (reply : Option String) : Bool :=
  if !typeOk then false
  else match reply with
    | none => false
    | some v => v == "PONG"

/-! ### PeriodLimit.TakeCtx over the script path -/

structure PVSys where
  store : Store
  conn  : Conn
  deriving Repr, DecidableEq

def PVSys.init : PVSys := ⟨Store.empty, {}⟩

def respOf : Option Nat → Resp
  | some v => .int v
  | none => .err

/-- `TakeCtx` = decode (`takeResult`) ∘ `ScriptRunCtx(periodScript, [prefix+key], [quota, window])` -/
def PVSys.take (quota period : Nat) (typeOk : Bool) (v : PVSys) (key : String) : PVSys × (Code × PErr) × List Trip :=
  let r := scriptRun typeOk v.conn (fun s => periodScript s key quota period) v.store
  (⟨r.1.1, r.1.2⟩, takeResult (respOf r.2.1), r.2.2)

inductive PVOp where
  | ft (ms : Nat)
  | take (key : String)
  | link (l : Link)
  | flush                 -- SCRIPT FLUSH (or a server restart that keeps the data): the cache forgets the script
  deriving Repr, DecidableEq

def PVSys.step (quota period : Nat) (v : PVSys) : PVOp → PVSys × Option (Code × PErr)
  | .ft ms => ({ v with store := v.store.advance ms }, none)
  | .take k => let r := v.take quota period true k; (r.1, some r.2.1)
  | .link l => ({ v with conn := { v.conn with link := l } }, none)
  | .flush => ({ v with conn := { v.conn with loaded := false } }, none)

def PVSys.run (quota period : Nat) : PVSys → List PVOp → List (Option (Code × PErr))
  | _, [] => []
  | v, op :: ops => (v.step quota period op).2 :: PVSys.run quota period (v.step quota period op).1 ops

/-- what the op means for the reachable/unreachable model of `PSys` (on which the period theorems are stated) -/
def PVOp.abs : PVOp → POp
  | .ft ms => .ft ms
  | .take k => .take k
  | .link l => if l.serves then .up else .down
  | .flush => .ft 0

/-! ### TokenLimiter.reserveN: the reply table -/

/-- what `ScriptRunCtx(tokenScript, …)` handed back, as `reserveN` distinguishes it -/
inductive TReply where
  | int (v : Int)     -- an integer reply (the script returned `true` ⇒ 1)
  | nilReply          -- `redis.Nil`: the script returned `false` (Lua false ⇒ nil bulk reply)
  | ctxErr            -- context.DeadlineExceeded / context.Canceled
  | err               -- any other error
  | other             -- a reply that is not an integer
  deriving Repr, DecidableEq

inductive TDecision where
  | deny | grant
  | rescue            -- `startMonitor()` and the in-process limiter decides
  deriving Repr, DecidableEq

/-- the if-chain of `reserveN` after the script call, in source order -/
def reserveDecide : TReply → TDecision
  | .nilReply => .deny
  | .ctxErr => .deny
  | .err => .rescue
  | .other => .rescue
  | .int v => if v = 1 then .grant else .deny

/-- Redis' conversion of the script's boolean result -/
def luaBoolReply (allowed : Bool) : TReply := if allowed then .int 1 else .nilReply

/-- the reply of a token-script call over the path: an error on the path is `.err`, a script error is `.err` -/
def tokenReplyOf : Option (Option Bool) → TReply
  | none => .err
  | some none => .err
  | some (some b) => luaBoolReply b

/-! ### replies the server sends WITHOUT running the script (round 5)

Every outcome kind of the remote party: a server (or a proxy in front of it) may answer an EVALSHA with something the
scripts never return.  Nothing is executed on the store; exactly one round trip is made. -/

inductive Forged where
  | str                -- a bulk string: `resp.(int64)` fails
  | int (v : Int)      -- an integer
  | nil                -- a nil bulk reply: go-redis reports the error `redis.Nil`
  deriving Repr, DecidableEq

/-- how `TakeCtx` sees it (`redis.Nil` is an error like any other there) -/
def Forged.resp : Forged → Resp
  | .str => .other | .int v => .int v | .nil => .err

/-- how `reserveN` sees it -/
def Forged.treply : Forged → TReply
  | .str => .other | .int v => .int v | .nil => .nilReply

/-- what a caller's context does to the script call of an instance on the store path -/
inductive CtxKind where
  | background         -- no deadline, not cancelled
  | future             -- a deadline later than the call lasts: like `background`
  | cancelled          -- cancelled before the call: `context.Canceled`, nothing is sent
  | expired            -- deadline passed before the call: `context.DeadlineExceeded`, nothing is sent
  deriving Repr, DecidableEq

def CtxKind.sends : CtxKind → Bool
  | .background | .future => true
  | _ => false

/-- `TakeCtx` under every context kind and every reply kind: a context error is an error reply -/
def takeOutcome (k : CtxKind) (reply : Resp) : Code × PErr :=
  if k.sends then takeResult reply else takeResult .err

/-- `reserveN` (instance on the store path) under every context kind and every reply kind -/
def reserveOutcome (k : CtxKind) (reply : TReply) : TDecision :=
  if k.sends then reserveDecide reply else reserveDecide .ctxErr

/-- `TokenLimiter.reserveN` of instance `i` when the server answers with a forged reply -/
def Sys.reserveForged (c : TCfg) (s : Sys) (i ns n : Nat) (f : Forged) : Sys × Ev :=
  let inst := s.insts i
  if !inst.alive then s.rescuePath c i inst ns n                      -- redisAlive == 0: nothing is sent
  else match reserveDecide f.treply with
    | .rescue => s.rescuePath c i inst.startMonitor ns n
    | .grant => (s, ⟨i, .store, ns, n, true⟩)
    | .deny => (s, ⟨i, .store, ns, n, false⟩)

/-! ### the delegating entry points and constructors (round 5)

`Allow()` = `AllowN(time.Now(), 1)`, `AllowCtx(ctx)` = `AllowNCtx(ctx, time.Now(), 1)`, `AllowN(now, n)` =
`reserveN(context.Background(), now, n)`, `AllowNCtx(ctx, now, n)` = `reserveN(ctx, now, n)`: what reaches `reserveN`. -/

structure ReserveArgs where
  ctx : CtxKind
  ns  : Nat
  n   : Nat
  deriving Repr, DecidableEq

/-- `wall` = the reading of `time.Now()` the entry point makes -/
def allowArgs (wall : Nat) : ReserveArgs := ⟨.background, wall, 1⟩
def allowCtxArgs (ctx : CtxKind) (wall : Nat) : ReserveArgs := ⟨ctx, wall, 1⟩
def allowNArgs (ns n : Nat) : ReserveArgs := ⟨.background, ns, n⟩
def allowNCtxArgs (ctx : CtxKind) (ns n : Nat) : ReserveArgs := ⟨ctx, ns, n⟩

/-- `reserveN(ctx, now, n)` with the context kind: a context that sends nothing leaves an instance on the store path
untouched and refuses; an instance in rescue mode never looks at the context -/
def Sys.reserveArgs (fixed : Bool) (c : TCfg) (s : Sys) (i : Nat) (a : ReserveArgs) : Sys × Ev :=
  if (s.insts i).alive && !a.ctx.sends then (s, ⟨i, .store, a.ns, a.n, false⟩)
  else s.reserveN fixed c i a.ns a.n

/-- `NewTokenLimiter(rate, burst, store, key)`: the two keys (`fmt.Sprintf(tokenFormat, key)`, `…timestampFormat…`) -/
def newTokenCfg (rate burst : Nat) (key : String) : TCfg :=
  ⟨rate, burst, "{" ++ key ++ "}.tokens", "{" ++ key ++ "}.ts"⟩

/-- `NewPeriodLimit(period, quota, store, keyPrefix, opts...)`: the only option is `Align()` -/
structure PLim where
  period : Int
  quota  : Int
  pre    : String
  align  : Bool
  deriving Repr, DecidableEq

inductive POpt where
  | align
  deriving Repr, DecidableEq

def POpt.apply (l : PLim) : POpt → PLim
  | .align => { l with align := true }

def newPeriodLimit (period quota : Int) (pre : String) (opts : List POpt) : PLim :=
  opts.foldl POpt.apply ⟨period, quota, pre, false⟩

/-- `TakeCtx(ctx, key)` of a constructed limiter at local wall-clock second `unix`:
`none` = the call panics (`Align()` with period 0); the Redis key is `keyPrefix + key`, the limit `quota`, the window
`calcExpireSeconds()` (what Redis makes of non-positive values: `toNat`) -/
def PLim.take (l : PLim) (unix : Int) (v : PVSys) (key : String) : Option (PVSys × (Code × PErr) × List Trip) :=
  match calcExpireZ l.align l.period unix with
  | none => none
  | some w => some (v.take l.quota.toNat w.toNat true (l.pre ++ key))

/-! ### round 5c: a reply lost AFTER the script ran

The caller's deadline (or the client's read timeout) expires while the script call is in flight: the server has executed
the script — or not, the caller cannot know — and the caller gets an error instead of the reply.  The model takes the
case the earlier rounds excluded: the script HAS run.  What the caller sees: `context.DeadlineExceeded` (a context
error) or an i/o timeout (any other error). -/

inductive LostKind where
  | deadline      -- the error is context.DeadlineExceeded
  | timeout       -- the error is an i/o timeout (not a context error)
  deriving Repr, DecidableEq

/-- `TakeCtx` whose reply is lost after the script ran: the counter moved, the caller gets `(Unknown, err)` -/
def PSys.takeLost (quota period : Nat) (s : PSys) (key : String) : PSys × (Code × PErr) :=
  if s.up then ({ s with store := (periodScript s.store key quota period).1 }, takeResult .err)
  else (s, takeResult .err)

/-- `reserveN` of instance `i` whose reply is lost after the script ran (`redisAlive = 1`, store reachable): the bucket
was charged if the script allowed; a context error refuses, any other error is a store failure (`startMonitor`, the
local limiter decides this request) -/
def Sys.reserveLost (c : TCfg) (s : Sys) (i ns n : Nat) (k : LostKind) : Sys × Ev :=
  let inst := s.insts i
  if !inst.alive || !s.up then s.reserveN true c i ns n                -- nothing in flight that could be lost
  else
    match tokenScript true c s.store (ns / nsPerSec) n with
    | none => s.reserveN true c i ns n
    | some r =>
      let s1 : Sys := { s with store := r.1 }
      match k with
      | .deadline => (s1, ⟨i, .store, ns, n, false⟩)
      | .timeout => s1.rescuePath c i inst.startMonitor ns n

/-! ### round 5c: the store client's type switch and its breaker's view of errors -/

/-- `getRedis`: the client types that yield a connection (`NodeType`, `ClusterType`); anything else is an error -/
def typeSupported (t : String) : Bool := t == "node" || t == "cluster"

/-- the errors a script call can end with, as the code distinguishes them -/
inductive ErrClass where
  | none          -- no error
  | redisNil      -- redis.Nil: the token script returned false
  | canceled      -- context.Canceled
  | deadline      -- context.DeadlineExceeded
  | other         -- anything else (refused connection, error reply, i/o timeout, unsupported type …)
  deriving Repr, DecidableEq

/-- `acceptable`: what the client's circuit breaker does NOT count as a failure -/
def breakerAccepts : ErrClass → Bool
  | .none | .redisNil | .canceled => true
  | .deadline | .other => false

/-- how `reserveN` reads the error of the script call (`TReply` for the non-integer / integer replies) -/
def ErrClass.treply : ErrClass → Option TReply
  | .none => Option.none
  | .redisNil => some .nilReply
  | .canceled => some .ctxErr
  | .deadline => some .ctxErr
  | .other => some .err

end GoZero.C03
