/-
C03 — period limit: the model (store + periodscript.lua + TakeCtx) refines the specification by lives.
-/
import GoZero.C03.ProofsPeriod
namespace GoZero.C03
open GoZero.C03 Spec

theorem lifeOf_key (k : String) : ∀ (sp : PSpec) (l : Life), lifeOf k sp = some l → l.key = k := by
  intro sp; induction sp with
  | nil => intro l h; simp [lifeOf] at h
  | cons x rest ih =>
    intro l h
    unfold lifeOf at h
    split at h
    · simp at h; subst h; assumption
    · exact ih l h

theorem lifeOf_setLife (l : Life) : ∀ (sp : PSpec) (k : String),
    lifeOf k (setLife l sp) = if k = l.key then some l else lifeOf k sp := by
  intro sp; induction sp with
  | nil => intro k; simp only [setLife, lifeOf]; by_cases h : k = l.key <;> simp [h, eq_comm]
  | cons x rest ih =>
    intro k
    unfold setLife
    by_cases hx : x.key = l.key
    · simp only [hx, if_true, lifeOf]
      by_cases h : k = l.key
      · simp [h]
      · have h' : ¬ l.key = k := fun e => h e.symm
        have h'' : ¬ x.key = k := by rw [hx]; exact h'
        simp [h, h', h'']
    · simp only [hx, if_false, lifeOf, ih]
      by_cases h : x.key = k
      · have : ¬ k = l.key := by rw [← h]; exact hx
        simp [h, this]
      · simp [h]

/-- correspondence between the store and the lives -/
def PRel (period : Nat) (s : PSys) (t : SpecSys) : Prop :=
  s.up = t.up ∧ s.store.clock = t.clock ∧
  ∀ k, match s.store.find k with
    | none => lifeOf k t.sp = none
    | some e => ∃ l, lifeOf k t.sp = some l ∧ e.val = l.count ∧ 1 ≤ l.count ∧ e.exp = some (l.start + period * 1000)

theorem prel_take (quota period : Nat) (hp : 1 ≤ period) (s : PSys) (t : SpecSys) (k : String)
    (h : PRel period s t) (hu : s.up = true) :
    (s.take quota period k).2 = ((ptake quota period t.sp t.clock k).2, PErr.nil) ∧
    PRel period (s.take quota period k).1 { t with sp := (ptake quota period t.sp t.clock k).1 } := by
  obtain ⟨h1, h2, h3⟩ := h
  have hk := h3 k
  cases hf : s.store.find k with
  | none =>
    rw [hf] at hk
    have hg : s.store.get k = none := by rw [get_eq, hf]
    obtain ⟨f1, f2, f3⟩ := periodScript_fresh s.store k quota period hp hg
    refine ⟨?_, ?_, ?_, ?_⟩
    · simp only [PSys.take, hu, if_true, f3, ptake, hk]
      exact takeResult_code quota 1
    · simpa [PSys.take, hu] using h1
    · simp [PSys.take, hu, f2, h2]
    · intro k'
      by_cases hkk : k' = k
      · subst hkk
        simp only [PSys.take, hu, if_true, f1, ptake, hk, lifeOf_setLife]
        exact ⟨⟨k', t.clock, 1⟩, by simp, rfl, Nat.le_refl 1, by simp [h2]⟩
      · have := (periodScript_other s.store k' k quota period hkk).1
        simp only [PSys.take, hu, if_true, this, ptake, hk, lifeOf_setLife, hkk, if_false]
        exact h3 k'
  | some e =>
    rw [hf] at hk
    obtain ⟨l, hl, hv, hc, he⟩ := hk
    have hlk := lifeOf_key k t.sp l hl
    by_cases hlive : s.store.clock < l.start + period * 1000
    · have hfe : s.store.find k = some ⟨l.count, some (l.start + period * 1000)⟩ := by
        rw [hf]; congr 1; cases e; simp_all
      obtain ⟨f1, f2, f3⟩ := periodScript_running s.store k quota period l.count _ hfe hc hlive
      have hlive' : t.clock < l.start + period * 1000 := by omega
      refine ⟨?_, ?_, ?_, ?_⟩
      · simp only [PSys.take, hu, if_true, f3, ptake, hl, hlive']
        exact takeResult_code quota (l.count + 1)
      · simpa [PSys.take, hu] using h1
      · simp [PSys.take, hu, f2, h2]
      · intro k'
        by_cases hkk : k' = k
        · subst hkk
          simp only [PSys.take, hu, if_true, f1, ptake, hl, hlive', lifeOf_setLife, hlk]
          exact ⟨{ l with count := l.count + 1 }, by simp [hlk], rfl, by simp, rfl⟩
        · have := (periodScript_other s.store k' k quota period hkk).1
          have hkk' : ¬ k' = l.key := by rw [hlk]; exact hkk
          simp only [PSys.take, hu, if_true, this, ptake, hl, hlive', lifeOf_setLife, hkk', if_false]
          exact h3 k'
    · have hg : s.store.get k = none := by
        rw [get_eq, hf]; simp [Entry.live, he, hlive]
      obtain ⟨f1, f2, f3⟩ := periodScript_fresh s.store k quota period hp hg
      have hlive' : ¬ t.clock < l.start + period * 1000 := by omega
      refine ⟨?_, ?_, ?_, ?_⟩
      · simp only [PSys.take, hu, if_true, f3, ptake, hl, hlive', if_false]
        exact takeResult_code quota 1
      · simpa [PSys.take, hu] using h1
      · simp [PSys.take, hu, f2, h2]
      · intro k'
        by_cases hkk : k' = k
        · subst hkk
          simp only [PSys.take, hu, if_true, f1, ptake, hl, hlive', if_false, lifeOf_setLife]
          exact ⟨⟨k', t.clock, 1⟩, by simp, rfl, Nat.le_refl 1, by simp [h2]⟩
        · have := (periodScript_other s.store k' k quota period hkk).1
          simp only [PSys.take, hu, if_true, this, ptake, hl, hlive', if_false, lifeOf_setLife, hkk]
          exact h3 k'

/-- the model's replies are the specification's replies, for every operation sequence -/
theorem period_refines_spec_from (quota period : Nat) (hp : 1 ≤ period) : ∀ (ops : List POp) (s : PSys) (t : SpecSys),
    PRel period s t → PSys.run quota period s ops = SpecSys.run quota period t ops := by
  intro ops
  induction ops with
  | nil => intro s t _; rfl
  | cons op ops ih =>
    intro s t h
    cases op with
    | ft ms =>
      simp only [PSys.run, SpecSys.run, PSys.step, SpecSys.step]
      congr 1
      apply ih
      obtain ⟨h1, h2, h3⟩ := h
      exact ⟨h1, by simp [h2], fun k => by simpa using h3 k⟩
    | down =>
      simp only [PSys.run, SpecSys.run, PSys.step, SpecSys.step]
      congr 1
      apply ih
      exact ⟨rfl, h.2.1, h.2.2⟩
    | up =>
      simp only [PSys.run, SpecSys.run, PSys.step, SpecSys.step]
      congr 1
      apply ih
      exact ⟨rfl, h.2.1, h.2.2⟩
    | take k =>
      simp only [PSys.run, SpecSys.run, PSys.step, SpecSys.step]
      by_cases hu : s.up = true
      · have hu' : t.up = true := by rw [← h.1]; exact hu
        obtain ⟨r1, r2⟩ := prel_take quota period hp s t k h hu
        simp only [hu', if_true]
        rw [r1]
        congr 1
        apply ih
        rw [hu'] at r2
        exact r2
      · have hu' : t.up = false := by rw [← h.1]; simpa using hu
        have hu'' : s.up = false := by simpa using hu
        simp only [hu', Bool.false_eq_true, if_false]
        have : s.take quota period k = (s, (Code.unknown, PErr.store)) := by simp [PSys.take, hu'', takeResult]
        rw [this]
        congr 1
        exact ih _ _ h

end GoZero.C03
