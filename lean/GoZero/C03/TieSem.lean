/-
C03 — Tie, semantic part (round 4): what the extractor TRANSLATED from the current source — the Lua script parsed and
interpreted in Lean, the arithmetic of calcExpireSeconds, the decision chains of TakeCtx and reserveN as Lean
functions — equals the model's definitions FOR ALL ARGUMENTS; plus the statement skeletons of the store client's
script path (core/stores/redis/redis.go) the model `scriptRun` / `pingResult` was written against.
-/
import GoZero.Extracted.C03
import GoZero.C03.LuaSem
import GoZero.C03.ScriptRun
import GoZero.C03.ProofsMonitor
namespace GoZero.C03.TieSem
open GoZero.C03
open GoZero.C03.Lua
open GoZero.Extracted.C03

/-! ### periodscript.lua, semantically -/

def periodProg : List Stmt :=
  [.localE "limit" (.argvNum 1),
   .localE "window" (.argvNum 2),
   .localCall "current" .incrby [.key 1, .e (.num 1)],
   .ifte (.eq (.var "current") (.num 1)) [.call .expire [.key 1, .e (.var "window")]] [],
   .ifte (.lt (.var "current") (.var "limit")) [.ret (.num 1)]
     [.ifte (.eq (.var "current") (.var "limit")) [.ret (.num 2)] [.ret (.num 0)]]]

theorem periodLua_parses : (periodLuaToks.mapM Tok.ofRaw).bind parse = some periodProg := by rfl

set_option linter.unusedSimpArgs false in
/-- **periodscript.lua as it is in the tree now means the model's `periodScript`**: for every store, key, and every
integer limit and window (negative and zero included), running the current script text yields exactly
`periodScriptZ` — which is `periodScript` on `toNat`s (`PropsPath.periodScriptZ_is_periodScript`). In particular the
EXPIRE is armed by the take that creates the counter whatever the quota (seeded change C03-3 breaks this theorem). -/
theorem tie_periodLua_sem (s : Store) (key : String) (limit window : Int) :
    runScript periodLuaToks [key] [limit, window] s = some (periodScriptZ s key limit window) := by
  unfold runScript
  rw [periodLua_parses]
  unfold periodScriptZ
  have hcur : 1 ≤ (s.incrby key 1).2 := by unfold Store.incrby; split <;> simp
  generalize hr : s.incrby key 1 = r at hcur
  obtain ⟨s1, cur⟩ := r
  simp only at hcur
  by_cases hc : cur = 1
  · subst hc
    by_cases hl : (1 : Int) < limit
    · simp [periodProg, exec_localE, exec_localCall, exec_call, exec_ret, exec_nil, exec_ifte, evalExpr, evalCond, command, setLocal, List.lookup, hr, hl]
    · by_cases he : limit = 1
      · subst he
        simp [periodProg, exec_localE, exec_localCall, exec_call, exec_ret, exec_nil, exec_ifte, evalExpr, evalCond, command, setLocal, List.lookup, hr]
      · have he' : ¬ ((1 : Int) = limit) := fun h => he h.symm
        simp [periodProg, exec_localE, exec_localCall, exec_call, exec_ret, exec_nil, exec_ifte, evalExpr, evalCond, command, setLocal, List.lookup, hr, hl, he']
  · have h1 : ¬ ((cur : Int) = 1) := by omega
    by_cases hl : (cur : Int) < limit
    · simp [periodProg, exec_localE, exec_localCall, exec_call, exec_ret, exec_nil, exec_ifte, evalExpr, evalCond, command, setLocal, List.lookup, hr, h1, hl]
    · by_cases he : limit = (cur : Int)
      · subst he
        simp [periodProg, exec_localE, exec_localCall, exec_call, exec_ret, exec_nil, exec_ifte, evalExpr, evalCond, command, setLocal, List.lookup, hr, h1]
      · have he' : ¬ ((cur : Int) = limit) := fun h => he h.symm
        simp [periodProg, exec_localE, exec_localCall, exec_call, exec_ret, exec_nil, exec_ifte, evalExpr, evalCond, command, setLocal, List.lookup, hr, h1, hl, he']

/-- the script variables run the embedded files the two ties are about -/
theorem tie_scriptBindings :
    periodScriptBinding = ["periodScript = NewScript(periodLuaScript)", "embed periodscript.lua"] ∧
    tokenScriptBinding = ["tokenScript = NewScript(tokenLuaScript)", "embed tokenscript.lua"] := by decide

/-! ### calcExpireSeconds, semantically -/

/-- the translated arithmetic is the model's `calcExpireZ` for every period, clock reading and zone offset
(`period = 0` with Align: Go panics on `% 0`, the model says `none`) -/
theorem tie_calcExpire_sem (period nowUnix offset : Int) :
    calcExpireCond = "h.align" ∧
    calcExpireZ true period (nowUnix + offset) =
      (if period = 0 then none else some (calcExpireAligned period nowUnix offset)) ∧
    calcExpireZ false period (nowUnix + offset) = some (calcExpirePlain period) := by
  refine ⟨by decide, ?_, ?_⟩
  · unfold calcExpireZ calcExpireAligned; simp
  · unfold calcExpireZ calcExpirePlain; simp

/-! ### the decision chains, semantically -/

def errNum : PErr → Int
  | .nil => 0 | .store => 1 | .unknownCode => 2

/-- **`TakeCtx`'s chain is `takeResult`** for every reply: error first, then the type assertion, then the switch with
the extracted constants; the returned pair is (exported code, error kind). -/
theorem tie_takeChain_sem :
    (∀ (b : Bool) (code : Int), takeChain true b code = (((takeResult .err).1.toNat : Int), errNum (takeResult .err).2)) ∧
    (∀ code : Int, takeChain false false code = (((takeResult .other).1.toNat : Int), errNum (takeResult .other).2)) ∧
    (∀ code : Int, takeChain false true code = (((takeResult (.int code)).1.toNat : Int), errNum (takeResult (.int code)).2)) := by
  refine ⟨?_, ?_, ?_⟩
  · intro b code; simp [takeChain, takeResult, Code.toNat, errNum]
  · intro code; simp [takeChain, takeResult, Code.toNat, errNum]
  · intro code
    by_cases h0 : code = 0
    · subst h0; simp [takeChain, takeResult, Code.toNat, errNum]
    · by_cases h1 : code = 1
      · subst h1; simp [takeChain, takeResult, Code.toNat, errNum]
      · by_cases h2 : code = 2
        · subst h2; simp [takeChain, takeResult, Code.toNat, errNum]
        · have : takeResult (.int code) = (.unknown, .unknownCode) := by
            unfold takeResult; split <;> simp_all
          simp [takeChain, this, Code.toNat, errNum, h0, h1, h2]

def decNum : TDecision → Int
  | .deny => 0 | .grant => 1 | .rescue => 2

/-- how `reserveN`'s conditions read a reply: (isNil, isCtx, err != nil, resp is an int64, the integer) -/
def replyFlags : TReply → Bool × Bool × Bool × Bool × Int
  | .nilReply => (true, false, true, false, 0)
  | .ctxErr => (false, true, true, false, 0)
  | .err => (false, false, true, false, 0)
  | .other => (false, false, false, false, 0)
  | .int v => (false, false, false, true, v)

/-- **`reserveN`'s chain is `reserveDecide`** for every reply (instance on the store path, `redisAlive ≠ 0`), and with
`redisAlive = 0` the local limiter decides without touching the store or the monitor (value 3). -/
theorem tie_reserveChain_sem (r : TReply) (alive : Int) (ha : alive ≠ 0) :
    reserveChain alive (replyFlags r).1 (replyFlags r).2.1 (replyFlags r).2.2.1 (replyFlags r).2.2.2.1 (replyFlags r).2.2.2.2
      = decNum (reserveDecide r) ∧
    reserveChain 0 (replyFlags r).1 (replyFlags r).2.1 (replyFlags r).2.2.1 (replyFlags r).2.2.2.1 (replyFlags r).2.2.2.2 = 3 := by
  cases r with
  | int v => by_cases h : v = 1 <;> simp [reserveChain, replyFlags, reserveDecide, decNum, ha, h]
  | _ => simp [reserveChain, replyFlags, reserveDecide, decNum, ha]

/-! ### constructors -/

/-- `NewTokenLimiter` derives the two keys from the caller's key with the two formats (distinct keys ⇒ distinct
buckets), `NewPeriodLimit` applies every option to the limiter it returns -/
theorem tie_constructors :
    newTokenLimiterShape =
      ["tokenKey := fmt.Sprintf(tokenFormat, key)", "timestampKey := fmt.Sprintf(timestampFormat, key)",
       "return &TokenLimiter{ rate: rate, burst: burst, store: store, tokenKey: tokenKey, timestampKey: timestampKey, redisAlive: 1, rescueLimiter: xrate.NewLimiter(xrate.Every(time.Second/time.Duration(rate)), burst), }"] ∧
    newPeriodLimitShape =
      ["limiter := &PeriodLimit{ period: period, quota: quota, limitStore: limitStore, keyPrefix: keyPrefix, }",
       "for range opts {", "opt(limiter)", "}", "return limiter"] := ⟨rfl, rfl⟩

/-! ### the store client's script path (core/stores/redis/redis.go) -/

/-- `ScriptRunCtx` (`scriptRun`): `getRedis` error ⇒ `(nil, err)`; else exactly one `script.Run(ctx, conn, keys, args...)`
(go-redis: EVALSHA, EVAL only after NOSCRIPT) whose `Result()` — value AND error — is returned unchanged;
`ScriptRun` is `ScriptRunCtx` with the background context; `NewScript` is go-redis' `NewScript` of the same text -/
theorem tie_scriptRunCtx :
    scriptRunCtxShape = ["conn, err := getRedis(…)", "if err != nil {", "return nil, err", "}",
      "return script.Run(ctx, conn, keys, args...).Result()"] ∧
    scriptRunShape = ["return s.ScriptRunCtx(context.Background(), script, keys, args...)"] ∧
    newScriptShape = ["return red.NewScript(script)"] := by decide

/-- `getRedis`: node and cluster clients, anything else is an error (`typeOk = false`) -/
theorem tie_getRedis : getRedisShape =
    ["switch r.Type {", "case ClusterType:", "return getCluster(r)", "case NodeType:", "return getClient(r)",
     "default:", "return nil, fmt.Errorf(\"redis type '%s' is not supported\", r.Type)", "}"] := by decide

/-- what the client's breaker accepts as "not a failure" (`redis.Nil` = the token script's `false`, and a cancelled context) -/
theorem tie_acceptable : acceptableShape = ["return err == nil || errorx.In(err, red.Nil, context.Canceled)"] := by decide

/-- `Ping` / `PingCtx` (`pingResult`): errors mean false, the answer must be "PONG" -/
theorem tie_ping :
    pingShape = ["return s.PingCtx(context.Background())"] ∧
    pingCtxShape = ["conn, err := getRedis(…)", "if err != nil {", "return false", "}",
      "v, err := conn.Ping(ctx).Result(…)", "if err != nil {", "return false", "}", "return v == \"PONG\""] ∧
    (∀ v : String, pingResult true (some v) = (v == "PONG")) := by
  refine ⟨by decide, by decide, ?_⟩
  intro v; simp [pingResult]

/-! ### round 5: the delegating entry points, semantically -/

/-- value of a forwarded argument -/
inductive FVal where
  | bg                  -- `context.Background()`
  | wall                -- `time.Now()`
  | lit (v : Nat)       -- an integer literal in the source
  | val (v : Nat)       -- the caller's value of a parameter (a time in ns, a size, a key …)
  | ctx (k : CtxKind)   -- the caller's context
  deriving DecidableEq

/-- an unsigned decimal literal -/
def litNat (a : String) : Option Nat :=
  if a.toList ≠ [] ∧ a.toList.all Char.isDigit then some (a.toList.foldl (fun acc c => acc * 10 + (c.toNat - 48)) 0) else none

/-- an argument expression of the source under the caller's actual parameter values -/
def evalFwd (params : List String) (actuals : List FVal) (a : String) : Option FVal :=
  if a = "context.Background()" then some .bg
  else if a = "time.Now()" then some .wall
  else match litNat a with
    | some v => some (.lit v)
    | none => (params.zip actuals).lookup a

def evalFwds (params : List String) (actuals : List FVal) (args : List String) : Option (List FVal) :=
  args.mapM (evalFwd params actuals)

/-- the argument list that reaches `reserveN(ctx, now, n)`; `w` = what `time.Now()` reads -/
def fwdReserve (w : Nat) : List FVal → Option ReserveArgs
  | [c, t, n] =>
    match (match c with | .bg => some CtxKind.background | .ctx k => some k | _ => none),
          (match t with | .wall => some w | .val v => some v | _ => none),
          (match n with | .lit v => some v | .val v => some v | _ => none) with
    | some c, some t, some n => some ⟨c, t, n⟩
    | _, _, _ => none
  | _ => none

/-- **What reaches `reserveN` through each public entry point, for all actual arguments** — the extracted argument
lists composed along the call chain are the model's `allowArgs` / `allowCtxArgs` / `allowNArgs` / `allowNCtxArgs`
(a dropped `n`, a dropped context, a literal other than 1, a stale clock instead of `time.Now()` break this), and
`Take(key)` is `TakeCtx(context.Background(), key)`. -/
theorem tie_entry_points_sem (w ns n key : Nat) (k : CtxKind) :
    ((evalFwds allowNFwdParams [.val ns, .val n] allowNFwdArgs).bind (fwdReserve w) = some (allowNArgs ns n)) ∧
    ((evalFwds allowNCtxFwdParams [.ctx k, .val ns, .val n] allowNCtxFwdArgs).bind (fwdReserve w) = some (allowNCtxArgs k ns n)) ∧
    (((evalFwds allowFwdParams [] allowFwdArgs).bind fun a => evalFwds allowNFwdParams a allowNFwdArgs).bind (fwdReserve w)
      = some (allowArgs w)) ∧
    (((evalFwds allowCtxFwdParams [.ctx k] allowCtxFwdArgs).bind fun a => evalFwds allowNCtxFwdParams a allowNCtxFwdArgs).bind (fwdReserve w)
      = some (allowCtxArgs k w)) ∧
    (evalFwds takeFwdParams [.val key] takeFwdArgs = some [.bg, .val key]) := by
  have h1 : litNat "now" = none := by decide
  have h2 : litNat "n" = none := by decide
  have h3 : litNat "ctx" = none := by decide
  have h4 : litNat "key" = none := by decide
  have h5 : litNat "1" = some 1 := by decide
  refine ⟨?_, ?_, ?_, ?_, ?_⟩ <;>
    simp [h1, h2, h3, h4, h5, evalFwds, evalFwd, fwdReserve, allowNFwdParams, allowNFwdArgs, allowNCtxFwdParams, allowNCtxFwdArgs,
      allowFwdParams, allowFwdArgs, allowCtxFwdParams, allowCtxFwdArgs, takeFwdParams, takeFwdArgs,
      allowNArgs, allowNCtxArgs, allowArgs, allowCtxArgs, List.lookup, List.zip]

/-! ### round 5: NewTokenLimiter, semantically -/

/-- `fmt.Sprintf(format, key)` for a format with `%s` verbs only -/
def sprintfL : List Char → List Char → List Char
  | '%' :: 's' :: rest, key => key ++ sprintfL rest key
  | c :: rest, key => c :: sprintfL rest key
  | [], _ => []

def sprintfS (format key : String) : String := String.ofList (sprintfL format.toList key.toList)

/-- **The constructor's arithmetic and key derivation for all arguments**: the interval of the rescue limiter is
`TCfg.ival` (`time.Second/time.Duration(rate)`, truncating), its size is `burst` (not `rate`), and the two Redis keys are
the model's `newTokenCfg` keys for EVERY caller key (`fmt.Sprintf` of the two extracted formats). -/
theorem tie_newTokenLimiter_sem (rate burst : Nat) (key : String) :
    rescueEveryNs rate burst = ((newTokenCfg rate burst key).ival : Int) ∧
    rescueBurst rate burst = (burst : Int) ∧
    sprintfS tokenFormat key = (newTokenCfg rate burst key).k1 ∧
    sprintfS timestampFormat key = (newTokenCfg rate burst key).k2 := by
  have h1 : tokenFormat.toList = ['{', '%', 's', '}', '.', 't', 'o', 'k', 'e', 'n', 's'] := by decide
  have h2 : timestampFormat.toList = ['{', '%', 's', '}', '.', 't', 's'] := by decide
  refine ⟨?_, rfl, ?_, ?_⟩
  · show Int.tdiv 1000000000 (rate : Int) = ((1000000000 / rate : Nat) : Int)
    rw [Int.tdiv_eq_ediv_of_nonneg (by decide)]; rfl
  · apply String.ext; simp [sprintfS, h1, sprintfL, newTokenCfg]
  · apply String.ext; simp [sprintfS, h2, sprintfL, newTokenCfg]

/-! ### round 5: the order of effects of startMonitor / waitForRedis as a typed list

The interleaving model `Mon` (ProofsMonitor.lean) gives every row of `startMonitor` and every event of the monitor
goroutine an effect on the shared state (mutex, monitorStarted, redisAlive, number of monitor goroutines).  Here the
extracted statement skeletons are translated to a TYPED instruction list, the list is interpreted as a sequence of
effects, and that sequence is proven equal to the sequence of state changes the model makes when one goroutine runs the
function alone from start to end — for both outcomes of the `monitorStarted` check.  A statement moved to another place
(seeded changes C03-2 / C03-4: `redisAlive = 0` before the check / before the Lock) changes the sequence. -/

inductive Eff where
  | acquire | release        -- rescueLock
  | started (b : Bool)       -- monitorStarted := b
  | alive (b : Bool)         -- redisAlive := b
  | spawn                    -- one more goroutine in waitForRedis' loop
  deriving DecidableEq, Repr

inductive MI where
  | lock | unlock | deferUnlock | retIfStarted | setStarted (b : Bool) | storeAlive (b : Bool) | goWait
  | ret | pingLoop (body : List MI) | deferBlock (body : List MI) | other
  deriving Repr

/-- statement skeleton → typed instructions (`none`: a statement outside the vocabulary) -/
def parseMI : Nat → List String → Option (List MI × List String)
  | 0, _ => none
  | fuel + 1, ss =>
    match ss with
    | [] => some ([], [])
    | "}" :: rest => some ([], "}" :: rest)
    | "if lim.monitorStarted {" :: "return" :: "}" :: rest => (parseMI fuel rest).map fun r => (.retIfStarted :: r.1, r.2)
    | "defer func{" :: rest =>
      match parseMI fuel rest with
      | some (body, "}" :: rest) => (parseMI fuel rest).map fun r => (.deferBlock body :: r.1, r.2)
      | _ => none
    | "for range ticker.C {" :: "if lim.store.Ping() {" :: rest =>
      match parseMI fuel rest with
      | some (body, "}" :: "}" :: rest) => (parseMI fuel rest).map fun r => (.pingLoop body :: r.1, r.2)
      | _ => none
    | st :: rest =>
      let i : Option MI :=
        if st = "lim.rescueLock.Lock()" then some .lock
        else if st = "lim.rescueLock.Unlock()" then some .unlock
        else if st = "defer lim.rescueLock.Unlock()" then some .deferUnlock
        else if st = "lim.monitorStarted = true" then some (.setStarted true)
        else if st = "lim.monitorStarted = false" then some (.setStarted false)
        else if st = "atomic.StoreUint32(&lim.redisAlive, 0)" then some (.storeAlive false)
        else if st = "atomic.StoreUint32(&lim.redisAlive, 1)" then some (.storeAlive true)
        else if st = "go lim.waitForRedis()" then some .goWait
        else if st = "return" then some .ret
        else if st = "ticker := time.NewTicker(…)" ∨ st = "ticker.Stop()" then some .other
        else none
      match i with
      | some i => (parseMI fuel rest).map fun r => (i :: r.1, r.2)
      | none => none

/-- effects of a straight run of an instruction list; `started` = what the `monitorStarted` check reads; deferred
work runs at the return, in reverse order of registration.  Result: (effects so far, deferred effects, returned?) -/
def runMI (started : Bool) : Nat → List MI → List Eff → List Eff × List Eff × Bool
  | 0, _, d => ([], d, true)
  | _ + 1, [], d => ([], d, false)
  | fuel + 1, i :: rest, d =>
    let cont (e : List Eff) (d : List Eff) := let r := runMI started fuel rest d; (e ++ r.1, r.2.1, r.2.2)
    match i with
    | .lock => cont [.acquire] d
    | .unlock => cont [.release] d
    | .deferUnlock => cont [] (.release :: d)
    | .retIfStarted => if started then ([], d, true) else cont [] d
    | .setStarted b => cont [.started b] d
    | .storeAlive b => cont [.alive b] d
    | .goWait => cont [.spawn] d
    | .ret => ([], d, true)
    | .other => cont [] d
    | .deferBlock body => cont [] ((runMI started fuel body []).1 ++ d)
    | .pingLoop body =>
      -- the successful ping: the body runs once (a failed ping has no effect on the shared state)
      let r := runMI started fuel body d
      if r.2.2 then r else cont r.1 r.2.1

def effectsOf (started : Bool) (shape : List String) : Option (List Eff) :=
  match parseMI (shape.length + 1) shape with
  | some (prog, []) => let r := runMI started (4 * shape.length + 4) prog []; some (r.1 ++ r.2.1)
  | _ => none

/-- the effect of one model step on the shared state -/
def diffEff (a b : Mon.St) : List Eff :=
  (if a.lock = .free ∧ b.lock ≠ .free then [Eff.acquire] else []) ++
  (if a.started ≠ b.started then [Eff.started b.started] else []) ++
  (if a.alive ≠ b.alive then [Eff.alive b.alive] else []) ++
  (if a.nLoop < b.nLoop then [Eff.spawn] else []) ++
  (if a.lock ≠ .free ∧ b.lock = .free then [Eff.release] else [])

/-- goroutine 0 runs `startMonitor` alone, from entering it until it is idle again -/
def callerTrace (s : Mon.St) : Nat → List Eff
  | 0 => []
  | fuel + 1 =>
    match Mon.step false s (.caller 0) with
    | some s' => diffEff s s' ++ (if s'.pc 0 = .idle then [] else callerTrace s' fuel)
    | none => []

/-- the monitor goroutine's successful ping and its deferred function -/
def monitorTrace (s : Mon.St) : List Mon.Ev → List Eff
  | [] => []
  | e :: es =>
    match Mon.step false s e with
    | some s' => diffEff s s' ++ monitorTrace s' es
    | none => []

/-- **The statements of `startMonitor` and `waitForRedis`, in the order of the source, have the effects of the model's
rows, in the model's order**: lock, (return under the lock if a monitor is marked started), `monitorStarted = true`
BEFORE `redisAlive = 0` BEFORE the goroutine is started, unlock last; the monitor stores `redisAlive = 1` first and only
then takes the lock to clear `monitorStarted`. -/
theorem tie_monitor_effects_sem :
    effectsOf false startMonitorShape = some (callerTrace Mon.init 10) ∧
    effectsOf true startMonitorShape = some (callerTrace { Mon.init with started := true } 10) ∧
    effectsOf false waitForRedisShape
      = some (monitorTrace { Mon.init with started := true, alive := false, nLoop := 1 } [.pingOk, .monLock, .monClear, .monUnlock]) ∧
    callerTrace Mon.init 10 = [.acquire, .started true, .alive false, .spawn, .release] ∧
    callerTrace { Mon.init with started := true } 10 = [.acquire, .release] := by
  refine ⟨?_, ?_, ?_, ?_, ?_⟩ <;> decide

end GoZero.C03.TieSem
