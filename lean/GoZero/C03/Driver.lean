/-
C03 — driver: replays an implementation trace through the model (correspondence) and evaluates the
property's monitors on the implementation's own observations.

Sections:
  begin kind=period quota=<q> period=<p>
    ft <ms> | take <key> | ctake <key> <m> | down | up
  begin kind=token rate=<r> burst=<b> ninst=<k>
    ft <ms> | allow <inst> <now-ns> <n> | callow <now-ns> <n> <m> | down | up
Observations:
  take   => <code 0..3> <nil|err|unknowncode> cnt=<v>:<ttl-ms>|cnt=-
  ctake  => sorted codes of m concurrent takes, then cnt=…
  allow  => ok|no tok=<v>:<ttl-ms>|tok=- ts=<v>:<ttl-ms>|ts=-
  callow => <number of grants among instances 0..m-1 calling concurrently> <per-instance 0/1 string> tok=… ts=…
  others => ok
-/
import GoZero.Base.Trace
import GoZero.C03.Spec
namespace GoZero.C03

open GoZero

def dumpKey (s : Store) (label k : String) : String :=
  match s.get k with
  | none => s!"{label}=-"
  | some e =>
    match e.exp with
    | none => s!"{label}={e.val}:none"
    | some d => s!"{label}={e.val}:{d - s.clock}"

/-! ### period sections -/

structure PDrv where
  sys  : PSys := PSys.init
  spec : Spec.PSpec := []
  up   : Bool := true

def insertNat (x : Nat) : List Nat → List Nat
  | [] => [x]
  | y :: ys => if x ≤ y then x :: y :: ys else y :: insertNat x ys

def codesStr (l : List Nat) : String := joinSp ((l.foldr insertNat []).map toString)

def runPeriod (r : Report) (s : Section) : Report := Id.run do
  let quota := kvNat s.cfg "quota" 1
  let period := kvNat s.cfg "period" 1
  let mut d : PDrv := {}
  let mut r := r
  for l in s.lines do
    r := { r with ops := r.ops + 1 }
    let impl := joinSp l.obs
    match l.op with
    | ["ft", ms] =>
      match ms.toNat? with
      | some ms =>
        d := { d with sys := (d.sys.step quota period (.ft ms)).1 }
        r := r.addCover "p-ft"
        if impl ≠ "ok" then r := r.mismatch s.idx l.idx "ok" impl
      | none => r := r.mismatch s.idx l.idx "bad-op" (joinSp l.op)
    | ["down"] =>
      d := { d with sys := (d.sys.step quota period .down).1, up := false }
      r := r.addCover "p-down"
      if impl ≠ "ok" then r := r.mismatch s.idx l.idx "ok" impl
    | ["up"] =>
      d := { d with sys := (d.sys.step quota period .up).1, up := true }
      r := r.addCover "p-up"
      if impl ≠ "ok" then r := r.mismatch s.idx l.idx "ok" impl
    | ["take", k] =>
      let clock := d.sys.store.clock
      let fresh := (d.sys.store.get k).isNone
      let res := d.sys.take quota period k
      d := { d with sys := res.1 }
      let model := s!"{res.2.1.toNat} {res.2.2.str} {dumpKey d.sys.store "cnt" k}"
      if model ≠ impl then r := r.mismatch s.idx l.idx model impl
      -- monitor on the implementation's observation
      let obsCode := (l.obs.headD "?")
      let obsErr := (l.obs.drop 1).headD "?"
      if d.up then
        let sp := Spec.ptake quota period d.spec clock k
        d := { d with spec := sp.1 }
        r := r.addCover (match sp.2 with
          | .allowed => if fresh then "p-allowed-first" else "p-allowed"
          | .hitQuota => "p-hitquota" | .overQuota => "p-overquota" | .unknown => "p-unknown")
        if fresh && clock > 0 then r := r.addCover "p-new-life-after-expiry"
        if obsCode ≠ toString sp.2.toNat || obsErr ≠ "nil" then
          r := r.violation s.idx l.idx s!"period: take {k} quota={quota} period={period} spec=[{sp.2.toNat} nil] impl=[{obsCode} {obsErr}]"
      else
        r := r.addCover "p-take-while-down"
        if obsCode ≠ "0" || obsErr = "nil" then
          r := r.violation s.idx l.idx s!"period: store unreachable but take {k} answered [{obsCode} {obsErr}] (must be Unknown + error)"
    | ["ctake", k, m] =>
      match m.toNat? with
      | none => r := r.mismatch s.idx l.idx "bad-op" (joinSp l.op)
      | some m =>
        let clock := d.sys.store.clock
        let mut codes : List Nat := []
        let mut specCodes : List Nat := []
        for _ in [0:m] do
          let res := d.sys.take quota period k
          d := { d with sys := res.1 }
          codes := res.2.1.toNat :: codes
          if d.up then
            let sp := Spec.ptake quota period d.spec clock k
            d := { d with spec := sp.1 }
            specCodes := sp.2.toNat :: specCodes
          else specCodes := 0 :: specCodes
        r := r.addCover "p-ctake"
        let model := s!"{codesStr codes} {dumpKey d.sys.store "cnt" k}"
        if model ≠ impl then r := r.mismatch s.idx l.idx model impl
        let obsCodes := joinSp (l.obs.take m)
        if obsCodes ≠ codesStr specCodes then
          r := r.violation s.idx l.idx s!"period: {m} concurrent takes on {k} quota={quota} spec=[{codesStr specCodes}] impl=[{obsCodes}]"
    | _ => r := r.mismatch s.idx l.idx "bad-op" (joinSp l.op)
  return r

/-! ### token sections -/

structure TDrv where
  sys     : Sys
  bucket  : Spec.Bucket
  joint   : Spec.Meter := Spec.Meter.init
  local_  : Nat → Spec.Meter := fun _ => Spec.Meter.init
  slack   : Nat → Nat := fun _ => 0    -- float-boundary grants of the rescue limiter, per instance (1 ns each)
  hist    : List (Nat × Nat) := []     -- (store clock ms, caller second) of earlier allow ops
  hypOk   : Bool := true
  up      : Bool := true

def tokDump (c : TCfg) (s : Store) : String := s!"{dumpKey s "tok" c.k1} {dumpKey s "ts" c.k2}"

/-- the timing hypothesis of the token theorems, checked on the op list: caller seconds are monotone and
whenever the store clock moved a full ttl since an earlier request, the caller's second moved a full ttl too. -/
def timedOk (ttl : Nat) (hist : List (Nat × Nat)) (clock sec : Nat) : Bool :=
  hist.all fun (c, m) => decide (m ≤ sec) && (decide (clock - c < ttl * 1000) || decide (ttl ≤ sec - m))

/-- one `allow`: model step (with the float boundary of the rescue limiter followed from the observation),
then the monitors. Returns the model's decision string ("ok"/"no"). -/
def tokAllow (c : TCfg) (d : TDrv) (i ns n : Nat) (implOk : Option Bool) : TDrv × Bool × Route × Bool :=
  let inst := d.sys.insts i
  let res := d.sys.reserveN true c i ns n
  -- exact deficit of exactly one ns: the float computation of x/time/rate may round either way
  let boundary := res.2.route = .rescue && c.ival ≠ 0 && n ≤ c.burst &&
    ((if inst.alive then inst.startMonitor else inst).rescue.after c ns n == -1)
  match implOk with
  | some true =>
    if boundary && !res.2.ok then
      let inst' := res.1.insts i
      let sys' := { res.1 with insts := upd res.1.insts i { inst' with rescue := ⟨-1, ns⟩ } }
      ({ d with sys := sys' }, true, res.2.route, true)
    else ({ d with sys := res.1 }, res.2.ok, res.2.route, false)
  | _ => ({ d with sys := res.1 }, res.2.ok, res.2.route, false)

def runToken (r : Report) (s : Section) : Report := Id.run do
  let rate := kvNat s.cfg "rate" 1
  let burst := kvNat s.cfg "burst" 1
  let ninst := kvNat s.cfg "ninst" 1
  let c : TCfg := ⟨rate, burst, "{k}.tokens", "{k}.ts"⟩
  let ttl := ttlFixed rate burst
  let mut d : TDrv := { sys := Sys.init c, bucket := Spec.Bucket.init burst }
  let mut r := r
  let mut abandoned := false
  for l in s.lines do
    if abandoned then continue
    r := { r with ops := r.ops + 1 }
    let impl := joinSp l.obs
    match l.op with
    | ["ft", ms] =>
      match ms.toNat? with
      | some ms =>
        d := { d with sys := (d.sys.step true c (.ft ms)).1 }
        r := r.addCover "t-ft"
        if impl ≠ "ok" then r := r.mismatch s.idx l.idx "ok" impl
      | none => r := r.mismatch s.idx l.idx "bad-op" (joinSp l.op)
    | ["down"] =>
      d := { d with sys := (d.sys.step true c .down).1, up := false }
      r := r.addCover "t-down"
      if impl ≠ "ok" then r := r.mismatch s.idx l.idx "ok" impl
    | ["up"] =>
      let mut sys := (d.sys.step true c .up).1
      for i in [0:ninst] do
        sys := (sys.step true c (.pingOk i)).1
        sys := (sys.step true c (.monExit i)).1
      d := { d with sys := sys, up := true }
      r := r.addCover "t-up"
      if impl = "TIMEOUT-monitor" then
        -- the real 100 ms ping goroutine did not bring every instance back within the harness' (generous)
        -- real-time bound: recovery latency is not part of the property and depends on machine load, so
        -- the rest of this section cannot be compared; `driver` reports it if it happens more than once
        r := r.addCover "t-up-timeout-section-abandoned"
        abandoned := true
      else if impl ≠ "ok" then r := r.mismatch s.idx l.idx "ok" impl
    | ["allow", i, ns, n] =>
      match i.toNat?, ns.toNat?, n.toNat? with
      | some i, some ns, some n =>
        let sec := ns / nsPerSec
        let clock := d.sys.store.clock
        let obsOk := l.obs.headD "?"
        let implOk : Option Bool := if obsOk = "ok" then some true else if obsOk = "no" then some false else none
        -- hypothesis bookkeeping
        if d.hypOk && !timedOk ttl d.hist clock sec then
          d := { d with hypOk := false }
          r := r.addCover "t-hyp-broken"
        d := { d with hist := (clock, sec) :: d.hist }
        let keysLive := (d.sys.store.get c.k1).isSome
        let (d', mOk, route, bnd) := tokAllow c d i ns n implOk
        d := d'
        if bnd then
          r := r.addCover "t-rescue-float-boundary"
          d := { d with slack := fun j => if j = i then d.slack i + 1 else d.slack j }
        let model := s!"{if mOk then "ok" else "no"} {tokDump c d.sys.store}"
        if model ≠ impl then r := r.mismatch s.idx l.idx model impl
        r := r.addCover (match route, mOk with
          | .store, true => "t-store-grant" | .store, false => "t-store-deny"
          | .rescue, true => "t-rescue-grant" | .rescue, false => "t-rescue-deny")
        if route = .store && !keysLive && clock > 0 then r := r.addCover "t-store-after-expiry"
        if n = 0 then r := r.addCover "t-n-zero"
        if n > burst then r := r.addCover "t-n-over-burst"
        -- monitors on the implementation's observation
        match implOk with
        | none => r := r.violation s.idx l.idx s!"token: unreadable decision [{impl}]"
        | some ok =>
          if d.hypOk then
            if d.up then
              -- reachable store: all instances are ONE bucket
              let sp := d.bucket.allow rate burst sec n
              d := { d with bucket := sp.1 }
              if sp.2 ≠ ok then
                r := r.violation s.idx l.idx s!"token: joint bucket rate={rate} burst={burst} inst={i} now={sec} n={n} spec=[{if sp.2 then "ok" else "no"}] impl=[{obsOk}]"
              if ok then
                let m := d.joint.add rate sec n
                d := { d with joint := m }
                if m.level > burst then
                  r := r.violation s.idx l.idx s!"token: joint grants exceed burst + rate*elapsed (rate={rate} burst={burst}): excess level {m.level} > {burst} at now={sec}"
            else
              r := r.addCover "t-allow-while-down"
              if ok && c.ival ≠ 0 then
                let m := (d.local_ i).add 1 ns (n * c.ival)
                d := { d with local_ := fun j => if j = i then m else d.local_ j }
                if m.level > burst * c.ival + d.slack i then
                  r := r.violation s.idx l.idx s!"token: instance {i} alone exceeds burst + L*elapsed while the store is unreachable (rate={rate} burst={burst} ival={c.ival}ns): {m.level} > {burst * c.ival}"
      | _, _, _ => r := r.mismatch s.idx l.idx "bad-op" (joinSp l.op)
    | ["callow", ns, n, m] =>
      match ns.toNat?, n.toNat?, m.toNat? with
      | some ns, some n, some m =>
        let sec := ns / nsPerSec
        let clock := d.sys.store.clock
        if d.hypOk && !timedOk ttl d.hist clock sec then
          d := { d with hypOk := false }
          r := r.addCover "t-hyp-broken"
        d := { d with hist := (clock, sec) :: d.hist }
        let mut grants := 0
        let mut specGrants := 0
        let mut allStore := true
        let mut bits := ""
        let obsBits := ((l.obs.drop 1).headD "").toList
        for i in [0:m] do
          -- while the store is unreachable every instance decides alone: its own observed decision is
          -- compared (and followed at the float boundary); on the store path the calls are serialised
          -- by the store in a schedule-dependent order, so only the number of grants is determined
          let implOk : Option Bool :=
            if d.up then none else match obsBits[i]? with
              | some '1' => some true
              | some '0' => some false
              | _ => none
          let (d', mOk, route, bnd) := tokAllow c d i ns n implOk
          d := d'
          if bnd then
            r := r.addCover "t-rescue-float-boundary"
            d := { d with slack := fun j => if j = i then d.slack i + 1 else d.slack j }
          if mOk then grants := grants + 1
          bits := bits ++ (if mOk then "1" else "0")
          if route ≠ .store then allStore := false
          if d.up then
            let sp := d.bucket.allow rate burst sec n
            d := { d with bucket := sp.1 }
            if sp.2 then specGrants := specGrants + 1
        r := r.addCover "t-callow"
        let obsG := (l.obs.headD "?")
        let model := if d.up then s!"{grants} {tokDump c d.sys.store}" else s!"{grants} {bits} {tokDump c d.sys.store}"
        let implCmp := if d.up then joinSp (l.obs.take 1 ++ l.obs.drop 2) else impl
        if model ≠ implCmp then r := r.mismatch s.idx l.idx model implCmp
        if d.hypOk && d.up then
          if allStore then r := r.addCover "t-callow-store"
          if obsG ≠ toString specGrants then
            r := r.violation s.idx l.idx s!"token: {m} concurrent requests n={n} now={sec} rate={rate} burst={burst}: spec grants {specGrants}, impl grants [{obsG}]"
          match obsG.toNat? with
          | some g =>
            if g > 0 then
              let mt := d.joint.add rate sec (g * n)
              d := { d with joint := mt }
              if mt.level > burst then
                r := r.violation s.idx l.idx s!"token: joint grants exceed burst + rate*elapsed (rate={rate} burst={burst}): excess level {mt.level} > {burst} at now={sec}"
          | none => r := r.violation s.idx l.idx s!"token: unreadable grant count [{impl}]"
      | _, _, _ => r := r.mismatch s.idx l.idx "bad-op" (joinSp l.op)
    | _ => r := r.mismatch s.idx l.idx "bad-op" (joinSp l.op)
  return r

def runSection (r : Report) (s : Section) : Report :=
  match kv? s.cfg "kind" with
  | some "period" => runPeriod r s
  | some "token" => runToken r s
  | _ => r.mismatch s.idx 0 "bad-section" (joinSp s.cfg)

def driver (secs : List Section) : Report :=
  let r := secs.foldl runSection {}
  -- one abandoned section per trace file is tolerated as real-time noise; more means the monitor goroutine
  -- does not bring instances back (correspondence broken)
  match r.cover.lookup "t-up-timeout-section-abandoned" with
  | some k => if k > 1 then r.mismatch 0 0 "every instance back on the store path after `up`" s!"monitor timed out in {k} sections" else r
  | none => r

end GoZero.C03
