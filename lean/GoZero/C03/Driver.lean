/-
C03 — driver: replays an implementation trace through the model (correspondence) and evaluates the
property's monitors on the implementation's own observations.

Sections:
  begin kind=period quota=<int> period=<int> align=<0|1> nlim=<L>
    ft <ms> | take <key> | takec <key> <lim> | takex <key> | ctake <key> <m> | cptake <g> <c> <k1,k2,…> | down | up
  begin kind=token rate=<r> burst=<b> ninst=<k>
    ft <ms> | allow|allowc|allowx <inst> <now-ns> <n> | callow <now-ns> <n> <m> | cstorm <now-ns> <n> <g> <c>
    | cmix <now-ns> <inst:n,inst:n,…> | down | upstore | up | latefail <inst>
  begin kind=tokenz rate=<int≠0> burst=<int>           (negative arguments; one limiter, store path only)
    allow <now-ns> <n:int>   => ok|no a=<redisAlive after> tok=<v>:<ttl-ms> ts=<v>:<ttl-ms>
Observations:
  take…  => <code 0..3> <nil|err|unknowncode|canceled> cnt=<v>:<ttl-ms>|cnt=-  [u=<u0>,<u1> local wall-clock seconds, align only]
  ctake  => sorted codes of m concurrent takes, then cnt=…
  cptake => per key  <key>=<allowed>:<hit>:<over>:<unknown>:<errors> cnt=…   (g goroutines × c takes, several limiters)
  allow… => ok|no a=<redisAlive before> s=<redisAlive after><monitorStarted after> tok=<v>:<ttl-ms>|tok=- ts=…
  callow => <number of grants among instances 0..m-1 calling concurrently> <per-instance 0/1 string> tok=… ts=…
  cstorm => <total grants> <grants per instance, comma separated> s=<flags of every instance> tok=… ts=…
  cmix   => <decision bit per entry> s=<flags of every instance> tok=… ts=…
  others => ok
-/
import GoZero.Base.Trace
import GoZero.C03.Spec
import GoZero.C03.ScriptRun
import GoZero.C03.RescueIval
namespace GoZero.C03

open GoZero

def dumpKey (s : Store) (label k : String) : String :=
  match s.get k with
  | none => s!"{label}=-"
  | some e =>
    match e.exp with
    | none => s!"{label}={e.val}:none"
    | some d => s!"{label}={e.val}:{d - s.clock}"

/-! ### period sections -/

structure PDrv where
  sys  : PSys := PSys.init
  spec : Spec.PSpec := []
  up   : Bool := true
  win  : List (String × Nat) := []      -- window (seconds) of the running life per key, for the spec monitor
  conn : Conn := {}                     -- link state and script cache of the store client's path
  forged : Option Forged := none        -- the server answers EVALSHA without running the script

def insertNat (x : Nat) : List Nat → List Nat
  | [] => [x]
  | y :: ys => if x ≤ y then x :: y :: ys else y :: insertNat x ys

def codesStr (l : List Nat) : String := joinSp ((l.foldr insertNat []).map toString)

def setWin (k : String) (w : Nat) : List (String × Nat) → List (String × Nat)
  | [] => [(k, w)]
  | (a, v) :: rest => if a = k then (k, w) :: rest else (a, v) :: setWin k w rest

/-- one take on the spec: the life in progress ends after ITS window; a new life gets window `w` -/
def specTake (quota : Nat) (d : PDrv) (clock : Nat) (k : String) (w : Nat) : PDrv × Code :=
  let old := (d.win.lookup k).getD 0
  let sp := Spec.ptake quota old d.spec clock k
  let started := match Spec.lifeOf k sp.1 with
    | some l => l.start == clock && l.count == 1
    | none => false
  ({ d with spec := sp.1, win := if started then setWin k w d.win else d.win }, sp.2)

def parseLink : String → Option Link
  | "up" => some .up | "down" => some .down | "noscript" => some .noscript
  | "noscriptdown" => some .noscriptDown | "shadown" => some .shaDown | _ => none

def parseForged : String → Option Forged
  | "strreply" => some .str | "int3reply" => some (.int 3) | "intm1reply" => some (.int (-1))
  | "nilreply" => some .nil | "int1reply" => some (.int 1) | "int2reply" => some (.int 2) | _ => none

def Forged.describe : Forged → String
  | .str => "a string" | .int v => s!"the integer {v}" | .nil => "a nil reply"

def tripsStr (ts : List Trip) : String :=
  if ts.isEmpty then "rt=-" else "rt=" ++ "+".intercalate (ts.map Trip.str)

/-- the round trips `scriptRun` predicts for one call on this connection, and the connection afterwards -/
def tripsOf (c : Conn) : String × Conn :=
  let r := scriptRun true c (fun (u : Unit) => (u, ())) ()
  (tripsStr r.2.2, r.1.2)

/-- monitor on the observed round trips of ONE call: at most one EVALSHA and one EVAL (the script runs at most once),
and an EVAL only after an EVALSHA -/
def tripsSane (tok : String) : Bool :=
  tok == "rt=-" || tok == "rt=evalsha" || tok == "rt=evalsha+eval"

/-- compare the `rt=` token of a sequential call with the model; returns the report and the connection afterwards -/
def checkTrips (r : Report) (sidx lidx : Nat) (what : String) (c : Conn) (tok : String) (sent : Bool)
    (forged : Bool := false) : Report × Conn :=
  -- a forged reply answers the EVALSHA itself: one round trip, the server's script cache is not touched
  let (exp, c') := if sent then (if forged then ("rt=evalsha", c) else tripsOf c) else ("rt=-", c)
  let r := if exp ≠ tok then r.mismatch sidx lidx s!"{what}: {exp}" s!"{what}: {tok}" else r
  let r := if !tripsSane tok then
      r.violation sidx lidx s!"{what}: one call sent the script more than once or without EVALSHA first ({tok}): a request must be counted exactly once"
    else r
  let r := r.addCover (if tok == "rt=evalsha+eval" then (if c.link.serves then "x-noscript-reload-served" else "x-noscript-reload-failed")
    else if tok == "rt=-" then "x-no-round-trip" else (if c.link.serves then "x-evalsha-served" else "x-evalsha-failed"))
  (r, c')

/-- tally of replies: allowed, hitQuota, overQuota, unknown, errors -/
structure Tally where
  a : Nat := 0
  h : Nat := 0
  o : Nat := 0
  u : Nat := 0
  e : Nat := 0
  deriving DecidableEq

def Tally.add (t : Tally) (c : Code) (err : Bool) : Tally :=
  let t := match c with
    | .allowed => { t with a := t.a + 1 } | .hitQuota => { t with h := t.h + 1 }
    | .overQuota => { t with o := t.o + 1 } | .unknown => { t with u := t.u + 1 }
  if err then { t with e := t.e + 1 } else t

def Tally.str (t : Tally) : String := s!"{t.a}:{t.h}:{t.o}:{t.u}:{t.e}"

/-- `u=<u0>,<u1>` of an aligned observation: the local wall-clock seconds before and after the call -/
def parseU (obs : List String) : Option (Int × Int) :=
  match kv? obs "u" with
  | some v =>
    match v.splitOn "," with
    | [a, b] => match a.toInt?, b.toInt? with
      | some a, some b => some (a, b)
      | _, _ => none
    | _ => none
  | none => none

/-- ttl in ms of a `cnt=<v>:<ttl>` token; `cnt=-` ⇒ none -/
def cntTtl (tok : String) : Option Nat :=
  match tok.splitOn ":" with
  | [_, t] => t.toNat?
  | _ => none

/-- The window `calcExpireSeconds()` hands to the script for the next take.
`inl w` = window in seconds as Redis treats it (`≤ 0` ⇒ 0), `inr msg` = correspondence broken, `none` = the call panics.
Without `Align()` it is `period`; with it, it depends on the wall clock the code reads itself, so the window is
taken from the observation (TTL of the counter right after a take that created it) and must be
`calcExpireZ true period u` for a second `u` between the two clock readings of the harness. -/
def windowFor (align : Bool) (period : Int) (fresh : Bool) (obs : List String) (cntTok : String) : Option (Nat ⊕ String) :=
  match calcExpireZ align period 0 with
  | none => none
  | some _ =>
    if !align then some (.inl period.toNat)
    else match parseU obs with
      | none => some (.inr "aligned take without u=<u0>,<u1>")
      | some (u0, u1) =>
        if u1 < u0 || u1 - u0 > 5 then some (.inr s!"wall clock moved from {u0} to {u1} during one call")
        else
          let cands := (List.range ((u1 - u0).toNat + 1)).filterMap fun (i : Nat) => (calcExpireZ true period (u0 + (i : Int))).map Int.toNat
          if !fresh then some (.inl (cands.headD 0))
          else
            let seen : Nat := match cntTtl cntTok with
              | some ms => ms / 1000
              | none => 0
            if cands.contains seen then some (.inl seen)
            else if (cntTtl cntTok).isNone then
              -- no counter under the limiter's own key: not a question of alignment (correspondence broken)
              some (.inr s!"no counter with a TTL under the limiter's key after the take that should have created it ({cntTok})")
            else some (.inr s!"window {seen}s is not period - (unix % period) for unix in [{u0},{u1}] (period={period})")

def runPeriod (r : Report) (s : Section) : Report := Id.run do
  let quotaZ := kvInt s.cfg "quota" 1
  let periodZ := kvInt s.cfg "period" 1
  -- the limiter is aligned iff the option list is not empty (`new_period_limit_fields`); `nopt` = its length
  let nopt := kvNat s.cfg "nopt" (kvNat s.cfg "align" 0)
  let align := (newPeriodLimit periodZ quotaZ "" (List.replicate nopt POpt.align)).align
  let quota := quotaZ.toNat
  let mut d : PDrv := {}
  let mut r := r
  if quotaZ ≤ 0 then r := r.addCover "p-sec-quota-nonpositive"
  if periodZ ≤ 0 then r := r.addCover "p-sec-period-nonpositive"
  if align then r := r.addCover "p-sec-align"
  if nopt > 1 then r := r.addCover "p-sec-align-option-repeated"
  if align && kvInt s.cfg "tz" 0 ≠ 0 then r := r.addCover "p-sec-align-zone-offset"
  if kvNat s.cfg "nlim" 1 > 1 then r := r.addCover "p-sec-several-limiters"
  let npre := max 1 (kvNat s.cfg "npre" 1)
  let pre (j : Nat) : String := s!"p{j % npre}:"
  if npre > 1 then r := r.addCover "p-sec-several-prefixes"
  let typeOk := (kv? s.cfg "rtype").getD "node" != "bogus"
  if !typeOk then r := r.addCover "p-sec-client-type-unsupported"
  -- `getRedis` rejects the client's type: `(Unknown, err)` before anything is sent, whatever the context
  let badType (r : Report) (l : Line) (d : PDrv) (k0 k : String) : Report := Id.run do
    let mut r := r.addCover "p-take-client-type-unsupported"
    let res := (PVSys.take quota 0 false ⟨d.sys.store, d.conn⟩ k).2
    let model := s!"{res.1.1.toNat} {res.1.2.str} {dumpKey d.sys.store "cnt" k} {tripsStr res.2}"
    let implCmp := joinSp (l.obs.take 4)
    if model ≠ implCmp then r := r.mismatch s.idx l.idx model implCmp
    if l.obs.headD "?" ≠ "0" || (l.obs.drop 1).headD "nil" = "nil" then
      r := r.violation s.idx l.idx s!"period: the store client cannot reach any server (unsupported type) but take {k0} answered [{joinSp (l.obs.take 2)}] (must be Unknown + error)"
    return r
  for l in s.lines do
    r := { r with ops := r.ops + 1 }
    let impl := joinSp l.obs
    match l.op with
    | ["ft", ms] =>
      match ms.toNat? with
      | some ms =>
        d := { d with sys := (d.sys.step quota 0 (.ft ms)).1 }
        r := r.addCover "p-ft"
        if impl ≠ "ok" then r := r.mismatch s.idx l.idx "ok" impl
      | none => r := r.mismatch s.idx l.idx "bad-op" (joinSp l.op)
    | ["down"] =>
      d := { d with sys := (d.sys.step quota 0 .down).1, up := false, conn := { d.conn with link := .down }, forged := none }
      r := r.addCover "p-down"
      if impl ≠ "ok" then r := r.mismatch s.idx l.idx "ok" impl
    | ["up"] =>
      d := { d with sys := (d.sys.step quota 0 .up).1, up := true, conn := { d.conn with link := .up }, forged := none }
      r := r.addCover "p-up"
      if impl ≠ "ok" then r := r.mismatch s.idx l.idx "ok" impl
    | ["link", m] =>
      match parseLink m, parseForged m with
      | some lk, _ =>
        d := { d with sys := (d.sys.step quota 0 (PVOp.abs (.link lk))).1, up := lk.serves, conn := { d.conn with link := lk }, forged := none }
        r := r.addCover s!"p-link-{m}"
        if impl ≠ "ok" then r := r.mismatch s.idx l.idx "ok" impl
      | none, some f =>
        -- the transport works (link up), the answer to EVALSHA is forged
        d := { d with sys := (d.sys.step quota 0 .up).1, up := true, conn := { d.conn with link := .up }, forged := some f }
        r := r.addCover s!"p-link-{m}"
        if impl ≠ "ok" then r := r.mismatch s.idx l.idx "ok" impl
      | none, none => r := r.mismatch s.idx l.idx "bad-op" (joinSp l.op)
    | "takex" :: k :: _ | "taked" :: k :: _ =>
      let ck : CtxKind := if l.op.headD "" == "takex" then .cancelled else .expired
      let cls := if ck = .cancelled then "canceled" else "deadline"
      let k0 := k
      let k := pre 0 ++ k
      if (calcExpireZ align periodZ 0).isNone then
        -- the window is computed before the script call: `unix % 0` panics whatever the context or the store
        r := r.addCover "p-align-period-zero-panics"
        if !(l.obs.headD "" == "PANIC" && l.obs.contains "divide") then
          r := r.mismatch s.idx l.idx "PANIC runtime error: integer divide by zero" impl
        continue
      if !typeOk then
        r := badType r l d k0 k
        continue
      -- cancelled context / deadline passed: (Unknown, the context's error), the store is not touched
      r := r.addCover (if ck = .cancelled then "p-take-cancelled" else "p-take-deadline-passed")
      if d.forged.isSome then r := r.addCover "p-take-ctx-error-while-replies-forged"
      if !d.up then r := r.addCover "p-take-ctx-error-while-down"
      let res := takeOutcome ck (.int 1)
      let model := s!"{res.1.toNat} {cls} {dumpKey d.sys.store "cnt" k}"
      let implCmp := joinSp (l.obs.take 3)
      if model ≠ implCmp then r := r.mismatch s.idx l.idx model implCmp
      if l.obs.headD "?" ≠ "0" || (l.obs.drop 1).headD "nil" = "nil" then
        r := r.violation s.idx l.idx s!"period: take {k0} with a context that is {if ck = .cancelled then "cancelled" else "past its deadline"} answered [{joinSp (l.obs.take 2)}] (must be Unknown + error)"
      -- a cancelled context never reaches the server
      let (r', c') := checkTrips r s.idx l.idx "cancelled take" d.conn ((l.obs.drop 3).headD "") false
      r := r'; d := { d with conn := c' }
    | "take" :: k :: _ | "takec" :: k :: _ | "ftake" :: k :: _ | "takef" :: k :: _ | "ltake" :: k :: _ =>
      -- ltake: the script runs, the reply is lost (deadline / timeout during the call)
      let lostCls : Option String := if l.op.headD "" == "ltake" then
          (match (l.op.drop 2).headD "" with | "deadline" => some "deadline" | "timeout" => some "err" | _ => none)
        else none
      -- (a section whose window computation panics - Align with period 0 - never reaches the script: any take, `ltake`
      --  included, is compared with the panic below, whatever the link's state)
      if l.op.headD "" == "ltake" && !(calcExpireZ align periodZ 0).isNone && (lostCls.isNone || !d.up || d.forged.isSome || d.conn.link != .up || !d.conn.loaded) then
        r := r.mismatch s.idx l.idx "ltake <key> deadline|timeout on a served link" (joinSp l.op)
        continue
      -- which limiter (takec names it): its prefix is part of the Redis key
      let lim : Nat := if l.op.headD "" == "takec" then ((l.op.drop 2).headD "0").toNat?.getD 0 else 0
      if l.op.headD "" == "takec" && (lim ≥ kvNat s.cfg "nlim" 1 || (l.op.drop 2).isEmpty) then
        r := r.mismatch s.idx l.idx "bad-op" (joinSp l.op)
        continue
      let k0 := k
      let k := pre lim ++ k
      if npre > 1 && lim % npre ≠ 0 then r := r.addCover "p-take-other-prefix"
      if l.op.headD "" == "takef" then r := r.addCover "p-take-deadline-far-away"
      if l.op.headD "" == "ftake" then
        -- SCRIPT FLUSH first: the server's cache no longer knows the script
        d := { d with conn := { d.conn with loaded := false } }
        r := r.addCover "p-ftake"
      let clock := d.sys.store.clock
      let fresh := (d.sys.store.get k).isNone
      if (calcExpireZ align periodZ 0).isNone then
        r := r.addCover "p-align-period-zero-panics"
        if !(l.obs.headD "" == "PANIC" && l.obs.contains "divide") then
          r := r.mismatch s.idx l.idx "PANIC runtime error: integer divide by zero" impl
      else if !typeOk then
        r := badType r l d k0 k
      else if d.forged.isSome then
        -- the server answers the EVALSHA itself, the script does not run: decoding of every reply kind
        let f := d.forged.getD .str
        let res := takeOutcome .background f.resp
        let model := s!"{res.1.toNat} {res.2.str} {dumpKey d.sys.store "cnt" k}"
        let implCmp := joinSp (l.obs.take 3)
        if model ≠ implCmp then r := r.mismatch s.idx l.idx model implCmp
        r := r.addCover (match f with | .str => "p-take-reply-string" | .nil => "p-take-reply-nil" | .int v => if v = 1 || v = 2 then "p-take-reply-forged-code-believed" else "p-take-reply-integer-no-code")
        let obsCode := (l.obs.headD "?")
        let obsErr := (l.obs.drop 1).headD "?"
        if !(f = .int 1 || f = .int 2 || f = .int 0) && (obsCode ≠ "0" || obsErr = "nil") then
          r := r.violation s.idx l.idx s!"period: the server answered {f.describe} without running the script but take {k0} answered [{obsCode} {obsErr}] (only the script's integer replies 1 and 2 grant, 0 is OverQuota; anything else must be Unknown + error)"
        let (r', c') := checkTrips r s.idx l.idx s!"take {k0}" d.conn ((l.obs.drop 3).headD "") true true
        r := r'; d := { d with conn := c' }
      else if !d.up then
        let res := d.sys.take quota 0 k
        let model := s!"{res.2.1.toNat} {res.2.2.str} {dumpKey d.sys.store "cnt" k}"
        let implCmp := joinSp (l.obs.take 3)
        if model ≠ implCmp then r := r.mismatch s.idx l.idx model implCmp
        r := r.addCover "p-take-while-down"
        let obsCode := (l.obs.headD "?")
        let obsErr := (l.obs.drop 1).headD "?"
        if obsCode ≠ "0" || obsErr = "nil" then
          r := r.violation s.idx l.idx s!"period: store error on the script path (link {repr d.conn.link}) but take {k} answered [{obsCode} {obsErr}] (must be Unknown + error)"
        let (r', c') := checkTrips r s.idx l.idx s!"take {k}" d.conn ((l.obs.drop 3).headD "") true
        r := r'; d := { d with conn := c' }
      else
      match windowFor align periodZ fresh l.obs ((l.obs.drop 2).headD "") with
      | none =>
        r := r.addCover "p-align-period-zero-panics"
        if !(l.obs.headD "" == "PANIC" && l.obs.contains "divide") then
          r := r.mismatch s.idx l.idx "PANIC runtime error: integer divide by zero" impl
      | some (.inr msg) =>
        if msg.startsWith "window " then
          r := r.violation s.idx l.idx s!"period: Align(): the life started by take {k} does not end on a multiple of the period of the local clock (unix + zone offset): {msg}"
        else r := r.mismatch s.idx l.idx msg impl
      | some (.inl w) =>
        let res := if lostCls.isSome then (d.sys.takeLost quota w k) else d.sys.take quota w k
        d := { d with sys := res.1 }
        let model := s!"{res.2.1.toNat} {lostCls.getD res.2.2.str} {dumpKey d.sys.store "cnt" k}"
        let implCmp := joinSp (l.obs.take 3)
        if model ≠ implCmp then r := r.mismatch s.idx l.idx model implCmp
        -- monitor on the implementation's observation
        let obsCode := (l.obs.headD "?")
        let obsErr := (l.obs.drop 1).headD "?"
        let (d', code) := specTake quota d clock k w
        d := d'
        if lostCls.isSome then
          -- the permit is consumed (the specification counts the take), the caller must get Unknown + error
          r := r.addCover (if lostCls == some "deadline" then "p-take-reply-lost-deadline" else "p-take-reply-lost-timeout")
          if obsCode ≠ "0" || obsErr = "nil" then
            r := r.violation s.idx l.idx s!"period: the reply of take {k0} was lost after the script ran but the caller was answered [{obsCode} {obsErr}] (a permit may be consumed without a grant, never a grant without a reply)"
          let (r', c') := checkTrips r s.idx l.idx s!"take {k0}" d.conn ((l.obs.drop 3).headD "") true
          r := r'; d := { d with conn := c' }
          continue
        r := r.addCover (match code with
          | .allowed => if fresh then "p-allowed-first" else "p-allowed"
          | .hitQuota => "p-hitquota" | .overQuota => "p-overquota" | .unknown => "p-unknown")
        if fresh && clock > 0 then r := r.addCover "p-new-life-after-expiry"
        if align && fresh then r := r.addCover (if w = periodZ.toNat then "p-align-window-full" else "p-align-window-short")
        if obsCode ≠ toString code.toNat || obsErr ≠ "nil" then
          r := r.violation s.idx l.idx s!"period: take {k0}{if npre > 1 then s!" (limiter {lim}, prefix {pre lim}, {npre} prefixes on one store)" else ""} quota={quotaZ} period={periodZ} spec=[{code.toNat} nil] impl=[{obsCode} {obsErr}]"
        let (r', c') := checkTrips r s.idx l.idx s!"take {k}" d.conn ((l.obs.drop 3).headD "") true
        r := r'; d := { d with conn := c' }
    | ["ctake", k, m] =>
      if npre > 1 then
        r := r.mismatch s.idx l.idx "no concurrent op in a section with several prefixes" impl
        continue
      let k := pre 0 ++ k
      if d.forged.isSome || d.conn.link = .noscript || d.conn.link = .noscriptDown || d.conn.link = .shaDown || !d.conn.loaded then
        -- concurrent NOSCRIPT answers open the client's breaker (finding 3): the harness does not run these
        r := r.addCover "p-concurrent-skipped-in-link-mode"
        if impl ≠ "skipped-link" then r := r.mismatch s.idx l.idx "skipped-link" impl
        continue
      match m.toNat? with
      | none => r := r.mismatch s.idx l.idx "bad-op" (joinSp l.op)
      | some m =>
        let clock := d.sys.store.clock
        let fresh := (d.sys.store.get k).isNone
        match (if d.up then windowFor align periodZ fresh l.obs ((l.obs.drop m).headD "") else some (.inl 0)) with
        | none => r := r.mismatch s.idx l.idx "no concurrent op in a section whose takes panic" impl
        | some (.inr msg) => r := r.mismatch s.idx l.idx msg impl
        | some (.inl w) =>
          let mut codes : List Nat := []
          let mut specCodes : List Nat := []
          for _ in [0:m] do
            let res := d.sys.take quota w k
            d := { d with sys := res.1 }
            codes := res.2.1.toNat :: codes
            if d.up then
              let (d', code) := specTake quota d clock k w
              d := d'
              specCodes := code.toNat :: specCodes
            else specCodes := 0 :: specCodes
          r := r.addCover "p-ctake"
          if m > 8 then r := r.addCover "p-ctake-many"
          let model := s!"{codesStr codes} {dumpKey d.sys.store "cnt" k}"
          let implCmp := joinSp (l.obs.take (m + 1))
          if model ≠ implCmp then r := r.mismatch s.idx l.idx model implCmp
          let obsCodes := joinSp (l.obs.take m)
          if obsCodes ≠ codesStr specCodes then
            r := r.violation s.idx l.idx s!"period: {m} concurrent takes on {k} quota={quotaZ} spec=[{codesStr specCodes}] impl=[{obsCodes}]"
    | ["cptake", g, c, ks] =>
      if npre > 1 then
        r := r.mismatch s.idx l.idx "no concurrent op in a section with several prefixes" impl
        continue
      if d.forged.isSome || d.conn.link = .noscript || d.conn.link = .noscriptDown || d.conn.link = .shaDown || !d.conn.loaded then
        -- concurrent NOSCRIPT answers open the client's breaker (finding 3): the harness does not run these
        r := r.addCover "p-concurrent-skipped-in-link-mode"
        if impl ≠ "skipped-link" then r := r.mismatch s.idx l.idx "skipped-link" impl
        continue
      match g.toNat?, c.toNat? with
      | some g, some c =>
        let keys := ks.splitOn ","
        let nk := keys.length
        let clock := d.sys.store.clock
        r := r.addCover "p-cptake"
        if nk > 1 then r := r.addCover "p-cptake-several-keys"
        if !d.up then r := r.addCover "p-cptake-while-down"
        let mut modelParts : List String := []
        let mut ki := 0
        let mut bad : Option String := none
        for k in keys do
          -- goroutines j < g with j % nk = ki, c takes each
          let cnt := ((List.range g).filter fun j => j % nk == ki).length * c
          let fk := pre 0 ++ k
          let fresh := (d.sys.store.get fk).isNone && cnt > 0
          let cntTok := (l.obs.drop (2 * ki + 1)).headD ""
          match (if d.up then windowFor align periodZ fresh l.obs cntTok else some (.inl 0)) with
          | none => bad := some "no concurrent op in a section whose takes panic"
          | some (.inr msg) => bad := some msg
          | some (.inl w) =>
            let mut tm : Tally := {}
            let mut ts : Tally := {}
            for _ in [0:cnt] do
              let res := d.sys.take quota w fk
              d := { d with sys := res.1 }
              tm := tm.add res.2.1 (res.2.2 ≠ .nil)
              if d.up then
                let (d', code) := specTake quota d clock fk w
                d := d'
                ts := ts.add code false
              else ts := ts.add .unknown true
            modelParts := modelParts ++ [s!"{k}={tm.str}", dumpKey d.sys.store "cnt" fk]
            if cnt > quota then r := r.addCover "p-cptake-over-quota"
            let obsT := (l.obs.drop (2 * ki)).headD ""
            if obsT ≠ s!"{k}={ts.str}" then
              r := r.violation s.idx l.idx s!"period: {cnt} concurrent takes on {k} (goroutines x takes, several limiters) quota={quotaZ} period={periodZ}: spec allowed:hit:over:unknown:errors=[{ts.str}] impl=[{obsT}]"
          ki := ki + 1
        match bad with
        | some msg => r := r.mismatch s.idx l.idx msg impl
        | none =>
          let model := joinSp modelParts
          let implCmp := joinSp (l.obs.take (2 * nk))
          if model ≠ implCmp then r := r.mismatch s.idx l.idx model implCmp
      | _, _ => r := r.mismatch s.idx l.idx "bad-op" (joinSp l.op)
    | _ => r := r.mismatch s.idx l.idx "bad-op" (joinSp l.op)
  return r

/-! ### token sections -/

structure TDrv where
  sys     : Sys
  bucket  : Spec.Bucket
  joint   : Spec.Meter := Spec.Meter.init
  local_  : Nat → Spec.Meter := fun _ => Spec.Meter.init
  slack   : Nat → Nat := fun _ => 0    -- float-boundary grants of the rescue limiter, per instance (1 ns each)
  hist    : List (Nat × Nat) := []     -- (store clock ms, caller second) of earlier allow ops
  hypOk   : Bool := true
  up      : Bool := true
  rlast   : Nat → Nat := fun _ => 0    -- `now` (ns) of the latest locally decided request, per instance
  rmono   : Nat → Bool := fun _ => true -- hypothesis of rescue_local_bound: those `now`s never went backwards
  conn    : Conn := {}                  -- link state and script cache of the store client's path
  pingOk  : Bool := true                -- the server answers PING with PONG (only in link state `up`)
  forged  : Option Forged := none       -- the server answers EVALSHA without running the script
  lost    : Option LostKind := none     -- THIS call loses its reply after the script ran
  outages : Nat → Nat := fun _ => 0     -- how often each instance has left the shared bucket (redisAlive 1 → 0)
  iv      : Nat → IvState := fun _ => ⟨0, 0⟩   -- bounds on the empty time of each instance's local bucket (wall-clock sections)

def tokDump (c : TCfg) (s : Store) : String := s!"{dumpKey s "tok" c.k1} {dumpKey s "ts" c.k2}"

def b2s (b : Bool) : String := if b then "1" else "0"

def instFlags (i : Inst) : String := s!"{b2s i.alive}{b2s i.monitor}"

def allFlags (s : Sys) (ninst : Nat) : String :=
  "s=" ++ String.join ((List.range ninst).map fun i => instFlags (s.insts i))

/-- the timing hypothesis of the token theorems, checked on the op list: caller seconds are monotone and
whenever the store clock moved a full ttl since an earlier request, the caller's second moved a full ttl too. -/
def timedOk (ttl : Nat) (hist : List (Nat × Nat)) (clock sec : Nat) : Bool :=
  hist.all fun (c, m) => decide (m ≤ sec) && (decide (clock - c < ttl * 1000) || decide (ttl ≤ sec - m))

/-- one `allow`: model step (with the float boundary of the rescue limiter followed from the observation),
then the monitors. Returns the model's decision, the deciding bucket, whether the float boundary was taken. -/
def tokAllow (c : TCfg) (d : TDrv) (i ns n : Nat) (implOk : Option Bool) : TDrv × Bool × Route × Bool :=
  let inst := d.sys.insts i
  let res := match d.lost, d.forged with
    | some k, _ => d.sys.reserveLost c i ns n k
    | none, some f => d.sys.reserveForged c i ns n f
    | none, none => d.sys.reserveN true c i ns n
  -- exact deficit of exactly one ns: the float computation of x/time/rate may round either way
  let boundary := res.2.route = .rescue && c.ival ≠ 0 && n ≤ c.burst &&
    ((if inst.alive then inst.startMonitor else inst).rescue.after c ns n == -1)
  let d := if inst.alive && !(res.1.insts i).alive then
      { d with outages := fun j => if j = i then d.outages i + 1 else d.outages j } else d
  match implOk with
  | some true =>
    if boundary && !res.2.ok then
      let inst' := res.1.insts i
      let sys' := { res.1 with insts := upd res.1.insts i { inst' with rescue := ⟨-1, ns⟩ } }
      ({ d with sys := sys' }, true, res.2.route, true)
    else ({ d with sys := res.1 }, res.2.ok, res.2.route, false)
  | _ => ({ d with sys := res.1 }, res.2.ok, res.2.route, false)

/-- all orders of a short list -/
def perms {α : Type} : List α → List (List α)
  | [] => [[]]
  | x :: xs => (perms xs).flatMap fun p => (List.range (p.length + 1)).map fun i => p.take i ++ [x] ++ p.drop i

/-- a request decided locally by instance `i` at `ns` (granted or not): monotonicity bookkeeping -/
def noteRescue (d : TDrv) (i ns : Nat) : TDrv :=
  let ok := d.rmono i && decide (d.rlast i ≤ ns)
  { d with rmono := (fun j => if j = i then ok else d.rmono j), rlast := (fun j => if j = i then max ns (d.rlast i) else d.rlast j) }

/-- a granted request of size `n` decided locally by instance `i` at `ns`: the local meter -/
def localGrant (c : TCfg) (burst rate : Nat) (r : Report) (s : Section) (l : Line) (d : TDrv) (i ns n : Nat) : TDrv × Report :=
  if c.ival = 0 then (d, r) else
  -- `rescue_grant_needs_n_le_burst`: the local limiter never grants more than its size at once
  let r := if n > burst then
      r.violation s.idx l.idx s!"token: instance {i} granted a request for n={n} > burst={burst} tokens with its local limiter (the request's size must reach the limiter)"
    else r
  if !d.rmono i then (d, r) else
  let m := (d.local_ i).add 1 ns (n * c.ival)
  let d := { d with local_ := fun j => if j = i then m else d.local_ j }
  let r := if d.outages i ≥ 2 then r.addCover "t-local-grant-in-a-later-outage-of-a-flapping-store" else r
  if m.level > burst * c.ival + d.slack i then
    -- `local_bucket_survives_outages`: ONE local bucket per instance for its whole life, however often the store flaps
    let across := if d.outages i ≥ 2 then s!" ACROSS {d.outages i} outages (the local bucket must survive between outages: it is built once, by the constructor)" else ""
    (d, r.violation s.idx l.idx s!"token: instance {i} alone exceeds burst + L*elapsed with its local limiter{across} (rate={rate} burst={burst} ival={c.ival}ns): {m.level} > {burst * c.ival}")
  else (d, r)

/-- `g` tokens granted jointly by the store at second `sec`: the joint meter -/
def jointGrant (burst rate : Nat) (r : Report) (s : Section) (l : Line) (d : TDrv) (sec g : Nat) : TDrv × Report :=
  if g = 0 then (d, r) else
  let m := d.joint.add rate sec g
  let d := { d with joint := m }
  if m.level > burst then
    (d, r.violation s.idx l.idx s!"token: joint grants exceed burst + rate*elapsed (rate={rate} burst={burst}): excess level {m.level} > {burst} at now={sec}")
  else (d, r)

def runToken (r : Report) (s : Section) : Report := Id.run do
  let rate := kvNat s.cfg "rate" 1
  let burst := kvNat s.cfg "burst" 1
  let ninst := kvNat s.cfg "ninst" 1
  let c : TCfg := ⟨rate, burst, "{k}.tokens", "{k}.ts"⟩
  let ttl := ttlFixed rate burst
  let mut d : TDrv := { sys := Sys.init c, bucket := Spec.Bucket.init burst, iv := fun _ => IvState.init c }
  let mut r := r
  let mut abandoned := false
  if burst = 0 then r := r.addCover "t-sec-burst-zero"
  if ninst > 1 then r := r.addCover "t-sec-several-instances"
  let typeOk := (kv? s.cfg "rtype").getD "node" != "bogus"
  if !typeOk then
    -- `getRedis` rejects the client's type: every script call fails before anything is sent (a store that is down
    -- for ever, without round trips), no ping can succeed
    r := r.addCover "t-sec-client-type-unsupported"
    d := { d with sys := (d.sys.step true c .down).1, up := false, conn := { d.conn with link := .down }, pingOk := false }
  for l in s.lines do
    if abandoned then continue
    r := { r with ops := r.ops + 1 }
    let impl := joinSp l.obs
    if rate = 0 then
      -- NewTokenLimiter computes time.Second/time.Duration(rate): integer divide by zero, no limiter exists
      r := r.addCover "t-new-panics-rate-zero"
      if !(l.obs.headD "" == "newpanic" && (impl.splitOn "divide").length > 1) then
        r := r.mismatch s.idx l.idx "newpanic runtime-error:-integer-divide-by-zero" impl
      continue
    match l.op with
    | ["ft", ms] =>
      match ms.toNat? with
      | some ms =>
        d := { d with sys := (d.sys.step true c (.ft ms)).1 }
        r := r.addCover "t-ft"
        if impl ≠ "ok" then r := r.mismatch s.idx l.idx "ok" impl
      | none => r := r.mismatch s.idx l.idx "bad-op" (joinSp l.op)
    | ["down"] =>
      d := { d with sys := (d.sys.step true c .down).1, up := false, conn := { d.conn with link := .down }, pingOk := false, forged := none }
      r := r.addCover "t-down"
      if impl ≠ "ok" then r := r.mismatch s.idx l.idx "ok" impl
    | ["link", m] =>
      match parseLink m, parseForged m with
      | some lk, _ =>
        if lk = .up || lk = .down then r := r.mismatch s.idx l.idx "bad-op" (joinSp l.op)
        else
          -- noscript: scripts are served through the EVAL fallback, PING is held (like `upstore`); the others: like `down`
          d := { d with sys := (d.sys.step true c (if lk.serves then .up else .down)).1, up := lk.serves,
                        conn := { d.conn with link := lk }, pingOk := false, forged := none }
          r := r.addCover s!"t-link-{m}"
          if impl ≠ "ok" then r := r.mismatch s.idx l.idx "ok" impl
      | none, some f =>
        -- the transport works, EVALSHA is answered with a forged reply, PING is held
        d := { d with sys := (d.sys.step true c .up).1, up := true, conn := { d.conn with link := .up }, pingOk := false, forged := some f }
        r := r.addCover s!"t-link-{m}"
        if impl ≠ "ok" then r := r.mismatch s.idx l.idx "ok" impl
      | none, none => r := r.mismatch s.idx l.idx "bad-op" (joinSp l.op)
    | ["ping"] =>
      let exp := pingResult true (if d.pingOk then some "PONG" else none)
      let model := s!"ping={b2s exp} raw={if d.pingOk then "PONG" else "err"}"
      r := r.addCover (if exp then "t-ping-true" else "t-ping-false")
      if model ≠ impl then r := r.mismatch s.idx l.idx model impl
      if kv? l.obs "raw" = some "PONG" && kv? l.obs "ping" ≠ some "1" then
        r := r.violation s.idx l.idx s!"token: the server answers PING with PONG but Redis.Ping() reports [{impl}]: the monitor goroutine can never bring an instance back from its local limiter to the shared bucket"
      if kv? l.obs "raw" ≠ some "PONG" && kv? l.obs "ping" = some "1" then
        r := r.violation s.idx l.idx s!"token: PING fails but Redis.Ping() reports success [{impl}]: an instance would return to a store that is unreachable"
    | ["upstore"] =>
      -- scripts are served again, no ping has succeeded yet: no pingOk / monExit event
      d := { d with sys := (d.sys.step true c .up).1, up := true, conn := { d.conn with link := .up }, forged := none, pingOk := false }
      r := r.addCover "t-upstore"
      if (List.range ninst).any fun i => !(d.sys.insts i).alive then r := r.addCover "t-upstore-some-instance-in-rescue"
      if impl ≠ "ok" then r := r.mismatch s.idx l.idx "ok" impl
    | ["latefail", i] =>
      match i.toNat? with
      | some i =>
        -- store reachable; the monitor of instance i has stored redisAlive=1 (pingOk), a late failure reaches
        -- startMonitor before the deferred monitorStarted=false (monExit); whatever was started is then waited for
        let inWindow := !(d.sys.insts i).alive && (d.sys.insts i).monitor
        let mut sys := (d.sys.step true c .up).1
        sys := (sys.step true c (.pingOk i)).1
        sys := (sys.step true c (.lateFail i)).1
        for _ in [0:2] do
          for j in [0:ninst] do
            sys := (sys.step true c (.pingOk j)).1
            sys := (sys.step true c (.monExit j)).1
        d := { d with sys := sys, up := true, conn := { d.conn with link := .up }, pingOk := true, forged := none }
        r := r.addCover (if inWindow then "t-latefail-in-monitor-window" else "t-latefail-plain")
        if l.obs.headD "" = "PINGBROKEN" then
          r := r.violation s.idx l.idx s!"token: the server answers PING with PONG but Redis.Ping() reports false [{impl}]: the monitor goroutine can never bring an instance back from its local limiter to the shared bucket"
          abandoned := true
        else if l.obs.headD "" = "TIMEOUT-monitor" then
          r := r.addCover "t-up-timeout-section-abandoned"
          abandoned := true
        else
          if impl ≠ "ok" then r := r.mismatch s.idx l.idx "ok" impl
          if l.obs.headD "" = "STUCK" then
            r := r.violation s.idx l.idx s!"token: the store is reachable and no request has failed since, yet an instance stays on its local limiter for ever: {joinSp (l.obs.drop 1)} (no monitor goroutine will set redisAlive again) after a late failure reached startMonitor between the monitor's redisAlive=1 and its deferred monitorStarted=false"
      | none => r := r.mismatch s.idx l.idx "bad-op" (joinSp l.op)
    | ["up"] =>
      let mut sys := (d.sys.step true c .up).1
      for i in [0:ninst] do
        sys := (sys.step true c (.pingOk i)).1
        sys := (sys.step true c (.monExit i)).1
      d := { d with sys := sys, up := true, conn := { d.conn with link := .up }, pingOk := true, forged := none }
      r := r.addCover "t-up"
      if l.obs.headD "" = "PINGBROKEN" then
        r := r.violation s.idx l.idx s!"token: the server answers PING with PONG but Redis.Ping() reports false [{impl}]: the monitor goroutine can never bring an instance back from its local limiter to the shared bucket"
        abandoned := true
      else if l.obs.headD "" = "TIMEOUT-monitor" then
        -- the real 100 ms ping goroutine did not bring every instance back within the harness' (generous)
        -- real-time bound: recovery latency is not part of the property and depends on machine load, so
        -- the rest of this section cannot be compared; `driver` reports it if it happens more than once
        r := r.addCover "t-up-timeout-section-abandoned"
        abandoned := true
      else
        if impl ≠ "ok" then r := r.mismatch s.idx l.idx "ok" impl
        if l.obs.headD "" = "STUCK" then
          r := r.violation s.idx l.idx s!"token: the store is reachable and no request has failed since, yet an instance stays on its local limiter for ever: {joinSp (l.obs.drop 1)} (no monitor goroutine will set redisAlive again)"
    | ["callow", ns, n, m] =>
      if d.forged.isSome || d.conn.link = .noscript || d.conn.link = .noscriptDown || d.conn.link = .shaDown || !d.conn.loaded then
        r := r.addCover "t-concurrent-skipped-in-link-mode"
        if impl ≠ "skipped-link" then r := r.mismatch s.idx l.idx "skipped-link" impl
        continue
      match ns.toNat?, n.toNat?, m.toNat? with
      | some ns, some n, some m =>
        let sec := ns / nsPerSec
        let clock := d.sys.store.clock
        if d.hypOk && !timedOk ttl d.hist clock sec then
          d := { d with hypOk := false }
          r := r.addCover "t-hyp-broken"
        d := { d with hist := (clock, sec) :: d.hist }
        let obsBits := ((l.obs.drop 1).headD "").toList
        let mut grants := 0
        let mut bits := ""
        let mut storeIdx : List Nat := []
        for i in [0:m] do
          -- an instance on its local limiter decides alone: its own observed decision is compared (and
          -- followed at the float boundary); the calls that reach the store are serialised by the store in a
          -- schedule-dependent order, so only the number of grants among them is determined
          let implOk : Option Bool := match obsBits[i]? with
            | some '1' => some true
            | some '0' => some false
            | _ => none
          let (d', mOk, route, bnd) := tokAllow c d i ns n implOk
          d := d'
          if bnd then
            r := r.addCover "t-rescue-float-boundary"
            d := { d with slack := fun j => if j = i then d.slack i + 1 else d.slack j }
          if mOk then grants := grants + 1
          if route = .store then
            storeIdx := storeIdx ++ [i]
            bits := bits ++ "*"
          else
            bits := bits ++ (if mOk then "1" else "0")
            d := noteRescue d i ns
            if implOk = some true then
              let (d', r') := localGrant c burst rate r s l d i ns n
              d := d'; r := r'
        r := r.addCover "t-callow"
        let implBits := String.ofList ((List.range obsBits.length).map fun i =>
          if storeIdx.contains i then '*' else obsBits[i]?.getD '?')
        let model := s!"{grants} {bits} {tokDump c d.sys.store}"
        let implCmp := joinSp (l.obs.take 1 ++ [implBits] ++ l.obs.drop 2)
        if model ≠ implCmp then r := r.mismatch s.idx l.idx model implCmp
        if d.hypOk && storeIdx.length > 0 then
          if storeIdx.length = m then r := r.addCover "t-callow-store"
          let mut specGrants := 0
          for _ in storeIdx do
            let sp := d.bucket.allow rate burst sec n
            d := { d with bucket := sp.1 }
            if sp.2 then specGrants := specGrants + 1
          let obsG := (storeIdx.filter fun i => obsBits[i]? == some '1').length
          if obsG ≠ specGrants then
            r := r.violation s.idx l.idx s!"token: {storeIdx.length} concurrent requests n={n} now={sec} rate={rate} burst={burst}: spec grants {specGrants}, impl grants [{obsG}]"
          let (d', r') := jointGrant burst rate r s l d sec (obsG * n)
          d := d'; r := r'
      | _, _, _ => r := r.mismatch s.idx l.idx "bad-op" (joinSp l.op)
    | ["lallow", i, ns, n, kind] =>
      let lk : Option LostKind := match kind with | "deadline" => some .deadline | "timeout" => some .timeout | _ => none
      match lk, i.toNat?, ns.toNat?, n.toNat? with
      | some lk, some i, some ns, some n =>
        if !((d.sys.insts i).alive && d.up && typeOk && d.forged.isNone && d.conn.link = .up && d.conn.loaded) then
          r := r.mismatch s.idx l.idx "lallow on an instance on the store path over a served link" (joinSp l.op)
          continue
        let rtTok := l.obs.getLast?.getD ""
        let impl := joinSp l.obs.dropLast
        let (r', c') := checkTrips r s.idx l.idx s!"lallow inst={i}" d.conn rtTok true
        r := r'; d := { d with conn := c' }
        let sec := ns / nsPerSec
        let clock := d.sys.store.clock
        if d.hypOk && !timedOk ttl d.hist clock sec then
          d := { d with hypOk := false }
          r := r.addCover "t-hyp-broken"
        d := { d with hist := (clock, sec) :: d.hist }
        let obsOk := l.obs.headD "?"
        let implOk : Option Bool := if obsOk = "ok" then some true else if obsOk = "no" then some false else none
        let (d', mOk, route, bnd) := tokAllow c { d with lost := some lk } i ns n implOk
        d := { d' with lost := none }
        if bnd then
          r := r.addCover "t-rescue-float-boundary"
          d := { d with slack := fun j => if j = i then d.slack i + 1 else d.slack j }
        let model := s!"{if mOk then "ok" else "no"} a=1 s={instFlags (d.sys.insts i)} {tokDump c d.sys.store}"
        if model ≠ impl then r := r.mismatch s.idx l.idx model impl
        -- the shared bucket was charged as by an answered request (`lost_reply_charges_bucket`): the ONE bucket goes on
        let charged := if d.hypOk then (d.bucket.allow rate burst sec n).2 else false
        if d.hypOk then d := { d with bucket := (d.bucket.allow rate burst sec n).1 }
        r := r.addCover (match lk with
          | .deadline => if charged then "t-reply-lost-deadline-token-consumed-without-grant" else "t-reply-lost-deadline-nothing-to-consume"
          | .timeout => if charged then "t-reply-lost-timeout-charged-and-goes-local" else "t-reply-lost-timeout-goes-local")
        if route = .store then
          -- a context error: the caller is refused whatever the script did
          if implOk ≠ some false then
            r := r.violation s.idx l.idx s!"token: the reply of the request inst={i} n={n} was lost after the script ran (the caller's deadline) but the caller was answered [{obsOk}] (a token may be consumed without a grant, never a grant without a reply)"
          else if ((kv? l.obs "s").getD "1").startsWith "0" then
            r := r.violation s.idx l.idx s!"token: a deadline that expired during the script call was taken for a store failure, inst={i} left the shared bucket ({(kv? l.obs "s").getD ""})"
        else
          d := noteRescue d i ns
          if implOk = some true then
            let (d', r') := localGrant c burst rate r s l d i ns n
            d := d'; r := r'
      | _, _, _, _ => r := r.mismatch s.idx l.idx "bad-op" (joinSp l.op)
    | [verb, i, ns, n] =>
      match (verb == "allow" || verb == "allowc" || verb == "allowx" || verb == "allowd" || verb == "allowf" || verb == "fallow"), i.toNat?, ns.toNat?, n.toNat? with
      | true, some i, some ns, some n =>
        -- (an unsupported client type is reported by getRedis before the context is looked at)
        let ck : CtxKind := if !typeOk then .background else if verb == "allowx" then .cancelled else if verb == "allowd" then .expired
          else if verb == "allowf" then .future else .background
        -- the last token is the list of script round trips the call made
        let rtTok := l.obs.getLast?.getD ""
        let impl := joinSp l.obs.dropLast
        if verb == "fallow" then
          d := { d with conn := { d.conn with loaded := false } }
          r := r.addCover "t-fallow"
        -- an instance in rescue mode sends nothing; a cancelled context never reaches the server
        let sent := (d.sys.insts i).alive && ck.sends && typeOk
        if !typeOk && (d.sys.insts i).alive then r := r.addCover "t-allow-client-type-unsupported-goes-local"
        let (r', c') := checkTrips r s.idx l.idx s!"{verb} inst={i}" d.conn rtTok sent d.forged.isSome
        r := r'; d := { d with conn := c' }
        if ck = .future then r := r.addCover "t-allow-deadline-far-away"
        if !ck.sends && (d.sys.insts i).alive then
          -- cancelled context / deadline passed, instance on the store path: the script call fails with the context's
          -- error, `return false`; neither the store nor the flags nor the local limiter are touched
          d := { d with sys := (d.sys.reserveArgs true c i ⟨ck, ns, n⟩).1 }
          let inst := d.sys.insts i
          r := r.addCover (if ck = .cancelled then "t-allow-cancelled" else "t-allow-deadline-passed")
          if !d.up then r := r.addCover "t-allow-ctx-error-while-down"
          if d.forged.isSome then r := r.addCover "t-allow-ctx-error-while-replies-forged"
          let model := s!"no a={b2s inst.alive} s={instFlags inst} {tokDump c d.sys.store}"
          if model ≠ impl then r := r.mismatch s.idx l.idx model impl
          let what := if ck = .cancelled then "a cancelled context" else "a context whose deadline has passed"
          if l.obs.headD "?" ≠ "no" then
            r := r.violation s.idx l.idx s!"token: request with {what} was answered [{l.obs.headD "?"}] (must be refused)"
          else if ((kv? l.obs "s").getD "1").startsWith "0" then
            r := r.violation s.idx l.idx s!"token: request with {what}: a caller-side context error was taken for a store failure, inst={i} left the shared bucket for its local limiter ({(kv? l.obs "s").getD ""}: redisAlive=0) although the store was never asked"
          continue
        -- (an instance in rescue mode never looks at the context: a cancelled call is an ordinary one)
        if !ck.sends then r := r.addCover "t-allow-ctx-error-in-rescue-mode"
        if d.forged.isSome && (d.sys.insts i).alive then
          -- the server answers the EVALSHA itself: only the integer 1 grants, a string sends the instance to its local
          -- limiter (with `n`, at `now`), everything else refuses; the shared bucket is not touched
          let f := d.forged.getD .str
          let obsOk := l.obs.headD "?"
          let implOk : Option Bool := if obsOk = "ok" then some true else if obsOk = "no" then some false else none
          let (d', mOk, route, bnd) := tokAllow c d i ns n implOk
          d := d'
          if bnd then
            r := r.addCover "t-rescue-float-boundary"
            d := { d with slack := fun j => if j = i then d.slack i + 1 else d.slack j }
          let model := s!"{if mOk then "ok" else "no"} a=1 s={instFlags (d.sys.insts i)} {tokDump c d.sys.store}"
          if model ≠ impl then r := r.mismatch s.idx l.idx model impl
          r := r.addCover (match f with | .str => "t-allow-reply-string-goes-local" | .nil => "t-allow-reply-nil" | .int v => if v = 1 then "t-allow-reply-forged-1-believed" else "t-allow-reply-integer-not-1")
          if n > burst then r := r.addCover "t-forged-n-over-burst"
          if route = .store then
            if implOk = some true && f ≠ .int 1 then
              r := r.violation s.idx l.idx s!"token: the server answered {f.describe} without running the script but the request inst={i} n={n} was granted (only the integer reply 1 grants)"
          else
            d := noteRescue d i ns
            if implOk = some true then
              let (d', r') := localGrant c burst rate r s l d i ns n
              d := d'; r := r'
          continue
        let sec := ns / nsPerSec
        let clock := d.sys.store.clock
        let obsOk := l.obs.headD "?"
        let implOk : Option Bool := if obsOk = "ok" then some true else if obsOk = "no" then some false else none
        -- hypothesis bookkeeping
        if d.hypOk && !timedOk ttl d.hist clock sec then
          d := { d with hypOk := false }
          r := r.addCover "t-hyp-broken"
        d := { d with hist := (clock, sec) :: d.hist }
        let keysLive := (d.sys.store.get c.k1).isSome
        let aliveBefore := (d.sys.insts i).alive
        let (d', mOk, route, bnd) := tokAllow c d i ns n implOk
        d := d'
        if bnd then
          r := r.addCover "t-rescue-float-boundary"
          d := { d with slack := fun j => if j = i then d.slack i + 1 else d.slack j }
        let model := s!"{if mOk then "ok" else "no"} a={b2s aliveBefore} s={instFlags (d.sys.insts i)} {tokDump c d.sys.store}"
        if model ≠ impl then r := r.mismatch s.idx l.idx model impl
        r := r.addCover (match route, mOk with
          | .store, true => "t-store-grant" | .store, false => "t-store-deny"
          | .rescue, true => "t-rescue-grant" | .rescue, false => "t-rescue-deny")
        if route = .store && !keysLive && clock > 0 then r := r.addCover "t-store-after-expiry"
        if n = 0 then r := r.addCover "t-n-zero"
        if n > burst then r := r.addCover "t-n-over-burst"
        if d.up && route = .rescue then r := r.addCover "t-rescue-while-store-up"
        if d.up && route = .store && ((List.range ninst).any fun j => !(d.sys.insts j).alive) then
          r := r.addCover "t-store-while-other-instance-in-rescue"
        if !d.up then r := r.addCover "t-allow-while-down"
        if route = .rescue then d := noteRescue d i ns
        -- monitors on the implementation's observation
        match implOk with
        | none => r := r.violation s.idx l.idx s!"token: unreadable decision [{impl}]"
        | some ok =>
          if route = .store then
            if d.hypOk then
              -- decided by the shared store: all instances are ONE bucket
              let sp := d.bucket.allow rate burst sec n
              d := { d with bucket := sp.1 }
              if sp.2 ≠ ok then
                r := r.violation s.idx l.idx s!"token: joint bucket rate={rate} burst={burst} inst={i} now={sec} n={n} spec=[{if sp.2 then "ok" else "no"}] impl=[{obsOk}]"
              if ok then
                let (d', r') := jointGrant burst rate r s l d sec n
                d := d'; r := r'
          else if ok then
            let (d', r') := localGrant c burst rate r s l d i ns n
            d := d'; r := r'
      | _, _, _, _ => r := r.mismatch s.idx l.idx "bad-op" (joinSp l.op)
    | [verb, i] =>
      -- Allow() / AllowCtx(ctx): ONE token at the wall-clock time the entry point reads itself
      match (verb == "allow0" || verb == "allowctx0" || verb == "allowx0" || verb == "allowd0" || verb == "allowf0"), i.toNat? with
      | true, some i =>
        let ck : CtxKind := if verb == "allowx0" then .cancelled else if verb == "allowd0" then .expired
          else if verb == "allowf0" then .future else .background
        let args : ReserveArgs := if verb == "allow0" then allowArgs 0 else allowCtxArgs ck 0
        let n := args.n
        let wTok := (kv? l.obs "w").getD ""
        let rtTok := "rt=" ++ (kv? l.obs "rt").getD "?"
        let impl := joinSp (l.obs.take 5)
        match (match wTok.splitOn "," with
          | [a, b] => (match a.toNat?, b.toNat? with | some a, some b => some (a, b) | _, _ => none)
          | _ => none) with
        | none => r := r.mismatch s.idx l.idx "w=<t0>,<t1>" (joinSp l.obs)
        | some (t0, t1) =>
        if t1 < t0 || t1 - t0 > 5 * nsPerSec then
          r := r.mismatch s.idx l.idx "wall clock readings of one call" wTok
          continue
        r := r.addCover (if verb == "allow0" then "t-entry-Allow" else "t-entry-AllowCtx")
        let inst0 := d.sys.insts i
        let sent := inst0.alive && args.ctx.sends
        let (r', c') := checkTrips r s.idx l.idx s!"{verb} inst={i}" d.conn rtTok sent d.forged.isSome
        r := r'; d := { d with conn := c' }
        let obsOk := l.obs.headD "?"
        let implOk : Option Bool := if obsOk = "ok" then some true else if obsOk = "no" then some false else none
        let refusedByReply := match d.forged with
          | some f => reserveOutcome args.ctx f.treply != .rescue
          | none => false
        if inst0.alive && args.ctx.sends && refusedByReply then
          -- the server answers the EVALSHA itself with an integer / nil: only the integer 1 grants, nothing is touched
          let f := d.forged.getD .nil
          r := r.addCover "t-entry-reply-forged-refused"
          let exp := reserveOutcome args.ctx f.treply == .grant
          let model := s!"{if exp then "ok" else "no"} a=1 s={instFlags inst0} {tokDump c d.sys.store}"
          if model ≠ impl then r := r.mismatch s.idx l.idx model impl
          if obsOk = "ok" && !exp then
            r := r.violation s.idx l.idx s!"token: {verb}: the server answered {f.describe} without running the script but the request was granted (only the integer reply 1 grants)"
        else if inst0.alive && !args.ctx.sends then
          r := r.addCover (if ck = .cancelled then "t-entry-AllowCtx-cancelled" else "t-entry-AllowCtx-deadline-passed")
          let model := s!"no a=1 s={instFlags inst0} {tokDump c d.sys.store}"
          if model ≠ impl then r := r.mismatch s.idx l.idx model impl
          if obsOk ≠ "no" then
            r := r.violation s.idx l.idx s!"token: AllowCtx with a context that is {if ck = .cancelled then "cancelled" else "past its deadline"} was answered [{obsOk}] (must be refused: the context has to reach the script call)"
          else if ((kv? l.obs "s").getD "1").startsWith "0" then
            r := r.violation s.idx l.idx s!"token: AllowCtx: a caller-side context error was taken for a store failure, inst={i} left the shared bucket ({(kv? l.obs "s").getD ""})"
        else if inst0.alive && d.up && d.forged.isNone then
          -- store path: the second the script was given is the value it wrote to the timestamp key
          let tsTok := (kv? l.obs "ts").getD "-"
          match (tsTok.splitOn ":").headD "" |>.toNat? with
          | none => r := r.mismatch s.idx l.idx "ts=<second>:<ttl> after a call that reached the store" impl
          | some sec =>
            if sec < t0 / nsPerSec || sec > t1 / nsPerSec then
              r := r.violation s.idx l.idx s!"token: {verb}: the request was made at second {sec}, not at the current time (wall clock between {t0 / nsPerSec} and {t1 / nsPerSec}): Allow()/AllowCtx() are AllowN(time.Now(), 1)"
            let clock := d.sys.store.clock
            if d.hypOk && !timedOk ttl d.hist clock sec then
              d := { d with hypOk := false }
              r := r.addCover "t-hyp-broken"
            d := { d with hist := (clock, sec) :: d.hist }
            let (d', mOk, _, _) := tokAllow c d i (sec * nsPerSec) n implOk
            d := d'
            let model := s!"{if mOk then "ok" else "no"} a=1 s={instFlags (d.sys.insts i)} {tokDump c d.sys.store}"
            if model ≠ impl then r := r.mismatch s.idx l.idx model impl
            r := r.addCover (if mOk then "t-entry-store-grant" else "t-entry-store-deny")
            match implOk with
            | none => r := r.violation s.idx l.idx s!"token: unreadable decision [{impl}]"
            | some ok =>
              if d.hypOk then
                let sp := d.bucket.allow rate burst sec n
                d := { d with bucket := sp.1 }
                if sp.2 ≠ ok then
                  r := r.violation s.idx l.idx s!"token: {verb} is a request for ONE token now: joint bucket rate={rate} burst={burst} inst={i} now={sec} n=1 spec=[{if sp.2 then "ok" else "no"}] impl=[{obsOk}]"
                if ok then
                  let (d', r') := jointGrant burst rate r s l d sec n
                  d := d'; r := r'
        else
          -- decided by the instance's local limiter at a wall-clock instant between t0 and t1 that the harness cannot
          -- see: no decision is predicted; the flags are, and the local bound is monitored with the bracket as slack
          if inst0.alive then d := { d with sys := (d.sys.step true c (.lateFail i)).1 }
          if inst0.alive && d.forged.isSome then r := r.addCover "t-entry-reply-string-goes-local"
          let model := s!"{obsOk} a={b2s inst0.alive} s={instFlags (d.sys.insts i)} {tokDump c d.sys.store}"
          if model ≠ impl then r := r.mismatch s.idx l.idx model impl
          r := r.addCover (if implOk = some true then "t-entry-rescue-grant" else "t-entry-rescue-deny")
          -- interval model (RescueIval.lean, `ivRun_sound` / `ivStep_complete`): the decision must be possible for SOME
          -- clock value between the two readings (widened by 2 ns for the limiter's float64 arithmetic)
          if c.ival ≠ 0 then
            match implOk with
            | some dec =>
              match ivStep c (d.iv i) ((t0 : Int) - 2) ((t1 : Int) + 2) n dec with
              | some iv' =>
                d := { d with iv := fun j => if j = i then iv' else d.iv j }
                r := r.addCover (if (ivStep c (d.iv i) ((t0 : Int) - 2) ((t1 : Int) + 2) n (!dec)).isSome
                  then "t-entry-rescue-either-decision-possible" else "t-entry-rescue-decision-determined")
              | none =>
                if dec then
                  r := r.violation s.idx l.idx s!"token: {verb} in rescue mode was granted, but for no clock value between {t0} and {t1} does the local bucket of inst={i} (burst={burst}, one token per {c.ival} ns) hold a token: its empty time is at least {(d.iv i).lo}"
                else
                  r := r.mismatch s.idx l.idx s!"ok (the local bucket of inst={i} holds a token for every clock value in the bracket: empty time at most {(d.iv i).hi})" impl
            | none => pure ()
          d := { d with slack := fun j => if j = i then d.slack i + (t1 - t0) else d.slack j }
          d := noteRescue d i t1
          if implOk = some true then
            let (d', r') := localGrant c burst rate r s l d i t1 n
            d := d'; r := r'
      | _, _ => r := r.mismatch s.idx l.idx "bad-op" (joinSp l.op)
    | ["cstorm", ns, n, g, cc] =>
      if d.forged.isSome || d.conn.link = .noscript || d.conn.link = .noscriptDown || d.conn.link = .shaDown || !d.conn.loaded then
        r := r.addCover "t-concurrent-skipped-in-link-mode"
        if impl ≠ "skipped-link" then r := r.mismatch s.idx l.idx "skipped-link" impl
        continue
      match ns.toNat?, n.toNat?, g.toNat?, cc.toNat? with
      | some ns, some n, some g, some cc =>
        let sec := ns / nsPerSec
        let clock := d.sys.store.clock
        if d.hypOk && !timedOk ttl d.hist clock sec then
          d := { d with hypOk := false }
          r := r.addCover "t-hyp-broken"
        d := { d with hist := (clock, sec) :: d.hist }
        let implPer : List Nat := (((l.obs.drop 1).headD "").splitOn ",").map fun x => x.toNat?.getD 0
        r := r.addCover "t-cstorm"
        if g > ninst then r := r.addCover "t-cstorm-goroutines-share-an-instance"
        let mut per : List Nat := []            -- model grants per instance
        let mut storeInst : List Nat := []      -- instances whose calls reach the store
        let mut storeCalls := 0
        for i in [0:ninst] do
          let calls := ((List.range g).filter fun j => j % ninst == i).length * cc
          let implG := implPer[i]?.getD 0
          let mut gi := 0
          let mut isStore := false
          for k in [0:calls] do
            -- all calls carry the same (now, n): a local limiter grants a prefix of them
            let (d', mOk, route, bnd) := tokAllow c d i ns n (some (decide (k < implG)))
            d := d'
            if bnd then
              r := r.addCover "t-rescue-float-boundary"
              d := { d with slack := fun j => if j = i then d.slack i + 1 else d.slack j }
            if mOk then gi := gi + 1
            if route = .store then
              isStore := true
              storeCalls := storeCalls + 1
          per := per ++ [gi]
          if isStore then storeInst := storeInst ++ [i]
          else
            if calls > 0 then d := noteRescue d i ns
            for _ in [0:implG] do
              let (d', r') := localGrant c burst rate r s l d i ns n
              d := d'; r := r'
        let sumOn (xs : List Nat) := (storeInst.map fun i => xs[i]?.getD 0).sum
        -- which store-path instance wins is schedule dependent: only their sum is determined
        let perCmp := if sumOn per = sumOn implPer then
            (List.range ninst).map fun i => if storeInst.contains i then implPer[i]?.getD 0 else per[i]?.getD 0
          else per
        let model := s!"{per.sum} {",".intercalate (perCmp.map toString)} {allFlags d.sys ninst} {tokDump c d.sys.store}"
        if model ≠ impl then r := r.mismatch s.idx l.idx model impl
        if storeInst.length > 0 && storeInst.length < ninst then r := r.addCover "t-cstorm-mixed-store-and-rescue"
        if storeInst.length = 0 then r := r.addCover "t-cstorm-all-rescue"
        if d.hypOk && storeCalls > 0 then
          r := r.addCover "t-cstorm-store"
          let mut specGrants := 0
          for _ in [0:storeCalls] do
            let sp := d.bucket.allow rate burst sec n
            d := { d with bucket := sp.1 }
            if sp.2 then specGrants := specGrants + 1
          if specGrants < storeCalls then r := r.addCover "t-cstorm-store-some-denied"
          let obsG := sumOn implPer
          if obsG ≠ specGrants then
            r := r.violation s.idx l.idx s!"token: {storeCalls} concurrent requests (goroutines x calls over {storeInst.length} instances) n={n} now={sec} rate={rate} burst={burst}: ONE bucket grants {specGrants}, impl granted [{obsG}]"
          let (d', r') := jointGrant burst rate r s l d sec (obsG * n)
          d := d'; r := r'
      | _, _, _, _ => r := r.mismatch s.idx l.idx "bad-op" (joinSp l.op)
    | ["cmix", ns, ents] =>
      if d.forged.isSome || d.conn.link = .noscript || d.conn.link = .noscriptDown || d.conn.link = .shaDown || !d.conn.loaded then
        r := r.addCover "t-concurrent-skipped-in-link-mode"
        if impl ≠ "skipped-link" then r := r.mismatch s.idx l.idx "skipped-link" impl
        continue
      let parsed : List (Option (Nat × Nat)) := (ents.splitOn ",").map fun e =>
        match e.splitOn ":" with
        | [a, b] => match a.toNat?, b.toNat? with
          | some a, some b => some (a, b)
          | _, _ => none
        | _ => none
      match ns.toNat?, parsed.all Option.isSome with
      | some ns, true =>
        let es : List (Nat × Nat) := parsed.filterMap id
        let m := es.length
        let sec := ns / nsPerSec
        let clock := d.sys.store.clock
        if d.hypOk && !timedOk ttl d.hist clock sec then
          d := { d with hypOk := false }
          r := r.addCover "t-hyp-broken"
        d := { d with hist := (clock, sec) :: d.hist }
        let obsBits := (l.obs.headD "").toList
        let bitAt (q : Nat) : Bool := obsBits[q]? == some '1'
        r := r.addCover "t-cmix"
        -- the calls are serialised (by the store's script execution / the local limiter's mutex) in an order
        -- the harness cannot see: the observation must be what SOME order produces
        let runOrder (order : List Nat) : TDrv × List (Nat × Bool × Route × Bool) := Id.run do
          let mut dd := d
          let mut out : List (Nat × Bool × Route × Bool) := []
          for q in order do
            let (i, n) := es[q]?.getD (0, 0)
            let (d', mOk, route, bnd) := tokAllow c dd i ns n (some (bitAt q))
            dd := d'
            out := out ++ [(q, mOk, route, bnd)]
          return (dd, out)
        let explains (res : TDrv × List (Nat × Bool × Route × Bool)) : Bool :=
          res.2.all (fun (q, mOk, _, _) => mOk == bitAt q) &&
            s!"{allFlags res.1.sys ninst} {tokDump c res.1.sys.store}" == joinSp (l.obs.drop 1)
        let ident := List.range m
        let orders := if m ≤ 6 then perms ident else [ident]
        let found := orders.find? fun o => explains (runOrder o)
        let chosen := runOrder (found.getD ident)
        if found.isNone then
          let bits := String.ofList ((List.range m).map fun q =>
            match chosen.2.find? (fun x => x.1 == q) with
            | some (_, mOk, _, _) => if mOk then '1' else '0'
            | none => '?')
          r := r.mismatch s.idx l.idx s!"{bits} {allFlags chosen.1.sys ninst} {tokDump c chosen.1.sys.store} (or another serialisation)" impl
        else if found ≠ some ident then r := r.addCover "t-cmix-explained-by-other-order"
        let dBefore := d
        d := chosen.1
        for (q, _, route, bnd) in chosen.2 do
          let (i, n) := es[q]?.getD (0, 0)
          if bnd then
            r := r.addCover "t-rescue-float-boundary"
            d := { d with slack := fun j => if j = i then d.slack i + 1 else d.slack j }
          if route = .rescue then d := noteRescue d i ns
          if route = .rescue && bitAt q then
            let (d', r') := localGrant c burst rate r s l d i ns n
            d := d'; r := r'
        -- monitor: the requests that reached the store must be the decisions of ONE bucket in some order
        let storeQs := (chosen.2.filter fun x => x.2.2.1 = .store).map (·.1)
        if d.hypOk && storeQs.length > 0 then
          r := r.addCover "t-cmix-store"
          let runSpec (order : List Nat) : Spec.Bucket × Bool := Id.run do
            let mut b := dBefore.bucket
            let mut okAll := true
            for q in order do
              let sp := b.allow rate burst sec ((es[q]?.getD (0, 0)).2)
              b := sp.1
              if sp.2 ≠ bitAt q then okAll := false
            return (b, okAll)
          let sOrders := if storeQs.length ≤ 6 then perms storeQs else [storeQs]
          match sOrders.find? fun o => (runSpec o).2 with
          | some o => d := { d with bucket := (runSpec o).1 }
          | none =>
            d := { d with bucket := (runSpec storeQs).1 }
            let reqs := joinSp (storeQs.map fun q => s!"n={(es[q]?.getD (0, 0)).2}:{if bitAt q then "ok" else "no"}")
            r := r.violation s.idx l.idx s!"token: concurrent requests now={sec} rate={rate} burst={burst} [{reqs}]: no serialisation on ONE bucket holding {dBefore.bucket.filled rate burst sec} gives these decisions"
          let granted := (storeQs.map fun q => if bitAt q then (es[q]?.getD (0, 0)).2 else 0).sum
          let (d', r') := jointGrant burst rate r s l d sec granted
          d := d'; r := r'
      | _, _ => r := r.mismatch s.idx l.idx "bad-op" (joinSp l.op)
    | _ => r := r.mismatch s.idx l.idx "bad-op" (joinSp l.op)
  return r

/-! ### token sections with negative arguments (store path, one limiter, keys never expire) -/

def runTokenZ (r : Report) (s : Section) : Report := Id.run do
  let rate := kvInt s.cfg "rate" 1
  let burst := kvInt s.cfg "burst" 1
  let mut b : ZBucket := ⟨none, none⟩
  let mut r := r
  if rate < 0 then r := r.addCover "z-sec-rate-negative"
  if burst < 0 then r := r.addCover "z-sec-burst-negative"
  for l in s.lines do
    r := { r with ops := r.ops + 1 }
    let impl := joinSp l.obs
    match l.op with
    | ["allow", ns, n] =>
      match ns.toInt?, n.toInt? with
      | some ns, some n =>
        if rate = 0 then r := r.mismatch s.idx l.idx "no tokenz section with rate 0 (the constructor panics)" impl
        else
          let res := tokenScriptZ rate burst (ns / 1000000000) n b
          b := res.1
          let ttl := ttlZ rate burst * 1000
          let model := s!"{if res.2 then "ok" else "no"} a=1 tok={b.tok.getD 0}:{ttl} ts={b.ts.getD 0}:{ttl}"
          if model ≠ impl then r := r.mismatch s.idx l.idx model impl
          if n < 0 then r := r.addCover (if res.2 then "z-negative-n-granted-and-refunded" else "z-negative-n-denied")
          if (b.tok.getD 0) > burst then r := r.addCover "z-stored-tokens-above-capacity"
          if (b.tok.getD 0) < 0 then r := r.addCover "z-stored-tokens-negative"
      | _, _ => r := r.mismatch s.idx l.idx "bad-op" (joinSp l.op)
    | _ => r := r.mismatch s.idx l.idx "bad-op" (joinSp l.op)
  return r

/-! ### several TokenLimiter keys on one store: every key is its own bucket -/

def c03KeyName (q : Nat) : String := (["a", "ab", "", "a}.ts"][q % 4]?).getD "a"

def updF {α : Type} (f : Nat → α) (i : Nat) (v : α) : Nat → α := fun j => if j = i then v else f j

def runTokenKeys (r : Report) (s : Section) : Report := Id.run do
  let nkeys := max 1 (kvNat s.cfg "nkeys" 1)
  let nums (k : String) : List Nat := (((kv? s.cfg k).getD "1").splitOn ",").map fun x => x.toNat?.getD 1
  let rates := nums "rates"
  let bursts := nums "bursts"
  let cfgOf (q : Nat) : TCfg := newTokenCfg (rates[q]?.getD 1) (bursts[q]?.getD 1) (c03KeyName q)
  let mut sys : Sys := Sys.init (cfgOf 0)
  let mut bucket : Nat → Spec.Bucket := fun q => Spec.Bucket.init (cfgOf q).burst
  let mut joint : Nat → Spec.Meter := fun _ => Spec.Meter.init
  let mut hist : Nat → List (Nat × Nat) := fun _ => []
  let mut hyp : Nat → Bool := fun _ => true
  let mut r := r.addCover s!"k-sec-{nkeys}-keys"
  for l in s.lines do
    r := { r with ops := r.ops + 1 }
    let impl := joinSp l.obs
    match l.op with
    | ["ft", ms] =>
      match ms.toNat? with
      | some ms =>
        sys := (sys.step true (cfgOf 0) (.ft ms)).1
        r := r.addCover "k-ft"
        if impl ≠ "ok" then r := r.mismatch s.idx l.idx "ok" impl
      | none => r := r.mismatch s.idx l.idx "bad-op" (joinSp l.op)
    | ["allow", i, ns, n] =>
      match i.toNat?, ns.toNat?, n.toNat? with
      | some i, some ns, some n =>
        let q := i % nkeys
        let c := cfgOf q
        let sec := ns / nsPerSec
        let clock := sys.store.clock
        if hyp q && !timedOk (ttlFixed c.rate c.burst) (hist q) clock sec then
          hyp := updF hyp q false
          r := r.addCover "k-hyp-broken"
        hist := updF hist q ((clock, sec) :: hist q)
        let otherLive := (List.range nkeys).any fun q' => q' ≠ q && (sys.store.get (cfgOf q').k1).isSome
        let res := sys.reserveN true c i ns n
        sys := res.1
        let model := s!"{if res.2.ok then "ok" else "no"} a={b2s (sys.insts i).alive} {tokDump c sys.store}"
        if model ≠ impl then r := r.mismatch s.idx l.idx model impl
        if res.2.route ≠ .store then r := r.mismatch s.idx l.idx "a request that reaches the store" impl
        r := r.addCover (if res.2.ok then "k-grant" else "k-deny")
        if otherLive then r := r.addCover "k-allow-while-other-key-holds-state"
        if i ≥ nkeys then r := r.addCover "k-second-instance-of-a-key"
        let obsOk := l.obs.headD "?"
        if hyp q then
          let sp := (bucket q).allow c.rate c.burst sec n
          bucket := updF bucket q sp.1
          if (if sp.2 then "ok" else "no") ≠ obsOk then
            r := r.violation s.idx l.idx s!"token: key {q} of {nkeys} keys on one store is its own bucket (rate={c.rate} burst={c.burst}): inst={i} now={sec} n={n} spec=[{if sp.2 then "ok" else "no"}] impl=[{obsOk}]"
          if obsOk = "ok" && n > 0 then
            let m := (joint q).add c.rate sec n
            joint := updF joint q m
            if m.level > c.burst then
              r := r.violation s.idx l.idx s!"token: key {q}: grants exceed burst + rate*elapsed (rate={c.rate} burst={c.burst}): excess level {m.level} > {c.burst} at now={sec}"
      | _, _, _ => r := r.mismatch s.idx l.idx "bad-op" (joinSp l.op)
    | ["kstorm", ns, n, g, cc] =>
      match ns.toNat?, n.toNat?, g.toNat?, cc.toNat? with
      | some ns, some n, some g, some cc =>
        let ninst := max 1 (kvNat s.cfg "ninst" 1)
        let sec := ns / nsPerSec
        let clock := sys.store.clock
        r := r.addCover "k-storm"
        let mut parts : List String := []
        for q in [0:nkeys] do
          let c := cfgOf q
          -- the calls of key q: goroutines j < g whose instance j % ninst has key index q, cc calls each
          let callers := (List.range g).filter fun j => (j % ninst) % nkeys == q
          let calls := callers.length * cc
          let mut gq := 0
          let mut specG := 0
          if calls > 0 then
            if hyp q && !timedOk (ttlFixed c.rate c.burst) (hist q) clock sec then
              hyp := updF hyp q false
              r := r.addCover "k-hyp-broken"
            hist := updF hist q ((clock, sec) :: hist q)
          for j in callers do
            for _ in [0:cc] do
              -- all calls of a key carry the same (now, n): their order does not matter
              let res := sys.reserveN true c (j % ninst) ns n
              sys := res.1
              if res.2.ok then gq := gq + 1
              if res.2.route ≠ .store then r := r.mismatch s.idx l.idx "a request that reaches the store" impl
              if hyp q then
                let sp := (bucket q).allow c.rate c.burst sec n
                bucket := updF bucket q sp.1
                if sp.2 then specG := specG + 1
          parts := parts ++ [s!"g{q}={gq}", tokDump c sys.store]
          let obsG := ((kv? l.obs s!"g{q}").getD "?")
          if calls > 0 && hyp q then
            if obsG ≠ toString specG then
              r := r.violation s.idx l.idx s!"token: key {q} of {nkeys} keys on one store is its own bucket (rate={c.rate} burst={c.burst}): {calls} concurrent requests n={n} now={sec}: ONE bucket grants {specG}, impl granted [{obsG}]"
            if calls > specG then r := r.addCover "k-storm-some-denied"
            let granted := (obsG.toNat?.getD 0) * n
            if granted > 0 then
              let m := (joint q).add c.rate sec granted
              joint := updF joint q m
              if m.level > c.burst then
                r := r.violation s.idx l.idx s!"token: key {q}: grants exceed burst + rate*elapsed (rate={c.rate} burst={c.burst}): excess level {m.level} > {c.burst} at now={sec}"
        let model := s!"alive={ninst} {joinSp parts}"
        if model ≠ impl then r := r.mismatch s.idx l.idx model impl
      | _, _, _, _ => r := r.mismatch s.idx l.idx "bad-op" (joinSp l.op)
    | _ => r := r.mismatch s.idx l.idx "bad-op" (joinSp l.op)
  return r

def runSection (r : Report) (s : Section) : Report :=
  match kv? s.cfg "kind" with
  | some "period" => runPeriod r s
  | some "token" => runToken r s
  | some "tokennow" => runToken (r.addCover "t-sec-wall-clock-entry-points") s
  | some "tokenkeys" => runTokenKeys r s
  | some "tokenz" => runTokenZ r s
  | _ => r.mismatch s.idx 0 "bad-section" (joinSp s.cfg)

def driver (secs : List Section) : Report :=
  let r := secs.foldl runSection {}
  -- one abandoned section per trace file is tolerated as real-time noise; more means the monitor goroutine
  -- does not bring instances back (correspondence broken)
  match r.cover.lookup "t-up-timeout-section-abandoned" with
  | some k => if k > 1 then r.mismatch 0 0 "every instance back on the store path after `up`" s!"monitor timed out in {k} sections" else r
  | none => r

end GoZero.C03
