/-
C03 — lemmas about the Redis-store model.
-/
import GoZero.C03.Spec
namespace GoZero.C03

theorem lookup_erase (k k' : String) (l : List (String × Entry)) :
    lookupKey k' (eraseKey k l) = if k' = k then none else lookupKey k' l := by
  induction l with
  | nil => simp [eraseKey, lookupKey]
  | cons p rest ih =>
    obtain ⟨a, e⟩ := p
    by_cases h1 : k = a
    · subst h1
      simp only [eraseKey, if_true, lookupKey, ih]
      by_cases h2 : k' = k
      · simp [h2]
      · simp [h2]
    · simp only [eraseKey, h1, if_false, lookupKey, ih]
      by_cases h2 : k' = a
      · subst h2
        have : ¬ k' = k := fun h => h1 h.symm
        simp [this]
      · simp [h2]

theorem find_put (s : Store) (k k' : String) (e : Entry) :
    (s.put k e).find k' = if k' = k then some e else s.find k' := by
  unfold Store.put Store.find
  simp only [lookupKey, lookup_erase]
  by_cases h : k' = k <;> simp [h]

theorem find_del (s : Store) (k k' : String) :
    (s.del k).find k' = if k' = k then none else s.find k' := by
  unfold Store.del Store.find
  simp only [lookup_erase]

@[simp] theorem clock_put (s : Store) (k : String) (e : Entry) : (s.put k e).clock = s.clock := rfl
@[simp] theorem clock_del (s : Store) (k : String) : (s.del k).clock = s.clock := rfl

theorem ttl_covers_burst (rate burst : Nat) (hr : 0 < rate) : burst ≤ ttlFixed rate burst * rate := by
  unfold ttlFixed
  have h1 := Nat.div_add_mod (2 * burst) rate
  have h2 := Nat.mod_lt (2 * burst) hr
  generalize 2 * burst / rate = q at *
  generalize 2 * burst % rate = m at *
  rcases Nat.eq_zero_or_pos q with hq | hq
  · subst hq; simp at *; omega
  · have : max 1 q = q := by omega
    rw [this]
    have h3 : rate * q ≥ rate := Nat.le_mul_of_pos_right rate hq
    rw [Nat.mul_comm q rate]
    omega

theorem get_eq (s : Store) (k : String) :
    s.get k = match s.find k with
      | some e => if e.live s.clock then some e else none
      | none => none := rfl

@[simp] theorem find_advance (s : Store) (ms : Nat) (k : String) : (s.advance ms).find k = s.find k := rfl
@[simp] theorem clock_advance (s : Store) (ms : Nat) : (s.advance ms).clock = s.clock + ms := rfl

end GoZero.C03
