/-
C03 — round 5: several TokenLimiter keys on ONE store.  Requests of limiters with OTHER keys that reach the store are
interleaved arbitrarily with the operations of the limiters of key `c`; they never touch `c`'s two Redis keys, so the
events of `c`'s limiters are those of the run without them (`runK_eq_run`), to which `sys_refines_bucket` applies.
-/
import GoZero.C03.ProofsToken
namespace GoZero.C03
open Spec

/-- an operation of the limiters with configuration `c`, or a store-decided request of a limiter with another configuration -/
inductive KOp where
  | own (op : TOp)
  | other (c' : TCfg) (now n : Nat)

def Sys.stepK (c : TCfg) (s : Sys) : KOp → Sys × Option Ev
  | .own op => s.step true c op
  | .other c' now n =>
    match tokenScript true c' s.store now n with
    | some r => ({ s with store := r.1 }, none)
    | none => (s, none)

def Sys.runK (c : TCfg) : Sys → List KOp → List Ev
  | _, [] => []
  | s, op :: ops =>
    match (s.stepK c op).2 with
    | some e => e :: Sys.runK c (s.stepK c op).1 ops
    | none => Sys.runK c (s.stepK c op).1 ops

def ownOps : List KOp → List TOp
  | [] => []
  | .own op :: rest => op :: ownOps rest
  | .other _ _ _ :: rest => ownOps rest

/-- the four Redis keys are pairwise different -/
def KeysDisjoint (c c' : TCfg) : Prop := c.k1 ≠ c'.k1 ∧ c.k1 ≠ c'.k2 ∧ c.k2 ≠ c'.k1 ∧ c.k2 ≠ c'.k2

def Foreign (c : TCfg) (ops : List KOp) : Prop := ∀ c' now n, KOp.other c' now n ∈ ops → KeysDisjoint c c'

/-- two systems that differ at most in Redis keys other than `c`'s -/
def Agree (c : TCfg) (s s' : Sys) : Prop :=
  s.up = s'.up ∧ s.insts = s'.insts ∧ s.store.clock = s'.store.clock ∧
  s.store.find c.k1 = s'.store.find c.k1 ∧ s.store.find c.k2 = s'.store.find c.k2

theorem filled_agree (c : TCfg) (a b : Store) (hc : a.clock = b.clock) (h1 : a.find c.k1 = b.find c.k1)
    (h2 : a.find c.k2 = b.find c.k2) (now : Nat) : filledTokens c a now = filledTokens c b now := by
  unfold filledTokens lastTokens lastRefreshed
  rw [get_eq, get_eq, get_eq b, get_eq b, h1, h2, hc]

theorem reserveN_agree (c : TCfg) (hk : c.k1 ≠ c.k2) (s s' : Sys) (h : Agree c s s') (i ns n : Nat) :
    (s.reserveN true c i ns n).2 = (s'.reserveN true c i ns n).2 ∧
    Agree c (s.reserveN true c i ns n).1 (s'.reserveN true c i ns n).1 := by
  obtain ⟨st, up, insts⟩ := s
  obtain ⟨st', up', insts'⟩ := s'
  obtain ⟨hu, hi, hc, h1, h2⟩ := h
  simp only at hu hi hc h1 h2
  subst hu; subst hi
  have hf := filled_agree c st st' hc h1 h2 (ns / nsPerSec)
  have hp := ttlFixed_pos c.rate c.burst
  have hne : ¬ (ttlFixed c.rate c.burst = 0) := by omega
  unfold Sys.reserveN
  by_cases ha : (insts i).alive = true
  · by_cases hup : up = true
    · subst hup
      simp only [ha, Bool.not_true, Bool.false_eq_true, if_false, tokenScript, Store.setex, ttlOf, if_true, hne, hf]
      refine ⟨trivial, rfl, rfl, ?_, ?_, ?_⟩
      · simp [hc]
      · simp [find_put, hk, hc]
      · simp [find_put, hc]
    · have hup' : up = false := by simpa using hup
      subst hup'
      simp only [ha, Bool.not_true, Bool.false_eq_true, if_false, Bool.not_false, if_true, Sys.rescuePath]
      exact ⟨trivial, rfl, rfl, hc, h1, h2⟩
  · have ha' : (insts i).alive = false := by simpa using ha
    simp only [ha', Bool.not_false, if_true, Sys.rescuePath]
    exact ⟨trivial, rfl, rfl, hc, h1, h2⟩

theorem step_agree (c : TCfg) (hk : c.k1 ≠ c.k2) (s s' : Sys) (h : Agree c s s') (op : TOp) :
    (s.step true c op).2 = (s'.step true c op).2 ∧ Agree c (s.step true c op).1 (s'.step true c op).1 := by
  cases op with
  | allow i ns n =>
    have := reserveN_agree c hk s s' h i ns n
    simp only [Sys.step]
    exact ⟨by rw [this.1], this.2⟩
  | ft ms =>
    obtain ⟨hu, hi, hc, h1, h2⟩ := h
    simp only [Sys.step, Agree]
    exact ⟨trivial, hu, hi, by simp [hc], by simpa using h1, by simpa using h2⟩
  | down => obtain ⟨hu, hi, hc, h1, h2⟩ := h; exact ⟨rfl, rfl, hi, hc, h1, h2⟩
  | up => obtain ⟨hu, hi, hc, h1, h2⟩ := h; exact ⟨rfl, rfl, hi, hc, h1, h2⟩
  | cancelledAlive i ns n => exact ⟨rfl, h⟩
  | lateFail i =>
    obtain ⟨hu, hi, hc, h1, h2⟩ := h
    refine ⟨rfl, hu, ?_, hc, h1, h2⟩
    simp only [Sys.step]; rw [hi]
  | pingOk i =>
    obtain ⟨st, up, insts⟩ := s
    obtain ⟨st', up', insts'⟩ := s'
    obtain ⟨hu, hi, hc, h1, h2⟩ := h
    simp only at hu hi hc h1 h2
    subst hu; subst hi
    simp only [Sys.step]
    split
    · exact ⟨rfl, rfl, rfl, hc, h1, h2⟩
    · exact ⟨rfl, rfl, rfl, hc, h1, h2⟩
  | monExit i =>
    obtain ⟨st, up, insts⟩ := s
    obtain ⟨st', up', insts'⟩ := s'
    obtain ⟨hu, hi, hc, h1, h2⟩ := h
    simp only at hu hi hc h1 h2
    subst hu; subst hi
    simp only [Sys.step]
    split
    · exact ⟨rfl, rfl, rfl, hc, h1, h2⟩
    · exact ⟨rfl, rfl, rfl, hc, h1, h2⟩

/-- a store-decided request of a limiter with other keys leaves `c`'s view of the system alone -/
theorem other_agree (c c' : TCfg) (hd : KeysDisjoint c c') (s s' : Sys) (h : Agree c s s') (now n : Nat) :
    Agree c (s.stepK c (.other c' now n)).1 s' ∧ (s.stepK c (.other c' now n)).2 = none := by
  obtain ⟨hu, hi, hc, h1, h2⟩ := h
  obtain ⟨d1, d2, d3, d4⟩ := hd
  have hp := ttlFixed_pos c'.rate c'.burst
  have hne : ¬ (ttlFixed c'.rate c'.burst = 0) := by omega
  simp only [Sys.stepK, tokenScript, Store.setex, ttlOf, if_true, hne, if_false]
  refine ⟨⟨hu, hi, by simpa using hc, ?_, ?_⟩, trivial⟩
  · simp only [find_put, d1, d2, if_false]; exact h1
  · simp only [find_put, d3, d4, if_false]; exact h2

/-- the events of `c`'s limiters do not depend on the interleaved requests of limiters with other keys -/
theorem runK_eq_run (c : TCfg) (hk : c.k1 ≠ c.k2) : ∀ (ops : List KOp) (s s' : Sys), Foreign c ops → Agree c s s' →
    Sys.runK c s ops = Sys.run true c s' (ownOps ops) := by
  intro ops
  induction ops with
  | nil => intro s s' _ _; rfl
  | cons op ops ih =>
    intro s s' hf h
    have hf' : Foreign c ops := fun c' now n hm => hf c' now n (List.mem_cons_of_mem _ hm)
    cases op with
    | own op =>
      obtain ⟨e1, e2⟩ := step_agree c hk s s' h op
      simp only [Sys.runK, Sys.stepK, ownOps, Sys.run, e1]
      cases (s'.step true c op).2 with
      | none => exact ih _ _ hf' e2
      | some e => simp only []; congr 1; exact ih _ _ hf' e2
    | other c' now n =>
      obtain ⟨e1, e2⟩ := other_agree c c' (hf c' now n List.mem_cons_self) s s' h now n
      simp only [Sys.runK, e2, ownOps]
      exact ih _ _ hf' e1

end GoZero.C03
