/-
C03 — round 5c: Allow() / AllowCtx() in rescue mode.  The local limiter is asked at a wall-clock instant `τ` the code
reads itself; the harness only knows two readings `a ≤ τ ≤ b` around the call.  Interval model of the local bucket:

  the state ⟨T, last⟩ of the rescue limiter is represented by ONE number, its *empty time*  E = last − T  (the instant
  at which the bucket would have been empty): tokens(t) = min(B, t − E), a request of `need = n·ival` is granted at τ
  iff n ≤ burst and need ≤ τ − E, and then  E' = max(E, τ − B) + need;  a refused request changes nothing.

The monitor keeps bounds `lo ≤ E ≤ hi`; it accepts a decision iff SOME clock value in the bracket and SOME state within
the bounds produce it (`ivStep_complete`), and it never rejects what the exact model does (`ivStep_sound`, `ivRun_sound`).
Core Lean only (used by the driver).
-/
import GoZero.C03.Model
namespace GoZero.C03

/-- empty time of the rescue limiter's state -/
def Rescue.emptyTime (r : Rescue) : Int := (r.last : Int) - r.T

structure IvState where
  lo : Int
  hi : Int
  deriving Repr, DecidableEq

def IvState.init (c : TCfg) : IvState := ⟨-((c.burst * c.ival : Nat) : Int), -((c.burst * c.ival : Nat) : Int)⟩

/-- one observed call: clock bracket `[a, b]`, size `n`, observed decision; `none` = impossible for every clock value in
the bracket and every state within the bounds -/
def ivStep (c : TCfg) (s : IvState) (a b : Int) (n : Nat) (granted : Bool) : Option IvState :=
  let B : Int := ((c.burst * c.ival : Nat) : Int)
  let need : Int := ((n * c.ival : Nat) : Int)
  if granted then
    if n ≤ c.burst ∧ need ≤ b - s.lo then some ⟨max s.lo (a - B) + need, max (min s.hi (b - need)) (b - B) + need⟩
    else none
  else
    if c.burst < n then some s
    else if a - s.hi < need then some ⟨max s.lo (a - need + 1), s.hi⟩
    else none

/-- the exact model in terms of the empty time (`ival ≠ 0`, the clock does not run backwards) -/
theorem allowN_emptyTime (c : TCfg) (hi : c.ival ≠ 0) (r : Rescue) (t n : Nat) (hl : r.last ≤ t) :
    ((r.allowN c t n).2 = true ↔ n ≤ c.burst ∧ ((n * c.ival : Nat) : Int) ≤ min (((c.burst * c.ival : Nat) : Int)) ((t : Int) - r.emptyTime)) ∧
    ((r.allowN c t n).2 = true → (r.allowN c t n).1.emptyTime
        = max r.emptyTime ((t : Int) - ((c.burst * c.ival : Nat) : Int)) + ((n * c.ival : Nat) : Int)) ∧
    ((r.allowN c t n).2 = false → (r.allowN c t n).1 = r) := by
  have hadv : r.advanced c t = min (((c.burst * c.ival : Nat) : Int)) ((t : Int) - r.emptyTime) := by
    unfold Rescue.advanced Rescue.emptyTime
    have : ¬ (t < r.last) := by omega
    simp only [this, if_false]
    have h2 : (((t - r.last : Nat)) : Int) = (t : Int) - (r.last : Int) := by omega
    rw [h2]
    congr 1
    omega
  unfold Rescue.allowN Rescue.after
  simp only [hi, if_false]
  rw [hadv]
  generalize ((c.burst * c.ival : Nat) : Int) = B
  generalize ((n * c.ival : Nat) : Int) = need
  by_cases hc : n ≤ c.burst ∧ 0 ≤ min B ((t : Int) - r.emptyTime) - need
  · rw [if_pos hc]
    refine ⟨⟨fun _ => ⟨hc.1, by omega⟩, fun _ => rfl⟩, fun _ => ?_, fun h => by simp at h⟩
    simp only [Rescue.emptyTime]
    unfold Rescue.emptyTime at hc
    omega
  · rw [if_neg hc]
    refine ⟨⟨fun h => by simp at h, fun h => absurd ⟨h.1, by omega⟩ hc⟩, fun h => by simp at h, fun _ => rfl⟩

/-- **The interval monitor is sound**: whatever instant `τ` in the bracket the code read and whatever state within the
bounds the limiter was in, the decision of the exact model is accepted and the new state is within the new bounds. -/
theorem ivStep_sound (c : TCfg) (hi : c.ival ≠ 0) (r : Rescue) (s : IvState) (a b : Int) (t n : Nat)
    (hl : r.last ≤ t) (ha : a ≤ t) (hb : (t : Int) ≤ b) (hlo : s.lo ≤ r.emptyTime) (hhi : r.emptyTime ≤ s.hi) :
    ∃ s', ivStep c s a b n (r.allowN c t n).2 = some s' ∧
      s'.lo ≤ (r.allowN c t n).1.emptyTime ∧ (r.allowN c t n).1.emptyTime ≤ s'.hi := by
  obtain ⟨h1, h2, h3⟩ := allowN_emptyTime c hi r t n hl
  have hB : n ≤ c.burst → ((n * c.ival : Nat) : Int) ≤ ((c.burst * c.ival : Nat) : Int) := fun h =>
    Int.ofNat_le.mpr (Nat.mul_le_mul_right _ h)
  unfold ivStep
  generalize ((c.burst * c.ival : Nat) : Int) = B at *
  generalize ((n * c.ival : Nat) : Int) = need at *
  cases hd : (r.allowN c t n).2
  · rw [h3 hd]
    have hn : ¬ (n ≤ c.burst ∧ need ≤ min B ((t : Int) - r.emptyTime)) := by
      intro h; rw [h1.2 h] at hd; cases hd
    simp only [Bool.false_eq_true, if_false]
    by_cases hbn : c.burst < n
    · exact ⟨s, by simp [hbn], hlo, hhi⟩
    · have hnb : n ≤ c.burst := by omega
      have hneed : ¬ (need ≤ min B ((t : Int) - r.emptyTime)) := fun h => hn ⟨hnb, h⟩
      have hB' := hB hnb
      have hlt : (t : Int) - r.emptyTime < need := by omega
      have hc : a - s.hi < need := by omega
      refine ⟨⟨max s.lo (a - need + 1), s.hi⟩, by simp [hbn, hc], ?_, hhi⟩
      simp only; omega
  · obtain ⟨hnb, hneed⟩ := h1.1 hd
    rw [h2 hd]
    have : n ≤ c.burst ∧ need ≤ b - s.lo := ⟨hnb, by omega⟩
    simp only [if_true, this, and_self]
    refine ⟨_, rfl, ?_, ?_⟩ <;> simp only <;> omega

/-- **… and exact for one step**: a decision the monitor accepts is produced by SOME clock value in the bracket and
SOME state within the bounds. -/
theorem ivStep_complete (c : TCfg) (s s' : IvState) (a b : Int) (n : Nat) (d : Bool) (hs : s.lo ≤ s.hi) (hab : a ≤ b)
    (h : ivStep c s a b n d = some s') :
    ∃ E τ : Int, s.lo ≤ E ∧ E ≤ s.hi ∧ a ≤ τ ∧ τ ≤ b ∧
      (d = true ↔ n ≤ c.burst ∧ ((n * c.ival : Nat) : Int) ≤ min (((c.burst * c.ival : Nat) : Int)) (τ - E)) := by
  have hB : n ≤ c.burst → ((n * c.ival : Nat) : Int) ≤ ((c.burst * c.ival : Nat) : Int) := fun h =>
    Int.ofNat_le.mpr (Nat.mul_le_mul_right _ h)
  unfold ivStep at h
  generalize ((c.burst * c.ival : Nat) : Int) = B at *
  generalize ((n * c.ival : Nat) : Int) = need at *
  cases d
  · simp only [Bool.false_eq_true, if_false] at h
    by_cases hbn : c.burst < n
    · refine ⟨s.lo, a, Int.le_refl _, hs, Int.le_refl _, hab, ?_⟩
      constructor
      · intro hh; cases hh
      · intro hh; omega
    · simp only [hbn, if_false] at h
      by_cases hc : a - s.hi < need
      · refine ⟨s.hi, a, hs, Int.le_refl _, Int.le_refl _, hab, ?_⟩
        constructor
        · intro hh; cases hh
        · intro hh; omega
      · simp [hc] at h
  · simp only [if_true] at h
    by_cases hc : n ≤ c.burst ∧ need ≤ b - s.lo
    · have := hB hc.1
      exact ⟨s.lo, b, Int.le_refl _, hs, hab, Int.le_refl _, ⟨fun _ => ⟨hc.1, by omega⟩, fun _ => rfl⟩⟩
    · simp [hc] at h

/-- a run of the interval monitor over observed calls `(a, b, n, decision)` -/
def ivRun (c : TCfg) : IvState → List (Int × Int × Nat × Bool) → Bool
  | _, [] => true
  | s, (a, b, n, d) :: rest =>
    match ivStep c s a b n d with
    | some s' => ivRun c s' rest
    | none => false

/-- the exact model over calls at instants `τ` with sizes `n`, each inside its bracket -/
def exactRun (c : TCfg) : Rescue → List (Int × Int × Nat × Nat) → List (Int × Int × Nat × Bool)
  | _, [] => []
  | r, (a, b, t, n) :: rest => (a, b, n, (r.allowN c t n).2) :: exactRun c (r.allowN c t n).1 rest

/-- brackets contain their instant and the clock never runs backwards -/
def Bracketed : Nat → List (Int × Int × Nat × Nat) → Prop
  | _, [] => True
  | last, (a, b, t, _) :: rest => last ≤ t ∧ a ≤ t ∧ (t : Int) ≤ b ∧ Bracketed t rest

theorem allowN_last (c : TCfg) (r : Rescue) (t n : Nat) (hl : r.last ≤ t) : (r.allowN c t n).1.last ≤ t := by
  unfold Rescue.allowN
  split
  · exact hl
  · split
    · exact Nat.le_refl _
    · exact hl

/-- **Whole runs**: for every sequence of local decisions of the exact model at instants inside their brackets, from any
state within the bounds, the interval monitor accepts every decision (no alarm on a correct limiter, whatever the
unobservable clock values were). -/
theorem ivRun_sound (c : TCfg) (hi : c.ival ≠ 0) : ∀ (calls : List (Int × Int × Nat × Nat)) (r : Rescue) (s : IvState),
    Bracketed r.last calls → s.lo ≤ r.emptyTime → r.emptyTime ≤ s.hi → ivRun c s (exactRun c r calls) = true := by
  intro calls
  induction calls with
  | nil => intro r s _ _ _; rfl
  | cons x rest ih =>
    intro r s hb hlo hhi
    obtain ⟨a, b, t, n⟩ := x
    obtain ⟨hl, ha, hb', hrest⟩ := hb
    obtain ⟨s', hs, h1, h2⟩ := ivStep_sound c hi r s a b t n hl ha hb' hlo hhi
    simp only [exactRun, ivRun, hs]
    refine ih _ _ ?_ h1 h2
    -- the limiter's `last` after the call is at most `t`, and the next instants are at least `t`
    cases rest with
    | nil => trivial
    | cons y ys =>
      obtain ⟨a2, b2, t2, n2⟩ := y
      obtain ⟨hl2, r2⟩ := hrest
      exact ⟨Nat.le_trans (allowN_last c r t n hl) hl2, r2⟩

theorem init_emptyTime (c : TCfg) : (Rescue.init c).emptyTime = (IvState.init c).lo ∧ (IvState.init c).lo = (IvState.init c).hi := by
  simp [Rescue.emptyTime, Rescue.init, IvState.init]

end GoZero.C03
