/-
C03 — abstract token bucket: conservation, potential argument, interval bound.
-/
import GoZero.C03.ProofsStore
namespace GoZero.C03
open GoZero.C03 Spec

theorem filled_le (rate burst : Nat) (b : Bucket) (now : Nat) : b.filled rate burst now ≤ burst := by
  unfold Bucket.filled; omega

theorem allow_tok_le (rate burst : Nat) (b : Bucket) (now n : Nat) :
    (b.allow rate burst now n).1.tok ≤ burst ∧ (b.allow rate burst now n).1.ts = now := by
  have := filled_le rate burst b now
  unfold Bucket.allow
  split <;> simp <;> omega

/-- one request: what is granted plus what is left is what the refilled bucket held -/
theorem allow_conserve (rate burst : Nat) (b : Bucket) (now n : Nat) :
    (if (b.allow rate burst now n).2 then n else 0) + (b.allow rate burst now n).1.tok = b.filled rate burst now := by
  unfold Bucket.allow
  split <;> simp <;> omega

theorem exec_tok_le (rate burst : Nat) : ∀ (calls : List (Nat × Nat)) (b : Bucket), b.tok ≤ burst →
    (Bucket.exec rate burst b calls).tok ≤ burst := by
  intro calls; induction calls with
  | nil => intro b hb; simpa [Bucket.exec]
  | cons p rest ih =>
    intro b _; obtain ⟨t, n⟩ := p
    simp only [Bucket.exec]
    exact ih _ (allow_tok_le rate burst b t n).1

/-- potential argument: over a monotone request sequence, granted + tokens left ≤ tokens at the start
+ rate × (time of the last request − start). -/
theorem bucket_potential (rate burst : Nat) : ∀ (calls : List (Nat × Nat)) (b : Bucket), Mono b.ts calls →
    Bucket.granted rate burst b calls + (Bucket.exec rate burst b calls).tok
        ≤ b.tok + rate * ((Bucket.exec rate burst b calls).ts - b.ts) ∧
    b.ts ≤ (Bucket.exec rate burst b calls).ts := by
  intro calls; induction calls with
  | nil => intro b _; simp [Bucket.granted, Bucket.exec]
  | cons p rest ih =>
    intro b hm; obtain ⟨t, n⟩ := p
    obtain ⟨h0, hm'⟩ := hm
    have hts := (allow_tok_le rate burst b t n).2
    have hc := allow_conserve rate burst b t n
    have hi := ih (b.allow rate burst t n).1 (by rw [hts]; exact hm')
    rw [hts] at hi
    simp only [Bucket.granted, Bucket.exec]
    generalize (Bucket.exec rate burst (b.allow rate burst t n).1 rest).ts = tf at *
    generalize (Bucket.exec rate burst (b.allow rate burst t n).1 rest).tok = kf at *
    generalize Bucket.granted rate burst (b.allow rate burst t n).1 rest = g at *
    have hf : b.filled rate burst t ≤ b.tok + (t - b.ts) * rate := by unfold Bucket.filled; omega
    have hd : rate * (tf - b.ts) = rate * (tf - t) + (t - b.ts) * rate := by
      have : tf - b.ts = (tf - t) + (t - b.ts) := by omega
      rw [this, Nat.mul_add, Nat.mul_comm rate (t - b.ts)]
    omega

theorem run_append (rate burst : Nat) : ∀ (l1 l2 : List (Nat × Nat)) (b : Bucket),
    Bucket.run rate burst b (l1 ++ l2) = Bucket.run rate burst b l1 ++ Bucket.run rate burst (Bucket.exec rate burst b l1) l2 := by
  intro l1; induction l1 with
  | nil => intro l2 b; rfl
  | cons p l1 ih => intro l2 b; obtain ⟨t, n⟩ := p; simp [Bucket.run, Bucket.exec, ih]

theorem run_length (rate burst : Nat) : ∀ (l : List (Nat × Nat)) (b : Bucket),
    (Bucket.run rate burst b l).length = l.length := by
  intro l; induction l with
  | nil => intro b; rfl
  | cons p l ih => intro b; obtain ⟨t, n⟩ := p; simp [Bucket.run, ih]

theorem mono_append (rate burst : Nat) : ∀ (l1 l2 : List (Nat × Nat)) (b : Bucket), Mono b.ts (l1 ++ l2) →
    Mono b.ts l1 ∧ Mono (Bucket.exec rate burst b l1).ts l2 := by
  intro l1; induction l1 with
  | nil => intro l2 b h; exact ⟨trivial, h⟩
  | cons p l1 ih =>
    intro l2 b h; obtain ⟨t, n⟩ := p
    obtain ⟨h0, h1⟩ := h
    have hts := (allow_tok_le rate burst b t n).2
    have := ih l2 (b.allow rate burst t n).1 (by rw [hts]; exact h1)
    rw [hts] at this
    exact ⟨⟨h0, this.1⟩, by simpa [Bucket.exec] using this.2⟩

/-- the bound of the property for the abstract bucket: over any interval of a monotone history
(first request of the interval at `t1`, last at the final `ts`), granted ≤ burst + rate × elapsed. -/
theorem bucket_interval_bound (rate burst : Nat) (b : Bucket) (t1 n1 : Nat)
    (rest : List (Nat × Nat)) (hm : Mono b.ts ((t1, n1) :: rest)) :
    Bucket.granted rate burst b ((t1, n1) :: rest)
      ≤ burst + rate * ((Bucket.exec rate burst b ((t1, n1) :: rest)).ts - t1) := by
  obtain ⟨h0, hm'⟩ := hm
  have hts := (allow_tok_le rate burst b t1 n1).2
  have hc := allow_conserve rate burst b t1 n1
  have hf := filled_le rate burst b t1
  have hp := bucket_potential rate burst rest (b.allow rate burst t1 n1).1 (by rw [hts]; exact hm')
  rw [hts] at hp
  simp only [Bucket.granted, Bucket.exec]
  omega

/-- the driver's joint meter cannot fire on a history decided by the abstract bucket -/
theorem meter_sound_from (rate burst : Nat) : ∀ (calls : List (Nat × Nat)) (b : Bucket) (m : Meter),
    Mono b.ts calls → m.t ≤ b.ts → (m.level - rate * (b.ts - m.t)) + b.tok ≤ burst →
    ∀ lv ∈ meterLevels rate m (calls.zip (Bucket.run rate burst b calls)), lv ≤ burst := by
  intro calls
  induction calls with
  | nil => intro b m _ _ _ lv h; simp [meterLevels] at h
  | cons p rest ih =>
    intro b m hm hmt hJ lv hlv
    obtain ⟨t, n⟩ := p
    obtain ⟨h0, hm'⟩ := hm
    have hts := (allow_tok_le rate burst b t n).2
    have hd : rate * (t - m.t) = rate * (t - b.ts) + rate * (b.ts - m.t) := by
      rw [← Nat.mul_add]; congr 1; omega
    have hcomm : (t - b.ts) * rate = rate * (t - b.ts) := Nat.mul_comm _ _
    simp only [Bucket.run, List.zip_cons_cons, meterLevels] at hlv
    by_cases hok : (b.allow rate burst t n).2 = true
    · simp only [hok, if_true, List.mem_cons] at hlv
      have hJ' : ((m.add rate t n).level - rate * ((b.allow rate burst t n).1.ts - (m.add rate t n).t))
          + (b.allow rate burst t n).1.tok ≤ burst := by
        rw [hts]
        unfold Bucket.allow at hok ⊢
        unfold Meter.add
        by_cases hn : n ≤ b.filled rate burst t
        · simp only [hn, if_true]
          have : max t m.t = t := by omega
          simp only [this, Nat.sub_self, Nat.mul_zero, Nat.sub_zero]
          unfold Bucket.filled at hn ⊢
          omega
        · simp [hn] at hok
      rcases hlv with rfl | hrest
      · have : (m.add rate t n).t = t := by unfold Meter.add; simp; omega
        rw [hts, this] at hJ'
        simp at hJ'
        omega
      · apply ih (b.allow rate burst t n).1 (m.add rate t n) (by rw [hts]; exact hm') _ hJ' lv hrest
        rw [hts]; unfold Meter.add; simp; omega
    · simp only [hok, if_false, Bool.false_eq_true] at hlv
      apply ih (b.allow rate burst t n).1 m (by rw [hts]; exact hm') (by rw [hts]; omega) _ lv hlv
      rw [hts]
      unfold Bucket.allow at hok ⊢
      by_cases hn : n ≤ b.filled rate burst t
      · simp [hn] at hok
      · simp only [hn, if_false]
        unfold Bucket.filled
        omega

end GoZero.C03
