/-
C03 — the rescue-mode flags of ONE TokenLimiter at statement granularity: `startMonitor` called by any number
of goroutines (the error path of `reserveN`), interleaved in every possible way with the steps of the monitor
goroutine(s) `waitForRedis` (successful ping → store redisAlive=1 → deferred: Lock, monitorStarted=false, Unlock).

    func (lim *TokenLimiter) startMonitor() {          row (caller pc)
        lim.rescueLock.Lock()                          lock    → check   (enabled iff the mutex is free)
        defer lim.rescueLock.Unlock()
        if lim.monitorStarted { return }               check   → unlock | set1
        lim.monitorStarted = true                      set1    → set2
        atomic.StoreUint32(&lim.redisAlive, 0)         set2    → spawn
        go lim.waitForRedis()                          spawn   → unlock  (one more goroutine in the loop)
    }                                                  unlock  → idle
    func (lim *TokenLimiter) waitForRedis() {
        for range ticker.C { if lim.store.Ping() {     event pingOk: a goroutine in the loop stores redisAlive=1
            atomic.StoreUint32(&lim.redisAlive, 1); return } }          and goes on to its deferred func
        deferred: lim.rescueLock.Lock()                event monLock   (enabled iff the mutex is free)
                  lim.monitorStarted = false           event monClear
                  lim.rescueLock.Unlock()              event monUnlock
    }

The row texts and their order are the skeletons tied in Tie.lean (tie_startMonitorShape, tie_waitForRedisShape).
`early = true` is the order of the seeded change C03-2 (redisAlive=0 stored before Lock and before the check):
the invariant then fails — `seeded_order_loses_wakeup`.
-/
namespace GoZero.C03.Mon

inductive CPc where
  | idle | lock | check | set1 | set2 | spawn | unlock
  deriving DecidableEq, Repr

inductive Holder where
  | free
  | caller (t : Nat)
  | monClear          -- a monitor goroutine holds the mutex, about to clear monitorStarted
  | monUnlock         -- … has cleared it, about to unlock
  deriving DecidableEq, Repr

structure St where
  pc      : Nat → CPc      -- where goroutine t is inside startMonitor (idle = not inside)
  lock    : Holder         -- rescueLock
  started : Bool           -- monitorStarted
  alive   : Bool           -- redisAlive == 1
  nLoop   : Nat            -- monitor goroutines still in `for range ticker.C`
  nWant   : Nat            -- monitor goroutines that stored redisAlive=1 and wait for rescueLock in the deferred func

def init : St := ⟨fun _ => .idle, .free, false, true, 0, 0⟩

def upd (f : Nat → CPc) (t : Nat) (v : CPc) : Nat → CPc := fun u => if u = t then v else f u

inductive Ev where
  | caller (t : Nat)       -- goroutine t executes its next row of startMonitor (idle: it enters)
  | pingOk | monLock | monClear | monUnlock
  deriving DecidableEq, Repr

/-- goroutine t executes its next row of startMonitor -/
def callerStep (early : Bool) (s : St) (t : Nat) : Option St :=
  match s.pc t with
  | .idle => some { s with pc := upd s.pc t .lock, alive := if early then false else s.alive }
  | .lock => if s.lock = .free then some { s with pc := upd s.pc t .check, lock := .caller t } else none
  | .check => some { s with pc := upd s.pc t (if s.started then .unlock else .set1) }
  | .set1 => some { s with pc := upd s.pc t .set2, started := true }
  | .set2 => some { s with pc := upd s.pc t .spawn, alive := if early then s.alive else false }
  | .spawn => some { s with pc := upd s.pc t .unlock, nLoop := s.nLoop + 1 }
  | .unlock => some { s with pc := upd s.pc t .idle, lock := .free }

/-- one step; `none` = the event is not enabled in this state -/
def step (early : Bool) (s : St) : Ev → Option St
  | .caller t => callerStep early s t
  | .pingOk => if 0 < s.nLoop then some { s with nLoop := s.nLoop - 1, nWant := s.nWant + 1, alive := true } else none
  | .monLock => if 0 < s.nWant ∧ s.lock = .free then some { s with nWant := s.nWant - 1, lock := .monClear } else none
  | .monClear => if s.lock = .monClear then some { s with started := false, lock := .monUnlock } else none
  | .monUnlock => if s.lock = .monUnlock then some { s with lock := .free } else none

inductive Reach (early : Bool) : St → Prop where
  | init : Reach early init
  | step (s s' : St) (e : Ev) : Reach early s → step early s e = some s' → Reach early s'

def inCrit (p : CPc) : Bool := p = .check || p = .set1 || p = .set2 || p = .spawn || p = .unlock

/-- a caller that has set monitorStarted and has not yet spawned the goroutine -/
def pending (s : St) : Nat :=
  match s.lock with
  | .caller t => if s.pc t = .set2 ∨ s.pc t = .spawn then 1 else 0
  | _ => 0

def b2n (b : Bool) : Nat := if b then 1 else 0

structure Inv (s : St) : Prop where
  crit   : ∀ t, inCrit (s.pc t) = true ↔ s.lock = .caller t
  set1   : ∀ t, s.pc t = .set1 → s.started = false
  count  : s.nLoop + s.nWant + (if s.lock = .monClear then 1 else 0) + pending s = b2n s.started
  wake   : s.alive = false → 1 ≤ s.nLoop ∨ ∃ t, s.lock = .caller t ∧ s.pc t = .spawn

theorem inv_init : Inv init := by
  refine ⟨?_, ?_, ?_, ?_⟩
  · intro t; simp [init, inCrit]
  · intro t h; simp [init] at h
  · simp [init, pending, b2n]
  · intro h; simp [init] at h

theorem upd_same (f : Nat → CPc) (t : Nat) (v : CPc) : upd f t v t = v := by simp [upd]
theorem upd_other (f : Nat → CPc) (t u : Nat) (v : CPc) (h : u ≠ t) : upd f t v u = f u := by simp [upd, h]

/-- the caller steps preserve the invariant (the order of the code as it is) -/
theorem inv_caller (s s' : St) (t : Nat) (hi : Inv s) (h : step false s (.caller t) = some s') : Inv s' := by
  obtain ⟨hc, h1, hn, hw⟩ := hi
  have hct := hc t
  simp only [step] at h
  unfold callerStep at h
  split at h
  next hp =>
    -- idle → lock
    simp only [Bool.false_eq_true, if_false, Option.some.injEq] at h; subst h
    refine ⟨?_, ?_, ?_, ?_⟩
    · intro u
      by_cases hu : u = t
      · subst hu; simp only [upd_same]; simp [inCrit, hp] at hct; simp [inCrit]; exact hct
      · simp only [upd_other _ _ _ _ hu]; exact hc u
    · intro u hu'
      by_cases hu : u = t
      · subst hu; simp [upd_same] at hu'
      · dsimp only at hu'; rw [upd_other _ _ _ _ hu] at hu'; exact h1 u hu'
    · have : pending { s with pc := upd s.pc t .lock } = pending s := by
        unfold pending
        cases hl : s.lock with
        | caller u =>
          have hut : u ≠ t := by
            intro e; subst e; have := (hc u).2 hl; simp [inCrit, hp] at this
          simp [upd_other _ _ _ _ hut]
        | _ => simp
      simpa [this] using hn
    · intro ha
      rcases hw ha with h | ⟨u, hl, hpu⟩
      · exact Or.inl h
      · right; refine ⟨u, hl, ?_⟩
        have hut : u ≠ t := by intro e; subst e; simp [hp] at hpu
        simpa [upd_other _ _ _ _ hut] using hpu
  next hp =>
    -- lock → check
    split at h
    next hfree =>
      simp only [Option.some.injEq] at h; subst h
      have hnone : ∀ u, inCrit (s.pc u) = false := by
        intro u
        cases hcu : inCrit (s.pc u) with
        | false => rfl
        | true => have := (hc u).1 hcu; simp [hfree] at this
      refine ⟨?_, ?_, ?_, ?_⟩
      · intro u
        by_cases hu : u = t
        · subst hu; simp [upd_same, inCrit]
        · simp only [upd_other _ _ _ _ hu, hnone u]
          simp; exact fun e => hu e.symm
      · intro u hu'
        by_cases hu : u = t
        · subst hu; simp [upd_same] at hu'
        · dsimp only at hu'; rw [upd_other _ _ _ _ hu] at hu'; exact h1 u hu'
      · simp only [pending, upd_same]
        simp [pending, hfree] at hn
        simpa using hn
      · intro ha
        rcases hw ha with h | ⟨u, hl, _⟩
        · exact Or.inl h
        · simp [hfree] at hl
    next => simp at h
  next hp =>
    -- check
    simp only [Option.some.injEq] at h; subst h
    have hl : s.lock = .caller t := hct.1 (by simp [inCrit, hp])
    refine ⟨?_, ?_, ?_, ?_⟩
    · intro u
      by_cases hu : u = t
      · subst hu; simp only [upd_same]
        constructor
        · intro _; exact hl
        · intro _; cases s.started <;> simp [inCrit]
      · simp only [upd_other _ _ _ _ hu]; exact hc u
    · intro u hu'
      by_cases hu : u = t
      · subst hu; simp only [upd_same] at hu'
        cases hs : s.started with
        | false => rfl
        | true => simp [hs] at hu'
      · dsimp only at hu'; rw [upd_other _ _ _ _ hu] at hu'; exact h1 u hu'
    · simp only [pending, hl, upd_same] at hn ⊢
      cases hs : s.started <;> simp [hs, hp] at hn ⊢ <;> exact hn
    · intro ha
      rcases hw ha with h | ⟨u, hlu, hpu⟩
      · exact Or.inl h
      · rw [hl] at hlu; cases hlu; simp [hp] at hpu
  next hp =>
    -- set1: monitorStarted = true
    simp only [Option.some.injEq] at h; subst h
    have hl : s.lock = .caller t := hct.1 (by simp [inCrit, hp])
    have hs : s.started = false := h1 t hp
    refine ⟨?_, ?_, ?_, ?_⟩
    · intro u
      by_cases hu : u = t
      · subst hu; simp [upd_same, inCrit, hl]
      · simp only [upd_other _ _ _ _ hu]; exact hc u
    · intro u hu'
      by_cases hu : u = t
      · subst hu; simp [upd_same] at hu'
      · dsimp only at hu'; rw [upd_other _ _ _ _ hu] at hu'
        have := (hc u).1 (by simp [inCrit, hu'])
        rw [hl] at this; cases this; exact absurd rfl hu
    · simp only [pending, hl, upd_same] at hn ⊢
      simp [hs, hp, b2n] at hn ⊢
      omega
    · intro ha
      rcases hw ha with h | ⟨u, hlu, hpu⟩
      · exact Or.inl h
      · rw [hl] at hlu; cases hlu; simp [hp] at hpu
  next hp =>
    -- set2: redisAlive = 0
    simp only [Bool.false_eq_true, if_false, Option.some.injEq] at h; subst h
    have hl : s.lock = .caller t := hct.1 (by simp [inCrit, hp])
    refine ⟨?_, ?_, ?_, ?_⟩
    · intro u
      by_cases hu : u = t
      · subst hu; simp [upd_same, inCrit, hl]
      · simp only [upd_other _ _ _ _ hu]; exact hc u
    · intro u hu'
      by_cases hu : u = t
      · subst hu; simp [upd_same] at hu'
      · dsimp only at hu'; rw [upd_other _ _ _ _ hu] at hu'; exact h1 u hu'
    · simp only [pending, hl, upd_same] at hn ⊢
      simp [hp] at hn ⊢
      exact hn
    · intro _
      exact Or.inr ⟨t, hl, by simp [upd_same]⟩
  next hp =>
    -- spawn: go lim.waitForRedis()
    simp only [Option.some.injEq] at h; subst h
    have hl : s.lock = .caller t := hct.1 (by simp [inCrit, hp])
    refine ⟨?_, ?_, ?_, ?_⟩
    · intro u
      by_cases hu : u = t
      · subst hu; simp [upd_same, inCrit, hl]
      · simp only [upd_other _ _ _ _ hu]; exact hc u
    · intro u hu'
      by_cases hu : u = t
      · subst hu; simp [upd_same] at hu'
      · dsimp only at hu'; rw [upd_other _ _ _ _ hu] at hu'; exact h1 u hu'
    · simp only [pending, hl, upd_same] at hn ⊢
      simp [hp] at hn ⊢
      omega
    · intro _; left; simp
  next hp =>
    -- unlock
    simp only [Option.some.injEq] at h; subst h
    have hl : s.lock = .caller t := hct.1 (by simp [inCrit, hp])
    refine ⟨?_, ?_, ?_, ?_⟩
    · intro u
      by_cases hu : u = t
      · subst hu; simp [upd_same, inCrit]
      · simp only [upd_other _ _ _ _ hu]
        constructor
        · intro hcu; have := (hc u).1 hcu; rw [hl] at this; cases this; exact absurd rfl hu
        · intro hcu; simp at hcu
    · intro u hu'
      by_cases hu : u = t
      · subst hu; simp [upd_same] at hu'
      · dsimp only at hu'; rw [upd_other _ _ _ _ hu] at hu'; exact h1 u hu'
    · simp only [pending, hl] at hn
      simp [hp] at hn
      simp [pending]; exact hn
    · intro ha
      rcases hw ha with h | ⟨u, hlu, hpu⟩
      · exact Or.inl h
      · rw [hl] at hlu; cases hlu; simp [hp] at hpu

/-- the monitor goroutine's steps preserve the invariant -/
theorem inv_monitor (early : Bool) (s s' : St) (e : Ev) (hne : ∀ t, e ≠ .caller t) (hi : Inv s)
    (h : step early s e = some s') : Inv s' := by
  obtain ⟨hc, h1, hn, hw⟩ := hi
  cases e with
  | caller t => exact absurd rfl (hne t)
  | pingOk =>
    simp only [step] at h
    split at h
    next hpos =>
      simp only [Option.some.injEq] at h; subst h
      refine ⟨hc, h1, ?_, ?_⟩
      · have : pending { s with nLoop := s.nLoop - 1, nWant := s.nWant + 1, alive := true } = pending s := rfl
        simp only [this]; omega
      · intro ha; simp at ha
    next => simp at h
  | monLock =>
    simp only [step] at h
    split at h
    next hcond =>
      obtain ⟨hpos, hfree⟩ := hcond
      simp only [Option.some.injEq] at h; subst h
      refine ⟨?_, h1, ?_, ?_⟩
      · intro u
        constructor
        · intro hcu; have := (hc u).1 hcu; simp [hfree] at this
        · intro hl; simp at hl
      · simp [pending, hfree] at hn
        simp [pending]; omega
      · intro ha
        rcases hw ha with h | ⟨u, hl, _⟩
        · exact Or.inl h
        · simp [hfree] at hl
    next => simp at h
  | monClear =>
    simp only [step] at h
    split at h
    next hl =>
      simp only [Option.some.injEq] at h; subst h
      simp [pending, hl] at hn
      have hst : s.started = true := by
        cases hs : s.started with
        | true => rfl
        | false => simp [hs, b2n] at hn
      simp [hst, b2n] at hn
      refine ⟨?_, ?_, ?_, ?_⟩
      · intro u
        constructor
        · intro hcu; have := (hc u).1 hcu; simp [hl] at this
        · intro hl'; simp at hl'
      · intro u _; rfl
      · simp [pending, b2n]; omega
      · intro ha
        rcases hw ha with h | ⟨u, hlu, _⟩
        · omega
        · simp [hl] at hlu
    next => simp at h
  | monUnlock =>
    simp only [step] at h
    split at h
    next hl =>
      simp only [Option.some.injEq] at h; subst h
      refine ⟨?_, h1, ?_, ?_⟩
      · intro u
        constructor
        · intro hcu; have := (hc u).1 hcu; simp [hl] at this
        · intro hl'; simp at hl'
      · simp [pending, hl] at hn
        simp [pending]; exact hn
      · intro ha
        rcases hw ha with h | ⟨u, hlu, _⟩
        · exact Or.inl h
        · simp [hl] at hlu
    next => simp at h

theorem inv_reach (s : St) (h : Reach false s) : Inv s := by
  induction h with
  | init => exact inv_init
  | step s s' e _ hs ih =>
    cases e with
    | caller t => exact inv_caller s s' t ih hs
    | pingOk => exact inv_monitor false s s' .pingOk (by intros; simp) ih hs
    | monLock => exact inv_monitor false s s' .monLock (by intros; simp) ih hs
    | monClear => exact inv_monitor false s s' .monClear (by intros; simp) ih hs
    | monUnlock => exact inv_monitor false s s' .monUnlock (by intros; simp) ih hs

/-- run a schedule -/
def run (early : Bool) : St → List Ev → Option St
  | s, [] => some s
  | s, e :: es => match step early s e with
    | some s' => run early s' es
    | none => none

theorem reach_run (early : Bool) : ∀ (es : List Ev) (s s' : St), Reach early s → run early s es = some s' → Reach early s' := by
  intro es
  induction es with
  | nil => intro s s' hr h; simp [run] at h; subst h; exact hr
  | cons e es ih =>
    intro s s' hr h
    simp only [run] at h
    split at h
    next s1 hs1 => exact ih s1 s' (Reach.step s s1 e hr hs1) h
    next => simp at h

end GoZero.C03.Mon
