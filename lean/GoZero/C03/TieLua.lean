/-
C03 — Tie, round 5: tokenscript.lua SEMANTICALLY.  The extractor lexes the current file (Extracted.C03.tokenLuaToks); the
token list is parsed and interpreted in Lean (LuaTok.lean) and proven equal, for every store, both keys and all
arguments, to the script on integers `tokenScriptI`, which for every configuration with rate ≥ 1 is the model's
`tokenScript true` on naturals — the object of token_refines_bucket / token_rate_bound.
-/
import GoZero.Extracted.C03
import GoZero.C03.LuaTok
import GoZero.C03.ProofsStore
import GoZero.C03.TieSem
import GoZero.C03.PropsPath
namespace GoZero.C03.TieLua
open GoZero.C03
open GoZero.C03.LuaT
open GoZero.C03.Lua (Tok)
open GoZero.Extracted.C03

/-! ### round 5: tokenscript.lua, semantically -/

def tokenProg : List Stmt :=
  [.localE "rate" (.argvNum 1), .localE "capacity" (.argvNum 2), .localE "now" (.argvNum 3), .localE "requested" (.argvNum 4),
   .localE "fill_time" (.div (.var "capacity") (.var "rate")),
   .localE "ttl" (.max (.num 1) (.floor (.mul (.var "fill_time") (.num 2)))),
   .localE "last_tokens" (.getNum 1),
   .ifThen (.eqNil (.var "last_tokens")) [.assign "last_tokens" (.var "capacity")],
   .localE "last_refreshed" (.getNum 2),
   .ifThen (.eqNil (.var "last_refreshed")) [.assign "last_refreshed" (.num 0)],
   .localE "delta" (.max (.num 0) (.sub (.var "now") (.var "last_refreshed"))),
   .localE "filled_tokens" (.min (.var "capacity") (.add (.var "last_tokens") (.mul (.var "delta") (.var "rate")))),
   .localE "allowed" (.ge (.var "filled_tokens") (.var "requested")),
   .localE "new_tokens" (.var "filled_tokens"),
   .ifThen (.truthy (.var "allowed")) [.assign "new_tokens" (.sub (.var "filled_tokens") (.var "requested"))],
   .setex 1 (.var "ttl") (.var "new_tokens"),
   .setex 2 (.var "ttl") (.var "now"),
   .ret (.var "allowed")]

set_option maxRecDepth 100000 in
theorem tokenLua_parses : (tokenLuaToks.mapM Tok.ofRaw).bind parse = some tokenProg := by rfl

/-- **tokenscript.lua as it is in the tree now means `tokenScriptI`** for every store, both keys and ALL integer
arguments (zero and negative included; `rate = 0`: the script fails) — the current token list is parsed and interpreted
in Lean (`LuaTok.lean`).  Moving the timestamp write inside `if allowed` (seeded change C03-1), dropping `math.max(1, …)`
(finding 1), swapping a key or an argument index break this theorem. -/
theorem tie_tokenLua_sem (s : Store) (k1 k2 : String) (rate cap now req : Int) :
    runScript tokenLuaToks [k1, k2] [rate, cap, now, req] s = tokenScriptI s k1 k2 rate cap now req := by
  unfold runScript
  rw [tokenLua_parses]
  unfold tokenScriptI
  by_cases hr : rate = 0
  · subst hr
    simp [tokenProg, exec_localE, evalExpr, setLocal, List.lookup, bind2, divV]
  · simp only [hr, if_false]
    have hmax : ∀ a b : Int, Max.max a b = max a b := fun _ _ => rfl
    cases h1 : s.get k1 <;> cases h2 : s.get k2 <;>
      simp [tokenProg, exec_localE, exec_assign, exec_ret, exec_nil, exec_setex, exec_ifThen, evalExpr, evalCond,
        setLocal, replaceVar, List.lookup, bind2, divV, mulV, floorV, geV, arith2, getNumOr, hr, h1, h2]
    all_goals
      generalize (max 1 ((cap * 2).fdiv rate)).toNat = T
      generalize min cap _ = F
      by_cases hT : T = 0 <;> by_cases ha : req ≤ F <;> by_cases hn : now < 0 <;>
        by_cases hv : F - req < 0 <;> by_cases hw : F < 0 <;> simp [Store.setex, hT, ha, hn, hv, hw]

theorem max0_sub (a b : Nat) : max 0 ((a : Int) - (b : Int)) = ((a - b : Nat) : Int) := by omega

theorem filled_cast (cap last now lr rate : Nat) :
    min (cap : Int) ((last : Int) + max 0 ((now : Int) - (lr : Int)) * (rate : Int))
      = ((min cap (last + (now - lr) * rate) : Nat) : Int) := by
  rw [max0_sub]
  have : (((now - lr : Nat) : Int) * (rate : Int)) = (((now - lr) * rate : Nat) : Int) := by push_cast; rfl
  rw [this]
  generalize (now - lr) * rate = P
  omega

theorem ttl_cast (rate burst : Nat) (hr : 0 < rate) :
    (max 1 (Int.fdiv ((burst : Int) * 2) (rate : Int))).toNat = ttlFixed rate burst := by
  rw [Int.fdiv_eq_ediv_of_nonneg _ (by omega)]
  unfold ttlFixed
  have : ((burst : Int) * 2) / (rate : Int) = ((2 * burst / rate : Nat) : Int) := by
    rw [Nat.mul_comm]; push_cast; rfl
  rw [this]; omega

/-- the script on integers is the model's script on naturals, for every configuration with `rate ≥ 1` -/
theorem tokenScriptI_is_tokenScript (c : TCfg) (hr : 0 < c.rate) (s : Store) (now n : Nat) :
    tokenScriptI s c.k1 c.k2 c.rate c.burst now n = tokenScript true c s now n := by
  have hr0 : ¬ ((c.rate : Int) = 0) := by omega
  have hF : min (c.burst : Int) (getNumOr s c.k1 c.burst +
      max 0 ((now : Int) - getNumOr s c.k2 0) * (c.rate : Int))
      = ((filledTokens c s now : Nat) : Int) := by
    unfold filledTokens lastTokens lastRefreshed getNumOr
    cases s.get c.k1 <;> cases s.get c.k2 <;> simp only [] <;>
      first | exact filled_cast _ _ _ _ _ | (have := filled_cast c.burst c.burst now 0 c.rate; simpa using this) | skip
  unfold tokenScriptI tokenScript ttlOf
  simp only [hr0, if_false, if_true, ttl_cast c.rate c.burst hr]
  rw [hF]
  generalize filledTokens c s now = F
  have hnow : ¬ ((now : Int) < 0) := by omega
  by_cases ha : n ≤ F
  · have h1 : ((n : Int) ≤ (F : Int)) := by omega
    have h2 : ¬ ((F : Int) - (n : Int) < 0) := by omega
    have h3 : ((F : Int) - (n : Int)).toNat = F - n := by omega
    simp [ha, h1, h2, h3, hnow, Store.setex]
    by_cases h0 : ttlFixed c.rate c.burst = 0 <;> simp [h0]
  · have h1 : ¬ ((n : Int) ≤ (F : Int)) := by omega
    have h2 : ¬ ((F : Int) < 0) := by omega
    simp [ha, h1, h2, hnow, Store.setex]
    by_cases h0 : ttlFixed c.rate c.burst = 0 <;> simp [h0]

/-- **The script text in the tree is the model's `tokenScript true`**: for every limiter configuration with `rate ≥ 1`,
every store, every caller second and request size, running the CURRENT tokenscript.lua on
`KEYS = [tokenKey, timestampKey]`, `ARGV = [rate, burst, now, n]` (the order `tie_tokenScriptCall` pins) gives exactly
what the model's script gives — the object of `token_refines_bucket` / `token_rate_bound`. -/
theorem tie_tokenLua_model (c : TCfg) (hr : 0 < c.rate) (s : Store) (now n : Nat) :
    runScript tokenLuaToks [c.k1, c.k2] [(c.rate : Int), (c.burst : Int), (now : Int), (n : Int)] s
      = tokenScript true c s now n := by
  rw [tie_tokenLua_sem, tokenScriptI_is_tokenScript c hr]


/-- the two values of a limiter as the integer model sees them -/
def zOf (s : Store) (k1 k2 : String) : ZBucket :=
  ⟨(s.get k1).map fun e => (e.val : Int), (s.get k2).map fun e => (e.val : Int)⟩

/-- **The integer model of the driver's `tokenz` sections is the interpreted script**: wherever the store model can hold
the values (nothing negative is written), `tokenScriptZ` (negative rate / burst / n included) makes the same decision and
stores the same two values as the script text in the tree (`tie_tokenLua_sem`), with the TTL `ttlZ`. -/
theorem tokenScriptI_agrees_with_Z (s : Store) (k1 k2 : String) (hk : k1 ≠ k2) (rate cap now req : Int) (s' : Store) (a : Bool)
    (h : tokenScriptI s k1 k2 rate cap now req = some (s', a)) :
    (tokenScriptZ rate cap now req (zOf s k1 k2)).2 = a ∧
    (tokenScriptZ rate cap now req (zOf s k1 k2)).1 = zOf s' k1 k2 ∧
    (s'.find k1).bind (·.exp) = some (s.clock + (ttlZ rate cap).toNat * 1000) := by
  unfold tokenScriptI at h
  by_cases hr : rate = 0
  · simp [hr] at h
  · simp only [hr, if_false] at h
    have hG1 : getNumOr s k1 cap = ((zOf s k1 k2).tok.getD cap) := by
      unfold getNumOr zOf; cases s.get k1 <;> simp
    have hG2 : getNumOr s k2 0 = ((zOf s k1 k2).ts.getD 0) := by
      unfold getNumOr zOf; cases s.get k2 <;> simp
    rw [hG1, hG2] at h
    generalize hz : zOf s k1 k2 = z at h ⊢
    unfold tokenScriptZ
    generalize hF : min cap (z.tok.getD cap + max 0 (now - z.ts.getD 0) * rate) = F at h ⊢
    have hT : (max 1 ((cap * 2).fdiv rate)) = ttlZ rate cap := by unfold ttlZ; rw [Int.mul_comm]
    rw [hT] at h
    have hTp : 1 ≤ ttlZ rate cap := by unfold ttlZ; omega
    have hT0 : ¬ ((ttlZ rate cap).toNat = 0) := by omega
    by_cases hg : (if decide (req ≤ F) = true then F - req else F) < 0 ∨ now < 0
    · rw [if_pos hg] at h; cases h
    · rw [if_neg hg] at h
      simp only [Store.setex, hT0, if_false, Option.some.injEq, Prod.mk.injEq] at h
      obtain ⟨h1, h2⟩ := h
      subst h1
      have hnn : 0 ≤ (if decide (req ≤ F) = true then F - req else F) ∧ 0 ≤ now := by omega
      refine ⟨h2, ?_, ?_⟩
      · unfold zOf
        simp only [get_eq, find_put, clock_put, hk, if_true, if_false, Ne.symm hk, Entry.live]
        simp
        obtain ⟨hn1, hn2⟩ := hnn
        by_cases hd : req ≤ F
        · simp [hd] at hn1 ⊢; omega
        · simp [hd] at hn1 ⊢; omega
      · simp [find_put, hk]

/-- **periodscript.lua in the tree is the model's `periodScript`** (round 5c; the file has been lexed by the extractor,
parsed and interpreted in Lean since round 4 — `LuaSem.lean`, `TieSem.tie_periodLua_sem`): for every store, key and ALL
integer arguments, running the current script text on `KEYS = [prefix+key]`, `ARGV = [quota, window]` gives exactly what
the natural-number model of the period theorems gives on `quota.toNat`, `window.toNat` (what Redis makes of
non-positive values). -/
theorem tie_periodLua_model (s : Store) (key : String) (quota window : Int) :
    Lua.runScript periodLuaToks [key] [quota, window] s
      = some ((periodScript s key quota.toNat window.toNat).1, ((periodScript s key quota.toNat window.toNat).2 : Int)) := by
  rw [TieSem.tie_periodLua_sem, PropsPath.periodScriptZ_is_periodScript]

end GoZero.C03.TieLua
