/-
C03 — the rescue-path requests of one instance inside a system run.
-/
import GoZero.C03.ProofsRescue
namespace GoZero.C03
open GoZero.C03 Spec

theorem startMonitor_rescue (i : Inst) : i.startMonitor.rescue = i.rescue := by
  unfold Inst.startMonitor; split <;> rfl

theorem rescuePath_facts (c : TCfg) (s : Sys) (j : Nat) (inst : Inst) (ns n : Nat) :
    (s.rescuePath c j inst ns n).2 = ⟨j, .rescue, ns, n, (inst.rescue.allowN c ns n).2⟩ ∧
    ((s.rescuePath c j inst ns n).1.insts j).rescue = (inst.rescue.allowN c ns n).1 ∧
    ∀ k, k ≠ j → (s.rescuePath c j inst ns n).1.insts k = s.insts k := by
  unfold Sys.rescuePath
  refine ⟨rfl, by simp [upd], ?_⟩
  intro k hk; simp [upd, hk]

/-- what one `reserveN` of instance `j` does to the rescue limiters (either script version) -/
theorem reserveN_rescue_cases (fixed : Bool) (c : TCfg) (s : Sys) (j ns n : Nat) :
    ((s.reserveN fixed c j ns n).2 = ⟨j, .rescue, ns, n, ((s.insts j).rescue.allowN c ns n).2⟩ ∧
      ((s.reserveN fixed c j ns n).1.insts j).rescue = ((s.insts j).rescue.allowN c ns n).1 ∧
      ∀ k, k ≠ j → (s.reserveN fixed c j ns n).1.insts k = s.insts k) ∨
    ((s.reserveN fixed c j ns n).2.route = .store ∧ (s.reserveN fixed c j ns n).1.insts = s.insts) := by
  unfold Sys.reserveN
  by_cases ha : (s.insts j).alive = true
  · by_cases hu : s.up = true
    · cases hs : tokenScript fixed c s.store (ns / nsPerSec) n with
      | none =>
        left
        simp only [ha, hu, hs, Bool.not_true, Bool.false_eq_true, if_false]
        have := rescuePath_facts c s j (s.insts j).startMonitor ns n
        rw [startMonitor_rescue] at this
        exact this
      | some r =>
        right
        simp [ha, hu, hs]
    · left
      simp only [ha, hu, Bool.not_true, Bool.false_eq_true, if_false, Bool.not_false, if_true]
      have := rescuePath_facts c s j (s.insts j).startMonitor ns n
      rw [startMonitor_rescue] at this
      simpa [hu] using this
  · left
    have := rescuePath_facts c s j (s.insts j) ns n
    simpa [ha] using this

theorem step_insts_other (fixed : Bool) (c : TCfg) (s : Sys) (op : TOp) (i : Nat) (h : ∀ j ns n, op ≠ .allow j ns n) :
    ((s.step fixed c op).1.insts i).rescue = (s.insts i).rescue ∧ (s.step fixed c op).2 = none := by
  cases op with
  | ft ms => exact ⟨rfl, rfl⟩
  | allow j ns n => exact absurd rfl (h j ns n)
  | down => exact ⟨rfl, rfl⟩
  | up => exact ⟨rfl, rfl⟩
  | pingOk j =>
    simp only [Sys.step]; split
    · refine ⟨?_, rfl⟩
      by_cases hij : i = j <;> simp [upd, hij]
    · exact ⟨rfl, rfl⟩
  | monExit j =>
    simp only [Sys.step]; split
    · refine ⟨?_, rfl⟩
      by_cases hij : i = j <;> simp [upd, hij]
    · exact ⟨rfl, rfl⟩
  | lateFail j =>
    refine ⟨?_, rfl⟩
    show (upd s.insts j (s.insts j).startMonitor i).rescue = (s.insts i).rescue
    by_cases hij : i = j
    · subst hij; simp [upd, startMonitor_rescue]
    · simp [upd, hij]
  | cancelledAlive j ns n => exact ⟨rfl, rfl⟩

/-- the requests instance `i` decides locally are a run of ITS rescue limiter, whatever the other
instances and the store do (either script version) -/
theorem sys_rescue_run (fixed : Bool) (c : TCfg) (i : Nat) : ∀ (ops : List TOp) (s : Sys),
    (rescueEvs i (Sys.run fixed c s ops)).map (·.ok)
      = Rescue.run c (s.insts i).rescue ((rescueEvs i (Sys.run fixed c s ops)).map rcallOf) := by
  intro ops
  induction ops with
  | nil => intro s; simp [Sys.run, rescueEvs, Rescue.run]
  | cons op ops ih =>
    intro s
    by_cases hop : ∃ j ns n, op = .allow j ns n
    · obtain ⟨j, ns, n, rfl⟩ := hop
      have hrun : Sys.run fixed c s (TOp.allow j ns n :: ops)
          = (s.reserveN fixed c j ns n).2 :: Sys.run fixed c (s.reserveN fixed c j ns n).1 ops := by
        simp [Sys.run, Sys.step]
      rw [hrun]
      rcases reserveN_rescue_cases fixed c s j ns n with ⟨hev, hres, hoth⟩ | ⟨hroute, hin⟩
      · by_cases hji : j = i
        · subst hji
          have hfilter : rescueEvs j ((s.reserveN fixed c j ns n).2 :: Sys.run fixed c (s.reserveN fixed c j ns n).1 ops)
              = (s.reserveN fixed c j ns n).2 :: rescueEvs j (Sys.run fixed c (s.reserveN fixed c j ns n).1 ops) := by
            simp [rescueEvs, List.filter, hev]
          rw [hfilter]
          have := ih (s.reserveN fixed c j ns n).1
          rw [hres] at this
          simp only [List.map_cons, Rescue.run]
          rw [hev] at *
          simp only [rcallOf, Rescue.run]
          rw [this]
        · have hfilter : rescueEvs i ((s.reserveN fixed c j ns n).2 :: Sys.run fixed c (s.reserveN fixed c j ns n).1 ops)
              = rescueEvs i (Sys.run fixed c (s.reserveN fixed c j ns n).1 ops) := by
            simp [rescueEvs, List.filter, hev, hji]
          rw [hfilter]
          have := ih (s.reserveN fixed c j ns n).1
          rw [hoth i (fun h => hji h.symm)] at this
          exact this
      · have hfilter : rescueEvs i ((s.reserveN fixed c j ns n).2 :: Sys.run fixed c (s.reserveN fixed c j ns n).1 ops)
            = rescueEvs i (Sys.run fixed c (s.reserveN fixed c j ns n).1 ops) := by
          simp [rescueEvs, List.filter, hroute]
        rw [hfilter]
        have := ih (s.reserveN fixed c j ns n).1
        rw [hin] at this
        exact this
    · have hno : ∀ j ns n, op ≠ .allow j ns n := fun j ns n h => hop ⟨j, ns, n, h⟩
      obtain ⟨h1, h2⟩ := step_insts_other fixed c s op i hno
      have hrun : Sys.run fixed c s (op :: ops) = Sys.run fixed c (s.step fixed c op).1 ops := by
        simp [Sys.run, h2]
      rw [hrun]
      have := ih (s.step fixed c op).1
      rw [h1] at this
      exact this


theorem rrun_append (c : TCfg) : ∀ (l1 l2 : List (Nat × Nat)) (r : Rescue),
    Rescue.run c r (l1 ++ l2) = Rescue.run c r l1 ++ Rescue.run c (Rescue.exec c r l1) l2 := by
  intro l1; induction l1 with
  | nil => intro l2 r; rfl
  | cons p l1 ih => intro l2 r; obtain ⟨t, n⟩ := p; simp [Rescue.run, Rescue.exec, ih]

theorem rrun_length (c : TCfg) : ∀ (l : List (Nat × Nat)) (r : Rescue), (Rescue.run c r l).length = l.length := by
  intro l; induction l with
  | nil => intro r; rfl
  | cons p l ih => intro r; obtain ⟨t, n⟩ := p; simp [Rescue.run, ih]

theorem rgranted_eq (c : TCfg) : ∀ (l : List Ev) (r : Rescue),
    l.map (·.ok) = Rescue.run c r (l.map rcallOf) → grantedOf l = Rescue.granted c r (l.map rcallOf) := by
  intro l; induction l with
  | nil => intro r _; rfl
  | cons e l ih =>
    intro r h
    simp only [List.map_cons, rcallOf, Rescue.run, List.cons.injEq] at h
    obtain ⟨h1, h2⟩ := h
    have := ih _ h2
    simp only [grantedOf, List.map_cons, List.sum_cons, rcallOf, Rescue.granted] at this ⊢
    rw [this, h1]

theorem mono_split : ∀ (l1 l2 : List (Nat × Nat)) (t0 : Nat), Mono t0 (l1 ++ l2) →
    Mono t0 l1 ∧ Mono (lastTime t0 l1) l2 := by
  intro l1; induction l1 with
  | nil => intro l2 t0 h; exact ⟨trivial, h⟩
  | cons p l1 ih =>
    intro l2 t0 h; obtain ⟨t, n⟩ := p
    obtain ⟨h0, h1⟩ := h
    have := ih l2 t h1
    exact ⟨⟨h0, this.1⟩, this.2⟩

theorem lastTime_getLast : ∀ (l : List (Nat × Nat)) (t0 : Nat) (h : l ≠ []), lastTime t0 l = (l.getLast h).1 := by
  intro l; induction l with
  | nil => intro t0 h; exact absurd rfl h
  | cons p l ih =>
    intro t0 _; obtain ⟨t, n⟩ := p
    cases l with
    | nil => rfl
    | cons q l' =>
      simp only [lastTime] at ih ⊢
      rw [List.getLast_cons (by simp)]
      exact ih t (by simp)

/-- local interval bound on the events of a run -/
theorem rescue_interval_of_run (c : TCfg) (hi : c.ival ≠ 0) (r0 : Rescue) (h0 : r0.last = 0) (hT : 0 ≤ r0.T)
    (evs pre post mid : List Ev) (e1 : Ev)
    (href : evs.map (·.ok) = Rescue.run c r0 (evs.map rcallOf))
    (hmono : Mono 0 (evs.map rcallOf))
    (hsplit : evs = pre ++ (e1 :: mid) ++ post) :
    grantedOf (e1 :: mid) * c.ival ≤ c.burst * c.ival + (((e1 :: mid).getLast (by simp)).ns - e1.ns) := by
  subst hsplit
  simp only [List.map_append, List.append_assoc] at href hmono
  rw [rrun_append, rrun_append] at href
  have hl1 : (pre.map (·.ok)).length = (Rescue.run c r0 (pre.map rcallOf)).length := by simp [rrun_length]
  obtain ⟨_, href2⟩ := List.append_inj href hl1
  have hl2 : ((e1 :: mid).map (·.ok)).length
      = (Rescue.run c (Rescue.exec c r0 (pre.map rcallOf)) ((e1 :: mid).map rcallOf)).length := by
    simp [rrun_length]
  obtain ⟨href3, _⟩ := List.append_inj href2 hl2
  have hg := rgranted_eq c (e1 :: mid) _ href3
  obtain ⟨hm1, hm2⟩ := mono_split _ _ 0 hmono
  obtain ⟨hm3, _⟩ := mono_split _ _ _ hm2
  obtain ⟨_, p2, p3⟩ := rescue_potential c hi (pre.map rcallOf) r0 0 (by omega) hT hm1
  have hc : (e1 :: mid).map rcallOf = (e1.ns, e1.n) :: mid.map rcallOf := by simp [rcallOf]
  rw [hc] at hm3 hg
  obtain ⟨hm4, hm5⟩ := hm3
  have hb := rescue_interval_bound c hi (Rescue.exec c r0 (pre.map rcallOf)) e1.ns e1.n (mid.map rcallOf)
    (by omega) p3 hm5
  rw [hg]
  have hlast : lastTime e1.ns (mid.map rcallOf) = ((e1 :: mid).getLast (by simp)).ns := by
    have h1 : lastTime e1.ns (mid.map rcallOf) = lastTime 0 ((e1 :: mid).map rcallOf) := by rw [hc]; rfl
    rw [h1, lastTime_getLast _ 0 (by simp), List.getLast_map (by simp)]
    rfl
  rw [hlast] at hb
  exact hb

end GoZero.C03
