/-
C03 — property theorems about the script-evaluation path (core/stores/redis/redis.go: ScriptRunCtx, getRedis, the
EVALSHA → NOSCRIPT → EVAL fallback of go-redis' Script.Run, PingCtx), composed with the limiters' reply decoding,
and the end-to-end theorems per clause of the property (call site → wrapper → script path → script → store).

  script_run_error_executes_nothing, script_run_at_most_once, script_run_trips
  take_via_is_take, store_error_never_grants_on_any_path, period_refines_spec_via
  reserve_grants_only_on_one, reserve_lua_bool, reserveN_follows_reply_table, token_store_error_goes_local
  ping_true_only_on_pong
  periodScriptZ_is_periodScript (arguments nothing validates: limit ≤ 0, window ≤ 0)
-/
import GoZero.C03.ScriptRun
import GoZero.C03.LuaSem
import GoZero.C03.ProofsPeriodSpec
import GoZero.C03.ProofsToken
namespace GoZero.C03.PropsPath
open GoZero.C03 Spec

/-! ## the script path -/

/-- **A call that ends in an error has executed nothing**: whatever the state of the link and of the script cache
(also on the NOSCRIPT → EVAL reload path), if `ScriptRunCtx` returns `(nil, err)` the store is unchanged. -/
theorem script_run_error_executes_nothing {σ ρ : Type} (typeOk : Bool) (c : Conn) (exec : σ → σ × ρ) (s : σ)
    (h : (scriptRun typeOk c exec s).2.1 = none) : (scriptRun typeOk c exec s).1.1 = s := by
  unfold scriptRun at *
  cases typeOk <;> cases c with | mk link loaded => cases link <;> cases loaded <;> simp_all

/-- **One call executes the script at most once**, and when it does, the reply is the script's own result:
`EVALSHA` answered NOSCRIPT executed nothing, so the `EVAL` that follows is the only execution. -/
theorem script_run_at_most_once {σ ρ : Type} (typeOk : Bool) (c : Conn) (exec : σ → σ × ρ) (s : σ) :
    ((scriptRun typeOk c exec s).1.1 = s ∧ (scriptRun typeOk c exec s).2.1 = none) ∨
    ((scriptRun typeOk c exec s).1.1 = (exec s).1 ∧ (scriptRun typeOk c exec s).2.1 = some (exec s).2) := by
  unfold scriptRun
  cases typeOk <;> cases c with | mk link loaded => cases link <;> cases loaded <;> simp

/-- the round trips of one call: nothing, `EVALSHA`, or `EVALSHA` then `EVAL` — never two of a kind; the `EVAL` is sent
exactly when the `EVALSHA` was answered NOSCRIPT (unknown hash or a link in a NOSCRIPT mode) -/
theorem script_run_trips {σ ρ : Type} (typeOk : Bool) (c : Conn) (exec : σ → σ × ρ) (s : σ) :
    (scriptRun typeOk c exec s).2.2 =
      (if !typeOk then [] else
       if c.link = .noscript ∨ c.link = .noscriptDown ∨ (c.link = .up ∧ c.loaded = false) then [.evalsha, .eval]
       else [.evalsha]) := by
  unfold scriptRun
  cases typeOk <;> cases c with | mk link loaded => cases link <;> cases loaded <;> simp

example : (scriptRun true ⟨.up, false⟩ (fun (n : Nat) => (n + 1, n)) 5) = ((6, ⟨.up, true⟩), some 5, [.evalsha, .eval]) ∧
    (scriptRun true ⟨.noscriptDown, true⟩ (fun (n : Nat) => (n + 1, n)) 5) = ((5, ⟨.noscriptDown, true⟩), none, [.evalsha, .eval]) ∧
    (scriptRun true ⟨.shaDown, true⟩ (fun (n : Nat) => (n + 1, n)) 5) = ((5, ⟨.shaDown, true⟩), none, [.evalsha]) := by decide

/-- **`TakeCtx` over the path is `PSys.take`** with `up = link.serves`: the reload path (`noscript`, or an empty script
cache) is invisible, every failing path is "store unreachable". So every period theorem of Props.lean speaks about
the code with the store client in between. -/
theorem take_via_is_take (quota period : Nat) (v : PVSys) (k : String) :
    (v.take quota period true k).1.store = ((⟨v.store, v.conn.link.serves⟩ : PSys).take quota period k).1.store ∧
    (v.take quota period true k).2.1 = ((⟨v.store, v.conn.link.serves⟩ : PSys).take quota period k).2 ∧
    (v.take quota period true k).1.conn.link = v.conn.link := by
  cases v with | mk store conn => cases conn with | mk link loaded =>
    cases link <;> cases loaded <;> simp [PVSys.take, scriptRun, PSys.take, Link.serves, respOf]

/-- **A store error is reported as an error, never as a grant — on every path**: unsupported client type, link down,
`EVALSHA` failing, and the NOSCRIPT reload whose `EVAL` fails: `(Unknown, err)`, not granted, counter untouched. -/
theorem store_error_never_grants_on_any_path (quota period : Nat) (typeOk : Bool) (v : PVSys) (k : String)
    (h : typeOk = false ∨ v.conn.link.serves = false) :
    (v.take quota period typeOk k).2.1 = (Code.unknown, PErr.store) ∧
    granted (v.take quota period typeOk k).2.1 = false ∧
    (v.take quota period typeOk k).1.store = v.store := by
  cases v with | mk store conn => cases conn with | mk link loaded =>
    cases typeOk <;> cases link <;> cases loaded <;>
      simp_all [PVSys.take, scriptRun, Link.serves, respOf, takeResult, granted]

example : (PVSys.take 3 5 true ⟨Store.empty, ⟨.noscriptDown, true⟩⟩ "a").2 = ((.unknown, .store), [.evalsha, .eval]) ∧
    (PVSys.take 3 5 true ⟨Store.empty, ⟨.noscript, true⟩⟩ "a").2 = ((.allowed, .nil), [.evalsha, .eval]) := by decide

theorem advance_zero (s : Store) : s.advance 0 = s := by
  cases s; simp [Store.advance]

theorem pv_run_is_run (quota period : Nat) : ∀ (ops : List PVOp) (v : PVSys) (p : PSys),
    p.store = v.store → p.up = v.conn.link.serves →
    PVSys.run quota period v ops = PSys.run quota period p (ops.map PVOp.abs) := by
  intro ops
  induction ops with
  | nil => intro v p _ _; rfl
  | cons op ops ih =>
    intro v p hs hu
    have hp : p = ⟨v.store, v.conn.link.serves⟩ := by cases p; simp_all
    subst hp
    obtain ⟨t1, t2, t3⟩ := take_via_is_take quota period v
      (match op with | .take k => k | _ => "")
    cases op with
    | ft ms =>
      simp only [PVSys.run, List.map, PSys.run, PVOp.abs, PVSys.step, PSys.step]
      congr 1
      exact ih _ _ rfl rfl
    | take k =>
      simp only [PVSys.run, List.map, PSys.run, PVOp.abs, PVSys.step, PSys.step]
      simp only at t1 t2 t3
      rw [t2]
      congr 1
      apply ih
      · exact t1.symm
      · rw [t3]; simp [PSys.take]; split <;> simp_all
    | link l =>
      simp only [PVSys.run, List.map, PSys.run, PVOp.abs, PVSys.step]
      cases hl : l.serves <;> simp only [PSys.step] <;> (congr 1; apply ih <;> simp [hl])
    | flush =>
      simp only [PVSys.run, List.map, PSys.run, PVOp.abs, PVSys.step, PSys.step]
      congr 1
      apply ih <;> simp [advance_zero]

/-- **End to end (clause "exactly the first quota requests … until the period expires … a store error is an error"):**
for every quota, every period ≥ 1 and EVERY sequence of takes (any keys), clock advances, link states (served, down,
NOSCRIPT reload served, NOSCRIPT reload failing, EVALSHA failing) and script-cache flushes, the replies of
`TakeCtx` over `ScriptRunCtx` over the script over the store are the replies of the specification by lives, where a
take on a failing link is answered `(Unknown, err)` and does not count. -/
theorem period_refines_spec_via (quota period : Nat) (hp : 1 ≤ period) (ops : List PVOp) :
    PVSys.run quota period PVSys.init ops = SpecSys.run quota period SpecSys.init (ops.map PVOp.abs) := by
  rw [pv_run_is_run quota period ops PVSys.init PSys.init rfl rfl]
  exact period_refines_spec_from quota period hp _ PSys.init SpecSys.init ⟨rfl, rfl, fun _ => rfl⟩

example : PVSys.run 2 1 PVSys.init [.flush, .take "a", .link .noscript, .take "a", .link .noscriptDown, .take "a",
      .link .shaDown, .take "a", .link .up, .take "a", .ft 1000, .take "a"]
    = [none, some (.allowed, .nil), none, some (.hitQuota, .nil), none, some (.unknown, .store), none,
       some (.unknown, .store), none, some (.overQuota, .nil), none, some (.allowed, .nil)] := by decide

/-! ## TokenLimiter.reserveN: the reply table -/

/-- the only reply that grants from the store is the integer 1 -/
theorem reserve_grants_only_on_one (r : TReply) : reserveDecide r = .grant ↔ r = .int 1 := by
  cases r with
  | int v => by_cases h : v = 1 <;> simp [reserveDecide, h]
  | _ => simp [reserveDecide]

/-- the script's boolean arrives as 1 / `redis.Nil` and is decoded back to itself; a store error is never a grant
and never a plain denial: the local limiter decides (`rescue`) -/
theorem reserve_lua_bool (b : Bool) :
    reserveDecide (luaBoolReply b) = (if b then .grant else .deny) ∧ reserveDecide .err = .rescue ∧
    reserveDecide .other = .rescue ∧ reserveDecide .ctxErr = .deny := by
  cases b <;> simp [reserveDecide, luaBoolReply]

/-- **`Sys.reserveN` follows the reply table**: for an instance on the store path, the deciding bucket and the
decision are `reserveDecide` applied to what the script path hands back. -/
theorem reserveN_follows_reply_table (c : TCfg) (s : Sys) (i ns n : Nat) (ha : (s.insts i).alive = true) :
    let reply := tokenReplyOf (if s.up then some ((tokenScript true c s.store (ns / nsPerSec) n).map (·.2)) else none)
    ((s.reserveN true c i ns n).2.route = .rescue ↔ reserveDecide reply = .rescue) ∧
    ((s.reserveN true c i ns n).2.route = .store →
      ((s.reserveN true c i ns n).2.ok = true ↔ reserveDecide reply = .grant)) := by
  simp only [Sys.reserveN, ha]
  cases hu : s.up with
  | false => simp [tokenReplyOf, reserveDecide, Sys.rescuePath]
  | true =>
    cases ht : tokenScript true c s.store (ns / nsPerSec) n with
    | none => simp [tokenReplyOf, reserveDecide, Sys.rescuePath]
    | some r =>
      cases hb : r.2 <;> simp [tokenReplyOf, reserveDecide, luaBoolReply, hb]

/-- **While the store is unreachable the instance decides locally** and a monitor exists: the failed call touches
nothing in the store, switches the instance to its rescue limiter and leaves `monitorStarted` set. -/
theorem token_store_error_goes_local (fixed : Bool) (c : TCfg) (s : Sys) (i ns n : Nat) (hd : s.up = false) :
    (s.reserveN fixed c i ns n).2.route = .rescue ∧ (s.reserveN fixed c i ns n).1.store = s.store ∧
    ((s.insts i).alive = true → ((s.reserveN fixed c i ns n).1.insts i).monitor = true ∧
      ((s.insts i).monitor = false → ((s.reserveN fixed c i ns n).1.insts i).alive = false)) := by
  unfold Sys.reserveN
  cases ha : (s.insts i).alive <;> cases hm : (s.insts i).monitor <;>
    simp [hd, Sys.rescuePath, Inst.startMonitor, upd, ha, hm]

/-- `Ping()` says true only when the PING came back as PONG: an error on the path keeps the instance in rescue mode -/
theorem ping_true_only_on_pong (typeOk : Bool) (reply : Option String) :
    pingResult typeOk reply = true ↔ (typeOk = true ∧ reply = some "PONG") := by
  cases typeOk <;> cases reply <;> simp [pingResult]

/-! ## arguments nothing validates, on integers -/

/-- **The script on integers is the script on `toNat`s**: Lua compares `current ≥ 1` with `limit` (so every
`limit ≤ 0` behaves like 0: always OverQuota) and `EXPIRE key w` with `w ≤ 0` deletes the key (like 0). This is why
the natural-number theorems of Props.lean apply to `quota.toNat` / `window.toNat` of the Go ints. -/
theorem periodScriptZ_is_periodScript (s : Store) (k : String) (limit window : Int) :
    periodScriptZ s k limit window =
      ((periodScript s k limit.toNat window.toNat).1, ((periodScript s k limit.toNat window.toNat).2 : Int)) := by
  have hcur : 1 ≤ (s.incrby k 1).2 := by unfold Store.incrby; split <;> simp
  unfold periodScriptZ periodScript
  generalize s.incrby k 1 = r at hcur
  obtain ⟨s1, cur⟩ := r
  simp only at hcur ⊢
  refine Prod.ext ?_ ?_
  · simp only []
    by_cases h1 : cur = 1
    · simp [h1]
    · have : ¬ ((cur : Int) = 1) := by omega
      simp [h1, this]
  · show (if (cur : Int) < limit then (1 : Int) else if (cur : Int) = limit then 2 else 0)
        = ((if cur < limit.toNat then 1 else if cur = limit.toNat then 2 else 0 : Nat) : Int)
    have e1 : ((cur : Int) < limit) ↔ cur < limit.toNat := by omega
    have e2 : ((cur : Int) = limit) ↔ cur = limit.toNat := by omega
    simp only [e1, e2]
    split
    · simp
    · split <;> simp

example : periodScriptZ Store.empty "a" (-3) 5 = ((Store.empty.put "a" ⟨1, some 5000⟩), 0) ∧
    (periodScriptZ Store.empty "a" 2 (-5)).1.get "a" = none := by decide

end GoZero.C03.PropsPath
